use bevy::{prelude::*, ecs::entity::MapEntities};
use bevy_replicon::{
    client::{ServerUpdateTick, confirm_history::ConfirmHistory},
    prelude::*,
    server::server_tick::ServerTick,
    shared::{backend::connected_client::ConnectedClient, server_entity_map::ServerEntityMap, entity_serde},
    test_app::{ServerTestAppExt, TestClientEntity},
};
use bytes::Bytes;
use serde::{Deserialize, Serialize};
use std::panic::{catch_unwind, AssertUnwindSafe};

#[derive(Component, Serialize, Deserialize, Clone, Copy, PartialEq, Debug)]
struct A(u32);
#[derive(Component, Serialize, Deserialize, Clone, Copy, PartialEq, Debug)]
struct B(u32);
#[derive(Component, Serialize, Deserialize, Clone, Copy, PartialEq, Debug)]
struct Ref(#[entities] Entity);

fn tick(app: &mut App) {
    app.world_mut().resource_mut::<ServerTick>().increment();
    app.update();
}

#[test]
fn f5_unauthorized_ack_panics() {
    let mut s = App::new();
    s.add_plugins((MinimalPlugins, RepliconPlugins.set(ServerPlugin{tick_policy: TickPolicy::Manual, ..Default::default()}))).finish();
    s.world_mut().resource_mut::<RepliconServer>().set_running(true);
    let ce = s.world_mut().spawn(ConnectedClient{max_size:1200}).id();
    s.update();
    s.world_mut().resource_mut::<RepliconServer>().insert_received(ce, 0usize, vec![0u8,0u8]);
    let r = catch_unwind(AssertUnwindSafe(|| s.update()));
    println!("f5 panicked = {}", r.is_err());
    assert!(r.is_ok());
}

#[test]
fn f10_trigger_len() {
    for bytes in [vec![0xffu8,0xff,0xff,0xff,0xff,0xff,0xff,0xff,0x7f], vec![0x01, 0x01, 0xff,0xff,0xff,0xff,0x0f]] {
        let mut s = App::new();
        s.add_plugins((MinimalPlugins, RepliconPlugins.set(ServerPlugin{tick_policy: TickPolicy::Manual, ..Default::default()}))).finish();
        s.world_mut().resource_mut::<RepliconServer>().set_running(true);
        let ce = s.world_mut().spawn(ConnectedClient{max_size:1200}).id();
        s.update();
        // channel 1 = ProtocolHash trigger (client channel 0 is acks)
        s.world_mut().resource_mut::<RepliconServer>().insert_received(ce, 1usize, bytes.clone());
        let r = catch_unwind(AssertUnwindSafe(|| s.update()));
        println!("f10 {:?} panicked = {}", bytes, r.is_err());
    }
}

#[test]
fn f15_entity_decode() {
    for bytes in [vec![0x01u8, 0xff,0xff,0xff,0xff,0x0f], vec![0x01u8, 0xfe,0xff,0xff,0xff,0x07], vec![0x01u8, 0xff,0xff,0xff,0xff,0x07]] {
        let mut b = Bytes::from(bytes.clone());
        let r = catch_unwind(AssertUnwindSafe(|| entity_serde::deserialize_entity(&mut b).map_err(|e| e.to_string())));
        println!("decode {:?} -> {:?}", bytes, r.as_ref().map_err(|_| "PANIC"));
    }
}

#[test]
fn f6_confirm_history() {
    let mut h = ConfirmHistory::new(RepliconTick::new(1));
    h.confirm(RepliconTick::new(2)); // mask 0b11
    h.confirm(RepliconTick::new(2 + 64)); // gap 64
    println!("mask after 64 gap = {:b}", h.mask());
    println!("contains(65) = {} (expected false)", h.contains(RepliconTick::new(65)));
    let mut h = ConfirmHistory::new(RepliconTick::new(100));
    let r = catch_unwind(AssertUnwindSafe(|| h.contains_any(RepliconTick::new(37), RepliconTick::new(100))));
    println!("contains_any 64-range = {:?}", r.as_ref().map_err(|_| "PANIC"));
}

#[test]
fn f8_reference_before_spawn() {
    let mut s = App::new();
    let mut c = App::new();
    for app in [&mut s, &mut c] {
        app.add_plugins((MinimalPlugins, RepliconPlugins.set(ServerPlugin{tick_policy: TickPolicy::Manual, ..Default::default()})))
            .replicate::<A>().replicate::<Ref>().finish();
    }
    s.connect_client(&mut c);
    let y = s.world_mut().spawn(Replicated).id();
    let x = s.world_mut().spawn((Replicated, Ref(y))).id();
    s.world_mut().entity_mut(y).insert(A(5));
    let _ = x;
    tick(&mut s);
    s.exchange_with_client(&mut c);
    c.update();
    let n_marked = c.world_mut().query::<&Replicated>().iter(c.world()).count();
    let n_hist = c.world_mut().query::<&ConfirmHistory>().iter(c.world()).count();
    let n_map = c.world().resource::<ServerEntityMap>().to_client().len();
    println!("f8: marked {n_marked} hist {n_hist} mapped {n_map}");
    assert_eq!(n_marked, 2);
}

#[test]
fn f11_idle_with_related() {
    let mut s = App::new();
    let mut c = App::new();
    for app in [&mut s, &mut c] {
        app.add_plugins((MinimalPlugins, RepliconPlugins.set(ServerPlugin{tick_policy: TickPolicy::Manual, ..Default::default()})))
            .replicate::<A>().replicate::<ChildOf>().sync_related_entities::<ChildOf>().finish();
    }
    s.connect_client(&mut c);
    let p = s.world_mut().spawn((Replicated, A(1))).id();
    let _ch = s.world_mut().spawn((Replicated, A(2), ChildOf(p))).id();
    let mut counts = vec![];
    for _ in 0..6 {
        tick(&mut s);
        let n = s.world_mut().resource_mut::<RepliconServer>().drain_sent().map(|(_,ch,m)| { let mut cm = c.world_mut().resource_mut::<RepliconClient>(); cm.insert_received(ch, m.clone()); (ch, m.len()) }).collect::<Vec<_>>();
        counts.push(n);
        c.update();
        s.exchange_with_client(&mut c);
    }
    println!("f11 per-tick sent: {:?}", counts);
    assert!(counts.last().unwrap().is_empty());
}
