use bevy::prelude::*;
use bevy_replicon::{
    client::{ServerUpdateTick, confirm_history::ConfirmHistory},
    prelude::*,
    server::server_tick::ServerTick,
    shared::{backend::connected_client::ConnectedClient, server_entity_map::ServerEntityMap},
    test_app::{ServerTestAppExt, TestClientEntity},
};
use bytes::Bytes;
use serde::{Deserialize, Serialize};

#[derive(Component, Serialize, Deserialize, Clone, Copy, PartialEq, Debug)]
struct A(u32);
#[derive(Component, Serialize, Deserialize, Clone, Copy, PartialEq, Debug)]
struct B(u32);
#[derive(Component, Serialize, Deserialize, Clone, Copy, PartialEq, Debug)]
struct P(u32);

fn mk(vis: VisibilityPolicy) -> (App, App) {
    let mut server_app = App::new();
    let mut client_app = App::new();
    for app in [&mut server_app, &mut client_app] {
        app.add_plugins((
            MinimalPlugins,
            RepliconPlugins.set(ServerPlugin {
                tick_policy: TickPolicy::Manual,
                visibility_policy: vis,
                ..Default::default()
            }),
        ))
        .replicate::<A>()
        .replicate::<B>()
        .replicate_periodic::<P>(3)
        .finish();
    }
    server_app.connect_client(&mut client_app);
    (server_app, client_app)
}

fn tick(app: &mut App) {
    app.world_mut().resource_mut::<ServerTick>().increment();
    app.update();
}

/// Drain server->client messages into a holding vec.
fn drain(server: &mut App) -> Vec<(usize, Bytes)> {
    server
        .world_mut()
        .resource_mut::<RepliconServer>()
        .drain_sent()
        .map(|(_, c, m)| (c, m))
        .collect()
}
fn deliver(client: &mut App, msgs: impl IntoIterator<Item = (usize, Bytes)>) {
    let mut c = client.world_mut().resource_mut::<RepliconClient>();
    for (ch, m) in msgs {
        c.insert_received(ch, m);
    }
}
fn acks_to_server(server: &mut App, client: &mut App) {
    let ce = **client.world().resource::<TestClientEntity>();
    let msgs: Vec<_> = client.world_mut().resource_mut::<RepliconClient>().drain_sent().collect();
    let mut s = server.world_mut().resource_mut::<RepliconServer>();
    for (ch, m) in msgs {
        s.insert_received(ce, ch, m);
    }
}

#[test]
fn f1_ack_on_receipt_then_outdated() {
    let (mut s, mut c) = mk(VisibilityPolicy::All);
    let e = s.world_mut().spawn((Replicated, A(1))).id();
    tick(&mut s);
    let u1 = drain(&mut s); // held
    assert_eq!(u1.len(), 1);
    s.world_mut().get_mut::<A>(e).unwrap().0 = 2;
    tick(&mut s);
    let m2 = drain(&mut s);
    assert_eq!(m2.len(), 1);
    assert_eq!(m2[0].0, 1);
    deliver(&mut c, m2);
    c.update(); // buffers + acks
    acks_to_server(&mut s, &mut c);
    s.update(); // receive acks (no tick)
    s.world_mut().entity_mut(e).insert(B(7));
    tick(&mut s);
    let u3 = drain(&mut s);
    println!("u3 = {:?}", u3);
    deliver(&mut c, u1);
    deliver(&mut c, u3);
    c.update();
    acks_to_server(&mut s, &mut c);
    // quiesce
    for _ in 0..5 {
        tick(&mut s);
        s.exchange_with_client(&mut c);
        c.update();
        s.exchange_with_client(&mut c);
    }
    let a = *c.world_mut().query::<&A>().single(c.world()).unwrap();
    println!("client A = {a:?}, server A = {:?}", s.world().get::<A>(e));
    assert_eq!(a, A(2), "F1: client diverged");
}

#[test]
fn f2_removal_then_removal() {
    let (mut s, mut c) = mk(VisibilityPolicy::All);
    let e = s.world_mut().spawn((Replicated, A(1), B(1))).id();
    tick(&mut s);
    s.exchange_with_client(&mut c);
    c.update();
    s.exchange_with_client(&mut c);
    s.world_mut().entity_mut(e).remove::<A>();
    s.update(); // frame without tick
    s.world_mut().entity_mut(e).remove::<B>();
    s.update();
    for _ in 0..3 {
        tick(&mut s);
        s.exchange_with_client(&mut c);
        c.update();
        s.exchange_with_client(&mut c);
    }
    let has_a = c.world_mut().query::<&A>().iter(c.world()).count();
    let has_b = c.world_mut().query::<&B>().iter(c.world()).count();
    println!("client A count {has_a}, B count {has_b}");
    assert_eq!((has_a, has_b), (0, 0), "F2: removal lost");
}

#[test]
fn f3_removal_then_despawn() {
    let (mut s, mut c) = mk(VisibilityPolicy::All);
    let e = s.world_mut().spawn((Replicated, A(1), B(1))).id();
    tick(&mut s);
    s.exchange_with_client(&mut c);
    c.update();
    s.exchange_with_client(&mut c);
    s.world_mut().entity_mut(e).remove::<A>();
    s.update();
    s.world_mut().entity_mut(e).despawn();
    s.update();
    for _ in 0..3 {
        tick(&mut s);
        s.exchange_with_client(&mut c);
        c.update();
        s.exchange_with_client(&mut c);
    }
    let n = c.world_mut().query::<&Replicated>().iter(c.world()).count();
    println!("client replicated entities {n}");
    assert_eq!(n, 0, "F3: zombie");
}

#[test]
fn f4_periodic_lost() {
    let (mut s, mut c) = mk(VisibilityPolicy::All);
    let e = s.world_mut().spawn((Replicated, A(1), P(1))).id();
    // go to tick 3
    for _ in 0..3 {
        tick(&mut s);
        s.exchange_with_client(&mut c);
        c.update();
        s.exchange_with_client(&mut c);
    }
    println!("tick {:?}", s.world().resource::<ServerTick>());
    // tick 4: mutate both
    s.world_mut().get_mut::<A>(e).unwrap().0 = 2;
    s.world_mut().get_mut::<P>(e).unwrap().0 = 2;
    for _ in 0..9 {
        tick(&mut s);
        s.exchange_with_client(&mut c);
        c.update();
        s.exchange_with_client(&mut c);
    }
    let p = *c.world_mut().query::<&P>().single(c.world()).unwrap();
    let a = *c.world_mut().query::<&A>().single(c.world()).unwrap();
    println!("tick {:?} client P {p:?} A {a:?}", s.world().resource::<ServerTick>());
    assert_eq!(p, P(2), "F4: periodic never catches up");
}

#[test]
fn f9_hide_then_despawn_blacklist() {
    let (mut s, mut c) = mk(VisibilityPolicy::Blacklist);
    let e = s.world_mut().spawn((Replicated, A(1))).id();
    tick(&mut s);
    s.exchange_with_client(&mut c);
    c.update();
    s.exchange_with_client(&mut c);
    assert_eq!(c.world_mut().query::<&Replicated>().iter(c.world()).count(), 1);
    let ce = **c.world().resource::<TestClientEntity>();
    s.world_mut().get_mut::<ClientVisibility>(ce).unwrap().set_visibility(e, false);
    s.world_mut().entity_mut(e).despawn();
    for _ in 0..3 {
        tick(&mut s);
        s.exchange_with_client(&mut c);
        c.update();
        s.exchange_with_client(&mut c);
    }
    let n = c.world_mut().query::<&Replicated>().iter(c.world()).count();
    println!("client replicated entities {n}");
    assert_eq!(n, 0, "F9: leaked");
}
