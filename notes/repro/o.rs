use bevy::prelude::*;
use bevy_replicon::prelude::*;
use serde::{Deserialize, Serialize};
#[derive(Component, Serialize, Deserialize)]
struct A(u32);
#[derive(Event, Serialize, Deserialize)]
struct E1;
#[test]
fn hash_layout() {
    for variant in 0..3 {
        let mut app = App::new();
        app.add_plugins(RepliconPlugins.set(RepliconSharedPlugin{auth_method: AuthMethod::None}));
        match variant { 0 => {}, 1 => { app.replicate::<A>(); }, _ => { app.add_server_event::<E1>(Channel::Ordered); app.make_event_independent::<E1>(); } }
        app.finish();
        println!("o: variant {variant} {:?}", app.world().resource::<ProtocolHash>());
    }
    println!("o: name {}", core::any::type_name::<RuleFns<A>>());
    println!("o: name {}", core::any::type_name::<E1>());
}
