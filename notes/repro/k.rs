use bevy::prelude::*;
use bevy_replicon::{prelude::*, server::server_tick::ServerTick, test_app::{ServerTestAppExt, TestClientEntity}};
use serde::{Deserialize, Serialize};

#[derive(Component, Serialize, Deserialize, Clone, Copy, PartialEq, Debug)]
struct A(u32);

fn tick(app: &mut App) {
    app.world_mut().resource_mut::<ServerTick>().increment();
    app.update();
}

#[test]
fn f15_marker_toggle_wipes_visibility() {
    let mut s = App::new();
    let mut c = App::new();
    for app in [&mut s, &mut c] {
        app.add_plugins((MinimalPlugins, RepliconPlugins.set(ServerPlugin{tick_policy: TickPolicy::Manual, visibility_policy: VisibilityPolicy::Blacklist, ..Default::default()})))
            .replicate::<A>().finish();
    }
    s.connect_client(&mut c);
    let ce = **c.world().resource::<TestClientEntity>();
    let e = s.world_mut().spawn((Replicated, A(42))).id();
    s.world_mut().get_mut::<ClientVisibility>(ce).unwrap().set_visibility(e, false);
    tick(&mut s); s.exchange_with_client(&mut c); c.update();
    println!("k: after hide: client has {}", c.world_mut().query::<&A>().iter(c.world()).count());
    s.world_mut().entity_mut(e).remove::<Replicated>();
    s.update();
    s.world_mut().entity_mut(e).insert(Replicated);
    tick(&mut s); s.exchange_with_client(&mut c); c.update();
    let vis = s.world().get::<ClientVisibility>(ce).unwrap().is_visible(e);
    println!("k: after toggle: is_visible={} client has {}", vis, c.world_mut().query::<&A>().iter(c.world()).count());
}
