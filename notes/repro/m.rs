use bevy::prelude::*;
use bevy_replicon::{prelude::*, server::server_tick::ServerTick, test_app::{ServerTestAppExt, TestClientEntity}};
use serde::{Deserialize, Serialize};

#[derive(Component, Serialize, Deserialize, Clone, Copy, PartialEq, Debug)]
struct A(u32);
#[derive(Component, Serialize, Deserialize, Clone, Copy, PartialEq, Debug)]
struct B(u32);

fn tick(app: &mut App) {
    app.world_mut().resource_mut::<ServerTick>().increment();
    app.update();
}

#[test]
fn f16_restart_keeps_removal_buffer() {
    let mut s = App::new();
    let mut c = App::new();
    for app in [&mut s, &mut c] {
        app.add_plugins((MinimalPlugins, RepliconPlugins.set(ServerPlugin{tick_policy: TickPolicy::Manual, ..Default::default()}).set(RepliconSharedPlugin{auth_method: AuthMethod::None})))
            .replicate::<A>().replicate::<B>().finish();
    }
    s.connect_client(&mut c);
    let e = s.world_mut().spawn((Replicated, A(1), B(1))).id();
    tick(&mut s); s.exchange_with_client(&mut c); c.update(); s.exchange_with_client(&mut c);
    s.world_mut().entity_mut(e).remove::<A>();
    s.update(); // buffered removal, no tick
    // stop server
    s.disconnect_client(&mut c);
    s.world_mut().resource_mut::<RepliconServer>().set_running(false);
    s.update();
    c.update();
    s.world_mut().entity_mut(e).despawn();
    s.update();
    println!("m: client entities after disconnect: {}", c.world_mut().query::<&Replicated>().iter(c.world()).count());
    // client cleans its world as a game would
    let ents: Vec<Entity> = c.world_mut().query_filtered::<Entity, With<Replicated>>().iter(c.world()).collect();
    for en in ents { c.world_mut().despawn(en); }
    // restart
    s.connect_client(&mut c);
    for _ in 0..3 { tick(&mut s); s.exchange_with_client(&mut c); c.update(); s.exchange_with_client(&mut c); }
    println!("m: server replicated {} client replicated {}", s.world_mut().query::<&Replicated>().iter(s.world()).count(), c.world_mut().query::<&Replicated>().iter(c.world()).count());
}
