use bevy::prelude::*;
use bevy_replicon::{prelude::*, scene, test_app::ServerTestAppExt};
use bevy_replicon_example_backend::{ExampleClient, ExampleServer, RepliconExampleBackendPlugins};
use serde::{Deserialize, Serialize};
use std::panic::{catch_unwind, AssertUnwindSafe};

#[derive(Deserialize, Event, Serialize, Clone, Copy, Debug)]
struct Seq(u32);

#[test]
fn f7_heap_order() {
    let mut server_app = App::new();
    let mut client_app = App::new();
    for app in [&mut server_app, &mut client_app] {
        app.add_plugins((
            MinimalPlugins,
            RepliconPlugins.set(ServerPlugin { tick_policy: TickPolicy::EveryFrame, ..Default::default() }),
            RepliconExampleBackendPlugins,
        ))
        .add_server_event::<Seq>(Channel::Ordered)
        .make_event_independent::<Seq>()
        .finish();
    }
    let server_socket = ExampleServer::new(0).unwrap();
    let port = server_socket.local_addr().unwrap().port();
    let client_socket = ExampleClient::new(port).unwrap();
    server_app.insert_resource(server_socket);
    client_app.insert_resource(client_socket);
    server_app.update(); client_app.update(); server_app.update(); client_app.update();
    for n in [2u32, 3, 4, 6, 8, 12, 20] {
        for i in 0..n {
            server_app.world_mut().send_event(ToClients { mode: SendMode::Broadcast, event: Seq(i) });
        }
        server_app.update();
        std::thread::sleep(std::time::Duration::from_millis(50));
        client_app.update();
        let got: Vec<u32> = client_app.world_mut().resource_mut::<Events<Seq>>().drain().map(|s| s.0).collect();
        println!("f7 n={n} got {:?} ordered={}", got, got.windows(2).all(|w| w[0] < w[1]));
    }
}

#[derive(Component, Reflect, Serialize, Deserialize, Default, Clone)]
#[reflect(Component)]
struct RA(u32);
#[derive(Component, Reflect, Serialize, Deserialize, Default, Clone)]
#[reflect(Component)]
struct RB(u32);

#[test]
fn f12_scene_dup() {
    let mut app = App::new();
    app.add_plugins(RepliconPlugins)
        .register_type::<RA>().register_type::<RB>()
        .replicate::<RA>()
        .replicate_bundle::<(RA, RB)>()
        .finish();
    app.world_mut().spawn((Replicated, RA(1), RB(2)));
    let mut sc = DynamicScene::default();
    scene::replicate_into(&mut sc, app.world());
    println!("f12 components on entity: {}", sc.entities[0].components.len());
    let reg = app.world().resource::<AppTypeRegistry>().read();
    let ser = sc.serialize(&reg);
    println!("f12 serialize ok={}", ser.is_ok());
    if let Ok(s) = ser {
        use bevy::scene::serde::SceneDeserializer;
        use serde::de::DeserializeSeed;
        let mut d = bevy::asset::ron::Deserializer::from_str(&s).unwrap();
        let r = SceneDeserializer { type_registry: &reg }.deserialize(&mut d);
        println!("f12 deserialize ok={} {:?}", r.is_ok(), r.err().map(|e| e.to_string()));
    }
}

#[derive(Deserialize, Event, Serialize, Clone, Copy, Debug)]
struct Cev(u32);

#[test]
fn f13_local_resend_after_disconnect() {
    let mut server_app = App::new();
    let mut client_app = App::new();
    for app in [&mut server_app, &mut client_app] {
        app.add_plugins((
            MinimalPlugins,
            RepliconPlugins.set(ServerPlugin { tick_policy: TickPolicy::EveryFrame, ..Default::default() }),
        ))
        .add_client_event::<Cev>(Channel::Ordered)
        .finish();
    }
    server_app.connect_client(&mut client_app);
    client_app.world_mut().send_event(Cev(1));
    client_app.update(); // sent to remote server
    let sent = client_app.world_mut().resource_mut::<RepliconClient>().drain_sent().count();
    println!("f13 sent to network: {sent}");
    // now disconnect
    let r = catch_unwind(AssertUnwindSafe(|| {
        server_app.disconnect_client(&mut client_app);
        client_app.update();
    }));
    println!("f13 panicked={}", r.is_err());
    let local: Vec<_> = client_app.world_mut().resource_mut::<Events<FromClient<Cev>>>().drain().map(|e| (e.client, e.event.0)).collect();
    println!("f13 locally handled after disconnect: {:?}", local);
}

#[test]
fn f13b_protocol_hash_panics() {
    let mut server_app = App::new();
    let mut client_app = App::new();
    for app in [&mut server_app, &mut client_app] {
        app.add_plugins((
            MinimalPlugins,
            RepliconPlugins.set(ServerPlugin { tick_policy: TickPolicy::EveryFrame, ..Default::default() }),
        ))
        .finish();
    }
    // connect manually: only one client frame, then disconnect
    server_app.world_mut().resource_mut::<RepliconServer>().set_running(true);
    client_app.world_mut().resource_mut::<RepliconClient>().set_status(RepliconClientStatus::Connected);
    client_app.update(); // sends protocol hash
    client_app.world_mut().resource_mut::<RepliconClient>().set_status(RepliconClientStatus::Disconnected);
    let r = catch_unwind(AssertUnwindSafe(|| { client_app.update(); client_app.update(); }));
    println!("f13b panicked={}", r.is_err());
}
