use bevy::prelude::*;
use bevy_replicon::{prelude::*, scene, server::server_tick::ServerTick, shared::backend::connected_client::ConnectedClient, test_app::{ServerTestAppExt, TestClientEntity}};
use serde::{Deserialize, Serialize};
use bytes::Bytes;

#[derive(Component, Reflect, Serialize, Deserialize, Default, Clone)]
#[reflect(Component)]
struct RA(u32);

#[test]
fn f17_double_export() {
    let mut app = App::new();
    app.add_plugins(RepliconPlugins).register_type::<RA>().replicate::<RA>().finish();
    app.world_mut().spawn((Replicated, RA(1)));
    let mut sc = DynamicScene::default();
    scene::replicate_into(&mut sc, app.world());
    scene::replicate_into(&mut sc, app.world());
    println!("n: entities {} comps {}", sc.entities.len(), sc.entities[0].components.len());
}

#[derive(Component, Serialize, Deserialize, Clone, Copy, PartialEq, Debug)]
struct A(u32);

fn tick(app: &mut App) { app.world_mut().resource_mut::<ServerTick>().increment(); app.update(); }

#[test]
fn f15_index_wrap() {
    let mut s = App::new();
    let mut c = App::new();
    for app in [&mut s, &mut c] {
        app.add_plugins((MinimalPlugins, RepliconPlugins.set(ServerPlugin{tick_policy: TickPolicy::Manual, ..Default::default()}).set(RepliconSharedPlugin{auth_method: AuthMethod::None})))
            .replicate::<A>().finish();
    }
    s.connect_client(&mut c);
    let ce = **c.world().resource::<TestClientEntity>();
    s.world_mut().get_mut::<ConnectedClient>(ce).unwrap().max_size = 1;
    let n = 512usize;
    let ents: Vec<Entity> = (0..n).map(|i| s.world_mut().spawn((Replicated, A(i as u32))).id()).collect();
    tick(&mut s); s.exchange_with_client(&mut c); c.update(); s.exchange_with_client(&mut c); s.update();
    // tick X: mutate entity 0 only; hold its mutate message (old index k)
    s.world_mut().get_mut::<A>(ents[0]).unwrap().0 = 1000;
    tick(&mut s);
    let held: Vec<(usize, Bytes)> = s.world_mut().resource_mut::<RepliconServer>().drain_sent().map(|(_,ch,m)|(ch,m)).collect();
    println!("n: held {} msgs", held.len());
    // ack entity0 via a later message so it stops being resent: deliver next tick's resend
    tick(&mut s); s.exchange_with_client(&mut c); c.update(); s.exchange_with_client(&mut c); s.update();
    // now burn 65536 - small indices by mutating all other entities every tick, dropping everything
    let mut sent = 0usize;
    while sent < 65536 - 2 - 511 {
        for e in &ents[1..] { s.world_mut().get_mut::<A>(*e).unwrap().0 += 1; }
        tick(&mut s);
        sent += s.world_mut().resource_mut::<RepliconServer>().drain_sent().count();
    }
    println!("n: burned {sent}");
    // next tick: messages get indices wrapping onto the held one. Drop them all, then deliver the OLD held message -> client acks old index
    for e in &ents[1..] { s.world_mut().get_mut::<A>(*e).unwrap().0 += 1; }
    tick(&mut s);
    let dropped = s.world_mut().resource_mut::<RepliconServer>().drain_sent().count();
    println!("n: dropped {dropped}");
    { let mut cl = c.world_mut().resource_mut::<RepliconClient>(); for (ch,m) in held { cl.insert_received(ch, m); } }
    c.update();
    s.exchange_with_client(&mut c); // acks for old index
    s.update();
    // quiesce with perfect link
    for _ in 0..4 { tick(&mut s); s.exchange_with_client(&mut c); c.update(); s.exchange_with_client(&mut c); s.update(); }
    // compare
    let mut diff = 0;
    let map = c.world().resource::<bevy_replicon::shared::server_entity_map::ServerEntityMap>().to_client().clone();
    for e in &ents { let sv = s.world().get::<A>(*e).unwrap().0; let cv = c.world().get::<A>(map[e]).unwrap().0; if sv != cv { diff += 1; } }
    println!("n: diverged entities {diff}");
}
