import Replicon.Gen.Consts
import Replicon.Model.Basic
import Replicon.Model.Varint
import Replicon.Model.EntityCodec
import Replicon.Proofs.Varint
import Replicon.Proofs.EntityCodec
import Replicon.Props.C15
