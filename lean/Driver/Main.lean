import Std.Data.HashSet
import Driver.Core
import Driver.C15
import Driver.C12
import Driver.C17
import Driver.C14
import Driver.Sys
import Driver.C18
/-
replicon_driver: reads the harness stream on stdin, runs the Lean model in lock step,
prints one `FAIL …` line per verdict, the failing case as a replay block, statistics and a
summary.  Exit code 0 always (the orchestrator decides); a non-zero exit means the driver
itself crashed.
-/
namespace Driver
open Replicon

structure DState where
  lineNo : Nat := 0
  records : Nat := 0
  cases : Nat := 0
  failedCases : Nat := 0
  mismatches : Nat := 0
  oracles : Nat := 0
  bads : Nat := 0
  stats : List (String × Nat) := []   -- small assoc list; keys are few
  -- current case
  inCase : Bool := false
  caseHdr : String := ""
  caseLines : Array String := #[]      -- all lines of the current case (inputs and observations)
  caseFailed : Bool := false
  -- current record
  curInput : Option String := none
  curObs : Array String := #[]
  printedReplays : Nat := 0
  seen : Std.HashSet UInt64 := {}
  distinctNontrivial : Nat := 0
  samples : List (String × Nat) := []   -- per record head: how many samples printed
  sys : Option Sys.State := none

def bump (st : List (String × Nat)) (k : String) : List (String × Nat) :=
  match st with
  | [] => [(k, 1)]
  | (k', n) :: rest => if k' = k then (k', n + 1) :: rest else (k', n) :: bump rest k

/-- Dispatch a complete record (stateless leaf handlers). -/
def dispatch (inp : String) (obs : List String) : Outcome :=
  let ts := toks inp
  match ts.head? with
  | some "c15dec" => C15.handleDec ts obs
  | some "c15rt" => C15.handleRt ts obs
  | some "c17" => C17.handle ts obs
  | some "c14pair" => C14.handlePair ts obs
  | some "c14hs" => C14.handleHs ts obs
  | some "c18" => C18.handle ts obs
  | some "c12cmp" => C12.handleCmp ts obs
  | some "c12ch" => C12.handleCh ts obs
  | some "c12smt" => C12.handleSmt ts obs
  | _ => { verdicts := [.bad s!"unknown record {inp}"] }

def maxReplays : Nat := 400

def flushRecord (s : DState) : IO DState := do
  match s.curInput with
  | none => return s
  | some inp =>
    let obs := s.curObs.toList
    let mut s := { s with curInput := none, curObs := #[], records := s.records + 1 }
    let out ← match s.inCase, s.sys with
      | true, some sst =>
        let (sst', vs) := Sys.handle sst (toks inp) obs
        s := { s with sys := some sst' }
        pure ({ verdicts := vs } : Outcome)
      | _, _ => pure (dispatch inp obs)
    for k in out.stats do
      s := { s with stats := bump s.stats k }
    if out.nontrivial && !s.inCase then
      let h := hash inp
      if !s.seen.contains h then
        s := { s with seen := s.seen.insert h, distinctNontrivial := s.distinctNontrivial + 1 }
        let head := (toks inp).headD ""
        let n := (s.samples.lookup head).getD 0
        if n < 3 then
          IO.println s!"SAMPLE {inp} => {String.intercalate " | " obs}"
          s := { s with samples := (head, n + 1) :: s.samples.filter (·.1 ≠ head) }
    if !out.verdicts.isEmpty then
      for v in out.verdicts do
        if s.mismatches + s.oracles + s.bads < 4000 then
          IO.println s!"FAIL line={s.lineNo} {v.render}"
        match v with
        | .mismatch .. => s := { s with mismatches := s.mismatches + 1 }
        | .oracle .. => s := { s with oracles := s.oracles + 1 }
        | .bad .. => s := { s with bads := s.bads + 1 }
      if s.inCase then
        s := { s with caseFailed := true }
      else
        s := { s with failedCases := s.failedCases + 1 }
        if s.printedReplays < maxReplays then
          IO.println "REPLAY-BEGIN"
          IO.println inp
          IO.println "REPLAY-END"
          s := { s with printedReplays := s.printedReplays + 1 }
        else IO.println "REPLAY-SKIPPED"
    if !s.inCase then
      s := { s with cases := s.cases + 1 }
    return s

def step (s : DState) (line : String) : IO DState := do
  let s := { s with lineNo := s.lineNo + 1 }
  if line.startsWith "=" then
    let o := (line.drop 1).trimAscii.toString
    let s := { s with curObs := s.curObs.push o }
    return if s.inCase then { s with caseLines := s.caseLines.push line } else s
  let s ← flushRecord s
  if line.startsWith "case " then
    let hdr := toks line
    let sys := if hdr.getD 2 "" = "sys" then some (Sys.init hdr) else none
    return { s with inCase := true, caseHdr := line, caseLines := #[line], caseFailed := false, sys := sys }
  if line = "end" then
    let mut s := s
    -- per-case statistics and distinct / non-trivial accounting
    match s.sys with
    | some sst =>
      for k in sst.stats.eraseDups do
        s := { s with stats := bump s.stats k }
      let nontrivial := sst.stats.contains "sys.sframe_sending" && sst.stats.contains "sys.cframe_entities"
      if nontrivial then
        let h := hash (s.caseLines.toList.filter fun l => !l.startsWith "=")
        if !s.seen.contains h then
          s := { s with seen := s.seen.insert h, distinctNontrivial := s.distinctNontrivial + 1 }
          let n := (s.samples.lookup "case").getD 0
          if n < 2 then
            IO.println s!"SAMPLE {String.intercalate " ; " ((s.caseLines.toList.filter fun l => !l.startsWith "=").take 40)}"
            s := { s with samples := ("case", n + 1) :: s.samples.filter (·.1 ≠ "case") }
    | none => pure ()
    if s.caseFailed then
      s := { s with failedCases := s.failedCases + 1 }
      if s.printedReplays < maxReplays then
        IO.println "REPLAY-BEGIN"
        for l in s.caseLines do
          if !l.startsWith "=" then IO.println l
        IO.println "end"
        IO.println "REPLAY-END"
        s := { s with printedReplays := s.printedReplays + 1 }
      else IO.println "REPLAY-SKIPPED"
    return { s with inCase := false, caseLines := #[], caseFailed := false, cases := s.cases + 1, sys := none }
  if line.isEmpty || line.startsWith "#" then return s
  let s := { s with curInput := some line }
  return if s.inCase then { s with caseLines := s.caseLines.push line } else s

partial def loop (h : IO.FS.Stream) (s : DState) : IO DState := do
  let line ← h.getLine
  if line.isEmpty then
    flushRecord s
  else
    let l := if line.back = (Char.ofNat 10) then (line.dropEnd 1).toString else line
    loop h (← step s l)

end Driver

def main : IO Unit := do
  let mut s ← Driver.loop (← IO.getStdin) {}
  if s.inCase then
    -- the input ended inside a case: the process running the real code died (abort, stack
    -- overflow, kill) while executing the last input line
    let last := ((s.caseLines.toList.filter fun l => !l.startsWith "=").getLast?).getD ""
    IO.println s!"FAIL line={s.lineNo} ORACLE prop=C06 the process running the real code died while executing: {last}"
    IO.println "REPLAY-BEGIN"
    for l in s.caseLines do
      if !l.startsWith "=" then IO.println l
    -- the generator flushes its trace before it prints the frame that processes injected bytes
    if last.startsWith "junk" then IO.println "sframe tick=1"
    IO.println "end"
    IO.println "REPLAY-END"
    s := { s with oracles := s.oracles + 1, failedCases := s.failedCases + 1 }
  for (k, n) in s.stats do
    IO.println s!"STAT {k} {n}"
  IO.println s!"SUMMARY lines={s.lineNo} records={s.records} cases={s.cases} failed_cases={s.failedCases} distinct_nontrivial={s.distinctNontrivial} mismatches={s.mismatches} oracles={s.oracles} bad={s.bads}"
