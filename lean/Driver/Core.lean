import Replicon.Model.Basic
/-
Line-protocol driver core (import-free apart from the model).

Stream grammar (written by /verif/harness):
  case <id> <profile…>        start of a multi-line case (stateful trace)
  <input line>                an action / a leaf evaluation
  = <observation>             what the implementation did/returned for the preceding input line
  end                         end of a multi-line case
Input lines outside `case … end` are single-record cases.
-/
namespace Driver
open Replicon

/-- A verdict about one record. -/
inductive Verdict where
  | mismatch (prop : String) (detail : String)   -- model ≠ implementation
  | oracle (prop : String) (detail : String)     -- property predicate false on the implementation
  | bad (detail : String)                         -- driver could not parse the record
deriving Repr

def Verdict.render : Verdict → String
  | .mismatch p d => s!"MISMATCH prop={p} {d}"
  | .oracle p d => s!"ORACLE prop={p} {d}"
  | .bad d => s!"BAD {d}"

/-- Result of handling a record: verdicts (empty = ok), statistics keys to bump. -/
structure Outcome where
  verdicts : List Verdict := []
  stats : List String := []
  /-- does this record count as non-trivial for the evidence (rule stated per handler) -/
  nontrivial : Bool := false

def toks (s : String) : List String :=
  (s.trimAscii.toString.splitOn " ").filter (· ≠ "")

/-- `key=value` lookup in a token list. -/
def kv (ts : List String) (key : String) : Option String :=
  ts.findSome? fun t =>
    match t.splitOn "=" with
    | k :: v :: rest => if k = key then some (String.intercalate "=" (v :: rest)) else none
    | _ => none

def kvNat (ts : List String) (key : String) : Option Nat := (kv ts key).bind String.toNat?

def kvHex (ts : List String) (key : String) : Option (List Nat) := (kv ts key).bind parseHex

end Driver
