import Driver.Core
import Replicon.Model.Scene
namespace Driver.C18
open Replicon Replicon.Scene Driver

def letterId (c : Char) : Nat := c.toNat - 'A'.toNat   -- A=0 … F=5, X=23

/-- reflectable = registered with `#[reflect(Component)]`: A–D and X; E lacks the attribute, F is unregistered -/
def refl (k : Nat) : Bool := k < 4 || k == 23

def parseRule (s : String) : Option Rule :=
  match s.splitOn "/" with
  | [_, body] =>
    match body.splitOn ":" with
    | [p, letters] => do some { priority := (← p.toNat?), comps := letters.toList.map letterId }
    | _ => none
  | _ => none

def parseComp (s : String) : Option (Nat × Nat) :=
  match s.toList with
  | c :: rest => do some (letterId c, (← (String.ofList rest).toNat?))
  | [] => none

def parseComps (s : String) : Option (List (Nat × Nat)) :=
  if s = "-" then some [] else (s.splitOn ".").mapM parseComp

def parseWorld (s : String) : Option (List WEntity) :=
  if s = "-" then some [] else
  ((s.splitOn ";").zipIdx).mapM fun (spec, i) =>
    match spec.splitOn ":" with
    | [m, cs] => do some { id := i, marked := m = "m1", comps := (← parseComps cs) }
    | _ => none

def parseScene (s : String) : Option SceneMap :=
  if s = "-" then some [] else
  (s.splitOn ";").mapM fun ent =>
    match ent.splitOn ":" with
    | [i, cs] => do some ((← i.toNat?), (← parseComps cs))
    | _ => none

def sortPairs (l : List (Nat × Nat)) : List (Nat × Nat) :=
  (l.toArray.qsort (fun a b => a.1 < b.1 || (a.1 == b.1 && a.2 < b.2))).toList

def canon (s : SceneMap) : List (Nat × List (Nat × Nat)) :=
  ((s.map fun (i, cs) => (i, sortPairs cs)).toArray.qsort (fun a b => a.1 < b.1)).toList

def showScene (s : SceneMap) : String := toString (canon s)

/-- `c18 rules=… world=… pre=…` / `= scene=… ser=…` -/
def handle (inp : List String) (obs : List String) : Outcome :=
  match obs with
  | [o] =>
    let ots := toks o
    if o = "panic" then { verdicts := [.oracle "C18" "replicate_into panicked"] } else
    let rulesS := (kv inp "rules").getD "-"
    let rules := if rulesS = "-" then some [] else (rulesS.splitOn ",").mapM parseRule
    match rules, (kv inp "world").bind parseWorld, (kv ots "scene").bind parseScene with
    | some rules, some world, some impl =>
      let pre := kv inp "pre" = some "1"
      let scene0 : SceneMap := if pre then
        (world.filter fun e => e.id % 2 = 0).map fun e => (e.id, [(23, 900 + e.id)]) else []
      let model := replicateInto refl rules scene0 world
      let v1 := if canon model = canon impl then [] else
        [Verdict.mismatch "C18" s!"impl={showScene impl} model={showScene model}"]
      -- oracle, straight from the property text, on the implementation's scene
      let marked := world.filter (·.marked)
      let ids := impl.map (·.1)
      let expectIds := (scene0.map (·.1)) ++ ((marked.map (·.id)).filter fun i => !(scene0.map (·.1)).contains i)
      let okIds := (sortPairs (ids.map fun i => (i, 0))) = (sortPairs (expectIds.map fun i => (i, 0)))
      let selected (e : WEntity) (k : Nat) : Bool :=
        rules.any fun r => ruleMatches r e && r.comps.contains k
      let okComps := marked.all fun e =>
        match impl.lookup e.id with
        | none => false
        | some cs =>
          let cs' := cs.filter fun c => !(pre && c.1 == 23 && e.id % 2 = 0 && c.2 == 900 + e.id)
          -- exactly one copy of every selected reflectable component with its current value, nothing else
          (e.comps.all fun (k, v) =>
            (cs'.filter (· == (k, v))).length = (if selected e k && refl k then 1 else 0)) &&
          (cs'.all fun c => e.comps.contains c)
      let nodup := impl.all fun (_, cs) => (cs.map (·.1)).eraseDups.length = cs.length
      let v2 := (if okIds then [] else [Verdict.oracle "C18" s!"scene entities {ids} ≠ expected {expectIds}"]) ++
        (if okComps then [] else [Verdict.oracle "C18" s!"scene components are not exactly the selected reflected components: {showScene impl}"]) ++
        (if nodup then [] else [Verdict.oracle "C18" s!"a scene entity holds a component twice: {showScene impl}"]) ++
        (if kv ots "ser" = some "ok" then [] else [Verdict.oracle "C18" s!"scene cannot be serialized and read back: {(kv ots "ser").getD "?"}"])
      let overlap := rules.any fun r => rules.any fun r2 => r != r2 && r.comps.any (r2.comps.contains ·)
      { verdicts := v1 ++ v2,
        stats := [if overlap then "c18.overlapping_rules" else "c18.disjoint_rules", if pre then "c18.pre_existing" else "c18.fresh_scene",
                  s!"c18.marked_{marked.length}"],
        nontrivial := !marked.isEmpty && !rules.isEmpty }
    | _, _, _ => { verdicts := [.bad "c18 parse"] }
  | _ => { verdicts := [.bad "c18 shape"] }

end Driver.C18
