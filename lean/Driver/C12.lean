import Driver.Core
import Replicon.Model.HistorySpec
namespace Driver.C12
open Replicon Driver

def ordStr : Ordering → String
  | .lt => "lt" | .eq => "eq" | .gt => "gt"

/-- `c12cmp <a> <b>` / `= lt|eq|gt` with absolute ticks `a`, `b` (implementation sees residues). -/
def handleCmp (inp : List String) (obs : List String) : Outcome :=
  match inp, obs with
  | [_, sa, sb], [o] =>
    match sa.toNat?, sb.toNat? with
    | some a, some b =>
      let m := ordStr (tickCmp (a % 4294967296) (b % 4294967296))
      let v1 := if m = o then [] else [Verdict.mismatch "C12" s!"cmp impl={o} model={m}"]
      -- oracle: within half range the order is the order of the absolute ticks
      let near := decide (Near a b)
      let v2 := if near && o ≠ ordStr (compare a b) then
        [Verdict.oracle "C12" s!"cmp of ticks {a} {b} (distance < 2^31) gave {o}"] else []
      { verdicts := v1 ++ v2, stats := [if near then "c12.cmp_near" else "c12.cmp_far"], nontrivial := a ≠ b }
    | _, _ => { verdicts := [.bad "c12cmp parse"] }
  | _, _ => { verdicts := [.bad "c12cmp shape"] }

inductive Op where
  | confirm (t : Nat) (n : Nat)
  | query (t : Nat)
  | any (a b : Nat)
deriving Repr

def parseOp (s : String) : Option Op :=
  match s.toList with
  | 'c' :: rest =>
    match (String.ofList rest).splitOn ":" with
    | [t] => do some (.confirm (← t.toNat?) 1)
    | [t, n] => do some (.confirm (← t.toNat?) (← n.toNat?))
    | _ => none
  | 'q' :: rest => do some (.query (← (String.ofList rest).toNat?))
  | 'a' :: rest =>
    match (String.ofList rest).splitOn ":" with
    | [a, b] => do some (.any (← a.toNat?) (← b.toNat?))
    | _ => none
  | _ => none

def r32 (t : Nat) : Nat := t % 4294967296
def b2s (b : Bool) : String := if b then "1" else "0"

structure Acc where
  verdicts : List Verdict := []
  stats : List String := []
  stop : Bool := false

/-- `c12ch wf=<0|1> <t0> <ops…>` / one `=` line with one result per op:
confirm → `<mask>:<last>` | `panic`; query → `0|1|panic`. -/
def handleCh (inp : List String) (obs : List String) : Outcome := Id.run do
  match inp, obs with
  | _ :: swf :: st0 :: sops, [o] =>
    let some t0 := st0.toNat? | return { verdicts := [.bad "c12ch t0"] }
    let wf := swf = "wf=1"
    let results := toks o
    let mut h := ConfirmHistory.new (r32 t0)
    let mut sp := SetSpec.new t0
    let mut acc : Acc := {}
    let mut rs := results
    let mut nconf := 0
    for sop in sops do
      if acc.stop then break
      let some op := parseOp sop | return { verdicts := [.bad s!"c12ch op {sop}"] }
      let r := rs.headD "missing"
      rs := rs.drop 1
      match op with
      | .confirm t _ =>
        nconf := nconf + 1
        let dist := if t ≥ sp.last then t - sp.last else sp.last - t
        let cls := if t > sp.last then (if dist ≥ 64 then "c12.ch_adv_far" else "c12.ch_adv_near")
                   else (if dist ≥ 64 then "c12.ch_old_far" else "c12.ch_old_near")
        acc := { acc with stats := cls :: acc.stats }
        match h.confirm (r32 t) with
        | .ok h' =>
          h := h'
          sp := sp.confirm t
          let m := s!"{h.mask.toNat}:{h.last}"
          if m ≠ r then
            acc := { acc with verdicts := acc.verdicts ++ [.mismatch "C12" s!"confirm {t}: impl={r} model={m}"], stop := true }
          -- oracle on the implementation's state: last tick and every window bit agree with the set
          if wf && r ≠ "panic" then
            match r.splitOn ":" with
            | [sm, sl] =>
              match sm.toNat?, sl.toNat? with
              | some im, some il =>
                let okLast := il = r32 sp.last
                let okBits := (List.range 64).all fun i =>
                  im.testBit i = (decide (i ≤ sp.last) && decide ((sp.last - i) ∈ sp.confirmed))
                if !(okLast && okBits) then
                  acc := { acc with verdicts := acc.verdicts ++ [.oracle "C12" s!"after confirm {t}: mask/last {r} disagree with the set of confirmed ticks (last {sp.last})"], stop := true }
              | _, _ => acc := { acc with verdicts := acc.verdicts ++ [.bad "c12ch state"] }
            | _ => acc := { acc with verdicts := acc.verdicts ++ [.bad "c12ch state"] }
          else if wf then
            acc := { acc with verdicts := acc.verdicts ++ [.oracle "C12" s!"confirm {t} panicked"], stop := true }
        | _ =>
          if r ≠ "panic" then
            acc := { acc with verdicts := acc.verdicts ++ [.mismatch "C12" s!"confirm {t}: impl={r} model=panic"] }
          if wf then
            acc := { acc with verdicts := acc.verdicts ++ [.oracle "C12" s!"confirm {t} panicked on a well-formed history"] }
          acc := { acc with stop := true }
      | .query t =>
        let m := b2s (h.contains (r32 t))
        acc := { acc with stats := "c12.ch_query" :: acc.stats }
        if m ≠ r then
          acc := { acc with verdicts := acc.verdicts ++ [.mismatch "C12" s!"contains {t}: impl={r} model={m}"] }
        if wf && r ≠ b2s (sp.contains t) then
          acc := { acc with verdicts := acc.verdicts ++ [.oracle "C12" s!"contains {t} = {r} but the set of confirmed ticks (last {sp.last}) says {b2s (sp.contains t)}"] }
      | .any a b =>
        let m := match h.containsAny (r32 a) (r32 b) with
          | .ok v => b2s v
          | _ => "panic"
        acc := { acc with stats := (if b - a + 1 ≥ 64 then "c12.ch_any_wide" else "c12.ch_any") :: acc.stats }
        if m ≠ r then
          acc := { acc with verdicts := acc.verdicts ++ [.mismatch "C12" s!"contains_any {a} {b}: impl={r} model={m}"] }
        if wf && r ≠ b2s (sp.containsAnyFast a b) then
          acc := { acc with verdicts := acc.verdicts ++ [.oracle "C12" s!"contains_any {a} {b} = {r} but the set (last {sp.last}) says {b2s (sp.containsAnyFast a b)}"] }
        if r = "panic" then acc := { acc with stop := true }
    return { verdicts := acc.verdicts, stats := (if wf then "c12.ch_wf" else "c12.ch_nonwf") :: acc.stats, nontrivial := nconf ≥ 2 }
  | _, _ => return { verdicts := [.bad "c12ch shape"] }

/-- `c12smt wf=<0|1> <ops…>` for `ServerMutateTicks`:
confirm → `<0|1>:<mask>:<last>` | `panic`; query → `0|1|panic`. -/
def handleSmt (inp : List String) (obs : List String) : Outcome := Id.run do
  match inp, obs with
  | _ :: swf :: sops, [o] =>
    let wf := swf = "wf=1"
    let mut s := MutateTicks.default
    let mut sp := CountSpec.init
    let mut acc : Acc := {}
    let mut rs := toks o
    let mut nconf := 0
    for sop in sops do
      if acc.stop then break
      let some op := parseOp sop | return { verdicts := [.bad s!"c12smt op {sop}"] }
      let r := rs.headD "missing"
      rs := rs.drop 1
      match op with
      | .confirm t n =>
        nconf := nconf + 1
        let okCall := sp.callOk t n
        let dist := if t ≥ sp.last then t - sp.last else sp.last - t
        let cls := if t > sp.last then (if dist ≥ 64 then "c12.smt_adv_far" else "c12.smt_adv_near")
                   else (if dist ≥ 64 then "c12.smt_old_far" else "c12.smt_old_near")
        acc := { acc with stats := cls :: acc.stats }
        match s.confirm (r32 t) n with
        | .ok (s', ret) =>
          s := s'
          let inWindow := !(decide (t + 64 ≤ sp.last))
          sp := if inWindow then sp.confirm t n else sp
          let m := s!"{b2s ret}:{s.mask}:{s.last}"
          if m ≠ r then
            acc := { acc with verdicts := acc.verdicts ++ [.mismatch "C12" s!"smt confirm {t}:{n}: impl={r} model={m}"], stop := true }
          if wf && okCall then
            -- oracle: return value = "this tick is now complete"; mask bits = completeness of window ticks
            match r.splitOn ":" with
            | [sr, sm, sl] =>
              match sm.toNat?, sl.toNat? with
              | some im, some il =>
                let okRet := sr = b2s (inWindow && sp.complete t)
                let okLast := il = r32 sp.last
                let okBits := (List.range 64).all fun i =>
                  im.testBit i = (decide (i ≤ sp.last) && sp.complete (sp.last - i))
                if !(okRet && okLast && okBits) then
                  acc := { acc with verdicts := acc.verdicts ++ [.oracle "C12" s!"smt after confirm {t}:{n}: {r} disagrees with the confirmation log (last {sp.last})"], stop := true }
              | _, _ => acc := { acc with verdicts := acc.verdicts ++ [.bad "c12smt state"] }
            | _ =>
              acc := { acc with verdicts := acc.verdicts ++ [.oracle "C12" s!"smt confirm {t}:{n} gave {r} on a well-formed history"], stop := true }
        | _ =>
          if r ≠ "panic" then
            acc := { acc with verdicts := acc.verdicts ++ [.mismatch "C12" s!"smt confirm {t}:{n}: impl={r} model=panic"] }
          if wf && okCall then
            acc := { acc with verdicts := acc.verdicts ++ [.oracle "C12" s!"smt confirm {t}:{n} panicked on a well-formed history"] }
          acc := { acc with stop := true }
      | .query t =>
        let m := b2s (s.contains (r32 t))
        acc := { acc with stats := "c12.smt_query" :: acc.stats }
        if m ≠ r then
          acc := { acc with verdicts := acc.verdicts ++ [.mismatch "C12" s!"smt contains {t}: impl={r} model={m}"] }
        if wf && r ≠ b2s (sp.contains t) then
          acc := { acc with verdicts := acc.verdicts ++ [.oracle "C12" s!"smt contains {t} = {r} but the log (last {sp.last}) says {b2s (sp.contains t)}"] }
      | .any a b =>
        let m := match s.containsAny (r32 a) (r32 b) with
          | .ok v => b2s v
          | _ => "panic"
        acc := { acc with stats := "c12.smt_any" :: acc.stats }
        if m ≠ r then
          acc := { acc with verdicts := acc.verdicts ++ [.mismatch "C12" s!"smt contains_any {a} {b}: impl={r} model={m}"] }
        if wf && r ≠ b2s (sp.containsAnyFast a b) then
          acc := { acc with verdicts := acc.verdicts ++ [.oracle "C12" s!"smt contains_any {a} {b} = {r} but the log (last {sp.last}) says {b2s (sp.containsAnyFast a b)}"] }
        if r = "panic" then acc := { acc with stop := true }
    return { verdicts := acc.verdicts, stats := (if wf then "c12.smt_wf" else "c12.smt_nonwf") :: acc.stats, nontrivial := nconf ≥ 2 }
  | _, _ => return { verdicts := [.bad "c12smt shape"] }

end Driver.C12
