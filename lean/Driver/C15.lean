import Driver.Core
import Replicon.Model.EntityCodec
namespace Driver.C15
open Replicon Driver

/-- Implementation result as printed by the harness: `ok <idx> <gen> <consumed>` | `err` | `panic`. -/
inductive ImplDec where
  | ok (idx gen consumed : Nat) | err | panic
deriving Repr, DecidableEq

def parseImplDec (ts : List String) : Option ImplDec :=
  match ts with
  | ["ok", i, g, c] => do some (.ok (← i.toNat?) (← g.toNat?) (← c.toNat?))
  | ["err"] => some .err
  | "panic" :: _ => some .panic
  | _ => none

def modelDec (bs : List Nat) : ImplDec :=
  match decodeEntity bs with
  | .ok ((i, g), rest) => .ok i g (bs.length - rest.length)
  | .err => .err
  | .panic _ => .panic

def showDec : ImplDec → String
  | .ok i g c => s!"ok:{i}:{g}:{c}"
  | .err => "err"
  | .panic => "panic"

/-- `c15dec <hex>` / `= <result>`: decode arbitrary bytes. -/
def handleDec (inp : List String) (obs : List String) : Outcome :=
  match inp, obs with
  | [_, hex], [o] =>
    match parseHex hex, parseImplDec (toks o) with
    | some bs, some impl =>
      let m := modelDec bs
      let v1 := if m = impl then [] else
        [Verdict.mismatch "C15" s!"decode impl={showDec impl} model={showDec m}"]
      -- oracle, evaluated on the implementation's answer: never a panic; a success is a
      -- valid identifier that consumed a non-empty prefix
      let v2 := match impl with
        | .panic => [Verdict.oracle "C15" "decode panicked"]
        | .ok i g c =>
          if decide (ValidEntity i g) && decide (0 < c) && decide (c ≤ bs.length) then []
          else [Verdict.oracle "C15" s!"decode returned invalid identifier or length {showDec impl}"]
        | .err => []
      let cls := match impl with | .ok .. => "dec_ok" | .err => "dec_err" | .panic => "dec_panic"
      -- non-trivial: a non-empty input that decodes to an identifier
      { verdicts := v1 ++ v2, stats := [s!"c15.{cls}", s!"c15.declen{min bs.length 12}"],
        nontrivial := match impl with | .ok .. => true | _ => false }
    | _, _ => { verdicts := [.bad "c15dec parse"] }
  | _, _ => { verdicts := [.bad "c15dec shape"] }

/-- `c15rt <idx> <gen> <suffixhex>` / `= enc <hex>` / `= <decode result of hex++suffix>`. -/
def handleRt (inp : List String) (obs : List String) : Outcome :=
  match inp, obs with
  | [_, si, sg, ssuf], [o1, o2] =>
    match si.toNat?, sg.toNat?, parseHex ssuf, toks o1, parseImplDec (toks o2) with
    | some i, some g, some suf, ["enc", ehex], some impl =>
      match parseHex ehex with
      | some enc =>
        let menc := encodeEntity i g
        let v1 := if menc = enc then [] else
          [Verdict.mismatch "C15" s!"encode impl={toHex enc} model={toHex menc}"]
        let m := modelDec (enc ++ suf)
        let v2 := if m = impl then [] else
          [Verdict.mismatch "C15" s!"decode impl={showDec impl} model={showDec m}"]
        let v3 := if impl = .ok i g enc.length then [] else
          [Verdict.oracle "C15" s!"roundtrip of ({i},{g}) gave {showDec impl}, encoded length {enc.length}"]
        let gcls := if g = 1 then "g1" else if g < 128 then "gsmall" else if g ≥ 2147483520 then "gtop" else "gbig"
        let icls := if i < 64 then "ismall" else if i ≥ 4294967168 then "itop" else "ibig"
        { verdicts := v1 ++ v2 ++ v3, stats := ["c15.rt", s!"c15.rt_{icls}_{gcls}"], nontrivial := true }
      | none => { verdicts := [.bad "c15rt hex"] }
    | _, _, _, _, _ => { verdicts := [.bad "c15rt parse"] }
  | _, _ => { verdicts := [.bad "c15rt shape"] }

end Driver.C15
