import Driver.Core
import Replicon.Model.Backend
namespace Driver.C17
open Replicon Replicon.Backend Driver

def parseBatch (s : String) : Option (List (Nat × Nat × Nat)) :=
  if s = "-" then some [] else
  (s.splitOn ",").mapM fun m =>
    match m.splitOn ":" with
    | [c, q, z] => do some ((← c.toNat?), (← q.toNat?), (← z.toNat?))
    | _ => none

def seqList (s : String) : Option (List Nat) :=
  if s = "-" then some [] else (s.splitOn ",").mapM String.toNat?

/-- `c17 dir=… b=…` / `= ch0=… ch1=… ch2=… intact=… first_pass=… frames=…` -/
def handle (inp : List String) (obs : List String) : Outcome :=
  match inp, obs with
  | [_, _dir, sb], [o] =>
    let ots := toks o
    match ((sb.drop 2).toString.splitOn ";").mapM parseBatch with
    | some batches =>
      -- model: one receiver pass per sender batch, all at the same instant; payload = [seq]
      let passes := batches.map fun b => (7, b.map fun (c, q, _) => (c, [q]))
      let model := runLink {} passes
      let sent := (batches.flatten).map fun (c, q, _) => (c, q)
      let total := sent.length
      let results := [0, 1, 2].map fun ch =>
        let impl := (kv ots s!"ch{ch}").bind seqList
        let modelCh := model.map fun o => (o.filter (·.1 = ch)).map fun m => m.2.headD 0
        let spec := (sent.filter (·.1 = ch)).map (·.2)
        (ch, impl, modelCh, spec)
      let v1 := results.filterMap fun (ch, impl, modelCh, _) =>
        if impl = modelCh && impl.isSome then none
        else some (Verdict.mismatch "C17" s!"channel {ch}: impl={impl} model={modelCh}")
      let v2 := results.filterMap fun (ch, impl, _, spec) =>
        if impl = some spec then none
        else some (Verdict.oracle "C17" s!"channel {ch}: received {impl} but sent {spec} (exactly once, in order)")
      let v3 := if kv ots "intact" = some "1" then [] else [Verdict.oracle "C17" "a payload arrived corrupted"]
      -- the other recipients of a broadcast (several connections served by one send loop)
      let v4 := if _dir ≠ "dir=s2c" then [] else [1, 2].flatMap fun p => [0, 1, 2].filterMap fun ch =>
        let impl := (kv ots s!"p{p}ch{ch}").bind seqList
        let spec := (sent.filter (·.1 = ch)).map (·.2)
        if impl = some spec then none
        else some (Verdict.oracle "C17" s!"client {p}, channel {ch}: received {impl} but sent {spec} (exactly once, in order)")
      let piled := (kvNat ots "first_pass").getD 0
      { verdicts := v1 ++ v2 ++ v3 ++ v4,
        stats := [s!"c17.msgs_{if total = 0 then "0" else if total < 4 then "1-3" else if total < 16 then "4-15" else if total < 48 then "16-47" else "48+"}",
                  s!"c17.first_pass_{if piled < 4 then "lt4" else if piled < 16 then "4-15" else "16+"}"],
        nontrivial := total ≥ 4 }
    | none => { verdicts := [.bad "c17 batches"] }
  | _, _ => { verdicts := [.bad "c17 shape"] }

end Driver.C17
