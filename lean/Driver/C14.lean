import Driver.Core
import Replicon.Model.ProtocolHash
namespace Driver.C14
open Replicon Replicon.Proto Driver

def parseReg (s : String) : Option Reg :=
  match s.splitOn ":" with
  | [k, p, n] => do some { kind := (← k.toNat?), priority := (← p.toNat?), name := (← parseHex n) }
  | _ => none

def parseRegs (s : String) : Option (List Reg) :=
  if s = "-" then some [] else (s.splitOn ";").mapM parseReg

structure Built where
  hash : Nat
  regs : List Reg

def parseBuilt (o : String) : Option (String × Option Built) :=
  let ts := toks o
  match ts with
  | [label, "rejected"] => some (label, none)
  | label :: _ => do
    let h ← kvNat ts "hash"
    let r ← (kv ts "regs").bind parseRegs
    some (label, some { hash := h, regs := r })
  | _ => none

/-- `c14pair a=… b=…` / `= a hash=… regs=…` / `= b …` / `= a2 …` -/
def handlePair (_inp : List String) (obs : List String) : Outcome :=
  match obs.mapM parseBuilt with
  | some [(_, a), (_, b), (_, a2)] =>
    match a, b, a2 with
    | some a, some b, some a2 =>
      let chk (lbl : String) (x : Built) : List Verdict :=
        let m := protocolHash x.regs
        if m = x.hash then [] else [Verdict.mismatch "C14" s!"{lbl}: impl hash {x.hash} model {m}"]
      let v1 := chk "a" a ++ chk "b" b
      -- oracle: same registration sequence ⇒ same hash (also across two builds); different ⇒ different
      let v2 := if a.hash = a2.hash then [] else [Verdict.oracle "C14" s!"two builds of the same sequence hash differently: {a.hash} {a2.hash}"]
      let same := a.regs = b.regs
      let v3 := if same then
          (if a.hash = b.hash then [] else [Verdict.oracle "C14" "equal registration sequences, different hashes"])
        else
          (if a.hash ≠ b.hash then [] else [Verdict.oracle "C14" s!"registration sequences differ but hash equally ({a.hash})"])
      let wf := (a.regs ++ b.regs).all fun r => decide (r.kind < 8) && r.name.all (· < 255)
      let v4 := if wf then [] else [Verdict.bad "registration not well-formed"]
      let cls := if same then "c14.pair_same" else
        if a.regs.length = b.regs.length then "c14.pair_changed_in_place_or_swapped" else "c14.pair_inserted_or_deleted"
      { verdicts := v1 ++ v2 ++ v3 ++ v4, stats := [cls], nontrivial := !same }
    | _, _, _ => { stats := ["c14.rejected_registration_sequence"] }
  | _ => { verdicts := [.bad "c14pair parse"] }

/-- `c14hs a=… b=…` / `= authorized=… connected=… mismatch=… disconnect=… stray=… same_hash=…` (`disconnect`: a request naming the client; `stray`: requests naming anything else) -/
def handleHs (_inp : List String) (obs : List String) : Outcome :=
  match obs with
  | ["rejected"] => { stats := ["c14.rejected_registration_sequence"] }
  | ["panic"] => { verdicts := [.oracle "C14" "handshake panicked"] }
  | [o] =>
    let ts := toks o
    match kvNat ts "authorized", kvNat ts "mismatch", kvNat ts "disconnect", kvNat ts "same_hash" with
    | some au, some mm, some dc, some sh =>
      let stray := (kvNat ts "stray").getD 0
      let ok := (if sh = 1 then au = 1 && mm = 0 && dc = 0 else au = 0 && mm = 1 && dc = 1) && stray = 0
      let m := checkProtocol 0 (if sh = 1 then 0 else 1)
      let agree := (au = 1) = m.authorized && (mm = 1) = m.mismatchSent && (dc = 1) = m.disconnectRequested
      { verdicts := (if ok then [] else [.oracle "C14" s!"handshake outcome {o}"]) ++
          (if agree then [] else [.mismatch "C14" s!"handshake impl: {o} model: {repr m}"]),
        stats := [if sh = 1 then "c14.hs_match" else "c14.hs_mismatch"], nontrivial := true }
    | _, _, _, _ => { verdicts := [.bad "c14hs parse"] }
  | _ => { verdicts := [.bad "c14hs shape"] }

end Driver.C14
