import Driver.Core
import Replicon.Model.Wire
import Replicon.Model.Tick
import Replicon.Model.MutateTicks
import Replicon.Model.Visibility
import Replicon.Model.Packing
import Replicon.Model.Server
import Replicon.Model.Client
import Replicon.Model.Events
import Replicon.Model.Receive
import Replicon.Model.Joint
/-
Trace checker for replication system traces (`/verif/harness/src/sys.rs`).

It keeps the history of server snapshots (one per tick: the "ghost" history the properties are
stated against), decodes every real message with the model's byte decoders (`Model/Wire.lean`)
and evaluates the property predicates on the implementation's observed states.
-/
namespace Driver.Sys
open Replicon Replicon.Wire Driver

/-- server entity as observed after a server frame -/
structure SEnt where
  idx : Nat
  marked : Bool
  parent : Option Nat
  comps : List (String × Option Nat)
deriving Repr, Inhabited, BEq

structure SCli where
  c : Nat
  auth : Bool
  maxSize : Nat
  vis : List Nat
deriving Repr, Inhabited, BEq

structure Snap where
  tick : Nat
  ents : List SEnt
  clis : List SCli
deriving Repr, Inhabited

structure CEnt where
  key : String
  idx : Option Nat
  dead : Bool
  marked : Bool
  pre : Option Nat
  hist : Option (Nat × Nat)
  comps : List (String × Option Nat)
deriving Repr, Inhabited

/-- F13 concerns events that are still in Bevy's double buffer when the session ends: at most this many
client frames old (two buffer rotations; a rotation needs a frame in which `FixedUpdate` ran) -/
def f13Window : Nat := 8

/-- an emitted remote event (ghost record) -/
structure EvRec where
  id : Nat
  kind : String
  s2c : Bool
  mode : String
  target : Option Nat
  emitter : String
  opIdx : Nat
  srvRunning : Bool
  emitterConnected : Bool
  emitterFresh : Bool
  mappedOk : Bool
  clientEnt : Option Nat := none   -- the client entity the event captured (mapped client events and triggers)
  stops : Nat
  authAtEmit : List Nat := []
  emitFrame : Nat := 0   -- frames the emitting client app had run when the event was emitted
deriving Repr, Inhabited

structure State where
  whitelist : Bool := false
  track : Bool := false
  sync : Bool := false
  nclients : Nat := 1
  bits : List (Nat × Nat) := []
  snaps : List Snap := []
  last : Option Snap := none
  connected : List Nat := []
  /-- clients that have been connected for the whole current flush -/
  desired : List ((Nat × Nat) × Bool) := []
  inFlush : Bool := false
  flushRound : Nat := 0
  /-- accepted `map c e p` registrations and whether the pre-spawned entity was removed -/
  maps : List (Nat × Nat × Nat × Bool) := []
  preDead : List (Nat × Nat) := []
  panicked : Bool := false
  /-- clients that have been handed at least one update message in the current session -/
  gotUpdate : List Nat := []
  /-- (client, entity) pairs whose entity lost its replication marker after the last
  `set_visibility` for the pair (the situation of known finding F14) -/
  unmarkedSince : List (Nat × Nat) := []
  /-- entities whose marker was removed since the last replication run (their buffered
  "despawn" will wipe visibility entries at the next run) -/
  unmarkedInWindow : List Nat := []
  /-- bytes were injected on a client-to-server channel in this case -/
  junkSeen : Bool := false
  /-- bit mask of clients built with a different protocol -/
  wrong : Nat := 0
  expectDisc : List Nat := []
  /-- C06 cases (`junk=1`): client 0 is an attacker -/
  junkCase : Bool := false
  junkPending : List (Nat × Nat × List Nat) := []     -- (client, channel, bytes) since the last server frame
  legitHash : Option (List Nat) := none                -- a real ProtocolHash message seen in this case
  /-- lock-step `ClientVisibility` cells of the model, per (client, entity) -/
  cells : List ((Nat × Nat) × Vis.Cell) := []
  /-- (client, entity) pairs the client has been sent (and not been told to despawn since) -/
  sentTo : List (Nat × Nat) := []
  /-- (client, entity): hidden from the client, or unmarked, before the entity was ever sent to it (F21) -/
  hiddenBeforeSent : List (Nat × Nat) := []
  /-- (client, entity): a mutate message with update tick 0 carrying the entity reached the client
  before any update message of the session (F20) -/
  earlyMutate : List (Nat × Nat) := []
  /-- entities currently carrying the replication marker -/
  markedNow : List Nat := []
  /-- entities that lost the marker / were despawned since the last replication run -/
  leftRepl : List Nat := []
  /-- entities that left replication in this tick window and got the marker back in it (they may leave again: F14's erased cell) -/
  remarked : List Nat := []
  /-- (client, entity): the entity was hidden from the client when it was despawned -/
  hiddenAtDespawn : List (Nat × Nat) := []
  running : Bool := false
  /-- the protocol model of the server, driven in lock step -/
  srv : Srv.Server := {}
  /-- client-side pre-spawned entities: (client, entity bits) ↦ pre index -/
  cents : List ((Nat × Nat) × Nat) := []
  modelOff : Bool := false
  /-- the protocol model of every client, and what was delivered to it since its last frame -/
  clis : List (Nat × Cli.Client) := []
  inbox : List (Nat × (List Srv.Update × List Cli.Mutate)) := []
  cliOff : List Nat := []
  /-- ghost: per (client, server entity, model client entity) the ticks the entity was confirmed for (the values its confirmed tick has had at the end of a client frame), at most 64 ticks back -/
  confirmed : List ((Nat × Nat × Nat) × List Nat) := []
  /-- frames run per client app, and the count at the client's last `connect` (Bevy drops an event from its double buffer after two rotations: a few frames) -/
  cframes : List (Nat × Nat) := []
  connectFrame : List (Nat × Nat) := []
  /-- the server's tick wraps around during the case (header `tickbase=`): the lock step with the models, whose ticks are unbounded naturals, and the oracles that order ticks are off; the structure, value and convergence oracles decide -/
  wrapCase : Bool := false
  -- remote events (profile sys_evt)
  events : Bool := false
  dedicated : Bool := false
  evs : List EvRec := []
  delivs : List (String × String × Nat) := []          -- (receiver, kind, id)
  stamps : List ((Nat × Nat) × Nat) := []               -- (client, id) ↦ stamp on the wire
  mutSent : List ((Nat × Nat) × List Nat) := []         -- (client, tick) ↦ indices of the mutate messages sent for that tick (tracking on)
  mutAcked : List (Nat × Nat) := []                     -- (client, index) acknowledged = applied by the client, this session
  mtrSeen : List (Nat × Nat) := []                      -- (client, tick) reported as fully received, this session
  mutDelivered : List (Nat × Nat) := []                 -- (client, index) of mutate messages delivered to the client, this session
  mutLog : List (Nat × Nat × Nat × Nat) := []           -- (client, sequence number, 16-bit wire index, tick) of the mutate messages sent in the client's session, newest first
  mutSeqDelivered : List (Nat × Nat) := []              -- (client, sequence number) of the mutate messages delivered to the client
  wrapAck : List (Nat × String) := []                   -- clients of which an acknowledgement was taken for a later message with the same 16-bit index (F15)
  splitLoss : List Nat := []                            -- clients that lost a mutate message of a tick that was split into several messages
  lastUpdSent : List (Nat × Nat) := []                  -- client ↦ tick of the last update message sent to it this session
  required : List ((Nat × Nat) × Nat) := []             -- (client, id) ↦ that tick when the event was sent
  updSentCount : List (Nat × Nat) := []                 -- client ↦ update messages sent to it this session
  updGotCount : List (Nat × Nat) := []                  -- client ↦ update messages delivered to it this session
  requiredCount : List ((Nat × Nat) × Nat) := []        -- (client, id) ↦ update messages sent to the client before the event
  sessionStart : List (Nat × Nat) := []                 -- client ↦ op index of its connect
  firstFrame : List Nat := []                           -- clients that ran a frame in their session
  cevFramed : List Nat := []                            -- ids of mapped client events / triggers whose emitter has run its sending frame
  cevExempt : List Nat := []                            -- … of which the referenced entity was not in the client's map at the end of that frame
  sessionBroken : List Nat := []                        -- clients whose session ended at some point
  srvStops : Nat := 0
  onWire : List (Nat × Nat) := []                       -- (client, id) of client events put on the wire
  expectLocal : List (Nat × Nat) := []                  -- (client, id): emitted and framed while disconnected
  sframeOps : List Nat := []                            -- op indices of server frames (newest first)
  lastConnect : List (Nat × Nat) := []                  -- client ↦ op index of its latest connect
  -- lock step with `Model/Events.lean`
  srvEv : Evt.SrvEv := {}
  /-- the server model as it was before the current server frame (input of `Joint.frame`) -/
  srvBefore : Srv.Server := {}
  evLastRunning : Bool := false
  evEmitted : List Evt.Emitted := []
  evRefs : List (Nat × List Nat) := []                   -- event id ↦ referenced entities (bits)
  evInbox : List ((Nat × Nat) × List (Nat × Nat)) := []  -- (client, channel) ↦ arrived (stamp, id)
  evQueue : List ((Nat × Nat) × Evt.Queue) := []
  cbufs : List (String × List (Evt.CBuf × List Nat)) := []  -- app ↦ candidate buffers, local ids due
  cLastConn : List (Nat × Bool) := []
  evtOff : List String := []
  elapsed : Nat := 0
  /-- the server was (re)started and has not run a frame yet: `ServerTick` counts as changed -/
  freshStart : Bool := false
  authCheck : Bool := false
  authCustom : Bool := false
  /-- clients whose session ended at some point of this case -/
  hadDisconnect : List Nat := []
  /-- per client: ticks of update messages delivered since the last client frame -/
  ops : Nat := 0
  stats : List String := []
deriving Inhabited

def parseComps (s : String) : List (String × Option Nat) :=
  if s = "-" then [] else
  (s.splitOn ",").filterMap fun kv =>
    match kv.splitOn "=" with
    | [k, v] => some (k, v.toNat?)
    | _ => none

def parseSEnt (s : String) : Option SEnt :=
  match s.splitOn ":" with
  | [i, m, p, cs] => do
    some { idx := (← i.toNat?), marked := m = "m1", parent := (p.drop 1).toString.toNat?, comps := parseComps cs }
  | _ => none

def parseNatList (s : String) : List Nat :=
  if s = "-" || s = "none" then [] else (s.splitOn ",").filterMap String.toNat?

def parseSCli (s : String) : Option SCli :=
  match s.splitOn ":" with
  | [c, a, x, v] => do
    some { c := (← c.toNat?), auth := a = "a1", maxSize := (← (x.drop 1).toString.toNat?), vis := parseNatList v }
  | _ => none

def parseSnap (ts : List String) : Option Snap := do
  let tick ← kvNat ts "tick"
  let es := (kv ts "ents").getD "-"
  let cs := (kv ts "clients").getD "-"
  let ents := if es = "-" then [] else (es.splitOn "|").filterMap parseSEnt
  let clis := if cs = "-" then [] else (cs.splitOn "|").filterMap parseSCli
  some { tick := tick, ents := ents, clis := clis }

def parseCEnt (s : String) : Option CEnt :=
  match s.splitOn ":" with
  | [key, "dead"] => some { key := key, idx := key.toNat?, dead := true, marked := false, pre := none, hist := none, comps := [] }
  | [key, m, pre, h, cs] =>
    let hist := if h = "hnone" then none else
      match (h.drop 1).toString.splitOn "/" with
      | [a, b] => do some ((← a.toNat?), (← b.toNat?))
      | _ => none
    some { key := key, idx := key.toNat?, dead := false, marked := m = "m1",
           pre := if pre = "f" then none else (pre.drop 1).toString.toNat?, hist := hist, comps := parseComps cs }
  | _ => none

def parseCEnts (s : String) : List CEnt :=
  if s = "-" then [] else (s.splitOn "|").filterMap parseCEnt

/-- replicated component letters and their registration index (`FnsId`) -/
def fnsLetter (f : Nat) : String :=
  match f with
  | 0 => "A" | 1 => "B" | 2 => "O" | 3 => "P" | 4 => "R" | 5 => "L" | _ => "?"

def isReplicatedLetter (k : String) : Bool := k ∈ ["A", "B", "O", "P", "R", "L"]

/-- continuously replicated (every tick) components: the ones C02 speaks about -/
def isContinuous (k : String) : Bool := k ∈ ["A", "B", "R", "L"]

def sortStr (l : List String) : List String := (l.toArray.qsort (· < ·)).toList
def sortNat (l : List Nat) : List Nat := (l.toArray.qsort (· < ·)).toList

def Snap.cli (s : Snap) (c : Nat) : Option SCli := s.clis.find? (·.c = c)

/-- what client `c` is supposed to see of the snapshot: marked entities visible to it,
restricted to replicated components -/
def Snap.view (s : Snap) (c : Nat) : List SEnt :=
  match s.cli c with
  | none => []
  | some sc => (s.ents.filter fun e => e.marked && sc.vis.contains e.idx).map fun e =>
      { e with comps := e.comps.filter fun kv => isReplicatedLetter kv.1 }

def compKeys (cs : List (String × Option Nat)) : List String := sortStr (cs.map (·.1))

/-- Client entries that stand for server entities the client was never sent: created only
because a mapped component or a pre-spawn mapping referred to them.  They carry no replicated
component; they are excluded from the structural comparison (and must be marked once the
entity's own record arrives — that is part of the comparison then). -/
def isPlaceholder (e : CEnt) : Bool := !e.dead && e.comps.isEmpty && e.hist.isNone

def lookupBits (st : State) (e : Wire.Ent) : Option Nat := st.bits.lookup (Wire.Ent.bits e)

def showEnt (st : State) (e : Wire.Ent) : String :=
  match lookupBits st e with
  | some i => s!"e{i}"
  | none => s!"bits{Wire.Ent.bits e}"

/-- C03: structure of the client at its update tick. -/
def checkStructure (st : State) (c upd : Nat) (mapok : Bool) (cents : List CEnt) : List Verdict :=
  let v0 := if mapok then [] else [Verdict.oracle "C03" s!"client {c}: entity map is not a consistent two-way map"]
  let expected : List SEnt :=
    if !st.gotUpdate.contains c then [] else
    match st.snaps.find? (·.tick = upd) with
    | some s => s.view c
    | none => []
  let real := cents.filter fun e => !isPlaceholder e
  let v1 := real.filterMap fun ce =>
    match ce.idx.bind fun i => expected.find? (·.idx = i) with
    | none => some (Verdict.oracle "C03" s!"client {c} at update tick {upd} holds entity {ce.key} (dead={ce.dead}, comps {compKeys ce.comps}) that the server had not replicated to it at that tick")
    | some se =>
      if ce.dead then some (Verdict.oracle "C03" s!"client {c}: mapped entity {ce.key} does not exist")
      else if !ce.marked then some (Verdict.oracle "C03" s!"client {c}: entity {ce.key} lacks the replication marker")
      else if compKeys ce.comps ≠ compKeys se.comps then
        some (Verdict.oracle "C03" s!"client {c} at update tick {upd}: entity {ce.key} has components {compKeys ce.comps}, server had {compKeys se.comps}")
      else none
  let v2 := expected.filterMap fun se =>
    match cents.find? (·.idx = some se.idx) with
    | some ce => if isPlaceholder ce && !(se.comps.isEmpty && ce.marked) then
        some (Verdict.oracle "C03" s!"client {c} at update tick {upd}: entity {se.idx} is only a placeholder (marked={ce.marked}), server had replicated it with {compKeys se.comps}")
      else none
    | none => some (Verdict.oracle "C03" s!"client {c} at update tick {upd} misses entity {se.idx} that the server had replicated to it at that tick")
  -- C08, "without affecting other clients": an entity this client sees arrives incomplete or not at all
  -- while it is hidden from another client
  let v3 := match (if st.gotUpdate.contains c then st.snaps.find? (·.tick = upd) else none) with
    | none => []
    | some s => expected.filterMap fun se =>
      let hiddenFrom := (s.clis.filter fun sc => sc.c ≠ c && !sc.vis.contains se.idx).map (·.c)
      if hiddenFrom.isEmpty then none else
      match cents.find? (·.idx = some se.idx) with
      | some ce =>
        if !ce.dead && compKeys ce.comps ≠ compKeys se.comps && (compKeys ce.comps).all (compKeys se.comps).contains then
          some (Verdict.oracle "C08" s!"client {c} at update tick {upd}: entity {se.idx}, visible to it, has only components {compKeys ce.comps} of {compKeys se.comps} while the entity is hidden from client(s) {hiddenFrom}: one client's visibility setting affects another client")
        else none
      | none => some (Verdict.oracle "C08" s!"client {c} at update tick {upd} misses entity {se.idx}, visible to it, while the entity is hidden from client(s) {hiddenFrom}: one client's visibility setting affects another client")
  v0 ++ v1 ++ v2 ++ v3

/-- C02: values of continuously replicated components at the entity's confirmed tick. -/
def checkValues (st : State) (c : Nat) (cents : List CEnt) : List Verdict :=
  cents.flatMap fun ce =>
    match ce.idx, ce.hist with
    | some i, some (t, _) =>
      match st.snaps.find? (·.tick = t) with
      | none => [Verdict.oracle "C02" s!"client {c}: entity {i} is confirmed at tick {t}, which is not a tick of this server session"]
      | some s =>
        match (s.view c).find? (·.idx = i) with
        | none => [Verdict.oracle "C02" s!"client {c}: entity {i} is confirmed at tick {t}, but the server did not replicate it to this client at that tick"]
        | some se =>
          ce.comps.filterMap fun (k, v) =>
            if !isContinuous k then none else
            match se.comps.lookup k with
            | none => none          -- structure is C03's business
            | some sv =>
              if sv = v || (k = "R" && v.isNone) then none else
              if st.earlyMutate.contains (c, i) then
                some (Verdict.oracle "C02" s!"[F20] client {c}: entity {i} confirmed at tick {t} has {k}={v}, server had {k}={sv}: a mutate message with update tick 0 reached the client before the tick-0 update message and was applied to nothing")
              else some (Verdict.oracle "C02" s!"client {c}: entity {i} confirmed at tick {t} has {k}={v}, server had {k}={sv} at that tick")
    | _, _ => []

/-- C01: full convergence (after a flush). -/
def checkConverged (st : State) (c : Nat) (cents : List CEnt) : List Verdict :=
  match st.last with
  | none => []
  | some s =>
    let expected := s.view c
    let real := cents.filter fun e => !isPlaceholder e
    let v0 := real.filterMap fun ce =>
      -- an entity that disappeared from the server while hidden from this client is a divergence
      -- (C01) besides being a visibility defect (C08, reported below)
      match ce.idx.bind fun i => expected.find? (·.idx = i) with
      | none => if ce.idx.any fun i => st.hiddenAtDespawn.contains (c, i) then
          some (Verdict.oracle "C01" s!"after quiescence client {c} still holds entity {ce.key} that is not in the server's view for it (it was despawned while hidden from the client)") else none
      | some _ => none
    let v1 := real.filterMap fun ce =>
      match ce.idx.bind fun i => expected.find? (·.idx = i) with
      | none =>
        let hiddenLive := ce.idx.any fun i => (s.ents.any fun e => e.idx = i && e.marked) || st.hiddenAtDespawn.contains (c, i)
        some (Verdict.oracle (if hiddenLive then "C08" else "C01") s!"after quiescence client {c} still holds entity {ce.key} that is not in the server's view for it{if hiddenLive then " (it lost visibility and was never removed)" else ""}")
      | some se =>
        if ce.dead || !ce.marked then some (Verdict.oracle "C01" s!"after quiescence client {c}: entity {ce.key} dead/unmarked")
        else if compKeys ce.comps ≠ compKeys se.comps then
          some (Verdict.oracle "C01" s!"after quiescence client {c}: entity {ce.key} has components {compKeys ce.comps}, server {compKeys se.comps}")
        else
          let diffs := ce.comps.filter fun (k, v) => k ≠ "O" && !(k = "R" && v.isNone) && se.comps.lookup k ≠ some v
          if diffs.isEmpty then none
          else if ce.idx.any fun i => st.earlyMutate.contains (c, i) then
            some (Verdict.oracle "C01" s!"[F20] after quiescence client {c}: entity {ce.key} differs from the server in {diffs.map (·.1)}: a mutate message with update tick 0 reached the client before the tick-0 update message")
          else if (st.wrapAck.lookup c).isSome then
            some (Verdict.oracle "C01" s!"[F15] after quiescence client {c}: entity {ce.key} differs from the server in {diffs.map (·.1)}: {(st.wrapAck.lookup c).getD ""}")
          else if diffs.map (·.1) = ["P"] then
            some (Verdict.oracle "C01" s!"[F4] after quiescence client {c}: entity {ce.key} differs from the server only in the periodically replicated component P (client {diffs}, server {se.comps})")
          else some (Verdict.oracle "C01" s!"after quiescence client {c}: entity {ce.key} differs from the server in {diffs.map (·.1)} (client {diffs}, server {se.comps})")
    let v2 := expected.filterMap fun se =>
      match cents.find? (·.idx = some se.idx) with
      | some ce => if isPlaceholder ce && !(se.comps.isEmpty && ce.marked) then
          some (Verdict.oracle "C01" s!"after quiescence client {c}: entity {se.idx} is only a placeholder") else none
      | none => some (Verdict.oracle "C01" s!"after quiescence client {c} misses entity {se.idx}")
    let v3 := v1.filterMap fun v => match v with
      | .oracle _ d => if d.startsWith "[F15]" then
          some (Verdict.oracle "C11" s!"[F15] data was skipped on an acknowledgement that named another message: {(d.drop 6)}") else none
      | _ => none
    -- C03: the entity map is part of the structure: an entry for a server entity that is gone from
    -- the server's view, pointing at a client entity that no longer exists, was never cleaned up
    let v4 := real.filterMap fun ce =>
      match ce.idx.bind fun i => expected.find? (·.idx = i) with
      | none => if ce.dead then
          some (Verdict.oracle "C03" s!"after quiescence client {c} still maps server entity {ce.key}, which is not in the server's view for it, to a client entity that does not exist: the despawn was not applied to the entity map")
        else none
      | some _ => none
    v0 ++ v1 ++ v2 ++ v3 ++ v4

/-- C16: adoption of pre-spawned entities (after a flush). -/
def checkAdoption (st : State) (c : Nat) (cents : List CEnt) : List Verdict :=
  st.maps.filterMap fun (mc, e, p, dead) =>
    if mc ≠ c then none else
    -- only entities the server currently replicates to this client
    if !((st.last.map fun s => (s.view c).any (·.idx = e)).getD false) then none else
    match cents.find? (·.idx = some e) with
    | none =>
      if dead then some (Verdict.oracle "C16" s!"client {c}: server entity {e} was registered for pre-spawned entity p{p}, which the client had despawned; after quiescence the client holds no entity for it: no fresh one was spawned")
      else none
    | some ce =>
      if dead then
        (if ce.dead then some (Verdict.oracle "C16" s!"client {c}: server entity {e} was registered for pre-spawned entity p{p}, which the client had despawned; the client's map points at an entity that does not exist: no fresh one was spawned")
         else if ce.pre = some p then some (Verdict.oracle "C16" s!"client {c}: entity {e} landed on a despawned pre-spawned entity") else none)
      else if ce.pre = some p then none
      else if st.hiddenBeforeSent.contains (c, e) then
        some (Verdict.oracle "C16" s!"[F21] client {c}: server entity {e} was registered for pre-spawned entity p{p} but landed on {repr ce.pre}: it was hidden or lost its replication marker before it was first sent, and the despawn sent for the never-sent entity removed the pre-spawned entity right after the mapping was applied")
      else some (Verdict.oracle "C16" s!"client {c}: server entity {e} was registered for pre-spawned entity p{p} but landed on {repr ce.pre}")

structure FrameMsgs where
  updates : List (Nat × UpdateMsg) := []          -- (client, msg)
  mutates : List (Nat × MutateMsg × Nat) := []    -- (client, msg, byte length)
  other : List (Nat × Nat) := []                  -- (client, channel)
  bad : List String := []

def decodeFrame (st : State) (obs : List String) : FrameMsgs := Id.run do
  let mut fm : FrameMsgs := {}
  for o in obs do
    let ts := toks o
    if ts.head? = some "sent" then
      match kvNat ts "c", kvNat ts "ch", kvHex ts "hex" with
      | some c, some 0, some bs =>
        match decodeUpdate bs with
        | .ok m => fm := { fm with updates := fm.updates ++ [(c, m)] }
        | _ => fm := { fm with bad := fm.bad ++ [s!"update message to client {c} does not decode: {toHex bs}"] }
      | some c, some 1, some bs =>
        match decodeMutate st.track bs with
        | .ok m => fm := { fm with mutates := fm.mutates ++ [(c, m, bs.length)] }
        | _ => fm := { fm with bad := fm.bad ++ [s!"mutate message to client {c} does not decode: {toHex bs}"] }
      | some c, some ch, _ => fm := { fm with other := fm.other ++ [(c, ch)] }
      | _, _, _ =>
        -- `c=?`: addressed to a client whose session the transport has already ended
        if kv ts "c" = some "?" then pure () else fm := { fm with bad := fm.bad ++ [s!"unparsable sent line {o}"] }
  return fm

/-- groups of entities that must travel together: connected components of the parent relation
among marked entities (only when synchronized replication of `ChildOf` is registered) -/
partial def groupOf (ents : List SEnt) (i : Nat) : List Nat := Id.run do
  let marked := ents.filter (·.marked)
  let mut grp := [i]
  let mut changed := true
  while changed do
    changed := false
    for e in marked do
      match e.parent with
      | some p =>
        -- an edge needs a replicated source; its target only has to exist (`add_relation`,
        -- `start_replication` and `stop_replication` all filter on the source's marker), so an
        -- unreplicated entity in the middle of a hierarchy still connects its replicated neighbours
        if ents.any (·.idx = p) then
          if grp.contains e.idx && !grp.contains p then grp := p :: grp; changed := true
          if grp.contains p && !grp.contains e.idx then grp := e.idx :: grp; changed := true
      | none => pure ()
  return sortNat grp

/-- Message-level oracles evaluated on one server frame: C07, C08, C10, C11. -/
def checkFrame (st : State) (snap : Snap) (fm : FrameMsgs) (ticked : Bool) : List Verdict := Id.run do
  let mut vs : List Verdict := fm.bad.map fun b => Verdict.mismatch "WIRE" b
  -- C07: nothing on the replication channels for unauthorized clients
  for (c, _) in fm.updates.map (fun (c, m) => (c, m.tick)) ++ fm.mutates.map (fun (c, m, _) => (c, m.tick)) do
    match snap.cli c with
    | some sc => if !sc.auth then vs := vs ++ [Verdict.oracle "C07" s!"replication message sent to unauthorized client {c}"]
    | none => pure ()
  -- C08: no component data of entities hidden from the receiver
  for (c, m) in fm.updates do
    match snap.cli c with
    | none => pure ()
    | some sc =>
      for ch in m.changes do
        match lookupBits st ch.ent with
        | some i => if !sc.vis.contains i && !ch.comps.isEmpty then
            vs := vs ++ [Verdict.oracle "C08" s!"update message of tick {m.tick} to client {c} carries components {ch.comps.map (fnsLetter ·.fns)} of entity {i}, hidden from it"]
        | none => vs := vs ++ [Verdict.mismatch "WIRE" s!"update message refers to unknown entity {Wire.Ent.bits ch.ent}"]
  for (c, m, _) in fm.mutates do
    match snap.cli c with
    | none => pure ()
    | some sc =>
      for ch in m.ents do
        match lookupBits st ch.ent with
        | some i => if !sc.vis.contains i then
            vs := vs ++ [Verdict.oracle "C08" s!"mutate message of tick {m.tick} to client {c} carries data of entity {i}, hidden from it"]
        | none => vs := vs ++ [Verdict.mismatch "WIRE" s!"mutate message refers to unknown entity {Wire.Ent.bits ch.ent}"]
  -- C10: entities / related groups are never split across the mutate messages of one tick
  for c in (fm.mutates.map (·.1)).eraseDups do
    let msgs := fm.mutates.filter (·.1 = c)
    let entsPer : List (List Nat) := msgs.map fun (_, m, _) => m.ents.filterMap fun e => lookupBits st e.ent
    let all := entsPer.flatten
    if all.eraseDups.length ≠ all.length then
      vs := vs ++ [Verdict.oracle "C10" s!"tick {snap.tick}, client {c}: an entity appears in more than one mutate message: {entsPer}"]
    if st.sync then
      for i in all.eraseDups do
        let grp := (groupOf snap.ents i).filter all.contains
        let homes := (entsPer.zipIdx.filter fun (es, _) => es.any grp.contains).map (·.2)
        if homes.length > 1 then
          vs := vs ++ [Verdict.oracle "C10" s!"tick {snap.tick}, client {c}: related entities {grp} are spread over mutate messages {homes}"]
    -- sizes
    match snap.cli c with
    | none => pure ()
    | some sc =>
      let maxSize := sc.maxSize
      let hdr := (msgs.map fun (_, m, len) => len - m.sizes.sum).foldl max 0
      -- chunk sizes: per related group (or single entity)
      let chunkSizes : List Nat := Id.run do
        let mut seen : List Nat := []
        let mut acc : List Nat := []
        for (_, m, _) in msgs do
          for (e, sz) in m.ents.zip m.sizes do
            match lookupBits st e.ent with
            | some i =>
              if !seen.contains i then
                let grp := if st.sync then groupOf snap.ents i else [i]
                let total := (msgs.flatMap fun (_, m2, _) => (m2.ents.zip m2.sizes).filterMap fun (e2, s2) =>
                  match lookupBits st e2.ent with
                  | some j => if grp.contains j then some s2 else none
                  | none => none).sum
                seen := seen ++ grp
                acc := acc ++ [total]
              else pure ()
            | none => acc := acc ++ [sz]
        return acc
      -- with per-tick tracking the server reserves the maximum size of the message counter
      -- (10 bytes) while splitting and writes 1 byte afterwards
      let resHdr := if st.track then hdr + 9 else hdr
      let fits := !chunkSizes.isEmpty && chunkSizes.all fun s => hdr + s ≤ maxSize
      let fitsRes := !chunkSizes.isEmpty && chunkSizes.all fun s => resHdr + s ≤ maxSize
      if fits then
        for (_, m, len) in msgs do
          if len > maxSize then
            let tag := if fitsRes then "" else "[F22] "
            vs := vs ++ [Verdict.oracle "C10" s!"{tag}tick {snap.tick}, client {c}: mutate message of {len} bytes exceeds max size {maxSize} although every entity/group fits (chunks {chunkSizes}, header {hdr}, reserved header {resHdr}, entities {m.ents.length})"]
      -- model vs implementation: the chunking loop of `Mutations::send` (Model/Packing.lean)
      -- reproduces the real partition of the chunk sequence into messages
      let realParts : List (List Nat) := msgs.map fun (_, m, _) => Id.run do
        let mut parts : List (Nat × List Nat) := []     -- (chunk size, group) in order
        for (e, sz) in m.ents.zip m.sizes do
          let grp := match lookupBits st e.ent with
            | some i => if st.sync then groupOf snap.ents i else [i]
            | none => []
          match parts.getLast? with
          | some (s0, g0) =>
            if st.sync && g0 = grp && grp.length > 1 then parts := parts.dropLast ++ [(s0 + sz, g0)]
            else parts := parts ++ [(sz, grp)]
          | none => parts := parts ++ [(sz, grp)]
        return parts.map (·.1)
      let splitHdr := if st.track then hdr + 9 else hdr
      -- With relation graphs registered, a graph without mutations in this tick is an empty
      -- chunk of the real loop; when `can_pack` refuses it (message size a multiple of the maximum,
      -- e.g. maximum 1) it becomes a message without entities.  Chunks are reconstructed here
      -- from the messages' contents, so such messages are not part of the comparison.
      let realParts := if st.sync && realParts.any (· ≠ []) then realParts.filter (· ≠ []) else realParts
      if maxSize > 0 then
        let model := Packing.split splitHdr maxSize realParts.flatten st.track
        if model ≠ realParts then
          vs := vs ++ [Verdict.mismatch "C10" s!"tick {snap.tick}, client {c}: real messages hold chunks {realParts}, the model of Mutations::send splits {realParts.flatten} (header {splitHdr}, max {maxSize}) into {model}"]
      if hdr + chunkSizes.sum ≤ maxSize && msgs.length > 1 && !chunkSizes.isEmpty then
        let tag := if resHdr + chunkSizes.sum ≤ maxSize then "" else "[F22] "
        vs := vs ++ [Verdict.oracle "C10" s!"{tag}tick {snap.tick}, client {c}: {msgs.length} mutate messages although everything fits into one (chunks {chunkSizes}, header {hdr}, reserved header {resHdr}, max {maxSize})"]
  -- C11: an idle, fully acknowledged server is silent (checked in the late rounds of a flush)
  if st.inFlush && st.flushRound ≥ 6 && !st.track then
    if !fm.updates.isEmpty || !fm.mutates.isEmpty then
      vs := vs ++ [Verdict.oracle "C11" s!"server still sends replication messages in round {st.flushRound} of a quiescent, fully acknowledged suffix (updates to {fm.updates.map (·.1)}, mutates to {fm.mutates.map (·.1)})"]
  return vs


/-! ### lock-step protocol model of the server (Model/Server.lean) -/

def letterFns (k : String) : Option Nat :=
  match k with
  | "A" => some 0 | "B" => some 1 | "O" => some 2 | "P" => some 3 | "R" => some 4 | "L" => some 5 | _ => none

def modelRates : List (Nat × Srv.Rate) :=
  [(0, .every), (1, .every), (2, .once), (3, .periodic 3), (4, .every), (5, .every)]

/-- `K=v` tokens of a spawn / ins / mut line as model components; an `R` whose target is not
alive is skipped (the harness does the same) -/
def modelComps (m : Srv.Server) (toks : List String) : List (Nat × Nat) :=
  toks.filterMap fun kv =>
    match kv.splitOn "=" with
    | [k, v] =>
      match letterFns k, v.toNat? with
      | some f, some n => if f = 4 && (Srv.aget m.world n).isNone then none else some (f, n)
      | _, _ => none
    | _ => none

def sortPairs (l : List (Nat × Nat)) : List (Nat × Nat) :=
  (l.toArray.qsort (fun a b => a.1 < b.1 || (a.1 == b.1 && a.2 < b.2))).toList

/-- canonical form of a decoded real entity record: entity index, sorted (fns, value) with
entity-valued components translated to harness indices -/
def canonReal (st : State) (ec : Wire.EntComps) : Option (Nat × List (Nat × Nat)) :=
  (lookupBits st ec.ent).map fun i =>
    (i, sortPairs (ec.comps.map fun c =>
      if c.fns = 4 then (4, (st.bits.lookup c.value).getD 999999) else (c.fns, c.value)))

def canonModel (m : Srv.MsgEnt) : Nat × List (Nat × Nat) := (m.ent, sortPairs m.comps)

def sortEnts (l : List (Nat × List (Nat × Nat))) : List (Nat × List (Nat × Nat)) :=
  (l.toArray.qsort (fun a b => a.1 < b.1)).toList

/-- compare what the model sends to client `c` with the decoded real messages -/
def compareClient (st : State) (c : Nat) (o : Option Srv.ClientOut) (fm : FrameMsgs) (tick : Nat) : List Verdict :=
  let realU := (fm.updates.filter (·.1 = c)).map (·.2)
  let realM := (fm.mutates.filter (·.1 = c)).map (·.2.1)
  let modelU : Option Srv.Update := o.bind (·.update)
  let modelM : List Srv.MsgEnt := (o.map (·.mutEnts)).getD []
  let vU := match modelU, realU with
    | none, [] => []
    | some mu, [ru] =>
      let rd := sortNat (ru.despawns.filterMap (lookupBits st))
      let rr := sortEnts (ru.removals.filterMap fun r => (lookupBits st r.ent).map fun i => (i, sortPairs (r.fns.map fun f => (f, 0))))
      let rc := sortEnts (ru.changes.filterMap (canonReal st))
      let rm := sortPairs (ru.mappings.filterMap fun (se, ce) =>
        match lookupBits st se, st.cents.lookup (c, Wire.Ent.bits ce) with
        | some i, some p => some (i, p)
        | _, _ => none)
      let md := sortNat mu.despawns
      let mr := sortEnts (mu.removals.map fun (e, ks) => (e, sortPairs (ks.map fun k => (k, 0))))
      let mc := sortEnts (mu.changes.map canonModel)
      let mm := sortPairs mu.mappings
      (if ru.tick = mu.tick then [] else [Verdict.mismatch "SRV" s!"tick {tick} client {c}: update tick impl {ru.tick} model {mu.tick}"]) ++
      (if rd = md then [] else [Verdict.mismatch "SRV" s!"tick {tick} client {c}: DESPAWNS impl {rd} model {md}"]) ++
      (if rr = mr then [] else [Verdict.mismatch "SRV" s!"tick {tick} client {c}: REMOVALS impl {rr} model {mr}"]) ++
      (if rc = mc then [] else [Verdict.mismatch "SRV" s!"tick {tick} client {c}: CHANGES impl {rc} model {mc}"]) ++
      (if rm = mm && rm.length = ru.mappings.length then [] else [Verdict.mismatch "SRV" s!"tick {tick} client {c}: MAPPINGS impl {rm} model {mm}"])
    | none, _ => [Verdict.mismatch "SRV" s!"tick {tick} client {c}: the implementation sent {realU.length} update message(s), the model none"]
    | some mu, _ => [Verdict.mismatch "SRV" s!"tick {tick} client {c}: the model sends an update message (despawns {mu.despawns}, removals {mu.removals.map (·.1)}, changes {mu.changes.map (·.ent)}, mappings {mu.mappings}), the implementation sent {realU.length}"]
  let rme := sortEnts ((realM.flatMap (·.ents)).filterMap (canonReal st))
  let mme := sortEnts (modelM.map canonModel)
  -- The model's belief moves only by acknowledgements of messages that really contained the
  -- entity (it registers the entities of each real message under that message's index), so a
  -- difference in the mutation sets is a C11 violation on the implementation:
  let skipped := mme.filter fun (e, cs) => !(rme.any fun (e', cs') => e' = e && cs.all cs'.contains)
  let resent := rme.filter fun (e, cs) => !(mme.any fun (e', cs') => e' = e && cs.all cs'.contains)
  let vM := (if rme = mme then [] else [Verdict.mismatch "SRV" s!"tick {tick} client {c}: mutations impl {rme} model {mme}"]) ++
    (if skipped.isEmpty || realU.length ≠ (if modelU.isSome then 1 else 0) then [] else
      [Verdict.oracle "C11" s!"tick {tick} client {c}: changed data of {skipped} is not sent although no message containing it was acknowledged"]) ++
    (if resent.isEmpty || !skipped.isEmpty || realU.length ≠ (if modelU.isSome then 1 else 0) then [] else
      [Verdict.oracle "C11" s!"tick {tick} client {c}: {resent} is re-sent although a message containing it was acknowledged"])
  let ut := (o.map fun _ => 0).getD 0
  let _ := ut
  vU ++ vM


/-- Drive the server model by one record and compare its messages with the real ones. -/
def isWrong (st : State) (c : Nat) : Bool := (st.wrong / 2 ^ c) % 2 = 1

def discsOf (obs : List String) : List (Option Nat) :=
  obs.filterMap fun o => match toks o with
    | "disc" :: ts => some (kvNat ts "c")
    | _ => none

/-- `sframe tick=K`: the amount the harness advances `ServerTick` by before the frame -/
def tickJump (rest : List String) : Nat :=
  match rest.head? with
  | some t => if t.startsWith "tick=" then (t.drop 5).toString.toNat?.getD 0 else 0
  | none => 0

def modelStep (st : State) (inp : List String) (obs : List String) : State × List Verdict :=
  if st.modelOff then (st, []) else
  let m := st.srv
  let ok : Bool := match obs.head? with
    | some o => (toks o).head? == some "ok"
    | none => false
  match inp with
  | "spawn" :: e :: rest =>
    match e.toNat?, obs.head?.map toks with
    | some e, some ("ent" :: _) =>
      let marked := rest.contains "m=1"
      ({ st with srv := m.spawn e marked (modelComps m rest) }, [])
    | _, _ => (st, [])
  | ["despawn", _] =>
    if !ok then (st, []) else
    let alive := parseNatList ((kv (toks (obs.headD "")) "alive").getD "-")
    -- the entity and, through Bevy's hierarchy, its children
    let gone := (m.world.map (·.1)).filter fun e => !alive.contains e
    ({ st with srv := gone.foldl (fun m e => m.despawn e) m }, [])
  | ["ins", e, kvs] =>
    if !ok then (st, []) else
    match e.toNat?, modelComps m [kvs] with
    | some e, [(k, v)] => ({ st with srv := m.insert e k v }, [])
    | _, _ => (st, [])
  | ["mut", e, kvs] =>
    if !ok then (st, []) else
    match e.toNat?, modelComps m [kvs] with
    | some e, [(k, v)] => ({ st with srv := m.mutate e k v }, [])
    | _, _ => (st, [])
  | ["rem", e, k] =>
    if !ok then (st, []) else
    match e.toNat?, letterFns k with
    | some e, some k => ({ st with srv := m.remove e k }, [])
    | _, _ => (st, [])
  | ["mark", e, v] =>
    if !ok then (st, []) else
    match e.toNat? with
    | some e => ({ st with srv := m.mark e (v = "1") }, [])
    | none => (st, [])
  | ["vis", c, e, v] =>
    if !ok then (st, []) else
    match c.toNat?, e.toNat? with
    | some c, some e => ({ st with srv := m.setVisibility c e (v = "1") }, [])
    | _, _ => (st, [])
  | ["map", c, e, p] =>
    if !ok then (st, []) else
    match c.toNat?, e.toNat?, p.toNat? with
    | some c, some e, some p => ({ st with srv := m.addMapping c e p }, [])
    | _, _, _ => (st, [])
  | ["cspawn", c, p] =>
    match c.toNat?, p.toNat?, obs.head?.map toks with
    | some c, some p, some ts =>
      match kvNat ts "bits" with
      | some b => ({ st with cents := ((c, b), p) :: st.cents }, [])
      | none => (st, [])
    | _, _, _ => (st, [])
  | ["connect", c] =>
    if !ok then (st, []) else
    match c.toNat? with
    | some c => ({ st with srv := m.connect c (!st.authCheck && !st.authCustom) }, [])
    | none => (st, [])
  | ["auth", c] =>
    if !ok then (st, []) else
    match c.toNat? with
    | some c => ({ st with srv := m.authorize c }, [])
    | none => (st, [])
  | ["disconnect", c] =>
    if !ok then (st, []) else
    match c.toNat? with
    | some c => ({ st with srv := m.disconnect c }, [])
    | none => (st, [])
  | ["start"] => if ok then ({ st with srv := m.start }, []) else (st, [])
  | ["stop"] => if ok then ({ st with srv := m.stop }, []) else (st, [])
  | ["deliver", c, "c2s", "0", _] =>
    match c.toNat?, obs.head?.map toks with
    | some c, some ("ok" :: ts) =>
      match kvHex ts "hex" with
      | some bs => ({ st with srv := m.receiveAck c (Wire.decodeAcks bs) }, [])
      | none => (st, [])
    | _, _ => (st, [])
  | ["deliver", c, "c2s", "1", _] =>
    -- the ProtocolHash trigger of the default authorization: equal registrations on both sides
    match c.toNat?, obs.head?.map toks with
    | some c, some ("ok" :: ts) =>
      if !st.authCheck then (st, [])
      else if isWrong st c then (st, [])   -- `check_protocol`: hashes differ, no authorization
      else ({ st with srv := m.authorize c, legitHash := kvHex ts "hex" }, [])
    | _, _ => (st, [])
  | ["junk", c, "1", hex] =>
    -- the protocol-hash channel: the real message authorizes; anything else that decodes is a
    -- protocol mismatch, which ends the session (not modelled: the models are switched off)
    if !ok || !st.authCheck then (st, []) else
    match c.toNat?, parseHex hex with
    | some c, some bs =>
      match Recv.receive .hash true bs with
      | .ok (.event _ _) =>
        if some bs = st.legitHash then ({ st with srv := m.authorize c }, [])
        else ({ st with modelOff := true, cliOff := [0, 1, 2] }, [])
      | _ => (st, [])
    | _, _ => (st, [])
  | ["junk", c, "0", hex] =>
    if !ok then (st, []) else
    match c.toNat?, parseHex hex with
    | some c, some bs => ({ st with srv := m.receiveAck c (Wire.decodeAcks bs) }, [])
    | _, _ => (st, [])
  | "sframe" :: rest =>
    if obs = ["skip"] || obs.any (·.startsWith "panic") then ({ st with modelOff := true }, []) else
    let jump := tickJump rest
    let ticked := jump ≥ 1
    let ms := ((rest.getD 1 "").drop 3).toString.toNat?.getD 10
    match obs.getLast?.map toks with
    | some ("srv" :: ts) =>
      -- `tick=K`, K ≥ 2: `ServerTick::increment_by(K)` is K − 1 silent increments and one frame with a new tick
      let m := if jump ≥ 2 && m.running then { m with tick := m.tick + (jump - 1) } else m
      let st := if jump ≥ 2 then { st with stats := "srv.tick_jump" :: st.stats } else st
      let st := { st with srvBefore := m }
      let fm := decodeFrame st obs
      let (m1, ran, outs) := m.frameBegin ticked ms
      let realRan : Bool := kv ts "repl" == some "1"
      let tick := (kvNat ts "tick").getD 0
      let vRan := if ran == realRan then [] else
        [Verdict.mismatch "SRV" s!"tick {tick}: send_replication ran = {realRan} in the implementation, {ran} in the model"]
      let vTick := if tick = m1.tick then [] else [Verdict.mismatch "SRV" s!"ServerTick impl {tick} model {m1.tick}"]
      let clients := (m1.clients.map (·.1))
      let vMsgs := clients.flatMap fun c => compareClient st c (outs.lookup c) fm tick
      let parts (c : Nat) : List (List Nat) :=
        (fm.mutates.filter (·.1 = c)).map fun (_, mm, _) => mm.ents.filterMap fun e => lookupBits st e.ent
      let elapsed := st.elapsed + ms
      let m2 := m1.frameEnd ran parts
      -- clients the server asked to disconnect are dropped by the backend (the harness)
      let m2 := (discsOf obs).foldl (fun m d => match d with | some c => m.disconnect c | none => m) m2
      let vs := vRan ++ vTick ++ vMsgs
      -- after a divergence the model is switched off for the rest of the case (one report per case)
      ({ st with srv := m2, elapsed := elapsed, modelOff := !vs.isEmpty }, vs)
    | _ => (st, [])
  | _ => (st, [])


/-! ### lock-step protocol model of the clients (Model/Client.lean) -/

def preId (p : Nat) : Nat := 100000 + p

def toModelComps (st : State) (cs : List Wire.Comp) : List (Nat × Nat) :=
  cs.map fun c => if c.fns = 4 then (4, (st.bits.lookup c.value).getD 999999) else (c.fns, c.value)

def toModelUpdate (st : State) (c : Nat) (u : Wire.UpdateMsg) : Option Srv.Update := do
  let mappings ← u.mappings.mapM fun (se, ce) => do
    some ((← lookupBits st se), preId (← st.cents.lookup (c, Wire.Ent.bits ce)))
  let despawns ← u.despawns.mapM (lookupBits st)
  let removals ← u.removals.mapM fun r => do some ((← lookupBits st r.ent), r.fns)
  let changes ← u.changes.mapM fun ch => do
    some ({ ent := (← lookupBits st ch.ent), comps := toModelComps st ch.comps } : Srv.MsgEnt)
  some { tick := u.tick, mappings := mappings, despawns := despawns, removals := removals, changes := changes }

def toModelMutate (st : State) (m : Wire.MutateMsg) : Option Cli.Mutate := do
  let ents ← m.ents.mapM fun ch => do
    some ({ ent := (← lookupBits st ch.ent), comps := toModelComps st ch.comps } : Srv.MsgEnt)
  some { updateTick := m.updateTick, tick := m.tick, index := m.index, ents := ents, count := m.count }

def getCli (st : State) (c : Nat) : Cli.Client :=
  (st.clis.lookup c).getD { mutTicks := if st.track then some MutateTicks.default else none }
def setCli (st : State) (c : Nat) (x : Cli.Client) : State := { st with clis := (c, x) :: st.clis.filter (·.1 ≠ c) }
def getInbox (st : State) (c : Nat) : List Srv.Update × List Cli.Mutate := (st.inbox.lookup c).getD ([], [])
def setInbox (st : State) (c : Nat) (x : List Srv.Update × List Cli.Mutate) : State :=
  { st with inbox := (c, x) :: st.inbox.filter (·.1 ≠ c) }

/-- the model client's view in the shape of the harness's `cli` observation -/
def cliView (cl : Cli.Client) : List CEnt :=
  cl.s2c.map fun (se, ce) =>
    match Srv.aget cl.world ce with
    | none => { key := toString se, idx := some se, dead := true, marked := false, pre := none, hist := none, comps := [] }
    | some ent =>
      { key := toString se, idx := some se, dead := false, marked := ent.marked,
        pre := if ce ≥ 100000 then some (ce - 100000) else none,
        hist := ent.hist.map fun t => (t, 0),
        comps := ent.comps.map fun (k, v) =>
          (fnsLetter k, if k = 4 then (Srv.aget cl.c2s v) else some v) }

def showCEnt (e : CEnt) : String :=
  s!"{e.key}:dead={e.dead}:m={e.marked}:pre={repr e.pre}:h={repr (e.hist.map (·.1))}:{(e.comps.map fun (k, v) => s!"{k}={repr v}")}"

def canonCEnts (l : List CEnt) : List String :=
  sortStr (l.map fun e => showCEnt { e with comps := (e.comps.toArray.qsort (fun a b => a.1 < b.1)).toList })

/-- Drive the client models. -/
def cliStep (st : State) (inp : List String) (obs : List String) : State × List Verdict :=
  let ok : Bool := match obs.head? with
    | some o => (toks o).head? == some "ok"
    | none => false
  match inp with
  | ["connect", c] =>
    match c.toNat? with
    | some c => if ok then (setInbox (setCli st c { getCli st c with connected := true }) c ([], []), []) else (st, [])
    | none => (st, [])
  | ["disconnect", c] =>
    match c.toNat? with
    | some c => if ok then (setInbox (setCli st c { getCli st c with connected := false }) c ([], []), []) else (st, [])
    | none => (st, [])
  | ["stop"] =>
    if !ok then (st, []) else
    ({ st with clis := st.clis.map fun (c, cl) => (c, { cl with connected := false }), inbox := [] }, [])
  | "sframe" :: _ =>
    -- the harness ends the session of clients whose server-side entity is gone
    match obs.getLast?.map toks with
    | some ("srv" :: ts) =>
      match parseSnap ts with
      | some snap =>
        let present := snap.clis.map (·.c)
        ({ st with clis := st.clis.map fun (c, cl) => (c, if cl.connected && !present.contains c then { cl with connected := false } else cl) }, [])
      | none => (st, [])
    | _ => (st, [])
  | ["cspawn", c, p] =>
    match c.toNat?, p.toNat? with
    | some c, some p =>
      let cl := getCli st c
      (setCli st c { cl with world := Srv.aset cl.world (preId p) {} }, [])
    | _, _ => (st, [])
  | ["cdespawn", c, p] =>
    match c.toNat?, p.toNat? with
    | some c, some p =>
      if !ok then (st, []) else
      let cl := getCli st c
      (setCli st c { cl with world := Srv.adel cl.world (preId p) }, [])
    | _, _ => (st, [])
  | ["deliver", c, "s2c", ch, _] =>
    match c.toNat?, obs.head?.map toks with
    | some c, some ("ok" :: ts) =>
      if st.cliOff.contains c then (st, []) else
      let (us, ms) := getInbox st c
      match ch, kvHex ts "hex" with
      | "0", some bs =>
        match decodeUpdate bs with
        | .ok u =>
          match toModelUpdate st c u with
          | some mu => (setInbox st c (us ++ [mu], ms), [])
          | none => ({ st with cliOff := c :: st.cliOff }, [])
        | _ => ({ st with cliOff := c :: st.cliOff }, [])
      | "1", some bs =>
        match decodeMutate st.track bs with
        | .ok m =>
          match toModelMutate st m with
          | some mm => (setInbox st c (us, ms ++ [mm]), [])
          | none => ({ st with cliOff := c :: st.cliOff }, [])
        | _ => ({ st with cliOff := c :: st.cliOff }, [])
      | _, _ => (st, [])
    | _, _ => (st, [])
  | ["cframe", cs] =>
    match cs.toNat? with
    | none => (st, [])
    | some c =>
      if obs = ["skip"] || obs.any (·.startsWith "panic") then ({ st with cliOff := c :: st.cliOff }, []) else
      if st.cliOff.contains c then (st, []) else
      let (us, ms) := getInbox st c
      let cl := Cli.frame (getCli st c) us ms
      let st := setInbox (setCli st c cl) c ([], [])
      match obs.getLast?.map toks with
      | some ("cli" :: ts) =>
        let real := parseCEnts ((kv ts "ents").getD "-")
        let realC := canonCEnts (real.map fun e => { e with hist := e.hist.map fun (t, _) => (t, 0) })
        let modelC := canonCEnts (cliView cl)
        let upd := (kvNat ts "upd").getD 0
        let realAcks := obs.flatMap fun o =>
          let t := toks o
          if t.head? = some "csent" && kvNat t "ch" = some 0 then (Wire.decodeAcks ((kvHex t "hex").getD [])) else []
        let v1 := if realC = modelC then [] else [Verdict.mismatch "CLI" s!"client {c}: entities impl {realC} model {modelC}"]
        let v2 := if upd = cl.updateTick then [] else [Verdict.mismatch "CLI" s!"client {c}: ServerUpdateTick impl {upd} model {cl.updateTick}"]
        let v3 := if realAcks = cl.acks then [] else [Verdict.mismatch "CLI" s!"client {c}: acknowledgements impl {realAcks} model {cl.acks}"]
        -- `MutateTickReceived` (tracking on): the model's tracker reports the same ticks
        let realMtr := match kv ts "mtr" with
          | some "-" => some []
          | some l => some ((l.splitOn ",").filterMap String.toNat?)
          | none => none
        let v4 := match realMtr with
          | some r => if r = cl.notified then [] else [Verdict.mismatch "CLI" s!"client {c}: ticks reported as fully received impl {r} model {cl.notified}"]
          | none => []
        -- C12, per entity, end to end: a tick the entity was confirmed for (it was its confirmed tick at the
        -- end of an earlier client frame) stays in its `ConfirmHistory` while it is inside the window
        let confNow : List ((Nat × Nat × Nat) × List Nat) := cl.s2c.filterMap fun (se, ce) =>
          match Srv.aget cl.world ce with
          | some ent => (match ent.hist with
            | some t =>
              let old := ((st.confirmed.lookup (c, se, ce)).getD []).filter fun t' => t' ≤ t && t - t' < 64
              some ((c, se, ce), if old.contains t then old else t :: old)
            | none => none)
          | none => none
        let st := { st with confirmed := confNow ++ st.confirmed.filter (fun (x : (Nat × Nat × Nat) × List Nat) => x.1.1 ≠ c) }
        let v5 : List Verdict := if !v1.isEmpty then [] else real.flatMap fun e =>
          match e.idx, e.hist with
          | some se, some (last, mask) =>
            (match Srv.aget cl.s2c se with
             | some ce => ((st.confirmed.lookup (c, se, ce)).getD []).filterMap fun t =>
                 if t ≤ last && last - t < 64 && (mask >>> (last - t)) % 2 = 0 then
                   some (Verdict.oracle "C12" s!"client {c}: entity {se} was confirmed for tick {t}; its ConfirmHistory (last tick {last}, mask {mask}) no longer contains that tick")
                 else none
             | none => [])
          | _, _ => []
        let vs := v1 ++ v2 ++ v3 ++ v4 ++ v5
        ({ st with cliOff := if vs.isEmpty then st.cliOff else c :: st.cliOff }, vs)
      | _ => (st, [])
  | _ => (st, [])


/-! ### remote events: oracles C04 / C05 / C13 on the implementation's observations -/

def note (st : State) (k : String) : State := { st with stats := k :: st.stats }

def modeOf (m : String) : Evt.Mode :=
  if m = "b" then .broadcast else if m = "ds" then .direct none else if m = "xs" then .except none
  else if m.startsWith "x" then .except ((m.drop 1).toString.toNat?) else .direct ((m.drop 1).toString.toNat?)

def evChanBase (st : State) : Nat := if st.authCheck then 3 else 2

/-- decode an event message of a server event channel: (stamp?, id) -/
def decodeEventMsg (st : State) (ch : Nat) (bs : List Nat) : Option (Option Nat × Nat) :=
  let k := ch - evChanBase st
  let idOf (r : List Nat) : Option Nat := match decodeU32 r with | .ok (v, _) => some v | _ => none
  if ch < evChanBase st then none else
  match k with
  | 2 => (idOf bs).map fun i => (none, i)                       -- independent: no stamp
  | 0 | 1 | 4 => match decodeU32 bs with
    | .ok (stamp, r) => (idOf r).map fun i => (some stamp, i)
    | _ => none
  | 3 => match decodeU32 bs with
    | .ok (stamp, r) =>
      match decodeU64 r with
      | .ok (n, r2) =>
        match decodeN decodeEntity n r2 with
        | .ok (_, r3) => (idOf r3).map fun i => (some stamp, i)
        | _ => none
      | _ => none
    | _ => none
  | _ => none

def parseEvEntry (e : String) : Option (String × Nat × Option String × Option String × Option Nat) :=
  -- (kind, id, target, from, upd)
  match e.splitOn ":" with
  | kind :: id :: rest => do
    let id ← id.toNat?
    let tgt := rest.find? (·.startsWith "@")
    let frm := (rest.find? (·.startsWith "from")).map fun f => (f.drop 4).toString
    let upd := (rest.find? (·.startsWith "u")).bind fun u => (u.drop 1).toString.toNat?
    some (kind, id, tgt, frm, upd)
  | _ => none

def clientAllowed (ev : EvRec) (c : Nat) : Bool :=
  match modeOf ev.mode with
  | .broadcast => true
  | .except x => x ≠ some c
  | .direct x => x = some c

/-- in C06 cases legitimate events carry ids from a reserved range; everything else was decoded
from injected bytes -/
def isJunkId (st : State) (id : Nat) : Bool := st.junkCase && !(3000000000 ≤ id && id < 3001000000)

def evtStep (st : State) (inp : List String) (obs : List String) : State × List Verdict :=
  if !st.events then (st, []) else
  let ok : Bool := match obs.head? with
    | some o => (toks o).head? == some "ok"
    | none => false
  let st0 := st
  -- bookkeeping of sessions
  let st := match inp with
    | ["connect", c] => if ok then (match c.toNat? with
        | some c => { st with sessionStart := (c, st.ops) :: st.sessionStart.filter (·.1 ≠ c), firstFrame := st.firstFrame.filter (· ≠ c),
                              lastConnect := (c, st.ops) :: st.lastConnect.filter (·.1 ≠ c),
                              lastUpdSent := st.lastUpdSent.filter (·.1 ≠ c),
                              updSentCount := st.updSentCount.filter (·.1 ≠ c), updGotCount := st.updGotCount.filter (·.1 ≠ c) }
        | none => st) else st
    | ["disconnect", c] => if ok then (match c.toNat? with
        | some c => { st with sessionStart := st.sessionStart.filter (·.1 ≠ c), sessionBroken := c :: st.sessionBroken }
        | none => st) else st
    | ["stop"] => if ok then { st with sessionBroken := st.sessionStart.map (·.1) ++ st.sessionBroken, sessionStart := [], srvStops := st.srvStops + 1 } else st
    | "sframe" :: _ =>
      -- sessions the server ended itself (DisconnectRequest)
      (discsOf obs).foldl (fun (st : State) d => match d with
        | some c => { st with sessionStart := st.sessionStart.filter (·.1 ≠ c), sessionBroken := c :: st.sessionBroken }
        | none => st) st
    | ["deliver", c, "s2c", "0", _] => if ok then (match c.toNat? with
        | some c => { st with updGotCount := (c, (st.updGotCount.lookup c).getD 0 + 1) :: st.updGotCount.filter (·.1 ≠ c) }
        | none => st) else st
    | _ => st
  match inp with
  | "sev" :: kind :: id :: mode :: rest =>
    if !ok then (st, []) else
    match id.toNat? with
    | some id =>
      let ev : EvRec := { id := id, kind := kind, s2c := true, mode := mode, target := rest.head?.bind String.toNat?,
                          emitter := "s", opIdx := st.ops, srvRunning := st.running, emitterConnected := true,
                          emitterFresh := false, mappedOk := true, stops := st.srvStops,
                          authAtEmit := (st.srv.clients.filter fun (_, cl) => cl.authorized).map (·.1) }
      (note (note { st with evs := ev :: st.evs } s!"evt.sev.{kind}") s!"evt.mode.{(mode.take 1).toString}", [])
    | none => (st, [])
  | "cev" :: who :: kind :: id :: rest =>
    if !ok then (st, []) else
    match id.toNat? with
    | some id =>
      let c := who.toNat?
      let connected := match c with
        | some c => (st.sessionStart.lookup c).isSome
        | none => false
      let fresh := match c with
        | some c => !st.firstFrame.contains c
        | none => false
      let mappedOk := !(obs.head?.map fun o => (toks o).contains "mapped=0").getD false
      let ev : EvRec := { id := id, kind := kind, s2c := false, mode := "", target := rest.head?.bind String.toNat?,
                          emitter := who, opIdx := st.ops, srvRunning := st.running, emitterConnected := connected,
                          emitterFresh := fresh, mappedOk := mappedOk, stops := st.srvStops,
                          clientEnt := obs.head?.bind fun o => kvNat (toks o) "ce",
                          emitFrame := (c.bind fun c => List.lookup c st.cframes).getD 0 }
      (note { st with evs := ev :: st.evs } (s!"evt.cev.{kind}" ++ (if connected then "" else ".disconnected")), [])
    | none => (st, [])
  | _ =>
    -- stamps of event messages put on the wire in this server frame, and C07 for events
    let st := if inp.head? ≠ some "sframe" then st else
      obs.foldl (fun (st : State) o =>
        let ts := toks o
        if ts.head? ≠ some "sent" then st else
        match kvNat ts "c", kvNat ts "ch", kvHex ts "hex" with
        | some c, some 0, some bs => (match decodeUpdate bs with
          | .ok u => { st with lastUpdSent := (c, u.tick) :: st.lastUpdSent.filter (·.1 ≠ c),
                               updSentCount := (c, (st.updSentCount.lookup c).getD 0 + 1) :: st.updSentCount.filter (·.1 ≠ c) }
          | _ => st)
        | _, _, _ => st) st
    let (st, vSent) : State × List Verdict :=
      if inp.head? ≠ some "sframe" then (st, []) else
      obs.foldl (fun (acc : State × List Verdict) o =>
        let ts := toks o
        if ts.head? ≠ some "sent" then acc else
        match kvNat ts "c", kvNat ts "ch", kvHex ts "hex" with
        | some c, some ch, some bs =>
          match decodeEventMsg acc.1 ch bs with
          | some (stamp, id) =>
            let st' := match stamp with
              | some s => { acc.1 with stamps := ((c, id), s) :: acc.1.stamps,
                                       required := ((c, id), (acc.1.lastUpdSent.lookup c).getD 0) :: acc.1.required,
                                       requiredCount := ((c, id), (acc.1.updSentCount.lookup c).getD 0) :: acc.1.requiredCount }
              | none => acc.1
            -- the stamp is the client's update tick as the server model has it after this run
            let vStamp := if acc.1.modelOff then [] else match stamp, (st0.srv.clients.lookup c) with
              | some s, some _ => (match (acc.1.srv.clients.lookup c) with
                  | some cl => if cl.updateTick = s then [] else
                      [Verdict.mismatch "C04" s!"event {id} for client {c} is stamped {s}, the server model has update tick {cl.updateTick} for it"]
                  | none => [])
              | _, _ => []
            -- the implementation-level counterpart of `Joint.StampsOk` (C04_history): the stamp is
            -- the tick of the last update message sent to that client in its session
            let vGhost := match stamp with
              | some s => let lu := (acc.1.lastUpdSent.lookup c).getD 0
                if s = lu then [] else
                  [Verdict.oracle "C04" s!"event {id} for client {c} is stamped {s}, but the last update message sent to that client in this session has tick {lu}"]
              | none => []
            -- non-independent events never go to clients without authorization
            let vAuth := if acc.1.modelOff then [] else match stamp, (acc.1.srv.clients.lookup c) with
              | some _, some cl => if cl.authorized then [] else [Verdict.oracle "C07" s!"non-independent event {id} sent to unauthorized client {c}"]
              | _, _ => []
            (st', acc.2 ++ vStamp ++ vGhost ++ vAuth)
          | none => acc
        | _, _, _ => acc) (st, [])
    -- deliveries observed by game logic
    let (st, vLog) : State × List Verdict :=
      obs.foldl (fun (acc : State × List Verdict) o =>
        let ts := toks o
        match ts with
        | ["evlog", who, entries] =>
          if entries = "-" then acc else
          (entries.splitOn ",").foldl (fun (acc : State × List Verdict) e =>
            match parseEvEntry e with
            | none => (acc.1, acc.2 ++ [Verdict.bad s!"evlog entry {e}"])
            | some (kind, id, tgt, frm, upd) =>
              -- injected bytes that decode to an event are compared by `junkLock`
              if isJunkId acc.1 id then acc else
              let st := acc.1
              let dup := st.delivs.contains (who, kind, id)
              let vDup := if dup then [Verdict.oracle "C05" s!"event {id} ({kind}) is handed to {who} a second time",
                                       Verdict.oracle "C13" s!"event {id} ({kind}) is observed twice by {who}"] else []
              let ev := st.evs.find? (·.id = id)
              let isC2s := kind.startsWith "c"
              let vEv : List Verdict := match ev with
                | none => [Verdict.oracle "C05" s!"{who} observed event {id} ({kind}) that nobody sent"]
                | some ev =>
                  if who = "s" then
                    if isC2s then
                      -- towards the server: observed by server-side logic with the true sender
                      (if frm = some ev.emitter || (ev.emitter = "s" && frm = some "S") then [] else
                        [Verdict.oracle "C05" s!"client event {id} emitted by {ev.emitter} reaches the server as from {frm}"]) ++
                      (if ev.emitter = "s" || ev.mappedOk then [] else [Verdict.oracle "C05" s!"client event {id} with an unmappable entity was sent"]) ++
                      (if kind = "cord" then [] else
                        (if tgt = ev.target.map (fun t => s!"@{t}") then [] else [Verdict.oracle "C05" s!"client event {id}: entity reference arrives as {tgt}, sent for entity {ev.target}"]))
                    else
                      -- a server event observed locally on the server app
                      if Evt.localDelivery (modeOf ev.mode) then [] else
                        [Verdict.oracle "C13" s!"server event {id} with mode {ev.mode} is observed locally although the local server is not among its recipients"]
                  else
                    let c := (who.drop 1).toString.toNat?.getD 0
                    if isC2s then
                      -- a client app observing its own client event: only as singleplayer
                      (if ev.emitter ≠ toString c || frm ≠ some "S" then
                        [Verdict.oracle "C13" s!"client {c} observes client event {id} locally (emitter {ev.emitter}, from {frm})"]
                       else if st.onWire.contains (c, id) then
                        let age := (st.cframes.lookup c).getD 0 - ev.emitFrame
                        if age ≤ f13Window then
                          [Verdict.oracle "C13" s!"[F13] client {c}: event {id} was sent to the remote server and is handled a second time locally after the session ended"]
                        else
                          [Verdict.oracle "C13" s!"client {c}: event {id} was sent to the remote server {age} client frames ago (long out of Bevy's event buffer) and is handled a second time locally after the session ended"]
                       else [])
                    else
                      (if clientAllowed ev c then [] else [Verdict.oracle "C05" s!"event {id} with mode {ev.mode} is delivered to client {c}"]) ++
                      (match st.sessionStart.lookup c with
                       | some t0 =>
                         -- an event is "sent" in the server frame that follows its emission
                         let sentAt := ((st.sframeOps.filter (· > ev.opIdx)).getLast?).getD (st.ops + 1)
                         (if t0 < sentAt then [] else [Verdict.oracle "C05" s!"client {c} receives event {id} that was sent before it connected",
                            Verdict.oracle "C09" s!"client {c} is handed event {id}, which was sent before its session began: something queued before the session is delivered in it"]) ++
                         (if ev.stops = st.srvStops then [] else
                           [Verdict.oracle "C09" s!"client {c} is handed event {id}, which was emitted before the server stopped: an event buffered in the previous server session is delivered in the new one"])
                       | none => [Verdict.oracle "C05" s!"client {c} without a session receives event {id}"]) ++
                      (if kind = "ind" then [] else
                        match st.stamps.lookup (c, id), upd with
                        | some stamp, some u => if (if st.wrapCase then tickLe stamp u else decide (stamp ≤ u)) then [] else
                            [Verdict.oracle "C04" s!"event {id} stamped {stamp} is handed to client {c} at update tick {u}: before the replication it depends on"]
                        | _, _ => []) ++
                      (if kind = "ind" then [] else
                        match st.required.lookup (c, id), upd with
                        | some req, some u => if (if st.wrapCase then tickLe req u else decide (req ≤ u)) then [] else
                            [Verdict.oracle "C04" s!"event {id} is handed to client {c} at update tick {u}, but the server had sent it an update message of tick {req} before it sent the event: the event outran that replication"]
                        | _, _ => []) ++
                      (if kind = "ind" then [] else
                        match st.requiredCount.lookup (c, id) with
                        | some n => let got := (st.updGotCount.lookup c).getD 0
                          if n ≤ got then [] else
                            -- known finding F20: the only update message it outran is the one of tick 0
                            let tag := if st.stamps.lookup (c, id) = some 0 && st.required.lookup (c, id) = some 0 && upd = some 0 then "[F20] " else ""
                            [Verdict.oracle "C04" s!"{tag}event {id} is handed to client {c} after {got} update messages of this session, but {n} had been sent to it before the event: the event outran replication (stamp {st.stamps.lookup (c, id)}, update tick {upd})"]
                        | none => []) ++
                      (if kind = "map" || kind = "trig" then
                        (if tgt = ev.target.map (fun t => s!"@{t}") then [] else
                          [Verdict.oracle "C04" s!"event {id}: entity reference resolves to {tgt} on client {c}, sent for entity {ev.target}"])
                       else [])
              -- order per receiver and kind (ids grow with emission order)
              let okey := kind ++ (frm.getD "")
              let vOrd := match (st.delivs.filter fun d => d.1 = who && d.2.1 = okey).head? with
                | some (_, _, lastId) => if kind = "unrel" || lastId < id then [] else
                    [Verdict.oracle "C05" s!"{who} receives {kind} event {id} after event {lastId}: out of sending order"]
                | none => []
              ({ st with delivs := (who, kind, id) :: (who, okey, id) :: st.delivs }, acc.2 ++ vDup ++ vEv ++ vOrd)) acc
        | _ => acc) (st, [])
    let st := if inp.head? = some "sframe" then { st with sframeOps := st.ops :: st.sframeOps } else st
    let st := match inp with
      | ["cframe", c] => (match c.toNat? with
        | some c =>
          let base := if st.authCheck then 2 else 1
          let wire := obs.filterMap fun o =>
            let t := toks o
            if t.head? ≠ some "csent" then none else
            match kvNat t "ch", kvHex t "hex" with
            | some ch, some bs =>
              if ch < base then none else
              if ch = base || ch = base + 1 then (match decodeU32 bs with | .ok (i, _) => some (c, i) | _ => none)
              else (match decodeU64 bs with
                | .ok (n, r) => (match decodeN decodeEntity n r with
                  | .ok (_, r2) => (match decodeU32 r2 with | .ok (i, _) => some (c, i) | _ => none)
                  | _ => none)
                | _ => none)
            | _, _ => none
          let hasSession := (st.sessionStart.lookup c).isSome
          let due := if hasSession then [] else
            -- events pending when the client connects are discarded by `reset`, so only those
            -- emitted since the latest connect are due
            (st.evs.filter fun ev => !ev.s2c && ev.emitter = toString c && ev.kind = "ord" && !ev.emitterConnected &&
              ev.opIdx > (st.lastConnect.lookup c).getD 0).map fun ev => (c, ev.id)
          -- mapped client events and triggers leave in the first frame after they were emitted; the
          -- referenced entity has to be in the client's map then (the map changes only in client frames)
          let mappedNow : List (Nat × Nat) := match obs.getLast?.map toks with
            | some ("cli" :: ts) => (((kv ts "cbits").getD "-").splitOn ",").filterMap fun p =>
                match p.splitOn ">" with
                | [i, b] => (match i.toNat?, b.toNat? with | some i, some b => some (i, b) | _, _ => none)
                | _ => none
            | _ => []
          let leaving := st.evs.filter fun ev => !ev.s2c && ev.emitter = toString c && (ev.kind = "map" || ev.kind = "trig") &&
            !st.cevFramed.contains ev.id
          let exempt := (leaving.filter fun ev => match ev.target, ev.clientEnt with
            | some t, some b => !mappedNow.contains (t, b)
            | _, _ => true).map (·.id)
          { st with firstFrame := c :: st.firstFrame, onWire := wire ++ st.onWire, expectLocal := due ++ st.expectLocal,
                    cevFramed := leaving.map (·.id) ++ st.cevFramed, cevExempt := exempt ++ st.cevExempt }
        | none => st)
      | _ => st
    -- exactly once, after everything was delivered
    let vFinal : List Verdict :=
      if inp ≠ ["flushed"] then [] else
      st.evs.flatMap fun ev =>
        if ev.stops ≠ st.srvStops then [] else
        if ev.s2c then
          let vLocal :=
            if Evt.localDelivery (modeOf ev.mode) && !(ev.kind = "trig" && st.dedicated) && !st.delivs.contains ("s", ev.kind, ev.id) then
              [Verdict.oracle "C13" s!"server event {ev.id} ({ev.kind}, mode {ev.mode}) was never observed locally although the local server is among its recipients"] else []
          let vRemote := if !(ev.kind = "ord" || ev.kind = "ind") || !ev.srvRunning then [] else
            (st.sessionStart.filter fun (c, t0) => t0 < ev.opIdx && clientAllowed ev c &&
                (ev.kind = "ind" || ev.authAtEmit.contains c)).filterMap fun (c, _) =>
              if st.delivs.contains (s!"c{c}", ev.kind, ev.id) then none
              else some (Verdict.oracle "C05" s!"event {ev.id} ({ev.kind}, mode {ev.mode}) never reached client {c} although the session was up and everything was delivered")
          vLocal ++ vRemote
        else
          if ev.kind ≠ "ord" then
            -- a mapped event or a targeted trigger whose entity the client could translate (mapped when it
            -- was emitted and still at the end of the frame that sent it) and that is still alive on the server
            match ev.emitter.toNat? with
            | some c =>
              -- the session the event was emitted in is still the client's session
              let sameSession := (st.sessionStart.lookup c).any fun t0 => t0 < ev.opIdx
              let alive := match st.last, ev.target with
                | some s, some t => s.ents.any fun e => e.idx = t
                | _, _ => false
              if ev.emitterConnected && ev.mappedOk && !ev.emitterFresh && sameSession && ev.srvRunning && alive &&
                 st.cevFramed.contains ev.id && !st.cevExempt.contains ev.id && !st.delivs.contains ("s", "c" ++ ev.kind, ev.id) then
                [Verdict.oracle "C05" s!"client {if ev.kind = "trig" then "trigger" else "event"} {ev.id} ({ev.kind}) from client {c}, whose entity {ev.target} the client could translate, never reached the server although the session was up"]
              else []
            | none => []
          else
          if ev.emitter = "s" then
            (if st.dedicated || st.delivs.contains ("s", "cord", ev.id) then [] else
              [Verdict.oracle "C13" s!"event {ev.id} sent towards the server by the local game was never observed by server-side logic"])
          else
            match ev.emitter.toNat? with
            | some c =>
              if ev.emitterConnected then
                (if ev.emitterFresh || !((st.sessionStart.lookup c).any fun t0 => t0 < ev.opIdx) || !ev.srvRunning || st.delivs.contains ("s", "cord", ev.id) then []
                 else [Verdict.oracle "C05" s!"client event {ev.id} from client {c} never reached the server although the session was up"])
              else
                (if !st.expectLocal.contains (c, ev.id) || st.delivs.contains (s!"c{c}", "cord", ev.id) then []
                 else [Verdict.oracle "C13" s!"event {ev.id} sent by the disconnected client app {c} (singleplayer) was never observed locally"])
            | none => []
    (st, vSent ++ vLog ++ vFinal)

/-! ### remote events: lock step with `Model/Events.lean` -/

def evKindIdx (k : String) : Nat :=
  if k = "ord" then 0 else if k = "map" then 1 else if k = "ind" then 2 else if k = "trig" then 3 else 4

def evKindName (k : Nat) : String :=
  match k with | 0 => "ord" | 1 => "map" | 2 => "ind" | 3 => "trig" | _ => "unrel"

/-- (stamp, id, referenced entity bits) of a server event message -/
def decodeEventFull (st : State) (ch : Nat) (bs : List Nat) : Option (Option Nat × Nat × List Nat) :=
  if ch < evChanBase st then none else
  let idOf (r : List Nat) : Option Nat := match decodeU32 r with | .ok (v, _) => some v | _ => none
  match ch - evChanBase st with
  | 2 => (idOf bs).map fun i => (none, i, [])
  | 0 | 4 => match decodeU32 bs with
    | .ok (stamp, r) => (idOf r).map fun i => (some stamp, i, [])
    | _ => none
  | 1 => match decodeU32 bs with
    | .ok (stamp, r) => (match decodeU32 r with
      | .ok (i, r2) => (match decodeU64 r2 with
        | .ok (bits, _) => some (some stamp, i, [bits])
        | _ => none)
      | _ => none)
    | _ => none
  | 3 => match decodeU32 bs with
    | .ok (stamp, r) => (match decodeU64 r with
      | .ok (n, r2) => (match decodeN decodeEntity n r2 with
        | .ok (es, r3) => (idOf r3).map fun i => (some stamp, i, es.map Wire.Ent.bits)
        | _ => none)
      | _ => none)
    | _ => none
  | _ => none

def showOuts (l : List (Option Nat × Nat)) : String :=
  toString (l.map fun (s, i) => s!"{i}@{match s with | some t => toString t | none => "-"}")

def dedupStates (l : List (Evt.CBuf × List Nat)) : List (Evt.CBuf × List Nat) :=
  l.foldl (fun acc x => if acc.contains x then acc else acc ++ [x]) []

/-- advance the candidate buffers of one app by one frame and compare with what was observed -/
def cbufFrame (st : State) (app : String) (jc : Bool) (status : Evt.Status) (obsWire obsLocal : List Nat) :
    State × List Verdict :=
  if st.evtOff.contains app then (st, []) else
  let cands := (st.cbufs.lookup app).getD [({}, [])]
  let next := cands.flatMap fun (q, due) =>
    if due ≠ obsLocal then [] else
    [false, true].filterMap fun aged =>
      let r := q.frame aged jc status
      if r.2.1.map (fun (x : Nat × Nat) => x.2) = obsWire then some (r.1, r.2.2.map (fun (x : Nat × Nat) => x.2)) else none
  if next.isEmpty then
    let ex := match cands.head? with
      | some (q, due) => let r := q.frame false jc status
        s!"model (no ageing): wire {r.2.1.map (fun (x : Nat × Nat) => x.2)}, local ids due from the previous frame {due}"
      | none => "-"
    ({ st with evtOff := app :: st.evtOff },
     [Verdict.mismatch "EVT" s!"app {app}: client events on the wire {obsWire}, observed locally {obsLocal}; no ageing choice of the model matches; {ex}"])
  else ({ st with cbufs := (app, dedupStates next) :: st.cbufs.filter (·.1 ≠ app) }, [])

def evtLock (st : State) (inp : List String) (obs : List String) : State × List Verdict :=
  if !st.events || st.modelOff then (st, []) else
  let ok : Bool := match obs.head? with
    | some o => (toks o).head? == some "ok"
    | none => false
  let evlogIds (who : String) (kind : String) (needFrom : Option String) : List Nat :=
    obs.flatMap fun o => match toks o with
      | ["evlog", w, entries] =>
        if w ≠ who || entries = "-" then [] else
        (entries.splitOn ",").filterMap fun e => match parseEvEntry e with
          | some (k, id, _, frm, _) => if k = kind && (needFrom.isNone || frm = needFrom) then some id else none
          | none => none
      | _ => []
  match inp with
  | "sev" :: kind :: id :: mode :: rest =>
    if !ok then (st, []) else
    match id.toNat? with
    | some id =>
      let em : Evt.Emitted := { ev := { id := id, chan := evChanBase st + evKindIdx kind, mode := modeOf mode },
                                independent := kind = "ind" }
      ({ st with evEmitted := st.evEmitted ++ [em] }, [])
    | none => (st, [])
  | "cev" :: who :: "ord" :: id :: _ =>
    if !ok || st.evtOff.contains who then (st, []) else
    match id.toNat? with
    | some id =>
      let cands := (st.cbufs.lookup who).getD [({}, [])]
      ({ st with cbufs := (who, cands.map fun (q, d) => (q.emit id, d)) :: st.cbufs.filter (·.1 ≠ who) }, [])
    | none => (st, [])
  | ["connect", c] =>
    if !ok then (st, []) else
    match c.toNat? with
    | some c => ({ st with srvEv := st.srvEv.exclude c,
                           evInbox := st.evInbox.filter (·.1.1 ≠ c), evQueue := st.evQueue.filter (·.1.1 ≠ c) }, [])
    | none => (st, [])
  | ["disconnect", c] =>
    if !ok then (st, []) else
    match c.toNat? with
    | some c => ({ st with evInbox := st.evInbox.filter (·.1.1 ≠ c) }, [])
    | none => (st, [])
  | ["stop"] => if ok then ({ st with evInbox := [] }, []) else (st, [])
  | ["deliver", c, "s2c", ch, _] =>
    match c.toNat?, ch.toNat?, obs.head?.map toks with
    | some c, some ch, some ("ok" :: ts) =>
      if ch < evChanBase st then (st, []) else
      match (kvHex ts "hex").bind (decodeEventFull st ch) with
      | some (stamp, id, refs) =>
        let cur := (st.evInbox.lookup (c, ch)).getD []
        ({ st with evInbox := ((c, ch), cur ++ [(stamp.getD 0, id)]) :: st.evInbox.filter (·.1 ≠ (c, ch)),
                   evRefs := (id, refs) :: st.evRefs.filter (·.1 ≠ id) }, [])
      | none => (st, [Verdict.mismatch "EVT" s!"event message on channel {ch} for client {c} does not decode"])
    | _, _, _ => (st, [])
  | "sframe" :: _ =>
    match obs.getLast?.map toks with
    | some ("srv" :: ts) =>
      let running := kv ts "run" == some "1"
      let flushed := kv ts "repl" == some "1"
      let justStopped := st.evLastRunning && !running
      let s0 := if justStopped then st.srvEv.clear else st.srvEv
      let peers : List Evt.Peer := st.srv.clients.map fun (c, cl) =>
        { id := c, authorized := cl.authorized, updateTick := cl.updateTick }
      let (s1, outs, _) := s0.frame running flushed true st.evEmitted peers
      -- what the implementation handed to the transport on event channels
      let actual : List ((Nat × Nat) × (Option Nat × Nat)) := obs.filterMap fun o =>
        let t := toks o
        if t.head? ≠ some "sent" then none else
        match kvNat t "c", kvNat t "ch", kvHex t "hex" with
        | some c, some ch, some bs =>
          if ch < evChanBase st then none else
          (match decodeEventFull st ch bs with
           | some (stamp, id, _) => some ((c, ch), (stamp, id))
           | none => some ((c, ch), (none, 4000000000)))
        | _, _, _ => none
      let expected : List ((Nat × Nat) × (Option Nat × Nat)) := outs.map fun o => ((o.client, o.chan), (o.stamp, o.id))
      let keys := (actual.map (·.1) ++ expected.map (·.1)).eraseDups
      let vs := keys.filterMap fun k =>
        let a := (actual.filter (·.1 = k)).map (·.2)
        let e := (expected.filter (·.1 = k)).map (·.2)
        if a = e then none else
          some (Verdict.mismatch "EVT" s!"server frame, client {k.1} channel {k.2}: the implementation sends events (id@stamp) {showOuts a}, the model {showOuts e}")
      -- The theorems about histories (C04_history, C05_history_*) are about `Joint.frame`: the
      -- composition used above (clear on a stop, the run's client ticks as peers, flush iff the
      -- run happened) must be that function's.
      let ms := (((inp.getD 2 "").drop 3).toString.toNat?).getD 10
      let jr := Joint.frame { srv := st.srvBefore, ev := st.srvEv, pending := st.evEmitted } (tickJump (inp.drop 1) ≥ 1) ms (fun _ => [])
      let vJoint := if jr.1.ev == s1 && jr.2.2 == outs then [] else
        [Verdict.mismatch "EVT" s!"the driver's composition of the event systems differs from Joint.frame: events {showOuts (outs.map fun o => (o.stamp, o.id))} vs {showOuts (jr.2.2.map fun o => (o.stamp, o.id))}"]
      let vs := vs ++ vJoint
      let st := if s0.buffer.any (fun b => !b.excluded.isEmpty && !b.events.isEmpty) && flushed then note st "evt.flush_with_excluded_client" else st
      let st := if s0.buffer.length ≥ 2 && flushed then note st "evt.flush_of_several_sets" else st
      let st := { st with srvEv := s1, evEmitted := [], evLastRunning := running }
      -- the server app's own client-event buffer (singleplayer / listen server path)
      let (st, v4) := if st.dedicated then (st, []) else
        cbufFrame st "s" false .disconnected [] (evlogIds "s" "cord" (some "S"))
      (st, vs ++ v4)
    | _ => (st, [])
  | ["cframe", c] =>
    match c.toNat?, obs.getLast?.map toks with
    | some c, some ("cli" :: ts) =>
      let conn := kv ts "conn" == some "1"
      let upd := (kvNat ts "upd").getD 0
      let who := s!"c{c}"
      -- L3: the queue of server events
      let (st, v3) : State × List Verdict :=
        if !conn || st.cliOff.contains c then (st, []) else
        (List.range 5).foldl (fun (acc : State × List Verdict) k =>
          let st := acc.1
          let ch := evChanBase st + k
          let q := (st.evQueue.lookup (c, ch)).getD {}
          let inc := (st.evInbox.lookup (c, ch)).getD []
          let (del, q') := Evt.receive upd q inc
          let cl := getCli st c
          let resolvable (id : Nat) : Bool :=
            let refs := ((st.evRefs.lookup id).getD []).map fun b =>
              ((st.bits.lookup b).bind fun e => Srv.aget cl.s2c e)
            refs.all (·.isSome)
          let exp := (del.filter fun x => resolvable x.2).map (·.2)
          let act := evlogIds who (evKindName k) none
          let st := { st with evQueue := ((c, ch), q') :: st.evQueue.filter (·.1 ≠ (c, ch)),
                              evInbox := st.evInbox.filter (·.1 ≠ (c, ch)) }
          let st := if q'.items.isEmpty then st else note st "evt.waiting_in_queue"
          let st := if q.items.isEmpty || del.isEmpty then st else note st "evt.released_from_queue"
          let st := if exp.length < del.length then note st "evt.unresolved_dropped" else st
          if exp = act then (st, acc.2) else
            (st, acc.2 ++ [Verdict.mismatch "EVT" s!"client {c} frame at update tick {upd}: {evKindName k} events handed to the game {act}, the model's queue hands over {exp} (queued before {q.items}, arrived {inc})"]))
          (st, [])
      -- L4: the client's own events towards the server
      let lastConn := (st.cLastConn.lookup c).getD false
      let jc := conn && !lastConn
      let base := if st.authCheck then 2 else 1
      let obsWire := obs.filterMap fun o =>
        let t := toks o
        if t.head? ≠ some "csent" then none else
        match kvNat t "ch", kvHex t "hex" with
        | some ch, some bs => if ch ≠ base then none else (match decodeU32 bs with | .ok (i, _) => some i | _ => none)
        | _, _ => none
      let st := { st with cLastConn := (c, conn) :: st.cLastConn.filter (·.1 ≠ c) }
      let (st, v4) := cbufFrame st (toString c) jc (if conn then .connected else .disconnected) obsWire (evlogIds who "cord" (some "S"))
      (st, v3 ++ v4)
    | _, _ => (st, [])
  | _ => (st, [])

/-! ### the handshake with a client built from different code (C07) -/

def authLock (st : State) (inp : List String) (obs : List String) : State × List Verdict :=
  if !st.authCheck then (st, []) else
  match inp with
  | ["deliver", c, "c2s", "1", _] =>
    match c.toNat?, obs.head?.map toks with
    | some c, some ("ok" :: _) => if isWrong st c then (note { st with expectDisc := c :: st.expectDisc } "auth.mismatching_hash_delivered", []) else (note st "auth.matching_hash_delivered", [])
    | _, _ => (st, [])
  | ["junk", c, "1", hex] =>
    -- injected bytes that decode to a protocol hash other than the real one are a mismatch too
    if obs.head?.map (fun o => (toks o).head?) ≠ some (some "ok") then (st, []) else
    match c.toNat?, parseHex hex with
    | some c, some bs =>
      (match Recv.receive .hash true bs with
       | .ok (.event _ _) => if some bs = st.legitHash then (st, []) else ({ st with expectDisc := c :: st.expectDisc }, [])
       | _ => (st, []))
    | _, _ => (st, [])
  | ["disconnect", c] => ({ st with expectDisc := st.expectDisc.filter (some · ≠ c.toNat?) }, [])
  | ["stop"] => ({ st with expectDisc := [] }, [])
  | "sframe" :: _ =>
    if obs = ["skip"] || obs.any (·.startsWith "panic") then (st, []) else
    let discs := discsOf obs
    let vMissing := st.expectDisc.eraseDups.filterMap fun c =>
      if discs.contains (some c) then none else
        some (Verdict.oracle "C07" s!"client {c} sent a different protocol hash and was not asked to disconnect (requests this frame: {discs})")
    let vExtra := discs.filterMap fun d => match d with
      | some c => if st.expectDisc.contains c then none else
          some (Verdict.oracle "C07" s!"client {c} is asked to disconnect without a protocol mismatch")
      | none => some (Verdict.oracle "C07" "a DisconnectRequest names an entity that is no connected client")
    let vAuth := match obs.getLast?.map toks with
      | some ("srv" :: ts) => (match parseSnap ts with
        | some snap => snap.clis.filterMap fun sc =>
            if isWrong st sc.c && sc.auth then some (Verdict.oracle "C07" s!"client {sc.c} is authorized although its protocol differs") else none
        | none => [])
      | _ => []
    ({ st with expectDisc := [] }, vMissing ++ vExtra ++ vAuth)
  | _ => (st, [])

/-- C07 on the events-less protocols (`probe` broadcasts three triggers, only the first one registered
as independent): nothing on the channels of the other two may be addressed to a client that is not
authorized when the frame ends. -/
def probeOracle (st : State) (inp : List String) (obs : List String) : State × List Verdict :=
  if st.events then (st, []) else
  match inp with
  | ["probe", _] => (note st "auth.probe_triggers", [])
  | "sframe" :: _ =>
    if obs = ["skip"] || obs.any (·.startsWith "panic") then (st, []) else
    match (obs.getLast?.map toks) with
    | some ("srv" :: ts) =>
      (match parseSnap ts with
       | some snap =>
         let vs := obs.filterMap fun o =>
           let t := toks o
           if t.head? ≠ some "sent" then none else
           match kvNat t "c", kvNat t "ch" with
           | some c, some ch =>
             if ch < evChanBase st + 2 then none else
             (match snap.cli c with
              | some sc => if sc.auth then none else
                  some (Verdict.oracle "C07" s!"a trigger that is not registered as independent (channel {ch}) is sent to unauthorized client {c}")
              | none => some (Verdict.oracle "C07" s!"a trigger (channel {ch}) is sent to {c}, which is no connected client"))
           | _, _ => none
         let st := if obs.any (fun o => (toks o).head? = some "sent" && ((kvNat (toks o) "ch").getD 0) ≥ evChanBase st + 2) then note st "auth.dependent_trigger_sent" else st
         let st := if vs.isEmpty && snap.clis.any (fun sc => !sc.auth) && obs.any (fun o => (toks o).head? = some "sent" && ((kvNat (toks o) "ch").getD 0) = evChanBase st + 1) then note st "auth.independent_trigger_to_unauthorized" else st
         (st, vs)
       | none => (st, []))
    | _ => (st, [])
  | _ => (st, [])

/-! ### C12 end to end: a tick is reported as fully received once, and only when every mutate
message the server sent for it has been applied (= acknowledged, after the F1 repair) -/

def mtrOracle (st : State) (inp : List String) (obs : List String) : State × List Verdict :=
  if !st.track then (st, []) else
  let ok : Bool := match obs.head? with
    | some o => (toks o).head? == some "ok"
    | none => false
  let forget (st : State) (c : Nat) : State :=
    { st with mutSent := st.mutSent.filter (·.1.1 ≠ c), mutAcked := st.mutAcked.filter (·.1 ≠ c), mtrSeen := st.mtrSeen.filter (·.1 ≠ c) }
  match inp with
  | ["connect", c] => (match c.toNat? with | some c => if ok then forget st c else st | none => st, [])
  | ["disconnect", c] => (match c.toNat? with | some c => if ok then forget st c else st | none => st, [])
  | ["stop"] => if ok then ({ st with mutSent := [], mutAcked := [], mtrSeen := [] }, []) else (st, [])
  | "sframe" :: _ =>
    let st := (discsOf obs).foldl (fun st d => match d with | some c => forget st c | none => st) st
    let st := obs.foldl (fun (st : State) o =>
      let ts := toks o
      if ts.head? ≠ some "sent" then st else
      match kvNat ts "c", kvNat ts "ch", kvHex ts "hex" with
      | some c, some 1, some bs => (match decodeMutate st.track bs with
        | .ok m =>
          let cur := (st.mutSent.lookup (c, m.tick)).getD []
          { st with mutSent := ((c, m.tick), cur ++ [m.index]) :: st.mutSent.filter (·.1 ≠ (c, m.tick)) }
        | _ => st)
      | _, _, _ => st) st
    (st, [])
  | ["cframe", c] =>
    match c.toNat?, obs.getLast?.map toks with
    | some c, some ("cli" :: ts) =>
      let acks := obs.flatMap fun o =>
        let t := toks o
        if t.head? = some "csent" && kvNat t "ch" = some 0 then (Wire.decodeAcks ((kvHex t "hex").getD [])) else []
      let st := { st with mutAcked := acks.map (fun i => (c, i)) ++ st.mutAcked }
      let reported := match kv ts "mtr" with
        | some "-" => []
        | some l => (l.splitOn ",").filterMap String.toNat?
        | none => []
      let (st, vs) := reported.foldl (fun (acc : State × List Verdict) t =>
        let st := acc.1
        let vDup := if st.mtrSeen.contains (c, t) then
          [Verdict.oracle "C12" s!"client {c}: tick {t} is reported as fully received a second time"] else []
        let sent := (st.mutSent.lookup (c, t)).getD []
        let missing := sent.filter fun i => !st.mutAcked.contains (c, i)
        let vEarly := if sent.isEmpty then
            [Verdict.oracle "C12" s!"client {c}: tick {t} is reported as fully received, but the server sent it no mutate message for that tick"]
          else if missing.isEmpty then [] else
            [Verdict.oracle "C12" s!"client {c}: tick {t} is reported as fully received while its mutate messages {missing} (of {sent}) have not been applied"]
        let st := note st (if sent.length ≥ 2 then "track.reported_split_tick" else "track.reported_tick")
        ({ st with mtrSeen := (c, t) :: st.mtrSeen }, acc.2 ++ vDup ++ vEarly)) (st, [])
      -- … and it is reported: once every mutate message the server sent for a tick has been applied
      -- (acknowledged by this client) the notification is due, unless the tick had already left the
      -- 64-tick window when its last message was applied (then it counts as confirmed without one)
      let applied (sent : List Nat) : Bool := !sent.isEmpty && sent.all fun i => st.mutAcked.contains (c, i)
      let newest : Nat := (st.mutSent.filterMap fun e => if e.1.1 = c && e.2.any (fun i => st.mutAcked.contains (c, i)) then some e.1.2 else none).foldl max 0
      let owed := st.mutSent.filter fun e => e.1.1 = c && applied e.2 && !st.mtrSeen.contains (c, e.1.2) && e.1.2 + 64 > newest
      let vOwed := owed.map fun e =>
        Verdict.oracle "C12" s!"client {c}: every mutate message the server sent for tick {e.1.2} ({e.2}) has been applied, but the tick is not reported as fully received"
      let st := { st with mtrSeen := owed.map (fun e => (c, e.1.2)) ++ st.mtrSeen }
      (st, vs ++ vOwed)
    | _, _ => (st, [])
  | _ => (st, [])

/-! ### C09: nothing of an earlier session is acted upon — a client acknowledges only mutate
messages it received in the current session -/

/-- Nothing is handed to the transport for an entity that is no connected client (C05: "to
nobody else"; C13: "nothing is put on the network when there is no connection"; C07 for the
replication channels). -/
def strayOracle (st : State) (inp : List String) (obs : List String) : List Verdict :=
  if inp.head? ≠ some "sframe" then [] else
  obs.flatMap fun o =>
    let ts := toks o
    if ts.head? = some "sent" && kv ts "c" = some "?" then
      let ch := (kvNat ts "ch").getD 0
      let what := s!"a message on server channel {ch} ({(kv ts "hex").getD ""}) was handed to the transport for an entity that is not a connected client"
      if ch < 2 then [Verdict.oracle "C07" what, Verdict.oracle "C01" what]
      else [Verdict.oracle "C05" what, Verdict.oracle "C13" what] ++ (if st.junkCase then [Verdict.oracle "C06" what] else [])
    else []

def sessionOracle (st : State) (inp : List String) (obs : List String) : State × List Verdict :=
  let ok : Bool := match obs.head? with
    | some o => (toks o).head? == some "ok"
    | none => false
  match inp with
  | ["connect", c] => (match c.toNat? with
      | some c => if ok then { st with mutDelivered := st.mutDelivered.filter (·.1 ≠ c) } else st
      | none => st, [])
  | ["deliver", c, "s2c", "1", _] =>
    match c.toNat?, obs.head?.map toks with
    | some c, some ("ok" :: ts) =>
      (match (kvHex ts "hex").map (decodeMutate st.track) with
       | some (.ok m) => ({ st with mutDelivered := (c, m.index) :: st.mutDelivered }, [])
       | _ => (st, []))
    | _, _ => (st, [])
  | ["cframe", c] =>
    match c.toNat? with
    | some c =>
      let acks := obs.flatMap fun o =>
        let t := toks o
        if t.head? = some "csent" && kvNat t "ch" = some 0 then (Wire.decodeAcks ((kvHex t "hex").getD [])) else []
      let stale := acks.filter fun i => !st.mutDelivered.contains (c, i)
      (st, if stale.isEmpty then [] else
        [Verdict.oracle "C09" s!"client {c} acknowledges mutate messages {stale} that were not delivered to it in this session: a message buffered in an earlier session survived the disconnect"])
    | none => (st, [])
  | _ => (st, [])

/-- F15 (C11): the 16-bit index of a mutate message is reused after 65 536 messages. The trace
checker numbers the mutate messages of a session itself (unbounded) and notices when the client
acknowledges message #s while the newest message with the same wire index is a later one the
client never received. -/
def wrapOracle (st : State) (inp : List String) (obs : List String) : State :=
  let ok : Bool := match obs.head? with
    | some o => (toks o).head? == some "ok"
    | none => false
  match inp with
  | ["connect", c] => (match c.toNat? with
      | some c => if ok then { st with mutLog := st.mutLog.filter (·.1 ≠ c), mutSeqDelivered := st.mutSeqDelivered.filter (·.1 ≠ c),
                                       wrapAck := st.wrapAck.filter (·.1 ≠ c), splitLoss := st.splitLoss.filter (· ≠ c) } else st
      | none => st)
  | "sframe" :: _ =>
    obs.foldl (fun (st : State) o =>
      let ts := toks o
      if ts.head? ≠ some "sent" then st else
      match kvNat ts "c", kvNat ts "ch", kvHex ts "hex" with
      | some c, some 1, some bs => (match decodeMutate st.track bs with
        | .ok m =>
          let seq := match st.mutLog.find? (·.1 = c) with | some e => e.2.1 + 1 | none => 0
          { st with mutLog := (c, seq, m.index, m.tick) :: st.mutLog }
        | _ => st)
      | _, _, _ => st) st
  | ["deliver", c, "s2c", "1", _] =>
    (match c.toNat?, obs.head?.map toks with
    | some c, some ("ok" :: ts) =>
      (match (kvHex ts "hex").map (decodeMutate st.track) with
       | some (.ok m) =>
         (match st.mutLog.find? (fun e => e.1 = c && e.2.2.1 = m.index && e.2.2.2 = m.tick) with
          | some e => { st with mutSeqDelivered := (c, e.2.1) :: st.mutSeqDelivered }
          | none => st)
       | _ => st)
    | _, _ => st)
  | ["drop", c, "s2c", "1", _] =>
    (match c.toNat?, obs.head?.map toks with
    | some c, some ("ok" :: ts) =>
      (match (kvHex ts "hex").map (decodeMutate st.track) with
       | some (.ok m) =>
         if st.splitLoss.contains c then st else
         -- the log is newest first and ticks do not increase along it
         if ((st.mutLog.takeWhile fun e => e.2.2.2 ≥ m.tick).filter fun e => e.1 = c && e.2.2.2 = m.tick).length ≥ 2 then
           { st with splitLoss := c :: st.splitLoss } else st
       | _ => st)
    | _, _ => st)
  | ["deliver", c, "c2s", "0", _] =>
    (match c.toNat?, obs.head?.map toks with
    | some c, some ("ok" :: ts) =>
      let acks := Wire.decodeAcks ((kvHex ts "hex").getD [])
      acks.foldl (fun (st : State) i =>
        match st.mutLog.filter (fun e => e.1 = c && e.2.2.1 = i) with
        | newest :: older =>
          let got (e : Nat × Nat × Nat × Nat) : Bool := st.mutSeqDelivered.contains (c, e.2.1)
          (match older.find? got with
           | some e => if got newest || (st.wrapAck.lookup c).isSome then st else
             { st with wrapAck := (c, s!"the client acknowledged mutate message #{e.2.1} (index {i}, tick {e.2.2.2}); the server holds index {i} for message #{newest.2.1} of tick {newest.2.2.2}, sent {newest.2.1 - e.2.1} messages later, which the client never received") :: st.wrapAck }
           | none => st)
        | [] => st) st
    | _, _ => st)
  | _ => st

def bump (st : State) (k : String) : State := { st with stats := k :: st.stats }

/-! ### injected bytes (C06): what the server-side logic observes, panics, allocations -/

def junkChan (st : State) (ch : Nat) : Option Recv.Chan :=
  if st.authCheck then
    match ch with | 0 => some .acks | 1 => some .hash | 2 => some .ord | 3 => some .mapped | 4 => some .trigger | _ => none
  else
    match ch with | 0 => some .acks | 1 => some .ord | 2 => some .mapped | 3 => some .trigger | _ => none

def placeholderBits : Nat := 4294967296 * 1 + 4294967295

def refStr (st : State) (e : Nat × Nat) : String :=
  let bits := 4294967296 * e.2 + e.1
  if bits = placeholderBits then "@S" else
  match st.bits.lookup bits with
  | some i => s!"@{i}"
  | none => "@?"

def junkLock (st : State) (inp : List String) (obs : List String) : State × List Verdict :=
  if !st.junkCase then (st, []) else
  let ok : Bool := match obs.head? with
    | some o => (toks o).head? == some "ok"
    | none => false
  match inp with
  | ["junk", c, ch, hex] =>
    if !ok then (st, []) else
    match c.toNat?, ch.toNat?, parseHex hex with
    | some c, some ch, some bs => ({ st with junkPending := st.junkPending ++ [(c, ch, bs)] }, [])
    | _, _, _ => (st, [Verdict.bad "junk line"])
  | ["disconnect", c] =>
    -- `remove_client` purges what the client had queued
    if !ok then (st, []) else
    ({ st with junkPending := st.junkPending.filter fun (jc, _, _) => some jc ≠ c.toNat? }, [])
  | "sframe" :: _ =>
    if st.junkPending.isEmpty then (st, []) else
    if obs.any (·.startsWith "panic") then ({ st with junkPending := [] }, []) else
    -- what the model says the server-side logic gets from the injected messages
    let expected : List String := st.junkPending.flatMap fun (c, ch, bs) =>
      match junkChan st ch with
      | none => []
      | some k =>
        match Recv.receive k true bs with
        | .ok (.event v refs) =>
          (match k with
           | .ord => [s!"cord:{v}:from{c}"]
           | .mapped => refs.map fun e => s!"cmap:{v}:{refStr st e}:from{c}"
           | .trigger => if refs.isEmpty then [s!"ctrig:{v}:@S:from{c}"] else refs.map fun e => s!"ctrig:{v}:{refStr st e}:from{c}"
           | _ => [])
        | .ok _ => []
        | .err => []
        | .panic site => [s!"model-panic-site-{site}"]
    let observed : List String := obs.flatMap fun o => match toks o with
      | ["evlog", "s", entries] =>
        if entries = "-" then [] else
        (entries.splitOn ",").filter fun e => match parseEvEntry e with
          | some (kind, id, _, _, _) => kind.startsWith "c" && isJunkId st id
          | none => true
      | _ => []
    let vObs := if sortStr expected = sortStr observed then [] else
      [Verdict.mismatch "C06" s!"injected messages {st.junkPending.map fun (c, ch, bs) => s!"{c}/{ch}/{toHex bs}"}: server-side logic observed {sortStr observed}, the model's decoders yield {sortStr expected}"]
    -- the allocation bound: nothing out of proportion to the injected bytes
    let vAlloc := obs.flatMap fun o => match toks o with
      | "alloc" :: ts =>
        (match kvNat ts "max", kvNat ts "junk" with
         | some mx, some jb => if mx ≤ 65536 + 64 * jb then [] else
             [Verdict.oracle "C06" s!"a server frame that processed {jb} injected bytes requested a single allocation of {mx} bytes"]
         | _, _ => [Verdict.bad "alloc line"])
      | _ => []
    let st := if expected.isEmpty then st else note st "junk.decoded_to_event"
    let st := if expected.length < st.junkPending.length then note st "junk.dropped" else st
    let st := st.junkPending.foldl (fun st (_, ch, _) => note st s!"junk.chan.{ch}") st
    (bump { st with junkPending := [] } "sys.junk_frame", vObs ++ vAlloc)
  | _ => (st, [])


/-- Handle one record of a sys case. -/
def handleOracles (st : State) (inp : List String) (obs : List String) : State × List Verdict :=
  let st := { st with ops := st.ops + 1 }
  match inp with
  | "spawn" :: _ =>
    match obs with
    | [o] =>
      let ts := toks o
      match kvNat ts "e", kvNat ts "bits" with
      | some e, some b =>
        let m := inp.contains "m=1"
        ({ st with bits := (b, e) :: st.bits, markedNow := if m then e :: st.markedNow else st.markedNow }, [])
      | _, _ => (st, [])
    | _ => (st, [])
  | ["despawn", _] =>
    -- settings of despawned entities are forgotten
    match obs with
    | [o] =>
      let alive := parseNatList ((kv (toks o) "alive").getD "-")
      if (toks o).head? = some "ok" then
        let gone := st.markedNow.filter fun e => !alive.contains e
        -- the clients a disappearing entity was hidden from (C08: losing visibility removes the
        -- entity from the client, also when the entity is despawned in the same tick window)
        let hid := st.connected.flatMap fun c => gone.filterMap fun e =>
          let setting := (st.desired.lookup (c, e))
          let hidden := if st.whitelist then setting ≠ some true else setting = some false
          if hidden then some (c, e) else none
        ({ st with desired := st.desired.filter fun ((_, e), _) => alive.contains e,
                   hiddenAtDespawn := hid ++ st.hiddenAtDespawn,
                   markedNow := st.markedNow.filter alive.contains,
                   leftRepl := if st.running then gone ++ st.leftRepl else st.leftRepl }, [])
      else (st, [])
    | _ => (st, [])
  | ["vis", c, e, v] =>
    match c.toNat?, e.toNat?, obs with
    | some c, some e, ["ok"] =>
      let st := if v = "0" && !st.sentTo.contains (c, e) then { st with hiddenBeforeSent := (c, e) :: st.hiddenBeforeSent } else st
      let cell := (st.cells.lookup (c, e)).getD {}
      let cell' := (Vis.step st.whitelist cell (if v = "1" then .show_ else .hide)).1
      ({ st with cells := ((c, e), cell') :: st.cells.filter (·.1 ≠ (c, e)),
                                            desired := ((c, e), v = "1") :: st.desired.filter (·.1 ≠ (c, e)),
                                            unmarkedSince := if st.unmarkedInWindow.contains e then (c, e) :: st.unmarkedSince
                                              else st.unmarkedSince.filter (· ≠ (c, e)) }, [])
    | _, _, _ => (st, [])
  | ["map", c, e, p] =>
    match c.toNat?, e.toNat?, p.toNat?, obs with
    | some c, some e, some p, ["ok"] => ({ st with maps := (c, e, p, st.preDead.contains (c, p)) :: st.maps }, [])
    | _, _, _, _ => (st, [])
  | ["cdespawn", c, p] =>
    match c.toNat?, p.toNat?, obs with
    | some c, some p, ["ok"] => ({ st with preDead := (c, p) :: st.preDead }, [])
    | _, _, _ => (st, [])
  | ["connect", c] =>
    match c.toNat?, obs.head?.map toks with
    | some c, some ("ok" :: _) => ({ st with earlyMutate := st.earlyMutate.filter (·.1 ≠ c), hiddenBeforeSent := st.hiddenBeforeSent.filter (·.1 ≠ c), sentTo := st.sentTo.filter (·.1 ≠ c), cells := st.cells.filter (·.1.1 ≠ c), connected := c :: st.connected, desired := st.desired.filter (·.1.1 ≠ c), gotUpdate := st.gotUpdate.filter (· ≠ c) }, [])
    | _, _ => (st, [])
  | ["disconnect", c] =>
    match c.toNat?, obs with
    | some c, ["ok"] => ({ st with hadDisconnect := c :: st.hadDisconnect, connected := st.connected.filter (· ≠ c), maps := st.maps.filter (·.1 ≠ c), desired := st.desired.filter (·.1.1 ≠ c), gotUpdate := st.gotUpdate.filter (· ≠ c) }, [])
    | _, _ => (st, [])
  | ["stop"] =>
    match obs with
    | ["ok"] => ({ st with hadDisconnect := st.connected ++ st.hadDisconnect, connected := [], snaps := [], last := none, maps := [], desired := [], gotUpdate := [],
                           -- the despawn buffer is cleared by `reset`, which needs a frame of the stopped server
                           cells := [], running := false, sentTo := [] }, [])
    | _ => (st, [])
  | ["mark", e, "0"] =>
    match e.toNat?, obs with
    | some e, ["ok"] => ({ st with unmarkedSince := (st.desired.filter (·.1.2 = e)).map (·.1) ++ st.unmarkedSince,
                                   unmarkedInWindow := e :: st.unmarkedInWindow,
                                   -- F21, second trigger: the marker removal queues a despawn for clients that were never sent the entity
                                   hiddenBeforeSent := (if st.running && st.markedNow.contains e then
                                     (st.connected.filter fun c => !st.sentTo.contains (c, e)).map fun c => (c, e) else []) ++ st.hiddenBeforeSent,
                                   leftRepl := if st.running && st.markedNow.contains e then e :: st.leftRepl else st.leftRepl,
                                   markedNow := st.markedNow.filter (· ≠ e) }, [])
    | _, _ => (st, [])
  | ["mark", e, "1"] =>
    match e.toNat?, obs with
    | some e, ["ok"] => ({ st with markedNow := e :: st.markedNow.filter (· ≠ e),
                                    remarked := if st.leftRepl.contains e then e :: st.remarked else st.remarked }, [])
    | _, _ => (st, [])
  | ["start"] => (if obs = ["ok"] then { st with running := true, freshStart := true } else st, [])
  | "junk" :: _ => ({ st with junkSeen := true }, [])
  | "flush" :: _ => ({ st with inFlush := true, flushRound := 0 }, [])
  | "flushing" :: _ => ({ st with inFlush := true, flushRound := 0 }, [])
  | ["flushed"] => ({ st with inFlush := false }, [])
  | "sframe" :: rest =>
    if obs = ["skip"] then (st, []) else
    if obs.any (·.startsWith "panic") then
      ({ st with panicked := true }, [Verdict.oracle "C01" "the server panicked"] ++
        (if st.junkSeen then [Verdict.oracle "C06" "the server panicked after bytes were injected on a client channel"] else [])) else
    let ticked := tickJump rest ≥ 1
    -- sessions the server ended itself (DisconnectRequest after a protocol mismatch)
    let st := (discsOf obs).foldl (fun (st : State) d => match d with
      | some c => { st with hadDisconnect := c :: st.hadDisconnect, connected := st.connected.filter (· ≠ c), maps := st.maps.filter (·.1 ≠ c),
                            desired := st.desired.filter (·.1.1 ≠ c), gotUpdate := st.gotUpdate.filter (· ≠ c) }
      | none => st) st
    match obs.getLast?.map toks with
    | some ("srv" :: ts) =>
      match parseSnap ts with
      | none => (st, [Verdict.bad "srv line"])
      | some snap =>
        let fm := decodeFrame st obs
        let st := if st.inFlush && ticked then { st with flushRound := st.flushRound + 1 } else st
        let vs := checkFrame st snap fm ticked
        -- C08: the visibility query reports the most recent setting of every live entity
        let vq := (snap.clis.filter (·.auth)).flatMap fun sc =>
          snap.ents.filterMap fun e =>
            let want := (st.desired.lookup (sc.c, e.idx)).getD (!st.whitelist)
            let got := sc.vis.contains e.idx
            if want = got then none
            else if st.unmarkedSince.contains (sc.c, e.idx) then
              some (Verdict.oracle "C08" s!"[F14] is_visible(client {sc.c}, entity {e.idx}) = {got}, most recent setting is {want}: the setting was forgotten when the entity's replication marker was removed")
            else some (Verdict.oracle "C08" s!"is_visible(client {sc.c}, entity {e.idx}) = {got}, most recent setting is {want}")
        -- a snapshot per replication run: the tick was incremented, or replication ran anyway
        -- (after a restart `ServerTick` is reset, which counts as a change: tick 0 is sent)
        let sending := !fm.updates.isEmpty || !fm.mutates.isEmpty
        let ran := kv ts "repl" = some "1"
        let snaps := if ran then snap :: st.snaps.filter (·.tick ≠ snap.tick) else st.snaps
        -- lock-step visibility cells (model vs implementation, C08)
        let vran := if sending && !ran then [Verdict.mismatch "SYS" "replication messages sent although the replication system's run conditions were false"] else []
        let (cells', vcell) : List ((Nat × Nat) × Vis.Cell) × List Verdict :=
          if !ran then (st.cells, []) else Id.run do
            let mut cells := st.cells
            let mut out : List Verdict := []
            for sc in snap.clis.filter (·.auth) do
              let upd := (fm.updates.filter (·.1 = sc.c)).map (·.2)
              let muts := (fm.mutates.filter (·.1 = sc.c)).map (·.2.1)
              let inDesp (e : Nat) : Bool := upd.any fun u => u.despawns.any fun d => lookupBits st d = some e
              let chg (e : Nat) : Option Nat := (upd.findSome? fun u => u.changes.find? fun ch => lookupBits st ch.ent = some e).map (·.comps.length)
              let inMut (e : Nat) : Bool := muts.any fun m => m.ents.any fun ch => lookupBits st ch.ent = some e
              let withCells := (cells.filter fun ((c, _), cell) => c = sc.c && cell ≠ {}).map (·.1.2)
              for e in (st.leftRepl ++ st.markedNow ++ withCells).eraseDups do
                let cell := (cells.lookup (sc.c, e)).getD {}
                let unmarked := !st.leftRepl.contains e && !st.markedNow.contains e
                let both := st.leftRepl.contains e && (st.markedNow.contains e || st.remarked.contains e)
                let op := if st.leftRepl.contains e then Vis.Op.despawnTick else Vis.Op.tick
                let (cell', sent) := Vis.step st.whitelist cell op
                cells := ((sc.c, e), cell') :: cells.filter (·.1 ≠ (sc.c, e))
                if !both then
                  let nComps := ((snap.ents.find? (·.idx = e)).map fun se => (se.comps.filter fun kv => isReplicatedLetter kv.1).length).getD 0
                  let ok := if unmarked then
                      -- a live entity without the marker: only `drain_lost` / `update` touch its cell
                      (inDesp e = Vis.lost st.whitelist cell) && (chg e).isNone && !inMut e
                    else match sent with
                    | .nothing => !inDesp e && (chg e).isNone && !inMut e
                    | .despawn => inDesp e
                    | .whole => chg e = some nComps
                    | .changes => !inDesp e
                  if !ok then
                    out := out ++ [Verdict.mismatch "C08" s!"tick {snap.tick}, client {sc.c}, entity {e}: visibility model decides {repr sent} (cell {repr cell}), message has despawn={inDesp e} changes={chg e} mutation={inMut e}"]
            return (cells, out)
        let sentNow : List (Nat × Nat) := fm.updates.flatMap fun (c, u) => u.changes.filterMap fun ch => (lookupBits st ch.ent).map fun e => (c, e)
        let despNow : List (Nat × Nat) := fm.updates.flatMap fun (c, u) => u.despawns.filterMap fun d => (lookupBits st d).map fun e => (c, e)
        -- `reset` (which clears the despawn buffer) runs in a frame of a stopped server that an
        -- earlier frame saw running (`server_just_stopped` keeps a `Local<bool>`)
        let resetRan := kv ts "run" = some "0" && st.srvBefore.lastRunning
        let left := if ran || resetRan then [] else st.leftRepl
        let sentTo' := sentNow ++ (st.sentTo.filter fun p => !despNow.contains p)
        -- an adopted entity that the client was later told to despawn has used up its mapping
        let maps' := st.maps.filter fun (mc, e, _, _) => !(despNow.contains (mc, e) && st.sentTo.contains (mc, e))
        let st := { st with cells := cells', leftRepl := left, remarked := if left.isEmpty then [] else st.remarked, freshStart := false, sentTo := sentTo', maps := maps' }
        let window := if ran then [] else st.unmarkedInWindow
        let st := { st with last := some snap, snaps := snaps, unmarkedInWindow := window }
        let st := bump st (if fm.updates.isEmpty && fm.mutates.isEmpty then "sys.sframe_silent" else "sys.sframe_sending")
        (st, vs ++ vq ++ vcell ++ vran)
    | _ => (st, [Verdict.bad "sframe without srv line"])
  | ["cframe", cs] =>
    if obs = ["skip"] then (st, []) else
    if obs.any (·.startsWith "panic") then
      let c := cs.toNat?.getD 0
      if st.authCheck && st.hadDisconnect.contains c && (st.cframes.lookup c).getD 0 - (st.connectFrame.lookup c).getD 0 ≤ f13Window then
        ({ st with panicked := true }, [Verdict.oracle "C09" s!"[F13] client {c} panicked in the frame after its session ended: the protocol-hash trigger it had already sent is re-emitted locally",
                                         Verdict.oracle "C13" s!"[F13] client {c}: an event that was sent to the remote server is handled a second time locally after the disconnect"])
      else ({ st with panicked := true }, [Verdict.oracle "C01" "a client panicked", Verdict.oracle "C09" "a client panicked"] ++
        -- a frame that dies while applying the server's messages leaves them partly applied
        (if st.junkSeen then [] else
          [Verdict.oracle "C03" s!"client {c} panicked while applying the server's messages: the frame's structural changes are applied in part",
           Verdict.oracle "C02" s!"client {c} panicked while applying the server's messages: the frame's changes are applied in part"])) else
    match obs.getLast?.map toks with
    | some ("cli" :: ts) =>
      match kvNat ts "c", kvNat ts "upd" with
      | some c, some upd =>
        let cents := parseCEnts ((kv ts "ents").getD "-")
        let mapok := kv ts "mapok" = some "1"
        let conn := kv ts "conn" = some "1"
        if !conn then
          -- C09: nothing of the old session survives on the client (its replicated entities are
          -- the game's to remove; protocol state must be clean)
          let v := if upd ≠ 0 || !cents.isEmpty then
            [Verdict.oracle "C09" s!"disconnected client {c} keeps protocol state: update tick {upd}, {cents.length} mapped entities"] else []
          (st, v)
        else
          -- an attacker that acknowledges what it never received is owed nothing
          let vs := if st.junkCase && c = 0 then [] else checkStructure st c upd mapok cents ++ checkValues st c cents
          -- C10, first clause: after only part of a split tick reached the client, an entity that is
          -- confirmed for a tick without all of that tick's values was updated incompletely
          let vs := vs ++ (if !st.splitLoss.contains c then [] else vs.filterMap fun v => match v with
            | .oracle "C02" d => if (d.splitOn "[F").length > 1 then none else
                some (Verdict.oracle "C10" s!"part of a split tick was lost; afterwards {d}: the entity was updated to that tick incompletely")
            | _ => none)
          -- entities that carry the replication marker but are mapped to no server entity (in a
          -- client's first session; after a disconnect the old session's entities are the game's)
          let nrep := (kvNat ts "nrep").getD 0
          let mappedMarked := (cents.filter fun e => !e.dead && e.marked).length
          let vOrphan := if st.hadDisconnect.contains c || nrep ≤ mappedMarked then [] else
            [Verdict.oracle "C03" s!"client {c} holds {nrep} entities with the replication marker but only {mappedMarked} of them are mapped to a server entity",
             Verdict.oracle "C16" s!"client {c} holds {nrep} entities with the replication marker but only {mappedMarked} of them are mapped to a server entity (duplicate)"]
          let vs := vs ++ vOrphan
          let final := if st.inFlush && st.flushRound ≥ 7 then
              (match st.last.bind (·.cli c) with
               | some sc => if sc.auth && !(st.junkCase && c = 0) then checkConverged st c cents ++ checkAdoption st c cents else []
               | none => [])
            else []
          (bump st (if cents.isEmpty then "sys.cframe_empty" else "sys.cframe_entities"), vs ++ final)
      | _, _ => (st, [Verdict.bad "cli line"])
    | _ => (st, [Verdict.bad "cframe without cli line"])
  | ["deliver", c, "s2c", "0", _] =>
    match c.toNat?, obs.head?.map toks with
    | some c, some ("ok" :: _) => (bump { st with gotUpdate := c :: st.gotUpdate.filter (· ≠ c) } "sys.deliver", [])
    | _, _ => (st, [])
  | ["deliver", c, "s2c", "1", _] =>
    match c.toNat?, obs.head?.map toks with
    | some c, some ("ok" :: ts) =>
      let st := bump st "sys.deliver"
      if st.gotUpdate.contains c then (st, []) else
      match (kvHex ts "hex").map (decodeMutate st.track) with
      | some (.ok m) =>
        if m.updateTick = 0 then
          ({ st with earlyMutate := (m.ents.filterMap fun e => (lookupBits st e.ent).map fun i => (c, i)) ++ st.earlyMutate }, [])
        else (st, [])
      | _ => (st, [])
    | _, _ => (st, [])
  | "deliver" :: _ => (bump st "sys.deliver", [])
  | "drop" :: _ => (bump st "sys.drop", [])
  | _ => (st, [])

def handle (st : State) (inp : List String) (obs : List String) : State × List Verdict :=
  let (st, v1) := modelStep st inp obs
  let (st, v3) := cliStep st inp obs
  let (st, v4) := evtStep st inp obs
  let (st, v5) := evtLock st inp obs
  let (st, v6) := junkLock st inp obs
  let (st, v8) := authLock st inp obs
  let (st, v8p) := probeOracle st inp obs
  let v8 := v8 ++ v8p
  let (st, v9) := if st.wrapCase then (st, []) else mtrOracle st inp obs
  let (st, v10) := if st.wrapCase then (st, []) else sessionOracle st inp obs
  let st := if st.wrapCase then st else wrapOracle st inp obs
  let v10 := v10 ++ strayOracle st inp obs
  let (st, v2) := handleOracles st inp obs
  -- C06: after injected bytes the server must keep serving the other clients correctly
  let v7 := if !st.junkCase then [] else (v2 ++ v1 ++ v3 ++ v4).filterMap fun v => match v with
    | .oracle p d => if (p = "C01" || p = "C02" || p = "C03" || p = "C05") && !(d.splitOn "[F").length > 1
                         && !(d.splitOn "client 0").length > 1 then
        some (Verdict.oracle "C06" s!"after injected bytes: {d}") else none
    | .mismatch p d => if p = "SRV" || p = "CLI" then some (Verdict.mismatch "C06" s!"after injected bytes: {d}") else none
    | _ => none
  -- C07: a client that authorizes (late) is owed the complete state visible to it
  let v11 := if !(st.authCheck || st.authCustom) then [] else v2.filterMap fun v => match v with
    | .oracle p d => if (p = "C01" || p = "C03") && !(d.splitOn "[F").length > 1 then
        some (Verdict.oracle "C07" s!"with authorization in play: {d}") else none
    | _ => none
  -- C09: a session that is not the first one (a reconnect, or after a server restart) has to pass the
  -- structure / value / convergence oracles like a first connection
  let v12 := if st.hadDisconnect.isEmpty then [] else (v2 ++ v3 ++ v9).filterMap fun v => match v with
    | .oracle p d => if (p = "C01" || p = "C02" || p = "C03" || p = "C12") && !(d.splitOn "[F").length > 1 &&
          (st.hadDisconnect.any fun c => (d.splitOn s!"client {c}").length > 1) then
        some (Verdict.oracle "C09" s!"in a session after a disconnect or server restart: {d}") else none
    | _ => none
  let st := match inp with
    | ["cframe", c] => (match c.toNat? with
      | some c => if obs = ["skip"] then st else { st with cframes := (c, (st.cframes.lookup c).getD 0 + 1) :: st.cframes.filter (·.1 ≠ c) }
      | none => st)
    | ["connect", c] => (match c.toNat? with
      | some c => { st with connectFrame := (c, (st.cframes.lookup c).getD 0) :: st.connectFrame.filter (·.1 ≠ c) }
      | none => st)
    | _ => st
  (st, v1 ++ v3 ++ v4 ++ v5 ++ v6 ++ v8 ++ v9 ++ v10 ++ v2 ++ v7 ++ v11 ++ v12)

def init (hdr : List String) : State :=
  { whitelist := kv hdr "policy" = some "white", track := kv hdr "track" = some "1",
    sync := kv hdr "sync" = some "1", nclients := (kvNat hdr "clients").getD 1, authCheck := kv hdr "auth" = some "check", authCustom := kv hdr "auth" = some "custom",
    events := kv hdr "events" = some "1", dedicated := kv hdr "dedicated" = some "1", junkCase := kv hdr "junk" = some "1", wrong := (kvNat hdr "wrong").getD 0,
    wrapCase := (kv hdr "tickbase").isSome, stats := if (kv hdr "tickbase").isSome then ["sys.wrap_around_case"] else [],
    modelOff := (kv hdr "tickbase").isSome, cliOff := if (kv hdr "tickbase").isSome then [0, 1, 2] else [],
    srv := { white := kv hdr "policy" = some "white", rates := modelRates,
             resetBeforeCondition := kv hdr "dedicated" ≠ some "1" } }

end Driver.Sys
