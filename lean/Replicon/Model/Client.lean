import Replicon.Model.Server
import Replicon.Model.MutateTicks
/-
The client half of the replication protocol: `src/client.rs` (`apply_replication`,
`apply_update_message`, `apply_entity_mapping`, `apply_despawn`, `apply_removals`,
`apply_changes`, `buffer_mutate_message`, `apply_mutate_messages`, `apply_mutations`, `reset`),
`src/shared/server_entity_map.rs`, as of the repaired tree.  Messages are the structured
messages of `Model/Server.lean`; `ConfirmHistory` is reduced to its last tick (the bit mask is
the subject of C12).
-/
namespace Replicon.Cli
open Replicon Replicon.Srv

/-- a client world entity that replication knows about -/
structure CEnt where
  marked : Bool := false
  /-- `(component, value)`; an entity-valued component holds the *client* entity it was mapped to -/
  comps : List (Nat × Nat) := []
  /-- `ConfirmHistory::last_tick` -/
  hist : Option Nat := none
deriving Repr, DecidableEq, Inhabited

/-- one mutate message as the client buffers it -/
structure Mutate where
  updateTick : Nat
  tick : Nat
  index : Nat
  ents : List MsgEnt
  /-- `messages_count`: mutate messages the server sent for this tick (1 unless tracking is on) -/
  count : Nat := 1
deriving Repr, DecidableEq, Inhabited

structure Client where
  connected : Bool := false
  updateTick : Nat := 0
  /-- `ServerEntityMap::server_to_client` / `client_to_server` -/
  s2c : List (Nat × Nat) := []
  c2s : List (Nat × Nat) := []
  world : List (Nat × CEnt) := []
  next : Nat := 0
  /-- `BufferedMutations` (sorted by tick, newest first) -/
  buffered : List Mutate := []
  /-- component ids whose values are entities (mapped through the entity map) -/
  entityComps : List Nat := [4]
  /-- acknowledgements produced by the last frame -/
  acks : List Nat := []
  /-- the `Local<bool>` of the run condition `client_just_disconnected` -/
  lastNotDisconnected : Bool := false
  /-- `ServerMutateTicks`, present when `track_mutate_messages` is on -/
  mutTicks : Option MutateTicks := none
  /-- ticks for which `MutateTickReceived` was sent in the last frame -/
  notified : List Nat := []
deriving Repr, Inhabited

/-- `ServerEntityMap::insert` -/
def mapInsert (c : Client) (se ce : Nat) : Client :=
  let c2s := match aget c.s2c se with
    | some old => if old ≠ ce then adel c.c2s old else c.c2s
    | none => c.c2s
  { c with s2c := aset c.s2c se ce, c2s := aset c2s ce se }

/-- `server_entry(se).remove()` -/
def mapRemove (c : Client) (se : Nat) : Client × Option Nat :=
  match aget c.s2c se with
  | some ce => ({ c with s2c := adel c.s2c se, c2s := adel c.c2s ce }, some ce)
  | none => (c, none)

def alive (c : Client) (ce : Nat) : Bool := (aget c.world ce).isSome

def spawnFresh (c : Client) (ent : CEnt) : Client × Nat :=
  ({ c with world := aset c.world c.next ent, next := c.next + 1 }, c.next)

/-- `WriteCtx::get_mapped`: the mapped client entity, reserving (spawning) an empty one if the
server entity is not known yet -/
def getMapped (c : Client) (se : Nat) : Client × Nat :=
  match aget c.s2c se with
  | some ce => (c, ce)
  | none =>
    let (c, ce) := spawnFresh c {}
    (mapInsert c se ce, ce)

/-- write the components of a record onto client entity `ce` (entity-valued ones are mapped) -/
def writeComps (c : Client) (ce : Nat) (comps : List (Nat × Nat)) : Client :=
  comps.foldl (fun c (k, v) =>
    let (c, v') := if c.entityComps.contains k then getMapped c v else (c, v)
    match aget c.world ce with
    | some ent => { c with world := aset c.world ce { ent with comps := aset ent.comps k v' } }
    | none => c) c

/-- the client entity a CHANGES / REMOVALS record lands on: the mapped one (marked if it was
only a placeholder — F8 repair) or a fresh marked one -/
def targetEntity (c : Client) (se : Nat) (markOccupied : Bool) : Res (Client × Nat) :=
  match aget c.s2c se with
  | some ce =>
    match aget c.world ce with
    | some ent =>
      if markOccupied && !ent.marked then .ok ({ c with world := aset c.world ce { ent with marked := true } }, ce)
      else .ok (c, ce)
    | none => .err        -- `world.get_entity_mut(..)?`: the rest of the message is dropped
  | none =>
    let (c, ce) := spawnFresh c { marked := true }
    .ok (mapInsert c se ce, ce)

def confirm (c : Client) (ce tick : Nat) : Client :=
  match aget c.world ce with
  | some ent => { c with world := aset c.world ce { ent with hist := some tick } }
  | none => c

/-- `apply_entity_mapping` -/
def applyMapping (c : Client) (m : Nat × Nat) : Client :=
  match aget c.world m.2 with
  | some ent => mapInsert { c with world := aset c.world m.2 { ent with marked := true } } m.1 m.2
  | none => c                      -- the pre-spawned entity is gone: the mapping is ignored

/-- `apply_despawn` -/
def applyDespawn (c : Client) (se : Nat) : Client :=
  match mapRemove c se with
  | (c', some ce) => { c' with world := adel c'.world ce }
  | (c', none) => c'

/-- `apply_removals` for one record; `none` = an error that drops the rest of the message -/
def applyRemoval (tick : Nat) (c : Client) (r : Nat × List Nat) : Option Client :=
  match targetEntity c r.1 false with
  | .ok (c', ce) =>
    let c'' := confirm c' ce tick
    match aget c''.world ce with
    | some ent => some { c'' with world := aset c''.world ce { ent with comps := ent.comps.filter fun (k, _) => !r.2.contains k } }
    | none => some c''
  | _ => none

/-- `apply_changes` for one record -/
def applyChange (tick : Nat) (c : Client) (m : MsgEnt) : Option Client :=
  match targetEntity c m.ent true with
  | .ok (c', ce) => some (writeComps (confirm c' ce tick) ce m.comps)
  | _ => none

/-- a section whose records can fail: the first failure drops everything after it -/
def foldOpt {α : Type} (f : Client → α → Option Client) (st : Client × Bool) (xs : List α) : Client × Bool :=
  xs.foldl (fun st x => if st.2 then st else match f st.1 x with | some c => (c, false) | none => (st.1, true)) st

/-- `apply_update_message`; an `Err` in a section stops the message (the tick stays set). -/
def applyUpdate (c : Client) (u : Update) : Client :=
  let c := { c with updateTick := u.tick }
  let c := u.mappings.foldl applyMapping c
  let c := u.despawns.foldl applyDespawn c
  let st := foldOpt (applyRemoval u.tick) (c, false) u.removals
  (foldOpt (applyChange u.tick) st u.changes).1

/-- `BufferedMutations::insert`: before the first message with a tick that is not newer -/
def bufferInsert (l : List Mutate) (m : Mutate) : List Mutate :=
  match l with
  | [] => [m]
  | x :: xs => if m.tick < x.tick then x :: bufferInsert xs m else m :: x :: xs

/-- `apply_mutations` for one entity record of a mutate message -/
def applyMutEnt (c : Client) (tick : Nat) (m : MsgEnt) : Res Client :=
  match aget c.s2c m.ent with
  | none => .ok c                                    -- unknown entity: ignored
  | some ce =>
    match aget c.world ce with
    | none => .err                                   -- `get_entity_mut(..)?`
    | some ent =>
      match ent.hist with
      | none => .err                                 -- "missing history component"
      | some last =>
        if tick > last then .ok (writeComps (confirm c ce tick) ce m.comps)
        else .ok c                                   -- outdated: skipped

/-- all records of one message; an `Err` drops the rest of the message -/
def applyMutate (c : Client) (m : Mutate) : Client :=
  (m.ents.foldl (fun (acc : Client × Bool) e =>
    if acc.2 then acc else
    match applyMutEnt acc.1 m.tick e with
    | .ok c' => (c', false)
    | _ => (acc.1, true)) (c, false)).1

/-- the tracking half of `apply_mutate_messages`: every message that is applied (and only those)
is confirmed in `ServerMutateTicks`; `MutateTickReceived` is sent when `confirm` reports the
tick complete.  (It reads and writes nothing else, so doing it after the world changes of all
ready messages is the same as interleaving it.) -/
def trackOne (c : Client) (m : Mutate) : Client :=
  match c.mutTicks with
  | none => c
  | some s =>
    match s.confirm m.tick m.count with
    | .ok (s', done) => { c with mutTicks := some s', notified := if done then c.notified ++ [m.tick] else c.notified }
    | _ => c

/-- `apply_mutate_messages` (after the F1 repair: acknowledged when applied) -/
def applyBuffered (c : Client) : Client :=
  let ready := c.buffered.filter fun m => !(m.updateTick > c.updateTick)
  let keep := c.buffered.filter fun m => m.updateTick > c.updateTick
  let c := ready.foldl applyMutate { c with buffered := keep }
  let c := ready.foldl trackOne c
  { c with acks := c.acks ++ ready.map (·.index) }

/-- One client frame with the messages received since the previous one: all update messages
in arrival order, then all mutate messages buffered, then the applicable ones applied. -/
def frame (c : Client) (updates : List Update) (mutates : List Mutate) : Client :=
  -- `ClientSet::Reset` runs when the status was seen changing to disconnected
  let justDisconnected := c.lastNotDisconnected && !c.connected
  let c := if justDisconnected then { c with updateTick := 0, s2c := [], c2s := [], buffered := [],
                                              mutTicks := c.mutTicks.map fun _ => MutateTicks.default } else c
  let c := { c with lastNotDisconnected := c.connected, acks := [], notified := [] }
  if !c.connected then c else
  let c := updates.foldl applyUpdate c
  let c := { c with buffered := mutates.foldl bufferInsert c.buffered }
  applyBuffered c


end Replicon.Cli
