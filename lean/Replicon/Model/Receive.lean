import Replicon.Model.Wire
import Replicon.Model.EntityCodec
/-
The server's receive path for bytes that come from a client: `receive_acks` (src/server.rs),
`ClientEvent::receive_typed` with the default postcard deserializer and with
`trigger_deserialize` (src/shared/event/client_event.rs, client_trigger.rs), for the event types
of the harness (`CeOrd(u32)`, `CeMap(u32, Entity)`, trigger `CtOrd(u32)` and the library's own
`ProtocolHash(u64)` trigger).  Every function is total: whatever the bytes, the result is a
value, an `Err` that the caller logs and drops, or a panic at a numbered site — and the theorems
of `Props/C06.lean` show that the panic case never occurs.
-/
namespace Replicon.Recv
open Replicon

/-- `trigger_deserialize`, the target list: a `usize` length, then that many entities. -/
def decodeTargets (bs : List Nat) : Res (List (Nat × Nat) × List Nat) :=
  (decodeU64 bs).bind fun lr => Wire.decodeN decodeEntity lr.1 lr.2

/-- What `trigger_deserialize` asks the allocator for before reading any target:
`Vec::with_capacity(len.min(message.len()))` entities. -/
def triggerCapacity (bs : List Nat) : Nat :=
  match decodeU64 bs with
  | .ok (n, r) => min n r.length
  | _ => 0

/-- a client trigger: targets, then the event itself -/
def decodeTrigger (payload : List Nat → Res (Nat × List Nat)) (bs : List Nat) : Res (List (Nat × Nat) × Nat) :=
  (decodeTargets bs).bind fun tr => (payload tr.2).bind fun pr => .ok (tr.1, pr.1)

/-- `CeOrd(u32)` -/
def decodeOrd (bs : List Nat) : Res Nat := (decodeU32 bs).map (·.1)

/-- `CeMap(u32, Entity)`: Bevy's `Entity` deserializes from its `u64` bits through
`Entity::try_from_bits` -/
def decodeMapped (bs : List Nat) : Res (Nat × (Nat × Nat)) :=
  (decodeU32 bs).bind fun ir => (decodeU64 ir.2).bind fun br =>
    match entityTryFromBits br.1 with
    | some e => .ok (ir.1, e)
    | none => .err

/-- what one message on a client channel does to the server -/
inductive Effect where
  /-- mutate indices handed to `ack_mutate_message` -/
  | acks (indices : List Nat)
  /-- an event handed to server-side game logic: payload, referenced entities -/
  | event (payload : Nat) (refs : List (Nat × Nat))
  /-- logged and dropped -/
  | dropped
deriving Repr, DecidableEq

/-- kinds of client channels in the harness -/
inductive Chan where
  | acks | hash | ord | mapped | trigger
deriving Repr, DecidableEq

def receive (ch : Chan) (authorized : Bool) (bs : List Nat) : Res Effect :=
  match ch with
  | .acks => .ok (if authorized then .acks (Wire.decodeAcks bs) else .dropped)
  | .ord => match decodeOrd bs with
    | .ok v => .ok (.event v [])
    | .err => .ok .dropped
    | .panic s => .panic s
  | .mapped => match decodeMapped bs with
    | .ok (v, e) => .ok (.event v [e])
    | .err => .ok .dropped
    | .panic s => .panic s
  | .trigger => match decodeTrigger decodeU32 bs with
    | .ok (ts, v) => .ok (.event v ts)
    | .err => .ok .dropped
    | .panic s => .panic s
  | .hash => match decodeTrigger decodeU64 bs with
    | .ok (ts, v) => .ok (.event v ts)
    | .err => .ok .dropped
    | .panic s => .panic s

end Replicon.Recv
