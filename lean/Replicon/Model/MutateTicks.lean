import Replicon.Model.Tick
/-
`src/client/server_mutate_ticks.rs`: `ServerMutateTicks { ticks: VecDeque<TickMessages>, last_tick }`
with 64 slots, slot `i` = tick `last_tick - i`.
-/
namespace Replicon

/-- `TickMessages { messages_count, received }`. -/
structure TickMessages where
  count : Nat := 0
  received : Nat := 0
deriving Repr, DecidableEq, Inhabited

namespace TickMessages

/-- `Default::default()`. -/
def empty : TickMessages := { count := 0, received := 0 }

def allReceived (m : TickMessages) : Bool := m.count != 0 && m.count == m.received

/-- `TickMessages::confirm`.  Panic sites: 11 = `messages_count == 0`, 12 = count changed,
13 = more confirmations than messages. -/
def confirm (m : TickMessages) (n : Nat) : Res (TickMessages × Bool) :=
  if n = 0 then .panic 11
  else if !(m.count = 0 || m.count = n) then .panic 12
  else
    let m' : TickMessages := { count := n, received := m.received + 1 }
    if m'.received > m'.count then .panic 13 else .ok (m', m'.allReceived)

end TickMessages

structure MutateTicks where
  ticks : List TickMessages
  last : Nat
deriving Repr, DecidableEq

namespace MutateTicks

def slots : Nat := Consts.historyBits

def default : MutateTicks := { ticks := List.replicate slots TickMessages.empty, last := 0 }

/-- `contains`. -/
def contains (s : MutateTicks) (t : Nat) : Bool :=
  if tickGt t s.last then false
  else
    match s.ticks[tickSub s.last t]? with
    | some m => m.allReceived
    | none => true

/-- `for _ in 0..delta { pop_back(); push_front(default) }` on a deque: closed form. -/
def rotate (l : List TickMessages) (delta : Nat) : List TickMessages :=
  List.replicate (min delta l.length) TickMessages.empty ++ l.take (l.length - delta)

def setSlot (l : List TickMessages) (i : Nat) (m : TickMessages) : List TickMessages := l.set i m

/-- `confirm(tick, messages_count)`; panic site 10 = `debug_assert_eq!(len, 64)`. -/
def confirm (s : MutateTicks) (t n : Nat) : Res (MutateTicks × Bool) :=
  if s.ticks.length ≠ slots then .panic 10
  else if tickGt t s.last then
    let delta := tickSub t s.last
    let ticks := if delta ≥ s.ticks.length then List.replicate slots TickMessages.empty else rotate s.ticks delta
    match ticks with
    | [] => .panic 14
    | m :: rest =>
      (m.confirm n).bind fun r => .ok ({ ticks := r.1 :: rest, last := t }, r.2)
  else
    let delta := tickSub s.last t
    match s.ticks[delta]? with
    | some m => (m.confirm n).bind fun r => .ok ({ s with ticks := s.ticks.set delta r.1 }, r.2)
    | none => .ok (s, false)

/-- `contains_any`; panic site 3 = `debug_assert!(start <= end)`, 15 = range out of bounds. -/
def containsAny (s : MutateTicks) (a b : Nat) : Res Bool :=
  if !tickLe a b then .panic 3
  else if tickGt a s.last then .ok false
  else if tickLe a (tickSub s.last s.ticks.length) then .ok true
  else
    let e := if tickLt b s.last then b else s.last
    let hi := tickSub s.last a
    let lo := tickSub s.last e
    if lo > hi + 1 ∨ hi ≥ s.ticks.length then .panic 15
    else .ok (((s.ticks.take (hi + 1)).drop lo).any TickMessages.allReceived)

/-- `mask()`: bit `i` set iff slot `i` is completely received. -/
def mask (s : MutateTicks) : Nat :=
  (s.ticks.zipIdx.foldl (fun acc (m, i) => if m.allReceived then acc ||| (1 <<< i) else acc) 0)

end MutateTicks
end Replicon
