/-
Common definitions of the executable model.  Import-free (core Lean only) so that the
trace-checking driver can be linked as a native executable.
-/
namespace Replicon

/-- Outcome of a modelled Rust function: a value, an `Err(..)` that the caller handles,
or a panic (an `unwrap`, `expect`, overflow check, `debug_assert!` … at the numbered site). -/
inductive Res (α : Type) where
  | ok (a : α)
  | err
  | panic (site : Nat)
deriving Repr, DecidableEq, Inhabited

namespace Res

def bind {α β : Type} (r : Res α) (f : α → Res β) : Res β :=
  match r with
  | ok a => f a
  | err => err
  | panic s => panic s

def map {α β : Type} (f : α → β) (r : Res α) : Res β :=
  match r with
  | ok a => ok (f a)
  | err => err
  | panic s => panic s

def isPanic {α : Type} : Res α → Bool
  | panic _ => true
  | _ => false

def isOk {α : Type} : Res α → Bool
  | ok _ => true
  | _ => false

end Res

/-- A byte string.  Bytes are natural numbers; every producer in the model yields values
`< 256` and every consumer only looks at `b % 256`. -/
def BytesOk (bs : List Nat) : Prop := ∀ b ∈ bs, b < 256

instance (bs : List Nat) : Decidable (BytesOk bs) := by unfold BytesOk; infer_instance

/-! ### hex helpers used by the driver (not part of any theorem) -/

def hexDigit (c : Char) : Option Nat :=
  if '0' ≤ c ∧ c ≤ '9' then some (c.toNat - '0'.toNat)
  else if 'a' ≤ c ∧ c ≤ 'f' then some (c.toNat - 'a'.toNat + 10)
  else if 'A' ≤ c ∧ c ≤ 'F' then some (c.toNat - 'A'.toNat + 10)
  else none

def parseHexAux : List Char → List Nat → Option (List Nat)
  | [], acc => some acc.reverse
  | [_], _ => none
  | a :: b :: rest, acc =>
    match hexDigit a, hexDigit b with
    | some x, some y => parseHexAux rest ((x * 16 + y) :: acc)
    | _, _ => none

/-- `"-"` is the empty byte string. -/
def parseHex (s : String) : Option (List Nat) :=
  if s = "-" then some [] else parseHexAux s.toList []

def hexChar (n : Nat) : Char :=
  if n < 10 then Char.ofNat (n + '0'.toNat) else Char.ofNat (n - 10 + 'a'.toNat)

def toHex (bs : List Nat) : String :=
  if bs.isEmpty then "-" else
  String.ofList (bs.foldr (fun b acc => hexChar (b / 16 % 16) :: hexChar (b % 16) :: acc) [])

end Replicon
