import Replicon.Model.Basic
/-
Remote events: the decision logic of `src/shared/event/server_event.rs`
(`BufferedServerEvents::send_all`, `send_independent_event`, `resend_locally_typed`,
`receive_typed` with `ClientEventQueue`), `src/shared/event/client_event.rs`
(`send_typed`, `resend_locally_typed`) and the run conditions of `src/shared/common_conditions.rs`
that decide which path an event takes.
-/
namespace Replicon.Evt

/-- `SendMode`; clients are numbers, `SERVER` is the local server -/
inductive Mode where
  | broadcast
  | except (c : Option Nat)     -- `BroadcastExcept(client)`; `none` = `SERVER`
  | direct (c : Option Nat)     -- `Direct(client)`; `none` = `SERVER`
deriving Repr, DecidableEq

/-- a connected client as `send_all` sees it -/
structure Peer where
  id : Nat
  /-- has `ClientTicks` (is authorized) -/
  authorized : Bool
  /-- `ClientTicks::update_tick` -/
  updateTick : Nat
deriving Repr, DecidableEq

/-- The clients a *buffered* (non-independent) event is sent to by `send_all`, each with the
tick it is stamped with: connected clients that are not excluded (connected after the event was
buffered), selected by the mode, and authorized. -/
def bufferedRecipients (mode : Mode) (peers : List Peer) (excluded : List Nat) : List (Nat × Nat) :=
  (peers.filter fun p =>
    !excluded.contains p.id && p.authorized &&
    (match mode with
     | .broadcast => true
     | .except c => c ≠ some p.id
     | .direct c => c = some p.id)).map fun p => (p.id, p.updateTick)

/-- The clients an *independent* event is sent to immediately (`send_independent_event`):
every connected client the mode selects, authorized or not. -/
def independentRecipients (mode : Mode) (peers : List Peer) : List Nat :=
  (peers.filter fun p =>
    match mode with
    | .broadcast => true
    | .except c => c ≠ some p.id
    | .direct c => c = some p.id).map (·.id)

/-- `resend_locally_typed` (server events): is the event re-emitted for the local game logic? -/
def localDelivery (mode : Mode) : Bool :=
  match mode with
  | .broadcast => true
  | .except c => c.isSome        -- `entity != SERVER`
  | .direct c => c.isNone        -- `entity == SERVER`

/-- `ClientEventQueue` + the part of `receive_typed` that decides between delivering and
queueing: messages are `(stamp, payload)`.  Returns what is handed to the game logic now (in
order) and the new queue. -/
structure Queue where
  /-- kept sorted by stamp; arrival order within a stamp (`BTreeMap<tick, Vec<_>>`) -/
  items : List (Nat × Nat) := []
deriving Repr, DecidableEq

def Queue.insert (q : Queue) (stamp payload : Nat) : Queue :=
  let rec go : List (Nat × Nat) → List (Nat × Nat)
    | [] => [(stamp, payload)]
    | x :: xs => if stamp < x.1 then (stamp, payload) :: x :: xs else x :: go xs
  { items := go q.items }

/-- One `receive_typed` call: first everything queued with a stamp `≤ updateTick`, then the
newly received messages — delivered if their stamp is `≤ updateTick`, queued otherwise. -/
def receive (updateTick : Nat) (q : Queue) (incoming : List (Nat × Nat)) : List (Nat × Nat) × Queue :=
  let ready := q.items.filter fun x => x.1 ≤ updateTick
  let rest := q.items.filter fun x => !(x.1 ≤ updateTick)
  let now := incoming.filter fun x => x.1 ≤ updateTick
  let later := incoming.filter fun x => !(x.1 ≤ updateTick)
  (ready ++ now, later.foldl (fun q x => q.insert x.1 x.2) { items := rest })

/-- `RepliconClientStatus` -/
inductive Status where
  | disconnected | connecting | connected
deriving Repr, DecidableEq

/-- which systems handle an event the local game sends towards the server, this frame:
`send` runs under `client_connected`, `resend_locally` under `server_or_singleplayer`
(= no client resource, or the client is disconnected) -/
structure Paths where
  toWire : Bool
  locally : Bool
deriving Repr, DecidableEq

def clientEventPaths (hasClientPlugin : Bool) (status : Status) : Paths :=
  -- both systems belong to the client-side event plugin: without it neither exists
  { toWire := hasClientPlugin && decide (status = .connected),
    locally := hasClientPlugin && decide (status = .disconnected) }

end Replicon.Evt
