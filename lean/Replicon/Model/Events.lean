import Replicon.Model.Basic
/-
Remote events: the decision logic of `src/shared/event/server_event.rs`
(`BufferedServerEvents::send_all`, `send_independent_event`, `resend_locally_typed`,
`receive_typed` with `ClientEventQueue`), `src/shared/event/client_event.rs`
(`send_typed`, `resend_locally_typed`) and the run conditions of `src/shared/common_conditions.rs`
that decide which path an event takes.
-/
namespace Replicon.Evt

/-- `SendMode`; clients are numbers, `SERVER` is the local server -/
inductive Mode where
  | broadcast
  | except (c : Option Nat)     -- `BroadcastExcept(client)`; `none` = `SERVER`
  | direct (c : Option Nat)     -- `Direct(client)`; `none` = `SERVER`
deriving Repr, DecidableEq

/-- a connected client as `send_all` sees it -/
structure Peer where
  id : Nat
  /-- has `ClientTicks` (is authorized) -/
  authorized : Bool
  /-- `ClientTicks::update_tick` -/
  updateTick : Nat
deriving Repr, DecidableEq

/-- The clients a *buffered* (non-independent) event is sent to by `send_all`, each with the
tick it is stamped with: connected clients that are not excluded (connected after the event was
buffered), selected by the mode, and authorized. -/
def bufferedRecipients (mode : Mode) (peers : List Peer) (excluded : List Nat) : List (Nat × Nat) :=
  (peers.filter fun p =>
    !excluded.contains p.id && p.authorized &&
    (match mode with
     | .broadcast => true
     | .except c => c ≠ some p.id
     | .direct c => c = some p.id)).map fun p => (p.id, p.updateTick)

/-- The clients an *independent* event is sent to immediately (`send_independent_event`):
every connected client the mode selects, authorized or not. -/
def independentRecipients (mode : Mode) (peers : List Peer) : List Nat :=
  (peers.filter fun p =>
    match mode with
    | .broadcast => true
    | .except c => c ≠ some p.id
    | .direct c => c = some p.id).map (·.id)

/-- `resend_locally_typed` (server events): is the event re-emitted for the local game logic? -/
def localDelivery (mode : Mode) : Bool :=
  match mode with
  | .broadcast => true
  | .except c => c.isSome        -- `entity != SERVER`
  | .direct c => c.isNone        -- `entity == SERVER`

/-- `ClientEventQueue` + the part of `receive_typed` that decides between delivering and
queueing: messages are `(stamp, payload)`.  Returns what is handed to the game logic now (in
order) and the new queue. -/
structure Queue where
  /-- kept sorted by stamp; arrival order within a stamp (`BTreeMap<tick, Vec<_>>`) -/
  items : List (Nat × Nat) := []
deriving Repr, DecidableEq

def Queue.insert (q : Queue) (stamp payload : Nat) : Queue :=
  let rec go : List (Nat × Nat) → List (Nat × Nat)
    | [] => [(stamp, payload)]
    | x :: xs => if stamp < x.1 then (stamp, payload) :: x :: xs else x :: go xs
  { items := go q.items }

/-- One `receive_typed` call: first everything queued with a stamp `≤ updateTick`, then the
newly received messages — delivered if their stamp is `≤ updateTick`, queued otherwise. -/
def receive (updateTick : Nat) (q : Queue) (incoming : List (Nat × Nat)) : List (Nat × Nat) × Queue :=
  let ready := q.items.filter fun x => x.1 ≤ updateTick
  let rest := q.items.filter fun x => !(x.1 ≤ updateTick)
  let now := incoming.filter fun x => x.1 ≤ updateTick
  let later := incoming.filter fun x => !(x.1 ≤ updateTick)
  (ready ++ now, later.foldl (fun q x => q.insert x.1 x.2) { items := rest })

/-- `RepliconClientStatus` -/
inductive Status where
  | disconnected | connecting | connected
deriving Repr, DecidableEq

/-- which systems handle an event the local game sends towards the server, this frame:
`send` runs under `client_connected`, `resend_locally` under `server_or_singleplayer`
(= no client resource, or the client is disconnected) -/
structure Paths where
  toWire : Bool
  locally : Bool
deriving Repr, DecidableEq

def clientEventPaths (hasClientPlugin : Bool) (status : Status) : Paths :=
  -- both systems belong to the client-side event plugin: without it neither exists
  { toWire := hasClientPlugin && decide (status = .connected),
    locally := hasClientPlugin && decide (status = .disconnected) }


/-! ### the server's buffer of dependent events (`BufferedServerEvents`) -/

/-- does the mode select connected client `c`? -/
def selects (mode : Mode) (c : Nat) : Bool :=
  match mode with
  | .broadcast => true
  | .except x => x ≠ some c
  | .direct x => x = some c

/-- a buffered event: `id` stands for the serialized payload -/
structure Ev where
  id : Nat
  chan : Nat
  mode : Mode
deriving Repr, DecidableEq

/-- `BufferedServerEventSet` -/
structure BufSet where
  events : List Ev := []
  excluded : List Nat := []
deriving Repr, DecidableEq

/-- a message handed to `RepliconServer::send` -/
structure Out where
  client : Nat
  chan : Nat
  /-- the tick written in front of the payload; `none` for independent events -/
  stamp : Option Nat
  id : Nat
deriving Repr, DecidableEq

/-- `BufferedServerEvent::send` for every client the `match event.mode` arm of `send_all` reaches -/
def sendEvent (peers : List Peer) (excluded : List Nat) (e : Ev) : List Out :=
  (peers.filter fun p => !excluded.contains p.id && selects e.mode p.id && p.authorized).map
    fun p => { client := p.id, chan := e.chan, stamp := some p.updateTick, id := e.id }

def sendSet (peers : List Peer) (s : BufSet) : List Out :=
  s.events.flatMap (sendEvent peers s.excluded)

/-- `send_independent_event` -/
def sendIndependent (peers : List Peer) (e : Ev) : List Out :=
  (peers.filter fun p => selects e.mode p.id).map
    fun p => { client := p.id, chan := e.chan, stamp := none, id := e.id }

/-- `BufferedServerEvents::buffer` (the `cache` of spare sets is an allocation detail) -/
structure SrvEv where
  buffer : List BufSet := []
deriving Repr, DecidableEq

/-- `start_tick` followed by the `insert`s of one `send_or_buffer` run -/
def SrvEv.bufferEvents (s : SrvEv) (es : List Ev) : SrvEv :=
  { buffer := s.buffer ++ [{ events := es }] }

/-- `exclude_client` (called from `handle_connects`) -/
def SrvEv.exclude (s : SrvEv) (c : Nat) : SrvEv :=
  { buffer := s.buffer.map fun b => { b with excluded := c :: b.excluded } }

/-- `send_all`: everything buffered, set by set, then the buffer is empty -/
def SrvEv.sendAll (s : SrvEv) (peers : List Peer) : List Out :=
  s.buffer.flatMap (sendSet peers)

/-- `clear` (server stop) -/
def SrvEv.clear (_ : SrvEv) : SrvEv := {}

/-- An event the game emitted since the previous frame: dependent or independent. -/
structure Emitted where
  ev : Ev
  independent : Bool
deriving Repr, DecidableEq

/-- The three event systems of the server's `PostUpdate`, in their chained order
(`send_or_buffer`, `send_buffered`, `resend_locally`), for one frame.
`localOk` is the value of `server_or_singleplayer`.  Returns the new buffer, the messages
handed to the transport (in order) and the ids re-emitted for the local game logic. -/
def SrvEv.frame (s : SrvEv) (running ticked localOk : Bool) (emitted : List Emitted) (peers : List Peer) :
    SrvEv × List Out × List Nat :=
  let locals := if localOk then (emitted.filter fun e => localDelivery e.ev.mode).map (·.ev.id) else []
  if !running then (s, [], locals) else
  let s1 := s.bufferEvents ((emitted.filter fun e => !e.independent).map (·.ev))
  let indep := (emitted.filter (·.independent)).flatMap fun e => sendIndependent peers e.ev
  if ticked then ({}, indep ++ s1.sendAll peers, locals) else (s1, indep, locals)

/-! ### events the local game sends towards the server (`Events<E>` + `ClientEventReader`) -/

/-- Bevy's double-buffered `Events<E>` together with replicon's read cursor.  Items are
`(sequence number, payload id)`; `a` is the older half, dropped by the next `Events::update`. -/
structure CBuf where
  a : List (Nat × Nat) := []
  b : List (Nat × Nat) := []
  /-- `event_count`: sequence number of the next event -/
  next : Nat := 0
  /-- `ClientEventReader`: everything below has been sent to the remote server -/
  cursor : Nat := 0
deriving Repr, DecidableEq

def CBuf.emit (q : CBuf) (id : Nat) : CBuf := { q with b := q.b ++ [(q.next, id)], next := q.next + 1 }
/-- `Events::update` -/
def CBuf.age (q : CBuf) : CBuf := { q with a := q.b, b := [] }
def CBuf.items (q : CBuf) : List (Nat × Nat) := q.a ++ q.b
/-- `Events::drain` -/
def CBuf.drain (q : CBuf) : CBuf := { q with a := [], b := [] }

/-- One frame of a client-side app for one client event type.
* `aged`: did Bevy run `Events::update` in `First` (it does so only after a `FixedUpdate`);
* `justConnected`: the value of `client_just_connected` (runs `reset`, which drains);
* `status`: the client's status in `PostUpdate`.
Returns the new buffer, the events put on the wire and the events re-emitted locally as
`FromClient { client: SERVER, .. }` (both as `(sequence number, payload)`). -/
def CBuf.frame (q : CBuf) (aged justConnected : Bool) (status : Status) :
    CBuf × List (Nat × Nat) × List (Nat × Nat) :=
  let q := if aged then q.age else q
  let q := if justConnected then q.drain else q
  match status with
  | .connected =>
    ({ q with cursor := q.next }, q.items.filter fun x => q.cursor ≤ x.1, [])
  | .disconnected => (q.drain, [], q.items)
  | .connecting => (q, [], [])

/-- a step of a client-side app's history, for one client event type -/
inductive CStep where
  | emit (id : Nat)
  | frame (aged justConnected : Bool) (status : Status)
deriving Repr, DecidableEq

/-- everything put on the wire / re-emitted locally over a history -/
def CBuf.run (q : CBuf) : List CStep → List (Nat × Nat) × List (Nat × Nat)
  | [] => ([], [])
  | .emit id :: rest => (q.emit id).run rest
  | .frame aged jc st :: rest =>
    let r := q.frame aged jc st
    let t := r.1.run rest
    (r.2.1 ++ t.1, r.2.2 ++ t.2)

/-- what the server-side logic gets for one received message: the payload with the identity the
transport attached (`ClientEvent::receive_typed`) -/
def receiveFrom (msgs : List (Nat × Nat)) : List (Nat × Nat) := msgs

/-- `ServerEvent::deserialize` with `ClientReceiveCtx`: every reference must be in the entity map,
otherwise the event is refused -/
def resolveRefs (map : List (Nat × Nat)) (refs : List Nat) : Option (List Nat) :=
  refs.mapM fun r => map.lookup r

end Replicon.Evt
