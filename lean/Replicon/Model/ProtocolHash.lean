import Replicon.Model.Basic
import Replicon.Gen.Consts
/-
`src/shared/protocol.rs`: `ProtocolHasher` = FNV-1a (crate `fnv` 1.0.7, 64 bit) over, per
registration: the `#[repr(u8)]` discriminant of `ProtocolPart` (one byte), for `Replicate` the
`priority: u64` (8 bytes little endian), then `any::type_name::<T>()` hashed as `str`
(UTF-8 bytes followed by `0xff`).  Type names are data (supplied by the harness at run time).
-/
namespace Replicon.Proto

/-- One registration call, as the hasher sees it. -/
structure Reg where
  kind : Nat            -- `ProtocolPart` discriminant 0..7
  priority : Nat        -- only meaningful for kind 0 (`Replicate { priority }`)
  name : List Nat       -- UTF-8 bytes of the type name
deriving Repr, DecidableEq

/-- `u64::to_le_bytes` -/
def u64le (p : Nat) : List Nat :=
  [p % 256, p / 256 % 256, p / 65536 % 256, p / 16777216 % 256, p / 4294967296 % 256,
   p / 1099511627776 % 256, p / 281474976710656 % 256, p / 72057594037927936 % 256]

/-- Bytes fed to the hasher for one registration. -/
def encodeReg (r : Reg) : List Nat :=
  r.kind :: ((if r.kind = 0 then u64le r.priority else []) ++ r.name ++ [255])

def encodeSeq (rs : List Reg) : List Nat := rs.flatMap encodeReg

/-- One FNV-1a step: `hash ^= byte; hash = hash.wrapping_mul(prime)`. -/
def fnvStep (h : BitVec 64) (b : Nat) : BitVec 64 :=
  (h ^^^ BitVec.ofNat 64 (b % 256)) * BitVec.ofNat 64 Consts.fnvPrime

def fnv (bs : List Nat) (h : BitVec 64) : BitVec 64 := bs.foldl fnvStep h

/-- `ProtocolHasher::default()` … `finish()`. -/
def protocolHash (rs : List Reg) : Nat := (fnv (encodeSeq rs) (BitVec.ofNat 64 Consts.fnvOffset)).toNat

/-- Well-formed registration: a discriminant, a `u64` priority, a UTF-8 name (no `0xff` byte;
valid UTF-8 never contains one). -/
def Reg.WF (r : Reg) : Prop :=
  r.kind < 8 ∧ r.priority < 18446744073709551616 ∧ (r.kind ≠ 0 → r.priority = 0) ∧ ∀ b ∈ r.name, b < 255

end Replicon.Proto

namespace Replicon.Proto

/-- Outcome of `server::check_protocol` for one `FromClient<ProtocolHash>` trigger. -/
structure Handshake where
  authorized : Bool        -- `AuthorizedClient` inserted
  mismatchSent : Bool      -- `ProtocolMismatch` triggered towards the client
  disconnectRequested : Bool
deriving Repr, DecidableEq

/-- `check_protocol`: `if **trigger == *protocol { insert AuthorizedClient } else { trigger
ProtocolMismatch; write DisconnectRequest }`. -/
def checkProtocol (serverHash clientHash : Nat) : Handshake :=
  if clientHash = serverHash then { authorized := true, mismatchSent := false, disconnectRequested := false }
  else { authorized := false, mismatchSent := true, disconnectRequested := true }

end Replicon.Proto
