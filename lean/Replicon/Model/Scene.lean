import Replicon.Model.Basic
/-
`src/scene.rs::replicate_into` and the part of `ReplicationRules` it uses (`matches`).
Components are numbers; an entity carries at most one value per component.
-/
namespace Replicon.Scene

/-- `ReplicationRule`: priority and component ids (send rates / fns are irrelevant here). -/
structure Rule where
  priority : Nat
  comps : List Nat
deriving Repr, DecidableEq

/-- A world entity: id, whether it carries `Replicated`, its components `(id, value)`. -/
structure WEntity where
  id : Nat
  marked : Bool
  comps : List (Nat × Nat)
deriving Repr, DecidableEq

/-- `ReplicationRule::matches(archetype)`: every component of the rule is present. -/
def ruleMatches (r : Rule) (e : WEntity) : Bool :=
  r.comps.all fun k => e.comps.any fun c => c.1 == k

/-- Component ids visited by the two nested loops
`for rule in rules.iter().filter(matches) { for component in &rule.components`. -/
def candidates (rules : List Rule) (e : WEntity) : List Nat :=
  (rules.filter (ruleMatches · e)).flatMap (·.comps)

/-- Loop body: skip ids already taken (`exported`), skip components without a usable
reflection registration, otherwise push the component's current value. -/
def exportStep (refl : Nat → Bool) (e : WEntity) (st : List Nat × List (Nat × Nat)) (k : Nat) :
    List Nat × List (Nat × Nat) :=
  if st.1.contains k then st
  else
    (k :: st.1,
      if refl k then
        match e.comps.lookup k with
        | some v => st.2 ++ [(k, v)]
        | none => st.2      -- unreachable: the archetype matched the rule
      else st.2)

/-- Components pushed for one entity. -/
def exported (refl : Nat → Bool) (rules : List Rule) (e : WEntity) : List (Nat × Nat) :=
  ((candidates rules e).foldl (exportStep refl e) ([], [])).2

/-- A scene: entity id ↦ components (the `EntityHashMap` the function builds; order is
irrelevant and compared up to permutation). -/
abbrev SceneMap := List (Nat × List (Nat × Nat))

/-- `entities.entry(id).or_default()` followed by the pushes for that entity. -/
def upsert (s : SceneMap) (id : Nat) (extra : List (Nat × Nat)) : SceneMap :=
  match s with
  | [] => [(id, extra)]
  | (i, cs) :: rest => if i = id then (i, cs ++ extra) :: rest else (i, cs) :: upsert rest id extra

/-- `replicate_into(scene, world)`. -/
def replicateInto (refl : Nat → Bool) (rules : List Rule) (scene : SceneMap) (world : List WEntity) : SceneMap :=
  world.foldl (fun s e => if e.marked then upsert s e.id (exported refl rules e) else s) scene

end Replicon.Scene
