import Replicon.Model.Basic
import Replicon.Gen.Consts
/-
`src/shared/replicon_tick.rs`: `RepliconTick(u32)`, wrapping arithmetic and the wrapping order.
A tick is a natural number `< 2^32`.
-/
namespace Replicon

/-- `u32` modulus. -/
def tickMod : Nat := 4294967296

/-- `self.0.wrapping_sub(other.0)` (`Sub for RepliconTick`, returns `u32`). -/
def tickSub (a b : Nat) : Nat := (a + 4294967296 - b % 4294967296) % 4294967296

/-- `self.0.wrapping_add(rhs)` (`Add<u32>`). -/
def tickAdd (a k : Nat) : Nat := (a + k) % 4294967296

/-- `Ord::cmp`: by the wrapping difference against `u32::MAX / 2` (scraped: `Consts.tickHalf`). -/
def tickCmp (a b : Nat) : Ordering :=
  let d := tickSub a b
  if d = 0 then .eq else if d > Consts.tickHalf then .lt else .gt

def tickGt (a b : Nat) : Bool := tickCmp a b == .gt
def tickLt (a b : Nat) : Bool := tickCmp a b == .lt
def tickLe (a b : Nat) : Bool := tickCmp a b != .gt
def tickGe (a b : Nat) : Bool := tickCmp a b != .lt

end Replicon
