import Replicon.Model.Basic
/-
`src/server/client_visibility.rs`: `ClientVisibility` for one entity.

Every operation of `ClientVisibility` acts on the entity's own entries only (its entry in the
list map and its membership in the `added` / `removed` sets), so the component is a product of
independent per-entity cells.  `Cell` is one such projection; `Vis` lifts it to all entities.
-/
namespace Replicon.Vis

/-- entry of the entity in the blacklist / whitelist map -/
inductive Info where
  | none        -- not in the list
  | a           -- `BlacklistInfo::Hidden`            / `WhitelistInfo::Visible`
  | b           -- `BlacklistInfo::QueuedForRemoval`  / `WhitelistInfo::JustAdded`
deriving Repr, DecidableEq, Inhabited

structure Cell where
  info : Info := .none
  added : Bool := false
  removed : Bool := false
deriving Repr, DecidableEq, Inhabited

/-- `Visibility` (what `state()` returns) -/
inductive State where
  | hidden | gained | visible
deriving Repr, DecidableEq

/-- `state()` for the blacklist policy -/
def stateB (c : Cell) : State :=
  match c.info with
  | .b => .gained
  | .a => .hidden
  | .none => .visible

/-- `state()` for the whitelist policy -/
def stateW (c : Cell) : State :=
  match c.info with
  | .b => .gained
  | .a => .visible
  | .none => .hidden

def isVisible (white : Bool) (c : Cell) : Bool :=
  match (if white then stateW c else stateB c) with
  | .hidden => false
  | _ => true

/-- `set_visibility(entity, visible)`, blacklist. -/
def setB (c : Cell) (visible : Bool) : Cell :=
  if visible then
    match c.info with
    | .none => c                                            -- already visible
    | _ =>
      if c.added then { c with info := .none, added := false }   -- hidden in this tick: undo
      else { c with info := .b, removed := true }
  else
    match c.info with
    | .none => { c with info := .a, added := true }
    | _ => { c with info := .a, removed := false }

/-- `set_visibility(entity, visible)`, whitelist. -/
def setW (c : Cell) (visible : Bool) : Cell :=
  if visible then
    if c.removed then { c with info := .a, removed := false }     -- removed in this tick: undo
    else
      match c.info with
      | .none => { info := .b, added := true, removed := false }
      | .b => { c with added := true, removed := false }
      | .a => { c with removed := false }
  else
    match c.info with
    | .none => c
    | _ =>
      if c.added then { c with info := .none, added := false }   -- added in this tick: undo
      else { c with info := .none, removed := true }

/-- `update()` at the end of `send_messages`. -/
def update (white : Bool) (c : Cell) : Cell :=
  if white then
    { info := if c.added then .a else c.info, added := false, removed := false }
  else
    { info := if c.removed then .none else c.info, added := false, removed := false }

/-- `remove_despawned(entity)` (after the F9 repair: the blacklist keeps `added`). -/
def removeDespawned (white : Bool) (c : Cell) : Cell :=
  match c.info with
  | .none => c
  | _ => if white then { info := .none, added := false, removed := false }
         else { c with info := .none, removed := false }

/-- membership in `drain_lost()` -/
def lost (white : Bool) (c : Cell) : Bool := if white then c.removed else c.added

/-- `drain_lost()` empties the set it drains -/
def drainLost (white : Bool) (c : Cell) : Cell :=
  if white then { c with removed := false } else { c with added := false }

/-- Operations on one entity's cell. -/
inductive Op where
  | show_             -- `set_visibility(entity, true)`
  | hide              -- `set_visibility(entity, false)`
  | tick              -- one replication run for a live, replicated entity: `drain_lost`, …, `update`
  | despawnTick       -- a replication run in which the entity is in the despawn buffer
deriving Repr, DecidableEq

/-- What one replication run sends about the entity to this client, and the new cell. -/
inductive Sent where
  | nothing | despawn | whole | changes
deriving Repr, DecidableEq

def step (white : Bool) (c : Cell) : Op → Cell × Sent
  | .show_ => ((if white then setW c true else setB c true), .nothing)
  | .hide => ((if white then setW c false else setB c false), .nothing)
  | .tick =>
    -- collect_despawns: `drain_lost` → despawn; collect_changes by `state()`; then `update`
    let st := if white then stateW c else stateB c
    let sent := if lost white c then .despawn
      else match st with
        | .hidden => .nothing
        | .gained => .whole
        | .visible => .changes
    (update white (drainLost white c), sent)
  | .despawnTick =>
    -- collect_despawns, first loop: despawn if `is_visible`, then `remove_despawned`;
    -- second loop: `drain_lost`
    let c1 := removeDespawned white c
    let sent := if isVisible white c || lost white c1 then Sent.despawn else .nothing
    (update white (drainLost white c1), sent)

end Replicon.Vis
