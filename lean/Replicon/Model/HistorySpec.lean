import Replicon.Model.ConfirmHistory
import Replicon.Model.MutateTicks
/-
The specification C12 compares against: a *plain set of confirmed ticks*.

Ticks are unbounded naturals here ("absolute" ticks: the server's tick counter without the
32-bit wrap); the implementation only ever sees `t % 2^32`.  A history of confirmations is
well-formed when every tick handed to the implementation is less than half the counter range
away from the running last tick — the premise under which `RepliconTick`'s order is defined.
-/
namespace Replicon

/-- `a` and `b` are less than half the counter range apart. -/
def Near (a b : Nat) : Prop := a < b + 2147483648 ∧ b < a + 2147483648

instance (a b : Nat) : Decidable (Near a b) := by unfold Near; infer_instance

/-- Plain-set specification of `ConfirmHistory`. -/
structure SetSpec where
  last : Nat
  confirmed : List Nat
deriving Repr

namespace SetSpec

def new (t0 : Nat) : SetSpec := { last := t0, confirmed := [t0] }

def confirm (s : SetSpec) (t : Nat) : SetSpec := { last := max s.last t, confirmed := t :: s.confirmed }

/-- Membership: not newer than the last tick, and either older than the window or in the set. -/
def contains (s : SetSpec) (q : Nat) : Bool :=
  decide (q ≤ s.last) && (decide (s.last - q ≥ 64) || decide (q ∈ s.confirmed))

/-- Range query, as the set would answer it. -/
def containsAny (s : SetSpec) (a b : Nat) : Prop := ∃ q, a ≤ q ∧ q ≤ b ∧ s.contains q = true

/-- Executable form of `containsAny` used by the driver (at most 64 membership tests). -/
def containsAnyFast (s : SetSpec) (a b : Nat) : Bool :=
  if a > s.last then false
  else if a + 64 ≤ s.last then decide (a ≤ b)
  else (List.range (min b s.last + 1 - a)).any fun i => s.contains (a + i)

end SetSpec

/-- Plain specification of `ServerMutateTicks`: the log of `confirm(tick, count)` calls. -/
structure CountSpec where
  last : Nat
  calls : List (Nat × Nat)   -- (absolute tick, messages_count), newest first
deriving Repr

namespace CountSpec

def init : CountSpec := { last := 0, calls := [] }

def confirm (s : CountSpec) (t n : Nat) : CountSpec := { last := max s.last t, calls := (t, n) :: s.calls }

/-- number of confirmations recorded for tick `q` -/
def received (s : CountSpec) (q : Nat) : Nat := (s.calls.filter (·.1 = q)).length

/-- the message count announced for tick `q` (0 if none) -/
def count (s : CountSpec) (q : Nat) : Nat :=
  match s.calls.find? (·.1 = q) with
  | some c => c.2
  | none => 0

def complete (s : CountSpec) (q : Nat) : Bool := s.count q != 0 && s.count q == s.received q

def contains (s : CountSpec) (q : Nat) : Bool :=
  decide (q ≤ s.last) && (decide (s.last - q ≥ 64) || s.complete q)

def containsAny (s : CountSpec) (a b : Nat) : Prop := ∃ q, a ≤ q ∧ q ≤ b ∧ s.contains q = true

def containsAnyFast (s : CountSpec) (a b : Nat) : Bool :=
  if a > s.last then false
  else if a + 64 ≤ s.last then decide (a ≤ b)
  else (List.range (min b s.last + 1 - a)).any fun i => s.contains (a + i)

/-- A call is well-formed when it cannot trip the implementation's debug assertions: a
non-zero count, consistent with earlier calls for the tick, and no more calls than messages;
calls for ticks that already left the window are ignored by the implementation and may be
anything non-zero. -/
def callOk (s : CountSpec) (t n : Nat) : Bool :=
  n != 0 && (decide (t + 64 ≤ s.last) || ((s.count t == 0 || s.count t == n) && decide (s.received t < n)))

end CountSpec
end Replicon
