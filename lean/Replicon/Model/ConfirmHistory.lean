import Replicon.Model.Tick
/-
`src/client/confirm_history.rs`: `ConfirmHistory { mask: u64, last_tick }`.
`mask : BitVec 64`; shifts follow the Rust operators exactly: `checked_shl(n)` is `none` for
`n ≥ 64`; a plain `<<`/`>>` with an amount `≥ 64` and the `debug_assert!`s are panic sites
(debug profile, which is what the repository's tests run).
-/
namespace Replicon

structure ConfirmHistory where
  mask : BitVec 64
  last : Nat
deriving Repr, DecidableEq

namespace ConfirmHistory

/-- `u64::BITS` as scraped from the source (`Consts.historyBits`). -/
def window : Nat := Consts.historyBits

/-- `ConfirmHistory::new`: mask 1 (scraped: `Consts.historyInitMask`). -/
def new (t : Nat) : ConfirmHistory := { mask := BitVec.ofNat 64 Consts.historyInitMask, last := t }

/-- `contains`. -/
def contains (h : ConfirmHistory) (t : Nat) : Bool :=
  if tickGt t h.last then false
  else
    let ago := tickSub h.last t
    decide (ago ≥ window) || (h.mask >>> ago).getLsbD 0

/-- `set(ago)`: `debug_assert!(ago < u64::BITS); mask |= 1 << ago`. Panic site 1. -/
def set (h : ConfirmHistory) (ago : Nat) : Res ConfirmHistory :=
  if ago < window then .ok { h with mask := h.mask ||| ((1 : BitVec 64) <<< ago) } else .panic 1

/-- `set_last_tick(tick)`: `debug_assert!(tick >= last)`; `mask = mask.checked_shl(diff).unwrap_or(0)`;
`mask |= 1`.  Panic site 2. -/
def setLastTick (h : ConfirmHistory) (t : Nat) : Res ConfirmHistory :=
  if tickGe t h.last then
    let diff := tickSub t h.last
    let shifted : BitVec 64 := if diff < 64 then h.mask <<< diff else 0
    .ok { mask := shifted ||| 1, last := t }
  else .panic 2

/-- `confirm(tick)`. -/
def confirm (h : ConfirmHistory) (t : Nat) : Res ConfirmHistory :=
  if tickGt t h.last then setLastTick h t
  else
    let ago := tickSub h.last t
    if ago < window then set h ago else .ok h

/-- `contains_any(start, end)`.  Panic sites: 3 = `debug_assert!(start <= end)`,
4 = `end - start + 1` overflows `u32`, 5 = `range << offset` with `offset ≥ 64`. -/
def containsAny (h : ConfirmHistory) (a b : Nat) : Res Bool :=
  if !tickLe a b then .panic 3
  else if tickGt a h.last then .ok false
  else if tickLe a (tickSub h.last window) then .ok true
  else
    let e := if tickLt b h.last then b else h.last
    if tickSub e a + 1 ≥ 4294967296 then .panic 4 else
    let len := tickSub e a + 1
    -- `1u64.checked_shl(len).map_or(u64::MAX, |bit| bit - 1)`
    let range : BitVec 64 := if len < 64 then ((1 : BitVec 64) <<< len) - 1 else BitVec.allOnes 64
    let offset := tickSub h.last e
    if offset ≥ 64 then .panic 5 else
    .ok ((h.mask &&& (range <<< offset)) != 0)

end ConfirmHistory
end Replicon
