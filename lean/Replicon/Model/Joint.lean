import Replicon.Model.Server
import Replicon.Model.Events
/-
The server as a whole, for statements about histories: the replication model
(`Model/Server.lean`) and the event buffer (`Model/Events.lean`) driven by one operation stream,
with a ghost record (`sent`) of the ticks of the update messages sent to every client in its
current session.  `frame` is the composition the driver performs on every server frame: the
replication run, then — chained after it, as in `ServerEventPlugin` — the event systems, which
see the clients' update ticks as the run left them.
-/
namespace Replicon.Srv

/-- the server state right before `send_replication` in a frame of a running server -/
def preRun (s : Server) (ticked : Bool) (ms : Nat) : Server :=
  let ms := s.frameMs ms
  let acc := s.timerAcc + ms
  let fired := decide (acc ≥ s.timeout) && decide (s.timeout > 0)
  let s := { s with elapsed := s.elapsed + ms, timerAcc := if fired then acc % s.timeout else acc, timeStarted := true }
  let s := { s with lastRunning := true }
  let s := { s with clients := s.clients.map fun (c, cl) => (c, Cli.processAcks cl) }
  let s := if fired then s.cleanupAcks (s.elapsed - s.timeout) else s
  let s := if ticked then { s with tick := s.tick + 1, tickChanged := true } else s
  s.bufferRemovals

end Replicon.Srv

namespace Replicon.Joint
open Replicon Replicon.Srv Replicon.Evt

structure St where
  srv : Server := {}
  ev : SrvEv := {}
  /-- events emitted by the game since the last frame -/
  pending : List Emitted := []
  /-- ghost: ticks of the update messages sent to each client in its current session, oldest first -/
  sent : Nat → List Nat := fun _ => []
  /-- ghost: the events re-emitted for the local game so far (`resend_locally`), in order -/
  localLog : List Nat := []

inductive Op where
  | spawn (e : Nat) (marked : Bool) (comps : List (Nat × Nat))
  | despawn (e : Nat)
  | insert (e k v : Nat)
  | mutate (e k v : Nat)
  | remove (e k : Nat)
  | mark (e : Nat) (on : Bool)
  | vis (c e : Nat) (visible : Bool)
  | map (c e p : Nat)
  | connect (c : Nat) (authorized : Bool)
  | authorize (c : Nat)
  | disconnect (c : Nat)
  | stop
  | start
  | ack (c : Nat) (idxs : List Nat)
  | emit (em : Emitted)
  | frame (ticked : Bool) (ms : Nat) (parts : Nat → List (List Nat))

def peersOf (s : Server) : List Peer :=
  s.clients.map fun x => { id := x.1, authorized := x.2.authorized, updateTick := x.2.updateTick }

def lastOr0 (l : List Nat) : Nat := l.getLast?.getD 0

/-- the tick of the update message `send_replication` sends client `c` in a run from `s`, if any -/
def updOf (s : Server) (c : Nat) : Option Nat :=
  match aget s.clients c with
  | some cl => if cl.authorized then ((runClient s (s.now + 1) cl).2.update).map (·.tick) else none
  | none => none

/-- One frame: the replication run, then (chained after it) the event systems, which see the
clients' update ticks as the run left them. -/
def frame (st : St) (ticked : Bool) (ms : Nat) (parts : Nat → List (List Nat)) : St × List (Nat × ClientOut) × List Out :=
  let r := st.srv.frameBegin ticked ms
  let justStopped := st.srv.lastRunning && !st.srv.running
  let ev0 := if justStopped then st.ev.clear else st.ev
  let e := ev0.frame st.srv.running r.2.1 true st.pending (peersOf r.1)
  let s2 := r.1.frameEnd r.2.1 parts
  let sent' : Nat → List Nat :=
    if !st.srv.running then (if justStopped then fun _ => [] else st.sent)
    else if r.2.1 then
      fun c => match updOf (preRun st.srv ticked ms) c with
        | some t => st.sent c ++ [t]
        | none => st.sent c
    else st.sent
  ({ srv := s2, ev := e.1, pending := [], sent := sent', localLog := st.localLog ++ e.2.2 }, r.2.2, e.2.1)

def step (st : St) : Op → St × List (Nat × ClientOut) × List Out
  | .spawn e m cs => ({ st with srv := st.srv.spawn e m cs }, [], [])
  | .despawn e => ({ st with srv := st.srv.despawn e }, [], [])
  | .insert e k v => ({ st with srv := st.srv.insert e k v }, [], [])
  | .mutate e k v => ({ st with srv := st.srv.mutate e k v }, [], [])
  | .remove e k => ({ st with srv := st.srv.remove e k }, [], [])
  | .mark e on => ({ st with srv := st.srv.mark e on }, [], [])
  | .vis c e b => ({ st with srv := st.srv.setVisibility c e b }, [], [])
  | .map c e p => ({ st with srv := st.srv.addMapping c e p }, [], [])
  | .connect c a =>
    ({ st with srv := st.srv.connect c a, ev := st.ev.exclude c,
               sent := fun x => if x = c then [] else st.sent x }, [], [])
  | .authorize c => ({ st with srv := st.srv.authorize c }, [], [])
  | .disconnect c => ({ st with srv := st.srv.disconnect c, sent := fun x => if x = c then [] else st.sent x }, [], [])
  | .stop => ({ st with srv := st.srv.stop, sent := fun _ => [] }, [], [])
  | .start => ({ st with srv := st.srv.start }, [], [])
  | .ack c idxs => ({ st with srv := st.srv.receiveAck c idxs }, [], [])
  | .emit em => ({ st with pending := st.pending ++ [em] }, [], [])
  | .frame t ms parts => frame st t ms parts

/-- run a history; returns the final state and everything that was sent, frame by frame -/
def run (st : St) : List Op → St × List (List (Nat × ClientOut) × List Out)
  | [] => (st, [])
  | op :: ops =>
    let r := step st op
    let t := run r.1 ops
    (t.1, (r.2.1, r.2.2) :: t.2)

end Replicon.Joint
