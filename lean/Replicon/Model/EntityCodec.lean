import Replicon.Model.Varint
/-
`src/shared/entity_serde.rs`: `serialize_entity` / `deserialize_entity`, and Bevy's
`Entity::try_from_bits` (bevy_ecs 0.16.1: high word non-zero, kind bit 31 clear).
-/
namespace Replicon

/-- `serialize_entity` for `Entity { index := idx, generation := gen }`. -/
def encodeEntity (idx gen : Nat) : List Nat :=
  if gen > 1 then encodeU64 (idx * 2 + 1) ++ encodeU32 (gen - 1)
  else encodeU64 (idx * 2)

/-- `Entity::try_from_bits`: `Ok` iff the high word is non-zero and its kind bit is clear.
Returns `(index, generation)`. -/
def entityTryFromBits (bits : Nat) : Option (Nat × Nat) :=
  if bits / 4294967296 % 4294967296 = 0 ∨ bits / 4294967296 % 4294967296 ≥ 2147483648 then none
  else some (bits % 4294967296, bits / 4294967296 % 4294967296)

/-- The `generation` part of `deserialize_entity`:
`if has_generation { from_buf::<u32>(message)?.checked_add(1).ok_or(..)? } else { 1 }`. -/
def decodeGeneration (flagged : Nat) (r1 : List Nat) : Res (Nat × List Nat) :=
  if flagged % 2 = 1 then
    match decodeU32 r1 with
    | .ok (g, r2) => if g + 1 < 4294967296 then .ok (g + 1, r2) else .err
    | .err => .err
    | .panic s => .panic s
  else .ok (1, r1)

/-- `let bits = ((generation as u64) << 32) | (flagged_index >> 1); Entity::try_from_bits(bits)?`. -/
def entityFromParts (gen flagged : Nat) (r : List Nat) : Res ((Nat × Nat) × List Nat) :=
  match entityTryFromBits ((4294967296 * gen) ||| (flagged / 2)) with
  | some e => .ok (e, r)
  | none => .err

/-- `deserialize_entity`.  Returns `((index, generation), remaining bytes)`. -/
def decodeEntity (bs : List Nat) : Res ((Nat × Nat) × List Nat) :=
  (decodeU64 bs).bind fun fr =>
    (decodeGeneration fr.1 fr.2).bind fun gr => entityFromParts gr.1 fr.1 gr.2

/-- What Bevy can hold: 32-bit index, generation in `[1, 2^31)`. -/
def ValidEntity (idx gen : Nat) : Prop := idx < 4294967296 ∧ 1 ≤ gen ∧ gen < 2147483648

instance (i g : Nat) : Decidable (ValidEntity i g) := by unfold ValidEntity; infer_instance

end Replicon
