import Replicon.Model.EntityCodec
/-
Wire format of replication messages, as written by `Updates::send` / `Mutations::send`
(src/server/replication_messages) and read by `apply_update_message` / `buffer_mutate_message` /
`apply_mutations` (src/client.rs).  Component payloads are those of the verification harness's
component types (`u32` newtypes, an `Entity` newtype serialized by Bevy's serde impl as `u64`
bits, a `Vec<u8>` blob); `fns` ids are registration order.
-/
namespace Replicon.Wire

abbrev Ent := Nat × Nat     -- (index, generation)

def Ent.bits (e : Ent) : Nat := 4294967296 * e.2 + e.1

/-- Payload kinds of the harness's replicated components, by `FnsId`. -/
inductive Kind where
  | u32        -- `struct X(u32)`
  | entity     -- `struct R(Entity)`: postcard varint of `Entity::to_bits()`
  | blob       -- `struct L(Vec<u8>)`
deriving Repr, DecidableEq

/-- Registration order in the harness: A, B, O, P (u32), R (entity), L (blob). -/
def kindOf (fns : Nat) : Option Kind :=
  match fns with
  | 0 | 1 | 2 | 3 => some .u32
  | 4 => some .entity
  | 5 => some .blob
  | _ => none

/-- One component record: `fns_id` and a canonical value (number; entity bits; blob length). -/
structure Comp where
  fns : Nat
  value : Nat
deriving Repr, DecidableEq

/-- `fns_id` (varint `usize`) followed by the payload. -/
def decodeComp (bs : List Nat) : Res (Comp × List Nat) :=
  (decodeU64 bs).bind fun (fns, r) =>
    match kindOf fns with
    | none => .err
    | some .u32 => (decodeU32 r).bind fun (v, r') => .ok ({ fns := fns, value := v }, r')
    | some .entity => (decodeU64 r).bind fun (v, r') => .ok ({ fns := fns, value := v }, r')
    | some .blob => (decodeU64 r).bind fun (len, r') =>
        if r'.length < len then .err else .ok ({ fns := fns, value := len }, r'.drop len)

/-- `n` records decoded by `f` (`ArrayKind::Sized` after its length was read). -/
def decodeN {α : Type} (f : List Nat → Res (α × List Nat)) : Nat → List Nat → Res (List α × List Nat)
  | 0, bs => .ok ([], bs)
  | n + 1, bs => (f bs).bind fun (a, r) => (decodeN f n r).bind fun (as, r') => .ok (a :: as, r')

/-- Records until the input is exhausted (`ArrayKind::Dynamic`); `fuel` bounds the loop. -/
def decodeAll {α : Type} (f : List Nat → Res (α × List Nat)) : Nat → List Nat → Res (List α)
  | _, [] => .ok []
  | 0, _ :: _ => .err
  | fuel + 1, bs => (f bs).bind fun (a, r) =>
      if r.length < bs.length then (decodeAll f fuel r).bind fun as => .ok (a :: as) else .err

structure EntComps where
  ent : Ent
  comps : List Comp
deriving Repr, DecidableEq

structure EntRemovals where
  ent : Ent
  fns : List Nat
deriving Repr, DecidableEq

structure UpdateMsg where
  tick : Nat
  mappings : List (Ent × Ent) := []
  despawns : List Ent := []
  removals : List EntRemovals := []
  changes : List EntComps := []
deriving Repr, DecidableEq

def decodeMapping (bs : List Nat) : Res ((Ent × Ent) × List Nat) :=
  (decodeEntity bs).bind fun (s, r) => (decodeEntity r).bind fun (c, r') => .ok ((s, c), r')

def decodeRemovals (bs : List Nat) : Res (EntRemovals × List Nat) :=
  (decodeEntity bs).bind fun (e, r) => (decodeU64 r).bind fun (n, r') =>
    (decodeN decodeU64 n r').bind fun (ids, r'') => .ok ({ ent := e, fns := ids }, r'')

/-- CHANGES record: entity, `components_len`, that many components. -/
def decodeChanges (bs : List Nat) : Res (EntComps × List Nat) :=
  (decodeEntity bs).bind fun (e, r) => (decodeU64 r).bind fun (n, r') =>
    (decodeN decodeComp n r').bind fun (cs, r'') => .ok ({ ent := e, comps := cs }, r'')

/-- A section: sized unless it is the last one present. -/
def decodeSection {α : Type} (f : List Nat → Res (α × List Nat)) (last : Bool) (bs : List Nat) :
    Res (List α × List Nat) :=
  if last then (decodeAll f bs.length bs).bind fun as => .ok (as, [])
  else (decodeU64 bs).bind fun (n, r) => decodeN f n r

/-- `apply_update_message`'s reading order: flags byte, tick, then MAPPINGS, DESPAWNS, REMOVALS,
CHANGES for the flags that are set. -/
def decodeUpdate (bs : List Nat) : Res UpdateMsg :=
  match bs with
  | [] => .err
  | flags :: r0 =>
    if flags = 0 ∨ flags ≥ 16 then .err else
    (decodeU32 r0).bind fun (tick, r1) =>
      let hasM := flags % 2 = 1
      let hasD := flags / 2 % 2 = 1
      let hasR := flags / 4 % 2 = 1
      let hasC := flags / 8 % 2 = 1
      let lastM := hasM && !hasD && !hasR && !hasC
      let lastD := hasD && !hasR && !hasC
      let lastR := hasR && !hasC
      (if hasM then decodeSection decodeMapping lastM r1 else .ok ([], r1)).bind fun (ms, r2) =>
      (if hasD then decodeSection decodeEntity lastD r2 else .ok ([], r2)).bind fun (ds, r3) =>
      (if hasR then decodeSection decodeRemovals lastR r3 else .ok ([], r3)).bind fun (rs, r4) =>
      (if hasC then decodeSection decodeChanges true r4 else .ok ([], r4)).bind fun (cs, r5) =>
      if r5.isEmpty then .ok { tick := tick, mappings := ms, despawns := ds, removals := rs, changes := cs }
      else .err

structure MutateMsg where
  updateTick : Nat
  tick : Nat
  count : Nat          -- messages of this tick (1 unless tracking is on)
  index : Nat          -- `MutateIndex` (u16, fixint little endian)
  ents : List EntComps
  /-- encoded size of each entity record (entity + data size + data), for the C10 size oracle -/
  sizes : List Nat
deriving Repr, DecidableEq

/-- One entity of a mutate message: entity, `data_size`, components filling exactly that size. -/
def decodeMutEnt (bs : List Nat) : Res ((EntComps × Nat) × List Nat) :=
  (decodeEntity bs).bind fun (e, r) => (decodeU64 r).bind fun (size, r') =>
    if r'.length < size then .err else
    (decodeAll decodeComp size (r'.take size)).bind fun cs =>
      .ok (({ ent := e, comps := cs }, bs.length - (r'.length - size)), r'.drop size)

def decodeMutate (track : Bool) (bs : List Nat) : Res MutateMsg :=
  (decodeU32 bs).bind fun (ut, r1) => (decodeU32 r1).bind fun (t, r2) =>
  (if track then decodeU64 r2 else .ok (1, r2)).bind fun (cnt, r3) =>
    match r3 with
    | lo :: hi :: r4 =>
      (decodeAll decodeMutEnt r4.length r4).bind fun es =>
        .ok { updateTick := ut, tick := t, count := cnt, index := lo + 256 * hi,
              ents := es.map (·.1), sizes := es.map (·.2) }
    | _ => .err

/-- Size of the mutate message header (`update_tick` + `server_tick` + count + index). -/
def mutateHeaderSize (bs : List Nat) (m : MutateMsg) : Nat := bs.length - m.sizes.sum

/-- Acknowledgement message: a sequence of `MutateIndex` values. -/
def decodeAcks : List Nat → List Nat
  | lo :: hi :: rest => (lo + 256 * hi) :: decodeAcks rest
  | _ => []

end Replicon.Wire
