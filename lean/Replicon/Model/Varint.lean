import Replicon.Model.Basic
/-
postcard varints as used by `postcard_utils::{to_extend_mut, from_buf}` for `u16/u32/u64/usize`.

Rust: `postcard::varint::varint_u32/u64` (encoder), `Deserializer::try_take_varint_u32/u64`
(decoder, postcard 1.1.3).  The decoder accepts non-canonical encodings (`80 00` is 0) and
rejects (a) running out of bytes, (b) a continuation bit on the last permitted byte,
(c) a last permitted byte larger than `max_of_last_byte`.
-/
namespace Replicon

/-- The encoder loop `for i in 0..varint_max::<T>()` of `postcard::varint::varint_uW`:
`fuel` = iterations left.  For `v < 2^w` the loop always returns from inside (the trailing
`debug_assert_eq!(value, 0)` is never reached with a non-zero value). -/
def encodeVarintLoop : Nat → Nat → List Nat
  | 0, _ => []
  | fuel + 1, v => if v < 128 then [v] else (v % 128 + 128) :: encodeVarintLoop fuel (v / 128)

/-- `varint_u16`. -/
def encodeU16 (v : Nat) : List Nat := encodeVarintLoop 3 v
/-- `varint_u32`. -/
def encodeU32 (v : Nat) : List Nat := encodeVarintLoop 5 v
/-- `varint_u64` / `varint_usize`. -/
def encodeU64 (v : Nat) : List Nat := encodeVarintLoop 10 v

/-- The `for i in 0..varint_max` loop.  `fuel` = iterations left, `mul = 2^(7*i)`,
`acc` = `out`.  `out |= carry << (7*i)` is an addition because the bit ranges are disjoint;
the truncation of `carry << 28` in the `u32` case is never observable because every path
on which bits would be lost ends in `DeserializeBadVarint` (`lastMax` check / loop exit). -/
def decodeVarintLoop (lastMax : Nat) : Nat → Nat → Nat → List Nat → Res (Nat × List Nat)
  | 0, _, _, _ => .err
  | _ + 1, _, _, [] => .err
  | fuel + 1, mul, acc, b :: bs =>
    let acc' := acc + (b % 128) * mul
    if b % 256 < 128 then
      if fuel = 0 ∧ b % 256 > lastMax then .err else .ok (acc', bs)
    else decodeVarintLoop lastMax fuel (mul * 128) acc' bs

/-- `try_take_varint_u16`: 3 bytes, last byte ≤ 3. -/
def decodeU16 (bs : List Nat) : Res (Nat × List Nat) := decodeVarintLoop 3 3 1 0 bs
/-- `try_take_varint_u32`: 5 bytes, last byte ≤ 15. -/
def decodeU32 (bs : List Nat) : Res (Nat × List Nat) := decodeVarintLoop 15 5 1 0 bs
/-- `try_take_varint_u64` (also `usize` on 64-bit targets): 10 bytes, last byte ≤ 1. -/
def decodeU64 (bs : List Nat) : Res (Nat × List Nat) := decodeVarintLoop 1 10 1 0 bs

end Replicon
