import Replicon.Model.Visibility
/-
The server half of the replication protocol: `src/server.rs` (`buffer_despawns`,
`buffer_removals`, `send_replication` = `collect_mappings`, `collect_despawns`,
`collect_removals`, `collect_changes`, `send_messages`, `receive_acks`, `reset`),
`src/server/removal_buffer.rs`, `src/shared/replication/client_ticks.rs`, as of the repaired tree.

Abstractions (stated in DESIGN.md §9): entities and components are numbers; Bevy's change
detection is one logical clock `now` (every world operation stamps `now`; a server frame uses
`now + 1` as the `this_run` of its systems and leaves `now + 2`); iteration orders (archetypes,
hash maps) are not modelled — sections of a message are compared as multisets.
-/
namespace Replicon.Srv
open Replicon

/-- a component instance with Bevy's `ComponentTicks` -/
structure Comp where
  val : Nat
  added : Nat
  changed : Nat
deriving Repr, DecidableEq, Inhabited

structure SEnt where
  /-- `Some(added tick)` when the entity carries `Replicated` -/
  marker : Option Nat
  comps : List (Nat × Comp)
deriving Repr, DecidableEq, Inhabited

/-- `SendRate` -/
inductive Rate where
  | every | once | periodic (n : Nat)
deriving Repr, DecidableEq

/-- `SendRate::send_mutations(server_tick)` -/
def Rate.sendMutations (r : Rate) (tick : Nat) : Bool :=
  match r with
  | .every => true
  | .once => false
  | .periodic n => tick % n == 0

/-- an entity record of a message: entity and `(component, value)` pairs -/
structure MsgEnt where
  ent : Nat
  comps : List (Nat × Nat)
deriving Repr, DecidableEq, Inhabited

/-- the update message of one tick for one client (sections in wire order) -/
structure Update where
  tick : Nat
  mappings : List (Nat × Nat) := []
  despawns : List Nat := []
  removals : List (Nat × List Nat) := []
  changes : List MsgEnt := []
deriving Repr, DecidableEq, Inhabited

def Update.isEmpty (u : Update) : Bool :=
  u.mappings.isEmpty && u.despawns.isEmpty && u.removals.isEmpty && u.changes.isEmpty

/-- `MutateInfo` under its `MutateIndex` -/
structure Inflight where
  index : Nat
  tick : Nat          -- change tick (`this_run`) of the replication run
  time : Nat          -- `Time::elapsed` in ms when it was registered
  ents : List Nat
deriving Repr, DecidableEq, Inhabited

/-- per-client replication state: `ClientTicks`, `ClientVisibility`, `ClientEntityMap` -/
structure Cli where
  authorized : Bool := false
  mutTick : List (Nat × Nat) := []
  updateTick : Nat := 0
  inflight : List Inflight := []
  nextIdx : Nat := 0
  vis : List (Nat × Vis.Cell) := []
  mappings : List (Nat × Nat) := []
  /-- acknowledgement indices received and not yet processed (`receive_acks` runs next frame) -/
  pendingAcks : List Nat := []
deriving Repr, Inhabited

structure Server where
  white : Bool := false
  /-- replicated components in registration order, with their send rates -/
  rates : List (Nat × Rate) := []
  running : Bool := false
  now : Nat := 1
  lastRun : Nat := 0
  tick : Nat := 0
  /-- `ServerTick` counts as changed (incremented, or reset by a stop/start) -/
  tickChanged : Bool := true
  /-- the `Local<bool>` of the run condition `server_just_stopped`: `is_running` as of the last frame -/
  lastRunning : Bool := false
  world : List (Nat × SEnt) := []
  despawnBuf : List Nat := []
  removalBuf : List (Nat × List Nat) := []
  /-- component removals of the current frame, not yet seen by `buffer_removals` -/
  pendingRem : List (Nat × Nat) := []
  /-- removal events of the previous frame that `buffer_removals` did not read (it only runs
  while the server is running; Bevy keeps removal events for two frames) -/
  pendingRemOld : List (Nat × Nat) := []
  clients : List (Nat × Cli) := []
  /-- `Time::elapsed` in ms and the repeating timer of `cleanup_acks.run_if(on_timer(timeout))` -/
  elapsed : Nat := 0
  timerAcc : Nat := 0
  timeout : Nat := 400
  /-- Bevy's `Time` has no delta in the first update of an app (`update_with_instant` only
  records the instant); from the second update on a frame's delta is the time step -/
  timeStarted : Bool := false
  /-- Schedule detail: does the `reset` system run before the run condition of
  `send_replication` is evaluated in the frame after a stop?  The plugin does not order the two;
  Bevy's topological sort decides, depending on which other systems are present (observed: yes
  with the client plugins in the app, no without them). -/
  resetBeforeCondition : Bool := true
deriving Repr, Inhabited

/-! ### small association-list helpers -/

def aget {α : Type} (l : List (Nat × α)) (k : Nat) : Option α := l.lookup k
def aset {α : Type} (l : List (Nat × α)) (k : Nat) (v : α) : List (Nat × α) := (k, v) :: l.filter (·.1 ≠ k)
def adel {α : Type} (l : List (Nat × α)) (k : Nat) : List (Nat × α) := l.filter (·.1 ≠ k)

def cell (c : Cli) (e : Nat) : Vis.Cell := (aget c.vis e).getD {}
def setCell (c : Cli) (e : Nat) (x : Vis.Cell) : Cli :=
  { c with vis := if x = {} then adel c.vis e else aset c.vis e x }

/-! ### world operations (between frames) -/

def Server.spawn (s : Server) (e : Nat) (marked : Bool) (comps : List (Nat × Nat)) : Server :=
  let ent : SEnt :=
    { marker := if marked then some s.now else none,
      comps := comps.map fun (k, v) => (k, ({ val := v, added := s.now, changed := s.now } : Comp)) }
  { s with world := aset s.world e ent }

/-- `OnRemove<Replicated>` observer `buffer_despawns` (after the F3 repair) -/
def Server.leaveReplication (s : Server) (e : Nat) : Server :=
  if s.running then { s with despawnBuf := s.despawnBuf ++ [e], removalBuf := adel s.removalBuf e } else s

def Server.despawn (s : Server) (e : Nat) : Server :=
  match aget s.world e with
  | none => s
  | some ent =>
    let s := if ent.marker.isSome then s.leaveReplication e else s
    { s with world := adel s.world e }

def Server.insert (s : Server) (e k v : Nat) : Server :=
  match aget s.world e with
  | none => s
  | some ent =>
    let c : Comp := match aget ent.comps k with
      | some old => { old with val := v, changed := s.now }
      | none => { val := v, added := s.now, changed := s.now }
    { s with world := aset s.world e { ent with comps := aset ent.comps k c } }

def Server.mutate (s : Server) (e k v : Nat) : Server :=
  match aget s.world e with
  | none => s
  | some ent =>
    match aget ent.comps k with
    | none => s
    | some old => { s with world := aset s.world e { ent with comps := aset ent.comps k { old with val := v, changed := s.now } } }

def Server.remove (s : Server) (e k : Nat) : Server :=
  match aget s.world e with
  | none => s
  | some ent =>
    if (aget ent.comps k).isNone then s else
    { s with world := aset s.world e { ent with comps := adel ent.comps k }, pendingRem := s.pendingRem ++ [(e, k)] }

def Server.mark (s : Server) (e : Nat) (on : Bool) : Server :=
  match aget s.world e with
  | none => s
  | some ent =>
    if on then
      if ent.marker.isSome then s else { s with world := aset s.world e { ent with marker := some s.now } }
    else
      if ent.marker.isNone then s else
      let s := s.leaveReplication e
      { s with world := aset s.world e { ent with marker := none } }

def Server.updClient (s : Server) (c : Nat) (f : Cli → Cli) : Server :=
  match aget s.clients c with
  | none => s
  | some cl => { s with clients := aset s.clients c (f cl) }

def Server.setVisibility (s : Server) (c e : Nat) (visible : Bool) : Server :=
  s.updClient c fun cl =>
    setCell cl e (Vis.step s.white (cell cl e) (if visible then .show_ else .hide)).1

def Server.addMapping (s : Server) (c e p : Nat) : Server :=
  s.updClient c fun cl => { cl with mappings := cl.mappings ++ [(e, p)] }

def Server.connect (s : Server) (c : Nat) (authorized : Bool) : Server :=
  { s with clients := aset s.clients c { authorized := authorized } }

/-- inserting `AuthorizedClient` brings fresh `ClientTicks`, `ClientVisibility`, `ClientEntityMap` -/
def Server.authorize (s : Server) (c : Nat) : Server :=
  s.updClient c fun cl => if cl.authorized then cl else { authorized := true }

def Server.disconnect (s : Server) (c : Nat) : Server := { s with clients := adel s.clients c }

/-- `set_running(false)` followed by the `reset` system of the next frame (after the F16 repair) -/
def Server.stop (s : Server) : Server :=
  { s with running := false, clients := [] }

/-- the `reset` system (after the F16 repair), in the first frame after the stop -/
def Server.reset (s : Server) : Server :=
  { s with tick := 0, tickChanged := true, clients := [], despawnBuf := [], removalBuf := [] }

def Server.start (s : Server) : Server := { s with running := true }

def Server.receiveAck (s : Server) (c : Nat) (idxs : List Nat) : Server :=
  s.updClient c fun cl => { cl with pendingAcks := cl.pendingAcks ++ idxs }

/-! ### `receive_acks` / `ClientTicks::ack_mutate_message` -/

def ackOne (cl : Cli) (idx : Nat) : Cli :=
  match cl.inflight.find? (·.index = idx) with
  | none => cl
  | some info =>
    let mt := info.ents.foldl (fun mt e =>
      match aget mt e with
      | some t => if t ≤ info.tick then aset mt e info.tick else mt
      | none => mt) cl.mutTick
    { cl with mutTick := mt, inflight := cl.inflight.filter (·.index ≠ idx) }

def Cli.processAcks (cl : Cli) : Cli :=
  if !cl.authorized then { cl with pendingAcks := [] }
  else { (cl.pendingAcks.foldl ackOne cl) with pendingAcks := [] }

/-! ### one replication run for one client -/

/-- what `collect_changes` decides for one entity and one client -/
structure EntOut where
  toUpdate : Option MsgEnt := none
  toMutate : Option MsgEnt := none
  bump : Bool := false
deriving Repr, Inhabited

/-- how one component of a visible entity travels to one client in this run -/
inductive Path where
  | insertion | mutation | nothing
deriving Repr, DecidableEq

/-- the per-component decision of `collect_changes`: `known` is the entity's tick for this
client, `fresh` = the marker was added in this tick window or the entity just became visible -/
def compPath (s : Server) (known : Option Nat) (fresh : Bool) (r : Rate) (c : Comp) : Path :=
  match known with
  | some t =>
    if !fresh && !decide (c.added > s.lastRun) then
      (if decide (c.changed > t) && r.sendMutations s.tick then .mutation else .nothing)
    else .insertion
  | none => .insertion

/-- the replicated components the entity carries, in the order of the replicated archetype
(= rule registration order) -/
def present (s : Server) (ent : SEnt) : List (Nat × Rate × Comp) :=
  s.rates.filterMap fun (k, r) => (aget ent.comps k).map fun c => (k, r, c)

def visState (s : Server) (cl : Cli) (e : Nat) : Vis.State :=
  if s.white then Vis.stateW (cell cl e) else Vis.stateB (cell cl e)

def collectEntity (s : Server) (thisRun : Nat) (cl : Cli) (e : Nat) (ent : SEnt) (markerAdded : Nat) : EntOut :=
  let _ := thisRun
  let st := visState s cl e
  if st = Vis.State.hidden then {} else
  let isNewMarker := decide (markerAdded > s.lastRun)
  let known := aget cl.mutTick e
  let fresh := isNewMarker || decide (st = Vis.State.gained)
  let pres := present s ent
  let insertions := pres.filterMap fun (k, r, c) => if compPath s known fresh r c = .insertion then some (k, c.val) else none
  let mutations := pres.filterMap fun (k, r, c) => if compPath s known fresh r c = .mutation then some (k, c.val) else none
  let newEntity := fresh || known.isNone
  let hasRemovals := (aget s.removalBuf e).isSome
  if newEntity || !insertions.isEmpty || hasRemovals then
    if insertions.isEmpty && mutations.isEmpty && !newEntity then { bump := true }
    else { toUpdate := some { ent := e, comps := insertions ++ mutations }, bump := true }
  else if !mutations.isEmpty then { toMutate := some { ent := e, comps := mutations } }
  else {}

structure ClientOut where
  update : Option Update
  mutEnts : List MsgEnt
deriving Repr, Inhabited

/-- `collect_despawns` for one client: the despawn buffer (despawn if visible, forget the
entity), then the entities that lost visibility (`drain_lost`). -/
def despawnPhase (s : Server) (cl : Cli) : Cli × List Nat :=
  let r := s.despawnBuf.foldl (fun (acc : Cli × List Nat) e =>
    let c0 := cell acc.1 e
    let ds := if Vis.isVisible s.white c0 then acc.2 ++ [e] else acc.2
    let cl1 := setCell acc.1 e (Vis.removeDespawned s.white c0)
    ({ cl1 with mutTick := adel cl1.mutTick e }, ds)) (cl, [])
  let lost := (r.1.vis.filter fun (_, c0) => Vis.lost s.white c0).map (·.1)
  let cl2 := { r.1 with mutTick := lost.foldl adel r.1.mutTick,
                        vis := r.1.vis.map fun (e, c0) => (e, Vis.drainLost s.white c0) }
  (cl2, r.2 ++ lost)

/-- the replicated entities with what `collect_changes` decides for each (the decision for an
entity reads only that entity's tick and visibility cell, so it does not depend on the order) -/
def entityOuts (s : Server) (thisRun : Nat) (cl : Cli) : List (Nat × EntOut) :=
  s.world.filterMap fun (e, ent) =>
    match ent.marker with
    | none => none
    | some madded => some (e, collectEntity s thisRun cl e ent madded)

/-- `collect_mappings` … `collect_changes` for one authorized client; returns the client's new
state (before `Mutations::send` registers its messages and `visibility.update()`). -/
def runClient (s : Server) (thisRun : Nat) (cl : Cli) : Cli × ClientOut :=
  let mappings := cl.mappings
  let (cl1, despawns) := despawnPhase s { cl with mappings := [] }
  let removals := s.removalBuf.filter fun (e, _) => Vis.isVisible s.white (cell cl1 e)
  let outs := entityOuts s thisRun cl1
  let changes := outs.filterMap fun (_, o) => o.toUpdate
  let mutEnts := outs.filterMap fun (_, o) => o.toMutate
  let bumped := (outs.filter fun (_, o) => o.bump).map (·.1)
  let cl2 := { cl1 with mutTick := bumped.foldl (fun mt e => aset mt e thisRun) cl1.mutTick }
  let u : Update := { tick := s.tick, mappings := mappings, despawns := despawns, removals := removals, changes := changes }
  if u.isEmpty then (cl2, { update := none, mutEnts := mutEnts })
  else ({ cl2 with updateTick := s.tick }, { update := some u, mutEnts := mutEnts })

/-- `visibility.update()` for every entry of the client -/
def Cli.visUpdate (white : Bool) (cl : Cli) : Cli :=
  { cl with vis := (cl.vis.map fun (e, c0) => (e, Vis.update white c0)).filter fun (_, c0) => c0 ≠ {} }

/-- `ClientTicks::register_mutate_message` for the messages `Mutations::send` produced
(`parts`: the entities of each message, in sending order). -/
def Cli.register (cl : Cli) (thisRun time : Nat) (parts : List (List Nat)) : Cli :=
  parts.foldl (fun cl ents =>
    { cl with inflight := { index := cl.nextIdx, tick := thisRun, time := time, ents := ents } ::
                cl.inflight.filter (·.index ≠ cl.nextIdx),
              nextIdx := (cl.nextIdx + 1) % 65536 }) cl

/-- `buffer_removals`: this frame's removal events of entities that are (still) replicated,
merged into the buffer (after the F2 repair). -/
def Server.bufferRemovals (s : Server) : Server :=
  if !s.running then { s with pendingRem := [], pendingRemOld := s.pendingRem } else
  let buf := (s.pendingRemOld ++ s.pendingRem).foldl (fun buf (e, k) =>
    match aget s.world e with
    | some ent =>
      if ent.marker.isSome && s.rates.any (·.1 = k) then
        let old := (aget buf e).getD []
        if old.contains k then buf else aset buf e (old ++ [k])
      else buf
    | none => buf) s.removalBuf
  { s with removalBuf := buf, pendingRem := [], pendingRemOld := [] }

/-- `cleanup_acks`: forget mutate messages registered before `minTime` -/
def Server.cleanupAcks (s : Server) (minTime : Nat) : Server :=
  { s with clients := s.clients.map fun (c, cl) => (c, { cl with inflight := cl.inflight.filter fun i => !(i.time < minTime) }) }

end Replicon.Srv

namespace Replicon.Srv

/-- `send_replication` for every client that has replication state (i.e. is authorized) -/
def Server.runAll (s : Server) : Server × List (Nat × ClientOut) :=
  let thisRun := s.now + 1
  let results := s.clients.map fun (x : Nat × Cli) =>
    if x.2.authorized then
      let r := runClient s thisRun x.2
      (x.1, r.1, some r.2)
    else (x.1, x.2, none)
  ({ s with clients := results.map fun x => (x.1, x.2.1) },
   results.filterMap fun x => x.2.2.map fun o => (x.1, o))

/-- the delta `Time<Virtual>` reports for a frame: nothing in the app's first update, otherwise
the time step clamped to `max_delta` (250 ms) -/
def Server.frameMs (s : Server) (ms : Nat) : Nat := if s.timeStarted then min ms 250 else 0

/-- First half of a server frame (`App::update`): `receive_acks`, the tick (if any),
`buffer_removals`, and — when `ServerTick` changed — `send_replication` up to the point where
`Mutations::send` splits the collected mutations.  Returns what every authorized client is sent. -/
def Server.frameBegin (s : Server) (ticked : Bool) (ms : Nat := 10) : Server × Bool × List (Nat × ClientOut) :=
  -- time advances (`Time<Virtual>` clamps a frame's delta to its `max_delta` of 250 ms); the
  -- `on_timer` condition ticks its timer in every frame
  let ms := s.frameMs ms
  let acc := s.timerAcc + ms
  let fired := decide (acc ≥ s.timeout) && decide (s.timeout > 0)
  let s := { s with elapsed := s.elapsed + ms, timerAcc := if fired then acc % s.timeout else acc, timeStarted := true }
  if !s.running then
    -- the run condition `resource_changed::<ServerTick>` is evaluated (and the change consumed)
    -- in every frame; then, once, the `reset` of a just stopped server
    let justStopped := s.lastRunning
    let s := if justStopped then s.reset else s
    -- In the harness's schedule `reset` precedes the evaluation of the run condition, so the
    -- reset's write to `ServerTick` is consumed in the same frame.  (The two are not ordered
    -- in the plugin: with a different system set-up the first frame after a restart may
    -- replicate at tick 0 instead.  Both behaviours satisfy the properties.)
    ({ s with pendingRem := [], pendingRemOld := s.pendingRem,
              tickChanged := justStopped && !s.resetBeforeCondition, lastRunning := false }, false, [])
  else
    let s := { s with lastRunning := true }
    let s := { s with clients := s.clients.map fun (c, cl) => (c, Cli.processAcks cl) }
    let s := if fired then s.cleanupAcks (s.elapsed - s.timeout) else s
    let s := if ticked then { s with tick := s.tick + 1, tickChanged := true } else s
    let s := s.bufferRemovals
    if !s.tickChanged then (s, false, [])
    else
      let r := s.runAll
      (r.1, true, r.2)

/-- Second half: `Mutations::send` registered `parts c` (entities per message) for client `c`;
`visibility.update()`; the buffers are cleared; the change-detection clock advances. -/
def Server.frameEnd (s : Server) (ran : Bool) (parts : Nat → List (List Nat)) : Server :=
  let time := s.elapsed
  if !ran then { s with now := s.now + 2 }
  else
    let thisRun := s.now + 1
    { s with
      clients := s.clients.map fun (c, cl) =>
        if cl.authorized then (c, (cl.register thisRun time (parts c)).visUpdate s.white) else (c, cl),
      despawnBuf := [], removalBuf := [], lastRun := thisRun, now := s.now + 2, tickChanged := false }

end Replicon.Srv
