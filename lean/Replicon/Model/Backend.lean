import Replicon.Model.Basic
import Replicon.Gen.Consts
/-
`bevy_replicon_example_backend`: `link_conditioner.rs` (the receive-side queue) and `tcp.rs`
(3-byte framing).  Time is a natural number (`Instant` is monotone).
-/
namespace Replicon.Backend

/-- `TimedMessage`. -/
structure TimedMsg where
  ts : Nat
  seq : Nat
  ch : Nat
  payload : List Nat
deriving Repr, DecidableEq

/-- `impl Ord for TimedMessage`: reversed timestamp order, ties broken by reversed sequence
number when the source has the tie-break (`Consts.heapTieBreak = 1`, scraped from `cmp`). -/
def tmCmp (a b : TimedMsg) : Ordering :=
  match compare b.ts a.ts with
  | .eq => if Consts.heapTieBreak = 1 then compare b.seq a.seq else .eq
  | o => o

/-- `LinkConditioner` with `heap` as the bag of queued messages (kept in insertion order only
for bookkeeping; `pop` does not use the position). -/
structure Conditioner where
  items : List TimedMsg := []
  nextSeq : Nat := 0
deriving Repr

/-- `insert(None, timestamp, channel_id, message)` — no `ConditionerConfig`. -/
def Conditioner.insert (c : Conditioner) (now ch : Nat) (payload : List Nat) : Conditioner :=
  { items := c.items ++ [{ ts := now, seq := c.nextSeq, ch := ch, payload := payload }],
    nextSeq := c.nextSeq + 1 }

/-- A `cmp`-greatest element of the bag: what `BinaryHeap::peek`/`pop` return.  When several
elements are `cmp`-equal the real heap may return any of them; this function returns the
first, and `pop_unique` shows the choice is forced whenever the tie-break is present. -/
def best : List TimedMsg → Option TimedMsg
  | [] => none
  | x :: xs =>
    match best xs with
    | none => some x
    | some y => if tmCmp y x = .gt then some y else some x

/-- `pop(now)`. -/
def Conditioner.pop (c : Conditioner) (now : Nat) : Option ((Nat × List Nat) × Conditioner) :=
  match best c.items with
  | some m => if now ≥ m.ts then some ((m.ch, m.payload), { c with items := c.items.erase m }) else none
  | none => none

/-- `while let Some(..) = conditioner.pop(now)` — `fuel` bounds the loop by the queue length. -/
def Conditioner.drain (c : Conditioner) (now : Nat) : Nat → List (Nat × List Nat) × Conditioner
  | 0 => ([], c)
  | fuel + 1 =>
    match c.pop now with
    | some (m, c') => let r := Conditioner.drain c' now fuel; (m :: r.1, r.2)
    | none => ([], c)

/-- One `receive_packets` pass: every message read from the socket is inserted with the same
`now`, then everything that is due is handed to replicon. -/
def Conditioner.receive (c : Conditioner) (now : Nat) (msgs : List (Nat × List Nat)) :
    List (Nat × List Nat) × Conditioner :=
  let c' := msgs.foldl (fun c m => c.insert now m.1 m.2) c
  c'.drain now c'.items.length

/-! ### tcp framing -/

/-- `send_message`: `[channel_id, len_lo, len_hi] ++ message`; `None` when the channel id does
not fit `u8` or the length does not fit `u16` (`try_into()?`). -/
def frame (ch : Nat) (m : List Nat) : Option (List Nat) :=
  if ch < 256 ∧ m.length < 65536 then some (ch :: m.length % 256 :: m.length / 256 :: m) else none

/-- `read_message` on the bytes available in the socket: `none` = `WouldBlock` (header or body
incomplete). -/
def readMessage (buf : List Nat) : Option ((Nat × List Nat) × List Nat) :=
  match buf with
  | ch :: lo :: hi :: rest =>
    let size := lo + 256 * hi
    if rest.length < size then none else some ((ch, rest.take size), rest.drop size)
  | _ => none

/-- The `loop { read_message }` of `receive_packets`; `fuel` bounds it by the buffer length. -/
def readAll : Nat → List Nat → List (Nat × List Nat)
  | 0, _ => []
  | fuel + 1, buf =>
    match readMessage buf with
    | some (m, rest) => m :: readAll fuel rest
    | none => []

/-- What the sender writes for a batch of messages (`send_packets`: one `send_message` per
message, in `drain_sent` order); `none` if some message cannot be framed. -/
def frameAll : List (Nat × List Nat) → Option (List Nat)
  | [] => some []
  | m :: ms =>
    match frame m.1 m.2, frameAll ms with
    | some f, some r => some (f ++ r)
    | _, _ => none

/-- A run of the link: in every receiver pass (time `t`) the receiver finds the bytes of a
batch of whole frames in its socket, parses them and feeds the conditioner.  Returns everything
handed to replicon, in order. -/
def runLink (c : Conditioner) : List (Nat × List (Nat × List Nat)) → Option (List (Nat × List Nat))
  | [] => some []
  | (t, batch) :: rest =>
    match frameAll batch with
    | none => none
    | some buf =>
      let r := c.receive t (readAll buf.length buf)
      match runLink r.2 rest with
      | some o => some (r.1 ++ o)
      | none => none

end Replicon.Backend
