import Replicon.Model.Basic
/-
`src/server/replication_messages/mutations.rs`: `can_pack` and the chunking loop of
`Mutations::send`.  A *chunk* is what must never be split: the mutations of one standalone
entity, or of one whole graph of related entities; it is represented by its encoded size.
-/
namespace Replicon.Packing

/-- `can_pack(message_size, add, mtu)`; the caller guarantees `mtu > 0` (`% 0` panics in Rust). -/
def canPack (msgSize add mtu : Nat) : Bool :=
  decide (msgSize % mtu > 0) && decide (msgSize % mtu + add ≤ mtu)

/-- Loop state of `Mutations::send`: finished messages (newest first), the chunks of the
message being filled (newest first) and its `body_size`. -/
structure St where
  done : List (List Nat) := []
  cur : List Nat := []
  body : Nat := 0
deriving Repr, DecidableEq

/-- One iteration of `for chunk in chunks.iter()`. -/
def step (header max : Nat) (st : St) (m : Nat) : St :=
  if st.body ≠ 0 ∧ canPack (header + st.body) m max = false ∧ canPack (header + m) st.body max = false then
    { done := st.cur.reverse :: st.done, cur := [m], body := m }
  else
    { st with cur := m :: st.cur, body := st.body + m }

/-- After the loop: `if !chunks_range.is_empty() || track_mutate_messages { push }`. -/
def finish (st : St) (track : Bool) : List (List Nat) :=
  (if st.cur ≠ [] ∨ track = true then st.cur.reverse :: st.done else st.done).reverse

/-- The messages (as lists of chunk sizes, in sending order) produced for the chunk sizes
`sizes`, a header of `header` bytes and the client's `max_size`. -/
def split (header max : Nat) (sizes : List Nat) (track : Bool) : List (List Nat) :=
  finish (sizes.foldl (step header max) {}) track

end Replicon.Packing
