import Replicon.Proofs.Events
import Replicon.Proofs.JointLocal
import Replicon.Proofs.JumpEvents
/-
C13 — Singleplayer and listen-server logic sees each local event exactly once.

Model: `Model/Events.lean` — `clientEventPaths` (the run conditions `client_connected` /
`server_or_singleplayer` of `send` and `resend_locally`), `CBuf` with `CBuf.frame` (Bevy's
double-buffered `Events<E>`, replicon's `ClientEventReader` cursor, `reset` on connect, `send`,
draining `resend_locally`), `localDelivery` and `SrvEv.frame` (`ServerEvent::resend_locally_typed`
drains `ToClients<E>` and re-emits iff the local server is among the recipients).

The full statement is FALSE for the code as it is: known finding F13 — an event already sent to
the remote server stays in Bevy's buffer (the cursor only remembers that it was sent), and if
the client is disconnected before the buffer aged out, `resend_locally` drains and handles it a
second time.  `C13_both_paths_F13` is the machine-checked witness; the implementation replays it
(`findings/F13.trace`).  What holds, and is proved: one path per frame, nothing on the network
without a connection, nothing twice on either path over any history, and — under the hypothesis
`NoStale` that F13 violates — never both paths (`C13_one_path_partial`).
-/
namespace Replicon.C13
open Replicon Replicon.Evt

/-- the two systems' run conditions are mutually exclusive -/
theorem C13_conditions_exclusive (hasClient : Bool) (st : Status) :
    ¬((clientEventPaths hasClient st).toWire = true ∧ (clientEventPaths hasClient st).locally = true) := by
  cases hasClient <;> cases st <;> simp [clientEventPaths]

/-- within one frame an event takes at most one path -/
theorem C13_one_path_per_frame (q : CBuf) (aged jc : Bool) (st : Status) :
    (q.frame aged jc st).2.1 = [] ∨ (q.frame aged jc st).2.2 = [] :=
  q.frame_exclusive aged jc st

/-- nothing is put on the network when there is no connection -/
theorem C13_no_network_without_connection (q : CBuf) (aged jc : Bool) (st : Status) (h : st ≠ .connected) :
    (q.frame aged jc st).2.1 = [] :=
  q.frame_no_wire aged jc st h

/-- over any history nothing is re-emitted locally twice, nothing is sent twice -/
theorem C13_never_twice_on_a_path (steps : List CStep) :
    ((({} : CBuf).run steps).1.Pairwise fun x y => x.1 < y.1) ∧
    ((({} : CBuf).run steps).2.Pairwise fun x y => x.1 < y.1) :=
  ⟨CBuf.run_wire_sorted {} steps CBuf.inv_init, CBuf.run_local_sorted {} steps CBuf.inv_init⟩

/-- F13, machine-checked: sent to the remote server in one frame, handled locally in the next
(the session ended in between and Bevy's buffer had not aged out). -/
theorem C13_both_paths_F13 :
    ∃ steps : List CStep, ∃ x, x ∈ (({} : CBuf).run steps).1 ∧ x ∈ (({} : CBuf).run steps).2 :=
  ⟨[.emit 7, .frame false false .connected, .frame false false .disconnected], (0, 7), by decide, by decide⟩

/-- The exactly-one-path statement, under the hypothesis that no already-sent event is still
buffered when a frame runs disconnected (`NoStale`; it holds e.g. when the buffer aged twice in
between).  Missing for the full statement: `NoStale` itself, which F13 shows to be violable. -/
theorem C13_one_path_partial (steps : List CStep) (hs : ({} : CBuf).NoStale steps) :
    ∀ x ∈ (({} : CBuf).run steps).1, ∀ y ∈ (({} : CBuf).run steps).2, x.1 ≠ y.1 :=
  CBuf.run_disjoint {} steps CBuf.inv_init hs

/-- singleplayer (never connected): every event emitted before a frame is handled locally by it,
once, and nothing goes on the wire -/
theorem C13_singleplayer (q : CBuf) (aged : Bool) :
    (q.frame aged false .disconnected).2.1 = [] ∧
    (q.frame aged false .disconnected).2.2 = (if aged then q.age else q).items ∧
    (q.frame aged false .disconnected).1.items = [] := by
  cases aged <;> simp [CBuf.frame, CBuf.drain, CBuf.items]

/-- Towards clients: the local game observes an event exactly when the local server is among
the recipients, once, whether or not the server is running; `ToClients<E>` is drained. -/
theorem C13_local_server_events (s : SrvEv) (running ticked : Bool) (em : List Emitted) (peers : List Peer) :
    (s.frame running ticked true em peers).2.2 = (em.filter fun e => localDelivery e.ev.mode).map (·.ev.id) :=
  frame_locals s running ticked em peers

theorem C13_local_recipient (m : Mode) :
    localDelivery m = true ↔ (m = .broadcast ∨ (∃ c, m = .except (some c)) ∨ m = .direct none) := by
  cases m with
  | broadcast => simp [localDelivery]
  | except c => cases c <;> simp [localDelivery]
  | direct c => cases c <;> simp [localDelivery]

/-- Towards clients, over ALL histories of the joint server model (any interleaving of world
operations, connects, stops and starts, emissions, frames; server running or not — the
singleplayer and listen-server cases): what the local game has observed, followed by what the
next frame will hand it, is exactly the sequence of emitted events whose recipients include
the local server, in emission order — each once, none other. -/
theorem C13_history_local (ops : List Joint.Op) :
    (Joint.run {} ops).1.localLog ++ Joint.localIds (Joint.run {} ops).1.pending = Joint.emittedLocal ops := by
  have := Joint.local_log ops {}
  simpa [Joint.localIds] using this

/-- `C13_history_local` for histories in which the tick also advances by more than one at once
(`Joint.OpJ`, `Proofs/Jump.lean`, `Proofs/JumpEvents.lean`). -/
theorem C13_history_local_with_tick_jumps (ops : List Joint.OpJ) :
    (Joint.runJ {} ops).1.localLog ++ Joint.localIds (Joint.runJ {} ops).1.pending = Joint.emittedLocalJ ops := by
  have := Joint.local_logJ ops {}
  simpa [Joint.localIds] using this

/-- … so once a frame has run after the last emission, the local log is exactly that sequence -/
theorem C13_history_local_after_frame (ops : List Joint.Op) (t : Bool) (ms : Nat) (parts : Nat → List (List Nat)) :
    (Joint.run {} (ops ++ [.frame t ms parts])).1.localLog = Joint.emittedLocal ops := by
  have h := C13_history_local (ops ++ [.frame t ms parts])
  rw [Joint.pending_after_frame t ms parts ops {}, Joint.emittedLocal_append_frame] at h
  simpa [Joint.localIds] using h

/-- Non-vacuity of `NoStale`: the session ends after the buffer aged out — one path only. -/
example :
    let steps : List CStep := [.emit 7, .frame false false .connected, .frame true false .connected,
      .frame true false .connected, .emit 8, .frame false false .disconnected]
    ({} : CBuf).NoStale steps ∧ (({} : CBuf).run steps) = ([(0, 7)], [(1, 8)]) := by
  refine ⟨?_, by decide⟩
  simp [CBuf.NoStale, CBuf.pre, CBuf.frame, CBuf.emit, CBuf.age, CBuf.drain, CBuf.items]

/-- Non-vacuity of the history theorem: emissions in every mode, before the server runs
(singleplayer) and while it runs with a client connected (listen server), one of them
independent: the local game observes 1, 2 (before the start) and 4, 6 — not the event addressed
to client 0 only, nor the one that excludes the local server. -/
example :
    let e (i : Nat) (m : Evt.Mode) (ind : Bool) : Joint.Op := .emit { ev := { id := i, chan := 2, mode := m }, independent := ind }
    let ops : List Joint.Op :=
      [e 1 .broadcast false, e 2 (.direct none) false, e 3 (.direct (some 0)) false, .frame false 10 (fun _ => []),
       .start, .connect 0 true, e 4 (.except (some 0)) false, e 5 (.except none) false, e 6 .broadcast true,
       .frame true 10 (fun _ => [])]
    ((Joint.run {} ops).1.localLog, Joint.emittedLocal ops) = ([1, 2, 4, 6], [1, 2, 4, 6]) := by
  decide

end Replicon.C13
