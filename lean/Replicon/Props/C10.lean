import Replicon.Proofs.Packing
/-
C10 — Mutations of one entity or of related entities are never split across messages.

Model: `Model/Packing.lean` (`can_pack`, the chunking loop of `Mutations::send`).  A chunk is
the unit the property speaks about (one standalone entity's mutations, or one graph of related
entities); the theorems hold for every list of chunk sizes, every header size and every maximum
message size.  Which entities form a graph (`RelatedEntities`, petgraph) is a specification
("connected components of the registered relationship among replicated entities") checked
against the implementation by the trace validation, not modelled.
-/
namespace Replicon.C10
open Replicon Replicon.Packing

/-- The messages are a partition of the chunk list into consecutive runs: no chunk is lost,
duplicated, reordered or divided. -/
theorem C10_partition (header max : Nat) (sizes : List Nat) (track : Bool) :
    (split header max sizes track).flatten = sizes := by
  unfold split
  rw [finish_flatten, fold_all]
  simp [St.all]

theorem sublist_flatten {l₁ l₂ : List (List Nat)} (h : List.Sublist l₁ l₂) :
    List.Sublist l₁.flatten l₂.flatten := by
  induction h with
  | slnil => exact List.Sublist.refl _
  | cons a _ ih =>
    rw [List.flatten_cons]
    exact ih.trans (List.sublist_append_right _ _)
  | cons_cons a _ ih =>
    rw [List.flatten_cons, List.flatten_cons]
    exact List.Sublist.append (List.Sublist.refl _) ih

/-- Whatever subset of one tick's messages reaches the client (in any order the transport
keeps or not — a sub-list is taken for definiteness), it consists of whole chunks: every entity
and every related group is either completely contained or completely absent. -/
theorem C10_atomic (header max : Nat) (sizes : List Nat) (track : Bool) (delivered : List (List Nat))
    (h : List.Sublist delivered (split header max sizes track)) :
    List.Sublist delivered.flatten sizes := by
  have := sublist_flatten h
  rwa [C10_partition] at this

/-- When each entity's (or group's) mutations fit within the maximum message size, no
message exceeds it. -/
theorem C10_size_bound (header max : Nat) (sizes : List Nat) (track : Bool)
    (hfit : ∀ m ∈ sizes, header + m ≤ max) (hh : header ≤ max) :
    ∀ msg ∈ split header max sizes track, header + msg.sum ≤ max := by
  intro msg hmem
  have inv : Fits header max (sizes.foldl (step header max) {}) :=
    fold_fits header max sizes {} hfit ⟨fun _ h => (by cases h), rfl, fun h => absurd rfl h, fun _ => rfl⟩
  obtain ⟨hdone, hbody, hcur, hempty⟩ := inv
  unfold split finish at hmem
  split at hmem
  · simp only [List.mem_reverse, List.mem_cons] at hmem
    rcases hmem with h | h
    · subst h
      rw [List.sum_reverse, ← hbody]
      by_cases hc : (sizes.foldl (step header max) {}).cur = []
      · rw [hempty hc]; omega
      · exact hcur hc
    · exact hdone msg h
  · exact hdone msg (by simpa using hmem)

/-- When everything fits into one message only one is sent. -/
theorem C10_single (header max : Nat) (sizes : List Nat) (track : Bool) (hh : 0 < header)
    (hfit : header + sizes.sum ≤ max) (hne : sizes ≠ []) :
    (split header max sizes track).length = 1 := by
  have inv := fold_one header max hh sizes {} ⟨rfl, rfl, by show header + 0 ≤ max; omega⟩ (by show header + 0 + sizes.sum ≤ max; omega)
  obtain ⟨hdone, _, _⟩ := inv
  have hall := fold_all header max sizes {}
  unfold split finish
  have hcur : (sizes.foldl (step header max) {}).cur ≠ [] := by
    intro hc
    unfold St.all at hall
    rw [hdone, hc] at hall
    simp at hall
    exact hne hall
  rw [if_pos (Or.inl hcur), hdone]
  simp

/-- Non-vacuity: the repository's own `splitting` expectations, evaluated on the model
(header 4 = update tick + server tick + mutate index for small ticks). -/
example : (split 4 1200 [700, 700] false).length = 2 ∧ (split 4 1200 [1300, 700] false).length = 1
    ∧ (split 4 1200 [20, 20] false).length = 1 ∧ (split 4 1200 [] true).length = 1 := by decide

/-- Known finding F22, machine-checked on the packing model (replay: `findings/F22.trace`): with
per-tick tracking the loop reasons with a header of 14 bytes (10 reserved for a counter that
takes 1).  Chunks of 107 and 34 bytes against a maximum of 120: 14 + 107 = 121 leaves a
"dangling" byte, so the second chunk is packed and the message goes out with 5 + 141 = 146
bytes — although by the real header size each chunk fits a message of its own. -/
theorem C10_known_finding_F22_witness :
    split 14 120 [107, 34] true = [[107, 34]] ∧ split 5 120 [107, 34] false = [[107], [34]] := by
  decide

end Replicon.C10
