import Replicon.Proofs.ProtocolHash
/-
C14 — The protocol hash separates compatible from incompatible builds.

Model: `Model/ProtocolHash.lean` (FNV-1a with the constants of the `fnv` crate the repository is
locked to; the byte string fed per registration; `check_protocol`).

What can and cannot be proved: "sequences that differ hash differently" cannot hold for *all*
pairs of sequences for any 64-bit hash (pigeonhole).  The provable core is
 (a) the hash is a function of the registration sequence only (`C14_deterministic`),
 (b) the hasher's input is an injective code of the sequence — order, kind, type, priority and
     independence marks are all in it (`C14_input_injective`),
 (c) FNV-1a separates inputs that differ in one byte (`C14_single_byte`), which covers a change of
     kind and a change of priority within one byte (`C14_kind_change`, `C14_priority_change`).
For the remaining edits (swap, insert, delete, change of type) (b) shows the inputs differ and the
absence of an FNV collision on the pair at hand is *computed* by the driver on every generated
pair (a test, labelled as such in the evidence).
-/
namespace Replicon.C14
open Replicon Replicon.Proto

/-- (a) Same registrations, same hash — nothing else enters the computation. -/
theorem C14_deterministic (rs rs' : List Reg) (h : rs = rs') : protocolHash rs = protocolHash rs' := by
  rw [h]

/-- (b) The bytes fed to the hasher determine the registration sequence. -/
theorem C14_input_injective (rs rs' : List Reg) (hw : ∀ r ∈ rs, r.WF) (hw' : ∀ r ∈ rs', r.WF)
    (h : encodeSeq rs = encodeSeq rs') : rs = rs' :=
  encodeSeq_injective rs rs' hw hw' h

/-- Each FNV-1a step is a bijection on the running hash (the prime is odd). -/
theorem C14_fnv_step_injective (h h' : BitVec 64) (b : Nat) (e : fnvStep h b = fnvStep h' b) : h = h' :=
  fnvStep_inj h h' b e

/-- (c) FNV-1a separates inputs differing in exactly one byte. -/
theorem C14_single_byte (pre suf : List Nat) (b b' : Nat) (h : BitVec 64) (hne : b % 256 ≠ b' % 256) :
    fnv (pre ++ b :: suf) h ≠ fnv (pre ++ b' :: suf) h :=
  fnv_single_byte pre suf b b' h hne

theorem encodeSeq_append (xs ys : List Reg) : encodeSeq (xs ++ ys) = encodeSeq xs ++ encodeSeq ys := by
  unfold encodeSeq; simp

theorem toNat_ne {a b : BitVec 64} (h : a ≠ b) : a.toNat ≠ b.toNat :=
  fun e => h (BitVec.eq_of_toNat_eq e)

/-- Changing the kind of one registration (event ↔ trigger, client ↔ server, bundle ↔ event …)
changes the hash. -/
theorem C14_kind_change (pre suf : List Reg) (k k' : Nat) (name : List Nat)
    (hk : k ≠ 0) (hk' : k' ≠ 0) (hlt : k < 256) (hlt' : k' < 256) (hne : k ≠ k') :
    protocolHash (pre ++ { kind := k, priority := 0, name := name } :: suf) ≠
    protocolHash (pre ++ { kind := k', priority := 0, name := name } :: suf) := by
  unfold protocolHash
  apply toNat_ne
  rw [encodeSeq_append, encodeSeq_append, encodeSeq_cons, encodeSeq_cons]
  unfold encodeReg
  simp only [hk, hk', if_false, List.nil_append, List.cons_append, List.append_assoc]
  apply fnv_single_byte
  omega

/-- Changing the priority of a rule within its low byte changes the hash. -/
theorem C14_priority_change (pre suf : List Reg) (p p' : Nat) (name : List Nat)
    (hhi : p / 256 = p' / 256) (hne : p ≠ p') :
    protocolHash (pre ++ { kind := 0, priority := p, name := name } :: suf) ≠
    protocolHash (pre ++ { kind := 0, priority := p', name := name } :: suf) := by
  unfold protocolHash
  apply toNat_ne
  rw [encodeSeq_append, encodeSeq_append, encodeSeq_cons, encodeSeq_cons]
  unfold encodeReg u64le
  simp only [if_true, List.cons_append, List.nil_append, List.append_assoc]
  have e1 : p / 65536 = p' / 65536 := by omega
  have e2 : p / 16777216 = p' / 16777216 := by omega
  have e3 : p / 4294967296 = p' / 4294967296 := by omega
  have e4 : p / 1099511627776 = p' / 1099511627776 := by omega
  have e5 : p / 281474976710656 = p' / 281474976710656 := by omega
  have e6 : p / 72057594037927936 = p' / 72057594037927936 := by omega
  rw [hhi, e1, e2, e3, e4, e5, e6]
  have := fnv_single_byte (encodeSeq pre ++ [0]) (p' / 256 % 256 :: p' / 65536 % 256 :: p' / 16777216 % 256 ::
    p' / 4294967296 % 256 :: p' / 1099511627776 % 256 :: p' / 281474976710656 % 256 ::
    p' / 72057594037927936 % 256 :: (name ++ 255 :: encodeSeq suf)) (p % 256) (p' % 256)
    (BitVec.ofNat 64 Consts.fnvOffset) (by omega)
  simpa using this

/-- Under the default authorization method a client is authorized exactly when the hashes
match; otherwise it is notified of the mismatch and a disconnect is requested. -/
theorem C14_handshake (server client : Nat) :
    ((checkProtocol server client).authorized = true ↔ client = server) ∧
    (client ≠ server → (checkProtocol server client).mismatchSent = true ∧
      (checkProtocol server client).disconnectRequested = true ∧
      (checkProtocol server client).authorized = false) ∧
    (client = server → (checkProtocol server client).mismatchSent = false ∧
      (checkProtocol server client).disconnectRequested = false) := by
  unfold checkProtocol
  by_cases h : client = server
  · simp [h]
  · simp [h]

/-- Non-vacuity: the empty sequence hashes to the FNV offset basis; a concrete registration is
well-formed. -/
example : protocolHash [] = 14695981039346656037 := by decide
example : ({ kind := 2, priority := 0, name := [65, 66] } : Reg).WF := by
  refine ⟨by decide, by decide, fun _ => rfl, ?_⟩
  intro b hb; simp at hb; omega

end Replicon.C14
