import Replicon.Proofs.Events
import Replicon.Proofs.JointEvents
import Replicon.Proofs.JumpEvents
/-
C05 — Remote events: exactly once, in order, to the intended recipients only.

Model: `Model/Events.lean` — towards clients: `SrvEv` (`BufferedServerEvents`: sets per
`send_or_buffer` run, `exclude_client`, `send_all`), `sendIndependent`, `SrvEv.frame`; on the
client: `receive` (`ClientEventQueue` + `receive_typed`).  Towards the server: `CBuf`
(`Events<E>` + `ClientEventReader`) and `receiveFrom` (`ClientEvent::receive_typed`: the sender
identity is the one the transport attached to the message).

`C05_history_*` are statements over ALL histories of the joint server model
(`Model/Joint.lean`: any interleaving of world operations, connects, authorizations,
disconnects, stops, starts, emissions and frames with or without a tick, any number of
clients), proved by induction over the operation list.  The other theorems are about one side
each; the transport between them (ordered reliable channels
deliver every message once and in order, unreliable ones at most once) is an assumption about
the backend, checked for the example backend in C17.  The composition over whole sessions is
checked by the C05 oracles on the implementation (exactly once after quiescence, recipients,
order per receiver and type, sender identity, no event from before the connect) and the
lock-step comparison of `SrvEv.frame`, `receive` and `CBuf.frame` with the implementation.
-/
namespace Replicon.C05
open Replicon Replicon.Evt

/-- Recipients of a dependent event: exactly the connected clients the mode selects that are
authorized and did not connect after the event was buffered — nobody else. -/
theorem C05_recipients (peers : List Peer) (excl : List Nat) (e : Ev) (c : Nat) :
    (∃ o ∈ sendEvent peers excl e, o.client = c) ↔
      ∃ p ∈ peers, p.id = c ∧ c ∉ excl ∧ selects e.mode c = true ∧ p.authorized = true := by
  constructor
  · rintro ⟨o, ho, rfl⟩
    obtain ⟨p, hp, hex, hsel, ha, rfl⟩ := mem_sendEvent.mp ho
    exact ⟨p, hp, rfl, hex, hsel, ha⟩
  · rintro ⟨p, hp, rfl, hex, hsel, ha⟩
    exact ⟨_, mem_sendEvent.mpr ⟨p, hp, hex, hsel, ha, rfl⟩, rfl⟩

/-- the three modes: all, all but one, one -/
theorem C05_modes (c : Nat) :
    selects .broadcast c = true ∧
    (∀ x, selects (.except x) c = true ↔ x ≠ some c) ∧
    (∀ x, selects (.direct x) c = true ↔ x = some c) := by
  refine ⟨rfl, fun x => ?_, fun x => ?_⟩ <;> simp [selects]

/-- independent events: every connected client the mode selects, authorized or not -/
theorem C05_recipients_independent (peers : List Peer) (e : Ev) (c : Nat) :
    (∃ o ∈ sendIndependent peers e, o.client = c) ↔ ∃ p ∈ peers, p.id = c ∧ selects e.mode c = true := by
  constructor
  · rintro ⟨o, ho, rfl⟩
    obtain ⟨p, hp, hsel, rfl⟩ := mem_sendIndependent.mp ho
    exact ⟨p, hp, rfl, hsel⟩
  · rintro ⟨p, hp, rfl, hsel⟩
    exact ⟨_, mem_sendIndependent.mpr ⟨p, hp, hsel, rfl⟩, rfl⟩

/-- at most one message per client and event -/
theorem C05_once_per_client (peers : List Peer) (excl : List Nat) (e : Ev)
    (h : (peers.map (·.id)).Nodup) : ((sendEvent peers excl e).map (·.client)).Nodup :=
  sendEvent_nodup peers excl e h

/-- per client, one flush sends the buffered events in buffering order, none twice -/
theorem C05_server_order (s : SrvEv) (peers : List Peer) (c : Nat) (h : (peers.map (·.id)).Nodup) :
    List.Sublist (((s.sendAll peers).filter fun o => o.client = c).map (·.id))
      ((s.buffer.flatMap (·.events)).map (·.id)) :=
  sendAll_order s peers c h

/-- nothing is sent again on later frames: a tick's flush leaves the buffer empty, and an empty
buffer sends nothing -/
theorem C05_not_again (s : SrvEv) (localOk : Bool) (em : List Emitted) (peers peers' : List Peer) :
    ((s.frame true true localOk em peers).1).sendAll peers' = [] := by
  rw [frame_ticked_empties]; rfl

/-- A client never receives an event buffered before it connected — whatever is buffered and
whoever connects afterwards; what is buffered after the connect is unaffected. -/
theorem C05_late_joiner (s : SrvEv) (c : Nat) (es : List Ev) (peers : List Peer) :
    (∀ o ∈ (s.exclude c).sendAll peers, o.client ≠ c) ∧
    (∀ o ∈ ((s.exclude c).bufferEvents es).sendAll peers, o.client = c → o ∈ sendSet peers { events := es }) ∧
    (∀ d, ∀ o ∈ ((s.exclude c).exclude d).sendAll peers, o.client ≠ c) :=
  ⟨exclude_sendAll s c peers, exclude_then_buffer s c es peers,
   fun d o ho => (exclude_comm_mem s c d peers o ho).1⟩

/-- a stopped server sends nothing -/
theorem C05_not_running (s : SrvEv) (ticked localOk : Bool) (em : List Emitted) (peers : List Peer) :
    (s.frame false ticked localOk em peers).2.1 = [] :=
  frame_not_running s ticked localOk em peers

/-- Client side, exactly once: what is delivered now together with what still waits is a
permutation of what waited before together with what arrived — nothing lost, nothing doubled. -/
theorem C05_client_exactly_once (u : Nat) (q : Queue) (inc : List (Nat × Nat)) :
    ((receive u q inc).1 ++ (receive u q inc).2.items).Perm (q.items ++ inc) :=
  receive_perm u q inc

/-- Client side, order: with stamps that do not decrease along the arrival order (ordered
channel; the server's stamps per client never decrease), events are delivered in arrival order
and the queue keeps the rest in arrival order. -/
theorem C05_client_order (u : Nat) (q : Queue) (inc : List (Nat × Nat))
    (h : (q.items ++ inc).Pairwise fun x y => x.1 ≤ y.1) :
    (receive u q inc).1 ++ (receive u q inc).2.items = q.items ++ inc :=
  receive_order u q inc h

/-- the queue stays sorted by stamp, so "pop while the first key is ≤ the update tick" and
"take everything ≤ the update tick" are the same thing -/
theorem C05_queue_sorted (u : Nat) (q : Queue) (inc : List (Nat × Nat))
    (h : q.items.Pairwise fun x y => x.1 ≤ y.1) :
    (receive u q inc).2.items.Pairwise fun x y => x.1 ≤ y.1 :=
  receive_sorted u q inc h

/-- Towards the server: over any history of emissions and frames (any ageing of Bevy's buffer,
any sequence of connection states) no event is put on the wire twice, and the wire carries the
events in emission order. -/
theorem C05_client_event_once (steps : List CStep) :
    (({} : CBuf).run steps).1.Pairwise fun x y => x.1 < y.1 :=
  CBuf.run_wire_sorted {} steps CBuf.inv_init

/-- the server-side logic sees the identity the transport attached, unchanged -/
theorem C05_sender_identity (msgs : List (Nat × Nat)) : (receiveFrom msgs).map (·.1) = msgs.map (·.1) := rfl

/-! ### all histories of the server -/

/-- Over every history from the initial state, for every client and channel: the dependent
events handed to the transport are a sub-sequence of the events emitted on that channel, in
emission order.  So nothing is sent twice — in the same frame or in a later one — and nothing
is sent that was not emitted. -/
theorem C05_history_order (c ch : Nat) (ops : List Joint.Op) :
    List.Sublist (Joint.sentIds c ch (Joint.run {} ops).2) (Joint.emittedIds ch ops) :=
  Joint.sent_sub_init c ch ops

/-- at most once: with distinct payloads, no payload goes to the same client twice -/
theorem C05_history_at_most_once (c ch : Nat) (ops : List Joint.Op) (h : (Joint.emittedIds ch ops).Nodup) :
    (Joint.sentIds c ch (Joint.run {} ops).2).Nodup :=
  (C05_history_order c ch ops).nodup h

/-- A client never receives an event sent before it connected: from any reachable state, after
`connect c`, whatever the rest of the history does, client `c` is handed only events emitted
since the last frame (they are sent in the frame that follows) or later — nothing that was
already buffered. -/
theorem C05_history_late_joiner (c ch : Nat) (a : Bool) (st : Joint.St) (inv : Joint.Inv st) (ops : List Joint.Op) :
    List.Sublist (Joint.sentIds c ch (Joint.run (Joint.step st (.connect c a)).1 ops).2)
      (Joint.depIds ch st.pending ++ Joint.emittedIds ch ops) :=
  Joint.sent_sub_connect c ch a ops st inv

/-- … and every state a history reaches satisfies the invariant that theorem needs -/
theorem C05_history_reachable (ops : List Joint.Op) : Joint.Inv (Joint.run {} ops).1 :=
  (Joint.inv_run ops {} Joint.inv_init).1

/-- `C05_history_order` / `_at_most_once` / `_late_joiner` for histories in which the tick also
advances by more than one at once (`Joint.OpJ`, `Proofs/Jump.lean`, `Proofs/JumpEvents.lean`). -/
theorem C05_history_order_with_tick_jumps (c ch : Nat) (ops : List Joint.OpJ) :
    List.Sublist (Joint.sentIds c ch (Joint.runJ {} ops).2) (Joint.emittedIdsJ ch ops) :=
  Joint.sent_subJ_init c ch ops

theorem C05_history_at_most_once_with_tick_jumps (c ch : Nat) (ops : List Joint.OpJ)
    (h : (Joint.emittedIdsJ ch ops).Nodup) : (Joint.sentIds c ch (Joint.runJ {} ops).2).Nodup :=
  (C05_history_order_with_tick_jumps c ch ops).nodup h

theorem C05_history_late_joiner_with_tick_jumps (c ch : Nat) (a : Bool) (st : Joint.St) (inv : Joint.Inv st)
    (ops : List Joint.OpJ) :
    List.Sublist (Joint.sentIds c ch (Joint.runJ (Joint.step st (.connect c a)).1 ops).2)
      (Joint.depIds ch st.pending ++ Joint.emittedIdsJ ch ops) :=
  Joint.sent_subJ_connect c ch a ops st inv

/-- Non-vacuity with jumps: the history of the next example with the tick jumping by 200 and by
4294967296 between the frames; the same events reach the same clients. -/
example :
    let e (i : Nat) : Joint.OpJ := .op (.emit { ev := { id := i, chan := 2, mode := .broadcast }, independent := false })
    let f (t : Bool) : Joint.OpJ := .op (.frame t 10 (fun _ => []))
    let ops : List Joint.OpJ :=
      [.op .start, .op (.connect 0 true), e 10, f true, .jump 200, e 11, f false,
       .op (.connect 1 true), e 12, .jump 4294967296, f false, f true, f true]
    (Joint.sentIds 0 2 (Joint.runJ {} ops).2, Joint.sentIds 1 2 (Joint.runJ {} ops).2, Joint.emittedIdsJ 2 ops) =
      ([10, 11, 12], [12], [10, 11, 12]) := by
  decide

/-- Non-vacuity: two events buffered over two frames without a tick, a client connecting in
between two emissions, a tick: the early client gets all three in order, the late one only what
was emitted after it connected; a later tick sends nothing again. -/
example :
    let e (i : Nat) : Joint.Op := .emit { ev := { id := i, chan := 2, mode := .broadcast }, independent := false }
    let ops : List Joint.Op :=
      [.start, .connect 0 true, e 10, .frame true 10 (fun _ => []), e 11, .frame false 10 (fun _ => []),
       .connect 1 true, e 12, .frame false 10 (fun _ => []), .frame true 10 (fun _ => []), .frame true 10 (fun _ => [])]
    (Joint.sentIds 0 2 (Joint.run {} ops).2, Joint.sentIds 1 2 (Joint.run {} ops).2, Joint.emittedIds 2 ops) =
      ([10, 11, 12], [12], [10, 11, 12]) := by
  decide

/-- Non-vacuity: three clients, one joined late, one unauthorized. -/
example :
    let peers : List Peer := [⟨0, true, 3⟩, ⟨1, true, 5⟩, ⟨2, false, 0⟩, ⟨3, true, 1⟩]
    let s := ((({} : SrvEv).bufferEvents [⟨7, 2, .broadcast⟩, ⟨8, 2, .except (some 0)⟩]).exclude 3).bufferEvents [⟨9, 2, .direct (some 3)⟩]
    (s.sendAll peers).map (fun o => (o.client, o.id, o.stamp)) =
      [(0, 7, some 3), (1, 7, some 5), (1, 8, some 5), (3, 9, some 1)] := by
  decide

example :
    (({} : CBuf).run [.emit 5, .emit 6, .frame false false .connected, .emit 7, .frame true false .connected,
      .frame true false .connected]).1 = [(0, 5), (1, 6), (2, 7)] := by
  decide

end Replicon.C05
