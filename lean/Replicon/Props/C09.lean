import Replicon.Proofs.Client
/-
C09 — Disconnects, reconnects and server restarts start from a clean slate.

Model: `Model/Client.lean` (`reset`, run condition `client_just_disconnected`),
`Model/Server.lean` (`disconnect`, `stop` / `reset`).  "Crash points" are the session cuts: the
library keeps no state outside memory.  The new session's convergence is C01/C07 on the clean
state; that neither side panics is shown on the implementation by the trace validation
(a disconnect or stop at arbitrary points of generated histories).  Known finding F13 (client
panic after a disconnect under the default protocol check) is outside these theorems.
-/
namespace Replicon.C09
open Replicon Replicon.Srv Replicon.Cli

/-- The client: in its first frame after the session ended nothing received, buffered or
recorded during the old session survives in the protocol state, whatever was in flight. -/
theorem C09_client_reset (c : Client) (us : List Update) (ms : List Mutate)
    (h1 : c.lastNotDisconnected = true) (h2 : c.connected = false) :
    (frame c us ms).updateTick = 0 ∧ (frame c us ms).s2c = [] ∧ (frame c us ms).c2s = [] ∧
    (frame c us ms).buffered = [] ∧ (frame c us ms).acks = [] :=
  let h := frame_after_disconnect c us ms h1 h2
  ⟨h.1, h.2.1, h.2.2.1, h.2.2.2.1, h.2.2.2.2.1⟩

/-- The server keeps nothing of a disconnected client. -/
theorem C09_server_forgets_client (s : Server) (c : Nat) : aget (s.disconnect c).clients c = none := by
  unfold Server.disconnect
  exact aget_adel_same _ _

/-- A stopped server, after the frame in which `reset` runs: tick 0, no clients, nothing
buffered (the removal and despawn buffers too — F16 repair). -/
theorem C09_server_reset (s : Server) :
    s.stop.reset.tick = 0 ∧ s.stop.reset.clients = [] ∧ s.stop.reset.despawnBuf = [] ∧ s.stop.reset.removalBuf = [] := by
  unfold Server.stop Server.reset
  exact ⟨rfl, rfl, rfl, rfl⟩

/-- A client that connects (or is authorized) after a restart or a reconnect starts from fresh
replication state on the server … -/
theorem C09_fresh_session (s : Server) (c : Nat) (a : Bool) :
    aget (s.connect c a).clients c = some { authorized := a } := by
  unfold Server.connect
  exact aget_aset_same _ _ _

end Replicon.C09
