import Replicon.Proofs.Client
import Replicon.Proofs.Fresh
import Replicon.Proofs.Session
import Replicon.Proofs.Jump
/-
C09 — Disconnects, reconnects and server restarts start from a clean slate.

Model: `Model/Client.lean` (`reset`, run condition `client_just_disconnected`),
`Model/Server.lean` (`disconnect`, `stop` / `reset`).  "Crash points" are the session cuts: the
library keeps no state outside memory.  The new session's first round is a theorem across both
models (`C09_new_session_round_trip`, from `Proofs/Fresh.lean`): the server's message for a
client it has no state for, applied by a client whose previous session was reset, gives the
client exactly the server's view and leaves what it held before alone.  That neither side panics is shown on the implementation by the trace validation
(a disconnect or stop at arbitrary points of generated histories).  Known finding F13 (client
panic after a disconnect under the default protocol check) is outside these theorems.
-/
namespace Replicon.C09
open Replicon Replicon.Srv Replicon.Cli

/-- The client: in its first frame after the session ended nothing received, buffered or
recorded during the old session survives in the protocol state, whatever was in flight. -/
theorem C09_client_reset (c : Client) (us : List Update) (ms : List Mutate)
    (h1 : c.lastNotDisconnected = true) (h2 : c.connected = false) :
    (frame c us ms).updateTick = 0 ∧ (frame c us ms).s2c = [] ∧ (frame c us ms).c2s = [] ∧
    (frame c us ms).buffered = [] ∧ (frame c us ms).acks = [] :=
  let h := frame_after_disconnect c us ms h1 h2
  ⟨h.1, h.2.1, h.2.2.1, h.2.2.2.1, h.2.2.2.2.1⟩

/-- The server keeps nothing of a disconnected client. -/
theorem C09_server_forgets_client (s : Server) (c : Nat) : aget (s.disconnect c).clients c = none := by
  unfold Server.disconnect
  exact aget_adel_same _ _

/-- A stopped server, after the frame in which `reset` runs: tick 0, no clients, nothing
buffered (the removal and despawn buffers too — F16 repair). -/
theorem C09_server_reset (s : Server) :
    s.stop.reset.tick = 0 ∧ s.stop.reset.clients = [] ∧ s.stop.reset.despawnBuf = [] ∧ s.stop.reset.removalBuf = [] := by
  unfold Server.stop Server.reset
  exact ⟨rfl, rfl, rfl, rfl⟩

/-- A client that connects (or is authorized) after a restart or a reconnect starts from fresh
replication state on the server … -/
theorem C09_fresh_session (s : Server) (c : Nat) (a : Bool) :
    aget (s.connect c a).clients c = some { authorized := a } := by
  unfold Server.connect
  exact aget_aset_same _ _ _

/-- A new session converges in one perfect round, whatever the old session left behind: the
client ran the frame that saw the disconnect (`c` is any client state, `us`/`ms` whatever was
still delivered), reconnects, and applies the update message the server sends a client it has
no state for (`Fresh.freshCli` is what `connect` / `authorize` create).  Then the client holds
one new entity per replicated server entity — mapped, marked, confirmed at the server's tick,
with exactly the server's replicated components and values (`Fresh.Good`) — and nothing it held
before was touched.  Hypotheses: blacklist policy (nothing hidden), nothing buffered on the
server, distinct entity ids, no entity-valued components (component id 4 of the harness), ids
from `c.next` on unused (the allocator's invariant). -/
theorem C09_new_session_round_trip (s : Server) (thisRun : Nat) (c : Client) (us : List Update) (ms : List Mutate)
    (h1 : c.lastNotDisconnected = true) (h2 : c.connected = false)
    (halloc : ∀ j, c.next ≤ j → aget c.world j = none) (hec : c.entityComps = [4])
    (hw : s.white = false) (hd : s.despawnBuf = []) (hr : s.removalBuf = []) (hne : Fresh.viewMsgs s ≠ [])
    (hkeys : (s.world.map (·.1)).Nodup) (hplain : ∀ m ∈ Fresh.viewMsgs s, ∀ kv ∈ m.comps, kv.1 ≠ 4) :
    ∃ u, (runClient s thisRun Fresh.freshCli).2.update = some u ∧
      Fresh.Good s.tick { frame c us ms with connected := true }
        (applyUpdate { frame c us ms with connected := true } u) (Fresh.viewMsgs s) := by
  obtain ⟨u, hu, _, g⟩ := Fresh.fresh_round_trip s thisRun _
    (Fresh.session_start_after_reset c us ms h1 h2 halloc hec) hw hd hr hne hkeys hplain
  exact ⟨u, hu, g⟩

/-- what `connect` and `authorize` create on the server is that fresh state -/
theorem C09_server_state_is_fresh (s : Server) (c : Nat) :
    aget (s.connect c true).clients c = some Fresh.freshCli :=
  aget_aset_same _ _ _

/-- **Every session starts from a clean slate — entities, over ALL histories, across both models**
(`Proofs/Session.lean`).  The ghost log of `Joint.runLog` is emptied when a client connects, so it
holds the update messages of the client's *current* session only; the receiver is the client
model started *fresh* (what `C09_client_reset` shows the client to be after a disconnect).
After any history — with any number of disconnects, reconnects, server stops and restarts,
whatever was tracked, buffered or hidden for the client in earlier sessions; entity identifiers
not reused, a stopped server sees a frame before a restart, no pre-spawn mappings — that ends
with a frame in which `send_replication` ran: the fresh receiver fed the current session's
update messages in order holds exactly the replicated entities visible to the client, and none
of those messages failed on it.  Nothing of an earlier session is needed for, or leaks into,
that set. -/
theorem C09_history_session_clean (s0 : Server) (hw : s0.world = []) (hc0 : s0.clients = []) (hb : s0.removalBuf = [])
    (ops : List Joint.Op) (ticked : Bool) (ms : Nat) (parts : Nat → List (List Nat))
    (hl : Joint.Legal2 { srv := s0 } (ops ++ [.frame ticked ms parts]))
    (hr : (Joint.run { srv := s0 } ops).1.srv.running = true)
    (hc : (preRun (Joint.run { srv := s0 } ops).1.srv ticked ms).tickChanged = true) :
    ∀ x ∈ (Joint.run { srv := s0 } (ops ++ [.frame ticked ms parts])).1.srv.clients, x.2.authorized = true →
      WF (Joint.replay ((Joint.runLog { srv := s0 } (fun _ => []) (ops ++ [.frame ticked ms parts])).2 x.1)) ∧
      ∀ se, held (Joint.replay ((Joint.runLog { srv := s0 } (fun _ => []) (ops ++ [.frame ticked ms parts])).2 x.1)) se ↔
        marked (Joint.run { srv := s0 } (ops ++ [.frame ticked ms parts])).1.srv.world se ∧
        Vis.isVisible (Joint.run { srv := s0 } (ops ++ [.frame ticked ms parts])).1.srv.white (cell x.2 se) = true :=
  Joint.session_view s0 hw hc0 hb ops ticked ms parts hl hr hc

/-- Non-vacuity: a history with a disconnect / reconnect of client 0, and a server stop, frame,
restart; the hypotheses hold, and the log of client 0 holds one message (of the last session). -/
example :
    let s0 : Server := { rates := [(0, .every)] }
    let ops : List Joint.Op :=
      [.start, .connect 0 true, .spawn 5 true [(0, 7)], .frame true 10 (fun _ => []), .spawn 6 true [],
       .frame true 10 (fun _ => []), .disconnect 0, .connect 0 true, .frame true 10 (fun _ => []),
       .stop, .frame false 10 (fun _ => []), .start, .connect 0 true, .despawn 5]
    Joint.Legal2 { srv := s0 } (ops ++ [.frame true 10 (fun _ => [])]) ∧
    (Joint.run { srv := s0 } ops).1.srv.running = true ∧
    (preRun (Joint.run { srv := s0 } ops).1.srv true 10).tickChanged = true ∧
    ((Joint.runLog { srv := s0 } (fun _ => []) (ops ++ [.frame true 10 (fun _ => [])])).2 0).length = 1 ∧
    ((Joint.replay ((Joint.runLog { srv := s0 } (fun _ => []) (ops ++ [.frame true 10 (fun _ => [])])).2 0)).s2c.map (·.1)) = [6] := by
  refine ⟨by decide, by decide, by decide, by decide, by decide⟩

/-- `C09_history_session_clean` for histories in which the tick also advances by more than one at
once (`Joint.OpJ`, `Proofs/Jump.lean`) — in particular a session that reached a high tick, a server
restart (the tick starts from 0 again) and a new session at low ticks. -/
theorem C09_history_session_clean_with_tick_jumps (s0 : Server) (hw : s0.world = []) (hc0 : s0.clients = [])
    (hb : s0.removalBuf = []) (ht : s0.lastRun < s0.now) (ops : List Joint.OpJ)
    (hl : Joint.LegalJ { srv := s0 } ops) (ticked : Bool) (ms : Nat) (parts : Nat → List (List Nat))
    (hr : (Joint.runLogJ { srv := s0 } (fun _ => []) ops).1.srv.running = true)
    (hc : (preRun (Joint.runLogJ { srv := s0 } (fun _ => []) ops).1.srv ticked ms).tickChanged = true) :
    ∀ x ∈ (Joint.step (Joint.runLogJ { srv := s0 } (fun _ => []) ops).1 (.frame ticked ms parts)).1.srv.clients,
      x.2.authorized = true →
      WF (Joint.replay (Joint.logStep (Joint.runLogJ { srv := s0 } (fun _ => []) ops).1
            (Joint.runLogJ { srv := s0 } (fun _ => []) ops).2 (.frame ticked ms parts) x.1)) ∧
      ∀ se, held (Joint.replay (Joint.logStep (Joint.runLogJ { srv := s0 } (fun _ => []) ops).1
            (Joint.runLogJ { srv := s0 } (fun _ => []) ops).2 (.frame ticked ms parts) x.1)) se ↔
        marked (Joint.step (Joint.runLogJ { srv := s0 } (fun _ => []) ops).1 (.frame ticked ms parts)).1.srv.world se ∧
        Vis.isVisible (Joint.step (Joint.runLogJ { srv := s0 } (fun _ => []) ops).1 (.frame ticked ms parts)).1.srv.white
          (cell x.2 se) = true :=
  fun x hx ha => (Joint.session_with_jumps s0 hw hc0 hb ht ops hl ticked ms parts hr hc x hx ha).1

/-- Non-vacuity: the first session reaches tick 202, the server is stopped and restarted (tick 0
again), the client reconnects; the hypotheses hold, the update message of the new session carries
tick 1 and the fresh receiver holds entities 5 and 6 (and only those). -/
example :
    let s0 : Server := { rates := [(0, .every)] }
    let f (t : Bool) : Joint.OpJ := .op (.frame t 10 (fun _ => []))
    let ops : List Joint.OpJ :=
      [.op .start, .op (.connect 0 true), .op (.spawn 5 true [(0, 7)]), f true, .jump 200, .op (.spawn 6 true []),
       f true, .op .stop, f false, .op .start, .op (.connect 0 true)]
    Joint.LegalJ { srv := s0 } ops ∧
    (Joint.runLogJ { srv := s0 } (fun _ => []) ops).1.srv.running = true ∧
    (preRun (Joint.runLogJ { srv := s0 } (fun _ => []) ops).1.srv true 10).tickChanged = true ∧
    s0.lastRun < s0.now ∧
    (Joint.runLogJ { srv := s0 } (fun _ => []) [.op .start, .op (.connect 0 true), .op (.spawn 5 true [(0, 7)]), f true,
      .jump 200, .op (.spawn 6 true []), f true]).1.srv.tick = 202 ∧
    ((Joint.logStep (Joint.runLogJ { srv := s0 } (fun _ => []) ops).1 (Joint.runLogJ { srv := s0 } (fun _ => []) ops).2
        (.frame true 10 (fun _ => [])) 0).map (·.tick)) = [1] ∧
    ((Joint.replay (Joint.logStep (Joint.runLogJ { srv := s0 } (fun _ => []) ops).1
        (Joint.runLogJ { srv := s0 } (fun _ => []) ops).2 (.frame true 10 (fun _ => [])) 0)).s2c.map (·.1)) = [5, 6] := by
  refine ⟨by decide, by decide, by decide, by decide, by decide, by decide, by decide⟩

end Replicon.C09
