import Replicon.Proofs.ConfirmHistory
import Replicon.Proofs.MutateTicks
import Replicon.Proofs.Client
/-
C12 — Tick-confirmation queries agree with what was actually received.

Model: `Model/Tick.lean` (RepliconTick), `Model/ConfirmHistory.lean`, `Model/MutateTicks.lean`;
specification: `Model/HistorySpec.lean` (a plain set of confirmed *absolute* ticks; the
implementation only sees residues modulo 2^32, so wrap-around of the counter is covered by
every statement below).  End to end: `Model/Client.lean` (`apply_mutate_messages`: the tracker
is fed by `trackOne`, once per mutate message that is *applied*, never by one that is only
buffered); the tie is the lock-step comparison of the `MutateTickReceived` events of every
client frame with the model's (`sys`, `sys_split` with tracking on) and the oracle "a reported
tick's every mutate message was applied (acknowledged) by then, and it is reported once".
-/
namespace Replicon.C12
open Replicon

/-- Tick comparison orders any two ticks less than half the counter range apart by their
wrapping distance — including across the 32-bit wrap point. -/
theorem C12_tick_order (a b : Nat) (h : Near a b) :
    tickCmp (a % 4294967296) (b % 4294967296) = compare a b :=
  tickCmp_abs a b h

/-- Run a sequence of confirmations on the implementation model (ticks as the code sees them). -/
def runConfirms : ConfirmHistory → List Nat → Res ConfirmHistory
  | h, [] => .ok h
  | h, t :: ts => (h.confirm (t % 4294967296)).bind fun h' => runConfirms h' ts

/-- The premise under which the tick order is defined: every confirmed tick is less than half
the counter range away from the last tick at that moment. -/
def NearRun : SetSpec → List Nat → Prop
  | _, [] => True
  | sp, t :: ts => Near t sp.last ∧ NearRun (sp.confirm t) ts

/-- For every sequence of confirmations (any length; gaps longer than the window; across the
wrap point) the implementation never panics and its `(mask, last_tick)` represent exactly the
plain set of confirmed ticks. -/
theorem C12_history_refines (h : ConfirmHistory) (sp : SetSpec) (ts : List Nat)
    (inv : CHInv h sp) (hn : NearRun sp ts) :
    ∃ h', runConfirms h ts = .ok h' ∧ CHInv h' (ts.foldl SetSpec.confirm sp) := by
  induction ts generalizing h sp with
  | nil => exact ⟨h, rfl, inv⟩
  | cons t ts ih =>
    obtain ⟨hnear, hrest⟩ := hn
    obtain ⟨h1, e1, inv1⟩ := ch_confirm h sp t inv hnear
    obtain ⟨h2, e2, inv2⟩ := ih h1 (sp.confirm t) inv1 hrest
    refine ⟨h2, ?_, inv2⟩
    show (h.confirm (t % 4294967296)).bind _ = _
    rw [e1]; exact e2

/-- The same, from a fresh history. -/
theorem C12_history_refines_new (t0 : Nat) (ts : List Nat) (hn : NearRun (SetSpec.new t0) ts) :
    ∃ h', runConfirms (ConfirmHistory.new (t0 % 4294967296)) ts = .ok h' ∧
      CHInv h' (ts.foldl SetSpec.confirm (SetSpec.new t0)) :=
  C12_history_refines _ _ ts (ch_new t0) hn

/-- Membership queries answer exactly as the plain set would (older than the window counts
as confirmed). -/
theorem C12_contains (h : ConfirmHistory) (sp : SetSpec) (q : Nat) (inv : CHInv h sp)
    (near : Near q sp.last) : h.contains (q % 4294967296) = sp.contains q :=
  ch_contains h sp q inv near

/-- Range queries never panic (including the range that covers the whole 64-tick window) and
answer exactly as the plain set would: some tick of `[a, b]` is confirmed.
`64 ≤ sp.last` is without loss of generality: absolute ticks are only a bookkeeping device and
can be shifted by any multiple of 2^32. -/
theorem C12_contains_any (h : ConfirmHistory) (sp : SetSpec) (a b : Nat) (inv : CHInv h sp)
    (hab : a ≤ b) (nab : Near a b) (na : Near a sp.last) (nb : Near b sp.last) (hbase : 64 ≤ sp.last) :
    ∃ v, h.containsAny (a % 4294967296) (b % 4294967296) = .ok v ∧ (v = true ↔ sp.containsAny a b) :=
  ch_contains_any h sp a b inv hab nab na nb hbase

/-! ### the global mutate-tick tracker (`ServerMutateTicks`) -/

/-- Run a sequence of `confirm(tick, messages_count)` calls; returns the final ring and the
list of return values ("tick completely received"). -/
def runSmt : MutateTicks → List (Nat × Nat) → Res (MutateTicks × List Bool)
  | s, [] => .ok (s, [])
  | s, (t, n) :: cs =>
    (s.confirm (t % 4294967296) n).bind fun r =>
      (runSmt r.1 cs).bind fun r2 => .ok (r2.1, r.2 :: r2.2)

/-- Premise: ticks within half range of the running last tick, and calls that respect the
protocol (non-zero, consistent count; no more confirmations than messages for ticks still in
the window). -/
def GoodCalls : CountSpec → List (Nat × Nat) → Prop
  | _, [] => True
  | sp, (t, n) :: cs => Near t sp.last ∧ CallOk sp t n ∧ GoodCalls (sp.confirm t n) cs

/-- For every sequence of confirmations (any length, gaps beyond the window, across the wrap)
the tracker never panics and its ring represents exactly the confirmation log: slot `i` holds
the announced count and the number of confirmations of tick `last - i`. -/
theorem C12_tracker_refines (s : MutateTicks) (sp : CountSpec) (cs : List (Nat × Nat))
    (inv : SMTInv s sp) (hg : GoodCalls sp cs) :
    ∃ s' rs, runSmt s cs = .ok (s', rs) ∧
      SMTInv s' (cs.foldl (fun sp c => sp.confirm c.1 c.2) sp) := by
  induction cs generalizing s sp with
  | nil => exact ⟨s, [], rfl, inv⟩
  | cons c cs ih =>
    obtain ⟨t, n⟩ := c
    obtain ⟨hnear, hok, hrest⟩ := hg
    obtain ⟨s1, r1, e1, inv1, _⟩ := smt_confirm s sp t n inv hnear hok
    obtain ⟨s2, rs2, e2, inv2⟩ := ih s1 (sp.confirm t n) inv1 hrest
    refine ⟨s2, r1 :: rs2, ?_, inv2⟩
    show (s.confirm (t % 4294967296) n).bind _ = _
    rw [e1]
    show (runSmt s1 cs).bind _ = _
    rw [e2]; rfl

/-- `confirm` reports "fully received" exactly when the tick is still tracked and the number of
confirmations now equals the announced, non-zero message count. -/
theorem C12_tracker_confirm_result (s : MutateTicks) (sp : CountSpec) (t n : Nat)
    (inv : SMTInv s sp) (near : Near t sp.last) (ok : CallOk sp t n) :
    ∃ s' r, s.confirm (t % 4294967296) n = .ok (s', r) ∧ SMTInv s' (sp.confirm t n) ∧
      r = (decide (sp.last < t + 64) && (sp.confirm t n).complete t) :=
  smt_confirm s sp t n inv near ok

theorem C12_tracker_contains (s : MutateTicks) (sp : CountSpec) (q : Nat) (inv : SMTInv s sp)
    (near : Near q sp.last) : s.contains (q % 4294967296) = sp.contains q :=
  smt_contains s sp q inv near

theorem C12_tracker_contains_any (s : MutateTicks) (sp : CountSpec) (a b : Nat) (inv : SMTInv s sp)
    (hab : a ≤ b) (nab : Near a b) (na : Near a sp.last) (nb : Near b sp.last) (hbase : 64 ≤ sp.last) :
    ∃ v, s.containsAny (a % 4294967296) (b % 4294967296) = .ok v ∧ (v = true ↔ sp.containsAny a b) :=
  smt_contains_any s sp a b inv hab nab na nb hbase

theorem C12_tracker_init : SMTInv MutateTicks.default CountSpec.init := smt_init

example : GoodCalls CountSpec.init [(5, 2), (5, 2), (70, 1), (6, 3)] := by
  simp [GoodCalls, Near, CallOk, CountSpec.init, CountSpec.confirm, CountSpec.count, CountSpec.received]

/-! Non-vacuity: a concrete history across the wrap point with a gap longer than the window
satisfies the premises, and the witnesses of finding F6 (repaired by a `fix:` commit) evaluate
correctly on the model of the repaired code. -/
example : NearRun (SetSpec.new 4294967290) [4294967291, 4294967296 + 60, 4294967289] := by
  simp [NearRun, Near, SetSpec.new, SetSpec.confirm]
example : (runConfirms (ConfirmHistory.new 1) [2, 66]).map (fun h => (h.mask.toNat, h.last, h.contains 65))
    = .ok (1, 66, false) := by decide
example : (ConfirmHistory.new 100).containsAny 37 100 = .ok true := by decide

/-! ### end to end: when the client reports a tick as fully received -/

open Replicon.Cli in
theorem trackFold_notified (l : List Mutate) (c : Client) :
    ∀ t ∈ (l.foldl trackOne c).notified, t ∈ c.notified ∨ ∃ m ∈ l, m.tick = t := by
  induction l generalizing c with
  | nil => intro t ht; left; exact ht
  | cons x xs ih =>
    intro t ht
    rw [List.foldl_cons] at ht
    rcases ih _ t ht with h | ⟨m, hm, rfl⟩
    · unfold trackOne at h
      cases hmt : c.mutTicks with
      | none => rw [hmt] at h; left; exact h
      | some s =>
        rw [hmt] at h
        simp only at h
        cases hc : s.confirm x.tick x.count with
        | ok r =>
          rw [hc] at h
          simp only at h
          by_cases hd : r.2 = true
          · rw [if_pos hd] at h
            rcases List.mem_append.mp h with h | h
            · left; exact h
            · right; exact ⟨x, List.mem_cons_self, (List.mem_singleton.mp h).symm⟩
          · rw [if_neg hd] at h; left; exact h
        | err => rw [hc] at h; left; exact h
        | panic _ => rw [hc] at h; left; exact h
    · right; exact ⟨m, List.mem_cons_of_mem _ hm, rfl⟩

open Replicon.Cli in
theorem foldl_applyMutate_notified (l : List Mutate) (c : Client) :
    (l.foldl applyMutate c).notified = c.notified ∧ (l.foldl applyMutate c).mutTicks = c.mutTicks := by
  induction l generalizing c with
  | nil => exact ⟨rfl, rfl⟩
  | cons x xs ih =>
    rw [List.foldl_cons]
    obtain ⟨h1, h2⟩ := ih (applyMutate c x)
    rw [h1, h2]
    obtain ⟨_, _, _, _, hn, hm⟩ := applyMutate_same c x
    exact ⟨hn, hm⟩

/-- A tick is reported as fully received in a frame only if a mutate message of that tick was
*applied* in that frame: messages that are merely buffered (their update message has not been
applied yet) are never counted. -/
theorem C12_reported_only_when_applied (c : Cli.Client) :
    ∀ t ∈ (Cli.applyBuffered c).notified, t ∈ c.notified ∨
      ∃ m ∈ c.buffered, ¬ (m.updateTick > c.updateTick) ∧ m.tick = t := by
  intro t ht
  unfold Cli.applyBuffered at ht
  simp only at ht
  rcases trackFold_notified _ _ t ht with h | ⟨m, hm, rfl⟩
  · left
    rw [(foldl_applyMutate_notified _ _).1] at h
    exact h
  · right
    rw [List.mem_filter] at hm
    exact ⟨m, hm.1, by simpa using hm.2, rfl⟩

/-- … and a frame in which nothing is applicable neither feeds the tracker nor reports anything. -/
theorem C12_buffered_not_counted (c : Cli.Client) (h : ∀ m ∈ c.buffered, m.updateTick > c.updateTick) :
    (Cli.applyBuffered c).mutTicks = c.mutTicks ∧ (Cli.applyBuffered c).notified = c.notified := by
  unfold Cli.applyBuffered
  have hr : (c.buffered.filter fun m => !(m.updateTick > c.updateTick)) = [] := by
    rw [List.filter_eq_nil_iff]
    intro m hm
    simp [h m hm]
  simp only [hr, List.foldl_nil]
  trivial

/-- The report itself is the tracker's verdict (`C12_tracker_confirm_result`: the number of
confirmations equals the announced non-zero count, and the tick is still in the window). -/
theorem C12_report_is_tracker_verdict (c : Cli.Client) (m : Cli.Mutate) (s : MutateTicks) (hs : c.mutTicks = some s) :
    (∀ s' d, s.confirm m.tick m.count = .ok (s', d) →
      (Cli.trackOne c m).mutTicks = some s' ∧
      (Cli.trackOne c m).notified = if d then c.notified ++ [m.tick] else c.notified) := by
  intro s' d h
  unfold Cli.trackOne
  rw [hs]
  simp only [h]
  trivial

/-- Non-vacuity: a tick split into two mutate messages; the first arrives before the update
message it depends on and waits; nothing is reported until both were applied. -/
example :
    let m1 : Cli.Mutate := { updateTick := 3, tick := 4, index := 0, ents := [], count := 2 }
    let m2 : Cli.Mutate := { updateTick := 3, tick := 4, index := 1, ents := [], count := 2 }
    let c0 : Cli.Client := { connected := true, lastNotDisconnected := true, updateTick := 2, mutTicks := some MutateTicks.default }
    let c1 := Cli.frame c0 [] [m1]
    let c2 := Cli.frame c1 [{ tick := 3 }] []
    let c3 := Cli.frame c2 [] [m2]
    (c1.notified, c1.acks, c2.notified, c2.acks, c3.notified, c3.acks) = ([], [], [], [0], [4], [1]) := by
  decide

end Replicon.C12
