import Replicon.Proofs.ConfirmHistory
import Replicon.Proofs.MutateTicks
/-
C12 — Tick-confirmation queries agree with what was actually received.

Model: `Model/Tick.lean` (RepliconTick), `Model/ConfirmHistory.lean`, `Model/MutateTicks.lean`;
specification: `Model/HistorySpec.lean` (a plain set of confirmed *absolute* ticks; the
implementation only sees residues modulo 2^32, so wrap-around of the counter is covered by
every statement below).
-/
namespace Replicon.C12
open Replicon

/-- Tick comparison orders any two ticks less than half the counter range apart by their
wrapping distance — including across the 32-bit wrap point. -/
theorem C12_tick_order (a b : Nat) (h : Near a b) :
    tickCmp (a % 4294967296) (b % 4294967296) = compare a b :=
  tickCmp_abs a b h

/-- Run a sequence of confirmations on the implementation model (ticks as the code sees them). -/
def runConfirms : ConfirmHistory → List Nat → Res ConfirmHistory
  | h, [] => .ok h
  | h, t :: ts => (h.confirm (t % 4294967296)).bind fun h' => runConfirms h' ts

/-- The premise under which the tick order is defined: every confirmed tick is less than half
the counter range away from the last tick at that moment. -/
def NearRun : SetSpec → List Nat → Prop
  | _, [] => True
  | sp, t :: ts => Near t sp.last ∧ NearRun (sp.confirm t) ts

/-- For every sequence of confirmations (any length; gaps longer than the window; across the
wrap point) the implementation never panics and its `(mask, last_tick)` represent exactly the
plain set of confirmed ticks. -/
theorem C12_history_refines (h : ConfirmHistory) (sp : SetSpec) (ts : List Nat)
    (inv : CHInv h sp) (hn : NearRun sp ts) :
    ∃ h', runConfirms h ts = .ok h' ∧ CHInv h' (ts.foldl SetSpec.confirm sp) := by
  induction ts generalizing h sp with
  | nil => exact ⟨h, rfl, inv⟩
  | cons t ts ih =>
    obtain ⟨hnear, hrest⟩ := hn
    obtain ⟨h1, e1, inv1⟩ := ch_confirm h sp t inv hnear
    obtain ⟨h2, e2, inv2⟩ := ih h1 (sp.confirm t) inv1 hrest
    refine ⟨h2, ?_, inv2⟩
    show (h.confirm (t % 4294967296)).bind _ = _
    rw [e1]; exact e2

/-- The same, from a fresh history. -/
theorem C12_history_refines_new (t0 : Nat) (ts : List Nat) (hn : NearRun (SetSpec.new t0) ts) :
    ∃ h', runConfirms (ConfirmHistory.new (t0 % 4294967296)) ts = .ok h' ∧
      CHInv h' (ts.foldl SetSpec.confirm (SetSpec.new t0)) :=
  C12_history_refines _ _ ts (ch_new t0) hn

/-- Membership queries answer exactly as the plain set would (older than the window counts
as confirmed). -/
theorem C12_contains (h : ConfirmHistory) (sp : SetSpec) (q : Nat) (inv : CHInv h sp)
    (near : Near q sp.last) : h.contains (q % 4294967296) = sp.contains q :=
  ch_contains h sp q inv near

/-- Range queries never panic (including the range that covers the whole 64-tick window) and
answer exactly as the plain set would: some tick of `[a, b]` is confirmed.
`64 ≤ sp.last` is without loss of generality: absolute ticks are only a bookkeeping device and
can be shifted by any multiple of 2^32. -/
theorem C12_contains_any (h : ConfirmHistory) (sp : SetSpec) (a b : Nat) (inv : CHInv h sp)
    (hab : a ≤ b) (nab : Near a b) (na : Near a sp.last) (nb : Near b sp.last) (hbase : 64 ≤ sp.last) :
    ∃ v, h.containsAny (a % 4294967296) (b % 4294967296) = .ok v ∧ (v = true ↔ sp.containsAny a b) :=
  ch_contains_any h sp a b inv hab nab na nb hbase

/-! ### the global mutate-tick tracker (`ServerMutateTicks`) -/

/-- Run a sequence of `confirm(tick, messages_count)` calls; returns the final ring and the
list of return values ("tick completely received"). -/
def runSmt : MutateTicks → List (Nat × Nat) → Res (MutateTicks × List Bool)
  | s, [] => .ok (s, [])
  | s, (t, n) :: cs =>
    (s.confirm (t % 4294967296) n).bind fun r =>
      (runSmt r.1 cs).bind fun r2 => .ok (r2.1, r.2 :: r2.2)

/-- Premise: ticks within half range of the running last tick, and calls that respect the
protocol (non-zero, consistent count; no more confirmations than messages for ticks still in
the window). -/
def GoodCalls : CountSpec → List (Nat × Nat) → Prop
  | _, [] => True
  | sp, (t, n) :: cs => Near t sp.last ∧ CallOk sp t n ∧ GoodCalls (sp.confirm t n) cs

/-- For every sequence of confirmations (any length, gaps beyond the window, across the wrap)
the tracker never panics and its ring represents exactly the confirmation log: slot `i` holds
the announced count and the number of confirmations of tick `last - i`. -/
theorem C12_tracker_refines (s : MutateTicks) (sp : CountSpec) (cs : List (Nat × Nat))
    (inv : SMTInv s sp) (hg : GoodCalls sp cs) :
    ∃ s' rs, runSmt s cs = .ok (s', rs) ∧
      SMTInv s' (cs.foldl (fun sp c => sp.confirm c.1 c.2) sp) := by
  induction cs generalizing s sp with
  | nil => exact ⟨s, [], rfl, inv⟩
  | cons c cs ih =>
    obtain ⟨t, n⟩ := c
    obtain ⟨hnear, hok, hrest⟩ := hg
    obtain ⟨s1, r1, e1, inv1, _⟩ := smt_confirm s sp t n inv hnear hok
    obtain ⟨s2, rs2, e2, inv2⟩ := ih s1 (sp.confirm t n) inv1 hrest
    refine ⟨s2, r1 :: rs2, ?_, inv2⟩
    show (s.confirm (t % 4294967296) n).bind _ = _
    rw [e1]
    show (runSmt s1 cs).bind _ = _
    rw [e2]; rfl

/-- `confirm` reports "fully received" exactly when the tick is still tracked and the number of
confirmations now equals the announced, non-zero message count. -/
theorem C12_tracker_confirm_result (s : MutateTicks) (sp : CountSpec) (t n : Nat)
    (inv : SMTInv s sp) (near : Near t sp.last) (ok : CallOk sp t n) :
    ∃ s' r, s.confirm (t % 4294967296) n = .ok (s', r) ∧ SMTInv s' (sp.confirm t n) ∧
      r = (decide (sp.last < t + 64) && (sp.confirm t n).complete t) :=
  smt_confirm s sp t n inv near ok

theorem C12_tracker_contains (s : MutateTicks) (sp : CountSpec) (q : Nat) (inv : SMTInv s sp)
    (near : Near q sp.last) : s.contains (q % 4294967296) = sp.contains q :=
  smt_contains s sp q inv near

theorem C12_tracker_contains_any (s : MutateTicks) (sp : CountSpec) (a b : Nat) (inv : SMTInv s sp)
    (hab : a ≤ b) (nab : Near a b) (na : Near a sp.last) (nb : Near b sp.last) (hbase : 64 ≤ sp.last) :
    ∃ v, s.containsAny (a % 4294967296) (b % 4294967296) = .ok v ∧ (v = true ↔ sp.containsAny a b) :=
  smt_contains_any s sp a b inv hab nab na nb hbase

theorem C12_tracker_init : SMTInv MutateTicks.default CountSpec.init := smt_init

example : GoodCalls CountSpec.init [(5, 2), (5, 2), (70, 1), (6, 3)] := by
  simp [GoodCalls, Near, CallOk, CountSpec.init, CountSpec.confirm, CountSpec.count, CountSpec.received]

/-! Non-vacuity: a concrete history across the wrap point with a gap longer than the window
satisfies the premises, and the witnesses of finding F6 (repaired by a `fix:` commit) evaluate
correctly on the model of the repaired code. -/
example : NearRun (SetSpec.new 4294967290) [4294967291, 4294967296 + 60, 4294967289] := by
  simp [NearRun, Near, SetSpec.new, SetSpec.confirm]
example : (runConfirms (ConfirmHistory.new 1) [2, 66]).map (fun h => (h.mask.toNat, h.last, h.contains 65))
    = .ok (1, 66, false) := by decide
example : (ConfirmHistory.new 100).containsAny 37 100 = .ok true := by decide

end Replicon.C12
