import Replicon.Proofs.Client
import Replicon.Proofs.Fresh
import Replicon.Proofs.Session
import Replicon.Proofs.ClientKinds
import Replicon.Proofs.Jump
/-
C01 — Every client converges to the server state under any legal network schedule.

Models: `Model/Server.lean`, `Model/Client.lean`, in lock step with the real apps on every
generated trace; convergence itself is evaluated on the *implementation* at the end of every
trace (a quiescent suffix of PERIOD+4 ticks with full in-order delivery, then client view =
server view for every authorized client), and panics of either app are caught.

Proved here are the two halves of a convergence argument — *progress* (whatever the client
lacks is in the next run's messages) and *stability* (once nothing is lacking, the run is
silent and the client's frame changes nothing) — per run.  `C01_converges_partial`: the
induction over an arbitrary legal history that joins them (the invariant that the server's
belief `mutTick` never runs ahead of what the client has applied) is not proved as one theorem
for *values*.  For the *set of entities* it is (`C01_history_same_entities`, `Proofs/Session.lean`):
over all histories of the joint model the client model fed the session's update messages in
order holds exactly the replicated entities visible to it.
Known findings outside the theorems: F4 (periodic components), F20 (tick-0 race).
-/
namespace Replicon.C01
open Replicon Replicon.Srv Replicon.Cli

/-- Progress, structure: an entity the client was never sent and may see is in the run's
update message, whole. -/
theorem C01_progress_structure (s : Server) (thisRun : Nat) (cl : Cli)
    (hd : s.despawnBuf = []) (hl : NoLost s.white cl) (hk : ∀ e, aget cl.mutTick e = none)
    (e : Nat) (ent : SEnt) (m : Nat) (hw : (e, ent) ∈ s.world) (hm : ent.marker = some m)
    (hv : visState s cl e ≠ .hidden) :
    ∃ u, (runClient s thisRun cl).2.update = some u ∧
      ({ ent := e, comps := (present s ent).map fun x => (x.1, x.2.2.val) } : MsgEnt) ∈ u.changes :=
  runClient_full_state s thisRun cl hd hl hk e ent m hw hm hv

/-- Progress, values: a value newer than what the server believes the client has is in the
run's messages whenever the component's send rate fires (every tick for ordinary components;
at the period tick for periodic ones — that is the "catch up at their next period tick"). -/
theorem C01_progress_values (s : Server) (thisRun : Nat) (cl : Cli) (e : Nat) (ent : SEnt) (m t : Nat)
    (k : Nat) (r : Rate) (c : Comp)
    (hvis : visState s cl e = .visible) (hk : aget cl.mutTick e = some t)
    (hold : ¬ m > s.lastRun) (hm : (k, r, c) ∈ present s ent)
    (hadded : ¬ c.added > s.lastRun) (hchanged : c.changed > t) (hrate : r.sendMutations s.tick = true) :
    (∃ u, (collectEntity s thisRun cl e ent m).toUpdate = some u ∧ (k, c.val) ∈ u.comps) ∨
    (∃ u, (collectEntity s thisRun cl e ent m).toMutate = some u ∧ (k, c.val) ∈ u.comps) :=
  collect_resend s thisRun cl e ent m t k r c hvis hk hold hm hadded hchanged hrate

/-- Progress, despawns: an entity that left replication and that the client could see is in
the run's DESPAWNS. -/
theorem C01_progress_despawn (s : Server) (cl : Cli) (e : Nat) (hm : e ∈ s.despawnBuf)
    (hv : Vis.isVisible s.white (cell cl e) = true) : e ∈ (despawnPhase s cl).2 :=
  despawnPhase_sends s cl e hm hv

/-- Stability, server: when nothing is pending and there is nothing to say about any
replicated entity, the run sends nothing and changes nothing. -/
theorem C01_stable_server (s : Server) (thisRun : Nat) (cl : Cli)
    (hd : s.despawnBuf = []) (hr : s.removalBuf = []) (hm : cl.mappings = []) (hl : NoLost s.white cl)
    (hq : ∀ e ent m, (e, ent) ∈ s.world → ent.marker = some m → Quiet s cl e ent m) :
    runClient s thisRun cl = (cl, { update := none, mutEnts := [] }) :=
  runClient_idle s thisRun cl hd hr hm hl hq

/-- Stability, client: a frame without messages and with nothing applicable buffered leaves the
client's replicated state exactly as it was (`acks` and `notified` are the frame's outputs:
what it acknowledged and which ticks it reported as fully received). -/
theorem C01_stable_client (c : Client) (hc : c.connected = true) (hl : c.lastNotDisconnected = true)
    (hb : c.buffered = []) (ha : c.acks = []) (hn : c.notified = []) : frame c [] [] = c := by
  unfold frame applyBuffered
  cases c
  simp_all

/-- Convergence for a client that joins a server in quiescence, in one perfect round — a theorem
across both models (`Proofs/Fresh.lean`): the update message of the run, applied by a client at
the start of its session, gives the client every replicated entity with exactly the server's
replicated components and values (`Fresh.Good`), and nothing else.  (Blacklist policy, nothing
buffered, distinct entity ids, no entity-valued components.) -/
theorem C01_joiner_converges (s : Server) (thisRun : Nat) (hw : s.white = false)
    (hd : s.despawnBuf = []) (hr : s.removalBuf = []) (hne : Fresh.viewMsgs s ≠ [])
    (hkeys : (s.world.map (·.1)).Nodup) (hplain : ∀ m ∈ Fresh.viewMsgs s, ∀ kv ∈ m.comps, kv.1 ≠ 4) :
    ∃ u, (runClient s thisRun Fresh.freshCli).2.update = some u ∧
      Fresh.Good s.tick { connected := true } (applyUpdate { connected := true } u) (Fresh.viewMsgs s) := by
  obtain ⟨u, hu, _, g⟩ := Fresh.fresh_round_trip s thisRun { connected := true } Fresh.session_start_new hw hd hr hne hkeys hplain
  exact ⟨u, hu, g⟩

/-- … per entity and component: the client's value is the server's, and it has no other component -/
theorem C01_joiner_values (s : Server) (thisRun : Nat) (hw : s.white = false)
    (hd : s.despawnBuf = []) (hr : s.removalBuf = []) (hne : Fresh.viewMsgs s ≠ [])
    (hkeys : (s.world.map (·.1)).Nodup) (hplain : ∀ m ∈ Fresh.viewMsgs s, ∀ kv ∈ m.comps, kv.1 ≠ 4)
    (hrates : (s.rates.map (·.1)).Nodup)
    (e : Nat) (ent : SEnt) (mk : Nat) (he : (e, ent) ∈ s.world) (hm : ent.marker = some mk) (k : Nat) :
    ∃ u ce cent, (runClient s thisRun Fresh.freshCli).2.update = some u ∧
      aget (applyUpdate { connected := true } u).s2c e = some ce ∧
      aget (applyUpdate { connected := true } u).world ce = some cent ∧
      aget cent.comps k = (((present s ent).map fun y => (y.1, y.2.2.val)).lookup k) := by
  obtain ⟨u, hu, ce, h1, h2, _⟩ := Fresh.fresh_round_trip_entity s thisRun { connected := true } Fresh.session_start_new
    hw hd hr hne hkeys hplain e ent mk he hm
  refine ⟨u, ce, _, hu, h1, h2, ?_⟩
  have hnd : (((present s ent).map fun y => (y.1, y.2.2.val)).map (·.1)).Nodup := by
    rw [List.map_map]
    have : List.Sublist ((present s ent).map ((fun x : Nat × Nat => x.1) ∘ fun y => (y.1, y.2.2.val))) (s.rates.map (·.1)) := by
      unfold present
      induction s.rates with
      | nil => exact List.Sublist.refl _
      | cons r rs ih =>
        rw [List.filterMap_cons]
        cases hc : aget ent.comps r.1 with
        | none => simp only [hc, Option.map_none]; exact ih.trans (by simp)
        | some c => simp only [hc, Option.map_some, List.map_cons, Function.comp]; exact List.Sublist.cons_cons _ ih
    exact this.nodup hrates
  have := Fresh.assocOf_get k ((present s ent).map fun y => (y.1, y.2.2.val)) [] hnd
  simp only at this ⊢
  rw [this]
  cases (List.map (fun y => (y.1, y.2.2.val)) (present s ent)).lookup k <;> rfl

/-- Non-vacuity: one round trip on the models — spawn, run, apply: the client holds the entity
with the server's values, and the next run is silent. -/
example :
    let s : Server := { rates := [(0, .every)], running := true, now := 5, lastRun := 2, tick := 1,
                        world := [(3, { marker := some 4, comps := [(0, { val := 8, added := 4, changed := 4 })] })] }
    let r := runClient s 6 { authorized := true }
    r.2.update = some { tick := 1, changes := [{ ent := 3, comps := [(0, 8)] }] } ∧
    (applyUpdate { connected := true } { tick := 1, changes := [{ ent := 3, comps := [(0, 8)] }] }).world
      = [(0, { marked := true, comps := [(0, 8)], hist := some 1 })] := by
  decide

/-- the history of known finding F4: entity 1 carries `A` (component 0, sent every tick) and `P`
(component 3, sent every third tick); both change after tick 1; tick 2 sends `A` alone (message
0), which the client acknowledges; four more ticks follow -/
def f4Ops : List Joint.Op :=
  [.start, .connect 0 true, .spawn 1 true [(0, 1), (3, 1)], .frame true 10 (fun _ => []),
   .mutate 1 0 2, .mutate 1 3 2, .frame true 10 (fun _ => [[1]]), .ack 0 [0],
   .frame true 10 (fun _ => []), .frame true 10 (fun _ => []), .frame true 10 (fun _ => []),
   .frame true 10 (fun _ => [])]

def f4Start : Joint.St := { srv := { rates := [(0, .every), (3, .periodic 3)] } }

/-- Known finding F4, machine-checked on the model (the implementation replays it:
`findings/F4.trace`): the acknowledgement of the message that carried `A` alone moves the
entity's tick past `P`'s change, and `P = 2` is never sent — not at tick 3 or 6, where its
period fires — although the server holds it.  This is why the convergence theorem for an
already known client carries the hypothesis `NoPeriodicPending`. -/
theorem C01_known_finding_F4_witness :
    ((Joint.run f4Start f4Ops).2.map fun fr => fr.1.map fun o =>
        (o.2.update.map (fun u => u.changes.map (fun m => (m.ent, m.comps))), o.2.mutEnts.map (fun m => (m.ent, m.comps)))) =
      [[], [], [], [(some [(1, [(0, 1), (3, 1)])], [])], [], [], [(none, [(1, [(0, 2)])])], [],
       [(none, [])], [(none, [])], [(none, [])], [(none, [])]] := by
  rfl

theorem C01_known_finding_F4_server_value :
    ((Joint.run f4Start f4Ops).1.srv.world.map fun x => (x.1, x.2.comps.map fun c => (c.1, c.2.val))) = [(1, [(3, 2), (0, 2)])] := by
  rfl

/-- **The same visible replicated entities, over ALL histories, across both models**
(`Proofs/Session.lean`; the statement of `C03_history_session`): after any history — entity
identifiers not reused, a stopped server sees a frame before a restart, no pre-spawn mappings —
that ends with a frame in which `send_replication` ran, every authorized client that has applied,
in order, the update messages sent to it in its session holds exactly the server entities that
carry the replication marker and are visible to it, and applying those messages never failed.
(Mutate messages do not create or remove entities: the set depends on the update messages only,
so this is the "same visible replicated entities" clause of C01 whatever happened to the
unreliable channel.) -/
theorem C01_history_same_entities (s0 : Server) (hw : s0.world = []) (hc0 : s0.clients = []) (hb : s0.removalBuf = [])
    (ops : List Joint.Op) (ticked : Bool) (ms : Nat) (parts : Nat → List (List Nat))
    (hl : Joint.Legal2 { srv := s0 } (ops ++ [.frame ticked ms parts]))
    (hr : (Joint.run { srv := s0 } ops).1.srv.running = true)
    (hc : (preRun (Joint.run { srv := s0 } ops).1.srv ticked ms).tickChanged = true) :
    ∀ x ∈ (Joint.run { srv := s0 } (ops ++ [.frame ticked ms parts])).1.srv.clients, x.2.authorized = true →
      WF (Joint.replay ((Joint.runLog { srv := s0 } (fun _ => []) (ops ++ [.frame ticked ms parts])).2 x.1)) ∧
      ∀ se, held (Joint.replay ((Joint.runLog { srv := s0 } (fun _ => []) (ops ++ [.frame ticked ms parts])).2 x.1)) se ↔
        marked (Joint.run { srv := s0 } (ops ++ [.frame ticked ms parts])).1.srv.world se ∧
        Vis.isVisible (Joint.run { srv := s0 } (ops ++ [.frame ticked ms parts])).1.srv.white (cell x.2 se) = true :=
  Joint.session_view s0 hw hc0 hb ops ticked ms parts hl hr hc

/-- **… under any behaviour of the unreliable channel** (`Joint.session_view_any_schedule`): the
same statement for a receiver that gets the session's update messages in order and, anywhere in
between, arbitrary mutate messages — lost, duplicated, reordered, stale, or never sent by this
server at all (`Arrival`, `runArrivals`): it stays well-formed and holds exactly the replicated
entities visible to it.  The clause of C01 about *which entities* therefore holds for every
history of the server and every schedule of both channels that delivers the update messages. -/
theorem C01_history_same_entities_any_schedule (s0 : Server) (hw : s0.world = []) (hc0 : s0.clients = [])
    (hb : s0.removalBuf = []) (ops : List Joint.Op) (ticked : Bool) (ms : Nat) (parts : Nat → List (List Nat))
    (hl : Joint.Legal2 { srv := s0 } (ops ++ [.frame ticked ms parts]))
    (hr : (Joint.run { srv := s0 } ops).1.srv.running = true)
    (hc : (preRun (Joint.run { srv := s0 } ops).1.srv ticked ms).tickChanged = true) :
    ∀ x ∈ (Joint.run { srv := s0 } (ops ++ [.frame ticked ms parts])).1.srv.clients, x.2.authorized = true →
      ∀ arrivals : List Arrival,
        updatesOf arrivals = (Joint.runLog { srv := s0 } (fun _ => []) (ops ++ [.frame ticked ms parts])).2 x.1 →
        WF (runArrivals {} arrivals) ∧
        ∀ se, held (runArrivals {} arrivals) se ↔
          marked (Joint.run { srv := s0 } (ops ++ [.frame ticked ms parts])).1.srv.world se ∧
          Vis.isVisible (Joint.run { srv := s0 } (ops ++ [.frame ticked ms parts])).1.srv.white (cell x.2 se) = true :=
  Joint.session_view_any_schedule s0 hw hc0 hb ops ticked ms parts hl hr hc

/-- **… each with the same replicated components, over ALL histories, across both models**
(`Joint.session_components`; the statement of `C03_history_structure`): for every entity the
client holds, the client model fed the session's update messages in order has exactly the
replicated component kinds the server entity carries.  (Component *values* are C02's subject and
are checked on the implementation; see `C01_converges_partial`.) -/
theorem C01_history_same_components (s0 : Server) (hw : s0.world = []) (hc0 : s0.clients = []) (hb : s0.removalBuf = [])
    (ht : s0.lastRun < s0.now)
    (ops : List Joint.Op) (ticked : Bool) (ms : Nat) (parts : Nat → List (List Nat))
    (hl : Joint.Legal2 { srv := s0 } (ops ++ [.frame ticked ms parts]))
    (hr : (Joint.run { srv := s0 } ops).1.srv.running = true)
    (hc : (preRun (Joint.run { srv := s0 } ops).1.srv ticked ms).tickChanged = true) :
    ∀ x ∈ (Joint.run { srv := s0 } (ops ++ [.frame ticked ms parts])).1.srv.clients, x.2.authorized = true →
      ∀ e, e ∈ keys x.2 → ∀ ent, (e, ent) ∈ (Joint.run { srv := s0 } (ops ++ [.frame ticked ms parts])).1.srv.world →
        ∀ k, k ∈ kindsOn (Joint.replay ((Joint.runLog { srv := s0 } (fun _ => []) (ops ++ [.frame ticked ms parts])).2 x.1)) e ↔
          k ∈ presentKinds (Joint.run { srv := s0 } (ops ++ [.frame ticked ms parts])).1.srv ent :=
  Joint.session_components s0 hw hc0 hb ht ops ticked ms parts hl hr hc

/-- `C01_history_same_entities_any_schedule` for histories in which the tick also advances by more
than one at once (`Joint.OpJ`, `Proofs/Jump.lean`: `ServerTick::increment_by` under the manual tick
policy): after any such history that ends with a frame in which `send_replication` ran, a receiver
that gets the session's update messages in order and, anywhere in between, arbitrary mutate
messages stays well-formed and holds exactly the replicated entities visible to it. -/
theorem C01_history_same_entities_with_tick_jumps (s0 : Server) (hw : s0.world = []) (hc0 : s0.clients = [])
    (hb : s0.removalBuf = []) (ht : s0.lastRun < s0.now) (ops : List Joint.OpJ)
    (hl : Joint.LegalJ { srv := s0 } ops) (ticked : Bool) (ms : Nat) (parts : Nat → List (List Nat))
    (hr : (Joint.runLogJ { srv := s0 } (fun _ => []) ops).1.srv.running = true)
    (hc : (preRun (Joint.runLogJ { srv := s0 } (fun _ => []) ops).1.srv ticked ms).tickChanged = true) :
    ∀ x ∈ (Joint.step (Joint.runLogJ { srv := s0 } (fun _ => []) ops).1 (.frame ticked ms parts)).1.srv.clients,
      x.2.authorized = true →
      ∀ arrivals : List Arrival,
        updatesOf arrivals = Joint.logStep (Joint.runLogJ { srv := s0 } (fun _ => []) ops).1
          (Joint.runLogJ { srv := s0 } (fun _ => []) ops).2 (.frame ticked ms parts) x.1 →
        WF (runArrivals {} arrivals) ∧
        ∀ se, held (runArrivals {} arrivals) se ↔
          marked (Joint.step (Joint.runLogJ { srv := s0 } (fun _ => []) ops).1 (.frame ticked ms parts)).1.srv.world se ∧
          Vis.isVisible (Joint.step (Joint.runLogJ { srv := s0 } (fun _ => []) ops).1 (.frame ticked ms parts)).1.srv.white
            (cell x.2 se) = true :=
  Joint.session_any_schedule_with_jumps s0 hw hc0 hb ht ops hl ticked ms parts hr hc

end Replicon.C01
