import Replicon.Proofs.Client
/-
C01 — Every client converges to the server state under any legal network schedule.

Models: `Model/Server.lean`, `Model/Client.lean`, in lock step with the real apps on every
generated trace; convergence itself is evaluated on the *implementation* at the end of every
trace (a quiescent suffix of PERIOD+4 ticks with full in-order delivery, then client view =
server view for every authorized client), and panics of either app are caught.

Proved here are the two halves of a convergence argument — *progress* (whatever the client
lacks is in the next run's messages) and *stability* (once nothing is lacking, the run is
silent and the client's frame changes nothing) — per run.  `C01_converges_partial`: the
induction over an arbitrary legal history that joins them (the invariant that the server's
belief `mutTick` never runs ahead of what the client has applied) is not proved as one theorem.
Known findings outside the theorems: F4 (periodic components), F20 (tick-0 race).
-/
namespace Replicon.C01
open Replicon Replicon.Srv Replicon.Cli

/-- Progress, structure: an entity the client was never sent and may see is in the run's
update message, whole. -/
theorem C01_progress_structure (s : Server) (thisRun : Nat) (cl : Cli)
    (hd : s.despawnBuf = []) (hl : NoLost s.white cl) (hk : ∀ e, aget cl.mutTick e = none)
    (e : Nat) (ent : SEnt) (m : Nat) (hw : (e, ent) ∈ s.world) (hm : ent.marker = some m)
    (hv : visState s cl e ≠ .hidden) :
    ∃ u, (runClient s thisRun cl).2.update = some u ∧
      ({ ent := e, comps := (present s ent).map fun x => (x.1, x.2.2.val) } : MsgEnt) ∈ u.changes :=
  runClient_full_state s thisRun cl hd hl hk e ent m hw hm hv

/-- Progress, values: a value newer than what the server believes the client has is in the
run's messages whenever the component's send rate fires (every tick for ordinary components;
at the period tick for periodic ones — that is the "catch up at their next period tick"). -/
theorem C01_progress_values (s : Server) (thisRun : Nat) (cl : Cli) (e : Nat) (ent : SEnt) (m t : Nat)
    (k : Nat) (r : Rate) (c : Comp)
    (hvis : visState s cl e = .visible) (hk : aget cl.mutTick e = some t)
    (hold : ¬ m > s.lastRun) (hm : (k, r, c) ∈ present s ent)
    (hadded : ¬ c.added > s.lastRun) (hchanged : c.changed > t) (hrate : r.sendMutations s.tick = true) :
    (∃ u, (collectEntity s thisRun cl e ent m).toUpdate = some u ∧ (k, c.val) ∈ u.comps) ∨
    (∃ u, (collectEntity s thisRun cl e ent m).toMutate = some u ∧ (k, c.val) ∈ u.comps) :=
  collect_resend s thisRun cl e ent m t k r c hvis hk hold hm hadded hchanged hrate

/-- Progress, despawns: an entity that left replication and that the client could see is in
the run's DESPAWNS. -/
theorem C01_progress_despawn (s : Server) (cl : Cli) (e : Nat) (hm : e ∈ s.despawnBuf)
    (hv : Vis.isVisible s.white (cell cl e) = true) : e ∈ (despawnPhase s cl).2 :=
  despawnPhase_sends s cl e hm hv

/-- Stability, server: when nothing is pending and there is nothing to say about any
replicated entity, the run sends nothing and changes nothing. -/
theorem C01_stable_server (s : Server) (thisRun : Nat) (cl : Cli)
    (hd : s.despawnBuf = []) (hr : s.removalBuf = []) (hm : cl.mappings = []) (hl : NoLost s.white cl)
    (hq : ∀ e ent m, (e, ent) ∈ s.world → ent.marker = some m → Quiet s cl e ent m) :
    runClient s thisRun cl = (cl, { update := none, mutEnts := [] }) :=
  runClient_idle s thisRun cl hd hr hm hl hq

/-- Stability, client: a frame without messages and with nothing applicable buffered leaves the
client's replicated state exactly as it was (`acks` and `notified` are the frame's outputs:
what it acknowledged and which ticks it reported as fully received). -/
theorem C01_stable_client (c : Client) (hc : c.connected = true) (hl : c.lastNotDisconnected = true)
    (hb : c.buffered = []) (ha : c.acks = []) (hn : c.notified = []) : frame c [] [] = c := by
  unfold frame applyBuffered
  cases c
  simp_all

/-- Non-vacuity: one round trip on the models — spawn, run, apply: the client holds the entity
with the server's values, and the next run is silent. -/
example :
    let s : Server := { rates := [(0, .every)], running := true, now := 5, lastRun := 2, tick := 1,
                        world := [(3, { marker := some 4, comps := [(0, { val := 8, added := 4, changed := 4 })] })] }
    let r := runClient s 6 { authorized := true }
    r.2.update = some { tick := 1, changes := [{ ent := 3, comps := [(0, 8)] }] } ∧
    (applyUpdate { connected := true } { tick := 1, changes := [{ ent := 3, comps := [(0, 8)] }] }).world
      = [(0, { marked := true, comps := [(0, 8)], hist := some 1 })] := by
  decide

end Replicon.C01
