import Replicon.Proofs.Client
import Replicon.Proofs.WrapClient
import Replicon.Proofs.SentVals
import Replicon.Proofs.FrameVals
import Replicon.Proofs.FramePerfect
import Replicon.Proofs.Belief
/-
C02 — Confirmed tick is truthful.

Models: `Model/Server.lean` (what a run sends for an entity and how the server's belief
`mutTick` moves), `Model/Client.lean` (how records are applied), both in lock step with the real
apps.  Proved: the facts that make the confirmed tick truthful; the composition over whole
histories — `C02_truthful_partial`: "for every reachable state the client's values equal the
server's at the confirmed tick" — is evaluated as an oracle on the implementation after every
client frame and is not proved as one theorem (it needs the history invariant relating `mutTick`
to the in-flight messages).  Known finding F20 is a violation of that invariant's base case.
-/
namespace Replicon.C02
open Replicon Replicon.Srv Replicon.Cli

/-- A mutate record is applied to an entity completely — tick confirmed *and* every component
of the record written — or not at all: never a mixture of two ticks from one message. -/
theorem C02_record_atomic (c : Client) (tick : Nat) (m : MsgEnt) (c' : Client)
    (h : applyMutEnt c tick m = .ok c') :
    c' = c ∨ ∃ ce last, aget c.s2c m.ent = some ce ∧ (∃ ent, aget c.world ce = some ent ∧ ent.hist = some last) ∧
      last < tick ∧ c' = writeComps (confirm c ce tick) ce m.comps :=
  applyMutEnt_atomic c tick m c' h

/-- The confirmed tick never moves backwards through a mutate record: the record is applied
only if its tick is newer than the confirmed one. -/
theorem C02_monotone (c : Client) (tick : Nat) (m : MsgEnt) (c' : Client) (ce : Nat) (ent : CEnt) (last : Nat)
    (h : applyMutEnt c tick m = .ok c') (hs : aget c.s2c m.ent = some ce) (hw : aget c.world ce = some ent)
    (hh : ent.hist = some last) (hold : ¬ tick > last) : c' = c := by
  unfold applyMutEnt at h
  simp only [hs, hw, hh, if_neg hold] at h
  cases h; rfl

/-- What the server sends for an entity it believes the client has at tick `t`: *every*
continuously replicated component changed after `t` (so the record brings the entity to the
run's tick as a whole), in closed form. -/
theorem C02_record_complete (s : Server) (thisRun : Nat) (cl : Cli) (e : Nat) (ent : SEnt) (m t : Nat)
    (k : Nat) (c : Comp)
    (hvis : visState s cl e = .visible) (hk : aget cl.mutTick e = some t)
    (hold : ¬ m > s.lastRun) (hm : (k, Rate.every, c) ∈ present s ent)
    (hadded : ¬ c.added > s.lastRun) (hchanged : c.changed > t) :
    (∃ u, (collectEntity s thisRun cl e ent m).toUpdate = some u ∧ (k, c.val) ∈ u.comps) ∨
    (∃ u, (collectEntity s thisRun cl e ent m).toMutate = some u ∧ (k, c.val) ∈ u.comps) :=
  collect_resend s thisRun cl e ent m t k .every c hvis hk hold hm hadded hchanged rfl

/-- The server's belief moves only by acknowledgements of messages that contained the entity,
and only up to the tick of that message's run (`C11_ack_sound`), and (F1 repair) the client
acknowledges a message only in the frame in which it applies it: -/
theorem C02_ack_on_apply (c : Client) :
    (applyBuffered c).acks = c.acks ++ ((c.buffered.filter fun m => !(m.updateTick > c.updateTick)).map (·.index)) ∧
    (applyBuffered c).buffered = c.buffered.filter fun m => m.updateTick > c.updateTick :=
  applyBuffered_acks c

/-- Non-vacuity: the F1 scenario on the repaired model.  A mutate message for tick 2 that
depends on update tick 1 arrives first: it stays buffered and unacknowledged; when the updates
of ticks 1 and 3 arrive together it is applied (and skipped as outdated for the entity
confirmed at tick 3 — whose record of tick 3 carried the value, because the server had no
acknowledgement). -/
example :
    let m : Mutate := { updateTick := 1, tick := 2, index := 0, ents := [{ ent := 0, comps := [(0, 2)] }] }
    let c1 := frame { connected := true, lastNotDisconnected := true } [] [m]
    c1.acks = [] ∧ c1.buffered = [m] := by
  decide

/-- Known finding F20, machine-checked on the client model (replay: `findings/F20.trace`): a
mutate message that carries update tick 0 and overtakes the tick-0 update message is
acknowledged at once (index 0) and applied to nothing; the update message that follows brings
the older value, and the client confirms the entity at tick 0 with `5` while the server had
sent `9`.  Hypothesis `NoMutateBeforeFirstUpdateAtTickZero` of the end-to-end statement. -/
theorem C02_known_finding_F20_witness :
    let c : Client := { connected := true, lastNotDisconnected := true }
    let m : Mutate := { updateTick := 0, tick := 2, index := 0, ents := [{ ent := 7, comps := [(0, 9)] }] }
    let c1 := frame c [] [m]
    let c2 := frame c1 [{ tick := 0, changes := [{ ent := 7, comps := [(0, 5)] }] }] []
    c1.acks = [0] ∧ c1.buffered = [] ∧ c2.world = [(0, { marked := true, comps := [(0, 5)], hist := some 0 })] := by
  decide

/-- **Across the 32-bit wrap.**  The client model keeps ticks as unbounded naturals and applies a
mutate record iff its tick is larger than the entity's confirmed tick; the code holds `u32` ticks
and compares them in the wrapping order.  Whenever the message tick is less than half the counter
range away from the confirmed tick of the entity the record names — in particular across the wrap
point — the two decisions, and so the resulting client states, are the same. -/
theorem C02_tick_decision_across_wrap (c : Client) (tick : Nat) (m : MsgEnt) (h : Cli.NearHist c tick m) :
    Cli.applyMutEntW c tick m = Cli.applyMutEnt c tick m :=
  Cli.applyMutEntW_eq c tick m h

/-- … and the gate of `apply_mutate_messages` (a mutate message waits for its update message). -/
theorem C02_gate_across_wrap (updateTick mUpdateTick : Nat) (h : Near mUpdateTick updateTick) :
    Cli.readyW updateTick mUpdateTick = decide (mUpdateTick ≤ updateTick) :=
  Cli.readyW_eq updateTick mUpdateTick h

/-- The wrapping order is needed: with the residues compared as plain numbers a record of tick
2^32 + 3 for an entity confirmed at tick 2^32 − 5 is skipped as outdated, while the model and the
wrapping comparison apply it (the hypothesis of `C02_tick_decision_across_wrap` holds for this
state).  This is the seeded change C02-e; the wrap-around cases of profile `sys` exhibit it on the
implementation. -/
theorem C02_raw_comparison_skips_newer :
    Cli.NearHist Cli.wrapWitness 4294967299 { ent := 0, comps := [(0, 2)] } ∧
    Cli.worldOf (Cli.applyMutEnt Cli.wrapWitness 4294967299 { ent := 0, comps := [(0, 2)] }) =
      [(0, { marked := true, comps := [(0, 2)], hist := some 4294967299 })] ∧
    Cli.worldOf (Cli.applyMutEntW Cli.wrapWitness 4294967299 { ent := 0, comps := [(0, 2)] }) =
      [(0, { marked := true, comps := [(0, 2)], hist := some 4294967299 })] ∧
    Cli.worldOf (Cli.applyMutEntRaw Cli.wrapWitness 4294967299 { ent := 0, comps := [(0, 2)] }) = Cli.wrapWitness.world :=
  Cli.raw_skips_newer

/-- **What an update message says about a component is the server's current value — over ALL
histories, across both models** (`Proofs/SentVals.lean`).  After any history of the joint server
model (entity identifiers not reused, a stopped server sees a frame before a restart, no pre-spawn
mappings; rules for distinct components), in the next frame of a running server, for every client
and every record of the CHANGES section of the update message sent to it — a new entity, an
insertion, or the pending mutations that must travel with an insertion or a removal — the record
names an entity of the server's world and the client model that was fed the session's update
messages in order and applies this one has, for every plain component kind the record names,
exactly the value the component has on the server in that tick.  (With `C02_record_complete`: the
record names every every-tick component changed since the server's belief.) -/
theorem C02_history_update_record_values (s0 : Server) (hw : s0.world = []) (hc0 : s0.clients = []) (hb : s0.removalBuf = [])
    (hrates : (s0.rates.map (·.1)).Nodup)
    (ops : List Joint.Op) (hl : Joint.Legal2 { srv := s0 } ops) (ticked : Bool) (ms : Nat)
    (hr : (Joint.run { srv := s0 } ops).1.srv.running = true)
    (z : Nat × Cli) (hz : z ∈ (Joint.run { srv := s0 } ops).1.srv.clients)
    (u : Update)
    (hu : (runClient (preRun (Joint.run { srv := s0 } ops).1.srv ticked ms)
        ((preRun (Joint.run { srv := s0 } ops).1.srv ticked ms).now + 1) (preG (Joint.run { srv := s0 } ops).1.srv ms z.2)).2.update = some u)
    (r : MsgEnt) (hrec : r ∈ u.changes) :
    ∃ ent, (r.ent, ent) ∈ (Joint.run { srv := s0 } ops).1.srv.world ∧
      ∀ k, k ∈ r.comps.map (·.1) →
        (Joint.replay ((Joint.runLog { srv := s0 } (fun _ => []) ops).2 z.1)).entityComps.contains k = false →
        ∃ rt comp, (k, rt, comp) ∈ present (Joint.run { srv := s0 } ops).1.srv ent ∧
          Cli.valOn (Cli.applyUpdate (Joint.replay ((Joint.runLog { srv := s0 } (fun _ => []) ops).2 z.1)) u) r.ent k = some comp.val :=
  Joint.history_update_record_values s0 hw hc0 hb hrates ops hl ticked ms hr z hz u hu r hrec

/-- **… and what a mutate message says**: every record `collect_changes` puts into the mutate
messages of a run (any server state, any client) names an entity of the server's world and
carries, for each of its kinds, the component's current value; a well-formed receiver that maps
the entity to a live entity confirmed at an older tick has exactly these values afterwards, and
every other value of every entity is unchanged (all or nothing per record: `C02_record_atomic`). -/
theorem C02_mutate_record_values (p : Server) (hrates : (p.rates.map (·.1)).Nodup)
    (x : Nat × Cli) (r : MsgEnt) (hr : r ∈ (runClient p (p.now + 1) x.2).2.mutEnts)
    (c : Client) (wf : WF c) (tick : Nat) (ce : Nat) (cent : CEnt) (last : Nat)
    (hs : aget c.s2c r.ent = some ce) (hw : aget c.world ce = some cent) (hh : cent.hist = some last) (hnew : tick > last) :
    ∃ ent c', (r.ent, ent) ∈ p.world ∧ Cli.applyMutEnt c tick r = .ok c' ∧ WF c' ∧
      (∀ k, k ∈ r.comps.map (·.1) → c.entityComps.contains k = false →
        ∃ rt comp, (k, rt, comp) ∈ present p ent ∧ Cli.valOn c' r.ent k = some comp.val) ∧
      (∀ se k, c.entityComps.contains k = false → ¬ (aget c.s2c se = some ce ∧ k ∈ r.comps.map (·.1)) →
        Cli.valOn c' se k = Cli.valOn c se k) :=
  frame_mutate_record_values p hrates x r hr c wf tick ce cent last hs hw hh hnew

/-- Non-vacuity of `C02_history_update_record_values`: entity 5 is known to client 0; an insertion
of kind 1 and a mutation of kind 0 in the same tick travel in one CHANGES record, and the replayed
client has the server's values 9 and 8 afterwards. -/
example :
    let s0 : Server := { rates := [(0, .every), (1, .every)] }
    let ops : List Joint.Op :=
      [.start, .connect 0 true, .spawn 5 true [(0, 7)], .frame true 10 (fun _ => []), .insert 5 1 9, .mutate 5 0 8]
    Joint.Legal2 { srv := s0 } ops ∧ (Joint.run { srv := s0 } ops).1.srv.running = true ∧
    ((Joint.frame (Joint.run { srv := s0 } ops).1 true 10 (fun _ => [])).2.1.map fun o =>
      (o.1, o.2.update.map fun u => u.changes.map fun m => (m.ent, m.comps))) = [(0, some [(5, [(1, 9), (0, 8)])])] ∧
    Cli.valOn (Joint.replay ((Joint.runLog { srv := s0 } (fun _ => []) (ops ++ [.frame true 10 (fun _ => [])])).2 0)) 5 0 = some 8 ∧
    Cli.valOn (Joint.replay ((Joint.runLog { srv := s0 } (fun _ => []) (ops ++ [.frame true 10 (fun _ => [])])).2 0)) 5 1 = some 9 := by
  refine ⟨by decide, by decide, by rfl, by decide, by decide⟩

/-- **An update message changes only the values it names** (`Proofs/UpdateVals.lean`): for a
well-formed client and an update message without pre-spawn mappings whose records have distinct
kinds, the plain component `k` of server entity `se` keeps its value unless `se` is in DESPAWNS,
a REMOVALS record names `se` and `k`, or a CHANGES record for `se` names `k`. -/
theorem C02_update_changes_only_named_values (c : Client) (u : Update) (wf : WF c) (hm : u.mappings = []) (se k : Nat)
    (hplain : c.entityComps.contains k = false)
    (hd : se ∉ u.despawns) (hr : ∀ r ∈ u.removals, ¬ (se = r.1 ∧ k ∈ r.2))
    (hnd : ∀ m ∈ u.changes, (m.comps.map (·.1)).Nodup)
    (hc : ∀ m ∈ u.changes, ¬ (se = m.ent ∧ k ∈ m.comps.map (·.1))) :
    Cli.valOn (Cli.applyUpdate c u) se k = Cli.valOn c se k :=
  Cli.applyUpdate_vals_other c u wf hm se k hplain hd hr hnd hc

/-- **Every component the run has something to say about is named in a record**
(`Proofs/FrameVals.lean`; any server state, any client, any visible entity): a present component is
named by the entity's CHANGES record or by its mutate record — whose values are the current ones,
`C02_history_update_record_values`, `C02_mutate_record_values` — unless the entity is known to the
client at some tick `t`, is not fresh, and the component was neither added in this tick window nor
changed after `t` with a send rate that fires in this tick.  Together with
`C02_update_changes_only_named_values`: what is not named is not touched, and what is not named
has not changed since the server's belief. -/
theorem C02_pending_component_is_named (s : Server) (thisRun : Nat) (cl : Cli) (e : Nat) (ent : SEnt) (m : Nat)
    (hv : visState s cl e ≠ Vis.State.hidden) (k : Nat) (r : Rate) (comp : Comp)
    (hp : (k, r, comp) ∈ present s ent) :
    (∃ rec, (collectEntity s thisRun cl e ent m).toUpdate = some rec ∧ k ∈ rec.comps.map (·.1)) ∨
    (∃ rec, (collectEntity s thisRun cl e ent m).toMutate = some rec ∧ k ∈ rec.comps.map (·.1)) ∨
    (∃ t, aget cl.mutTick e = some t ∧ ¬ m > s.lastRun ∧ visState s cl e ≠ Vis.State.gained ∧
      ¬ comp.added > s.lastRun ∧ ¬ (comp.changed > t ∧ r.sendMutations s.tick = true)) := by
  by_cases hpath : compPath s (aget cl.mutTick e) (decide (m > s.lastRun) || decide (visState s cl e = Vis.State.gained)) r comp = Path.nothing
  · obtain ⟨t, h1, h2, h3, h4⟩ := compPath_nothing s _ _ r comp hpath
    simp only [Bool.or_eq_false_iff, decide_eq_false_iff_not] at h2
    exact Or.inr (Or.inr ⟨t, h1, h2.1, h2.2, h3, h4⟩)
  · rcases collect_named s thisRun cl e ent m hv k r comp hp hpath with h | h
    · exact Or.inl h
    · exact Or.inr (Or.inl h)

/-- **One replication run, both sides, EVERY value — under perfect delivery** (`Proofs/Untouched.lean`,
`MutFold.lean`, `FrameServer.lean`, `FramePerfect.lean`).  In a server state that satisfies the
invariants of the history theorems (`SyncInv`, `RemovalsMarked`, `KindInv`; rules for distinct
components), for a client without pending pre-spawn mapping whose belief ticks are not ahead of the
last run, and a well-formed receiver that
  * holds exactly the entities the server tracks for the client,
  * has every tracked entity confirmed at a tick older than this run's, and
  * has the server's value of every every-tick plain component that was neither added nor changed
    since the last run:
after the receiver applies the run's update message (if any) and then every record of the run's
mutate messages (`recvRun`), it has, for EVERY entity the server tracks for the client after the
run and EVERY every-tick plain component of it, exactly the server's current value.  This is the
inductive step of "the client's values are the server's after every run" for a link that loses
nothing: the third hypothesis is what the conclusion gives for the next run, because every change
between two runs is stamped after the earlier one (Bevy's change ticks).  What is not proved is
the induction itself over `Joint.Op` (the other two receiver hypotheses and `hbel` as invariants
of histories), and nothing is claimed for links that lose mutate messages — there the argument
goes through the acknowledgements (`C11_ack_sound`) and is checked by the value oracle. -/
theorem C02_run_values_perfect_delivery (p : Server) (x : Nat × Cli) (c : Client) (ctx : RunCtx p x c)
    (hbel : ∀ e t, aget x.2.mutTick e = some t → t ≤ p.lastRun)
    (hready : ∀ e, e ∈ keys x.2 → Cli.Ready p.tick c e)
    (hQ : ∀ e, e ∈ keys x.2 → ∀ ent, (e, ent) ∈ p.world → ∀ k comp, (k, Rate.every, comp) ∈ present p ent →
      c.entityComps.contains k = false → ¬ comp.added > p.lastRun → ¬ comp.changed > p.lastRun →
      Cli.valOn c e k = some comp.val)
    (e : Nat) (he : e ∈ keys (runClient p (p.now + 1) x.2).1) (ent : SEnt) (hw : (e, ent) ∈ p.world)
    (k : Nat) (comp : Comp) (hp : (k, Rate.every, comp) ∈ present p ent) (hplain : c.entityComps.contains k = false) :
    Cli.valOn (recvRun c (runClient p (p.now + 1) x.2).2 p.tick) e k = some comp.val :=
  frame_values_perfect p x c ctx hbel hready hQ e he ent hw k comp hp hplain

/-- The run of `C02_run_values_perfect_delivery` on a concrete history: entity 5 is known to client 0
with components 7 and 2; component 0 is mutated to 9; the next run sends no update message and one
mutate record `(5, [(0, 9)])`; the receiver fed the session's update messages has 9 and 2
afterwards.  (The hypotheses of the theorem are the invariants `Joint.sync_run`, `Joint.rem_run`
and `Joint.ksess_run` establish for every history.) -/
example :
    let s0 : Server := { rates := [(0, .every), (1, .every)] }
    let ops : List Joint.Op :=
      [.start, .connect 0 true, .spawn 5 true [(0, 7), (1, 2)], .frame true 10 (fun _ => []), .mutate 5 0 9]
    let p := preRun (Joint.run { srv := s0 } ops).1.srv true 10
    let c := Joint.replay ((Joint.runLog { srv := s0 } (fun _ => []) ops).2 0)
    (p.clients.map fun x => ((runClient p (p.now + 1) x.2).2.update.isSome,
      (runClient p (p.now + 1) x.2).2.mutEnts.map fun m => (m.ent, m.comps))) = [(false, [(5, [(0, 9)])])] ∧
    (p.clients.map fun x => Cli.valOn (recvRun c (runClient p (p.now + 1) x.2).2 p.tick) 5 0) = [some 9] ∧
    (p.clients.map fun x => Cli.valOn (recvRun c (runClient p (p.now + 1) x.2).2 p.tick) 5 1) = [some 2] ∧
    Cli.valOn c 5 0 = some 7 := by
  refine ⟨by rfl, by decide, by decide, by decide⟩

/-- **… after ANY history** (`Proofs/Belief.lean`): every server-side hypothesis of
`C02_run_values_perfect_delivery` is an invariant of histories (`SyncInv`, `RemInv`, `KindInv`, and
the belief bound `C11_history_belief`), so after any history of the joint server model (entity
identifiers not reused, a stopped server sees a frame before a restart, no pre-spawn mappings;
rules for distinct components), in the next frame of a running server and for every client, only
the three hypotheses about the receiver remain: it holds the tracked entities, has each confirmed
at an older tick, and has the current value of every every-tick plain component neither added nor
changed since the last run.  Then it has, after the run's update message and every record of its
mutate messages, the current value of every every-tick plain component of every entity tracked
after the run. -/
theorem C02_history_run_values_perfect_delivery (s0 : Server) (hw : s0.world = []) (hc0 : s0.clients = [])
    (hb : s0.removalBuf = []) (ht : s0.lastRun < s0.now) (hrates : (s0.rates.map (·.1)).Nodup)
    (ops : List Joint.Op) (hl : Joint.Legal2 { srv := s0 } ops) (ticked : Bool) (ms : Nat)
    (hr : (Joint.run { srv := s0 } ops).1.srv.running = true)
    (z : Nat × Cli) (hz : z ∈ (Joint.run { srv := s0 } ops).1.srv.clients)
    (c : Client) (wf : WF c) (hh : ∀ se, held c se ↔ se ∈ keys z.2)
    (hready : ∀ e, e ∈ keys z.2 → Cli.Ready (preRun (Joint.run { srv := s0 } ops).1.srv ticked ms).tick c e)
    (hQ : ∀ e, e ∈ keys z.2 → ∀ ent, (e, ent) ∈ (Joint.run { srv := s0 } ops).1.srv.world → ∀ k comp,
      (k, Rate.every, comp) ∈ present (Joint.run { srv := s0 } ops).1.srv ent →
      c.entityComps.contains k = false → ¬ comp.added > (Joint.run { srv := s0 } ops).1.srv.lastRun →
      ¬ comp.changed > (Joint.run { srv := s0 } ops).1.srv.lastRun → Cli.valOn c e k = some comp.val)
    (e : Nat)
    (he : e ∈ keys (runClient (preRun (Joint.run { srv := s0 } ops).1.srv ticked ms)
      ((preRun (Joint.run { srv := s0 } ops).1.srv ticked ms).now + 1) (preG (Joint.run { srv := s0 } ops).1.srv ms z.2)).1)
    (ent : SEnt) (hwld : (e, ent) ∈ (Joint.run { srv := s0 } ops).1.srv.world)
    (k : Nat) (comp : Comp) (hp : (k, Rate.every, comp) ∈ present (Joint.run { srv := s0 } ops).1.srv ent)
    (hplain : c.entityComps.contains k = false) :
    Cli.valOn (recvRun c (runClient (preRun (Joint.run { srv := s0 } ops).1.srv ticked ms)
      ((preRun (Joint.run { srv := s0 } ops).1.srv ticked ms).now + 1) (preG (Joint.run { srv := s0 } ops).1.srv ms z.2)).2
      (preRun (Joint.run { srv := s0 } ops).1.srv ticked ms).tick) e k = some comp.val :=
  Joint.history_run_values_perfect s0 hw hc0 hb ht hrates ops hl ticked ms hr z hz c wf hh hready hQ e he ent hwld k comp hp hplain

end Replicon.C02
