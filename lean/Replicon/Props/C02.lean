import Replicon.Proofs.Client
/-
C02 — Confirmed tick is truthful.

Models: `Model/Server.lean` (what a run sends for an entity and how the server's belief
`mutTick` moves), `Model/Client.lean` (how records are applied), both in lock step with the real
apps.  Proved: the facts that make the confirmed tick truthful; the composition over whole
histories — `C02_truthful_partial`: "for every reachable state the client's values equal the
server's at the confirmed tick" — is evaluated as an oracle on the implementation after every
client frame and is not proved as one theorem (it needs the history invariant relating `mutTick`
to the in-flight messages).  Known finding F20 is a violation of that invariant's base case.
-/
namespace Replicon.C02
open Replicon Replicon.Srv Replicon.Cli

/-- A mutate record is applied to an entity completely — tick confirmed *and* every component
of the record written — or not at all: never a mixture of two ticks from one message. -/
theorem C02_record_atomic (c : Client) (tick : Nat) (m : MsgEnt) (c' : Client)
    (h : applyMutEnt c tick m = .ok c') :
    c' = c ∨ ∃ ce last, aget c.s2c m.ent = some ce ∧ (∃ ent, aget c.world ce = some ent ∧ ent.hist = some last) ∧
      last < tick ∧ c' = writeComps (confirm c ce tick) ce m.comps :=
  applyMutEnt_atomic c tick m c' h

/-- The confirmed tick never moves backwards through a mutate record: the record is applied
only if its tick is newer than the confirmed one. -/
theorem C02_monotone (c : Client) (tick : Nat) (m : MsgEnt) (c' : Client) (ce : Nat) (ent : CEnt) (last : Nat)
    (h : applyMutEnt c tick m = .ok c') (hs : aget c.s2c m.ent = some ce) (hw : aget c.world ce = some ent)
    (hh : ent.hist = some last) (hold : ¬ tick > last) : c' = c := by
  unfold applyMutEnt at h
  simp only [hs, hw, hh, if_neg hold] at h
  cases h; rfl

/-- What the server sends for an entity it believes the client has at tick `t`: *every*
continuously replicated component changed after `t` (so the record brings the entity to the
run's tick as a whole), in closed form. -/
theorem C02_record_complete (s : Server) (thisRun : Nat) (cl : Cli) (e : Nat) (ent : SEnt) (m t : Nat)
    (k : Nat) (c : Comp)
    (hvis : visState s cl e = .visible) (hk : aget cl.mutTick e = some t)
    (hold : ¬ m > s.lastRun) (hm : (k, Rate.every, c) ∈ present s ent)
    (hadded : ¬ c.added > s.lastRun) (hchanged : c.changed > t) :
    (∃ u, (collectEntity s thisRun cl e ent m).toUpdate = some u ∧ (k, c.val) ∈ u.comps) ∨
    (∃ u, (collectEntity s thisRun cl e ent m).toMutate = some u ∧ (k, c.val) ∈ u.comps) :=
  collect_resend s thisRun cl e ent m t k .every c hvis hk hold hm hadded hchanged rfl

/-- The server's belief moves only by acknowledgements of messages that contained the entity,
and only up to the tick of that message's run (`C11_ack_sound`), and (F1 repair) the client
acknowledges a message only in the frame in which it applies it: -/
theorem C02_ack_on_apply (c : Client) :
    (applyBuffered c).acks = c.acks ++ ((c.buffered.filter fun m => !(m.updateTick > c.updateTick)).map (·.index)) ∧
    (applyBuffered c).buffered = c.buffered.filter fun m => m.updateTick > c.updateTick :=
  applyBuffered_acks c

/-- Non-vacuity: the F1 scenario on the repaired model.  A mutate message for tick 2 that
depends on update tick 1 arrives first: it stays buffered and unacknowledged; when the updates
of ticks 1 and 3 arrive together it is applied (and skipped as outdated for the entity
confirmed at tick 3 — whose record of tick 3 carried the value, because the server had no
acknowledgement). -/
example :
    let m : Mutate := { updateTick := 1, tick := 2, index := 0, ents := [{ ent := 0, comps := [(0, 2)] }] }
    let c1 := frame { connected := true, lastNotDisconnected := true } [] [m]
    c1.acks = [] ∧ c1.buffered = [m] := by
  decide

/-- Known finding F20, machine-checked on the client model (replay: `findings/F20.trace`): a
mutate message that carries update tick 0 and overtakes the tick-0 update message is
acknowledged at once (index 0) and applied to nothing; the update message that follows brings
the older value, and the client confirms the entity at tick 0 with `5` while the server had
sent `9`.  Hypothesis `NoMutateBeforeFirstUpdateAtTickZero` of the end-to-end statement. -/
theorem C02_known_finding_F20_witness :
    let c : Client := { connected := true, lastNotDisconnected := true }
    let m : Mutate := { updateTick := 0, tick := 2, index := 0, ents := [{ ent := 7, comps := [(0, 9)] }] }
    let c1 := frame c [] [m]
    let c2 := frame c1 [{ tick := 0, changes := [{ ent := 7, comps := [(0, 5)] }] }] []
    c1.acks = [0] ∧ c1.buffered = [] ∧ c2.world = [(0, { marked := true, comps := [(0, 5)], hist := some 0 })] := by
  decide

end Replicon.C02
