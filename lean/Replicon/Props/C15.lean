import Replicon.Proofs.EntityCodec
/-
C15 — Entity wire encoding is lossless and decoding is total.

Model: `Replicon/Model/EntityCodec.lean` (`serialize_entity`, `deserialize_entity`,
`Entity::try_from_bits`), `Replicon/Model/Varint.lean` (postcard varints).
-/
namespace Replicon.C15
open Replicon

/-- Every valid entity survives encoding and decoding unchanged, and the decoder consumes
exactly the bytes the encoder produced even when they are followed by arbitrary `rest`. -/
theorem C15_roundtrip (idx gen : Nat) (rest : List Nat) (h : ValidEntity idx gen) :
    decodeEntity (encodeEntity idx gen ++ rest) = .ok ((idx, gen), rest) := by
  obtain ⟨hi, hg1, hg2⟩ := h
  unfold encodeEntity decodeEntity
  by_cases hg : gen > 1
  · rw [if_pos hg, List.append_assoc, decodeU64_encode _ _ (by omega)]
    show (decodeGeneration (idx * 2 + 1) (encodeU32 (gen - 1) ++ rest)).bind _ = _
    rw [decodeGeneration_flag idx gen rest hg hg2]
    show entityFromParts gen (idx * 2 + 1) rest = _
    unfold entityFromParts
    have h2 : (idx * 2 + 1) / 2 = idx := by omega
    rw [h2, or_pack idx hi, tryFromBits_pack idx gen hi hg1 hg2]
  · have hgen : gen = 1 := by omega
    subst hgen
    rw [if_neg hg, decodeU64_encode _ _ (by omega)]
    show (decodeGeneration (idx * 2) rest).bind _ = _
    rw [decodeGeneration_noflag]
    show entityFromParts 1 (idx * 2) rest = _
    unfold entityFromParts
    have h2 : (idx * 2) / 2 = idx := by omega
    rw [h2, or_pack idx hi, tryFromBits_pack idx 1 hi (by omega) (by omega)]

/-- The encoder only produces bytes. -/
theorem C15_encode_bytes (idx gen : Nat) : BytesOk (encodeEntity idx gen) := by
  unfold encodeEntity
  split
  · intro b hb
    rcases List.mem_append.mp hb with hb | hb
    · exact encodeVarintLoop_bytesOk _ _ b hb
    · exact encodeVarintLoop_bytesOk _ _ b hb
  · exact encodeVarintLoop_bytesOk _ _

/-- Shape of every decode result: an error, or a valid identifier plus a proper suffix. -/
theorem decodeEntity_shape (bs : List Nat) :
    decodeEntity bs = .err ∨
    ∃ idx gen rest, decodeEntity bs = .ok ((idx, gen), rest) ∧ ValidEntity idx gen ∧
      ∃ pre, pre ≠ [] ∧ bs = pre ++ rest := by
  unfold decodeEntity decodeU64
  rcases decodeVarintLoop_total 1 10 1 0 bs with h | ⟨fi, r1, h, pre1, hp1, hb1⟩
  · left; rw [h]; rfl
  · rw [h]
    show (decodeGeneration fi r1).bind _ = _ ∨ ∃ idx gen rest, (decodeGeneration fi r1).bind _ = _ ∧ _
    rcases decodeGeneration_total fi r1 with h2 | ⟨g, r, h2, pre2, hb2⟩
    · left; rw [h2]; rfl
    · rw [h2]
      show entityFromParts g fi r = _ ∨ ∃ idx gen rest, entityFromParts g fi r = _ ∧ _
      rcases entityFromParts_total g fi r with h3 | ⟨idx, gn, h3, hv⟩
      · left; exact h3
      · right
        refine ⟨idx, gn, r, h3, hv, pre1 ++ pre2, by simp [hp1], ?_⟩
        rw [hb1, hb2]; simp

/-- Decoding arbitrary input (any list, any length) never panics; a successful decode yields
a valid identifier and a remainder that is a proper suffix of the input. -/
theorem C15_total (bs : List Nat) :
    (∀ s, decodeEntity bs ≠ .panic s) ∧
    (∀ idx gen rest, decodeEntity bs = .ok ((idx, gen), rest) →
      ValidEntity idx gen ∧ ∃ pre, pre ≠ [] ∧ bs = pre ++ rest) := by
  rcases decodeEntity_shape bs with h | ⟨idx, gen, rest, h, hv, hp⟩
  · rw [h]
    exact ⟨fun s hc => (by cases hc), fun _ _ _ hc => (by cases hc)⟩
  · rw [h]
    refine ⟨fun s hc => (by cases hc), ?_⟩
    intro idx' gen' rest' he
    simp only [Res.ok.injEq, Prod.mk.injEq] at he
    obtain ⟨⟨hi, hgn⟩, hr⟩ := he
    subst hi hgn hr
    exact ⟨hv, hp⟩

/-- Non-vacuity: concrete valid entities round-trip through concrete bytes (evaluated). -/
example : ValidEntity 7 1 ∧ ValidEntity 4294967295 2147483647 := by
  unfold ValidEntity; omega
example : encodeEntity 7 3 = [15, 2] ∧ decodeEntity [15, 2, 99] = .ok ((7, 3), [99]) := by
  decide

/-- Witnesses for the defect repaired by the F10a `fix:` commit: with the pre-fix
`generation + 1` (unchecked) the input `01 ff ff ff ff 0f` overflows and
`01 ff ff ff ff 07` reaches `Entity::from_bits`' panic; the repaired code returns `Err`. -/
example : decodeEntity [1, 0xff, 0xff, 0xff, 0xff, 0x0f] = .err := by decide
example : decodeEntity [1, 0xff, 0xff, 0xff, 0xff, 0x07] = .err := by decide

end Replicon.C15
