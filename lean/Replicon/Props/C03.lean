import Replicon.Proofs.Client
import Replicon.Props.C08
import Replicon.Proofs.JointGhost
import Replicon.Proofs.Sync
import Replicon.Proofs.ClientSync
import Replicon.Proofs.Session
import Replicon.Proofs.KindsSession
import Replicon.Proofs.ClientKinds
import Replicon.Proofs.TwoWay
import Replicon.Proofs.Jump
/-
C03 — Structural changes reach clients atomically and in server order.

Models: `Model/Server.lean` (`send_replication`), `Model/Client.lean` (`apply_update_message`),
both driven in lock step with the real apps on every generated trace (every section of every
update message and the client's whole replicated structure after every client frame are
compared; 0 disagreements is the tie).

Server order over ALL histories (`C03_history_server_order`, on the joint model of
`Model/Joint.lean`): after any history of operations and frames, the update message a frame
sends a client carries a tick larger than that of every update message sent to that client
before in its session; with `C03_tick_monotone` (the client never applies an older tick) the
ordered channel therefore makes the client apply structural changes in server order.

The structure, over ALL histories and across both models (`Proofs/Sync.lean`, `ClientSync.lean`,
`Session.lean`, `Kinds.lean`, `KindsSession.lean`, `ClientKinds.lean`; ≈ 6 000 lines):
* after every replication run the server tracks for every authorized client exactly the
  replicated entities visible to it (`C03_history_entities`), and the DESPAWNS and CHANGES sections
  of the run's update message are exactly the difference of the tracked sets
  (`C03_history_message_is_difference`);
* the client model that holds the tracked set and applies that message holds the new tracked set
  (`C03_history_frame_both_sides`); fed a whole session's update messages in order it holds exactly
  the server's view (`C03_history_session`);
* the DESPAWNS / REMOVALS / CHANGES records of the session, replayed for one entity, give exactly the
  replicated component kinds the server entity carries (`C03_history_components`), and that is what
  the client model has on its entity (`C03_history_structure`, which puts the three together:
  entities, marker, components).

What else is proved here are the per-section facts the property rests on.  Still **not** one
theorem (`C03_structure_partial`): histories with
pre-spawn mappings (C16's per-message theorems), and the interleaving with mutate messages at the
component level (a mutate message never changes which entities are held —
`C01_history_same_entities_any_schedule` — but a stale one could re-insert a removed component if
the client did not compare ticks; that comparison is `applyMutEnt`'s, checked in lock step).
These parts are evaluated as an oracle on the implementation after every client frame.
-/
namespace Replicon.C03
open Replicon Replicon.Srv Replicon.Cli

/-- The update tick is exactly the tick of the last applied update message; with update
messages arriving in server order (reliable ordered channel) it never decreases. -/
theorem C03_tick_monotone (us : List Update) (c : Client) (h : Ordered c.updateTick us) :
    c.updateTick ≤ (us.foldl applyUpdate c).updateTick :=
  applyUpdates_monotone us c h

theorem C03_tick_is_message_tick (c : Client) (u : Update) : (applyUpdate c u).updateTick = u.tick :=
  applyUpdate_tick c u

/-- Server, one entity, hidden from the client: nothing about it enters any message. -/
theorem C03_hidden_nothing (s : Server) (thisRun : Nat) (cl : Cli) (e : Nat) (ent : SEnt) (m : Nat)
    (h : visState s cl e = .hidden) : collectEntity s thisRun cl e ent m = {} :=
  collect_hidden s thisRun cl e ent m h

/-- Server, an entity the client was never sent (newly visible, or a client authorized later):
it is written to the update message whole — all replicated components in one record, so the
client never sees it partially. -/
theorem C03_new_entity_whole (s : Server) (thisRun : Nat) (cl : Cli) (e : Nat) (ent : SEnt) (m : Nat)
    (hvis : visState s cl e ≠ .hidden) (hk : aget cl.mutTick e = none) :
    collectEntity s thisRun cl e ent m =
      { toUpdate := some { ent := e, comps := (present s ent).map fun x => (x.1, x.2.2.val) },
        toMutate := none, bump := true } :=
  collect_unknown_whole s thisRun cl e ent m hvis hk

/-- Server: an entity that left replication (despawn, marker removed) and that the client could
see is in the DESPAWNS section of the next run. -/
theorem C03_despawn_sent (s : Server) (cl : Cli) (e : Nat) (hm : e ∈ s.despawnBuf)
    (hv : Vis.isVisible s.white (cell cl e) = true) : e ∈ (despawnPhase s cl).2 :=
  despawnPhase_sends s cl e hm hv

/-- Server: an entity with an insertion or a buffered removal is sent *with its pending
mutations in the same update message* (so the entity's record is complete for the tick), and
the server's belief is bumped; in closed form. -/
theorem C03_entity_record_complete (s : Server) (thisRun : Nat) (cl : Cli) (e : Nat) (ent : SEnt) (m t : Nat)
    (hvis : visState s cl e = .visible) (hk : aget cl.mutTick e = some t) (hold : ¬ m > s.lastRun)
    (hins : (insOf s t ent).isEmpty = false) :
    collectEntity s thisRun cl e ent m =
      { toUpdate := some { ent := e, comps := insOf s t ent ++ mutOf s t ent }, toMutate := none, bump := true } := by
  rw [collect_known s thisRun cl e ent m t hvis hk hold]
  simp [hins]

/-- Client: the entity a CHANGES record lands on carries the replication marker afterwards,
also when it existed before only as the target of a reference (F8). -/
theorem C03_marker (c : Client) (se : Nat) (c' : Client) (ce : Nat) (h : targetEntity c se true = .ok (c', ce)) :
    ∃ ent, aget c'.world ce = some ent ∧ ent.marked = true :=
  targetEntity_marks c se c' ce h

/-- Non-vacuity / order of sections on a concrete message: mapping, then despawn, then
removal, then changes, all at one tick. -/
example :
    let c : Client := { connected := true, s2c := [(1, 0)], c2s := [(0, 1)], next := 1,
                        world := [(0, { marked := true, comps := [(0, 9)], hist := some 2 })] }
    let c' := applyUpdate c { tick := 4, despawns := [1], changes := [{ ent := 2, comps := [(1, 7)] }] }
    c'.s2c = [(2, 1)] ∧ c'.world = [(1, { marked := true, comps := [(1, 7)], hist := some 4 })] ∧ c'.updateTick = 4 := by
  decide

/-- Server order, all histories: in the state any history of operations leads to, whatever the
next frame is, an update message it sends client `c` has a tick larger than every update
message sent to `c` before in its session (`sent c`), and is recorded as the newest one. -/
theorem C03_history_server_order (ops : List Joint.Op) (ticked : Bool) (ms : Nat) (parts : Nat → List (List Nat))
    (c : Nat) (o : ClientOut) (u : Update)
    (hm : (c, o) ∈ (Joint.frame (Joint.run {} ops).1 ticked ms parts).2.1) (hu : o.update = some u) :
    (∀ t ∈ (Joint.run {} ops).1.sent c, t < u.tick) ∧
    (Joint.frame (Joint.run {} ops).1 ticked ms parts).1.sent c = (Joint.run {} ops).1.sent c ++ [u.tick] ∧
    ((Joint.run {} ops).1.sent c).Pairwise (· < ·) := by
  have inv := (Joint.inv_run ops {} Joint.inv_init).1
  obtain ⟨h1, h2⟩ := Joint.frame_update_ghost _ ticked ms parts inv c o u hm hu
  exact ⟨h2, h1, inv.incr c⟩

/-- Non-vacuity of the history theorem: client 0 gets update messages at ticks 1 and 3 (tick 2
has nothing to say), client 1 is authorized late and gets its first one at tick 4. -/
example :
    let s0 : Joint.St := { srv := { rates := [(0, .every), (1, .every)] } }
    let ops : List Joint.Op :=
      [.start, .connect 0 true, .connect 1 false, .spawn 5 true [(0, 7)], .frame true 10 (fun _ => []),
       .frame true 10 (fun _ => []), .insert 5 1 9, .frame true 10 (fun _ => []), .authorize 1, .frame true 10 (fun _ => [])]
    ((Joint.run s0 ops).1.sent 0, (Joint.run s0 ops).1.sent 1) = ([1, 3], [4]) := by
  decide

/-- **Which entities a client holds, over ALL histories** (`Proofs/Sync.lean`, joint model):
after any history in which entity identifiers are not reused, from a server without entities
and clients (any visibility policy, any replication rules), whatever the next frame is — if
`send_replication` runs in it, then afterwards, for every authorized client, the entities the
server tracks for that client (`ClientTicks`) are exactly the entities that carry the
replication marker and are visible to that client. -/
theorem C03_history_entities (s0 : Server) (hw : s0.world = []) (hc0 : s0.clients = []) (ops : List Joint.Op)
    (hl : Joint.Legal { srv := s0 } ops) (ticked : Bool) (ms : Nat) (parts : Nat → List (List Nat))
    (hr : (Joint.run { srv := s0 } ops).1.srv.running = true)
    (hc : (preRun (Joint.run { srv := s0 } ops).1.srv ticked ms).tickChanged = true) :
    ∀ x ∈ (Joint.frame (Joint.run { srv := s0 } ops).1 ticked ms parts).1.srv.clients, x.2.authorized = true →
      ∀ e, e ∈ keys x.2 ↔
        marked (Joint.frame (Joint.run { srv := s0 } ops).1 ticked ms parts).1.srv.world e ∧
        Vis.isVisible (Joint.frame (Joint.run { srv := s0 } ops).1 ticked ms parts).1.srv.white (cell x.2 e) = true :=
  (Joint.history_sync s0 hw hc0 ops hl ticked ms parts hr hc).1

/-- **The update message is exactly the structural difference, over ALL histories**: for every
replication output of that frame, a receiver that held exactly the entities the server tracked
for the client before the frame, and that applies the frame's update message — DESPAWNS, then
CHANGES (`applyKeys`) — holds exactly the entities tracked after the frame (none, if no update
message was sent: then the tracked set did not change).  With `C03_history_entities` and the
reliable ordered channel (`C03_history_server_order`): tick by tick the receiver holds the
replicated entities visible to it, never a stale or a missing one.  (Components: a newly tracked
entity is written whole, `C03_new_entity_whole`; the per-component part of the statement is the
oracle of the trace checker.) -/
theorem C03_history_message_is_difference (s0 : Server) (hw : s0.world = []) (hc0 : s0.clients = [])
    (ops : List Joint.Op) (hl : Joint.Legal { srv := s0 } ops) (ticked : Bool) (ms : Nat)
    (parts : Nat → List (List Nat))
    (hr : (Joint.run { srv := s0 } ops).1.srv.running = true)
    (hc : (preRun (Joint.run { srv := s0 } ops).1.srv ticked ms).tickChanged = true) :
    ∀ c o, (c, o) ∈ (Joint.frame (Joint.run { srv := s0 } ops).1 ticked ms parts).2.1 →
      ∃ cl cl', (c, cl) ∈ (preRun (Joint.run { srv := s0 } ops).1.srv ticked ms).clients ∧ cl.authorized = true ∧
        (c, cl') ∈ (Joint.frame (Joint.run { srv := s0 } ops).1 ticked ms parts).1.srv.clients ∧
        ∀ held : List Nat, (∀ e, e ∈ held ↔ e ∈ keys cl) → ∀ e, e ∈ applyKeys held o.update ↔ e ∈ keys cl' :=
  (Joint.history_sync s0 hw hc0 ops hl ticked ms parts hr hc).2

/-- **Both sides of the wire, over ALL histories of the server** (`Proofs/ClientSync.lean`): after
any history in which entity identifiers are not reused and a stopped server sees a frame before
it is started again (the schedules C09 quantifies over), in the next frame, for every authorized
client without a pending pre-spawn mapping (those are C16's): a receiver — the client model of
`Model/Client.lean`, in any well-formed state — that holds exactly the server entities the
server tracks for that client, and applies the frame's update message with `applyUpdate`, stays
well-formed, no section of the message fails, and afterwards it holds (as live, marked, mapped
entities) exactly the entities the server tracks after the frame, i.e. by `C03_history_entities`
the replicated entities visible to it at that tick.  This is the inductive step of "the client's
set of replicated entities equals the server's view at the client's update tick"; what remains
unproved as one theorem is its composition along a session's message sequence and the
component level (`C03_structure_partial`). -/
theorem C03_history_frame_both_sides (s0 : Server) (hw : s0.world = []) (hc0 : s0.clients = [])
    (hb : s0.removalBuf = []) (ops : List Joint.Op) (hl : Joint.Legal' { srv := s0 } ops)
    (ticked : Bool) (ms : Nat) (parts : Nat → List (List Nat))
    (hr : (Joint.run { srv := s0 } ops).1.srv.running = true)
    (x : Nat × Cli) (hx : x ∈ (preRun (Joint.run { srv := s0 } ops).1.srv ticked ms).clients)
    (ha : x.2.authorized = true) (hmap : x.2.mappings = [])
    (c : Client) (wf : WF c) (hh : ∀ se, held c se ↔ se ∈ keys x.2) :
    match (runClient (preRun (Joint.run { srv := s0 } ops).1.srv ticked ms)
        ((preRun (Joint.run { srv := s0 } ops).1.srv ticked ms).now + 1) x.2).2.update with
    | some u => WF (applyUpdate c u) ∧
        ∀ se, held (applyUpdate c u) se ↔
          se ∈ keys (ranClient (preRun (Joint.run { srv := s0 } ops).1.srv ticked ms) parts x).2
    | none => ∀ se, held c se ↔
          se ∈ keys (ranClient (preRun (Joint.run { srv := s0 } ops).1.srv ticked ms) parts x).2 :=
  Joint.history_both_sides s0 hw hc0 hb ops hl ticked ms parts hr x hx ha hmap c wf hh

/-- **End to end at the level of entities, over ALL histories, across both models**
(`Proofs/Session.lean`): after any history of the joint server model — entity identifiers not
reused, a stopped server sees a frame before it is started again, no pre-spawn mappings — that
ends with a frame in which `send_replication` ran, for every authorized client: the client model
of `Model/Client.lean`, started fresh and fed, in order, the update messages the server sent that
client since it connected (the ghost log `Joint.runLog`; the ordered reliable channel), is
well-formed — no section of any of those messages failed — and holds, as live mapped entities
carrying the replication marker, exactly the server entities that carry the replication marker
and are visible to that client.  A client that has applied only a prefix of those messages is
in the state this theorem describes for the history cut after the frame that sent the last of
them (its state depends on the update messages only), so it holds the server's view *at its
update tick*: the entity part of the C03 statement, for every history. -/
theorem C03_history_session (s0 : Server) (hw : s0.world = []) (hc0 : s0.clients = []) (hb : s0.removalBuf = [])
    (ops : List Joint.Op) (ticked : Bool) (ms : Nat) (parts : Nat → List (List Nat))
    (hl : Joint.Legal2 { srv := s0 } (ops ++ [.frame ticked ms parts]))
    (hr : (Joint.run { srv := s0 } ops).1.srv.running = true)
    (hc : (preRun (Joint.run { srv := s0 } ops).1.srv ticked ms).tickChanged = true) :
    ∀ x ∈ (Joint.run { srv := s0 } (ops ++ [.frame ticked ms parts])).1.srv.clients, x.2.authorized = true →
      WF (Joint.replay ((Joint.runLog { srv := s0 } (fun _ => []) (ops ++ [.frame ticked ms parts])).2 x.1)) ∧
      ∀ se, held (Joint.replay ((Joint.runLog { srv := s0 } (fun _ => []) (ops ++ [.frame ticked ms parts])).2 x.1)) se ↔
        marked (Joint.run { srv := s0 } (ops ++ [.frame ticked ms parts])).1.srv.world se ∧
        Vis.isVisible (Joint.run { srv := s0 } (ops ++ [.frame ticked ms parts])).1.srv.white (cell x.2 se) = true :=
  Joint.session_view s0 hw hc0 hb ops ticked ms parts hl hr hc

/-- **Which components each entity has, over ALL histories** (`Proofs/Kinds.lean`,
`Proofs/KindsSession.lean`; server side of the wire).  After any history of the joint server
model — entity identifiers not reused, a stopped server sees a frame before it is started again,
no pre-spawn mappings — that ends with a frame in which `send_replication` ran: for every
authorized client and every entity the server tracks for it, replaying for that entity the
DESPAWNS / REMOVALS / CHANGES records of the update messages sent to the client since it connected
(`ghostKinds`: a despawn forgets the entity's kinds, a removal record removes the kinds it names, a
change record adds the kinds it carries — the order in which the client applies the sections)
gives exactly the replicated component kinds the server entity carries now.  The invariant
behind it (`KindInv`, `CK`) is the one the header of this file used to call "the missing step":
a kind the receiver has and the entity no longer carries has a removal event pending or
buffered (Bevy's two-frame retention of removal events and `buffer_removals` running in every
frame of a running server are what make this true — the seeded changes C01-c / C03-d break
exactly this); a kind the entity carries and the receiver lacks was added after the last run
(`added > last_run`, so `collect_changes` writes it as an insertion); a kind with a pending
removal that the entity carries again was re-inserted after the last run. -/
theorem C03_history_components (s0 : Server) (hw : s0.world = []) (hc0 : s0.clients = []) (hb : s0.removalBuf = [])
    (ht : s0.lastRun < s0.now)
    (ops : List Joint.Op) (ticked : Bool) (ms : Nat) (parts : Nat → List (List Nat))
    (hl : Joint.Legal2 { srv := s0 } (ops ++ [.frame ticked ms parts]))
    (hr : (Joint.run { srv := s0 } ops).1.srv.running = true)
    (hc : (preRun (Joint.run { srv := s0 } ops).1.srv ticked ms).tickChanged = true) :
    ∀ x ∈ (Joint.run { srv := s0 } (ops ++ [.frame ticked ms parts])).1.srv.clients, x.2.authorized = true →
      ∀ e, e ∈ keys x.2 →
      ∀ ent, (e, ent) ∈ (Joint.run { srv := s0 } (ops ++ [.frame ticked ms parts])).1.srv.world →
        ∀ k, k ∈ ghostKinds ((Joint.runLog { srv := s0 } (fun _ => []) (ops ++ [.frame ticked ms parts])).2 x.1) e ↔
          k ∈ presentKinds (Joint.run { srv := s0 } (ops ++ [.frame ticked ms parts])).1.srv ent :=
  Joint.session_kinds s0 hw hc0 hb ht ops ticked ms parts hl hr hc

/-- **The client's replicated structure equals the server's, over ALL histories, across both
models** (`Proofs/Session.lean`, `Proofs/ClientKinds.lean`).  After any history of the joint server
model — entity identifiers not reused, a stopped server sees a frame before it is started again,
no pre-spawn mappings — that ends with a frame in which `send_replication` ran, for every
authorized client, the client model started fresh and fed in order the update messages sent to
that client since it connected:
* is well-formed (every mapped entity exists, the map is injective), its `client_to_server` map is
  exactly the inverse of `server_to_client` (`TwoWay`: a consistent two-way entity map), and no
  section of any message failed on it;
* holds, as live mapped entities carrying the replication marker, exactly the server entities
  that carry the marker and are visible to the client; and
* has on each of them exactly the replicated component kinds the server entity carries.
This is the statement of C03 — which server entities the client holds, which replicated
components each one has, the marker on each — at the tick of the last update message; a client
that has applied a prefix of the messages is the client of the history cut after the frame that
sent the last of them, so it holds the structure *at its update tick*.  Not covered by this
theorem (they stay oracles of the trace checker and per-message theorems): pre-spawn mappings
(C16), and component *values* (C02). -/
theorem C03_history_structure (s0 : Server) (hw : s0.world = []) (hc0 : s0.clients = []) (hb : s0.removalBuf = [])
    (ht : s0.lastRun < s0.now)
    (ops : List Joint.Op) (ticked : Bool) (ms : Nat) (parts : Nat → List (List Nat))
    (hl : Joint.Legal2 { srv := s0 } (ops ++ [.frame ticked ms parts]))
    (hr : (Joint.run { srv := s0 } ops).1.srv.running = true)
    (hc : (preRun (Joint.run { srv := s0 } ops).1.srv ticked ms).tickChanged = true) :
    ∀ x ∈ (Joint.run { srv := s0 } (ops ++ [.frame ticked ms parts])).1.srv.clients, x.2.authorized = true →
      WF (Joint.replay ((Joint.runLog { srv := s0 } (fun _ => []) (ops ++ [.frame ticked ms parts])).2 x.1)) ∧
      TwoWay (Joint.replay ((Joint.runLog { srv := s0 } (fun _ => []) (ops ++ [.frame ticked ms parts])).2 x.1)) ∧
      (∀ se, held (Joint.replay ((Joint.runLog { srv := s0 } (fun _ => []) (ops ++ [.frame ticked ms parts])).2 x.1)) se ↔
        marked (Joint.run { srv := s0 } (ops ++ [.frame ticked ms parts])).1.srv.world se ∧
        Vis.isVisible (Joint.run { srv := s0 } (ops ++ [.frame ticked ms parts])).1.srv.white (cell x.2 se) = true) ∧
      (∀ se, held (Joint.replay ((Joint.runLog { srv := s0 } (fun _ => []) (ops ++ [.frame ticked ms parts])).2 x.1)) se →
        ∀ ent, (se, ent) ∈ (Joint.run { srv := s0 } (ops ++ [.frame ticked ms parts])).1.srv.world →
          ∀ k, k ∈ kindsOn (Joint.replay ((Joint.runLog { srv := s0 } (fun _ => []) (ops ++ [.frame ticked ms parts])).2 x.1)) se ↔
            k ∈ presentKinds (Joint.run { srv := s0 } (ops ++ [.frame ticked ms parts])).1.srv ent) := by
  intro x hx ha
  obtain ⟨h1, h2⟩ := Joint.session_view s0 hw hc0 hb ops ticked ms parts hl hr hc x hx ha
  obtain ⟨_, h3⟩ := Joint.session_entities s0 hw hc0 hb _ hl x hx
  refine ⟨h1, Joint.session_twoWay s0 hw hc0 hb _ hl x hx, h2, ?_⟩
  intro se hheld ent hwld k
  exact Joint.session_components s0 hw hc0 hb ht ops ticked ms parts hl hr hc x hx ha se ((h3 se).mp hheld) ent hwld k

/-- Non-vacuity of `C03_history_components`: an insertion, a removal, a removal followed by a
re-insertion and a hide / show cycle; the hypotheses hold and the replayed kinds of entity 5 for
client 0 are [1, 2] (kind 0 was removed, kind 2 removed and re-inserted, kind 1 inserted). -/
example :
    let s0 : Server := { rates := [(0, .every), (1, .every), (2, .every)] }
    let ops : List Joint.Op :=
      [.start, .connect 0 true, .spawn 5 true [(0, 7), (2, 1)], .frame true 10 (fun _ => []),
       .insert 5 1 9, .remove 5 0, .frame false 10 (fun _ => []), .remove 5 2, .insert 5 2 4,
       .frame true 10 (fun _ => []), .vis 0 5 false, .frame true 10 (fun _ => []), .vis 0 5 true]
    Joint.Legal2 { srv := s0 } (ops ++ [.frame true 10 (fun _ => [])]) ∧
    (Joint.run { srv := s0 } ops).1.srv.running = true ∧
    (preRun (Joint.run { srv := s0 } ops).1.srv true 10).tickChanged = true ∧
    s0.lastRun < s0.now ∧
    ghostKinds ((Joint.runLog { srv := s0 } (fun _ => []) (ops ++ [.frame true 10 (fun _ => [])])).2 0) 5 = [1, 2] ∧
    kindsOn (Joint.replay ((Joint.runLog { srv := s0 } (fun _ => []) (ops ++ [.frame true 10 (fun _ => [])])).2 0)) 5 = [2, 1] := by
  refine ⟨by decide, by decide, by decide, by decide, by decide, by decide⟩

/-- Non-vacuity of `C03_history_session`: a history with a reconnect, a hidden entity and a
despawn satisfies the hypotheses; the replayed client of the second session holds entity 5 only
(mapped to its client entity 0), the one of client 1 holds 5 and 7. -/
example :
    let s0 : Server := { rates := [(0, .every), (1, .every)] }
    let ops : List Joint.Op :=
      [.start, .connect 0 true, .connect 1 true, .spawn 5 true [(0, 7)], .spawn 6 true [(1, 1)],
       .frame true 10 (fun _ => []), .disconnect 0, .connect 0 true, .despawn 6, .spawn 7 true [],
       .vis 0 7 false]
    Joint.Legal2 { srv := s0 } (ops ++ [.frame true 10 (fun _ => [])]) ∧
    (Joint.run { srv := s0 } ops).1.srv.running = true ∧
    (preRun (Joint.run { srv := s0 } ops).1.srv true 10).tickChanged = true ∧
    (Joint.replay ((Joint.runLog { srv := s0 } (fun _ => []) (ops ++ [.frame true 10 (fun _ => [])])).2 0)).s2c = [(5, 0)] ∧
    ((Joint.replay ((Joint.runLog { srv := s0 } (fun _ => []) (ops ++ [.frame true 10 (fun _ => [])])).2 1)).s2c.map (·.1)) = [7, 5] := by
  refine ⟨by decide, by decide, by decide, by decide, by decide⟩

/-- Non-vacuity of the receiver's hypotheses: a fresh client is well-formed and holds nothing,
which is what the server tracks for a newly authorized client. -/
example : WF ({} : Client) ∧ ∀ se, ¬ held ({} : Client) se := by
  refine ⟨⟨?_, ?_, ?_⟩, ?_⟩
  · intro se ce h; cases h
  · intro se se' ce h; cases h
  · intro ce h; cases h
  · rintro se ⟨ce, ent, h, _⟩; cases h

/-- Non-vacuity: a legal history with two clients (blacklist policy): entity 5 is hidden from
client 0 and later shown again, entity 6 is despawned; the hypotheses of the two theorems hold
for the next frame, and the tracked sets are what the statement says. -/
example :
    let s0 : Server := { rates := [(0, .every), (1, .every)] }
    let ops : List Joint.Op :=
      [.start, .connect 0 true, .connect 1 true, .spawn 5 true [(0, 7)], .spawn 6 true [(1, 1)],
       .frame true 10 (fun _ => []), .vis 0 5 false, .frame true 10 (fun _ => []), .despawn 6, .vis 0 5 true]
    Joint.Legal { srv := s0 } ops ∧ Joint.Legal' { srv := s0 } ops ∧ (Joint.run { srv := s0 } ops).1.srv.running = true ∧
    (preRun (Joint.run { srv := s0 } ops).1.srv true 10).tickChanged = true ∧
    ((Joint.run { srv := s0 } ops).1.srv.clients.map fun x => (x.1, keys x.2)) = [(0, [6]), (1, [5, 6])] ∧
    ((Joint.frame (Joint.run { srv := s0 } ops).1 true 10 (fun _ => [])).1.srv.clients.map fun x => (x.1, keys x.2))
      = [(0, [5]), (1, [5])] := by
  refine ⟨by decide, by decide, by decide, by decide, by decide, by decide⟩

/-- **Entities and component kinds over ALL histories in which the tick also advances by more than
one** (`Proofs/Jump.lean`; `ServerTick::increment_by` under the manual tick policy, the trace
checker's `sframe tick=K`).  After any history of ordinary operations and jumps of the tick by any
amounts (entity identifiers not reused, a stopped server sees a frame before a restart, no pre-spawn
mappings), whatever frame comes next: if `send_replication` runs in it then for every authorized
client the client model fed the session's update messages in order is well-formed and holds
exactly the marked entities visible to the client (`C03_history_session` with jumps), and the
records of those messages replay to exactly the replicated component kinds the server entity
carries, as do the component kinds on the client model's entity (`C03_history_components`, both
sides of the wire, with jumps).  None of the invariants
behind the structure theorems reads the value of the tick. -/
theorem C03_history_with_tick_jumps (s0 : Server) (hw : s0.world = []) (hc0 : s0.clients = [])
    (hb : s0.removalBuf = []) (ht : s0.lastRun < s0.now) (ops : List Joint.OpJ)
    (hl : Joint.LegalJ { srv := s0 } ops) (ticked : Bool) (ms : Nat) (parts : Nat → List (List Nat))
    (hr : (Joint.runLogJ { srv := s0 } (fun _ => []) ops).1.srv.running = true)
    (hc : (preRun (Joint.runLogJ { srv := s0 } (fun _ => []) ops).1.srv ticked ms).tickChanged = true) :
    ∀ x ∈ (Joint.step (Joint.runLogJ { srv := s0 } (fun _ => []) ops).1 (.frame ticked ms parts)).1.srv.clients,
      x.2.authorized = true →
      (WF (Joint.replay (Joint.logStep (Joint.runLogJ { srv := s0 } (fun _ => []) ops).1
            (Joint.runLogJ { srv := s0 } (fun _ => []) ops).2 (.frame ticked ms parts) x.1)) ∧
       ∀ se, held (Joint.replay (Joint.logStep (Joint.runLogJ { srv := s0 } (fun _ => []) ops).1
            (Joint.runLogJ { srv := s0 } (fun _ => []) ops).2 (.frame ticked ms parts) x.1)) se ↔
         marked (Joint.step (Joint.runLogJ { srv := s0 } (fun _ => []) ops).1 (.frame ticked ms parts)).1.srv.world se ∧
         Vis.isVisible (Joint.step (Joint.runLogJ { srv := s0 } (fun _ => []) ops).1 (.frame ticked ms parts)).1.srv.white
           (cell x.2 se) = true) ∧
      (∀ e, e ∈ keys x.2 → ∀ ent,
        (e, ent) ∈ (Joint.step (Joint.runLogJ { srv := s0 } (fun _ => []) ops).1 (.frame ticked ms parts)).1.srv.world →
        ∀ k, k ∈ ghostKinds (Joint.logStep (Joint.runLogJ { srv := s0 } (fun _ => []) ops).1
            (Joint.runLogJ { srv := s0 } (fun _ => []) ops).2 (.frame ticked ms parts) x.1) e ↔
          k ∈ presentKinds (Joint.step (Joint.runLogJ { srv := s0 } (fun _ => []) ops).1 (.frame ticked ms parts)).1.srv ent) ∧
      (∀ e, e ∈ keys x.2 → ∀ ent,
        (e, ent) ∈ (Joint.step (Joint.runLogJ { srv := s0 } (fun _ => []) ops).1 (.frame ticked ms parts)).1.srv.world →
        ∀ k, k ∈ kindsOn (Joint.replay (Joint.logStep (Joint.runLogJ { srv := s0 } (fun _ => []) ops).1
            (Joint.runLogJ { srv := s0 } (fun _ => []) ops).2 (.frame ticked ms parts) x.1)) e ↔
          k ∈ presentKinds (Joint.step (Joint.runLogJ { srv := s0 } (fun _ => []) ops).1 (.frame ticked ms parts)).1.srv ent) :=
  Joint.session_with_jumps s0 hw hc0 hb ht ops hl ticked ms parts hr hc

/-- Non-vacuity of `C03_history_with_tick_jumps`: a history with jumps of 127 and 4294967290 ticks
(the update message of the last frame carries tick 4294967420, beyond the 32-bit range: the model's
ticks are unbounded), a removal and a hidden entity; the hypotheses hold, the replayed client holds
entity 5 only and its replayed kinds are [1]. -/
example :
    let s0 : Server := { rates := [(0, .every), (1, .every)] }
    let ops : List Joint.OpJ :=
      [.op .start, .op (.connect 0 true), .op (.spawn 5 true [(0, 7), (1, 2)]), .op (.spawn 6 true [(1, 1)]),
       .op (.frame true 10 (fun _ => [])), .jump 127, .op (.remove 5 0), .op (.frame true 10 (fun _ => [])),
       .jump 4294967290, .op (.vis 0 6 false)]
    Joint.LegalJ { srv := s0 } ops ∧
    (Joint.runLogJ { srv := s0 } (fun _ => []) ops).1.srv.running = true ∧
    (preRun (Joint.runLogJ { srv := s0 } (fun _ => []) ops).1.srv true 10).tickChanged = true ∧
    s0.lastRun < s0.now ∧
    (Joint.step (Joint.runLogJ { srv := s0 } (fun _ => []) ops).1 (.frame true 10 (fun _ => []))).1.srv.tick = 4294967420 ∧
    (Joint.replay (Joint.logStep (Joint.runLogJ { srv := s0 } (fun _ => []) ops).1
        (Joint.runLogJ { srv := s0 } (fun _ => []) ops).2 (.frame true 10 (fun _ => [])) 0)).s2c.map (·.1) = [5] ∧
    ghostKinds (Joint.logStep (Joint.runLogJ { srv := s0 } (fun _ => []) ops).1
        (Joint.runLogJ { srv := s0 } (fun _ => []) ops).2 (.frame true 10 (fun _ => [])) 0) 5 = [1] ∧
    kindsOn (Joint.replay (Joint.logStep (Joint.runLogJ { srv := s0 } (fun _ => []) ops).1
        (Joint.runLogJ { srv := s0 } (fun _ => []) ops).2 (.frame true 10 (fun _ => [])) 0)) 5 = [1] := by
  refine ⟨by decide, by decide, by decide, by decide, by decide, by decide, by decide, by decide⟩

end Replicon.C03
