import Replicon.Proofs.Client
import Replicon.Props.C08
import Replicon.Proofs.JointGhost
/-
C03 — Structural changes reach clients atomically and in server order.

Models: `Model/Server.lean` (`send_replication`), `Model/Client.lean` (`apply_update_message`),
both driven in lock step with the real apps on every generated trace (every section of every
update message and the client's whole replicated structure after every client frame are
compared; 0 disagreements is the tie).

Server order over ALL histories (`C03_history_server_order`, on the joint model of
`Model/Joint.lean`): after any history of operations and frames, the update message a frame
sends a client carries a tick larger than that of every update message sent to that client
before in its session; with `C03_tick_monotone` (the client never applies an older tick) the
ordered channel therefore makes the client apply structural changes in server order.

What else is proved here are the per-section facts the property rests on.  The end-to-end statement
— "the client's structure equals the server's view at the client's update tick", i.e. that
`applyUpdate` of the run's message turns the view of the previous update tick into the view of
this tick for *every* reachable server state — is **not** proved as one theorem
(`C03_structure_partial`): it is evaluated as an oracle on the implementation after every client
frame of every trace.  The missing step is the server invariant relating the removal / despawn
buffers and per-component added ticks to the difference of two consecutive views.
-/
namespace Replicon.C03
open Replicon Replicon.Srv Replicon.Cli

/-- The update tick is exactly the tick of the last applied update message; with update
messages arriving in server order (reliable ordered channel) it never decreases. -/
theorem C03_tick_monotone (us : List Update) (c : Client) (h : Ordered c.updateTick us) :
    c.updateTick ≤ (us.foldl applyUpdate c).updateTick :=
  applyUpdates_monotone us c h

theorem C03_tick_is_message_tick (c : Client) (u : Update) : (applyUpdate c u).updateTick = u.tick :=
  applyUpdate_tick c u

/-- Server, one entity, hidden from the client: nothing about it enters any message. -/
theorem C03_hidden_nothing (s : Server) (thisRun : Nat) (cl : Cli) (e : Nat) (ent : SEnt) (m : Nat)
    (h : visState s cl e = .hidden) : collectEntity s thisRun cl e ent m = {} :=
  collect_hidden s thisRun cl e ent m h

/-- Server, an entity the client was never sent (newly visible, or a client authorized later):
it is written to the update message whole — all replicated components in one record, so the
client never sees it partially. -/
theorem C03_new_entity_whole (s : Server) (thisRun : Nat) (cl : Cli) (e : Nat) (ent : SEnt) (m : Nat)
    (hvis : visState s cl e ≠ .hidden) (hk : aget cl.mutTick e = none) :
    collectEntity s thisRun cl e ent m =
      { toUpdate := some { ent := e, comps := (present s ent).map fun x => (x.1, x.2.2.val) },
        toMutate := none, bump := true } :=
  collect_unknown_whole s thisRun cl e ent m hvis hk

/-- Server: an entity that left replication (despawn, marker removed) and that the client could
see is in the DESPAWNS section of the next run. -/
theorem C03_despawn_sent (s : Server) (cl : Cli) (e : Nat) (hm : e ∈ s.despawnBuf)
    (hv : Vis.isVisible s.white (cell cl e) = true) : e ∈ (despawnPhase s cl).2 :=
  despawnPhase_sends s cl e hm hv

/-- Server: an entity with an insertion or a buffered removal is sent *with its pending
mutations in the same update message* (so the entity's record is complete for the tick), and
the server's belief is bumped; in closed form. -/
theorem C03_entity_record_complete (s : Server) (thisRun : Nat) (cl : Cli) (e : Nat) (ent : SEnt) (m t : Nat)
    (hvis : visState s cl e = .visible) (hk : aget cl.mutTick e = some t) (hold : ¬ m > s.lastRun)
    (hins : (insOf s t ent).isEmpty = false) :
    collectEntity s thisRun cl e ent m =
      { toUpdate := some { ent := e, comps := insOf s t ent ++ mutOf s t ent }, toMutate := none, bump := true } := by
  rw [collect_known s thisRun cl e ent m t hvis hk hold]
  simp [hins]

/-- Client: the entity a CHANGES record lands on carries the replication marker afterwards,
also when it existed before only as the target of a reference (F8). -/
theorem C03_marker (c : Client) (se : Nat) (c' : Client) (ce : Nat) (h : targetEntity c se true = .ok (c', ce)) :
    ∃ ent, aget c'.world ce = some ent ∧ ent.marked = true :=
  targetEntity_marks c se c' ce h

/-- Non-vacuity / order of sections on a concrete message: mapping, then despawn, then
removal, then changes, all at one tick. -/
example :
    let c : Client := { connected := true, s2c := [(1, 0)], c2s := [(0, 1)], next := 1,
                        world := [(0, { marked := true, comps := [(0, 9)], hist := some 2 })] }
    let c' := applyUpdate c { tick := 4, despawns := [1], changes := [{ ent := 2, comps := [(1, 7)] }] }
    c'.s2c = [(2, 1)] ∧ c'.world = [(1, { marked := true, comps := [(1, 7)], hist := some 4 })] ∧ c'.updateTick = 4 := by
  decide

/-- Server order, all histories: in the state any history of operations leads to, whatever the
next frame is, an update message it sends client `c` has a tick larger than every update
message sent to `c` before in its session (`sent c`), and is recorded as the newest one. -/
theorem C03_history_server_order (ops : List Joint.Op) (ticked : Bool) (ms : Nat) (parts : Nat → List (List Nat))
    (c : Nat) (o : ClientOut) (u : Update)
    (hm : (c, o) ∈ (Joint.frame (Joint.run {} ops).1 ticked ms parts).2.1) (hu : o.update = some u) :
    (∀ t ∈ (Joint.run {} ops).1.sent c, t < u.tick) ∧
    (Joint.frame (Joint.run {} ops).1 ticked ms parts).1.sent c = (Joint.run {} ops).1.sent c ++ [u.tick] ∧
    ((Joint.run {} ops).1.sent c).Pairwise (· < ·) := by
  have inv := (Joint.inv_run ops {} Joint.inv_init).1
  obtain ⟨h1, h2⟩ := Joint.frame_update_ghost _ ticked ms parts inv c o u hm hu
  exact ⟨h2, h1, inv.incr c⟩

/-- Non-vacuity of the history theorem: client 0 gets update messages at ticks 1 and 3 (tick 2
has nothing to say), client 1 is authorized late and gets its first one at tick 4. -/
example :
    let s0 : Joint.St := { srv := { rates := [(0, .every), (1, .every)] } }
    let ops : List Joint.Op :=
      [.start, .connect 0 true, .connect 1 false, .spawn 5 true [(0, 7)], .frame true 10 (fun _ => []),
       .frame true 10 (fun _ => []), .insert 5 1 9, .frame true 10 (fun _ => []), .authorize 1, .frame true 10 (fun _ => [])]
    ((Joint.run s0 ops).1.sent 0, (Joint.run s0 ops).1.sent 1) = ([1, 3], [4]) := by
  decide

end Replicon.C03
