import Replicon.Proofs.Client
/-
C16 — Pre-spawned client entities are adopted, not duplicated.

Model: `Model/Client.lean` (`apply_entity_mapping`, `ServerEntityMap`, the entity a record
lands on), `Model/Server.lean` (`ClientEntityMap` → MAPPINGS, which `decodeUpdate` /
`applyUpdate` read and apply before DESPAWNS, REMOVALS and CHANGES of the same message).
Known finding F21 (a despawn queued for a never-sent, hidden entity removes the pre-spawned
entity) is outside these theorems: it needs a DESPAWNS entry for the mapped entity.
-/
namespace Replicon.C16
open Replicon Replicon.Srv Replicon.Cli

/-- The mapping is applied: the server entity maps to the pre-spawned entity, which now
carries the replication marker, and no entity is created. -/
theorem C16_adopted (c : Client) (se p : Nat) (ent : CEnt) (h : aget c.world p = some ent) :
    aget (applyMapping c (se, p)).s2c se = some p ∧
    aget (applyMapping c (se, p)).world p = some { ent with marked := true } ∧
    (applyMapping c (se, p)).next = c.next :=
  applyMapping_adopts c se p ent h

/-- All replication for the server entity then lands on that entity: a REMOVALS or CHANGES
record for a mapped server entity neither spawns anything nor changes the map. -/
theorem C16_lands_on_existing (c : Client) (se ce : Nat) (b : Bool) (ent : CEnt)
    (hs : aget c.s2c se = some ce) (hw : aget c.world ce = some ent) :
    ∃ c', targetEntity c se b = .ok (c', ce) ∧ c'.next = c.next ∧ c'.s2c = c.s2c ∧ c'.c2s = c.c2s :=
  targetEntity_mapped c se ce b ent hs hw

/-- If the client's entity no longer exists the mapping is ignored … -/
theorem C16_gone_ignored (c : Client) (se p : Nat) (h : aget c.world p = none) :
    applyMapping c (se, p) = c :=
  applyMapping_gone c se p h

/-- … and the entity's first record spawns exactly one fresh, marked entity for it. -/
theorem C16_fresh_if_gone (c : Client) (se : Nat) (b : Bool) (hs : aget c.s2c se = none) :
    ∃ c', targetEntity c se b = .ok (c', c.next) ∧ c'.next = c.next + 1 ∧
      aget c'.s2c se = some c.next ∧ aget c'.world c.next = some { marked := true } :=
  targetEntity_fresh c se b hs

/-- Other clients are unaffected: registering a mapping touches only that client's state. -/
theorem C16_others_unaffected (s : Server) (c c' e p : Nat) (h : c' ≠ c) :
    aget (s.addMapping c e p).clients c' = aget s.clients c' := by
  unfold Server.addMapping Server.updClient
  cases aget s.clients c with
  | none => rfl
  | some cl => exact aget_aset_other _ _ _ _ h

/-- Non-vacuity: a message carrying the mapping and the entity's first record. -/
example :
    let c : Client := { connected := true, world := [(100000, {})] }
    let c' := applyUpdate c { tick := 3, mappings := [(7, 100000)], changes := [{ ent := 7, comps := [(0, 5)] }] }
    c'.s2c = [(7, 100000)] ∧ c'.world = [(100000, { marked := true, comps := [(0, 5)], hist := some 3 })] ∧ c'.next = 0 := by
  decide

/-- Known finding F21, machine-checked on the client model (replays: `findings/F21.trace`,
`findings/F21-marker.trace`): an update message with MAPPINGS [7 ↦ p], DESPAWNS [7] and
CHANGES [7] — what the server sends when a despawn was queued for an entity the client was never
sent — maps 7 to the pre-spawned entity, despawns it through that mapping, and then spawns a
fresh entity for 7: the pre-spawned entity is not adopted. -/
theorem C16_known_finding_F21_witness :
    let c : Client := { connected := true, world := [(100000, {})] }
    let c' := applyUpdate c { tick := 3, mappings := [(7, 100000)], despawns := [7], changes := [{ ent := 7, comps := [(0, 5)] }] }
    c'.s2c = [(7, 0)] ∧ c'.world = [(0, { marked := true, comps := [(0, 5)], hist := some 3 })] := by
  decide

end Replicon.C16
