import Replicon.Proofs.Server
/-
C11 — Acknowledged data is not re-sent and an idle server is silent.

Model: `Model/Server.lean` (`ClientTicks`: `register_mutate_message`, `ack_mutate_message`;
`collect_changes`; `send_messages`), driven in lock step with the real server by the trace
validation (every message of every generated tick is compared).
-/
namespace Replicon.C11
open Replicon Replicon.Srv

/-- Resend until acknowledged: in every replication run, a changed component of an entity
the client knows and sees — changed after the tick the server *believes* the client has — is in
the run's update or mutate message, whenever its send rate fires.  The belief (`mutTick`) only
moves through `C11_ack_sound`, so lost or late acknowledgements never stop the re-sending. -/
theorem C11_resend_until_ack (s : Server) (thisRun : Nat) (cl : Cli) (e : Nat) (ent : SEnt) (m t : Nat)
    (k : Nat) (r : Rate) (c : Comp)
    (hvis : visState s cl e = .visible) (hk : aget cl.mutTick e = some t)
    (hold : ¬ m > s.lastRun) (hm : (k, r, c) ∈ present s ent)
    (hadded : ¬ c.added > s.lastRun) (hchanged : c.changed > t) (hrate : r.sendMutations s.tick = true) :
    (∃ u, (collectEntity s thisRun cl e ent m).toUpdate = some u ∧ (k, c.val) ∈ u.comps) ∨
    (∃ u, (collectEntity s thisRun cl e ent m).toMutate = some u ∧ (k, c.val) ∈ u.comps) :=
  collect_resend s thisRun cl e ent m t k r c hvis hk hold hm hadded hchanged hrate

/-- Acknowledgement soundness: acknowledging a registered message moves the tick of an entity
only if the entity was in that message, only forward, and exactly to the tick of that message's
replication run — so everything changed after that run is still newer and keeps being sent. -/
theorem C11_ack_sound (cl : Cli) (idx : Nat) (info : Inflight)
    (h : cl.inflight.find? (·.index = idx) = some info) (j : Nat) :
    (aget (ackOne cl idx).mutTick j = aget cl.mutTick j) ∨
    (j ∈ info.ents ∧ ∃ t, aget cl.mutTick j = some t ∧ t ≤ info.tick ∧ aget (ackOne cl idx).mutTick j = some info.tick) := by
  rw [ackOne_known cl idx info h]
  exact ackFold_sound info cl.mutTick j

/-- Acknowledgements naming unknown messages (junk indices, duplicates, messages already
cleaned up) change nothing. -/
theorem C11_unknown_ack_noop (cl : Cli) (idx : Nat) (h : cl.inflight.find? (·.index = idx) = none) :
    ackOne cl idx = cl :=
  ackOne_unknown cl idx h

/-- An acknowledgement is consumed: repeating it changes nothing. -/
theorem C11_ack_once (cl : Cli) (idx : Nat) : ackOne (ackOne cl idx) idx = ackOne cl idx :=
  ackOne_twice cl idx

/-- Idle silence: when nothing is buffered or pending for the client and there is nothing to
say about any replicated entity (`Quiet`: known, visible, nothing newer than the acknowledged
tick or no firing send rate, no removal), the run sends the client no update message and no
mutations and leaves its state untouched.  (With per-tick tracking `Mutations::send` still
emits its empty bookkeeping message; that is the exception the property names.) -/
theorem C11_idle_silent (s : Server) (thisRun : Nat) (cl : Cli)
    (hd : s.despawnBuf = []) (hr : s.removalBuf = []) (hm : cl.mappings = []) (hl : NoLost s.white cl)
    (hq : ∀ e ent m, (e, ent) ∈ s.world → ent.marker = some m → Quiet s cl e ent m) :
    runClient s thisRun cl = (cl, { update := none, mutEnts := [] }) :=
  runClient_idle s thisRun cl hd hr hm hl hq

/-- Non-vacuity: a known, visible entity with one changed component: re-sent while the belief
is old, silent once it is acknowledged. -/
def exServer : Server :=
  { rates := [(0, .every)], running := true, lastRun := 5, now := 9, tick := 3,
    world := [(7, { marker := some 2, comps := [(0, { val := 42, added := 2, changed := 8 })] })] }

example : (runClient exServer 10 { authorized := true, mutTick := [(7, 6)] }).2.mutEnts = [{ ent := 7, comps := [(0, 42)] }] := by
  decide
example : (runClient exServer 10 { authorized := true, mutTick := [(7, 8)] }).2.mutEnts = [] ∧
    (runClient exServer 10 { authorized := true, mutTick := [(7, 8)] }).2.update = none := by
  decide

end Replicon.C11
