import Replicon.Proofs.Server
import Replicon.Proofs.Belief
/-
C11 — Acknowledged data is not re-sent and an idle server is silent.

Model: `Model/Server.lean` (`ClientTicks`: `register_mutate_message`, `ack_mutate_message`;
`collect_changes`; `send_messages`), driven in lock step with the real server by the trace
validation (every message of every generated tick is compared).
-/
namespace Replicon.C11
open Replicon Replicon.Srv

/-- Resend until acknowledged: in every replication run, a changed component of an entity
the client knows and sees — changed after the tick the server *believes* the client has — is in
the run's update or mutate message, whenever its send rate fires.  The belief (`mutTick`) only
moves through `C11_ack_sound`, so lost or late acknowledgements never stop the re-sending. -/
theorem C11_resend_until_ack (s : Server) (thisRun : Nat) (cl : Cli) (e : Nat) (ent : SEnt) (m t : Nat)
    (k : Nat) (r : Rate) (c : Comp)
    (hvis : visState s cl e = .visible) (hk : aget cl.mutTick e = some t)
    (hold : ¬ m > s.lastRun) (hm : (k, r, c) ∈ present s ent)
    (hadded : ¬ c.added > s.lastRun) (hchanged : c.changed > t) (hrate : r.sendMutations s.tick = true) :
    (∃ u, (collectEntity s thisRun cl e ent m).toUpdate = some u ∧ (k, c.val) ∈ u.comps) ∨
    (∃ u, (collectEntity s thisRun cl e ent m).toMutate = some u ∧ (k, c.val) ∈ u.comps) :=
  collect_resend s thisRun cl e ent m t k r c hvis hk hold hm hadded hchanged hrate

/-- Acknowledgement soundness: acknowledging a registered message moves the tick of an entity
only if the entity was in that message, only forward, and exactly to the tick of that message's
replication run — so everything changed after that run is still newer and keeps being sent. -/
theorem C11_ack_sound (cl : Cli) (idx : Nat) (info : Inflight)
    (h : cl.inflight.find? (·.index = idx) = some info) (j : Nat) :
    (aget (ackOne cl idx).mutTick j = aget cl.mutTick j) ∨
    (j ∈ info.ents ∧ ∃ t, aget cl.mutTick j = some t ∧ t ≤ info.tick ∧ aget (ackOne cl idx).mutTick j = some info.tick) := by
  rw [ackOne_known cl idx info h]
  exact ackFold_sound info cl.mutTick j

/-- Acknowledgements naming unknown messages (junk indices, duplicates, messages already
cleaned up) change nothing. -/
theorem C11_unknown_ack_noop (cl : Cli) (idx : Nat) (h : cl.inflight.find? (·.index = idx) = none) :
    ackOne cl idx = cl :=
  ackOne_unknown cl idx h

/-- An acknowledgement is consumed: repeating it changes nothing. -/
theorem C11_ack_once (cl : Cli) (idx : Nat) : ackOne (ackOne cl idx) idx = ackOne cl idx :=
  ackOne_twice cl idx

/-- Idle silence: when nothing is buffered or pending for the client and there is nothing to
say about any replicated entity (`Quiet`: known, visible, nothing newer than the acknowledged
tick or no firing send rate, no removal), the run sends the client no update message and no
mutations and leaves its state untouched.  (With per-tick tracking `Mutations::send` still
emits its empty bookkeeping message; that is the exception the property names.) -/
theorem C11_idle_silent (s : Server) (thisRun : Nat) (cl : Cli)
    (hd : s.despawnBuf = []) (hr : s.removalBuf = []) (hm : cl.mappings = []) (hl : NoLost s.white cl)
    (hq : ∀ e ent m, (e, ent) ∈ s.world → ent.marker = some m → Quiet s cl e ent m) :
    runClient s thisRun cl = (cl, { update := none, mutEnts := [] }) :=
  runClient_idle s thisRun cl hd hr hm hl hq

/-- Non-vacuity: a known, visible entity with one changed component: re-sent while the belief
is old, silent once it is acknowledged. -/
def exServer : Server :=
  { rates := [(0, .every)], running := true, lastRun := 5, now := 9, tick := 3,
    world := [(7, { marker := some 2, comps := [(0, { val := 42, added := 2, changed := 8 })] })] }

example : (runClient exServer 10 { authorized := true, mutTick := [(7, 6)] }).2.mutEnts = [{ ent := 7, comps := [(0, 42)] }] := by
  decide
example : (runClient exServer 10 { authorized := true, mutTick := [(7, 8)] }).2.mutEnts = [] ∧
    (runClient exServer 10 { authorized := true, mutTick := [(7, 8)] }).2.update = none := by
  decide

/-- **The server's belief never runs ahead of the last replication run — over ALL histories of the
joint server model** (`Proofs/Belief.lean`; no hypothesis on the history at all).  For every client
of every reachable state: every tick the server takes a tracked entity to be acknowledged at, and
the run tick of every mutate message still awaiting its acknowledgement, is at most the change tick
of the last replication run, which lies before the current change tick.  Together with Bevy's
change detection (every change between two runs is stamped after the earlier one) this is why
"changed after the belief" (`C11_resend_until_ack`) covers every change the client can have
missed, and why acknowledging (`C11_ack_sound`) can never move a belief past data that was not
yet sent. -/
theorem C11_history_belief (s0 : Srv.Server) (hc0 : s0.clients = []) (ht : s0.lastRun < s0.now) (ops : List Joint.Op) :
    (Joint.run { srv := s0 } ops).1.srv.lastRun < (Joint.run { srv := s0 } ops).1.srv.now ∧
    ∀ x ∈ (Joint.run { srv := s0 } ops).1.srv.clients,
      (∀ e t, Srv.aget x.2.mutTick e = some t → t ≤ (Joint.run { srv := s0 } ops).1.srv.lastRun) ∧
      (∀ i ∈ x.2.inflight, i.tick ≤ (Joint.run { srv := s0 } ops).1.srv.lastRun) :=
  Joint.history_belief s0 hc0 ht ops

/-- Non-vacuity of `C11_history_belief`: entity 5 is sent at run 2, mutated, re-sent in a mutate
message of run 4 (in flight: belief still 2, last run 4); after the acknowledgement the belief is 4,
the last run still 4, the clock at 7. -/
example :
    let s0 : Srv.Server := { rates := [(0, .every)] }
    let ops2 : List Joint.Op :=
      [.start, .connect 0 true, .spawn 5 true [(0, 7)], .frame true 10 (fun _ => []), .mutate 5 0 9,
       .frame true 10 (fun c => if c = 0 then [[5]] else [])]
    let ops : List Joint.Op := ops2 ++ [.ack 0 [0], .frame false 10 (fun _ => [])]
    ((Joint.run { srv := s0 } ops2).1.srv.clients.map fun x => (x.2.mutTick, x.2.inflight.map (·.tick)),
      (Joint.run { srv := s0 } ops2).1.srv.lastRun, (Joint.run { srv := s0 } ops2).1.srv.now) = ([([(5, 2)], [4])], 4, 5) ∧
    ((Joint.run { srv := s0 } ops).1.srv.clients.map fun x => (x.2.mutTick, x.2.inflight.map (·.tick)),
      (Joint.run { srv := s0 } ops).1.srv.lastRun, (Joint.run { srv := s0 } ops).1.srv.now) = ([([(5, 4)], [])], 4, 7) := by
  refine ⟨by rfl, by rfl⟩

end Replicon.C11
