import Replicon.Proofs.Scene
/-
C18 — Scene export contains exactly the replicated state.

Model: `Model/Scene.lean` (`scene::replicate_into`, `ReplicationRule::matches`).  The theorems hold
for every rule list (any order, any priorities, overlapping single and bundle rules), every
reflectability predicate and every world whose entities have distinct ids.
Bevy's scene (de)serializer is not modelled: "can be read back" is reduced to "no component
twice" (the reader's structural requirement) and additionally exercised on the real code by the
harness (serialize → deserialize on every generated case).
-/
namespace Replicon.C18
open Replicon Replicon.Scene

/-- The scene contains exactly the entities it already had plus one entry per entity marked
for replication — including those without components — and, if it had no duplicates before, it
has none afterwards. -/
theorem C18_entities (refl : Nat → Bool) (rules : List Rule) (world : List WEntity) (scene : SceneMap) :
    ((scene.map (·.1)).Nodup → ((replicateInto refl rules scene world).map (·.1)).Nodup) ∧
    ∀ j, j ∈ (replicateInto refl rules scene world).map (·.1) ↔
      j ∈ scene.map (·.1) ∨ ∃ e ∈ world, e.marked = true ∧ e.id = j :=
  keys_replicateInto refl rules world scene

/-- The components pushed for an entity are exactly the selected, reflectable components, each
with the entity's current value … -/
theorem C18_components (refl : Nat → Bool) (rules : List Rule) (e : WEntity) (k v : Nat) :
    (k, v) ∈ exported refl rules e ↔
      Selected rules e k ∧ refl k = true ∧ e.comps.lookup k = some v := by
  have := (exported_inv refl rules e).2.2 k v
  rw [mem_candidates] at this
  exact this

/-- … and no component is pushed twice, however the rules overlap. -/
theorem C18_nodup (refl : Nat → Bool) (rules : List Rule) (e : WEntity) :
    ((exported refl rules e).map (·.1)).Nodup :=
  (exported_inv refl rules e).2.1

/-- Exporting extends an existing scene entity (its old components are kept, the exported ones
are appended) and creates a fresh entry otherwise; entities not marked for replication are left
untouched.  With an empty scene the entry of a marked entity is exactly `exported`: neither the
marker nor any unselected component. -/
theorem C18_extends (refl : Nat → Bool) (rules : List Rule) (world : List WEntity) (scene : SceneMap)
    (j : Nat) (hnd : (world.map (·.id)).Nodup) :
    (replicateInto refl rules scene world).lookup j =
      match world.find? (fun e => e.marked && e.id == j) with
      | some e => some ((scene.lookup j).getD [] ++ exported refl rules e)
      | none => scene.lookup j :=
  lookup_replicateInto refl rules world scene j hnd

/-- Corollary for a fresh scene and a marked entity. -/
theorem C18_fresh (refl : Nat → Bool) (rules : List Rule) (world : List WEntity) (e : WEntity)
    (hnd : (world.map (·.id)).Nodup) (he : e ∈ world) (hm : e.marked = true) :
    (replicateInto refl rules [] world).lookup e.id = some (exported refl rules e) := by
  rw [C18_extends refl rules world [] e.id hnd]
  have : ∃ e', world.find? (fun x => x.marked && x.id == e.id) = some e' ∧ e' = e := by
    cases hf : world.find? (fun x => x.marked && x.id == e.id) with
    | none =>
      rw [List.find?_eq_none] at hf
      exact absurd (by simp [hm]) (hf e he)
    | some e' =>
      refine ⟨e', rfl, ?_⟩
      have hmem := List.mem_of_find?_eq_some hf
      have hp := List.find?_some hf
      simp only [Bool.and_eq_true, beq_iff_eq] at hp
      -- distinct ids: the entity found is `e`
      induction world with
      | nil => cases he
      | cons x xs ih =>
        simp only [List.map_cons, List.nodup_cons] at hnd
        rcases List.mem_cons.mp he with h1 | h1 <;> rcases List.mem_cons.mp hmem with h2 | h2
        · rw [h1, h2]
        · subst h1; exact absurd (List.mem_map.mpr ⟨e', h2, hp.2⟩) hnd.1
        · subst h2; exact absurd (List.mem_map.mpr ⟨e, h1, hp.2.symm⟩) hnd.1
        · have hf' : xs.find? (fun x => x.marked && x.id == e.id) = some e' := by
            by_cases hx : (x.marked && x.id == e.id) = true
            · rw [List.find?_cons_of_pos (by simpa using hx)] at hf
              simp only [Option.some.injEq] at hf
              subst hf
              simp only [Bool.and_eq_true, beq_iff_eq] at hx
              exact absurd (List.mem_map.mpr ⟨e, h1, hx.2.symm⟩) hnd.1
            · rw [List.find?_cons_of_neg (by simpa using hx)] at hf; exact hf
          exact ih hnd.2 h1 hf' h2
  obtain ⟨e', hf, heq⟩ := this
  rw [hf, heq]; rfl

/-! Non-vacuity: the F12 scenario (rules `A` and `(A,B)`, entity with both) exports `A` once. -/
example : exported (fun _ => true) [{ priority := 2, comps := [0, 1] }, { priority := 1, comps := [0] }]
    { id := 0, marked := true, comps := [(0, 5), (1, 7)] } = [(0, 5), (1, 7)] := by decide
example : replicateInto (fun k => k < 4) [{ priority := 1, comps := [0] }, { priority := 1, comps := [4] }] [(1, [(23, 9)])]
    [{ id := 0, marked := true, comps := [] }, { id := 1, marked := true, comps := [(0, 3), (4, 4)] },
     { id := 2, marked := false, comps := [(0, 1)] }] = [(1, [(23, 9), (0, 3)]), (0, [])] := by decide

end Replicon.C18
