import Replicon.Proofs.Backend
/-
C17 — The example transport preserves per-channel order and delivers exactly once.

Model: `Model/Backend.lean` (`LinkConditioner` without a `ConditionerConfig`, `TimedMessage::cmp`
as scraped from the source, the 3-byte tcp framing).  `std::collections::BinaryHeap` is not
modelled: `pop` is specified as "returns a `cmp`-greatest element", and `C17_pop_forced` shows
that with the sequence tie-break that element is unique, so the result holds for every correct
priority queue.  TCP segmentation / `WouldBlock` in the middle of `read_exact` are runtime
behaviour outside the model (receiver passes see whole frames).
-/
namespace Replicon.C17
open Replicon Replicon.Backend

/-- Among queued messages an earlier-inserted one strictly beats every later one under
`TimedMessage::cmp`: the heap has no freedom in what it pops next. -/
theorem C17_pop_forced (x y : TimedMsg) (h : Before x y) : tmCmp y x = .lt := pop_unique x y h

/-- However many messages pile up between two receiver passes, on however many channels:
everything handed to the backend comes out exactly once and in sending order (hence in sending
order on every channel), for any number of passes at non-decreasing times. -/
theorem C17_exactly_once_in_order (passes : List (Nat × List (Nat × List Nat)))
    (o : List (Nat × List Nat)) (ht : TimesOk 0 passes)
    (h : runLink {} passes = some o) :
    o = (passes.map (·.2)).flatten :=
  runLink_fifo passes {} 0 o ⟨List.Pairwise.nil, fun _ hx => by cases hx⟩ rfl ht h

/-- Per-channel corollary: the messages received on channel `ch` are exactly those sent on
`ch`, in order. -/
theorem C17_per_channel (passes : List (Nat × List (Nat × List Nat)))
    (o : List (Nat × List Nat)) (ht : TimesOk 0 passes) (h : runLink {} passes = some o) (ch : Nat) :
    o.filter (·.1 = ch) = ((passes.map (·.2)).flatten).filter (·.1 = ch) := by
  rw [C17_exactly_once_in_order passes o ht h]

/-- The framing hands every payload to the receiver unchanged, on the channel it was sent on,
and leaves the rest of the stream untouched. -/
theorem C17_frame_roundtrip (ch : Nat) (m rest f : List Nat) (h : frame ch m = some f) :
    readMessage (f ++ rest) = some ((ch, m), rest) :=
  readMessage_frame ch m rest f h

/-- Every message of ordinary size on a valid channel can be framed. -/
theorem C17_frame_defined (ch : Nat) (m : List Nat) (hc : ch < 256) (hm : m.length < 65536) :
    ∃ f, frame ch m = some f := by
  unfold frame; rw [if_pos ⟨hc, hm⟩]; exact ⟨_, rfl⟩

theorem C17_frame_stream (msgs : List (Nat × List Nat)) (buf : List Nat) (h : frameAll msgs = some buf) :
    readAll buf.length buf = msgs :=
  readAll_frameAll msgs buf buf.length h (frameAll_length msgs buf h)

/-- Non-vacuity: four messages on two channels queued before one pass, two more before the next. -/
example : runLink {} [(5, [(0, [1]), (1, [2]), (0, [3]), (0, [4])]), (5, []), (9, [(1, [5]), (0, [6])])]
    = some [(0, [1]), (1, [2]), (0, [3]), (0, [4]), (1, [5]), (0, [6])] := by decide
example : TimesOk 0 [(5, [(0, [1])]), (5, []), (9, [])] := by simp [TimesOk]

end Replicon.C17
