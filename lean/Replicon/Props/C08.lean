import Replicon.Proofs.Visibility
import Replicon.Proofs.Sync
import Replicon.Proofs.ClientVals
import Replicon.Proofs.Jump
/-
C08 — Hidden entities' data never reaches a client.

Model: `Model/Visibility.lean`, the projection of `ClientVisibility` on one entity (every
operation of the component touches only that entity's list entry and set memberships), for
both policies, with the replication run's decision for the entity (`collect_despawns` /
`collect_changes` by `state()` / `update`).  The ghost is the pair (most recent setting, client
holds the entity).  The per-entity state space is finite (12 cells × 4 ghosts × 4 operations ×
2 policies), so the one-step lemma is decided exhaustively by the kernel and lifted to
operation sequences of any length by induction.

The proof attempt on the unrepaired model failed on `hide; show; hide` under the whitelist
policy and exposed a genuine defect (F19, repaired by a `fix:` commit).

Not covered here: the marker removal of a live entity is delivered to `ClientVisibility` as a
despawn and wipes the setting (known finding F14); that `collect_changes` sends a *fresh* entity
in full under the blacklist policy is the "marker added" check (protocol model, C03).
-/
namespace Replicon.C08
open Replicon Replicon.Vis

/-- For every sequence of set-visibility calls (including repeated and mutually cancelling
calls inside one tick window), replication runs and despawns, under either policy: the cell
keeps representing (most recent setting, client holds the entity), and every replication run
decided for the entity exactly what the property demands. -/
theorem C08_refines (white : Bool) (ops : List Op) :
    Inv white (runCell white {} ops).1 (runGhost white (Ghost.init white) ops) = true ∧
    AllSentOk white (Ghost.init white) ops (runCell white {} ops).2 :=
  run_refines white ops {} (Ghost.init white) (init_inv white)

/-- The visibility query reports the most recent setting. -/
theorem C08_query (white : Bool) (ops : List Op) :
    isVisible white (runCell white {} ops).1 = (runGhost white (Ghost.init white) ops).desired := by
  have h := (C08_refines white ops).1
  exact (step_preserves white _ _ .tick h).2.2

/-- One replication run, spelled out: hidden and not held → nothing is sent (no data of a
hidden entity ever leaves); hidden but still held → a despawn; visible and not held → the
whole entity; visible and held → changes only.  Other clients have their own cells. -/
theorem C08_run_decision (white : Bool) (c : Cell) (g : Ghost) (h : Inv white c g = true) :
    (step white c .tick).2 =
      (if g.desired then (if g.held then Sent.changes else Sent.whole)
       else (if g.held then Sent.despawn else Sent.nothing)) := by
  have := (step_preserves white c g .tick h).2.1
  unfold sentOk at this
  cases hd : g.desired <;> cases hh : g.held <;> simp [hd, hh] at this ⊢ <;> exact this

/-- When the entity is despawned the client is told if (and whenever) it holds it. -/
theorem C08_despawn (white : Bool) (c : Cell) (g : Ghost) (h : Inv white c g = true) (hh : g.held = true) :
    (step white c .despawnTick).2 = Sent.despawn := by
  have := (step_preserves white c g .despawnTick h).2.1
  unfold sentOk at this
  simp [hh] at this
  exact this

/-- Non-vacuity: the F19 scenario on the repaired model — visible and held, then hide, show,
hide within one window: the next run sends the despawn. -/
example : (runCell true {} [.show_, .tick, .hide, .show_, .hide, .tick]).2
    = [.nothing, .whole, .nothing, .nothing, .nothing, .despawn] := by decide

/-- Known finding F14, machine-checked on the visibility model (replay: `findings/F14.trace`):
blacklist; the entity is hidden and a tick passes; then its replication marker is removed, which
`ClientVisibility` is told as a despawn: the cell is wiped and `is_visible` answers `true` although
the most recent setting of the (live) entity is "hidden". -/
theorem C08_known_finding_F14_witness :
    let c1 := (step false {} .hide).1
    let c2 := (step false c1 .tick).1
    let c3 := (step false c2 .despawnTick).1
    isVisible false c2 = false ∧ isVisible false c3 = true := by
  decide

/-- **Gaining and losing visibility, over ALL histories of the whole server**
(`Proofs/Sync.lean`, joint model, any number of clients): after any history in which entity
identifiers are not reused, in the next frame in which `send_replication` runs, for every
authorized client: an entity the server tracks for it that it must not hold afterwards (hidden
from it, despawned, or without the replication marker) is in the DESPAWNS section of an update
message sent to it in that frame; an entity it does not hold and may see afterwards is in the
CHANGES section of one (whole: `Srv.collect_unknown_whole`).  The statement is per client: other
clients' cells and ticks do not occur in it. -/
theorem C08_history_gain_lose (s0 : Srv.Server) (hw : s0.world = []) (hc0 : s0.clients = []) (ops : List Joint.Op)
    (hl : Joint.Legal { srv := s0 } ops) (ticked : Bool) (ms : Nat) (parts : Nat → List (List Nat))
    (hr : (Joint.run { srv := s0 } ops).1.srv.running = true)
    (hc : (Srv.preRun (Joint.run { srv := s0 } ops).1.srv ticked ms).tickChanged = true)
    (c : Nat) (cl : Srv.Cli) (hm : (c, cl) ∈ (Srv.preRun (Joint.run { srv := s0 } ops).1.srv ticked ms).clients)
    (ha : cl.authorized = true) (e : Nat) :
    (e ∈ Srv.keys cl →
      ¬ (Srv.marked (Srv.preRun (Joint.run { srv := s0 } ops).1.srv ticked ms).world e ∧
         isVisible (Srv.preRun (Joint.run { srv := s0 } ops).1.srv ticked ms).white
          (Srv.cell (Srv.ranClient (Srv.preRun (Joint.run { srv := s0 } ops).1.srv ticked ms) parts (c, cl)).2 e) = true) →
      ∃ o u, (c, o) ∈ (Joint.frame (Joint.run { srv := s0 } ops).1 ticked ms parts).2.1 ∧
        o.update = some u ∧ e ∈ u.despawns) ∧
    (e ∉ Srv.keys cl →
      (Srv.marked (Srv.preRun (Joint.run { srv := s0 } ops).1.srv ticked ms).world e ∧
         isVisible (Srv.preRun (Joint.run { srv := s0 } ops).1.srv ticked ms).white
          (Srv.cell (Srv.ranClient (Srv.preRun (Joint.run { srv := s0 } ops).1.srv ticked ms) parts (c, cl)).2 e) = true) →
      ∃ o u, (c, o) ∈ (Joint.frame (Joint.run { srv := s0 } ops).1 ticked ms parts).2.1 ∧
        o.update = some u ∧ e ∈ u.changes.map (·.ent)) := by
  have invp := Joint.history_pre s0 hw hc0 ops hl ticked ms
  refine ⟨?_, ?_⟩
  · intro hk hnv
    obtain ⟨u, hu, he⟩ := Srv.frame_lost_despawned _ parts invp (c, cl) hm ha e hk hnv
    exact ⟨_, u, Joint.frame_out_of_client _ ticked ms parts hr hc c cl hm ha, hu, he⟩
  · intro hk hv
    obtain ⟨u, hu, he⟩ := Srv.frame_gained_whole _ parts invp (c, cl) hm ha e hk hv
    exact ⟨_, u, Joint.frame_out_of_client _ ticked ms parts hr hc c cl hm ha, hu, he⟩

/-- **"Gaining visibility delivers the whole entity" — with its values, over ALL histories, across
both models** (`Proofs/ClientVals.lean`; the statement of `C07_history_complete_state_values`): an
entity the server starts to track for a client in a frame — in particular one that was hidden
from the client and is shown again, which the client had been told to despawn — is sent in an
update message of that frame, and the client model applying it has exactly the server's current
value for every plain replicated component of the entity. -/
theorem C08_history_gained_entity_values (s0 : Srv.Server) (hw : s0.world = []) (hc0 : s0.clients = []) (hb : s0.removalBuf = [])
    (hrates : (s0.rates.map (·.1)).Nodup)
    (ops : List Joint.Op) (hl : Joint.Legal2 { srv := s0 } ops) (ticked : Bool) (ms : Nat)
    (hr : (Joint.run { srv := s0 } ops).1.srv.running = true)
    (z : Nat × Srv.Cli) (hz : z ∈ (Joint.run { srv := s0 } ops).1.srv.clients)
    (e : Nat)
    (hnew : e ∉ Srv.keys (Srv.runCl1 (Srv.preRun (Joint.run { srv := s0 } ops).1.srv ticked ms) (Srv.preG (Joint.run { srv := s0 } ops).1.srv ms z.2)))
    (hbump : e ∈ Srv.runBumped (Srv.preRun (Joint.run { srv := s0 } ops).1.srv ticked ms)
      ((Srv.preRun (Joint.run { srv := s0 } ops).1.srv ticked ms).now + 1) (Srv.preG (Joint.run { srv := s0 } ops).1.srv ms z.2))
    (ent : Srv.SEnt) (hwld : (e, ent) ∈ (Joint.run { srv := s0 } ops).1.srv.world) :
    ∃ u, (Srv.runClient (Srv.preRun (Joint.run { srv := s0 } ops).1.srv ticked ms)
        ((Srv.preRun (Joint.run { srv := s0 } ops).1.srv ticked ms).now + 1) (Srv.preG (Joint.run { srv := s0 } ops).1.srv ms z.2)).2.update = some u ∧
      ∀ k r comp, (k, r, comp) ∈ Srv.present (Joint.run { srv := s0 } ops).1.srv ent →
        (Joint.replay ((Joint.runLog { srv := s0 } (fun _ => []) ops).2 z.1)).entityComps.contains k = false →
        Cli.valOn (Cli.applyUpdate (Joint.replay ((Joint.runLog { srv := s0 } (fun _ => []) ops).2 z.1)) u) e k = some comp.val :=
  Joint.history_new_entity_values s0 hw hc0 hb hrates ops hl ticked ms hr z hz e hnew hbump ent hwld

/-- `C08_history_gain_lose` for histories in which the tick also advances by more than one at once
(`Joint.OpJ`, `Proofs/Jump.lean`; the hypotheses are those of the session theorems: identifiers not
reused, a frame between a stop and a start, no pre-spawn mappings). -/
theorem C08_history_gain_lose_with_tick_jumps (s0 : Srv.Server) (hw : s0.world = []) (hc0 : s0.clients = [])
    (hb : s0.removalBuf = []) (ht : s0.lastRun < s0.now) (ops : List Joint.OpJ)
    (hl : Joint.LegalJ { srv := s0 } ops) (ticked : Bool) (ms : Nat) (parts : Nat → List (List Nat))
    (hr : (Joint.runLogJ { srv := s0 } (fun _ => []) ops).1.srv.running = true)
    (hc : (Srv.preRun (Joint.runLogJ { srv := s0 } (fun _ => []) ops).1.srv ticked ms).tickChanged = true)
    (c : Nat) (cl : Srv.Cli)
    (hm : (c, cl) ∈ (Srv.preRun (Joint.runLogJ { srv := s0 } (fun _ => []) ops).1.srv ticked ms).clients)
    (ha : cl.authorized = true) (e : Nat) :
    (e ∈ Srv.keys cl →
      ¬ (Srv.marked (Srv.preRun (Joint.runLogJ { srv := s0 } (fun _ => []) ops).1.srv ticked ms).world e ∧
         isVisible (Srv.preRun (Joint.runLogJ { srv := s0 } (fun _ => []) ops).1.srv ticked ms).white
          (Srv.cell (Srv.ranClient (Srv.preRun (Joint.runLogJ { srv := s0 } (fun _ => []) ops).1.srv ticked ms) parts (c, cl)).2 e) = true) →
      ∃ o u, (c, o) ∈ (Joint.frame (Joint.runLogJ { srv := s0 } (fun _ => []) ops).1 ticked ms parts).2.1 ∧
        o.update = some u ∧ e ∈ u.despawns) ∧
    (e ∉ Srv.keys cl →
      (Srv.marked (Srv.preRun (Joint.runLogJ { srv := s0 } (fun _ => []) ops).1.srv ticked ms).world e ∧
         isVisible (Srv.preRun (Joint.runLogJ { srv := s0 } (fun _ => []) ops).1.srv ticked ms).white
          (Srv.cell (Srv.ranClient (Srv.preRun (Joint.runLogJ { srv := s0 } (fun _ => []) ops).1.srv ticked ms) parts (c, cl)).2 e) = true) →
      ∃ o u, (c, o) ∈ (Joint.frame (Joint.runLogJ { srv := s0 } (fun _ => []) ops).1 ticked ms parts).2.1 ∧
        o.update = some u ∧ e ∈ u.changes.map (·.ent)) := by
  have inv := Joint.ksess_runJ ops _ _ (Joint.ksess_empty s0 hw hc0 hb ht) hl
  have invp := Srv.preRun_sync _ ticked ms inv.sess.sync
  refine ⟨?_, ?_⟩
  · intro hk hnv
    obtain ⟨u, hu, he⟩ := Srv.frame_lost_despawned _ parts invp (c, cl) hm ha e hk hnv
    exact ⟨_, u, Joint.frame_out_of_client _ ticked ms parts hr hc c cl hm ha, hu, he⟩
  · intro hk hv
    obtain ⟨u, hu, he⟩ := Srv.frame_gained_whole _ parts invp (c, cl) hm ha e hk hv
    exact ⟨_, u, Joint.frame_out_of_client _ ticked ms parts hr hc c cl hm ha, hu, he⟩


end Replicon.C08
