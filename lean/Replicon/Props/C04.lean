import Replicon.Proofs.Events
import Replicon.Proofs.Client
import Replicon.Proofs.Server
import Replicon.Proofs.Joint
import Replicon.Proofs.Jump
/-
C04 — Server events never outrun the replication they depend on.

Model: `Model/Events.lean` — `sendEvent` (`BufferedServerEvents::send_all` +
`SerializedMessage::get_bytes`: the stamp is the receiving client's `ClientTicks::update_tick`),
`SrvEv.frame` (the chained `send_or_buffer`, `send_buffered`, `resend_locally`, which run after
`send_replication`), `receive` (`ServerEvent::receive_typed` + `ClientEventQueue`), `resolveRefs`
(`ServerEvent::deserialize` with `ClientReceiveCtx`); `Model/Server.lean` (`runClient` sets the
update tick exactly when an update message goes out) and `Model/Client.lean` (`applyUpdate` sets
`ServerUpdateTick` to the message's tick).

What is proved:
* for ALL histories of server operations and frames (`Model/Joint.lean`: world changes,
  visibility, mappings, connects, authorizations, disconnects, stops and starts, acknowledgements,
  event emissions, frames with or without a tick; any number of clients): every dependent event
  leaves the server stamped with the tick of the last update message sent to the receiving
  client in its session, and those ticks strictly increase (`C04_history`, by an inductive
  invariant over the operation list);
* the client gate and, for any strictly increasing positive tick sequence, that passing the gate
  means every update message sent before the event has been applied
  (`C04_gate`, `C04_ticks_compose`, `C04_applied_before_delivery`);
* reference resolution.
What remains an assumption: the ordered reliable channel hands the client the update messages
in sending order (so what it has applied is a prefix), and `NoTickZeroUpdate` — no update
message carries tick 0, the client's initial `ServerUpdateTick` (known finding F20: with a
replication run at tick 0 the statement is false; the implementation replays it).  These two
are what `C04_end_to_end_partial` lacks for the unconditional statement.  The oracle on the
implementation checks the same two facts on real traces: the stamp on the wire equals the tick of
the last update message sent to that client, and at delivery the client has received at least as
many update messages as had been sent before the event.
Ticks are natural numbers here: the wrap-around of `RepliconTick` inside the queue's `BTreeMap`
is not modelled (a session would have to last 2^31 ticks).
-/
namespace Replicon.C04
open Replicon Replicon.Evt

/-- Server link: a dependent event goes out stamped with the receiving client's update tick,
as it is when the flush runs (after the replication of the same tick). -/
theorem C04_stamp (peers : List Peer) (excl : List Nat) (e : Ev) (o : Out) (h : o ∈ sendEvent peers excl e) :
    ∃ p ∈ peers, p.id = o.client ∧ p.authorized = true ∧ o.stamp = some p.updateTick := by
  obtain ⟨p, hp, _, _, ha, rfl⟩ := mem_sendEvent.mp h
  exact ⟨p, hp, rfl, ha, rfl⟩

/-- … and that update tick is the tick of the last non-empty update message sent to the client:
`send_replication` moves it exactly when it sends one. -/
theorem C04_update_tick_moves (s : Srv.Server) (thisRun : Nat) (cl : Srv.Cli) :
    (∀ u, (Srv.runClient s thisRun cl).2.update = some u →
        u.tick = s.tick ∧ (Srv.runClient s thisRun cl).1.updateTick = s.tick) ∧
    ((Srv.runClient s thisRun cl).2.update = none →
        (Srv.runClient s thisRun cl).1.updateTick = cl.updateTick) := by
  unfold Srv.runClient
  simp only
  split
  · refine ⟨fun u h => by simp at h, fun _ => ?_⟩
    simp only
    exact (Srv.despawnPhase_updateTick s _).trans rfl
  · refine ⟨fun u h => ?_, fun h => by simp at h⟩
    simp only [Option.some.injEq] at h
    subst h
    exact ⟨rfl, rfl⟩

/-- Client link: an event is handed to the game logic only when its stamp is not ahead of
`ServerUpdateTick`; otherwise it waits in the queue (and is not lost: `C05_client_exactly_once`). -/
theorem C04_gate (u : Nat) (q : Queue) (inc : List (Nat × Nat)) :
    (∀ x ∈ (receive u q inc).1, x.1 ≤ u) ∧ (∀ x ∈ (receive u q inc).2.items, u < x.1) :=
  ⟨receive_gate u q inc, receive_waits u q inc⟩

theorem foldl_update_tick (l : List Srv.Update) (c : Cli.Client) :
    (l.foldl Cli.applyUpdate c).updateTick = (l.getLast?.map (·.tick)).getD c.updateTick := by
  induction l generalizing c with
  | nil => rfl
  | cons u us ih =>
    rw [List.foldl_cons, ih, Cli.applyUpdate_tick]
    cases us with
    | nil => rfl
    | cons v vs =>
      rw [List.getLast?_cons_cons]
      cases h : (v :: vs).getLast? with
      | none => simp at h
      | some w => rfl

/-- Composition for one client.  `us` are the update messages the server has sent to it, in
order (ticks strictly increasing, all after what the client started from); the client has applied
the first `k` of them (the channel is ordered and reliable).  If an event stamped `stamp` passes
the gate, every update message with a tick up to `stamp` — that is, every spawn, insertion,
removal and despawn replicated up to the tick the event was flushed in — has been applied. -/
theorem C04_applied_before_delivery (us : List Srv.Update) (c0 : Cli.Client) (k stamp : Nat)
    (hinc : us.Pairwise fun a b => a.tick < b.tick) (h0 : ∀ u ∈ us, c0.updateTick < u.tick)
    (hgate : stamp ≤ ((us.take k).foldl Cli.applyUpdate c0).updateTick) :
    ∀ u ∈ us, u.tick ≤ stamp → u ∈ us.take k := by
  intro u hu hle
  rw [← List.take_append_drop k us] at hu
  rcases List.mem_append.mp hu with hu | hu
  · exact hu
  · exfalso
    rw [foldl_update_tick] at hgate
    have hsplit : (us.take k ++ us.drop k).Pairwise fun a b => a.tick < b.tick := by
      rw [List.take_append_drop]; exact hinc
    cases hl : (us.take k).getLast? with
    | none =>
      rw [hl] at hgate
      simp only [Option.map_none, Option.getD_none] at hgate
      have := h0 u ((List.drop_sublist k us).subset hu)
      omega
    | some v =>
      rw [hl] at hgate
      simp only [Option.map_some, Option.getD_some] at hgate
      have hv : v ∈ us.take k := List.mem_of_getLast? hl
      have := (List.pairwise_append.mp hsplit).2.2 v hv u hu
      omega

/-- References: an event is delivered with every reference replaced by the client's own entity
for it, or — if one does not resolve — not delivered. -/
theorem C04_refs_resolve (map : List (Nat × Nat)) (refs out : List Nat) (h : resolveRefs map refs = some out) :
    out.length = refs.length ∧
      ∀ i (hi : i < refs.length) (ho : i < out.length), map.lookup refs[i] = some out[i] :=
  resolveRefs_some map refs out h

theorem C04_refs_refused (map : List (Nat × Nat)) (refs : List Nat) (r : Nat) (hr : r ∈ refs)
    (h : map.lookup r = none) : resolveRefs map refs = none :=
  resolveRefs_none map refs r hr h

/-! ### all histories -/

open Replicon.Joint in
/-- For every history of operations from the initial state, every frame's dependent events are
stamped with the tick of the last update message sent to the receiving client in its session
(`Joint.StampsOk`), in a state where those ticks strictly increase, never exceed the server
tick, and equal every connected client's `update_tick` (`Joint.Inv`). -/
theorem C04_history (ops : List Joint.Op) :
    Joint.Inv (Joint.run {} ops).1 ∧
    ∀ fr ∈ (Joint.run {} ops).2, ∃ st', Joint.Inv st' ∧ Joint.StampsOk st' fr.2 :=
  Joint.inv_run ops {} Joint.inv_init

/-- Client side, on ticks: `l` are the ticks of the update messages sent to the client in its
session (strictly increasing, none 0); the event was stamped when `j` of them had been sent, the
client has applied `k` of them.  If the stamp passes the gate, `j ≤ k`: everything sent before
the event has been applied. -/
theorem C04_ticks_compose (l : List Nat) (hinc : l.Pairwise (· < ·)) (hpos : ∀ t ∈ l, 0 < t)
    (j k : Nat) (hj : j ≤ l.length)
    (hgate : Joint.lastOr0 (l.take j) ≤ Joint.lastOr0 (l.take k)) : j ≤ k := by
  by_cases hjk : j ≤ k
  · exact hjk
  · exfalso
    have hkj : k < j := by omega
    have hjpos : 0 < j := by omega
    -- the stamp is `l[j-1]`
    have hlast : Joint.lastOr0 (l.take j) = l[j - 1]'(by omega) := by
      unfold Joint.lastOr0
      rw [List.getLast?_take]
      have : j ≠ 0 := by omega
      simp only [this, if_false]
      rw [List.getElem?_eq_getElem (by omega)]
      simp
    by_cases hk0 : k = 0
    · subst hk0
      have h0 : Joint.lastOr0 (l.take 0) = 0 := by simp [Joint.lastOr0]
      rw [h0, hlast] at hgate
      have := hpos (l[j - 1]'(by omega)) (List.getElem_mem _)
      omega
    · have hklast : Joint.lastOr0 (l.take k) = l[k - 1]'(by omega) := by
        unfold Joint.lastOr0
        rw [List.getLast?_take]
        simp only [hk0, if_false]
        rw [List.getElem?_eq_getElem (by omega)]
        simp
      rw [hlast, hklast] at hgate
      have := List.pairwise_iff_getElem.mp hinc (k - 1) (j - 1) (by omega) (by omega) (by omega)
      omega

/-- Non-vacuity: a history with two clients — a spawn, a tick with an event, a late joiner, a
second tick — run on the joint model: the late joiner gets only the second event, stamped with
the tick of its own first update message (2); for client 0 the second tick brought only a
mutation (no update message), so its second event still carries stamp 1. -/
example :
    let ops : List Joint.Op :=
      [.start, .connect 0 true, .spawn 5 true [(0, 7)],
       .emit { ev := { id := 100, chan := 2, mode := .broadcast }, independent := false },
       .frame true 10 (fun _ => []),
       .connect 1 true, .insert 5 0 8,
       .emit { ev := { id := 101, chan := 2, mode := .broadcast }, independent := false },
       .frame true 10 (fun _ => [])]
    ((Joint.run { srv := { rates := [(0, .every)] } } ops).2.map fun fr => fr.2.map fun o => (o.client, o.id, o.stamp)) =
      [[], [], [], [], [(0, 100, some 1)], [], [], [], [(1, 101, some 2), (0, 101, some 1)]] := by
  decide

/-- The part of the end-to-end statement that is a theorem for single steps: the conjunction of
the links (`C04_history` lifts the server link to all histories).  Missing for the unconditional
statement: the transport's in-order delivery and `NoTickZeroUpdate` (F20). -/
theorem C04_end_to_end_partial :
    (∀ peers excl e o, o ∈ sendEvent peers excl e → ∃ p ∈ peers, p.id = o.client ∧ o.stamp = some p.updateTick) ∧
    (∀ u q inc, ∀ x ∈ (receive u q inc).1, x.1 ≤ u) :=
  ⟨fun peers excl e o h => by
      obtain ⟨p, hp, hid, _, hs⟩ := C04_stamp peers excl e o h
      exact ⟨p, hp, hid, hs⟩,
   receive_gate⟩

/-- Non-vacuity: two clients with different update ticks get different stamps; an event that
overtook two update messages waits until the client reaches its stamp. -/
example :
    sendEvent [{ id := 0, authorized := true, updateTick := 4 }, { id := 1, authorized := true, updateTick := 7 }] []
      { id := 9, chan := 2, mode := .broadcast } =
      [{ client := 0, chan := 2, stamp := some 4, id := 9 }, { client := 1, chan := 2, stamp := some 7, id := 9 }] := by
  decide

example :
    let r1 := receive 2 {} [(4, 9), (4, 10)]
    let r2 := receive 3 r1.2 []
    let r3 := receive 4 r2.2 [(4, 11)]
    r1.1 = [] ∧ r2.1 = [] ∧ r3.1 = [(4, 9), (4, 10), (4, 11)] ∧ r3.2.items = [] := by
  decide

open Replicon.Joint in
/-- `C04_history` for histories in which the tick also advances by more than one at once
(`Joint.OpJ`, `Proofs/Jump.lean`: `ServerTick::increment_by` under the manual tick policy): every
frame's dependent events are stamped with the tick of the last update message sent to the
receiving client in its session, in a state where those ticks strictly increase and never exceed
the server tick. -/
theorem C04_history_with_tick_jumps (ops : List Joint.OpJ) :
    Joint.Inv (Joint.runJ {} ops).1 ∧
    ∀ fr ∈ (Joint.runJ {} ops).2, ∃ st', Joint.Inv st' ∧ Joint.StampsOk st' fr.2 :=
  Joint.inv_runJ ops {} Joint.inv_init

/-- Non-vacuity: after a jump of 127 ticks the next update message carries tick 129, and so does
the stamp of the event emitted with it. -/
example :
    let ops : List Joint.OpJ :=
      [.op .start, .op (.connect 0 true), .op (.spawn 5 true [(0, 7)]),
       .op (.emit { ev := { id := 100, chan := 2, mode := .broadcast }, independent := false }),
       .op (.frame true 10 (fun _ => [])), .jump 127, .op (.spawn 6 true [(0, 1)]),
       .op (.emit { ev := { id := 101, chan := 2, mode := .broadcast }, independent := false }),
       .op (.frame true 10 (fun _ => []))]
    ((Joint.runJ { srv := { rates := [(0, .every)] } } ops).2.map fun fr => fr.2.map fun o => (o.client, o.id, o.stamp)) =
      [[], [], [], [], [(0, 100, some 1)], [], [], [], [(0, 101, some 129)]] := by
  decide

end Replicon.C04
