import Replicon.Proofs.Server
import Replicon.Proofs.JointAuth
import Replicon.Proofs.Sync
import Replicon.Proofs.ClientVals
import Replicon.Proofs.ProtocolHash
import Replicon.Proofs.Jump
/-
C07 — Unauthorized clients get no replication and only independent events.

Model: `Model/Server.lean`.  `send_replication`'s client query requires `ClientTicks`, which is
a required component of `AuthorizedClient`; the model keeps that as the `authorized` flag and
`Server.runAll` runs `runClient` for authorized clients only.  Events: see C04/C05 (the event
model delivers non-independent events only to clients with `ClientTicks`).
-/
namespace Replicon.C07
open Replicon Replicon.Srv

/-- However long it stays connected and whatever happens on the server, a client that is not
authorized is sent no update and no mutate message by a replication run. -/
theorem C07_unauthorized_silent (s : Server) (c : Nat) (cl : Cli)
    (hc : aget s.clients c = some cl) (hu : cl.authorized = false)
    (hnodup : ∀ cl', (c, cl') ∈ s.clients → cl' = cl) :
    ∀ o, (c, o) ∉ s.runAll.2 := by
  intro o hmem
  obtain ⟨cl', hin, ha⟩ := runAll_authorized s c o hmem
  rw [hnodup cl' hin] at ha
  rw [hu] at ha
  cases ha

/-- From the run in which it is authorized, the client is sent the complete state visible to
it: every replicated entity that is not hidden, with all its replicated components. -/
theorem C07_full_state_on_authorization (s : Server) (thisRun : Nat) (cl : Cli)
    (hd : s.despawnBuf = []) (hl : NoLost s.white cl) (hk : ∀ e, aget cl.mutTick e = none)
    (e : Nat) (ent : SEnt) (m : Nat) (hw : (e, ent) ∈ s.world) (hm : ent.marker = some m)
    (hv : visState s cl e ≠ .hidden) :
    ∃ u, (runClient s thisRun cl).2.update = some u ∧
      ({ ent := e, comps := (present s ent).map fun x => (x.1, x.2.2.val) } : MsgEnt) ∈ u.changes :=
  runClient_full_state s thisRun cl hd hl hk e ent m hw hm hv

/-- Authorizing a client gives it fresh replication state: nothing recorded as sent. -/
theorem C07_authorize_fresh (s : Server) (c : Nat) (cl : Cli) (hc : aget s.clients c = some cl)
    (hu : cl.authorized = false) :
    aget (s.authorize c).clients c = some { authorized := true } := by
  unfold Server.authorize Server.updClient
  rw [hc]
  simp only [hu, Bool.false_eq_true, if_false]
  exact aget_aset_same _ _ _

/-- With the default protocol check a client is authorized exactly when the hashes match and
is otherwise notified and asked to disconnect (the decision logic of `check_protocol`). -/
theorem C07_protocol_check (server client : Nat) :
    ((Proto.checkProtocol server client).authorized = true ↔ client = server) ∧
    (client ≠ server → (Proto.checkProtocol server client).mismatchSent = true ∧
      (Proto.checkProtocol server client).disconnectRequested = true) := by
  unfold Proto.checkProtocol
  by_cases h : client = server
  · simp [h]
  · simp [h]

/-- Over ALL histories of the joint server model (`Model/Joint.lean`): in the state any history
of operations leads to — however long a client has been connected without authorization and
whatever happened on the server — the next frame hands the transport update / mutate messages
and dependent (non-independent) events only for clients that are authorized in that state. -/
theorem C07_history (ops : List Joint.Op) (ticked : Bool) (ms : Nat) (parts : Nat → List (List Nat)) :
    (∀ c o, (c, o) ∈ (Joint.frame (Joint.run {} ops).1 ticked ms parts).2.1 →
      ∃ cl, (c, cl) ∈ (Joint.run {} ops).1.srv.clients ∧ cl.authorized = true) ∧
    (∀ o ∈ (Joint.frame (Joint.run {} ops).1 ticked ms parts).2.2, o.stamp.isSome →
      ∃ cl, (o.client, cl) ∈ (Joint.run {} ops).1.srv.clients ∧ cl.authorized = true) :=
  ⟨fun c o h => Joint.frame_replication_authorized _ ticked ms parts c o h,
   fun o ho hs => Joint.frame_events_authorized _ ticked ms parts o ho hs⟩

/-- Non-vacuity: the same history — while client 1 is connected without authorization three
replication runs send it nothing; the run after its authorization sends it the whole state. -/
example :
    let s0 : Joint.St := { srv := { rates := [(0, .every), (1, .every)] } }
    let ops : List Joint.Op :=
      [.start, .connect 0 true, .connect 1 false, .spawn 5 true [(0, 7)], .frame true 10 (fun _ => []),
       .frame true 10 (fun _ => []), .insert 5 1 9, .frame true 10 (fun _ => []), .authorize 1, .frame true 10 (fun _ => [])]
    ((Joint.run s0 ops).2.map fun fr => fr.1.map fun o => (o.1, o.2.update.map (·.changes.map fun m => (m.ent, m.comps)))) =
      [[], [], [], [], [(0, some [(5, [(0, 7)])])], [(0, none)], [], [(0, some [(5, [(1, 9)])])], [],
       [(1, some [(5, [(0, 7), (1, 9)])]), (0, none)]] := by
  rfl

/-- **"From the tick it becomes authorized it is sent the complete state visible to it", over
ALL histories** (`Proofs/Sync.lean`): after any history in which entity identifiers are not
reused, a client for which the server tracks nothing yet (it was just authorized, or just
connected under an authorization-free set-up) is sent, in the next frame in which
`send_replication` runs, an update message whose CHANGES section has a record for every entity
that carries the replication marker and is visible to it — each of them whole
(`C07_full_state_on_authorization`). -/
theorem C07_history_complete_state (s0 : Server) (hw : s0.world = []) (hc0 : s0.clients = []) (ops : List Joint.Op)
    (hl : Joint.Legal { srv := s0 } ops) (ticked : Bool) (ms : Nat) (parts : Nat → List (List Nat))
    (hr : (Joint.run { srv := s0 } ops).1.srv.running = true)
    (hc : (preRun (Joint.run { srv := s0 } ops).1.srv ticked ms).tickChanged = true)
    (c : Nat) (cl : Cli) (hm : (c, cl) ∈ (preRun (Joint.run { srv := s0 } ops).1.srv ticked ms).clients)
    (ha : cl.authorized = true) (hfresh : cl.mutTick = []) (e : Nat)
    (hmk : marked (preRun (Joint.run { srv := s0 } ops).1.srv ticked ms).world e)
    (hv : Vis.isVisible (preRun (Joint.run { srv := s0 } ops).1.srv ticked ms).white
      (cell (ranClient (preRun (Joint.run { srv := s0 } ops).1.srv ticked ms) parts (c, cl)).2 e) = true) :
    ∃ o u, (c, o) ∈ (Joint.frame (Joint.run { srv := s0 } ops).1 ticked ms parts).2.1 ∧
      o.update = some u ∧ e ∈ u.changes.map (·.ent) := by
  have invp := Joint.history_pre s0 hw hc0 ops hl ticked ms
  have hk : e ∉ keys cl := by unfold keys; rw [hfresh]; simp
  obtain ⟨u, hu, he⟩ := frame_gained_whole _ parts invp (c, cl) hm ha e hk ⟨hmk, hv⟩
  exact ⟨_, u, Joint.frame_out_of_client _ ticked ms parts hr hc c cl hm ha, hu, he⟩

/-- **… the complete state, with its values** (`Proofs/ClientVals.lean`; over ALL histories, across
both models).  After any history (entity identifiers not reused, a stopped server sees a frame
before a restart, no pre-spawn mappings; replication rules for distinct components), in the
next frame of a running server, for every client and every entity the server starts to track
for it in that frame (`runBumped` and not tracked after `collect_despawns`: exactly the case of a
client that was just authorized — it tracks nothing yet, `C07_history_complete_state` — of a
spawn, and of an entity that became visible): an update message is sent to the client, and the
client model that was fed the session's update messages so far and applies this one has, for
every plain (not entity-valued) replicated component of the entity, exactly the server's
current value. -/
theorem C07_history_complete_state_values (s0 : Server) (hw : s0.world = []) (hc0 : s0.clients = []) (hb : s0.removalBuf = [])
    (hrates : (s0.rates.map (·.1)).Nodup)
    (ops : List Joint.Op) (hl : Joint.Legal2 { srv := s0 } ops) (ticked : Bool) (ms : Nat)
    (hr : (Joint.run { srv := s0 } ops).1.srv.running = true)
    (z : Nat × Cli) (hz : z ∈ (Joint.run { srv := s0 } ops).1.srv.clients)
    (e : Nat)
    (hnew : e ∉ keys (runCl1 (preRun (Joint.run { srv := s0 } ops).1.srv ticked ms) (preG (Joint.run { srv := s0 } ops).1.srv ms z.2)))
    (hbump : e ∈ runBumped (preRun (Joint.run { srv := s0 } ops).1.srv ticked ms)
      ((preRun (Joint.run { srv := s0 } ops).1.srv ticked ms).now + 1) (preG (Joint.run { srv := s0 } ops).1.srv ms z.2))
    (ent : SEnt) (hwld : (e, ent) ∈ (Joint.run { srv := s0 } ops).1.srv.world) :
    ∃ u, (runClient (preRun (Joint.run { srv := s0 } ops).1.srv ticked ms)
        ((preRun (Joint.run { srv := s0 } ops).1.srv ticked ms).now + 1) (preG (Joint.run { srv := s0 } ops).1.srv ms z.2)).2.update = some u ∧
      ∀ k r comp, (k, r, comp) ∈ present (Joint.run { srv := s0 } ops).1.srv ent →
        (Joint.replay ((Joint.runLog { srv := s0 } (fun _ => []) ops).2 z.1)).entityComps.contains k = false →
        Cli.valOn (Cli.applyUpdate (Joint.replay ((Joint.runLog { srv := s0 } (fun _ => []) ops).2 z.1)) u) e k = some comp.val :=
  Joint.history_new_entity_values s0 hw hc0 hb hrates ops hl ticked ms hr z hz e hnew hbump ent hwld

/-- `C07_history` for histories in which the tick also advances by more than one at once
(`Joint.OpJ`, `Proofs/Jump.lean`): in the state any such history leads to, the next frame hands
the transport replication messages and dependent events only for authorized clients. -/
theorem C07_history_with_tick_jumps (ops : List Joint.OpJ) (ticked : Bool) (ms : Nat) (parts : Nat → List (List Nat)) :
    (∀ c o, (c, o) ∈ (Joint.frame (Joint.runJ {} ops).1 ticked ms parts).2.1 →
      ∃ cl, (c, cl) ∈ (Joint.runJ {} ops).1.srv.clients ∧ cl.authorized = true) ∧
    (∀ o ∈ (Joint.frame (Joint.runJ {} ops).1 ticked ms parts).2.2, o.stamp.isSome →
      ∃ cl, (o.client, cl) ∈ (Joint.runJ {} ops).1.srv.clients ∧ cl.authorized = true) :=
  ⟨fun c o h => Joint.frame_replication_authorized _ ticked ms parts c o h,
   fun o ho hs => Joint.frame_events_authorized _ ticked ms parts o ho hs⟩

/-- `C07_history_complete_state` for histories with tick jumps: a client the server tracks nothing
for yet is sent, in the next frame with a replication run, a CHANGES record for every marked
entity visible to it. -/
theorem C07_history_complete_state_with_tick_jumps (s0 : Server) (hw : s0.world = []) (hc0 : s0.clients = [])
    (hb : s0.removalBuf = []) (ht : s0.lastRun < s0.now) (ops : List Joint.OpJ)
    (hl : Joint.LegalJ { srv := s0 } ops) (ticked : Bool) (ms : Nat) (parts : Nat → List (List Nat))
    (hr : (Joint.runLogJ { srv := s0 } (fun _ => []) ops).1.srv.running = true)
    (hc : (preRun (Joint.runLogJ { srv := s0 } (fun _ => []) ops).1.srv ticked ms).tickChanged = true)
    (c : Nat) (cl : Cli) (hm : (c, cl) ∈ (preRun (Joint.runLogJ { srv := s0 } (fun _ => []) ops).1.srv ticked ms).clients)
    (ha : cl.authorized = true) (hfresh : cl.mutTick = []) (e : Nat)
    (hmk : marked (preRun (Joint.runLogJ { srv := s0 } (fun _ => []) ops).1.srv ticked ms).world e)
    (hv : Vis.isVisible (preRun (Joint.runLogJ { srv := s0 } (fun _ => []) ops).1.srv ticked ms).white
      (cell (ranClient (preRun (Joint.runLogJ { srv := s0 } (fun _ => []) ops).1.srv ticked ms) parts (c, cl)).2 e) = true) :
    ∃ o u, (c, o) ∈ (Joint.frame (Joint.runLogJ { srv := s0 } (fun _ => []) ops).1 ticked ms parts).2.1 ∧
      o.update = some u ∧ e ∈ u.changes.map (·.ent) := by
  have inv := Joint.ksess_runJ ops _ _ (Joint.ksess_empty s0 hw hc0 hb ht) hl
  have invp := preRun_sync _ ticked ms inv.sess.sync
  have hk : e ∉ keys cl := by unfold keys; rw [hfresh]; simp
  obtain ⟨u, hu, he⟩ := frame_gained_whole _ parts invp (c, cl) hm ha e hk ⟨hmk, hv⟩
  exact ⟨_, u, Joint.frame_out_of_client _ ticked ms parts hr hc c cl hm ha, hu, he⟩

end Replicon.C07
