import Replicon.Proofs.Receive
import Replicon.Proofs.Server
/-
C06 — No client input can crash or exhaust the server.

Model: `Model/Receive.lean` (`receive_acks`, `ClientEvent::receive_typed` with the default
deserializer and `trigger_deserialize`, for the client channels of the harness: acknowledgements,
the `ProtocolHash` trigger, an ordered `u32` event, a mapped event carrying an `Entity`, a
trigger with targets), `Model/Varint.lean` (postcard varints), `Model/EntityCodec.lean`
(`deserialize_entity`, `Entity::try_from_bits`), `Model/Server.lean` (`ack_mutate_message`).
`Res` has a `panic` constructor for every `unwrap` / overflow / `from_bits` site of the modelled
code; the theorems show it is unreachable and bound allocation and work by the message length.

Modelled, not verified: the Rust allocator and `Vec` growth (amortised doubling while pushing
decoded targets — bounded by the number of decoded targets, which `C06_work_bounded` bounds),
Bevy's event and observer machinery that runs once an event is accepted, user-supplied
deserializers of other event types.  The tie: the harness injects byte strings (exhaustive up to
a small length, structure-aware mutations of real messages, adversarial lengths) on every client
channel of a live server from authorized and unauthorized clients, runs the frame under
`catch_unwind` with a size-recording allocator, and the driver compares what the server-side
logic observed with `Recv.receive` on the same bytes; a second, well-behaved client's
convergence is checked afterwards (C01 oracle).
-/
namespace Replicon.C06
open Replicon Replicon.Recv Replicon.Srv

/-- No panic: whatever the bytes, on whatever channel, from an authorized client or not, the
receive path yields an effect — it never reaches a panic site. -/
theorem C06_never_panics (ch : Chan) (authorized : Bool) (bs : List Nat) :
    ∃ eff, receive ch authorized bs = .ok eff := by
  cases ch
  · exact ⟨_, rfl⟩
  · unfold receive; simp only
    rcases trigger_shape 1 10 bs with h | ⟨ts, v, h, _, _⟩
    · unfold decodeU64; rw [h]; exact ⟨_, rfl⟩
    · unfold decodeU64; rw [h]; exact ⟨_, rfl⟩
  · unfold receive decodeOrd decodeU32; simp only
    rcases varint_shape 15 5 bs with h | ⟨v, r, h, _⟩
    · rw [h]; exact ⟨_, rfl⟩
    · rw [h]; exact ⟨_, rfl⟩
  · unfold receive; simp only
    rcases mapped_shape bs with h | ⟨v, e, h⟩
    · rw [h]; exact ⟨_, rfl⟩
    · rw [h]; exact ⟨_, rfl⟩
  · unfold receive; simp only
    rcases trigger_shape 15 5 bs with h | ⟨ts, v, h, _, _⟩
    · unfold decodeU32; rw [h]; exact ⟨_, rfl⟩
    · unfold decodeU32; rw [h]; exact ⟨_, rfl⟩

/-- No allocation out of proportion: the capacity `trigger_deserialize` requests before it has
validated anything is at most the length of the message (repaired by the F10b `fix:` commit;
before it the capacity was the decoded length itself, up to 2^64). -/
theorem C06_allocation_bounded (bs : List Nat) : triggerCapacity bs ≤ bs.length :=
  capacity_le bs

/-- Work in proportion: an accepted trigger carries fewer targets than the message has bytes,
every one a valid entity identifier; an acknowledgement message yields at most one index per two
bytes, each a 16-bit value. -/
theorem C06_work_bounded (bs : List Nat) :
    (∀ ts v, (decodeTrigger decodeU32 bs = .ok (ts, v) ∨ decodeTrigger decodeU64 bs = .ok (ts, v)) →
      ts.length < bs.length ∧ ∀ e ∈ ts, ValidEntity e.1 e.2) ∧
    2 * (Wire.decodeAcks bs).length ≤ bs.length ∧
    ((∀ b ∈ bs, b < 256) → ∀ i ∈ Wire.decodeAcks bs, i < 65536) := by
  refine ⟨?_, acks_length bs, acks_range bs⟩
  intro ts v h
  rcases h with h | h
  · rcases trigger_shape 15 5 bs with h2 | ⟨ts', v', h2, hl, hv⟩
    · unfold decodeU32 at h; rw [h2] at h; cases h
    · unfold decodeU32 at h; rw [h2] at h; cases h; exact ⟨hl, hv⟩
  · rcases trigger_shape 1 10 bs with h2 | ⟨ts', v', h2, hl, hv⟩
    · unfold decodeU64 at h; rw [h2] at h; cases h
    · unfold decodeU64 at h; rw [h2] at h; cases h; exact ⟨hl, hv⟩

/-- Malformed input is discarded: acknowledgements from a client without authorization are
dropped (repaired by the F5 `fix:` commit; before it the lookup of the sender's tick state
panicked) … -/
theorem C06_unauthorized_acks_dropped (bs : List Nat) : receive .acks false bs = .ok .dropped := rfl

/-- … and indices that name no message in flight — junk, duplicates, expired ones — leave the
sender's state exactly as it was, so the server keeps serving it as before. -/
theorem C06_junk_acks_harmless (cl : Cli) (idxs : List Nat)
    (h : ∀ i ∈ idxs, cl.inflight.find? (·.index = i) = none) :
    idxs.foldl ackOne cl = cl := by
  induction idxs with
  | nil => rfl
  | cons i is ih =>
    rw [List.foldl_cons, ackOne_unknown cl i (h i List.mem_cons_self)]
    exact ih fun j hj => h j (List.mem_cons_of_mem _ hj)

/-- a message of one client touches only that client's state -/
theorem C06_other_clients_untouched (s : Server) (c c' : Nat) (idxs : List Nat) (h : c' ≠ c) :
    aget (s.receiveAck c idxs).clients c' = aget s.clients c' := by
  unfold Server.receiveAck Server.updClient
  cases aget s.clients c with
  | none => rfl
  | some cl => exact aget_aset_other _ _ _ _ h

/-- Non-vacuity and the repaired defects as evaluated examples: the nine bytes that used to
request a 2^64-element vector now request eight, and are dropped; an adversarial generation
overflows into `Err`, not into a panic. -/
example : triggerCapacity [255, 255, 255, 255, 255, 255, 255, 255, 255, 1] = 0 ∧
    triggerCapacity [255, 255, 255, 255, 255, 255, 255, 255, 127, 0, 0, 0, 0, 0, 0, 0, 0] = 8 ∧
    receive .hash false [255, 255, 255, 255, 255, 255, 255, 255, 255, 1] = .ok .dropped ∧
    receive .trigger true [1, 1, 255, 255, 255, 255, 15, 7] = .ok .dropped ∧
    receive .trigger true [1, 10, 7] = .ok (.event 7 [(5, 1)]) ∧
    receive .acks true [1, 0, 2, 0, 9] = .ok (.acks [1, 2]) := by
  decide

end Replicon.C06
