import Replicon.Proofs.UpdateVals

/-!
# One run, both sides: every component the run has something to say about is named in a record

The server side of the value argument: for a visible entity, every present component whose path
(`compPath`) is not `nothing` is named by the entity's CHANGES record or by its mutate record; a
component on the path `nothing` was neither added in this tick window nor (if its rate fires)
changed after the server's belief.
-/

namespace Replicon.Srv
open Replicon Replicon.Cli

theorem collect_named (s : Server) (thisRun : Nat) (cl : Cli) (e : Nat) (ent : SEnt) (m : Nat)
    (hv : visState s cl e ≠ Vis.State.hidden) (k : Nat) (r : Rate) (comp : Comp)
    (hp : (k, r, comp) ∈ present s ent)
    (hpath : compPath s (aget cl.mutTick e) (decide (m > s.lastRun) || decide (visState s cl e = Vis.State.gained)) r comp ≠ Path.nothing) :
    (∃ rec, (collectEntity s thisRun cl e ent m).toUpdate = some rec ∧ k ∈ rec.comps.map (·.1)) ∨
    (∃ rec, (collectEntity s thisRun cl e ent m).toMutate = some rec ∧ k ∈ rec.comps.map (·.1)) := by
  let known := aget cl.mutTick e
  let fresh := decide (m > s.lastRun) || decide (visState s cl e = Vis.State.gained)
  let ins := recHalf (present s ent) (fun x => compPath s known fresh x.2.1 x.2.2 = Path.insertion)
  let mut' := recHalf (present s ent) (fun x => compPath s known fresh x.2.1 x.2.2 = Path.mutation)
  have hk : (k, comp.val) ∈ ins ∨ (k, comp.val) ∈ mut' := by
    cases hc : compPath s known fresh r comp with
    | insertion => exact Or.inl ((mem_recHalf _ _ k comp.val).mpr ⟨r, comp, hp, hc, rfl⟩)
    | mutation => exact Or.inr ((mem_recHalf _ _ k comp.val).mpr ⟨r, comp, hp, hc, rfl⟩)
    | nothing => exact absurd hc hpath
  have hkk : ∀ (l : List (Nat × Nat)), (k, comp.val) ∈ l → k ∈ l.map (·.1) :=
    fun l h => List.mem_map_of_mem (f := (·.1)) h
  unfold collectEntity
  simp only [if_neg hv]
  show (∃ rec, (if (fresh || known.isNone) || !ins.isEmpty || (aget s.removalBuf e).isSome then
      (if ins.isEmpty && mut'.isEmpty && !(fresh || known.isNone) then ({ bump := true } : EntOut)
       else { toUpdate := some { ent := e, comps := ins ++ mut' }, bump := true })
      else if !mut'.isEmpty then { toMutate := some { ent := e, comps := mut' } } else {}).toUpdate = some rec ∧ _) ∨
    (∃ rec, (if (fresh || known.isNone) || !ins.isEmpty || (aget s.removalBuf e).isSome then
      (if ins.isEmpty && mut'.isEmpty && !(fresh || known.isNone) then ({ bump := true } : EntOut)
       else { toUpdate := some { ent := e, comps := ins ++ mut' }, bump := true })
      else if !mut'.isEmpty then { toMutate := some { ent := e, comps := mut' } } else {}).toMutate = some rec ∧ _)
  have hne : ¬ (ins.isEmpty = true ∧ mut'.isEmpty = true) := by
    rintro ⟨h1, h2⟩
    rcases hk with h | h
    · rw [List.isEmpty_iff] at h1; rw [h1] at h; cases h
    · rw [List.isEmpty_iff] at h2; rw [h2] at h; cases h
  by_cases hc1 : ((fresh || known.isNone) || !ins.isEmpty || (aget s.removalBuf e).isSome) = true
  · rw [if_pos hc1]
    have hc2 : ¬ ((ins.isEmpty && mut'.isEmpty && !(fresh || known.isNone)) = true) := by
      intro h
      simp only [Bool.and_eq_true] at h
      exact hne h.1
    rw [if_neg hc2]
    left
    refine ⟨{ ent := e, comps := ins ++ mut' }, rfl, ?_⟩
    rcases hk with h | h
    · exact hkk _ (List.mem_append_left _ h)
    · exact hkk _ (List.mem_append_right _ h)
  · rw [if_neg hc1]
    have hie : ins.isEmpty = true := by
      cases hi : ins.isEmpty with
      | true => rfl
      | false => exfalso; apply hc1; simp [hi]
    have hme : ¬ (mut'.isEmpty = true) := fun h => hne ⟨hie, h⟩
    have hc3 : (!mut'.isEmpty) = true := by simpa using hme
    rw [if_pos hc3]
    right
    refine ⟨{ ent := e, comps := mut' }, rfl, ?_⟩
    rcases hk with h | h
    · rw [List.isEmpty_iff] at hie; rw [hie] at h; cases h
    · exact hkk _ h

/-- a component on the path `nothing`: the entity is known to the client at some tick `t` and is not
fresh, the component was not added in this tick window, and it was not changed after `t` or its
send rate does not fire in this tick -/
theorem compPath_nothing (s : Server) (known : Option Nat) (fresh : Bool) (r : Rate) (comp : Comp)
    (h : compPath s known fresh r comp = Path.nothing) :
    ∃ t, known = some t ∧ fresh = false ∧ ¬ comp.added > s.lastRun ∧
      ¬ (comp.changed > t ∧ r.sendMutations s.tick = true) := by
  unfold compPath at h
  cases known with
  | none => cases h
  | some t =>
    simp only at h
    by_cases hc : (!fresh && !decide (comp.added > s.lastRun)) = true
    · rw [if_pos hc] at h
      simp only [Bool.and_eq_true, Bool.not_eq_true', decide_eq_false_iff_not] at hc
      refine ⟨t, rfl, hc.1, hc.2, ?_⟩
      rintro ⟨h1, h2⟩
      have : (decide (comp.changed > t) && r.sendMutations s.tick) = true := by simp [h1, h2]
      rw [if_pos this] at h
      cases h
    · rw [if_neg hc] at h; cases h

end Replicon.Srv
