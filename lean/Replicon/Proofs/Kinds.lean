import Replicon.Proofs.Session
/-
Which replicated components an entity has, on the wire: the REMOVALS and CHANGES records of a
run, applied to the set of component kinds the receiver has for an entity, give exactly the
replicated kinds the server entity carries.  (The component level of C03, server side.)
-/
set_option maxHeartbeats 400000
set_option linter.unusedSimpArgs false
namespace Replicon.Srv
open Replicon

/-- the replicated component kinds the entity carries -/
def presentKinds (s : Server) (ent : SEnt) : List Nat := (present s ent).map (·.1)

theorem mem_present (s : Server) (ent : SEnt) (k : Nat) (r : Rate) (c : Comp) :
    (k, r, c) ∈ present s ent ↔ (k, r) ∈ s.rates ∧ aget ent.comps k = some c := by
  unfold present
  rw [List.mem_filterMap]
  constructor
  · rintro ⟨⟨k', r'⟩, hm, h⟩
    simp only at h
    cases hg : aget ent.comps k' with
    | none => rw [hg] at h; cases h
    | some c' =>
      rw [hg] at h
      simp only [Option.map_some, Option.some.injEq, Prod.mk.injEq] at h
      obtain ⟨rfl, rfl, rfl⟩ := h
      exact ⟨hm, hg⟩
  · rintro ⟨hm, hg⟩
    exact ⟨(k, r), hm, by simp only [hg]; rfl⟩

theorem mem_presentKinds (s : Server) (ent : SEnt) (k : Nat) :
    k ∈ presentKinds s ent ↔ ∃ r c, (k, r, c) ∈ present s ent := by
  unfold presentKinds
  rw [List.mem_map]
  constructor
  · rintro ⟨⟨k', r, c⟩, hm, rfl⟩; exact ⟨r, c, hm⟩
  · rintro ⟨r, c, hm⟩; exact ⟨(k, r, c), hm, rfl⟩

theorem compPath_known_insertion (s : Server) (t : Nat) (r : Rate) (c : Comp) :
    compPath s (some t) false r c = .insertion ↔ c.added > s.lastRun := by
  unfold compPath
  simp only [Bool.not_false, Bool.true_and]
  by_cases h : c.added > s.lastRun
  · simp [h]
  · simp only [h, decide_false, Bool.not_false, if_true, iff_false]
    split <;> simp

theorem mem_insOf (s : Server) (t : Nat) (ent : SEnt) (k : Nat) :
    k ∈ (insOf s t ent).map (·.1) ↔ ∃ r c, (k, r, c) ∈ present s ent ∧ c.added > s.lastRun := by
  unfold insOf
  rw [List.mem_map]
  constructor
  · rintro ⟨⟨k', v⟩, hm, rfl⟩
    rw [List.mem_filterMap] at hm
    obtain ⟨⟨k'', r, c⟩, hp, h⟩ := hm
    simp only at h
    split at h
    · rename_i hi
      simp only [Option.some.injEq, Prod.mk.injEq] at h
      obtain ⟨rfl, _⟩ := h
      exact ⟨r, c, hp, (compPath_known_insertion s t r c).mp hi⟩
    · cases h
  · rintro ⟨r, c, hp, ha⟩
    refine ⟨(k, c.val), ?_, rfl⟩
    rw [List.mem_filterMap]
    exact ⟨(k, r, c), hp, by simp only [(compPath_known_insertion s t r c).mpr ha, if_true]⟩

theorem mem_mutOf (s : Server) (t : Nat) (ent : SEnt) (k : Nat) (h : k ∈ (mutOf s t ent).map (·.1)) :
    k ∈ presentKinds s ent := by
  unfold mutOf at h
  rw [List.mem_map] at h
  obtain ⟨⟨k', v⟩, hm, rfl⟩ := h
  rw [List.mem_filterMap] at hm
  obtain ⟨⟨k'', r, c⟩, hp, h⟩ := hm
  simp only at h
  split at h
  · simp only [Option.some.injEq, Prod.mk.injEq] at h
    obtain ⟨rfl, _⟩ := h
    exact (mem_presentKinds s ent _).mpr ⟨r, c, hp⟩
  · cases h

/-- the kinds of the entity's CHANGES record, if it has one -/
def recordKinds (o : EntOut) : List Nat :=
  match o.toUpdate with
  | some r => r.comps.map (·.1)
  | none => []

/-- **One run, an entity the client holds.**  `S` are the kinds the receiver has for the entity.
If every kind of `S` the entity no longer carries has a buffered removal, every kind the entity
carries that is not in `S` was inserted after the last run, and a kind with a buffered removal
that the entity carries (again) was inserted after the last run — then removing the REMOVALS
record's kinds from `S` and adding the kinds of the CHANGES record gives exactly the kinds the
entity carries. -/
theorem run_kinds_known (s : Server) (thisRun : Nat) (cl : Cli) (e : Nat) (ent : SEnt) (m t : Nat) (S : List Nat)
    (hvis : visState s cl e = .visible) (hk : aget cl.mutTick e = some t) (hold : ¬ m > s.lastRun)
    (ha : ∀ k ∈ S, k ∉ presentKinds s ent → k ∈ (aget s.removalBuf e).getD [])
    (hb : ∀ k r c, (k, r, c) ∈ present s ent → k ∉ S → c.added > s.lastRun)
    (hf : ∀ k r c, k ∈ (aget s.removalBuf e).getD [] → (k, r, c) ∈ present s ent → c.added > s.lastRun) :
    ∀ k, k ∈ (S.filter fun k => !((aget s.removalBuf e).getD []).contains k) ++
          recordKinds (collectEntity s thisRun cl e ent m) ↔ k ∈ presentKinds s ent := by
  intro k
  have hrec : ∀ j, j ∈ recordKinds (collectEntity s thisRun cl e ent m) → j ∈ presentKinds s ent := by
    intro j hj
    unfold recordKinds at hj
    rw [collect_known s thisRun cl e ent m t hvis hk hold] at hj
    split at hj
    · rename_i h1
      split at h1
      · split at h1
        · cases h1
        · simp only [Option.some.injEq] at h1
          rw [← h1] at hj
          simp only [List.map_append, List.mem_append] at hj
          rcases hj with h | h
          · obtain ⟨r, c, hp, _⟩ := (mem_insOf s t ent j).mp h
            exact (mem_presentKinds s ent j).mpr ⟨r, c, hp⟩
          · exact mem_mutOf s t ent j h
      · split at h1 <;> cases h1
    · cases hj
  have hins : ∀ j, j ∈ (insOf s t ent).map (·.1) → j ∈ recordKinds (collectEntity s thisRun cl e ent m) := by
    intro j hj
    have hne : (insOf s t ent).isEmpty = false := by
      cases h : insOf s t ent with
      | nil => rw [h] at hj; cases hj
      | cons _ _ => rfl
    unfold recordKinds
    rw [collect_known s thisRun cl e ent m t hvis hk hold]
    simp only [hne, Bool.not_false, Bool.true_or, if_true, Bool.false_and, Bool.false_eq_true, if_false]
    simp only [List.map_append, List.mem_append]
    exact Or.inl hj
  rw [List.mem_append, List.mem_filter]
  constructor
  · rintro (⟨h1, h2⟩ | h)
    · by_cases hp : k ∈ presentKinds s ent
      · exact hp
      · have := ha k h1 hp
        simp only [Bool.not_eq_true', List.contains_eq_mem, decide_eq_false_iff_not] at h2
        exact absurd this h2
    · exact hrec k h
  · intro hp
    obtain ⟨r, c, hpr⟩ := (mem_presentKinds s ent k).mp hp
    by_cases hadd : c.added > s.lastRun
    · right
      exact hins k ((mem_insOf s t ent k).mpr ⟨r, c, hpr, hadd⟩)
    · left
      refine ⟨?_, ?_⟩
      · by_cases hS : k ∈ S
        · exact hS
        · exact absurd (hb k r c hpr hS) hadd
      · simp only [Bool.not_eq_true', List.contains_eq_mem, decide_eq_false_iff_not]
        intro hrm
        exact hadd (hf k r c hrm hpr)

/-- **One run, an entity the client does not hold yet**: the CHANGES record names exactly the
kinds the entity carries (`collect_unknown_whole` says it carries their values, too). -/
theorem run_kinds_new (s : Server) (thisRun : Nat) (cl : Cli) (e : Nat) (ent : SEnt) (m : Nat)
    (hvis : visState s cl e ≠ .hidden) (hk : aget cl.mutTick e = none) :
    recordKinds (collectEntity s thisRun cl e ent m) = presentKinds s ent := by
  unfold recordKinds presentKinds
  rw [collect_unknown_whole s thisRun cl e ent m hvis hk]
  simp only [List.map_map]
  rfl

end Replicon.Srv

namespace Replicon.Srv
open Replicon

/-- a removal of kind `k` of entity `e` is on its way to the clients -/
def pendK (s : Server) (e k : Nat) : Prop :=
  (e, k) ∈ s.pendingRem ∨ (e, k) ∈ s.pendingRemOld ∨ k ∈ (aget s.removalBuf e).getD []

/-- facts about Bevy's change ticks in the server model -/
structure KindInv (s : Server) : Prop where
  tlt : s.lastRun < s.now
  stamps : ∀ e ent, (e, ent) ∈ s.world →
    (∀ k c, aget ent.comps k = some c → c.added ≤ s.now) ∧ (∀ m, ent.marker = some m → m ≤ s.now)
  remFresh : ∀ e ent k c, (e, ent) ∈ s.world → pendK s e k → aget ent.comps k = some c → c.added > s.lastRun
  remNodup : (s.removalBuf.map (·.1)).Nodup

/-- a world operation on entity `e0` that replaces its record -/
theorem kindInv_aset (s : Server) (inv : KindInv s) (e0 : Nat) (ent : SEnt)
    (hg : aget s.world e0 = some ent) (s' : Server)
    (h1 : s'.lastRun = s.lastRun) (h2 : s'.now = s.now)
    (h4 : ∀ e k, k ∈ (aget s'.removalBuf e).getD [] → k ∈ (aget s.removalBuf e).getD [])
    (h4n : (s'.removalBuf.map (·.1)).Nodup) (h5 : s'.pendingRemOld = s.pendingRemOld)
    (hE : ∃ ent' : SEnt, s'.world = aset s.world e0 ent' ∧
      (∀ x, x ∈ s'.pendingRem → x ∈ s.pendingRem ∨ (x.1 = e0 ∧ aget ent'.comps x.2 = none)) ∧
      (∀ k c, aget ent'.comps k = some c → (∃ c0, aget ent.comps k = some c0 ∧ c0.added = c.added) ∨ c.added = s.now) ∧
      (∀ m, ent'.marker = some m → ent.marker = some m ∨ m = s.now)) : KindInv s' := by
  obtain ⟨ent', h3, h6, hc, hm⟩ := hE
  have hst := inv.stamps e0 ent (mem_of_aget _ _ _ hg)
  refine ⟨by rw [h1, h2]; exact inv.tlt, ?_, ?_, h4n⟩
  · intro e x hx
    rw [h3] at hx
    rw [h2]
    rcases (mem_aset _ _ _ _).mp hx with h | ⟨h, _⟩
    · simp only [Prod.mk.injEq] at h
      obtain ⟨_, rfl⟩ := h
      refine ⟨?_, ?_⟩
      · intro k c hk
        rcases hc k c hk with ⟨c0, h', he⟩ | h'
        · rw [← he]; exact hst.1 k c0 h'
        · rw [h']; exact Nat.le_refl _
      · intro m hmm
        rcases hm m hmm with h' | h'
        · exact hst.2 m h'
        · rw [h']; exact Nat.le_refl _
    · exact inv.stamps e x h
  · intro e x k c hx hp hk
    rw [h3] at hx
    rw [h1]
    have hp' : pendK s e k ∨ (e = e0 ∧ aget ent'.comps k = none) := by
      unfold pendK at hp ⊢
      rw [h5] at hp
      rcases hp with h | h | h
      · rcases h6 (e, k) h with h' | h'
        · exact Or.inl (Or.inl h')
        · exact Or.inr h'
      · exact Or.inl (Or.inr (Or.inl h))
      · exact Or.inl (Or.inr (Or.inr (h4 e k h)))
    rcases (mem_aset _ _ _ _).mp hx with h | ⟨h, hne⟩
    · simp only [Prod.mk.injEq] at h
      obtain ⟨rfl, rfl⟩ := h
      rcases hp' with hp' | ⟨_, hp'⟩
      · rcases hc k c hk with ⟨c0, h', he⟩ | h'
        · rw [← he]; exact inv.remFresh e ent k c0 (mem_of_aget _ _ _ hg) hp' h'
        · rw [h']; exact inv.tlt
      · rw [hp'] at hk; cases hk
    · rcases hp' with hp' | ⟨he, _⟩
      · exact inv.remFresh e x k c h hp' hk
      · exact absurd he hne

theorem kindInv_refl_fields (s s' : Server) (inv : KindInv s) (h1 : s'.lastRun = s.lastRun) (h2 : s'.now = s.now)
    (h3 : s'.world = s.world) (h4 : s'.removalBuf = s.removalBuf) (h5 : s'.pendingRemOld = s.pendingRemOld)
    (h6 : s'.pendingRem = s.pendingRem) : KindInv s' := by
  refine ⟨by rw [h1, h2]; exact inv.tlt, by rw [h2, h3]; exact inv.stamps, ?_, by rw [h4]; exact inv.remNodup⟩
  intro e x k c hx hp hk
  rw [h3] at hx
  rw [h1]
  apply inv.remFresh e x k c hx _ hk
  unfold pendK at hp ⊢
  rw [h4, h5, h6] at hp
  exact hp

theorem updClient_kind (s : Server) (c : Nat) (f : Cli → Cli) (inv : KindInv s) : KindInv (s.updClient c f) := by
  apply kindInv_refl_fields s _ inv <;> (unfold Server.updClient; cases aget s.clients c <;> rfl)

theorem insert_kind (s : Server) (e k v : Nat) (inv : KindInv s) : KindInv (s.insert e k v) := by
  unfold Server.insert
  cases hg : aget s.world e with
  | none => exact inv
  | some ent =>
    simp only
    refine kindInv_aset s inv e ent hg _ ?_ ?_ ?_ ?_ ?_
      ⟨{ ent with comps := aset ent.comps k (match aget ent.comps k with
          | some old => { old with val := v, changed := s.now }
          | none => { val := v, added := s.now, changed := s.now }) }, ?_, ?_, ?_, ?_⟩
    · rfl
    · rfl
    · exact fun _ _ h => h
    · exact inv.remNodup
    · rfl
    · rfl
    · exact fun x h => Or.inl h
    · intro k' c hk
      have hk' : aget (aset ent.comps k (match aget ent.comps k with
          | some old => { old with val := v, changed := s.now }
          | none => { val := v, added := s.now, changed := s.now })) k' = some c := hk
      rw [Cli.aget_aset] at hk'
      split at hk'
      · rename_i he
        simp only [Option.some.injEq] at hk'
        rw [← hk', he]
        cases hold : aget ent.comps k with
        | none => exact Or.inr rfl
        | some old => exact Or.inl ⟨old, rfl, rfl⟩
      · exact Or.inl ⟨c, hk', rfl⟩
    · intro m hm; exact Or.inl hm

theorem mutate_kind (s : Server) (e k v : Nat) (inv : KindInv s) : KindInv (s.mutate e k v) := by
  unfold Server.mutate
  cases hg : aget s.world e with
  | none => exact inv
  | some ent =>
    simp only
    cases hold : aget ent.comps k with
    | none => exact inv
    | some old =>
      simp only
      refine kindInv_aset s inv e ent hg _ ?_ ?_ ?_ ?_ ?_
        ⟨{ ent with comps := aset ent.comps k { old with val := v, changed := s.now } }, ?_, ?_, ?_, ?_⟩
      · rfl
      · rfl
      · exact fun _ _ h => h
      · exact inv.remNodup
      · rfl
      · rfl
      · exact fun x h => Or.inl h
      · intro k' c hk
        have hk' : aget (aset ent.comps k { old with val := v, changed := s.now }) k' = some c := hk
        rw [Cli.aget_aset] at hk'
        split at hk'
        · rename_i he
          simp only [Option.some.injEq] at hk'
          rw [← hk', he]
          exact Or.inl ⟨old, hold, rfl⟩
        · exact Or.inl ⟨c, hk', rfl⟩
      · intro m hm; exact Or.inl hm

theorem remove_kind (s : Server) (e k : Nat) (inv : KindInv s) : KindInv (s.remove e k) := by
  unfold Server.remove
  cases hg : aget s.world e with
  | none => exact inv
  | some ent =>
    simp only
    split
    · exact inv
    · refine kindInv_aset s inv e ent hg _ ?_ ?_ ?_ ?_ ?_ ⟨{ ent with comps := adel ent.comps k }, ?_, ?_, ?_, ?_⟩
      · rfl
      · rfl
      · exact fun _ _ h => h
      · exact inv.remNodup
      · rfl
      · rfl
      · intro x hx
        have hx' : x ∈ s.pendingRem ++ [(e, k)] := hx
        rcases List.mem_append.mp hx' with h | h
        · exact Or.inl h
        · right
          rw [List.mem_singleton.mp h]
          exact ⟨rfl, by show aget (adel ent.comps k) k = none; exact aget_adel_same _ _⟩
      · intro k' c hk
        have hk' : aget (adel ent.comps k) k' = some c := hk
        rw [Cli.aget_adel] at hk'
        split at hk'
        · cases hk'
        · exact Or.inl ⟨c, hk', rfl⟩
      · intro m hm; exact Or.inl hm

end Replicon.Srv

namespace Replicon.Srv
open Replicon

/-! ### `buffer_removals` -/

/-- a removal event of kind `k` of entity `e` is buffered: the entity is (still) replicated and
the kind is a replicated one -/
def bufCond (s : Server) (e k : Nat) : Prop :=
  ∃ ent, aget s.world e = some ent ∧ ent.marker.isSome = true ∧ s.rates.any (·.1 = k) = true

def bufStep (s : Server) (buf : List (Nat × List Nat)) (x : Nat × Nat) : List (Nat × List Nat) :=
  match aget s.world x.1 with
  | some ent =>
    if ent.marker.isSome && s.rates.any (·.1 = x.2) then
      let old := (aget buf x.1).getD []
      if old.contains x.2 then buf else aset buf x.1 (old ++ [x.2])
    else buf
  | none => buf

theorem bufStep_spec (s : Server) (buf : List (Nat × List Nat)) (x : Nat × Nat) (e k : Nat) :
    k ∈ (aget (bufStep s buf x) e).getD [] ↔
      k ∈ (aget buf e).getD [] ∨ (e = x.1 ∧ k = x.2 ∧ bufCond s x.1 x.2) := by
  unfold bufStep bufCond
  cases hg : aget s.world x.1 with
  | none => simp
  | some ent =>
    simp only
    by_cases hc : (ent.marker.isSome && s.rates.any (·.1 = x.2)) = true
    · simp only [hc, if_true]
      have hc' := hc
      simp only [Bool.and_eq_true] at hc'
      by_cases ho : ((aget buf x.1).getD []).contains x.2 = true
      · simp only [ho, if_true]
        constructor
        · intro h; exact Or.inl h
        · rintro (h | ⟨rfl, rfl, _⟩)
          · exact h
          · simpa using ho
      · simp only [ho, Bool.false_eq_true, if_false]
        rw [Cli.aget_aset]
        by_cases he : e = x.1
        · subst he
          simp only [if_true, Option.getD_some, List.mem_append, List.mem_singleton]
          constructor
          · rintro (h | h)
            · exact Or.inl h
            · exact Or.inr ⟨trivial, h, ent, rfl, hc'.1, hc'.2⟩
          · rintro (h | ⟨_, h, _⟩)
            · exact Or.inl h
            · exact Or.inr h
        · simp only [he, if_false, false_and, or_false]
    · simp only [hc, Bool.false_eq_true, if_false]
      constructor
      · intro h; exact Or.inl h
      · rintro (h | ⟨_, _, ent', h1, h2, h3⟩)
        · exact h
        · simp only [Option.some.injEq] at h1
          subst h1
          simp only [Bool.and_eq_true, not_and] at hc
          exact absurd h3 (hc h2)

theorem bufStep_nodup (s : Server) (buf : List (Nat × List Nat)) (x : Nat × Nat) (h : (buf.map (·.1)).Nodup) :
    ((bufStep s buf x).map (·.1)).Nodup := by
  unfold bufStep
  cases aget s.world x.1 with
  | none => exact h
  | some ent =>
    simp only
    split
    · split
      · exact h
      · exact nodup_aset _ _ _ h
    · exact h

theorem bufFold_spec (s : Server) : ∀ (l : List (Nat × Nat)) (buf : List (Nat × List Nat)) (e k : Nat),
    k ∈ (aget (l.foldl (bufStep s) buf) e).getD [] ↔
      k ∈ (aget buf e).getD [] ∨ ((e, k) ∈ l ∧ bufCond s e k) := by
  intro l
  induction l with
  | nil => intro buf e k; simp
  | cons x xs ih =>
    intro buf e k
    rw [List.foldl_cons, ih, bufStep_spec]
    constructor
    · rintro ((h | ⟨h1, h2, h3⟩) | ⟨h1, h2⟩)
      · exact Or.inl h
      · right
        refine ⟨?_, by rw [h1, h2]; exact h3⟩
        rw [h1, h2]; exact List.mem_cons_self
      · exact Or.inr ⟨List.mem_cons_of_mem _ h1, h2⟩
    · rintro (h | ⟨h1, h2⟩)
      · exact Or.inl (Or.inl h)
      · rcases List.mem_cons.mp h1 with h | h
        · left; right
          rw [← h]
          exact ⟨rfl, rfl, h2⟩
        · exact Or.inr ⟨h, h2⟩

theorem bufFold_nodup (s : Server) : ∀ (l : List (Nat × Nat)) (buf : List (Nat × List Nat)),
    (buf.map (·.1)).Nodup → ((l.foldl (bufStep s) buf).map (·.1)).Nodup := by
  intro l
  induction l with
  | nil => intro buf h; exact h
  | cons x xs ih => intro buf h; rw [List.foldl_cons]; exact ih _ (bufStep_nodup s buf x h)

/-- `buffer_removals` of a running server, field by field -/
theorem bufferRemovals_running (s : Server) (hr : s.running = true) :
    s.bufferRemovals.removalBuf = (s.pendingRemOld ++ s.pendingRem).foldl (bufStep s) s.removalBuf ∧
    s.bufferRemovals.pendingRem = [] ∧ s.bufferRemovals.pendingRemOld = [] ∧
    s.bufferRemovals.world = s.world ∧ s.bufferRemovals.lastRun = s.lastRun ∧ s.bufferRemovals.now = s.now ∧
    s.bufferRemovals.rates = s.rates := by
  unfold Server.bufferRemovals
  simp only [hr, Bool.not_true, Bool.false_eq_true, if_false]
  refine ⟨?_, trivial, trivial, trivial, trivial, trivial, trivial⟩
  rfl

end Replicon.Srv

namespace Replicon.Srv
open Replicon

theorem spawn_kind (s : Server) (e : Nat) (m : Bool) (cs : List (Nat × Nat)) (inv : KindInv s) :
    KindInv (s.spawn e m cs) := by
  unfold Server.spawn
  have hcomp : ∀ k c, aget (cs.map fun (x : Nat × Nat) => (x.1, ({ val := x.2, added := s.now, changed := s.now } : Comp))) k = some c →
      c.added = s.now := by
    intro k c h
    have := mem_of_aget _ _ _ h
    rw [List.mem_map] at this
    obtain ⟨x, _, hx⟩ := this
    simp only [Prod.mk.injEq] at hx
    rw [← hx.2]
  refine ⟨inv.tlt, ?_, ?_, inv.remNodup⟩
  · intro e' x hx
    rcases (mem_aset _ _ _ _).mp hx with h | ⟨h, _⟩
    · simp only [Prod.mk.injEq] at h
      obtain ⟨_, rfl⟩ := h
      refine ⟨?_, ?_⟩
      · intro k c hk
        have := hcomp k c hk
        rw [this]; exact Nat.le_refl _
      · intro mm hm
        simp only at hm
        split at hm
        · simp only [Option.some.injEq] at hm; rw [← hm]; exact Nat.le_refl _
        · cases hm
    · exact inv.stamps e' x h
  · intro e' x k c hx hp hk
    rcases (mem_aset _ _ _ _).mp hx with h | ⟨h, _⟩
    · simp only [Prod.mk.injEq] at h
      obtain ⟨_, rfl⟩ := h
      have := hcomp k c hk
      rw [this]; exact inv.tlt
    · exact inv.remFresh e' x k c h hp hk

theorem leave_kindfields (s : Server) (e : Nat) :
    (s.leaveReplication e).lastRun = s.lastRun ∧ (s.leaveReplication e).now = s.now ∧
    (s.leaveReplication e).world = s.world ∧ (s.leaveReplication e).pendingRem = s.pendingRem ∧
    (s.leaveReplication e).pendingRemOld = s.pendingRemOld ∧
    ((s.leaveReplication e).removalBuf.map (·.1)).Nodup = ((s.leaveReplication e).removalBuf.map (·.1)).Nodup ∧
    (∀ e' k, k ∈ (aget (s.leaveReplication e).removalBuf e').getD [] → k ∈ (aget s.removalBuf e').getD []) := by
  unfold Server.leaveReplication
  split
  · refine ⟨rfl, rfl, rfl, rfl, rfl, rfl, ?_⟩
    intro e' k h
    have h' : k ∈ (aget (adel s.removalBuf e) e').getD [] := h
    rw [Cli.aget_adel] at h'
    split at h'
    · cases h'
    · exact h'
  · exact ⟨rfl, rfl, rfl, rfl, rfl, rfl, fun _ _ h => h⟩

theorem leave_nodup (s : Server) (e : Nat) (h : (s.removalBuf.map (·.1)).Nodup) :
    ((s.leaveReplication e).removalBuf.map (·.1)).Nodup := by
  unfold Server.leaveReplication
  split
  · exact nodup_adel _ _ h
  · exact h

theorem despawn_kind (s : Server) (e : Nat) (inv : KindInv s) : KindInv (s.despawn e) := by
  unfold Server.despawn
  cases hg : aget s.world e with
  | none => exact inv
  | some ent =>
    simp only
    have key : ∀ s1 : Server, s1.lastRun = s.lastRun → s1.now = s.now → s1.world = s.world →
        s1.pendingRem = s.pendingRem → s1.pendingRemOld = s.pendingRemOld →
        (s1.removalBuf.map (·.1)).Nodup →
        (∀ e' k, k ∈ (aget s1.removalBuf e').getD [] → k ∈ (aget s.removalBuf e').getD []) →
        KindInv { s1 with world := adel s1.world e } := by
      intro s1 h1 h2 h3 h4 h5 h6 h7
      refine ⟨by show s1.lastRun < s1.now; rw [h1, h2]; exact inv.tlt, ?_, ?_, h6⟩
      · intro e' x hx
        have hx' : (e', x) ∈ adel s1.world e := hx
        rw [h3] at hx'
        show _ ∧ _
        have := inv.stamps e' x ((mem_adel _ _ _).mp hx').1
        constructor
        · intro k c hk; show c.added ≤ s1.now; rw [h2]; exact this.1 k c hk
        · intro m hm; show m ≤ s1.now; rw [h2]; exact this.2 m hm
      · intro e' x k c hx hp hk
        have hx' : (e', x) ∈ adel s1.world e := hx
        rw [h3] at hx'
        show c.added > s1.lastRun
        rw [h1]
        apply inv.remFresh e' x k c ((mem_adel _ _ _).mp hx').1 _ hk
        unfold pendK at hp ⊢
        rcases hp with h | h | h
        · left; have : (e', k) ∈ s1.pendingRem := h; rw [h4] at this; exact this
        · right; left; have : (e', k) ∈ s1.pendingRemOld := h; rw [h5] at this; exact this
        · right; right; exact h7 e' k h
    split
    · obtain ⟨l1, l2, l3, l4, l5, _, l7⟩ := leave_kindfields s e
      exact key _ l1 l2 l3 l4 l5 (leave_nodup s e inv.remNodup) l7
    · exact key s rfl rfl rfl rfl rfl inv.remNodup (fun _ _ h => h)

theorem mark_kind (s : Server) (e : Nat) (on : Bool) (inv : KindInv s) : KindInv (s.mark e on) := by
  unfold Server.mark
  cases hg : aget s.world e with
  | none => exact inv
  | some ent =>
    simp only
    cases on with
    | true =>
      simp only [if_true]
      split
      · exact inv
      · refine kindInv_aset s inv e ent hg _ ?_ ?_ ?_ ?_ ?_ ⟨{ ent with marker := some s.now }, ?_, ?_, ?_, ?_⟩
        · rfl
        · rfl
        · exact fun _ _ h => h
        · exact inv.remNodup
        · rfl
        · rfl
        · exact fun x h => Or.inl h
        · intro k c hk; exact Or.inl ⟨c, hk, rfl⟩
        · intro m hm
          simp only [Option.some.injEq] at hm
          exact Or.inr hm.symm
    | false =>
      simp only [Bool.false_eq_true, if_false]
      split
      · exact inv
      · obtain ⟨l1, l2, l3, l4, l5, _, l7⟩ := leave_kindfields s e
        refine kindInv_aset s inv e ent hg _ ?_ ?_ ?_ ?_ ?_ ⟨{ ent with marker := none }, ?_, ?_, ?_, ?_⟩
        · exact l1
        · exact l2
        · exact l7
        · exact leave_nodup s e inv.remNodup
        · exact l5
        · show aset (s.leaveReplication e).world e _ = aset s.world e _
          rw [l3]
        · intro x hx
          have : x ∈ (s.leaveReplication e).pendingRem := hx
          rw [l4] at this
          exact Or.inl this
        · intro k c hk; exact Or.inl ⟨c, hk, rfl⟩
        · intro m hm; cases hm

end Replicon.Srv

namespace Replicon.Srv
open Replicon

theorem bufStep_congr (s t : Server) (hw : t.world = s.world) (hr : t.rates = s.rates) : bufStep t = bufStep s := by
  funext buf x
  unfold bufStep
  rw [hw, hr]

theorem preRun_is_buffer (s : Server) (ticked : Bool) (ms : Nat) :
    ∃ t : Server, preRun s ticked ms = t.bufferRemovals ∧ t.running = s.running ∧ t.world = s.world ∧
      t.rates = s.rates ∧ t.removalBuf = s.removalBuf ∧ t.pendingRem = s.pendingRem ∧
      t.pendingRemOld = s.pendingRemOld ∧ t.lastRun = s.lastRun ∧ t.now = s.now := by
  unfold preRun
  simp only
  refine ⟨_, rfl, ?_, ?_, ?_, ?_, ?_, ?_, ?_, ?_⟩ <;>
    (cases ticked <;>
      by_cases hf : (decide (s.timerAcc + s.frameMs ms ≥ s.timeout) && decide (s.timeout > 0)) = true <;>
      simp [hf, Server.cleanupAcks])

theorem preRun_kindfields (s : Server) (ticked : Bool) (ms : Nat) (hr : s.running = true) :
    (preRun s ticked ms).lastRun = s.lastRun ∧ (preRun s ticked ms).now = s.now ∧
    (preRun s ticked ms).world = s.world ∧ (preRun s ticked ms).rates = s.rates ∧
    (preRun s ticked ms).removalBuf = (s.pendingRemOld ++ s.pendingRem).foldl (bufStep s) s.removalBuf ∧
    (preRun s ticked ms).pendingRem = [] ∧ (preRun s ticked ms).pendingRemOld = [] := by
  obtain ⟨t, ht, t1, t2, t3, t4, t5, t6, t7, t8⟩ := preRun_is_buffer s ticked ms
  obtain ⟨b1, b2, b3, b4, b5, b6, b7⟩ := bufferRemovals_running t (by rw [t1]; exact hr)
  rw [ht]
  refine ⟨b5.trans t7, b6.trans t8, b4.trans t2, b7.trans t3, ?_, b2, b3⟩
  rw [b1, t4, t5, t6, bufStep_congr s t t2 t3]

end Replicon.Srv

namespace Replicon.Srv
open Replicon

theorem preRun_kind (s : Server) (ticked : Bool) (ms : Nat) (hr : s.running = true) (inv : KindInv s) :
    KindInv (preRun s ticked ms) := by
  obtain ⟨f1, f2, f3, _, f5, f6, f7⟩ := preRun_kindfields s ticked ms hr
  refine ⟨by rw [f1, f2]; exact inv.tlt, by rw [f2, f3]; exact inv.stamps, ?_, ?_⟩
  · intro e x k c hx hp hk
    rw [f3] at hx
    rw [f1]
    apply inv.remFresh e x k c hx _ hk
    unfold pendK at hp ⊢
    rw [f5, f6, f7] at hp
    rcases hp with h | h | h
    · cases h
    · cases h
    · rcases (bufFold_spec s _ _ e k).mp h with h' | ⟨h', _⟩
      · exact Or.inr (Or.inr h')
      · rcases List.mem_append.mp h' with h'' | h''
        · exact Or.inr (Or.inl h'')
        · exact Or.inl h''
  · rw [f5]; exact bufFold_nodup s _ _ inv.remNodup

theorem fullFrame_stopped_kind (s : Server) (ticked : Bool) (ms : Nat) (parts : Nat → List (List Nat))
    (h : s.running = false) :
    (s.fullFrame ticked ms parts).lastRun = s.lastRun ∧ (s.fullFrame ticked ms parts).now = s.now + 2 ∧
    (s.fullFrame ticked ms parts).world = s.world ∧
    (s.fullFrame ticked ms parts).removalBuf = (if s.lastRunning then [] else s.removalBuf) ∧
    (s.fullFrame ticked ms parts).pendingRem = [] ∧ (s.fullFrame ticked ms parts).pendingRemOld = s.pendingRem := by
  unfold Server.fullFrame Server.frameBegin Server.frameEnd
  simp only [h, Bool.not_false, if_true, Bool.false_eq_true, if_false]
  cases hl : s.lastRunning
  · simp [hl, h]
  · simp [hl, Server.reset, h]

theorem fullFrame_idle_kind (s : Server) (ticked : Bool) (ms : Nat) (parts : Nat → List (List Nat))
    (hr : s.running = true) (hc : (preRun s ticked ms).tickChanged = false) :
    (s.fullFrame ticked ms parts).lastRun = (preRun s ticked ms).lastRun ∧
    (s.fullFrame ticked ms parts).now = (preRun s ticked ms).now + 2 ∧
    (s.fullFrame ticked ms parts).world = (preRun s ticked ms).world ∧
    (s.fullFrame ticked ms parts).removalBuf = (preRun s ticked ms).removalBuf ∧
    (s.fullFrame ticked ms parts).pendingRem = (preRun s ticked ms).pendingRem ∧
    (s.fullFrame ticked ms parts).pendingRemOld = (preRun s ticked ms).pendingRemOld := by
  unfold Server.fullFrame
  rw [frameBegin_running s ticked ms hr]
  simp only [hc, Bool.not_false, if_true]
  unfold Server.frameEnd
  simp

theorem fullFrame_ran_kind (s : Server) (ticked : Bool) (ms : Nat) (parts : Nat → List (List Nat))
    (hr : s.running = true) (hc : (preRun s ticked ms).tickChanged = true) :
    (s.fullFrame ticked ms parts).lastRun = (preRun s ticked ms).now + 1 ∧
    (s.fullFrame ticked ms parts).now = (preRun s ticked ms).now + 2 ∧
    (s.fullFrame ticked ms parts).world = (preRun s ticked ms).world ∧
    (s.fullFrame ticked ms parts).removalBuf = [] ∧
    (s.fullFrame ticked ms parts).pendingRem = (preRun s ticked ms).pendingRem ∧
    (s.fullFrame ticked ms parts).pendingRemOld = (preRun s ticked ms).pendingRemOld := by
  unfold Server.fullFrame
  rw [frameBegin_running s ticked ms hr]
  simp only [hc, Bool.not_true, Bool.false_eq_true, if_false]
  unfold Server.frameEnd Server.runAll
  simp

theorem fullFrame_kind (s : Server) (ticked : Bool) (ms : Nat) (parts : Nat → List (List Nat)) (inv : KindInv s) :
    KindInv (s.fullFrame ticked ms parts) := by
  cases hr : s.running with
  | false =>
    obtain ⟨f1, f2, f3, f4, f5, f6⟩ := fullFrame_stopped_kind s ticked ms parts hr
    refine ⟨by rw [f1, f2]; exact Nat.lt_of_lt_of_le inv.tlt (Nat.le_add_right _ _), ?_, ?_, ?_⟩
    · intro e x hx
      rw [f3] at hx
      rw [f2]
      have := inv.stamps e x hx
      exact ⟨fun k c hk => Nat.le_trans (this.1 k c hk) (Nat.le_add_right _ _),
        fun m hm => Nat.le_trans (this.2 m hm) (Nat.le_add_right _ _)⟩
    · intro e x k c hx hp hk
      rw [f3] at hx
      rw [f1]
      apply inv.remFresh e x k c hx _ hk
      unfold pendK at hp ⊢
      rw [f4, f5, f6] at hp
      rcases hp with h | h | h
      · cases h
      · exact Or.inl h
      · split at h
        · cases h
        · exact Or.inr (Or.inr h)
    · rw [f4]; split
      · exact List.nodup_nil
      · exact inv.remNodup
  | true =>
    have invp := preRun_kind s ticked ms hr inv
    cases hc : (preRun s ticked ms).tickChanged with
    | false =>
      obtain ⟨f1, f2, f3, f4, f5, f6⟩ := fullFrame_idle_kind s ticked ms parts hr hc
      refine ⟨by rw [f1, f2]; exact Nat.lt_of_lt_of_le invp.tlt (Nat.le_add_right _ _), ?_, ?_, by rw [f4]; exact invp.remNodup⟩
      · intro e x hx
        rw [f3] at hx
        rw [f2]
        have := invp.stamps e x hx
        exact ⟨fun k c hk => Nat.le_trans (this.1 k c hk) (Nat.le_add_right _ _),
          fun m hm => Nat.le_trans (this.2 m hm) (Nat.le_add_right _ _)⟩
      · intro e x k c hx hp hk
        rw [f3] at hx
        rw [f1]
        apply invp.remFresh e x k c hx _ hk
        unfold pendK at hp ⊢
        rw [f4, f5, f6] at hp
        exact hp
    | true =>
      obtain ⟨f1, f2, f3, f4, f5, f6⟩ := fullFrame_ran_kind s ticked ms parts hr hc
      obtain ⟨_, _, _, _, _, p6, p7⟩ := preRun_kindfields s ticked ms hr
      refine ⟨by rw [f1, f2]; exact Nat.lt_succ_self _, ?_, ?_, by rw [f4]; exact List.nodup_nil⟩
      · intro e x hx
        rw [f3] at hx
        rw [f2]
        have := invp.stamps e x hx
        exact ⟨fun k c hk => Nat.le_trans (this.1 k c hk) (Nat.le_add_right _ _),
          fun m hm => Nat.le_trans (this.2 m hm) (Nat.le_add_right _ _)⟩
      · intro e x k c _ hp _
        unfold pendK at hp
        rw [f4, f5, f6, p6, p7] at hp
        rcases hp with h | h | h
        · cases h
        · cases h
        · cases h

theorem kind_empty (s : Server) (hw : s.world = []) (hb : s.removalBuf = []) (ht : s.lastRun < s.now) : KindInv s := by
  refine ⟨ht, ?_, ?_, by rw [hb]; exact List.nodup_nil⟩
  · intro e x hx; rw [hw] at hx; cases hx
  · intro e x k c hx; rw [hw] at hx; cases hx

end Replicon.Srv

namespace Replicon.Joint
open Replicon Replicon.Srv

theorem kind_step (st : St) (op : Op) (inv : KindInv st.srv) : KindInv (step st op).1.srv := by
  cases op with
  | spawn e m cs => exact spawn_kind st.srv e m cs inv
  | despawn e => exact despawn_kind st.srv e inv
  | insert e k v => exact insert_kind st.srv e k v inv
  | mutate e k v => exact mutate_kind st.srv e k v inv
  | remove e k => exact remove_kind st.srv e k inv
  | mark e on => exact mark_kind st.srv e on inv
  | vis c e b => exact updClient_kind st.srv c _ inv
  | map c e p => exact updClient_kind st.srv c _ inv
  | connect c a => exact kindInv_refl_fields st.srv _ inv rfl rfl rfl rfl rfl rfl
  | authorize c => exact updClient_kind st.srv c _ inv
  | disconnect c => exact kindInv_refl_fields st.srv _ inv rfl rfl rfl rfl rfl rfl
  | stop => exact kindInv_refl_fields st.srv _ inv rfl rfl rfl rfl rfl rfl
  | start => exact kindInv_refl_fields st.srv _ inv rfl rfl rfl rfl rfl rfl
  | ack c idxs => exact updClient_kind st.srv c _ inv
  | emit em => exact inv
  | frame t ms parts => exact fullFrame_kind st.srv t ms parts inv

end Replicon.Joint
