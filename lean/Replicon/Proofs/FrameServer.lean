import Replicon.Proofs.MutFold

/-!
# Server-side facts for the value argument of one run
-/

namespace Replicon.Srv
open Replicon Replicon.Cli

theorem aget_adel_sub {α : Type} (l : List (Nat × α)) (k j : Nat) (t : α) (h : aget (adel l k) j = some t) :
    aget l j = some t := by
  rw [aget_adel] at h
  by_cases hj : j = k
  · rw [if_pos hj] at h; cases h
  · rw [if_neg hj] at h; exact h

theorem aget_foldl_adel_sub {α : Type} : ∀ (L : List Nat) (l : List (Nat × α)) (j : Nat) (t : α),
    aget (L.foldl adel l) j = some t → aget l j = some t := by
  intro L
  induction L with
  | nil => intro l j t h; exact h
  | cons x xs ih => intro l j t h; rw [List.foldl_cons] at h; exact aget_adel_sub l x j t (ih _ j t h)

theorem despawnStep_mutTick_sub (s : Server) (acc : Cli × List Nat) (x j t : Nat)
    (h : aget (despawnStep s acc x).1.mutTick j = some t) : aget acc.1.mutTick j = some t := by
  unfold despawnStep at h
  simp only at h
  have hm : (setCell acc.1 x (Vis.removeDespawned s.white (cell acc.1 x))).mutTick = acc.1.mutTick := by
    unfold setCell; rfl
  rw [hm] at h
  exact aget_adel_sub _ x j t h

theorem despawnFold_mutTick_sub (s : Server) : ∀ (l : List Nat) (acc : Cli × List Nat) (j t : Nat),
    aget (l.foldl (despawnStep s) acc).1.mutTick j = some t → aget acc.1.mutTick j = some t := by
  intro l
  induction l with
  | nil => intro acc j t h; exact h
  | cons x xs ih =>
    intro acc j t h
    rw [List.foldl_cons] at h
    exact despawnStep_mutTick_sub s acc x j t (ih _ j t h)

/-- the server's belief about an entity it keeps tracking is the belief it had before the run -/
theorem runCl1_mutTick_sub (s : Server) (cl : Cli) (j t : Nat) (h : aget (runCl1 s cl).mutTick j = some t) :
    aget cl.mutTick j = some t := by
  unfold runCl1 despawnPhase at h
  simp only at h
  have h1 := aget_foldl_adel_sub _ _ j t h
  exact despawnFold_mutTick_sub s s.despawnBuf ({ cl with mappings := [] }, []) j t h1

/-- an entity with a mutate record has no CHANGES record, no pending removal, and is known -/
theorem collect_toMutate_facts (s : Server) (thisRun : Nat) (cl : Cli) (e : Nat) (ent : SEnt) (m : Nat) (r : MsgEnt)
    (h : (collectEntity s thisRun cl e ent m).toMutate = some r) :
    (collectEntity s thisRun cl e ent m).toUpdate = none ∧ (aget s.removalBuf e).isSome = false := by
  unfold collectEntity at h ⊢
  simp only at h ⊢
  split at h
  · cases h
  · rename_i hv
    simp only [if_neg hv]
    split at h
    · split at h <;> cases h
    · rename_i hc
      simp only [if_neg hc]
      refine ⟨?_, ?_⟩
      · split <;> rfl
      · cases hr : (aget s.removalBuf e).isSome with
        | false => rfl
        | true => exfalso; apply hc; simp [hr]

/-- an entity with a CHANGES record has no mutate record -/
theorem collect_toUpdate_excl (s : Server) (thisRun : Nat) (cl : Cli) (e : Nat) (ent : SEnt) (m : Nat) (r : MsgEnt)
    (h : (collectEntity s thisRun cl e ent m).toUpdate = some r) :
    (collectEntity s thisRun cl e ent m).toMutate = none := by
  cases hm : (collectEntity s thisRun cl e ent m).toMutate with
  | none => rfl
  | some r' =>
    have := (collect_toMutate_facts s thisRun cl e ent m r' hm).1
    rw [this] at h; cases h

/-- a removal record of the run names no kind that a present component, not added in this tick window, has -/
theorem removal_not_present (p : Server) (kinv : KindInv p) (e : Nat) (ent : SEnt) (hw : (e, ent) ∈ p.world)
    (ks : List Nat) (hr : (e, ks) ∈ p.removalBuf) (k : Nat) (rt : Rate) (comp : Comp)
    (hp : (k, rt, comp) ∈ present p ent) (hold : ¬ comp.added > p.lastRun) : k ∉ ks := by
  intro hk
  have hg : aget p.removalBuf e = some ks := aget_of_mem_nodup p.removalBuf e ks kinv.remNodup hr
  have hpend : pendK p e k := Or.inr (Or.inr (by rw [hg]; exact hk))
  exact hold (kinv.remFresh e ent k comp hw hpend ((mem_present p ent k rt comp).mp hp).2)

end Replicon.Srv
