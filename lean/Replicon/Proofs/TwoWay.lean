import Replicon.Proofs.ClientKinds
/-
The client's entity map is a consistent two-way map: `client_to_server` is the inverse of
`server_to_client`, through every update message.
-/
set_option maxHeartbeats 400000
set_option linter.unusedSimpArgs false
namespace Replicon.Cli
open Replicon Replicon.Srv

/-- `client_to_server` is exactly the inverse of `server_to_client` -/
def TwoWay (c : Client) : Prop := ∀ se ce, aget c.c2s ce = some se ↔ aget c.s2c se = some ce

/-- a step that leaves both maps alone -/
theorem twoWay_same (c c' : Client) (h : TwoWay c) (h1 : c'.s2c = c.s2c) (h2 : c'.c2s = c.c2s) : TwoWay c' := by
  intro se ce; rw [h1, h2]; exact h se ce

theorem mapFresh_maps (c : Client) (se : Nat) (ent : CEnt) (hu : aget c.s2c se = none) :
    (mapFresh c se ent).s2c = aset c.s2c se c.next ∧ (mapFresh c se ent).c2s = aset c.c2s c.next se := by
  unfold mapFresh mapInsert spawnFresh
  simp only [hu]
  exact ⟨trivial, trivial⟩

theorem mapFresh_twoWay (c : Client) (se : Nat) (ent : CEnt) (wf : WF c) (tw : TwoWay c) (hu : aget c.s2c se = none) :
    TwoWay (mapFresh c se ent) := by
  obtain ⟨m1, m2⟩ := mapFresh_maps c se ent hu
  have hnot : ∀ se' x, aget c.s2c se' = some x → x ≠ c.next := by
    intro se' x hx he
    have := wf.bound x (wf.alive se' x hx)
    rw [he] at this
    exact Nat.lt_irrefl _ this
  intro a b
  rw [m1, m2, aget_aset, aget_aset]
  by_cases hb : b = c.next
  · simp only [hb, if_true]
    by_cases ha : a = se
    · simp [ha]
    · simp only [ha, if_false]
      constructor
      · intro h
        simp only [Option.some.injEq] at h
        exact absurd h.symm ha
      · intro h; exact absurd rfl (hnot a c.next h)
  · simp only [hb, if_false]
    by_cases ha : a = se
    · simp only [ha, if_true]
      constructor
      · intro h
        have := (tw se b).mp h
        rw [hu] at this; cases this
      · intro h
        simp only [Option.some.injEq] at h
        exact absurd h.symm hb
    · simp only [ha, if_false]
      exact tw a b

theorem getMapped_twoWay (c : Client) (se : Nat) (wf : WF c) (tw : TwoWay c) : TwoWay (getMapped c se).1 := by
  unfold getMapped
  cases hg : aget c.s2c se with
  | some ce => exact tw
  | none => exact mapFresh_twoWay c se {} wf tw hg

theorem wstep_twoWay (c : Client) (ce k v : Nat) (wf : WF c) (tw : TwoWay c) : TwoWay (wstep c ce k v) := by
  unfold wstep
  have h1 : TwoWay (if c.entityComps.contains k then getMapped c v else (c, v)).1 := by
    split
    · exact getMapped_twoWay c v wf tw
    · exact tw
  generalize (if c.entityComps.contains k then getMapped c v else (c, v)) = p at h1 ⊢
  cases aget p.1.world ce with
  | none => exact h1
  | some ent => exact twoWay_same p.1 _ h1 rfl rfl

theorem writeComps_twoWay (ce : Nat) (comps : List (Nat × Nat)) : ∀ (c : Client), WF c → (aget c.world ce).isSome = true →
    TwoWay c → TwoWay (writeComps c ce comps) := by
  induction comps with
  | nil => intro c _ _ tw; exact tw
  | cons kv rest ih =>
    intro c wf hal tw
    obtain ⟨k0, v0⟩ := kv
    rw [writeComps_cons]
    obtain ⟨w1, a1, _, _⟩ := wstep_spec c ce k0 v0 wf hal
    exact ih _ w1 a1 (wstep_twoWay c ce k0 v0 wf tw)

theorem confirm_twoWay (c : Client) (ce t : Nat) (tw : TwoWay c) : TwoWay (confirm c ce t) := by
  unfold confirm
  cases aget c.world ce with
  | none => exact tw
  | some ent => exact twoWay_same c _ tw rfl rfl

theorem targetEntity_twoWay (c : Client) (se : Nat) (b : Bool) (wf : WF c) (tw : TwoWay c) (c' : Client) (ce : Nat)
    (h : targetEntity c se b = .ok (c', ce)) : TwoWay c' := by
  unfold targetEntity at h
  cases hg : aget c.s2c se with
  | none =>
    rw [hg] at h
    simp only [Res.ok.injEq, Prod.mk.injEq] at h
    rw [← h.1]
    exact mapFresh_twoWay c se { marked := true } wf tw hg
  | some x =>
    rw [hg] at h
    simp only at h
    cases hw : aget c.world x with
    | none => rw [hw] at h; cases h
    | some ent =>
      rw [hw] at h
      simp only at h
      split at h
      · simp only [Res.ok.injEq, Prod.mk.injEq] at h
        rw [← h.1]
        exact twoWay_same c _ tw rfl rfl
      · simp only [Res.ok.injEq, Prod.mk.injEq] at h
        rw [← h.1]; exact tw

theorem applyChange_twoWay (tick : Nat) (c : Client) (m : MsgEnt) (wf : WF c) (tw : TwoWay c) (c' : Client)
    (h : applyChange tick c m = some c') : TwoWay c' := by
  obtain ⟨c1, ce, h1, w1, _, hal, _⟩ := targetEntity_kinds c m.ent true wf
  have t1 := targetEntity_twoWay c m.ent true wf tw c1 ce h1
  have k2 := confirm_keepsK c1 ce tick w1
  have hal2 : (aget (confirm c1 ce tick).world ce).isSome = true := by
    cases hg : aget c1.world ce with
    | none => rw [hg] at hal; cases hal
    | some ent =>
      obtain ⟨e', h', _⟩ := k2.1.2.2.1 ce ent hg
      rw [h']; rfl
  unfold applyChange at h
  rw [h1] at h
  simp only [Option.some.injEq] at h
  rw [← h]
  exact writeComps_twoWay ce m.comps _ k2.1.1 hal2 (confirm_twoWay c1 ce tick t1)

theorem applyRemoval_twoWay (tick : Nat) (c : Client) (r : Nat × List Nat) (wf : WF c) (tw : TwoWay c) (c' : Client)
    (h : applyRemoval tick c r = some c') : TwoWay c' := by
  obtain ⟨c1, ce, h1, _, _, _, _⟩ := targetEntity_kinds c r.1 false wf
  have t1 := targetEntity_twoWay c r.1 false wf tw c1 ce h1
  have t2 := confirm_twoWay c1 ce tick t1
  unfold applyRemoval at h
  rw [h1] at h
  simp only at h
  cases hg : aget (confirm c1 ce tick).world ce with
  | none => rw [hg] at h; simp only [Option.some.injEq] at h; rw [← h]; exact t2
  | some ent =>
    rw [hg] at h
    simp only [Option.some.injEq] at h
    rw [← h]
    exact twoWay_same _ _ t2 rfl rfl

theorem applyDespawn_twoWay (c : Client) (se0 : Nat) (wf : WF c) (tw : TwoWay c) : TwoWay (applyDespawn c se0) := by
  unfold applyDespawn mapRemove
  cases hg : aget c.s2c se0 with
  | none => exact tw
  | some ce0 =>
    simp only
    intro se ce
    show aget (adel c.c2s ce0) ce = some se ↔ aget (adel c.s2c se0) se = some ce
    rw [aget_adel, aget_adel]
    by_cases h1 : ce = ce0
    · simp only [h1, if_true]
      constructor
      · intro h; cases h
      · intro h
        split at h
        · cases h
        · rename_i hne
          exact absurd (wf.inj se se0 ce0 h hg) hne
    · simp only [h1, if_false]
      by_cases h2 : se = se0
      · simp only [h2, if_true]
        constructor
        · intro h
          have := (tw se0 ce).mp h
          rw [hg] at this
          simp only [Option.some.injEq] at this
          exact absurd this.symm h1
        · intro h; cases h
      · simp only [h2, if_false]
        exact tw se ce

end Replicon.Cli

namespace Replicon.Cli
open Replicon Replicon.Srv

theorem despawns_twoWay : ∀ (l : List Nat) (c : Client), WF c → TwoWay c → TwoWay (l.foldl applyDespawn c) := by
  intro l
  induction l with
  | nil => intro c _ tw; exact tw
  | cons x xs ih =>
    intro c wf tw
    rw [List.foldl_cons]
    exact ih _ (applyDespawn_spec c x wf).1 (applyDespawn_twoWay c x wf tw)

theorem removals_twoWay (tick : Nat) : ∀ (l : List (Nat × List Nat)) (c : Client), WF c → TwoWay c →
    TwoWay (foldOpt (applyRemoval tick) (c, false) l).1 := by
  intro l
  induction l with
  | nil => intro c _ tw; exact tw
  | cons x xs ih =>
    intro c wf tw
    obtain ⟨c1, e1, w1, _⟩ := applyRemoval_kinds tick c x wf
    have hstep : foldOpt (applyRemoval tick) (c, false) (x :: xs) = foldOpt (applyRemoval tick) (c1, false) xs := by
      unfold foldOpt
      rw [List.foldl_cons]
      simp only [Bool.false_eq_true, if_false, e1]
    rw [hstep]
    exact ih c1 w1 (applyRemoval_twoWay tick c x wf tw c1 e1)

theorem changes_twoWay (tick : Nat) : ∀ (l : List MsgEnt) (c : Client), WF c → TwoWay c →
    TwoWay (foldOpt (applyChange tick) (c, false) l).1 := by
  intro l
  induction l with
  | nil => intro c _ tw; exact tw
  | cons x xs ih =>
    intro c wf tw
    obtain ⟨c1, e1, w1, _⟩ := applyChange_kinds tick c x wf
    have hstep : foldOpt (applyChange tick) (c, false) (x :: xs) = foldOpt (applyChange tick) (c1, false) xs := by
      unfold foldOpt
      rw [List.foldl_cons]
      simp only [Bool.false_eq_true, if_false, e1]
    rw [hstep]
    exact ih c1 w1 (applyChange_twoWay tick c x wf tw c1 e1)

/-- `apply_update_message` keeps the entity map a consistent two-way map -/
theorem applyUpdate_twoWay (c : Client) (u : Update) (wf : WF c) (tw : TwoWay c) (hm : u.mappings = []) :
    TwoWay (applyUpdate c u) := by
  unfold applyUpdate
  simp only [hm, List.foldl_nil]
  have wf0 : WF { c with updateTick := u.tick } := ⟨wf.alive, wf.inj, wf.bound⟩
  have tw0 : TwoWay { c with updateTick := u.tick } := tw
  obtain ⟨w1, _⟩ := despawns_spec u.despawns _ wf0
  have t1 := despawns_twoWay u.despawns _ wf0 tw0
  obtain ⟨f2, w2, _, _⟩ := removals_spec u.tick u.removals _ w1
  have t2 := removals_twoWay u.tick u.removals _ w1 t1
  generalize hc2 : foldOpt (applyRemoval u.tick) (u.despawns.foldl applyDespawn { c with updateTick := u.tick }, false) u.removals = st2 at f2 w2 t2
  have hst2 : st2 = (st2.1, false) := by rw [← f2]
  rw [hst2]
  exact changes_twoWay u.tick u.changes st2.1 w2 t2

theorem replay_twoWay : ∀ (l : List Update) (c : Client), WF c → TwoWay c → Joint.logOkFrom c l →
    TwoWay (l.foldl applyUpdate c) := by
  intro l
  induction l with
  | nil => intro c _ tw _; exact tw
  | cons u us ih =>
    intro c wf tw hok
    obtain ⟨ok1, okrest⟩ := hok
    rw [List.foldl_cons]
    exact ih _ (applyUpdate_held c u wf ok1.1 ok1.2).1 (applyUpdate_twoWay c u wf tw ok1.1) okrest

theorem twoWay_fresh : TwoWay ({} : Client) := by
  intro se ce
  constructor <;> (intro h; cases h)

end Replicon.Cli

namespace Replicon.Joint
open Replicon Replicon.Srv Replicon.Cli

/-- over all histories the replayed client's entity map is a consistent two-way map -/
theorem session_twoWay (s0 : Server) (hw : s0.world = []) (hc0 : s0.clients = []) (hb : s0.removalBuf = [])
    (ops : List Op) (hl : Legal2 { srv := s0 } ops) :
    ∀ x ∈ (run { srv := s0 } ops).1.srv.clients,
      TwoWay (replay ((runLog { srv := s0 } (fun _ => []) ops).2 x.1)) := by
  have inv0 : SessInv ({ srv := s0 } : St) (fun _ => []) := by
    refine ⟨sync_empty s0 hw hc0, ⟨fun _ => hb, fun _ r hrm => ?_⟩, ?_⟩
    · have : r ∈ s0.removalBuf := hrm
      rw [hb] at this; cases this
    · intro y hy
      have : y ∈ s0.clients := hy
      rw [hc0] at this; cases this
  have inv := sess_run ops _ _ inv0 hl
  intro x hx
  rw [← runLog_fst ops _ (fun _ => [])] at hx
  obtain ⟨_, _, _, _, hok⟩ := inv.cli x hx
  exact replay_twoWay _ {} wf_fresh twoWay_fresh hok

end Replicon.Joint
