import Replicon.Model.Scene

namespace Replicon.Scene

/-- State invariant of the export loop after the candidate prefix `p`. -/
def ExpInv (refl : Nat → Bool) (e : WEntity) (st : List Nat × List (Nat × Nat)) (p : List Nat) : Prop :=
  (∀ k, k ∈ st.1 ↔ k ∈ p) ∧ (st.2.map (·.1)).Nodup ∧
  (∀ k v, (k, v) ∈ st.2 ↔ k ∈ p ∧ refl k = true ∧ e.comps.lookup k = some v)

theorem exportStep_inv (refl : Nat → Bool) (e : WEntity) (st : List Nat × List (Nat × Nat)) (p : List Nat)
    (k : Nat) (inv : ExpInv refl e st p) : ExpInv refl e (exportStep refl e st k) (p ++ [k]) := by
  obtain ⟨h1, h2, h3⟩ := inv
  unfold exportStep
  by_cases hk : st.1.contains k = true
  · rw [if_pos hk]
    have hkp : k ∈ p := (h1 k).mp (List.contains_iff_mem.mp hk)
    refine ⟨?_, h2, ?_⟩
    · intro j; rw [h1 j]; simp only [List.mem_append, List.mem_singleton]
      constructor
      · intro h; exact Or.inl h
      · rintro (h | h)
        · exact h
        · subst h; exact hkp
    · intro j v; rw [h3 j v]; simp only [List.mem_append, List.mem_singleton]
      constructor
      · rintro ⟨a, b, c⟩; exact ⟨Or.inl a, b, c⟩
      · rintro ⟨a | a, b, c⟩
        · exact ⟨a, b, c⟩
        · subst a; exact ⟨hkp, b, c⟩
  · rw [if_neg hk]
    have hkp : k ∉ p := fun h => hk (List.contains_iff_mem.mpr ((h1 k).mpr h))
    have hkacc : ∀ v, (k, v) ∉ st.2 := fun v h => hkp ((h3 k v).mp h).1
    refine ⟨?_, ?_, ?_⟩
    · intro j; simp only [List.mem_cons, List.mem_append, List.not_mem_nil, or_false]; rw [h1 j]
      constructor
      · rintro (h | h); exact Or.inr h; exact Or.inl h
      · rintro (h | h); exact Or.inr h; exact Or.inl h
    · by_cases hr : refl k = true
      · simp only [hr, if_true]
        cases hl : e.comps.lookup k with
        | none => exact h2
        | some v =>
          simp only [List.map_append, List.map_cons, List.map_nil]
          rw [List.nodup_append]
          refine ⟨h2, by simp, ?_⟩
          intro a ha b hb
          simp only [List.mem_singleton] at hb
          subst hb
          intro hab; subst hab
          obtain ⟨⟨k', v'⟩, hm, rfl⟩ := List.mem_map.mp ha
          exact hkacc v' hm
      · simp only [hr, Bool.false_eq_true, if_false]; exact h2
    · intro j v
      simp only [List.mem_append, List.mem_singleton]
      by_cases hr : refl k = true
      · simp only [hr, if_true]
        cases hl : e.comps.lookup k with
        | none =>
          simp only
          rw [h3 j v]
          constructor
          · rintro ⟨a, b, c⟩; exact ⟨Or.inl a, b, c⟩
          · rintro ⟨a | a, b, c⟩
            · exact ⟨a, b, c⟩
            · subst a; rw [hl] at c; cases c
        | some w =>
          simp only [List.mem_append, List.mem_singleton, Prod.mk.injEq]
          rw [h3 j v]
          constructor
          · rintro (⟨a, b, c⟩ | ⟨a, b⟩)
            · exact ⟨Or.inl a, b, c⟩
            · subst a b; exact ⟨Or.inr rfl, hr, hl⟩
          · rintro ⟨a | a, b, c⟩
            · exact Or.inl ⟨a, b, c⟩
            · subst a; rw [hl] at c; cases c; exact Or.inr ⟨rfl, rfl⟩
      · simp only [hr, Bool.false_eq_true, if_false]
        rw [h3 j v]
        constructor
        · rintro ⟨a, b, c⟩; exact ⟨Or.inl a, b, c⟩
        · rintro ⟨a | a, b, c⟩
          · exact ⟨a, b, c⟩
          · subst a; exact absurd b hr

theorem exportFold_inv (refl : Nat → Bool) (e : WEntity) :
    ∀ (l : List Nat) (st : List Nat × List (Nat × Nat)) (p : List Nat),
      ExpInv refl e st p → ExpInv refl e (l.foldl (exportStep refl e) st) (p ++ l) := by
  intro l
  induction l with
  | nil => intro st p inv; simpa using inv
  | cons k l ih =>
    intro st p inv
    have := ih (exportStep refl e st k) (p ++ [k]) (exportStep_inv refl e st p k inv)
    simpa using this

theorem exported_inv (refl : Nat → Bool) (rules : List Rule) (e : WEntity) :
    ExpInv refl e ((candidates rules e).foldl (exportStep refl e) ([], [])) (candidates rules e) := by
  have h0 : ExpInv refl e ([], []) [] := ⟨fun k => Iff.rfl, List.nodup_nil, fun k v => by simp⟩
  simpa using exportFold_inv refl e (candidates rules e) ([], []) [] h0

/-- A component id is *selected* for an entity when some rule that matches the entity lists it. -/
def Selected (rules : List Rule) (e : WEntity) (k : Nat) : Prop :=
  ∃ r ∈ rules, ruleMatches r e = true ∧ k ∈ r.comps

theorem mem_candidates (rules : List Rule) (e : WEntity) (k : Nat) :
    k ∈ candidates rules e ↔ Selected rules e k := by
  unfold candidates Selected
  simp only [List.mem_flatMap, List.mem_filter]
  constructor
  · rintro ⟨r, ⟨hr, hm⟩, hk⟩; exact ⟨r, hr, hm, hk⟩
  · rintro ⟨r, hr, hm, hk⟩; exact ⟨r, ⟨hr, hm⟩, hk⟩

/-! ### the scene map -/

theorem lookup_upsert (s : SceneMap) (id j : Nat) (x : List (Nat × Nat)) :
    (upsert s id x).lookup j =
      if j = id then some ((s.lookup id).getD [] ++ x) else s.lookup j := by
  induction s with
  | nil =>
    unfold upsert
    by_cases h : j = id
    · subst h; simp [List.lookup]
    · have : (j == id) = false := by simpa using h
      simp [List.lookup, h, this]
  | cons hd tl ih =>
    obtain ⟨i, cs⟩ := hd
    unfold upsert
    by_cases hi : i = id
    · subst hi
      rw [if_pos rfl]
      by_cases h : j = i
      · subst h; simp [List.lookup]
      · have : (j == i) = false := by simpa using h
        simp [List.lookup, h, this]
    · rw [if_neg hi]
      by_cases h : j = id
      · subst h
        have hne : (j == i) = false := by simpa using (fun h' => hi (h'.symm))
        simp only [List.lookup, hne]
        rw [ih]; simp
      · rw [if_neg h]
        by_cases hji : j = i
        · subst hji; simp [List.lookup]
        · have hne : (j == i) = false := by simpa using hji
          simp only [List.lookup, hne]
          rw [ih, if_neg h]

theorem keys_upsert (s : SceneMap) (id : Nat) (x : List (Nat × Nat)) :
    (upsert s id x).map (·.1) = if id ∈ s.map (·.1) then s.map (·.1) else s.map (·.1) ++ [id] := by
  induction s with
  | nil => simp [upsert]
  | cons hd tl ih =>
    obtain ⟨i, cs⟩ := hd
    unfold upsert
    by_cases hi : i = id
    · subst hi; simp
    · rw [if_neg hi]
      simp only [List.map_cons, List.mem_cons]
      rw [ih]
      by_cases hm : id ∈ tl.map (·.1)
      · have : id = i ∨ id ∈ List.map (fun x => x.fst) tl := Or.inr hm
        rw [if_pos hm, if_pos this]
      · have : ¬ (id = i ∨ id ∈ List.map (fun x => x.fst) tl) := by
          rintro (h | h)
          · exact hi h.symm
          · exact hm h
        rw [if_neg hm, if_neg this]; simp

theorem replicateInto_cons (refl : Nat → Bool) (rules : List Rule) (s : SceneMap) (e : WEntity) (w : List WEntity) :
    replicateInto refl rules s (e :: w) =
      replicateInto refl rules (if e.marked then upsert s e.id (exported refl rules e) else s) w := by
  unfold replicateInto
  rw [List.foldl_cons]

theorem lookup_replicateInto (refl : Nat → Bool) (rules : List Rule) :
    ∀ (world : List WEntity) (s : SceneMap) (j : Nat), (world.map (·.id)).Nodup →
      (replicateInto refl rules s world).lookup j =
        match world.find? (fun e => e.marked && e.id == j) with
        | some e => some ((s.lookup j).getD [] ++ exported refl rules e)
        | none => s.lookup j := by
  intro world
  induction world with
  | nil => intro s j _; rfl
  | cons e w ih =>
    intro s j hnd
    rw [replicateInto_cons]
    simp only [List.map_cons, List.nodup_cons] at hnd
    obtain ⟨hnot, hndw⟩ := hnd
    rw [ih _ j hndw]
    by_cases hm : (e.marked && e.id == j) = true
    · rw [List.find?_cons_of_pos (by simpa using hm)]
      simp only [Bool.and_eq_true, beq_iff_eq] at hm
      obtain ⟨hmk, hid⟩ := hm
      have hnone : w.find? (fun e => e.marked && e.id == j) = none := by
        rw [List.find?_eq_none]
        intro e' he' hc
        simp only [Bool.and_eq_true, beq_iff_eq] at hc
        apply hnot
        rw [hid, ← hc.2]
        exact List.mem_map.mpr ⟨e', he', rfl⟩
      rw [hnone, hmk]
      simp only [if_true]
      rw [lookup_upsert, if_pos hid.symm, hid]
    · rw [List.find?_cons_of_neg (by simpa using hm)]
      have hs : (if e.marked = true then upsert s e.id (exported refl rules e) else s).lookup j = s.lookup j := by
        by_cases hmk : e.marked = true
        · rw [if_pos hmk, lookup_upsert, if_neg]
          intro hj
          apply hm
          simp [hmk, hj]
        · rw [if_neg hmk]
      rw [hs]

theorem keys_replicateInto (refl : Nat → Bool) (rules : List Rule) :
    ∀ (world : List WEntity) (s : SceneMap),
      ((s.map (·.1)).Nodup → ((replicateInto refl rules s world).map (·.1)).Nodup) ∧
      ∀ j, j ∈ (replicateInto refl rules s world).map (·.1) ↔
        j ∈ s.map (·.1) ∨ ∃ e ∈ world, e.marked = true ∧ e.id = j := by
  intro world
  induction world with
  | nil => intro s; exact ⟨fun h => h, fun j => by simp [replicateInto]⟩
  | cons e w ih =>
    intro s
    rw [replicateInto_cons]
    obtain ⟨ihn, ihm⟩ := ih (if e.marked then upsert s e.id (exported refl rules e) else s)
    by_cases hmk : e.marked = true
    · simp only [hmk, if_true] at ihn ihm ⊢
      constructor
      · intro hs
        apply ihn
        rw [keys_upsert]
        by_cases hin : e.id ∈ s.map (·.1)
        · rw [if_pos hin]; exact hs
        · rw [if_neg hin, List.nodup_append]
          refine ⟨hs, by simp, ?_⟩
          intro a ha b hb
          simp only [List.mem_singleton] at hb
          subst hb
          intro hab; subst hab; exact hin ha
      · intro j
        rw [ihm j, keys_upsert]
        by_cases hin : e.id ∈ s.map (·.1)
        · rw [if_pos hin]
          constructor
          · rintro (h | ⟨e', he', h1, h2⟩)
            · exact Or.inl h
            · exact Or.inr ⟨e', List.mem_cons_of_mem _ he', h1, h2⟩
          · rintro (h | ⟨e', he', h1, h2⟩)
            · exact Or.inl h
            · rcases List.mem_cons.mp he' with he' | he'
              · subst he'; left; rw [← h2]; exact hin
              · exact Or.inr ⟨e', he', h1, h2⟩
        · rw [if_neg hin]
          simp only [List.mem_append, List.mem_singleton]
          constructor
          · rintro ((h | h) | ⟨e', he', h1, h2⟩)
            · exact Or.inl h
            · exact Or.inr ⟨e, List.mem_cons_self, hmk, h.symm⟩
            · exact Or.inr ⟨e', List.mem_cons_of_mem _ he', h1, h2⟩
          · rintro (h | ⟨e', he', h1, h2⟩)
            · exact Or.inl (Or.inl h)
            · rcases List.mem_cons.mp he' with he' | he'
              · subst he'; exact Or.inl (Or.inr h2.symm)
              · exact Or.inr ⟨e', he', h1, h2⟩
    · simp only [hmk] at ihn ihm ⊢
      refine ⟨ihn, ?_⟩
      intro j
      rw [ihm j]
      constructor
      · rintro (h | ⟨e', he', h1, h2⟩)
        · exact Or.inl h
        · exact Or.inr ⟨e', List.mem_cons_of_mem _ he', h1, h2⟩
      · rintro (h | ⟨e', he', h1, h2⟩)
        · exact Or.inl h
        · rcases List.mem_cons.mp he' with he' | he'
          · subst he'; exact absurd h1 hmk
          · exact Or.inr ⟨e', he', h1, h2⟩

end Replicon.Scene
