import Replicon.Proofs.JointGhost
import Replicon.Proofs.JointEvents
/-
Authorization over arbitrary histories of the joint server model (C07): whatever history led to
a state, the next frame hands the transport replication messages and dependent events only for
clients that are authorized in that state.
-/
namespace Replicon.Joint
open Replicon Replicon.Srv Replicon.Evt

theorem evframe_stamped_authorized (s : SrvEv) (running ticked lok : Bool) (em : List Emitted) (peers : List Peer) :
    ∀ o ∈ (s.frame running ticked lok em peers).2.1, o.stamp.isSome →
      ∃ q ∈ peers, o.client = q.id ∧ q.authorized = true := by
  intro o ho hs
  unfold SrvEv.frame at ho
  cases running
  · simp at ho
  · simp only [Bool.not_true, Bool.false_eq_true, if_false] at ho
    have hind : ∀ o ∈ (em.filter (·.independent)).flatMap (fun e => sendIndependent peers e.ev), o.stamp = none := by
      intro o ho
      rw [List.mem_flatMap] at ho
      obtain ⟨e, _, he⟩ := ho
      exact independent_unstamped peers e.ev o he
    cases ticked
    · simp only [Bool.false_eq_true, if_false] at ho
      rw [hind o ho] at hs; cases hs
    · simp only [if_true] at ho
      rcases List.mem_append.mp ho with h | h
      · rw [hind o h] at hs; cases hs
      · obtain ⟨b, _, e, _, hoe⟩ := mem_sendAll.mp h
        obtain ⟨q, hq, _, _, ha, rfl⟩ := mem_sendEvent.mp hoe
        exact ⟨q, hq, rfl, ha⟩

/-- the clients of the state a frame's first half produces are the clients of the state before,
with the same authorization -/
theorem frameBegin_client_auth (s : Server) (ticked : Bool) (ms : Nat) (c : Nat) (cl1 : Cli)
    (h : (c, cl1) ∈ (s.frameBegin ticked ms).1.clients) :
    ∃ cl0, (c, cl0) ∈ s.clients ∧ cl0.authorized = cl1.authorized := by
  cases hr : s.running
  · obtain ⟨_, _, h3, _, _⟩ := frameBegin_stopped s ticked ms hr
    rw [h3] at h
    split at h
    · cases h
    · exact ⟨cl1, h, rfl⟩
  · rw [frameBegin_running s ticked ms hr] at h
    obtain ⟨G, hG, hpc⟩ := preRun_clients s ticked ms
    split at h
    · simp only at h
      rw [hpc] at h
      obtain ⟨cl0, hcl0, rfl⟩ := (mem_map_keyed s.clients (fun _ cl => G cl) c cl1).mp h
      exact ⟨cl0, hcl0, ((hG cl0).2).symm⟩
    · simp only at h
      rw [(runAll_clients (preRun s ticked ms)).1] at h
      obtain ⟨clp, hclp, rfl⟩ := (mem_map_keyed (preRun s ticked ms).clients
        (fun _ cl => if cl.authorized then (runClient (preRun s ticked ms) ((preRun s ticked ms).now + 1) cl).1 else cl) c cl1).mp h
      rw [hpc] at hclp
      obtain ⟨cl0, hcl0, rfl⟩ := (mem_map_keyed s.clients (fun _ cl => G cl) c clp).mp hclp
      refine ⟨cl0, hcl0, ?_⟩
      by_cases ha : (G cl0).authorized = true
      · simp only [ha, if_true]
        rw [(runClient_ticks _ _ (G cl0)).1, (hG cl0).2]
      · have ha' : (G cl0).authorized = false := by simpa using ha
        simp only [ha', Bool.false_eq_true, if_false]
        rw [← (hG cl0).2, ha']

/-- C07 over histories: replication messages only for clients authorized in the state before the frame -/
theorem frame_replication_authorized (st : St) (ticked : Bool) (ms : Nat) (parts : Nat → List (List Nat))
    (c : Nat) (o : ClientOut) (hm : (c, o) ∈ (frame st ticked ms parts).2.1) :
    ∃ cl, (c, cl) ∈ st.srv.clients ∧ cl.authorized = true := by
  cases hr : st.srv.running
  · obtain ⟨_, h2, _⟩ := frameBegin_stopped st.srv ticked ms hr
    have : (frame st ticked ms parts).2.1 = [] := by unfold frame; exact h2
    rw [this] at hm; cases hm
  · have hfb := frameBegin_running st.srv ticked ms hr
    cases hp : (preRun st.srv ticked ms).tickChanged
    · rw [hp] at hfb
      simp only [Bool.not_false, if_true] at hfb
      have : (frame st ticked ms parts).2.1 = [] := by unfold frame; simp only [hfb]
      rw [this] at hm; cases hm
    · rw [hp] at hfb
      simp only [Bool.not_true, Bool.false_eq_true, if_false] at hfb
      have houts : (frame st ticked ms parts).2.1 = (preRun st.srv ticked ms).runAll.2 := by
        unfold frame; simp only [hfb]
      rw [houts] at hm
      obtain ⟨clp, hclp, ha, _⟩ := (mem_runAll_outs _ c o).mp hm
      obtain ⟨G, hG, hpc⟩ := preRun_clients st.srv ticked ms
      rw [hpc] at hclp
      obtain ⟨cl0, hcl0, rfl⟩ := (mem_map_keyed st.srv.clients (fun _ cl => G cl) c clp).mp hclp
      exact ⟨cl0, hcl0, by rw [← (hG cl0).2]; exact ha⟩

/-- … and dependent (stamped) events likewise -/
theorem frame_events_authorized (st : St) (ticked : Bool) (ms : Nat) (parts : Nat → List (List Nat))
    (o : Out) (ho : o ∈ (frame st ticked ms parts).2.2) (hs : o.stamp.isSome) :
    ∃ cl, (o.client, cl) ∈ st.srv.clients ∧ cl.authorized = true := by
  obtain ⟨ev0, ran, peers, _, _, h2, _, hp⟩ := frame_ev st ticked ms parts
  rw [h2] at ho
  obtain ⟨q, hq, hc, ha⟩ := evframe_stamped_authorized _ _ _ _ _ _ o ho hs
  subst hp
  unfold peersOf at hq
  rw [List.mem_map] at hq
  obtain ⟨x, hx, rfl⟩ := hq
  obtain ⟨cl0, hcl0, hauth⟩ := frameBegin_client_auth st.srv ticked ms x.1 x.2 hx
  exact ⟨cl0, by rw [hc]; exact hcl0, by rw [hauth]; exact ha⟩

end Replicon.Joint
