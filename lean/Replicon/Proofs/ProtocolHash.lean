import Replicon.Model.ProtocolHash

namespace Replicon.Proto

/-! ### FNV-1a -/

/-- multiplicative inverse of the FNV prime modulo 2^64 (the prime is odd) -/
def fnvPrimeInv : BitVec 64 := BitVec.ofNat 64 14886173955864302971

theorem prime_mul_inv : BitVec.ofNat 64 Consts.fnvPrime * fnvPrimeInv = 1#64 := by decide

theorem mul_prime_inj (a b : BitVec 64)
    (h : a * BitVec.ofNat 64 Consts.fnvPrime = b * BitVec.ofNat 64 Consts.fnvPrime) : a = b := by
  have ha : a * BitVec.ofNat 64 Consts.fnvPrime * fnvPrimeInv = a := by
    rw [BitVec.mul_assoc, prime_mul_inv, BitVec.mul_one]
  have hb : b * BitVec.ofNat 64 Consts.fnvPrime * fnvPrimeInv = b := by
    rw [BitVec.mul_assoc, prime_mul_inv, BitVec.mul_one]
  rw [← ha, ← hb, h]

theorem xor_right_cancel (a b x : BitVec 64) (h : a ^^^ x = b ^^^ x) : a = b := by
  have : (a ^^^ x) ^^^ x = (b ^^^ x) ^^^ x := by rw [h]
  simpa [BitVec.xor_assoc] using this

theorem xor_left_cancel (a x y : BitVec 64) (h : a ^^^ x = a ^^^ y) : x = y := by
  have : a ^^^ (a ^^^ x) = a ^^^ (a ^^^ y) := by rw [h]
  simpa [← BitVec.xor_assoc] using this

/-- Every FNV-1a step is injective in the running hash … -/
theorem fnvStep_inj (h h' : BitVec 64) (b : Nat) (e : fnvStep h b = fnvStep h' b) : h = h' := by
  unfold fnvStep at e
  exact xor_right_cancel _ _ _ (mul_prime_inj _ _ e)

/-- … and in the byte. -/
theorem fnvStep_byte_inj (h : BitVec 64) (b b' : Nat) (e : fnvStep h b = fnvStep h b') :
    b % 256 = b' % 256 := by
  unfold fnvStep at e
  have := xor_left_cancel _ _ _ (mul_prime_inj _ _ e)
  have h2 := congrArg BitVec.toNat this
  rw [BitVec.toNat_ofNat, BitVec.toNat_ofNat] at h2
  have lt256 : ∀ x : Nat, x % 256 % 2 ^ 64 = x % 256 := fun x =>
    Nat.mod_eq_of_lt (Nat.lt_trans (Nat.mod_lt x (by decide)) (by decide))
  rw [lt256, lt256] at h2
  exact h2

theorem fnv_cons (b : Nat) (bs : List Nat) (h : BitVec 64) : fnv (b :: bs) h = fnv bs (fnvStep h b) := by
  unfold fnv; rw [List.foldl_cons]

theorem fnv_inj (bs : List Nat) : ∀ (h h' : BitVec 64), fnv bs h = fnv bs h' → h = h' := by
  induction bs with
  | nil => intro h h' e; unfold fnv at e; rw [List.foldl_nil, List.foldl_nil] at e; exact e
  | cons b bs ih =>
    intro h h' e
    rw [fnv_cons, fnv_cons] at e
    exact fnvStep_inj _ _ b (ih _ _ e)

theorem fnv_append (xs ys : List Nat) (h : BitVec 64) : fnv (xs ++ ys) h = fnv ys (fnv xs h) := by
  unfold fnv; rw [List.foldl_append]

/-- FNV-1a separates any two inputs that differ in exactly one byte. -/
theorem fnv_single_byte (pre suf : List Nat) (b b' : Nat) (h : BitVec 64) (hne : b % 256 ≠ b' % 256) :
    fnv (pre ++ b :: suf) h ≠ fnv (pre ++ b' :: suf) h := by
  intro e
  rw [fnv_append, fnv_append, fnv_cons, fnv_cons] at e
  exact hne (fnvStep_byte_inj _ _ _ (fnv_inj suf _ _ e))

/-! ### the hasher's input is an injective code of the registration sequence -/

theorem u64le_value (p : Nat) (hp : p < 18446744073709551616) :
    p % 256 + 256 * (p / 256 % 256) + 65536 * (p / 65536 % 256) + 16777216 * (p / 16777216 % 256)
      + 4294967296 * (p / 4294967296 % 256) + 1099511627776 * (p / 1099511627776 % 256)
      + 281474976710656 * (p / 281474976710656 % 256) + 72057594037927936 * (p / 72057594037927936 % 256) = p := by
  omega

/-- Split at the first `0xff` byte. -/
def splitName : List Nat → List Nat × List Nat
  | [] => ([], [])
  | b :: bs => if b = 255 then ([], b :: bs) else ((b :: (splitName bs).1), (splitName bs).2)

/-- Parser for one registration (the inverse of `encodeReg`). -/
def decodeReg (bs : List Nat) : Option (Reg × List Nat) :=
  match bs with
  | [] => none
  | k :: rest =>
    if k = 0 then
      match rest with
      | b0 :: b1 :: b2 :: b3 :: b4 :: b5 :: b6 :: b7 :: rest' =>
        let p := b0 + 256 * b1 + 65536 * b2 + 16777216 * b3 + 4294967296 * b4 + 1099511627776 * b5
          + 281474976710656 * b6 + 72057594037927936 * b7
        match (splitName rest').2 with
        | _ :: r' => some ({ kind := 0, priority := p, name := (splitName rest').1 }, r')
        | [] => none
      | _ => none
    else
      match (splitName rest).2 with
      | _ :: r' => some ({ kind := k, priority := 0, name := (splitName rest).1 }, r')
      | [] => none

theorem span_name (name rest : List Nat) (hn : ∀ b ∈ name, b < 255) :
    splitName (name ++ 255 :: rest) = (name, 255 :: rest) := by
  induction name with
  | nil => simp [splitName]
  | cons x xs ih =>
    have hx : x < 255 := hn x List.mem_cons_self
    have hxs : ∀ b ∈ xs, b < 255 := fun b hb => hn b (List.mem_cons_of_mem _ hb)
    have hne : ¬ x = 255 := by omega
    rw [List.cons_append, splitName, if_neg hne, ih hxs]

theorem decodeReg_encode (r : Reg) (rest : List Nat) (wf : r.WF) :
    decodeReg (encodeReg r ++ rest) = some (r, rest) := by
  obtain ⟨_, hp, hk0, hn⟩ := wf
  obtain ⟨kind, priority, name⟩ := r
  unfold encodeReg
  by_cases hk : kind = 0
  · subst hk
    simp only [if_true, u64le, List.cons_append, List.append_assoc, List.nil_append]
    unfold decodeReg
    simp only [if_true]
    rw [span_name name rest hn]
    simp only
    have := u64le_value priority hp
    congr 2
    simp only [Reg.mk.injEq, true_and, and_true]
    omega
  · simp only [hk, if_false, List.nil_append, List.cons_append, List.append_assoc]
    unfold decodeReg
    simp only [hk, if_false]
    rw [span_name name rest hn]
    simp only
    have : priority = 0 := hk0 hk
    subst this
    rfl

theorem encodeSeq_cons (r : Reg) (rs : List Reg) : encodeSeq (r :: rs) = encodeReg r ++ encodeSeq rs := by
  unfold encodeSeq; simp

/-- Two well-formed registration sequences that feed the same bytes to the hasher are equal:
order, kind, type name, priority and independence marks are all recoverable from the bytes. -/
theorem encodeSeq_injective : ∀ (rs rs' : List Reg), (∀ r ∈ rs, r.WF) → (∀ r ∈ rs', r.WF) →
    encodeSeq rs = encodeSeq rs' → rs = rs' := by
  intro rs
  induction rs with
  | nil =>
    intro rs' _ _ h
    cases rs' with
    | nil => rfl
    | cons r' rs'' =>
      rw [encodeSeq_cons] at h
      unfold encodeReg at h
      simp [encodeSeq] at h
  | cons r rs ih =>
    intro rs' hw hw' h
    cases rs' with
    | nil =>
      rw [encodeSeq_cons] at h
      unfold encodeReg at h
      simp [encodeSeq] at h
    | cons r' rs'' =>
      rw [encodeSeq_cons, encodeSeq_cons] at h
      have h1 := decodeReg_encode r (encodeSeq rs) (hw r List.mem_cons_self)
      have h2 := decodeReg_encode r' (encodeSeq rs'') (hw' r' List.mem_cons_self)
      rw [h, h2] at h1
      simp only [Option.some.injEq, Prod.mk.injEq] at h1
      obtain ⟨hr, ht⟩ := h1
      rw [hr, ih rs'' (fun x hx => hw x (List.mem_cons_of_mem _ hx))
        (fun x hx => hw' x (List.mem_cons_of_mem _ hx)) ht.symm]

end Replicon.Proto
