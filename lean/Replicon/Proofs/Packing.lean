import Replicon.Model.Packing

namespace Replicon.Packing

/-- everything processed so far, in order -/
def St.all (st : St) : List Nat := (st.done.reverse).flatten ++ st.cur.reverse

theorem step_all (header max : Nat) (st : St) (m : Nat) : (step header max st m).all = st.all ++ [m] := by
  unfold step St.all
  split
  · simp
  · simp

theorem fold_all (header max : Nat) : ∀ (sizes : List Nat) (st : St),
    (sizes.foldl (step header max) st).all = st.all ++ sizes := by
  intro sizes
  induction sizes with
  | nil => intro st; simp
  | cons m ms ih => intro st; rw [List.foldl_cons, ih, step_all]; simp

theorem finish_flatten (st : St) (track : Bool) : (finish st track).flatten = st.all := by
  unfold finish St.all
  split
  · simp
  · rename_i h
    have : st.cur = [] := by
      apply Classical.byContradiction
      intro hc; exact h (Or.inl hc)
    simp [this]

/-- The bound invariant: every finished message and the current one fit, and `body` is the
current message's size. -/
def Fits (header max : Nat) (st : St) : Prop :=
  (∀ msg ∈ st.done, header + msg.sum ≤ max) ∧ st.body = st.cur.sum ∧ (st.cur ≠ [] → header + st.body ≤ max) ∧
  (st.cur = [] → st.body = 0)

theorem canPack_fits (a b max : Nat) (ha : a ≤ max) (h : canPack a b max = true) : a + b ≤ max := by
  unfold canPack at h
  simp only [Bool.and_eq_true, decide_eq_true_eq] at h
  obtain ⟨h1, h2⟩ := h
  rcases Nat.lt_or_eq_of_le ha with hlt | heq
  · rw [Nat.mod_eq_of_lt hlt] at h2; exact h2
  · subst heq
    rcases Nat.eq_zero_or_pos a with h0 | hp
    · subst h0; simp at h1
    · rw [Nat.mod_self] at h1; exact absurd h1 (Nat.lt_irrefl 0)

theorem step_fits (header max : Nat) (st : St) (m : Nat) (hm : header + m ≤ max) (inv : Fits header max st) :
    Fits header max (step header max st m) := by
  obtain ⟨hdone, hbody, hcur, hempty⟩ := inv
  unfold step
  split
  · rename_i hsplit
    refine ⟨?_, by simp, fun _ => hm, fun h => by simp at h⟩
    intro msg hmem
    simp only [List.mem_cons] at hmem
    rcases hmem with h | h
    · subst h
      have hne : st.cur ≠ [] := by
        intro hc; exact hsplit.1 (hempty hc)
      rw [List.sum_reverse, ← hbody]; exact hcur hne
    · exact hdone msg h
  · rename_i hns
    refine ⟨hdone, by simp [hbody]; omega, ?_, fun h => by simp at h⟩
    intro _
    show header + (st.body + m) ≤ max
    by_cases hb : st.body = 0
    · rw [hb]; omega
    · have hne : st.cur ≠ [] := by
        intro hc; exact hb (hempty hc)
      have hfit := hcur hne
      have : canPack (header + st.body) m max = true ∨ canPack (header + m) st.body max = true := by
        cases h1 : canPack (header + st.body) m max
        · cases h2 : canPack (header + m) st.body max
          · exact absurd ⟨hb, h1, h2⟩ hns
          · exact Or.inr rfl
        · exact Or.inl rfl
      rcases this with h | h
      · have := canPack_fits _ _ _ hfit h; omega
      · have := canPack_fits _ _ _ hm h; omega

theorem fold_fits (header max : Nat) : ∀ (sizes : List Nat) (st : St),
    (∀ m ∈ sizes, header + m ≤ max) → Fits header max st → Fits header max (sizes.foldl (step header max) st) := by
  intro sizes
  induction sizes with
  | nil => intro st _ inv; exact inv
  | cons m ms ih =>
    intro st hall inv
    rw [List.foldl_cons]
    exact ih _ (fun x hx => hall x (List.mem_cons_of_mem _ hx)) (step_fits header max st m (hall m List.mem_cons_self) inv)

/-- No split happens while everything still fits into one message. -/
def OneMsg (header max : Nat) (st : St) : Prop :=
  st.done = [] ∧ st.body = st.cur.sum ∧ header + st.body ≤ max

theorem canPack_of_fits (a b max : Nat) (ha : 0 < a) (h : a + b ≤ max) (hb : 0 < b) : canPack a b max = true := by
  unfold canPack
  have hlt : a < max := by omega
  rw [Nat.mod_eq_of_lt hlt]
  simp only [Bool.and_eq_true, decide_eq_true_eq]
  exact ⟨ha, h⟩

theorem step_one (header max : Nat) (st : St) (m : Nat) (hh : 0 < header) (inv : OneMsg header max st)
    (hfit : header + st.body + m ≤ max) : OneMsg header max (step header max st m) := by
  obtain ⟨hdone, hbody, _⟩ := inv
  unfold step
  split
  · rename_i hsplit
    exfalso
    obtain ⟨hb, h1, h2⟩ := hsplit
    rcases Nat.eq_zero_or_pos m with hm0 | hmp
    · -- m = 0: the second test packs the current body behind the (small) new chunk
      subst hm0
      have := canPack_of_fits (header + 0) st.body max (by omega) (by omega) (Nat.pos_of_ne_zero hb)
      rw [this] at h2; cases h2
    · have := canPack_of_fits (header + st.body) m max (by omega) hfit hmp
      rw [this] at h1; cases h1
  · exact ⟨hdone, by simp [hbody]; omega, by show header + (st.body + m) ≤ max; omega⟩

theorem fold_one (header max : Nat) (hh : 0 < header) : ∀ (sizes : List Nat) (st : St),
    OneMsg header max st → header + st.body + sizes.sum ≤ max →
    OneMsg header max (sizes.foldl (step header max) st) := by
  intro sizes
  induction sizes with
  | nil => intro st inv _; exact inv
  | cons m ms ih =>
    intro st inv hfit
    rw [List.foldl_cons]
    have hs : (m :: ms).sum = m + ms.sum := by simp
    rw [hs] at hfit
    have inv' := step_one header max st m hh inv (by omega)
    apply ih _ inv'
    have : (step header max st m).body = st.body + m := by
      have h1 := inv'.2.1
      unfold step at h1 ⊢
      split
      · rename_i hsplit
        exfalso
        obtain ⟨hb, h1', h2'⟩ := hsplit
        rcases Nat.eq_zero_or_pos m with hm0 | hmp
        · subst hm0
          have := canPack_of_fits (header + 0) st.body max (by omega) (by omega) (Nat.pos_of_ne_zero hb)
          rw [this] at h2'; cases h2'
        · have := canPack_of_fits (header + st.body) m max (by omega) (by omega) hmp
          rw [this] at h1'; cases h1'
      · rfl
    rw [this]; omega

end Replicon.Packing
