import Replicon.Proofs.Client
import Replicon.Proofs.Tick

/-!
# The client's tick decisions across the 32-bit wrap

`Model/Client.lean` keeps ticks as unbounded naturals and decides `apply_mutations` with the plain
order (`tick > last`), and `apply_mutate_messages` with `updateTick ≤ c.updateTick`.  The code holds
`RepliconTick(u32)` and compares in the wrapping order (`Ord for RepliconTick`).  This file states the
code's decisions on residues, proves them equal to the model's whenever the two ticks are less than
half the counter range apart (`Near`), and shows with a concrete witness that the raw `u32`
comparison is not.
-/

namespace Replicon.Cli
open Replicon Replicon.Srv

/-- `apply_mutations` for one entity record as the code decides it: the message tick and the
entity's last confirmed tick are `u32` residues compared by `RepliconTick::cmp` -/
def applyMutEntW (c : Client) (tick : Nat) (m : MsgEnt) : Res Client :=
  match aget c.s2c m.ent with
  | none => .ok c
  | some ce =>
    match aget c.world ce with
    | none => .err
    | some ent =>
      match ent.hist with
      | none => .err
      | some last =>
        if tickGt (tick % 4294967296) (last % 4294967296) then .ok (writeComps (confirm c ce tick) ce m.comps)
        else .ok c

/-- the same with the residues compared as plain numbers (`message_tick.get() > last_tick.get()`) -/
def applyMutEntRaw (c : Client) (tick : Nat) (m : MsgEnt) : Res Client :=
  match aget c.s2c m.ent with
  | none => .ok c
  | some ce =>
    match aget c.world ce with
    | none => .err
    | some ent =>
      match ent.hist with
      | none => .err
      | some last =>
        if tick % 4294967296 > last % 4294967296 then .ok (writeComps (confirm c ce tick) ce m.comps)
        else .ok c

/-- every confirmed tick of an entity the message names is less than half the range from the message tick -/
def NearHist (c : Client) (tick : Nat) (m : MsgEnt) : Prop :=
  ∀ ce ent last, aget c.s2c m.ent = some ce → aget c.world ce = some ent → ent.hist = some last → Near tick last

theorem applyMutEntW_eq (c : Client) (tick : Nat) (m : MsgEnt) (h : NearHist c tick m) :
    applyMutEntW c tick m = applyMutEnt c tick m := by
  unfold applyMutEntW applyMutEnt
  cases hs : aget c.s2c m.ent with
  | none => rfl
  | some ce =>
    simp only
    cases hw : aget c.world ce with
    | none => rfl
    | some ent =>
      simp only
      cases hh : ent.hist with
      | none => rfl
      | some last =>
        simp only
        rw [tickGt_abs tick last (h ce ent last hs hw hh)]
        by_cases hgt : tick > last
        · rw [if_pos hgt, if_pos (decide_eq_true hgt)]
        · rw [if_neg hgt, if_neg (by simp [hgt])]

/-- the gate of `apply_mutate_messages` as the code decides it -/
def readyW (updateTick mUpdateTick : Nat) : Bool :=
  tickLe (mUpdateTick % 4294967296) (updateTick % 4294967296)

theorem readyW_eq (updateTick mUpdateTick : Nat) (h : Near mUpdateTick updateTick) :
    readyW updateTick mUpdateTick = decide (mUpdateTick ≤ updateTick) :=
  tickLe_abs mUpdateTick updateTick h

/-- across the wrap the raw comparison skips a newer message: the entity was confirmed at
tick 4294967291, the message has tick 4294967299 (residue 3) -/
def wrapWitness : Client :=
  { s2c := [(0, 0)], c2s := [(0, 0)],
    world := [(0, { marked := true, comps := [(0, 1)], hist := some 4294967291 })] }

/-- the client's world after a step (`[]` if the step failed) -/
def worldOf : Res Client → List (Nat × CEnt)
  | .ok c => c.world
  | _ => []

theorem raw_skips_newer :
    NearHist wrapWitness 4294967299 { ent := 0, comps := [(0, 2)] } ∧
    worldOf (applyMutEnt wrapWitness 4294967299 { ent := 0, comps := [(0, 2)] }) =
      [(0, { marked := true, comps := [(0, 2)], hist := some 4294967299 })] ∧
    worldOf (applyMutEntW wrapWitness 4294967299 { ent := 0, comps := [(0, 2)] }) =
      [(0, { marked := true, comps := [(0, 2)], hist := some 4294967299 })] ∧
    worldOf (applyMutEntRaw wrapWitness 4294967299 { ent := 0, comps := [(0, 2)] }) = wrapWitness.world := by
  refine ⟨?_, by decide, by decide, by decide⟩
  intro ce ent last h1 h2 h3
  have e1 : ce = 0 := by
    have : aget wrapWitness.s2c 0 = some 0 := by decide
    have h1' : aget wrapWitness.s2c 0 = some ce := h1
    rw [this] at h1'; exact (Option.some.inj h1').symm
  subst e1
  have : aget wrapWitness.world 0 = some { marked := true, comps := [(0, 1)], hist := some 4294967291 } := by decide
  rw [this] at h2
  have e2 := Option.some.inj h2
  subst e2
  have e3 : last = 4294967291 := (Option.some.inj h3).symm
  subst e3
  unfold Near; omega

end Replicon.Cli
