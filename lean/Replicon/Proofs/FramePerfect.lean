import Replicon.Proofs.FrameServer

/-!
# One run, both sides, every value — under perfect delivery

A receiver that holds the tracked entities, has the current value of every every-tick component
that did not change since the last run, and whose entities are confirmed at ticks older than this
run's: after it applies the run's update message and every record of the run's mutate messages,
it has the server's current value of every every-tick plain component of every entity the server
tracks for the client after the run.
-/

namespace Replicon.Cli
open Replicon Replicon.Srv

theorem changes_entityComps (tick : Nat) : ∀ (l : List MsgEnt) (c : Client), WF c →
    (foldOpt (applyChange tick) (c, false) l).1.entityComps = c.entityComps := by
  intro l
  induction l with
  | nil => intro c _; rfl
  | cons x xs ih =>
    intro c wf
    obtain ⟨c1, e1, w1, _⟩ := applyChange_kinds tick c x wf
    have hstep : foldOpt (applyChange tick) (c, false) (x :: xs) = foldOpt (applyChange tick) (c1, false) xs := by
      unfold foldOpt
      rw [List.foldl_cons]
      simp only [Bool.false_eq_true, if_false, e1]
    rw [hstep, ih c1 w1, applyChange_entityComps tick c x wf c1 e1]

theorem applyUpdate_entityComps (c : Client) (u : Update) (wf : WF c) (hm : u.mappings = []) :
    (applyUpdate c u).entityComps = c.entityComps := by
  unfold applyUpdate
  simp only [hm, List.foldl_nil]
  have wf0 : WF { c with updateTick := u.tick } := ⟨wf.alive, wf.inj, wf.bound⟩
  obtain ⟨w1, _⟩ := despawns_spec u.despawns _ wf0
  obtain ⟨f2, w2, _, _⟩ := removals_spec u.tick u.removals _ w1
  have hec2 := removals_entityComps u.tick u.removals _ w1
  rw [despawns_entityComps] at hec2
  generalize hc2 : foldOpt (applyRemoval u.tick) (u.despawns.foldl applyDespawn { c with updateTick := u.tick }, false) u.removals = st2 at f2 w2 hec2
  have hst2 : st2 = (st2.1, false) := by rw [← f2]
  rw [hst2, changes_entityComps u.tick u.changes st2.1 w2, hec2]

theorem mutFold_wf (tick : Nat) : ∀ (l : List MsgEnt) (c : Client), WF c → (∀ m ∈ l, (m.comps.map (·.1)).Nodup) →
    WF (l.foldl (mutStep tick) c) := by
  intro l
  induction l with
  | nil => intro c wf _; exact wf
  | cons x xs ih =>
    intro c wf hnd
    rw [List.foldl_cons]
    exact ih _ (mutStep_vals tick c x wf (hnd x List.mem_cons_self)).1 (fun m hm => hnd m (List.mem_cons_of_mem _ hm))

end Replicon.Cli

namespace Replicon.Srv
open Replicon Replicon.Cli

theorem runClient_mutEnts (s : Server) (thisRun : Nat) (cl : Cli) :
    (runClient s thisRun cl).2.mutEnts = (entityOuts s thisRun (runCl1 s cl)).filterMap fun x => x.2.toMutate := by
  unfold runClient runCl1
  simp only
  split <;> rfl

theorem mem_mutEnts (s : Server) (thisRun : Nat) (cl : Cli) (r : MsgEnt) :
    r ∈ (runClient s thisRun cl).2.mutEnts ↔
      ∃ e ent m, (e, ent) ∈ s.world ∧ ent.marker = some m ∧
        (collectEntity s thisRun (runCl1 s cl) e ent m).toMutate = some r := by
  rw [runClient_mutEnts, List.mem_filterMap]
  constructor
  · rintro ⟨⟨e, o⟩, ho, hto⟩
    obtain ⟨ent, m, hw, hm, rfl⟩ := (mem_entityOuts s thisRun _ e o).mp ho
    exact ⟨e, ent, m, hw, hm, hto⟩
  · rintro ⟨e, ent, m, hw, hm, hto⟩
    exact ⟨(e, _), (mem_entityOuts s thisRun _ e _).mpr ⟨ent, m, hw, hm, rfl⟩, hto⟩

/-- the client applies a run's update message (if there is one) and then every record of its mutate messages -/
def recvRun (c : Client) (o : ClientOut) (tick : Nat) : Client :=
  o.mutEnts.foldl (mutStep tick) (match o.update with | some u => applyUpdate c u | none => c)

/-- the common setting of the value argument for one client in one run -/
structure RunCtx (p : Server) (x : Nat × Cli) (c : Client) : Prop where
  sinv : SyncInv p
  hrm : RemovalsMarked p
  kinv : KindInv p
  hrates : (p.rates.map (·.1)).Nodup
  hx : x ∈ p.clients
  hmap : x.2.mappings = []
  wf : WF c
  hh : ∀ se, held c se ↔ se ∈ keys x.2

/-- the receiver after the update message: well-formed, same entity-valued kinds -/
theorem recv_update_wf (p : Server) (x : Nat × Cli) (c : Client) (ctx : RunCtx p x c) :
    WF (match (runClient p (p.now + 1) x.2).2.update with | some u => applyUpdate c u | none => c) ∧
    (match (runClient p (p.now + 1) x.2).2.update with | some u => applyUpdate c u | none => c).entityComps = c.entityComps := by
  cases hu : (runClient p (p.now + 1) x.2).2.update with
  | none => exact ⟨ctx.wf, rfl⟩
  | some u =>
    have hok := frame_msg_ok p ctx.sinv ctx.hrm x ctx.hx ctx.hmap c ctx.hh u hu
    exact ⟨(applyUpdate_held c u ctx.wf hok.1 hok.2).1, applyUpdate_entityComps c u ctx.wf hok.1⟩

/-- every record of the run's mutate messages has distinct kinds -/
theorem mutEnts_nodup (p : Server) (hrates : (p.rates.map (·.1)).Nodup) (cl : Cli) :
    ∀ m ∈ (runClient p (p.now + 1) cl).2.mutEnts, (m.comps.map (·.1)).Nodup := by
  intro m hm
  obtain ⟨e, ent, mk, _, _, hto⟩ := (mem_mutEnts p _ cl m).mp hm
  exact (collect_toMutate_values p hrates _ _ e ent mk m hto).2.1

/-- the records for one entity in the run's mutate messages all come from that entity's decision -/
theorem mutEnts_of_entity (p : Server) (hn : (p.world.map (·.1)).Nodup) (hrates : (p.rates.map (·.1)).Nodup)
    (cl : Cli) (e : Nat) (ent : SEnt) (mk : Nat)
    (hw : (e, ent) ∈ p.world) (hmk : ent.marker = some mk) (r : MsgEnt)
    (hr : r ∈ (runClient p (p.now + 1) cl).2.mutEnts) (he : r.ent = e) :
    (collectEntity p (p.now + 1) (runCl1 p cl) e ent mk).toMutate = some r := by
  obtain ⟨e', ent', mk', hw', hmk', hto⟩ := (mem_mutEnts p _ cl r).mp hr
  have he' := (collect_toMutate_values p hrates _ _ e' ent' mk' r hto).1
  rw [he] at he'
  subst he'
  have := world_unique p hn e ent ent' hw hw'
  subst this
  rw [hmk] at hmk'
  simp only [Option.some.injEq] at hmk'
  subst hmk'
  exact hto

/-- … and likewise the CHANGES records of the update message -/
theorem changes_of_entity (p : Server) (hn : (p.world.map (·.1)).Nodup) (cl : Cli) (u : Update)
    (hu : (runClient p (p.now + 1) cl).2.update = some u) (e : Nat) (ent : SEnt) (mk : Nat)
    (hw : (e, ent) ∈ p.world) (hmk : ent.marker = some mk) (r : MsgEnt) (hr : r ∈ u.changes) (he : r.ent = e) :
    (collectEntity p (p.now + 1) (runCl1 p cl) e ent mk).toUpdate = some r := by
  have hchg := (runClient_sections p _ cl u hu).2.2
  rw [hchg, List.mem_filterMap] at hr
  obtain ⟨⟨e', o'⟩, ho', hto'⟩ := hr
  obtain ⟨ent', mk', hw', hmk', rfl⟩ := (mem_entityOuts p _ _ e' o').mp ho'
  simp only at hto'
  have he' := (collect_toUpdate p _ _ e' ent' mk' r hto').1
  rw [he] at he'
  subst he'
  have := world_unique p hn e ent ent' hw hw'
  subst this
  rw [hmk] at hmk'
  simp only [Option.some.injEq] at hmk'
  subst hmk'
  exact hto'

/-- a decision with a CHANGES record makes the run send an update message that contains it -/
theorem update_of_record (p : Server) (cl : Cli) (e : Nat) (ent : SEnt) (mk : Nat)
    (hw : (e, ent) ∈ p.world) (hmk : ent.marker = some mk) (r : MsgEnt)
    (hto : (collectEntity p (p.now + 1) (runCl1 p cl) e ent mk).toUpdate = some r) :
    ∃ u, (runClient p (p.now + 1) cl).2.update = some u ∧ r ∈ u.changes := by
  have hmem : r ∈ (entityOuts p (p.now + 1) (runCl1 p cl)).filterMap fun x => x.2.toUpdate := by
    rw [List.mem_filterMap]
    exact ⟨(e, _), (mem_entityOuts p _ _ e _).mpr ⟨ent, mk, hw, hmk, rfl⟩, hto⟩
  cases hu : (runClient p (p.now + 1) cl).2.update with
  | none =>
    exfalso
    obtain ⟨_, _, n3⟩ := runClient_no_update p (p.now + 1) cl hu
    rw [n3] at hmem; cases hmem
  | some u =>
    refine ⟨u, rfl, ?_⟩
    rw [(runClient_sections p _ cl u hu).2.2]; exact hmem

/-- a kind named by the entity's CHANGES record is on the insertion or mutation path -/
theorem toUpdate_named_path (s : Server) (hrates : (s.rates.map (·.1)).Nodup) (thisRun : Nat) (cl : Cli) (e : Nat)
    (ent : SEnt) (m : Nat) (rec : MsgEnt) (h : (collectEntity s thisRun cl e ent m).toUpdate = some rec)
    (k : Nat) (hk : k ∈ rec.comps.map (·.1)) (r : Rate) (comp : Comp) (hp : (k, r, comp) ∈ present s ent) :
    compPath s (aget cl.mutTick e) (decide (m > s.lastRun) || decide (visState s cl e = Vis.State.gained)) r comp ≠ Path.nothing := by
  have hn := present_keys_nodup s ent hrates
  unfold collectEntity at h
  simp only at h
  split at h
  · cases h
  · split at h
    · split at h
      · cases h
      · simp only [Option.some.injEq] at h
        rw [← h] at hk
        simp only [List.map_append, List.mem_append, List.mem_map] at hk
        intro hnot
        rcases hk with ⟨⟨k', v⟩, hx, rfl⟩ | ⟨⟨k', v⟩, hx, rfl⟩
        · obtain ⟨r', c', p', s', _⟩ := (mem_recHalf (present s ent)
            (fun x => compPath s (aget cl.mutTick e) (decide (m > s.lastRun) || decide (visState s cl e = Vis.State.gained)) x.2.1 x.2.2 = Path.insertion) k' v).mp hx
          obtain ⟨rfl, rfl⟩ := entry_unique (present s ent) hn k' r' r c' comp p' hp
          simp only at s'
          rw [hnot] at s'; cases s'
        · obtain ⟨r', c', p', s', _⟩ := (mem_recHalf (present s ent)
            (fun x => compPath s (aget cl.mutTick e) (decide (m > s.lastRun) || decide (visState s cl e = Vis.State.gained)) x.2.1 x.2.2 = Path.mutation) k' v).mp hx
          obtain ⟨rfl, rfl⟩ := entry_unique (present s ent) hn k' r' r c' comp p' hp
          simp only at s'
          rw [hnot] at s'; cases s'
    · split at h <;> cases h

/-- a kind named by the entity's mutate record is on the mutation path -/
theorem toMutate_named_path (s : Server) (hrates : (s.rates.map (·.1)).Nodup) (thisRun : Nat) (cl : Cli) (e : Nat)
    (ent : SEnt) (m : Nat) (rec : MsgEnt) (h : (collectEntity s thisRun cl e ent m).toMutate = some rec)
    (k : Nat) (hk : k ∈ rec.comps.map (·.1)) (r : Rate) (comp : Comp) (hp : (k, r, comp) ∈ present s ent) :
    compPath s (aget cl.mutTick e) (decide (m > s.lastRun) || decide (visState s cl e = Vis.State.gained)) r comp ≠ Path.nothing := by
  have hn := present_keys_nodup s ent hrates
  unfold collectEntity at h
  simp only at h
  split at h
  · cases h
  · split at h
    · split at h <;> cases h
    · split at h
      · simp only [Option.some.injEq] at h
        rw [← h] at hk
        simp only [List.mem_map] at hk
        intro hnot
        obtain ⟨⟨k', v⟩, hx, rfl⟩ := hk
        obtain ⟨r', c', p', s', _⟩ := (mem_recHalf (present s ent)
          (fun x => compPath s (aget cl.mutTick e) (decide (m > s.lastRun) || decide (visState s cl e = Vis.State.gained)) x.2.1 x.2.2 = Path.mutation) k' v).mp hx
        obtain ⟨rfl, rfl⟩ := entry_unique (present s ent) hn k' r' r c' comp p' hp
        simp only at s'
        rw [hnot] at s'; cases s'
      · cases h

/-- every record of the CHANGES section has distinct kinds -/
theorem changes_nodup (p : Server) (hrates : (p.rates.map (·.1)).Nodup) (cl : Cli) (u : Update)
    (hu : (runClient p (p.now + 1) cl).2.update = some u) : ∀ m ∈ u.changes, (m.comps.map (·.1)).Nodup := by
  intro m hm
  rw [(runClient_sections p _ cl u hu).2.2, List.mem_filterMap] at hm
  obtain ⟨⟨e', o'⟩, ho', hto'⟩ := hm
  obtain ⟨ent', mk', _, _, rfl⟩ := (mem_entityOuts p _ _ e' o').mp ho'
  simp only at hto'
  exact (collect_toUpdate_values p hrates (p.now + 1) (runCl1 p cl) e' ent' mk' m hto').1

/-- **One run, both sides, every value, under perfect delivery.** -/
theorem frame_values_perfect (p : Server) (x : Nat × Cli) (c : Client) (ctx : RunCtx p x c)
    (hbel : ∀ e t, aget x.2.mutTick e = some t → t ≤ p.lastRun)
    (hready : ∀ e, e ∈ keys x.2 → Ready p.tick c e)
    (hQ : ∀ e, e ∈ keys x.2 → ∀ ent, (e, ent) ∈ p.world → ∀ k comp, (k, Rate.every, comp) ∈ present p ent →
      c.entityComps.contains k = false → ¬ comp.added > p.lastRun → ¬ comp.changed > p.lastRun →
      valOn c e k = some comp.val)
    (e : Nat) (he : e ∈ keys (runClient p (p.now + 1) x.2).1) (ent : SEnt) (hw : (e, ent) ∈ p.world)
    (k : Nat) (comp : Comp) (hp : (k, Rate.every, comp) ∈ present p ent) (hplain : c.entityComps.contains k = false) :
    valOn (recvRun c (runClient p (p.now + 1) x.2).2 p.tick) e k = some comp.val := by
  have hn := ctx.sinv.worldNodup
  have hcs := ctx.sinv.sync x ctx.hx
  obtain ⟨wf1, ec1⟩ := recv_update_wf p x c ctx
  have hndm := mutEnts_nodup p ctx.hrates x.2
  have hpn := present_keys_nodup p ent ctx.hrates
  have hkeys := (runClient_keys p (p.now + 1) x.2 e).mp he
  -- the entity's marker, and that it is not hidden after `collect_despawns`
  have hmv : ∃ mk, ent.marker = some mk ∧ visState p (runCl1 p x.2) e ≠ Vis.State.hidden := by
    rcases hkeys with hk | hb
    · obtain ⟨hv, hkc, hnd, _⟩ := kept_visible p x.2 hcs e hk
      obtain ⟨_, hcells⟩ := hcs
      obtain ⟨g, _, hkg⟩ := hcells e
      obtain ⟨_, hm⟩ := hkg hkc
      rcases hm with ⟨ent', hw', hmk'⟩ | hd
      · have := world_unique p hn e ent ent' hw hw'
        subst this
        cases hmk : ent.marker with
        | none => rw [hmk] at hmk'; cases hmk'
        | some mk => exact ⟨mk, rfl, by rw [hv]; intro h; cases h⟩
      · exact absurd hd hnd
    · obtain ⟨ent', mk, hw', hmk, hb3⟩ := (mem_runBumped p _ x.2 e).mp hb
      have := world_unique p hn e ent ent' hw hw'
      subst this
      exact ⟨mk, hmk, collect_bump_visible p _ _ e ent mk hb3⟩
  obtain ⟨mk, hmk, hvis⟩ := hmv
  -- records of the mutate messages for `e` come from `e`'s decision
  have hmorig := fun r hr he' => mutEnts_of_entity p hn ctx.hrates x.2 e ent mk hw hmk r hr he'
  unfold recvRun
  by_cases hpath : compPath p (aget (runCl1 p x.2).mutTick e)
      (decide (mk > p.lastRun) || decide (visState p (runCl1 p x.2) e = Vis.State.gained)) Rate.every comp = Path.nothing
  · -- nothing to say about the component: the receiver has it, and nothing touches it
    obtain ⟨t, hknown, _, hna, hnc⟩ := compPath_nothing p _ _ Rate.every comp hpath
    have hk1 : e ∈ keys (runCl1 p x.2) := mem_keys_of_aget _ e t hknown
    obtain ⟨_, hkc, _, hnd⟩ := kept_visible p x.2 hcs e hk1
    have ht : t ≤ p.lastRun := hbel e t (runCl1_mutTick_sub p x.2 e t hknown)
    have hnchg : ¬ comp.changed > p.lastRun := by
      intro h
      apply hnc
      exact ⟨by omega, rfl⟩
    have hval := hQ e hkc ent hw k comp hp hplain hna hnchg
    have hno : ∀ m ∈ (runClient p (p.now + 1) x.2).2.mutEnts, ¬ (e = m.ent ∧ k ∈ m.comps.map (·.1)) := by
      rintro m hm ⟨hem, hkm⟩
      have hto := hmorig m hm hem.symm
      exact toMutate_named_path p ctx.hrates _ _ e ent mk m hto k hkm Rate.every comp hp hpath
    rw [mutFold_unnamed p.tick e k _ _ wf1 (by rw [ec1]; exact hplain) hndm hno]
    cases hu : (runClient p (p.now + 1) x.2).2.update with
    | none => exact hval
    | some u =>
      simp only
      have hok := frame_msg_ok p ctx.sinv ctx.hrm x ctx.hx ctx.hmap c ctx.hh u hu
      obtain ⟨s1, s2, _⟩ := runClient_sections p _ x.2 u hu
      rw [applyUpdate_vals_other c u ctx.wf hok.1 e k hplain (by rw [s1]; exact hnd) ?_ (changes_nodup p ctx.hrates x.2 u hu) ?_]
      · exact hval
      · rintro r hr ⟨her, hkr⟩
        rw [s2, List.mem_filter] at hr
        have hrb : (e, r.2) ∈ p.removalBuf := by rw [her]; exact hr.1
        exact removal_not_present p ctx.kinv e ent hw r.2 hrb k Rate.every comp hp hna hkr
      · rintro m hm ⟨hem, hkm⟩
        have hto := changes_of_entity p hn x.2 u hu e ent mk hw hmk m hm hem.symm
        exact toUpdate_named_path p ctx.hrates _ _ e ent mk m hto k hkm Rate.every comp hp hpath
  · rcases collect_named p (p.now + 1) (runCl1 p x.2) e ent mk hvis k Rate.every comp hp hpath with ⟨rec, hto, hk⟩ | ⟨rec, hto, hk⟩
    · -- named by the CHANGES record
      obtain ⟨u, hu, hrec⟩ := update_of_record p x.2 e ent mk hw hmk rec hto
      have hre := (collect_toUpdate p _ _ e ent mk rec hto).1
      have hno : ∀ m ∈ (runClient p (p.now + 1) x.2).2.mutEnts, ¬ (e = m.ent ∧ k ∈ m.comps.map (·.1)) := by
        rintro m hm ⟨hem, _⟩
        have h1 := hmorig m hm hem.symm
        rw [collect_toUpdate_excl p _ _ e ent mk rec hto] at h1
        cases h1
      rw [mutFold_unnamed p.tick e k _ _ wf1 (by rw [ec1]; exact hplain) hndm hno, hu]
      simp only
      obtain ⟨ent0, hw0, hv0⟩ := frame_update_record_values p ctx.sinv ctx.hrm ctx.hrates x ctx.hx ctx.hmap c ctx.wf ctx.hh u hu rec hrec
      rw [hre] at hw0 hv0
      have := world_unique p hn e ent ent0 hw hw0
      subst this
      obtain ⟨rt, comp', hp', hval⟩ := hv0 k hk hplain
      obtain ⟨_, rfl⟩ := entry_unique (present p ent) hpn k rt Rate.every comp' comp hp' hp
      exact hval
    · -- named by the mutate record
      obtain ⟨hnu, hnr⟩ := collect_toMutate_facts p _ _ e ent mk rec hto
      obtain ⟨hre, hndr, hvr⟩ := collect_toMutate_values p ctx.hrates _ _ e ent mk rec hto
      have hk1 : e ∈ keys (runCl1 p x.2) := by
        by_cases hk1 : e ∈ keys (runCl1 p x.2)
        · exact hk1
        · exfalso
          have hnone : aget (runCl1 p x.2).mutTick e = none := aget_none_of_not_mem _ _ hk1
          have hwhole := collect_unknown_whole p (p.now + 1) (runCl1 p x.2) e ent mk hvis hnone
          rw [hwhole] at hto
          cases hto
      obtain ⟨_, hkc, _, hnd⟩ := kept_visible p x.2 hcs e hk1
      have hrdy := hready e hkc
      have hv : aget rec.comps k = some comp.val := by
        rw [List.mem_map] at hk
        obtain ⟨⟨k', v⟩, hkv, rfl⟩ := hk
        obtain ⟨rt, comp', hp', rfl⟩ := hvr k' v hkv
        obtain ⟨_, rfl⟩ := entry_unique (present p ent) hpn k' rt Rate.every comp' comp hp' hp
        exact aget_of_mem_nodup rec.comps k' comp'.val hndr hkv
      have hall : ∀ m ∈ (runClient p (p.now + 1) x.2).2.mutEnts, m.ent = e → m = rec := by
        intro m hm hem
        have h1 := hmorig m hm hem
        rw [hto] at h1
        exact (Option.some.inj h1).symm
      have hin : rec ∈ (runClient p (p.now + 1) x.2).2.mutEnts :=
        (mem_mutEnts p _ x.2 rec).mpr ⟨e, ent, mk, hw, hmk, hto⟩
      apply mutFold_target p.tick e k comp.val rec hre hk hv _ _ wf1 (by rw [ec1]; exact hplain) hndm hall
      left
      refine ⟨hin, ?_⟩
      cases hu : (runClient p (p.now + 1) x.2).2.update with
      | none => exact hrdy
      | some u =>
        simp only
        have hok := frame_msg_ok p ctx.sinv ctx.hrm x ctx.hx ctx.hmap c ctx.hh u hu
        obtain ⟨s1, s2, _⟩ := runClient_sections p _ x.2 u hu
        obtain ⟨ce, cent, last, r1, r2, r3, r4⟩ := hrdy
        apply ready_untouched p.tick c _ e ?_ ⟨ce, cent, last, r1, r2, r3, r4⟩
        apply applyUpdate_untouched c u ctx.wf hok.1 e (by rw [r1]; rfl) (by rw [s1]; exact hnd)
        · intro r hr her
          rw [s2, List.mem_filter] at hr
          have hrb : (e, r.2) ∈ p.removalBuf := by rw [her]; exact hr.1
          have : (aget p.removalBuf e).isSome = true :=
            (aget_isSome_iff p.removalBuf e).mpr (List.mem_map_of_mem (f := (·.1)) hrb)
          rw [hnr] at this; cases this
        · intro m hm hem
          have h1 := changes_of_entity p hn x.2 u hu e ent mk hw hmk m hm hem.symm
          rw [hnu] at h1; cases h1

end Replicon.Srv
