import Replicon.Proofs.Kinds
/-
The component kinds a receiver has for every entity it holds, along a session: the ghost
`ghostKinds` replays the DESPAWNS / REMOVALS / CHANGES records of the session's update messages for
one entity; over all histories it is exactly the set of replicated kinds the server entity
carries after every replication run.
-/
set_option maxHeartbeats 400000
set_option linter.unusedSimpArgs false
namespace Replicon.Srv
open Replicon

/-- the kinds named by the message's REMOVALS records for entity `e` -/
def remKinds (u : Update) (e : Nat) : List Nat := (u.removals.filter fun r => r.1 = e).flatMap (·.2)
/-- the kinds of the message's CHANGES records for entity `e` -/
def chgKinds (u : Update) (e : Nat) : List Nat :=
  (u.changes.filter fun r => r.ent = e).flatMap fun r => r.comps.map (·.1)

/-- what the message does to the kinds a receiver has for entity `e`: a despawn forgets them, a
removal record removes its kinds, a change record adds its kinds (the order of the sections) -/
def stepKinds (S : List Nat) (u : Update) (e : Nat) : List Nat :=
  ((if u.despawns.contains e then [] else S).filter fun k => !(remKinds u e).contains k) ++ chgKinds u e

def ghostKinds (l : List Update) (e : Nat) : List Nat := l.foldl (fun S u => stepKinds S u e) []

theorem mem_stepKinds (S : List Nat) (u : Update) (e k : Nat) :
    k ∈ stepKinds S u e ↔ ((e ∉ u.despawns ∧ k ∈ S) ∧ k ∉ remKinds u e) ∨ k ∈ chgKinds u e := by
  unfold stepKinds
  rw [List.mem_append, List.mem_filter]
  simp only [Bool.not_eq_true', List.contains_eq_mem, decide_eq_false_iff_not]
  by_cases hd : e ∈ u.despawns
  · simp [hd]
  · simp [hd]

theorem ghostKinds_append (l : List Update) (u : Update) (e : Nat) :
    ghostKinds (l ++ [u]) e = stepKinds (ghostKinds l e) u e := by
  unfold ghostKinds
  rw [List.foldl_append]
  rfl

theorem mem_remKinds (u : Update) (e k : Nat) :
    k ∈ remKinds u e ↔ ∃ ks, (e, ks) ∈ u.removals ∧ k ∈ ks := by
  unfold remKinds
  rw [List.mem_flatMap]
  constructor
  · rintro ⟨r, hr, hk⟩
    rw [List.mem_filter] at hr
    have : r.1 = e := by simpa using hr.2
    exact ⟨r.2, by rw [← this]; exact hr.1, hk⟩
  · rintro ⟨ks, hm, hk⟩
    exact ⟨(e, ks), List.mem_filter.mpr ⟨hm, by simp⟩, hk⟩

theorem mem_chgKinds (u : Update) (e k : Nat) :
    k ∈ chgKinds u e ↔ ∃ r, r ∈ u.changes ∧ r.ent = e ∧ k ∈ r.comps.map (·.1) := by
  unfold chgKinds
  rw [List.mem_flatMap]
  constructor
  · rintro ⟨r, hr, hk⟩
    rw [List.mem_filter] at hr
    exact ⟨r, hr.1, by simpa using hr.2, hk⟩
  · rintro ⟨r, hm, he, hk⟩
    exact ⟨r, List.mem_filter.mpr ⟨hm, by simp [he]⟩, hk⟩

/-- the sections of a run's update message -/
theorem runClient_sections (s : Server) (thisRun : Nat) (cl : Cli) (u : Update)
    (hu : (runClient s thisRun cl).2.update = some u) :
    u.despawns = runDespawns s cl ∧
    u.removals = (s.removalBuf.filter fun (x : Nat × List Nat) => Vis.isVisible s.white (cell (runCl1 s cl) x.1)) ∧
    u.changes = (entityOuts s thisRun (runCl1 s cl)).filterMap fun x => x.2.toUpdate := by
  unfold runClient at hu
  simp only at hu
  split at hu
  · cases hu
  · simp only [Option.some.injEq] at hu
    rw [← hu]
    exact ⟨rfl, rfl, rfl⟩

/-- without an update message the sections are empty -/
theorem runClient_no_update (s : Server) (thisRun : Nat) (cl : Cli)
    (hu : (runClient s thisRun cl).2.update = none) :
    runDespawns s cl = [] ∧
    (s.removalBuf.filter fun (x : Nat × List Nat) => Vis.isVisible s.white (cell (runCl1 s cl) x.1)) = [] ∧
    ((entityOuts s thisRun (runCl1 s cl)).filterMap fun x => x.2.toUpdate) = [] := by
  unfold runClient at hu
  simp only at hu
  split at hu
  · rename_i hemp
    unfold Update.isEmpty at hemp
    simp only [Bool.and_eq_true, List.isEmpty_iff] at hemp
    obtain ⟨⟨⟨_, h2⟩, h3⟩, h4⟩ := hemp
    exact ⟨h2, h3, h4⟩
  · cases hu

theorem mem_remKinds_run (s : Server) (thisRun : Nat) (cl : Cli) (u : Update)
    (hu : (runClient s thisRun cl).2.update = some u) (hn : (s.removalBuf.map (·.1)).Nodup) (e k : Nat) :
    k ∈ remKinds u e ↔
      Vis.isVisible s.white (cell (runCl1 s cl) e) = true ∧ k ∈ (aget s.removalBuf e).getD [] := by
  rw [mem_remKinds, (runClient_sections s thisRun cl u hu).2.1]
  constructor
  · rintro ⟨ks, hm, hk⟩
    rw [List.mem_filter] at hm
    have := aget_of_mem_nodup s.removalBuf e ks hn hm.1
    rw [this]
    exact ⟨hm.2, hk⟩
  · rintro ⟨hv, hk⟩
    cases hg : aget s.removalBuf e with
    | none => rw [hg] at hk; cases hk
    | some ks =>
      rw [hg] at hk
      exact ⟨ks, List.mem_filter.mpr ⟨mem_of_aget _ _ _ hg, hv⟩, hk⟩

theorem mem_chgKinds_run (s : Server) (thisRun : Nat) (cl : Cli) (u : Update)
    (hu : (runClient s thisRun cl).2.update = some u) (e k : Nat) :
    k ∈ chgKinds u e ↔ ∃ ent m, (e, ent) ∈ s.world ∧ ent.marker = some m ∧
      k ∈ recordKinds (collectEntity s thisRun (runCl1 s cl) e ent m) := by
  rw [mem_chgKinds, (runClient_sections s thisRun cl u hu).2.2]
  constructor
  · rintro ⟨r, hm, he, hk⟩
    rw [List.mem_filterMap] at hm
    obtain ⟨⟨e', o⟩, ho, hr⟩ := hm
    obtain ⟨ent, m, h1, h2, rfl⟩ := (mem_entityOuts s thisRun _ e' o).mp ho
    simp only at hr
    have := (collect_toUpdate s thisRun _ e' ent m r hr).1
    rw [he] at this
    subst this
    refine ⟨ent, m, h1, h2, ?_⟩
    unfold recordKinds
    rw [hr]; exact hk
  · rintro ⟨ent, m, h1, h2, hk⟩
    unfold recordKinds at hk
    cases hr : (collectEntity s thisRun (runCl1 s cl) e ent m).toUpdate with
    | none => rw [hr] at hk; cases hk
    | some r =>
      rw [hr] at hk
      refine ⟨r, ?_, (collect_toUpdate s thisRun _ e ent m r hr).1, hk⟩
      rw [List.mem_filterMap]
      exact ⟨(e, collectEntity s thisRun (runCl1 s cl) e ent m), (mem_entityOuts s thisRun _ e _).mpr ⟨ent, m, h1, h2, rfl⟩, hr⟩

end Replicon.Srv

namespace Replicon.Srv
open Replicon

/-- ghost invariant for one client; `G e` are the kinds the receiver has for entity `e` -/
structure CK (s : Server) (cl : Cli) (G : Nat → List Nat) : Prop where
  none : ∀ e, e ∉ keys cl → G e = []
  rate : ∀ e k, k ∈ G e → s.rates.any (·.1 = k) = true
  kept : ∀ e, e ∈ keys cl → e ∉ s.despawnBuf → ∀ ent, (e, ent) ∈ s.world →
    (∃ m, ent.marker = some m ∧ ¬ m > s.lastRun) ∧
    (∀ k, k ∈ G e → k ∉ presentKinds s ent → pendK s e k) ∧
    (∀ k r c, (k, r, c) ∈ present s ent → k ∉ G e → c.added > s.lastRun)

theorem collect_toUpdate_comps (s : Server) (thisRun : Nat) (cl : Cli) (e : Nat) (ent : SEnt) (m : Nat) (r : MsgEnt)
    (h : (collectEntity s thisRun cl e ent m).toUpdate = some r) (k : Nat) (hk : k ∈ r.comps.map (·.1)) :
    k ∈ presentKinds s ent := by
  unfold collectEntity at h
  simp only at h
  split at h
  · cases h
  · split at h
    · split at h
      · cases h
      · simp only [Option.some.injEq] at h
        rw [← h] at hk
        simp only [List.map_append, List.mem_append, List.mem_map] at hk
        rcases hk with ⟨x, hx, rfl⟩ | ⟨x, hx, rfl⟩
        · rw [List.mem_filterMap] at hx
          obtain ⟨⟨k', r', c⟩, hp, hh⟩ := hx
          simp only at hh
          split at hh
          · simp only [Option.some.injEq] at hh
            rw [← hh]
            exact (mem_presentKinds s ent _).mpr ⟨r', c, hp⟩
          · cases hh
        · rw [List.mem_filterMap] at hx
          obtain ⟨⟨k', r', c⟩, hp, hh⟩ := hx
          simp only at hh
          split at hh
          · simp only [Option.some.injEq] at hh
            rw [← hh]
            exact (mem_presentKinds s ent _).mpr ⟨r', c, hp⟩
          · cases hh
    · split at h <;> cases h

theorem recordKinds_sub_present (s : Server) (thisRun : Nat) (cl : Cli) (e : Nat) (ent : SEnt) (m k : Nat)
    (h : k ∈ recordKinds (collectEntity s thisRun cl e ent m)) : k ∈ presentKinds s ent := by
  unfold recordKinds at h
  cases hr : (collectEntity s thisRun cl e ent m).toUpdate with
  | none => rw [hr] at h; cases h
  | some r => rw [hr] at h; exact collect_toUpdate_comps s thisRun cl e ent m r hr k h

theorem presentKinds_rate (s : Server) (ent : SEnt) (k : Nat) (h : k ∈ presentKinds s ent) :
    s.rates.any (·.1 = k) = true := by
  obtain ⟨r, c, hp⟩ := (mem_presentKinds s ent k).mp h
  have := ((mem_present s ent k r c).mp hp).1
  rw [List.any_eq_true]
  exact ⟨(k, r), this, by simp⟩

theorem inv_desired_held_visible (w : Bool) (c : Vis.Cell) (g : Vis.Ghost) (h : Vis.Inv w c g = true)
    (hd : g.desired = true) (hh : g.held = true) :
    (if w then Vis.stateW (Vis.drainLost w c) else Vis.stateB (Vis.drainLost w c)) = Vis.State.visible := by
  revert h hd hh
  rcases c with ⟨i, a, r⟩
  rcases g with ⟨d, hd'⟩
  cases w <;> cases i <;> cases a <;> cases r <;> cases d <;> cases hd' <;> decide

theorem exists_aget_of_mem_keys (cl : Cli) (e : Nat) (h : e ∈ keys cl) : ∃ t, aget cl.mutTick e = some t := by
  have := (aget_isSome_iff cl.mutTick e).mpr h
  cases hg : aget cl.mutTick e with
  | none => rw [hg] at this; cases this
  | some t => exact ⟨t, rfl⟩

/-- an entity the server stops tracking in `collect_despawns` is in DESPAWNS -/
theorem dropped_despawned (s : Server) (cl : Cli) (inv : CliSync s.white s.world s.despawnBuf cl) (e : Nat)
    (hk : e ∈ keys cl) (hn : e ∉ keys (runCl1 s cl)) : e ∈ runDespawns s cl := by
  obtain ⟨hnd, hcells⟩ := inv
  obtain ⟨_, _, k1, _, d2⟩ := runCl1_spec s cl hnd
  obtain ⟨g, hinv, hkg⟩ := hcells e
  obtain ⟨hh, _⟩ := hkg hk
  apply d2 e
  by_cases hd : e ∈ s.despawnBuf
  · rcases inv_held_despawn_sent s.white _ g hinv hh with h | h
    · exact Or.inl ⟨hd, h⟩
    · right; unfold cellMid; simp only [hd, if_true]; exact h
  · right
    cases hl : Vis.lost s.white (cellMid s cl e) with
    | true => rfl
    | false => exact absurd ((k1 e).mpr ⟨hk, hd, hl⟩) hn

/-- a kept entity is plainly visible after `collect_despawns` -/
theorem kept_visible (s : Server) (cl : Cli) (inv : CliSync s.white s.world s.despawnBuf cl) (e : Nat)
    (hk : e ∈ keys (runCl1 s cl)) :
    visState s (runCl1 s cl) e = .visible ∧ e ∈ keys cl ∧ e ∉ s.despawnBuf ∧ e ∉ runDespawns s cl := by
  obtain ⟨hnd, hcells⟩ := inv
  obtain ⟨_, c1, k1, d1, _⟩ := runCl1_spec s cl hnd
  obtain ⟨hkc, hnd', hnl⟩ := (k1 e).mp hk
  obtain ⟨g, hinv, hkg⟩ := hcells e
  obtain ⟨hh, _⟩ := hkg hkc
  have hmid : cellMid s cl e = cell cl e := by unfold cellMid; simp only [hnd', if_false]
  rw [hmid] at hnl
  have hd := inv_held_notlost_desired s.white _ g hinv hh hnl
  refine ⟨?_, hkc, hnd', ?_⟩
  · unfold visState
    rw [c1 e, hmid]
    have := inv_desired_held_visible s.white (cell cl e) g hinv hd hh
    cases hw : s.white with
    | false => rw [hw] at this; simpa using this
    | true => rw [hw] at this; simpa using this
  · intro hdes
    rcases d1 e hdes with h | h
    · exact hnd' h
    · rw [hmid, hnl] at h; cases h

end Replicon.Srv

namespace Replicon.Srv
open Replicon

theorem world_unique (s : Server) (hn : (s.world.map (·.1)).Nodup) (e : Nat) (a b : SEnt)
    (ha : (e, a) ∈ s.world) (hb : (e, b) ∈ s.world) : a = b := by
  have h1 := aget_of_mem_nodup s.world e a hn ha
  have h2 := aget_of_mem_nodup s.world e b hn hb
  rw [h1] at h2
  exact Option.some.inj h2

/-- a kept entity: the closed form of `run_kinds_known` from the invariants -/
theorem kept_kinds (p : Server) (cl : Cli) (G : Nat → List Nat) (sinv : CliSync p.white p.world p.despawnBuf cl)
    (kinv : KindInv p) (hp1 : p.pendingRem = []) (hp2 : p.pendingRemOld = []) (ck : CK p cl G)
    (e : Nat) (hk : e ∈ keys (runCl1 p cl)) (ent : SEnt) (hw : (e, ent) ∈ p.world) (thisRun : Nat) :
    ∃ m, ent.marker = some m ∧
      ∀ k, k ∈ ((G e).filter fun k => !((aget p.removalBuf e).getD []).contains k) ++
            recordKinds (collectEntity p thisRun (runCl1 p cl) e ent m) ↔ k ∈ presentKinds p ent := by
  obtain ⟨hvis, hkc, hnd, _⟩ := kept_visible p cl sinv e hk
  obtain ⟨t, ht⟩ := exists_aget_of_mem_keys (runCl1 p cl) e hk
  obtain ⟨⟨m, hm, hold⟩, ha, hb⟩ := ck.kept e hkc hnd ent hw
  refine ⟨m, hm, ?_⟩
  apply run_kinds_known p thisRun (runCl1 p cl) e ent m t (G e) hvis ht hold
  · intro k hkG hkP
    rcases ha k hkG hkP with h | h | h
    · rw [hp1] at h; cases h
    · rw [hp2] at h; cases h
    · exact h
  · exact hb
  · intro k r c hrm hpr
    exact kinv.remFresh e ent k c hw (Or.inr (Or.inr hrm)) ((mem_present p ent k r c).mp hpr).2

/-- a newly tracked entity: its record names exactly the kinds it carries -/
theorem new_kinds (p : Server) (cl : Cli) (thisRun : Nat) (e : Nat)
    (hk : e ∉ keys (runCl1 p cl)) (hb : e ∈ runBumped p thisRun cl) (hn : (p.world.map (·.1)).Nodup)
    (ent : SEnt) (hw : (e, ent) ∈ p.world) :
    ∃ m, ent.marker = some m ∧ recordKinds (collectEntity p thisRun (runCl1 p cl) e ent m) = presentKinds p ent ∧
      (collectEntity p thisRun (runCl1 p cl) e ent m).toUpdate.isSome = true := by
  obtain ⟨ent', m, h1, h2, h3⟩ := (mem_runBumped p thisRun cl e).mp hb
  have := world_unique p hn e ent ent' hw h1
  subst this
  have hvs := collect_bump_visible p thisRun _ e ent m h3
  have hnone : aget (runCl1 p cl).mutTick e = none := aget_none_of_not_mem _ _ hk
  refine ⟨m, h2, run_kinds_new p thisRun (runCl1 p cl) e ent m hvs hnone, ?_⟩
  rw [collect_unknown_whole p thisRun (runCl1 p cl) e ent m hvs hnone]
  rfl

end Replicon.Srv

namespace Replicon.Srv
open Replicon

/-- **A frame with an update message**: the ghost after the message is empty for untracked
entities, names only replicated kinds, and for every tracked entity it is exactly the set of
replicated kinds the entity carries. -/
theorem ran_kinds_some (p : Server) (parts : Nat → List (List Nat)) (sinv : SyncInv p) (kinv : KindInv p)
    (hp1 : p.pendingRem = []) (hp2 : p.pendingRemOld = [])
    (x : Nat × Cli) (hx : x ∈ p.clients) (ha : x.2.authorized = true) (G : Nat → List Nat) (ck : CK p x.2 G)
    (u : Update) (hu : (runClient p (p.now + 1) x.2).2.update = some u) :
    (∀ e, e ∉ keys (ranClient p parts x).2 → stepKinds (G e) u e = []) ∧
    (∀ e k, k ∈ stepKinds (G e) u e → p.rates.any (·.1 = k) = true) ∧
    (∀ e, e ∈ keys (ranClient p parts x).2 → ∀ ent, (e, ent) ∈ p.world →
      ∀ k, k ∈ stepKinds (G e) u e ↔ k ∈ presentKinds p ent) := by
  have hrc : (ranClient p parts x).2 = afterRun p (p.now + 1) p.elapsed (parts x.1) x.2 := by
    unfold ranClient; simp only [ha, if_true]
  rw [hrc]
  have csync := sinv.sync x hx
  have hdes : u.despawns = runDespawns p x.2 := (runClient_sections p _ x.2 u hu).1
  refine ⟨?_, ?_, ?_⟩
  · intro e hne
    rw [afterRun_keys] at hne
    have hn1 : e ∉ keys (runCl1 p x.2) := fun h => hne (Or.inl h)
    have hnb : e ∉ runBumped p (p.now + 1) x.2 := fun h => hne (Or.inr h)
    apply List.eq_nil_iff_forall_not_mem.mpr
    intro k hk
    rcases (mem_stepKinds _ _ _ _).mp hk with ⟨⟨hnd, hkG⟩, _⟩ | hc
    · by_cases hkc : e ∈ keys x.2
      · exact hnd (by rw [hdes]; exact dropped_despawned p x.2 csync e hkc hn1)
      · rw [ck.none e hkc] at hkG; cases hkG
    · obtain ⟨ent, m, h1, h2, h3⟩ := (mem_chgKinds_run p _ x.2 u hu e k).mp hc
      unfold recordKinds at h3
      cases hr : (collectEntity p (p.now + 1) (runCl1 p x.2) e ent m).toUpdate with
      | none => rw [hr] at h3; cases h3
      | some r =>
        exact hnb ((mem_runBumped p _ x.2 e).mpr ⟨ent, m, h1, h2, (collect_toUpdate p _ _ e ent m r hr).2⟩)
  · intro e k hk
    rcases (mem_stepKinds _ _ _ _).mp hk with ⟨⟨_, hkG⟩, _⟩ | hc
    · exact ck.rate e k hkG
    · obtain ⟨ent, m, _, _, h3⟩ := (mem_chgKinds_run p _ x.2 u hu e k).mp hc
      exact presentKinds_rate p ent k (recordKinds_sub_present p _ _ e ent m k h3)
  · intro e hke ent hw k
    rw [afterRun_keys] at hke
    by_cases hk1 : e ∈ keys (runCl1 p x.2)
    · -- kept
      obtain ⟨hvis, _, _, hnd⟩ := kept_visible p x.2 csync e hk1
      obtain ⟨m, hm, hiff⟩ := kept_kinds p x.2 G csync kinv hp1 hp2 ck e hk1 ent hw (p.now + 1)
      have hv : Vis.isVisible p.white (cell (runCl1 p x.2) e) = true :=
        (visState_ne_hidden_iff p _ e).mp (by rw [hvis]; intro h; cases h)
      rw [← hiff k, mem_stepKinds, List.mem_append, List.mem_filter]
      simp only [Bool.not_eq_true', List.contains_eq_mem, decide_eq_false_iff_not]
      rw [mem_remKinds_run p _ x.2 u hu kinv.remNodup e k, mem_chgKinds_run p _ x.2 u hu e k]
      constructor
      · rintro (⟨⟨_, h1⟩, h2⟩ | ⟨ent', m', w1, w2, w3⟩)
        · exact Or.inl ⟨h1, fun h => h2 ⟨hv, h⟩⟩
        · have := world_unique p sinv.worldNodup e ent ent' hw w1
          subst this
          rw [hm] at w2
          simp only [Option.some.injEq] at w2
          subst w2
          exact Or.inr w3
      · rintro (⟨h1, h2⟩ | h)
        · exact Or.inl ⟨⟨by rw [hdes]; exact hnd, h1⟩, fun h => h2 h.2⟩
        · exact Or.inr ⟨ent, m, hw, hm, h⟩
    · -- newly tracked
      have hb : e ∈ runBumped p (p.now + 1) x.2 := by
        rcases hke with h | h
        · exact absurd h hk1
        · exact h
      obtain ⟨m, hm, hrec, _⟩ := new_kinds p x.2 (p.now + 1) e hk1 hb sinv.worldNodup ent hw
      rw [← hrec, mem_stepKinds, mem_chgKinds_run p _ x.2 u hu e k]
      constructor
      · rintro (⟨⟨hnd, hkG⟩, _⟩ | ⟨ent', m', w1, w2, w3⟩)
        · by_cases hkc : e ∈ keys x.2
          · exact absurd (by rw [hdes]; exact dropped_despawned p x.2 csync e hkc hk1) hnd
          · rw [ck.none e hkc] at hkG; cases hkG
        · have := world_unique p sinv.worldNodup e ent ent' hw w1
          subst this
          rw [hm] at w2
          simp only [Option.some.injEq] at w2
          subst w2
          exact w3
      · intro h
        exact Or.inr ⟨ent, m, hw, hm, h⟩

end Replicon.Srv

namespace Replicon.Srv
open Replicon

/-- **A frame without an update message**: nothing changes for the receiver, and that is right -/
theorem ran_kinds_none (p : Server) (parts : Nat → List (List Nat)) (sinv : SyncInv p) (kinv : KindInv p)
    (hp1 : p.pendingRem = []) (hp2 : p.pendingRemOld = [])
    (x : Nat × Cli) (hx : x ∈ p.clients) (ha : x.2.authorized = true) (G : Nat → List Nat) (ck : CK p x.2 G)
    (hu : (runClient p (p.now + 1) x.2).2.update = none) :
    (∀ e, e ∉ keys (ranClient p parts x).2 → G e = []) ∧
    (∀ e, e ∈ keys (ranClient p parts x).2 → ∀ ent, (e, ent) ∈ p.world →
      ∀ k, k ∈ G e ↔ k ∈ presentKinds p ent) := by
  have hkeys := (frame_diff p parts sinv x hx ha).2 hu
  have hrc : (ranClient p parts x).2 = afterRun p (p.now + 1) p.elapsed (parts x.1) x.2 := by
    unfold ranClient; simp only [ha, if_true]
  have csync := sinv.sync x hx
  obtain ⟨n1, n2, n3⟩ := runClient_no_update p (p.now + 1) x.2 hu
  refine ⟨?_, ?_⟩
  · intro e hne
    exact ck.none e (fun h => hne ((hkeys e).mpr h))
  · intro e hke ent hw k
    have hke' := hke
    rw [hrc, afterRun_keys] at hke'
    have hk1 : e ∈ keys (runCl1 p x.2) := by
      rcases hke' with h | h
      · exact h
      · by_cases hk1 : e ∈ keys (runCl1 p x.2)
        · exact hk1
        · obtain ⟨m, hm, _, hsome⟩ := new_kinds p x.2 (p.now + 1) e hk1 h sinv.worldNodup ent hw
          exfalso
          cases hr : (collectEntity p (p.now + 1) (runCl1 p x.2) e ent m).toUpdate with
          | none => rw [hr] at hsome; cases hsome
          | some r =>
            have : r ∈ (entityOuts p (p.now + 1) (runCl1 p x.2)).filterMap fun x => x.2.toUpdate := by
              rw [List.mem_filterMap]
              exact ⟨(e, _), (mem_entityOuts p _ _ e _).mpr ⟨ent, m, hw, hm, rfl⟩, hr⟩
            rw [n3] at this; cases this
    obtain ⟨hvis, _, _, _⟩ := kept_visible p x.2 csync e hk1
    obtain ⟨m, hm, hiff⟩ := kept_kinds p x.2 G csync kinv hp1 hp2 ck e hk1 ent hw (p.now + 1)
    have hv : Vis.isVisible p.white (cell (runCl1 p x.2) e) = true :=
      (visState_ne_hidden_iff p _ e).mp (by rw [hvis]; intro h; cases h)
    have hrem : (aget p.removalBuf e).getD [] = [] := by
      cases hg : aget p.removalBuf e with
      | none => rfl
      | some ks =>
        exfalso
        have : (e, ks) ∈ p.removalBuf.filter fun (y : Nat × List Nat) => Vis.isVisible p.white (cell (runCl1 p x.2) y.1) :=
          List.mem_filter.mpr ⟨mem_of_aget _ _ _ hg, hv⟩
        rw [n2] at this; cases this
    have hrec : recordKinds (collectEntity p (p.now + 1) (runCl1 p x.2) e ent m) = [] := by
      unfold recordKinds
      cases hr : (collectEntity p (p.now + 1) (runCl1 p x.2) e ent m).toUpdate with
      | none => rfl
      | some r =>
        exfalso
        have : r ∈ (entityOuts p (p.now + 1) (runCl1 p x.2)).filterMap fun x => x.2.toUpdate := by
          rw [List.mem_filterMap]
          exact ⟨(e, _), (mem_entityOuts p _ _ e _).mpr ⟨ent, m, hw, hm, rfl⟩, hr⟩
        rw [n3] at this; cases this
    rw [← hiff k, hrem, hrec]
    simp

end Replicon.Srv

namespace Replicon.Srv
open Replicon

theorem present_congr (s s' : Server) (h : s'.rates = s.rates) (ent : SEnt) : present s' ent = present s ent := by
  unfold present; rw [h]

theorem presentKinds_congr (s s' : Server) (h : s'.rates = s.rates) (ent : SEnt) :
    presentKinds s' ent = presentKinds s ent := by
  unfold presentKinds; rw [present_congr s s' h]

/-- world operations that replace the record of entity `e0` -/
theorem ck_aset (s s' : Server) (cl : Cli) (G : Nat → List Nat) (ck : CK s cl G) (e0 : Nat) (ent ent' : SEnt)
    (hg : aget s.world e0 = some ent)
    (h1 : s'.lastRun = s.lastRun) (hr : s'.rates = s.rates) (h3 : s'.world = aset s.world e0 ent')
    (hd : ∀ j, j ∈ s.despawnBuf → j ∈ s'.despawnBuf)
    (hpk : ∀ e k, e ∉ s'.despawnBuf → pendK s e k → pendK s' e k)
    (he0 : e0 ∈ keys cl → e0 ∉ s'.despawnBuf →
      ent'.marker = ent.marker ∧
      (∀ k, k ∉ presentKinds s ent' → k ∈ presentKinds s ent → pendK s' e0 k) ∧
      (∀ k r c', (k, r, c') ∈ present s ent' →
        (∃ c, (k, r, c) ∈ present s ent ∧ c.added = c'.added) ∨ c'.added > s.lastRun)) :
    CK s' cl G := by
  refine ⟨ck.none, fun e k h => by rw [hr]; exact ck.rate e k h, ?_⟩
  intro e hk hnd x hx
  rw [h3] at hx
  rw [h1, presentKinds_congr s s' hr, present_congr s s' hr]
  have hnd0 : e ∉ s.despawnBuf := fun h => hnd (hd e h)
  rcases (mem_aset _ _ _ _).mp hx with h | ⟨h, hne⟩
  · simp only [Prod.mk.injEq] at h
    obtain ⟨rfl, rfl⟩ := h
    obtain ⟨hm, ha', hb'⟩ := he0 hk hnd
    obtain ⟨⟨m, hmm, hold⟩, ha, hb⟩ := ck.kept e hk hnd0 ent (mem_of_aget _ _ _ hg)
    refine ⟨⟨m, by rw [hm]; exact hmm, hold⟩, ?_, ?_⟩
    · intro k hkG hkP
      by_cases hP : k ∈ presentKinds s ent
      · exact ha' k hkP hP
      · exact hpk e k hnd (ha k hkG hP)
    · intro k r c' hp hkG
      rcases hb' k r c' hp with ⟨c, hpc, hadd⟩ | h
      · rw [← hadd]; exact hb k r c hpc hkG
      · exact h
  · obtain ⟨hm, ha, hb⟩ := ck.kept e hk hnd0 x h
    exact ⟨hm, fun k hkG hkP => hpk e k hnd (ha k hkG hkP), hb⟩

/-- world operations that leave every record of a tracked, not despawn-buffered entity alone -/
theorem ck_same (s s' : Server) (cl : Cli) (G : Nat → List Nat) (ck : CK s cl G)
    (h1 : s'.lastRun = s.lastRun) (hr : s'.rates = s.rates)
    (hw : ∀ e x, e ∈ keys cl → e ∉ s'.despawnBuf → (e, x) ∈ s'.world → (e, x) ∈ s.world)
    (hd : ∀ j, j ∈ s.despawnBuf → j ∈ s'.despawnBuf)
    (hpk : ∀ e k, e ∉ s'.despawnBuf → pendK s e k → pendK s' e k) : CK s' cl G := by
  refine ⟨ck.none, fun e k h => by rw [hr]; exact ck.rate e k h, ?_⟩
  intro e hk hnd x hx
  rw [h1, presentKinds_congr s s' hr, present_congr s s' hr]
  have hnd0 : e ∉ s.despawnBuf := fun h => hnd (hd e h)
  obtain ⟨hm, ha, hb⟩ := ck.kept e hk hnd0 x (hw e x hk hnd hx)
  exact ⟨hm, fun k hkG hkP => hpk e k hnd (ha k hkG hkP), hb⟩

theorem ck_nokeys (s s' : Server) (cl : Cli) (G : Nat → List Nat) (ck : CK s cl G) (hk : cl.mutTick = [])
    (hr : s'.rates = s.rates) : CK s' cl G := by
  refine ⟨ck.none, fun e k h => by rw [hr]; exact ck.rate e k h, ?_⟩
  intro e he
  unfold keys at he
  rw [hk] at he
  cases he

end Replicon.Srv

namespace Replicon.Srv
open Replicon

theorem insert_ck (s : Server) (e k v : Nat) (kinv : KindInv s) (cl : Cli) (G : Nat → List Nat) (ck : CK s cl G) :
    CK (s.insert e k v) cl G := by
  unfold Server.insert
  cases hg : aget s.world e with
  | none => exact ck
  | some ent =>
    simp only
    refine ck_aset s _ cl G ck e ent
      { ent with comps := aset ent.comps k (match aget ent.comps k with
          | some old => { old with val := v, changed := s.now }
          | none => { val := v, added := s.now, changed := s.now }) } hg rfl rfl rfl (fun _ h => h) (fun _ _ _ h => h) ?_
    intro _ _
    refine ⟨rfl, ?_, ?_⟩
    · intro k' hn hp
      exfalso
      apply hn
      obtain ⟨r, c, hpr⟩ := (mem_presentKinds s ent k').mp hp
      obtain ⟨hr, hc⟩ := (mem_present s ent k' r c).mp hpr
      by_cases hk : k' = k
      · subst hk
        exact (mem_presentKinds s _ k').mpr ⟨r, _, (mem_present s _ k' r _).mpr ⟨hr, by
          show aget (aset ent.comps k' _) k' = some _
          rw [Cli.aget_aset]; simp only [if_true]; rfl⟩⟩
      · exact (mem_presentKinds s _ k').mpr ⟨r, c, (mem_present s _ k' r c).mpr ⟨hr, by
          show aget (aset ent.comps k _) k' = some c
          rw [Cli.aget_aset]; simp only [hk, if_false]; exact hc⟩⟩
    · intro k' r c' hp
      obtain ⟨hr, hc⟩ := (mem_present s _ k' r c').mp hp
      have hc' : aget (aset ent.comps k (match aget ent.comps k with
          | some old => { old with val := v, changed := s.now }
          | none => { val := v, added := s.now, changed := s.now })) k' = some c' := hc
      rw [Cli.aget_aset] at hc'
      split at hc'
      · rename_i he
        simp only [Option.some.injEq] at hc'
        rw [← hc', he]
        cases hold : aget ent.comps k with
        | none => right; exact kinv.tlt
        | some old => left; exact ⟨old, (mem_present s ent k r old).mpr ⟨by rw [← he]; exact hr, hold⟩, rfl⟩
      · exact Or.inl ⟨c', (mem_present s ent k' r c').mpr ⟨hr, hc'⟩, rfl⟩

theorem mutate_ck (s : Server) (e k v : Nat) (cl : Cli) (G : Nat → List Nat) (ck : CK s cl G) :
    CK (s.mutate e k v) cl G := by
  unfold Server.mutate
  cases hg : aget s.world e with
  | none => exact ck
  | some ent =>
    simp only
    cases hold : aget ent.comps k with
    | none => exact ck
    | some old =>
      simp only
      refine ck_aset s _ cl G ck e ent { ent with comps := aset ent.comps k { old with val := v, changed := s.now } }
        hg rfl rfl rfl (fun _ h => h) (fun _ _ _ h => h) ?_
      intro _ _
      refine ⟨rfl, ?_, ?_⟩
      · intro k' hn hp
        exfalso
        apply hn
        obtain ⟨r, c, hpr⟩ := (mem_presentKinds s ent k').mp hp
        obtain ⟨hr, hc⟩ := (mem_present s ent k' r c).mp hpr
        by_cases hk : k' = k
        · subst hk
          exact (mem_presentKinds s _ k').mpr ⟨r, _, (mem_present s _ k' r _).mpr ⟨hr, by
            show aget (aset ent.comps k' _) k' = some _
            rw [Cli.aget_aset]; simp only [if_true]; rfl⟩⟩
        · exact (mem_presentKinds s _ k').mpr ⟨r, c, (mem_present s _ k' r c).mpr ⟨hr, by
            show aget (aset ent.comps k _) k' = some c
            rw [Cli.aget_aset]; simp only [hk, if_false]; exact hc⟩⟩
      · intro k' r c' hp
        obtain ⟨hr, hc⟩ := (mem_present s _ k' r c').mp hp
        have hc' : aget (aset ent.comps k { old with val := v, changed := s.now }) k' = some c' := hc
        rw [Cli.aget_aset] at hc'
        split at hc'
        · rename_i he
          simp only [Option.some.injEq] at hc'
          rw [← hc', he]
          exact Or.inl ⟨old, (mem_present s ent k r old).mpr ⟨by rw [← he]; exact hr, hold⟩, rfl⟩
        · exact Or.inl ⟨c', (mem_present s ent k' r c').mpr ⟨hr, hc'⟩, rfl⟩

theorem remove_ck (s : Server) (e k : Nat) (cl : Cli) (G : Nat → List Nat) (ck : CK s cl G) :
    CK (s.remove e k) cl G := by
  unfold Server.remove
  cases hg : aget s.world e with
  | none => exact ck
  | some ent =>
    simp only
    split
    · exact ck
    · have hpk : ∀ e' k', pendK s e' k' →
          pendK { s with world := aset s.world e { ent with comps := adel ent.comps k },
                         pendingRem := s.pendingRem ++ [(e, k)] } e' k' := by
        intro e' k' h
        rcases h with h | h | h
        · exact Or.inl (List.mem_append_left _ h)
        · exact Or.inr (Or.inl h)
        · exact Or.inr (Or.inr h)
      refine ck_aset s _ cl G ck e ent { ent with comps := adel ent.comps k }
        hg rfl rfl rfl (fun _ h => h) (fun e' k' _ h => hpk e' k' h) ?_
      intro _ _
      refine ⟨rfl, ?_, ?_⟩
      · intro k' hn hp
        by_cases hk : k' = k
        · rw [hk]
          exact Or.inl (List.mem_append_right _ (List.mem_singleton.mpr rfl))
        · exfalso
          apply hn
          obtain ⟨r, c, hpr⟩ := (mem_presentKinds s ent k').mp hp
          obtain ⟨hr, hc⟩ := (mem_present s ent k' r c).mp hpr
          exact (mem_presentKinds s _ k').mpr ⟨r, c, (mem_present s _ k' r c).mpr ⟨hr, by
            show aget (adel ent.comps k) k' = some c
            rw [Cli.aget_adel]; simp only [hk, if_false]; exact hc⟩⟩
      · intro k' r c' hp
        obtain ⟨hr, hc⟩ := (mem_present s _ k' r c').mp hp
        have hc' : aget (adel ent.comps k) k' = some c' := hc
        rw [Cli.aget_adel] at hc'
        split at hc'
        · cases hc'
        · exact Or.inl ⟨c', (mem_present s ent k' r c').mpr ⟨hr, hc'⟩, rfl⟩

end Replicon.Srv

namespace Replicon.Srv
open Replicon

theorem leave_pendK (s : Server) (e0 : Nat) (e k : Nat) (hne : e ∉ (s.leaveReplication e0).despawnBuf)
    (h : pendK s e k) : pendK (s.leaveReplication e0) e k := by
  obtain ⟨_, _, _, l4, l5, _, _⟩ := leave_kindfields s e0
  obtain ⟨_, _, _, _, _, l6⟩ := leave_fields s e0
  unfold pendK at h ⊢
  rw [l4, l5]
  rcases h with h | h | h
  · exact Or.inl h
  · exact Or.inr (Or.inl h)
  · right; right
    unfold Server.leaveReplication at hne ⊢
    by_cases hr : s.running = true
    · simp only [hr, if_true] at hne ⊢
      have hne0 : e ≠ e0 := by
        intro he; apply hne; rw [he]; exact List.mem_append_right _ (List.mem_singleton.mpr rfl)
      show k ∈ (aget (adel s.removalBuf e0) e).getD []
      rw [Cli.aget_adel]; simp only [hne0, if_false]; exact h
    · simp only [hr, Bool.false_eq_true, if_false]; exact h

theorem mark_ck (s : Server) (e : Nat) (on : Bool) (hwn : (s.world.map (·.1)).Nodup) (cl : Cli) (G : Nat → List Nat)
    (ck : CK s cl G) (csync : CliSync s.white s.world s.despawnBuf cl) (hstop : s.running = false → cl.mutTick = []) :
    CK (s.mark e on) cl G := by
  unfold Server.mark
  cases hg : aget s.world e with
  | none => exact ck
  | some ent =>
    simp only
    cases on with
    | true =>
      simp only [if_true]
      split
      · exact ck
      · rename_i hmk
        refine ck_aset s _ cl G ck e ent { ent with marker := some s.now } hg rfl rfl rfl (fun _ h => h) (fun _ _ _ h => h) ?_
        intro hk hnd
        exfalso
        obtain ⟨g, _, h2⟩ := csync.2 e
        rcases (h2 hk).2 with h | h
        · rw [marked_of_aget _ hwn _ _ hg] at h; exact hmk h
        · exact hnd h
    | false =>
      simp only [Bool.false_eq_true, if_false]
      split
      · exact ck
      · obtain ⟨_, _, l3, l4, l5, l6⟩ := leave_fields s e
        obtain ⟨k1, _, _, _, _, _, _⟩ := leave_kindfields s e
        refine ck_aset s _ cl G ck e ent { ent with marker := none } hg k1 ?_ ?_ l5
          (fun e' k' hne h => leave_pendK s e e' k' hne h) ?_
        · show (s.leaveReplication e).rates = s.rates
          unfold Server.leaveReplication; split <;> rfl
        · show aset (s.leaveReplication e).world e _ = aset s.world e _
          rw [l4]
        · intro hk hnd
          exfalso
          cases hr : s.running with
          | true => exact hnd (l6 hr)
          | false =>
            unfold keys at hk
            rw [hstop hr] at hk; cases hk

theorem despawn_ck (s : Server) (e : Nat) (cl : Cli) (G : Nat → List Nat) (ck : CK s cl G) :
    CK (s.despawn e) cl G := by
  unfold Server.despawn
  cases hg : aget s.world e with
  | none => exact ck
  | some ent =>
    simp only
    split
    · obtain ⟨_, _, _, l4, l5, _⟩ := leave_fields s e
      obtain ⟨k1, _, _, _, _, _, _⟩ := leave_kindfields s e
      refine ck_same s _ cl G ck k1 ?_ ?_ l5 (fun e' k' hne h => leave_pendK s e e' k' hne h)
      · show (s.leaveReplication e).rates = s.rates
        unfold Server.leaveReplication; split <;> rfl
      · intro e' x _ _ hx
        have hx' : (e', x) ∈ adel (s.leaveReplication e).world e := hx
        rw [l4] at hx'
        exact ((mem_adel _ _ _).mp hx').1
    · refine ck_same s _ cl G ck rfl rfl ?_ (fun _ h => h) (fun _ _ _ h => h)
      intro e' x _ _ hx
      have hx' : (e', x) ∈ adel s.world e := hx
      exact ((mem_adel _ _ _).mp hx').1

theorem spawn_ck (s : Server) (e : Nat) (m : Bool) (cs : List (Nat × Nat)) (hf : e ∉ s.world.map (·.1))
    (cl : Cli) (G : Nat → List Nat) (ck : CK s cl G) (csync : CliSync s.white s.world s.despawnBuf cl) :
    CK (s.spawn e m cs) cl G := by
  unfold Server.spawn
  refine ck_same s _ cl G ck rfl rfl ?_ (fun _ h => h) (fun _ _ _ h => h)
  intro e' x hk hnd hx
  rcases (mem_aset _ _ _ _).mp hx with h | ⟨h, _⟩
  · simp only [Prod.mk.injEq] at h
    obtain ⟨rfl, _⟩ := h
    exfalso
    obtain ⟨g, _, h2⟩ := csync.2 e'
    rcases (h2 hk).2 with ⟨ent, hm, _⟩ | h
    · exact hf (List.mem_map_of_mem (f := (·.1)) hm)
    · exact hnd h
  · exact h

end Replicon.Srv

namespace Replicon.Srv
open Replicon

/-- the first half of a running frame keeps the ghost invariant (removal events move into the
removal buffer) -/
theorem preRun_ck (s : Server) (ticked : Bool) (ms : Nat) (hr : s.running = true) (hwn : (s.world.map (·.1)).Nodup)
    (cl : Cli) (G : Nat → List Nat) (ck : CK s cl G) : CK (preRun s ticked ms) (preG s ms cl) G := by
  obtain ⟨f1, _, f3, f4, f5, f6, f7⟩ := preRun_kindfields s ticked ms hr
  obtain ⟨_, _, _, g4, _⟩ := preRun_fields s ticked ms
  obtain ⟨_, pk, _⟩ := preG_sync s ms cl
  refine ⟨?_, ?_, ?_⟩
  · intro e he
    exact ck.none e (fun h => he ((pk e).mpr h))
  · intro e k h; rw [f4]; exact ck.rate e k h
  · intro e hk hnd x hx
    rw [f3] at hx
    rw [g4] at hnd
    rw [f1, presentKinds_congr s _ f4, present_congr s _ f4]
    obtain ⟨hm, ha, hb⟩ := ck.kept e ((pk e).mp hk) hnd x hx
    refine ⟨hm, ?_, hb⟩
    intro k hkG hkP
    have hp := ha k hkG hkP
    obtain ⟨m, hmm, _⟩ := hm
    have hcond : bufCond s e k := ⟨x, aget_of_mem_nodup _ _ _ hwn hx, by rw [hmm]; rfl, ck.rate e k hkG⟩
    right; right
    rw [f5, bufFold_spec]
    rcases hp with h | h | h
    · exact Or.inr ⟨List.mem_append_right _ h, hcond⟩
    · exact Or.inr ⟨List.mem_append_left _ h, hcond⟩
    · exact Or.inl h

theorem fullFrame_rates (s : Server) (ticked : Bool) (ms : Nat) (parts : Nat → List (List Nat)) :
    (s.fullFrame ticked ms parts).rates = s.rates := by
  cases hr : s.running with
  | false =>
    unfold Server.fullFrame Server.frameBegin Server.frameEnd
    simp only [hr, Bool.not_false, if_true, Bool.false_eq_true, if_false]
    cases hl : s.lastRunning
    · simp [hl, hr]
    · simp [hl, Server.reset, hr]
  | true =>
    have hp : (preRun s ticked ms).rates = s.rates := (preRun_kindfields s ticked ms hr).2.2.2.1
    unfold Server.fullFrame
    rw [frameBegin_running s ticked ms hr]
    cases hc : (preRun s ticked ms).tickChanged
    · simp only [hc, Bool.not_false, if_true]
      unfold Server.frameEnd
      simp only [Bool.false_eq_true, Bool.not_false, if_true]
      exact hp
    · simp only [hc, Bool.not_true, Bool.false_eq_true, if_false]
      unfold Server.frameEnd Server.runAll
      simp only [Bool.not_true, Bool.false_eq_true, if_false]
      exact hp

/-- the ghost invariant at the end of a frame in which the run happened, for a client whose ghost
is exact for every tracked entity -/
theorem ck_after_run (p s' : Server) (cl' : Cli) (G' : Nat → List Nat) (sinv : SyncInv p) (kinv : KindInv p)
    (hw : s'.world = p.world) (hr : s'.rates = p.rates) (hl : s'.lastRun = p.now + 1)
    (hview : ∀ e, e ∈ keys cl' → marked p.world e)
    (hnone : ∀ e, e ∉ keys cl' → G' e = [])
    (hrate : ∀ e k, k ∈ G' e → p.rates.any (·.1 = k) = true)
    (hexact : ∀ e, e ∈ keys cl' → ∀ ent, (e, ent) ∈ p.world → ∀ k, k ∈ G' e ↔ k ∈ presentKinds p ent) :
    CK s' cl' G' := by
  refine ⟨hnone, fun e k h => by rw [hr]; exact hrate e k h, ?_⟩
  intro e hk _ x hx
  rw [hw] at hx
  rw [hl, presentKinds_congr p s' hr, present_congr p s' hr]
  obtain ⟨ent, hm, hs⟩ := hview e hk
  have := world_unique p sinv.worldNodup e x ent hx hm
  subst this
  refine ⟨?_, ?_, ?_⟩
  · cases hmk : x.marker with
    | none => rw [hmk] at hs; cases hs
    | some m =>
      refine ⟨m, rfl, ?_⟩
      have := (kinv.stamps e x hx).2 m hmk
      exact Nat.not_lt.mpr (Nat.le_succ_of_le this)
  · intro k hkG hkP
    exact absurd ((hexact e hk x hx k).mp hkG) hkP
  · intro k r c hp hkG
    exact absurd ((hexact e hk x hx k).mpr ((mem_presentKinds p x k).mpr ⟨r, c, hp⟩)) hkG

end Replicon.Srv

namespace Replicon.Srv
open Replicon

theorem ck_cli_congr (s : Server) (cl cl' : Cli) (G : Nat → List Nat) (hk : ∀ j, j ∈ keys cl' ↔ j ∈ keys cl)
    (ck : CK s cl G) : CK s cl' G :=
  ⟨fun e he => ck.none e (fun h => he ((hk e).mpr h)), ck.rate,
   fun e he hnd x hx => ck.kept e ((hk e).mp he) hnd x hx⟩

theorem ck_srv_congr (s s' : Server) (cl : Cli) (G : Nat → List Nat) (ck : CK s cl G)
    (h1 : s'.lastRun = s.lastRun) (h2 : s'.rates = s.rates) (h3 : s'.world = s.world)
    (h4 : s'.despawnBuf = s.despawnBuf) (h5 : s'.removalBuf = s.removalBuf) (h6 : s'.pendingRem = s.pendingRem)
    (h7 : s'.pendingRemOld = s.pendingRemOld) : CK s' cl G := by
  refine ck_same s s' cl G ck h1 h2 ?_ ?_ ?_
  · intro e x _ _ hx; rw [h3] at hx; exact hx
  · intro j hj; rw [h4]; exact hj
  · intro e k _ h
    unfold pendK at h ⊢
    rw [h5, h6, h7]; exact h

theorem updClient_ckfields (s : Server) (c : Nat) (f : Cli → Cli) :
    (s.updClient c f).lastRun = s.lastRun ∧ (s.updClient c f).rates = s.rates ∧ (s.updClient c f).world = s.world ∧
    (s.updClient c f).despawnBuf = s.despawnBuf ∧ (s.updClient c f).removalBuf = s.removalBuf ∧
    (s.updClient c f).pendingRem = s.pendingRem ∧ (s.updClient c f).pendingRemOld = s.pendingRemOld := by
  unfold Server.updClient
  cases aget s.clients c <;> exact ⟨rfl, rfl, rfl, rfl, rfl, rfl, rfl⟩

theorem ck_empty (s : Server) (cl : Cli) (hk : cl.mutTick = []) : CK s cl (fun _ => []) := by
  refine ⟨fun _ _ => rfl, ?_, ?_⟩
  · intro e k h; cases h
  · intro e he
    unfold keys at he
    rw [hk] at he; cases he

end Replicon.Srv

namespace Replicon.Joint
open Replicon Replicon.Srv Replicon.Cli

/-- the kinds the receiver of client `c` has per entity, according to the session's messages -/
def ghostOf (log : Log) (c : Nat) : Nat → List Nat := fun e => ghostKinds (log c) e

structure KSess (st : St) (log : Log) : Prop where
  sess : SessInv st log
  kind : KindInv st.srv
  ck : ∀ x ∈ st.srv.clients, CK st.srv x.2 (ghostOf log x.1)

theorem ghostOf_congr (log log' : Log) (c : Nat) (h : log' c = log c) : ghostOf log' c = ghostOf log c := by
  unfold ghostOf; rw [h]

/-- the log entry a frame with a run adds for a client of the pre-run state -/
theorem logStep_ran (st : St) (log : Log) (ticked : Bool) (ms : Nat) (parts : Nat → List (List Nat))
    (hr : st.srv.running = true) (hc : (preRun st.srv ticked ms).tickChanged = true)
    (hn : ((preRun st.srv ticked ms).clients.map (·.1)).Nodup)
    (y : Nat × Cli) (hy : y ∈ (preRun st.srv ticked ms).clients) :
    logStep st log (.frame ticked ms parts) y.1 =
      (if y.2.authorized then
        (match (runClient (preRun st.srv ticked ms) ((preRun st.srv ticked ms).now + 1) y.2).2.update with
         | some u => log y.1 ++ [u]
         | none => log y.1)
       else log y.1) := by
  have houts : (frame st ticked ms parts).2.1 = (preRun st.srv ticked ms).runAll.2 := frame_outs_eq st ticked ms parts hr hc
  have hag : aget (preRun st.srv ticked ms).clients y.1 = some y.2 := aget_of_mem_nodup _ y.1 y.2 hn hy
  unfold logStep
  simp only
  rw [houts, aget_outs _ hn y.1, hag]
  simp only
  cases y.2.authorized with
  | false => simp
  | true => simp only [if_true]; rfl

theorem ksess_frame (st : St) (log : Log) (t : Bool) (ms : Nat) (parts : Nat → List (List Nat))
    (inv : KSess st log) :
    ∀ x ∈ (frame st t ms parts).1.srv.clients, CK (frame st t ms parts).1.srv x.2 (ghostOf (logStep st log (.frame t ms parts)) x.1) := by
  have hrates := fullFrame_rates st.srv t ms parts
  cases hrun : st.srv.running with
  | false =>
    have houts : (frame st t ms parts).2.1 = [] := (frameBegin_stopped st.srv t ms hrun).2.1
    obtain ⟨_, _, _, h4, _⟩ := fullFrame_stopped st.srv t ms parts hrun
    intro x hx
    have hx2 : x ∈ (st.srv.fullFrame t ms parts).clients := hx
    rw [h4] at hx2
    split at hx2
    · cases hx2
    · rw [ghostOf_congr log _ x.1 (logStep_frame_nil st log t ms parts houts x.1)]
      exact ck_nokeys st.srv _ x.2 _ (inv.ck x hx2) (inv.sess.sync.stopped hrun x hx2) hrates
  | true =>
    have sinvp := preRun_sync st.srv t ms inv.sess.sync
    have kinvp := preRun_kind st.srv t ms hrun inv.kind
    obtain ⟨_, _, _, _, p5⟩ := preRun_fields st.srv t ms
    obtain ⟨q1, q2, q3, q4, q5, q6, q7⟩ := preRun_kindfields st.srv t ms hrun
    have ckp : ∀ y ∈ (preRun st.srv t ms).clients, CK (preRun st.srv t ms) y.2 (ghostOf log y.1) := by
      intro y hy
      rw [p5, List.mem_map] at hy
      obtain ⟨z, hz, rfl⟩ := hy
      exact preRun_ck st.srv t ms hrun inv.sess.sync.worldNodup z.2 _ (inv.ck z hz)
    cases hc : (preRun st.srv t ms).tickChanged with
    | false =>
      have houts : (frame st t ms parts).2.1 = [] := by
        show (st.srv.frameBegin t ms).2.2 = []
        rw [frameBegin_running st.srv t ms hrun]
        simp only [hc, Bool.not_false, if_true]
      obtain ⟨i1, i2, i3, i4, i5⟩ := fullFrame_idle st.srv t ms parts hrun hc
      obtain ⟨j1, _, _, j4, j5, j6⟩ := fullFrame_idle_kind st.srv t ms parts hrun hc
      intro x hx
      have hx2 : x ∈ (st.srv.fullFrame t ms parts).clients := hx
      rw [i5] at hx2
      rw [ghostOf_congr log _ x.1 (logStep_frame_nil st log t ms parts houts x.1)]
      exact ck_srv_congr _ _ x.2 _ (ckp x hx2) j1 (hrates.trans q4.symm) i1 i4 j4 j5 j6
    | true =>
      obtain ⟨r1, r2, _, _, r5, _⟩ := fullFrame_ran st.srv t ms parts hrun hc
      obtain ⟨k1, _, _, _, _, _⟩ := fullFrame_ran_kind st.srv t ms parts hrun hc
      intro x hx
      have hx2 : x ∈ (st.srv.fullFrame t ms parts).clients := hx
      rw [r1, List.mem_map] at hx2
      obtain ⟨y, hy, rfl⟩ := hx2
      have hlog := logStep_ran st log t ms parts hrun hc sinvp.clientsNodup y hy
      have hy1 : (ranClient (preRun st.srv t ms) parts y).1 = y.1 := rfl
      cases ha : y.2.authorized with
      | false =>
        have hrc : ranClient (preRun st.srv t ms) parts y = y := by
          unfold ranClient; simp only [ha, Bool.false_eq_true, if_false]
        rw [hrc]
        have hl : logStep st log (.frame t ms parts) y.1 = log y.1 := by
          rw [hlog]; simp only [ha, Bool.false_eq_true, if_false]
        rw [ghostOf_congr log _ y.1 hl]
        exact ck_nokeys _ _ y.2 _ (ckp y hy) (sinvp.unauth y hy ha) (hrates.trans q4.symm)
      | true =>
        have hview : ∀ e, e ∈ keys (ranClient (preRun st.srv t ms) parts y).2 → marked (preRun st.srv t ms).world e :=
          fun e he => ((ranClient_view _ parts sinvp y hy ha e).mp he).1
        cases hu : (runClient (preRun st.srv t ms) ((preRun st.srv t ms).now + 1) y.2).2.update with
        | none =>
          have hl : logStep st log (.frame t ms parts) y.1 = log y.1 := by
            rw [hlog]; simp only [ha, if_true, hu]
          rw [hy1, ghostOf_congr log _ y.1 hl]
          obtain ⟨n1, n2⟩ := ran_kinds_none _ parts sinvp kinvp q6 q7 y hy ha _ (ckp y hy) hu
          exact ck_after_run _ _ _ _ sinvp kinvp r2 (hrates.trans q4.symm) k1 hview n1
            (fun e k h => (ckp y hy).rate e k h) n2
        | some u =>
          have hl : logStep st log (.frame t ms parts) y.1 = log y.1 ++ [u] := by
            rw [hlog]; simp only [ha, if_true, hu]
          have hg : ghostOf (logStep st log (.frame t ms parts)) y.1 =
              fun e => stepKinds (ghostOf log y.1 e) u e := by
            funext e
            unfold ghostOf
            rw [hl, ghostKinds_append]
          rw [hy1, hg]
          obtain ⟨n1, n2, n3⟩ := ran_kinds_some _ parts sinvp kinvp q6 q7 y hy ha _ (ckp y hy) u hu
          exact ck_after_run _ _ _ _ sinvp kinvp r2 (hrates.trans q4.symm) k1 hview n1 n2 n3

end Replicon.Joint

namespace Replicon.Joint
open Replicon Replicon.Srv Replicon.Cli

theorem ksess_step (st : St) (log : Log) (op : Op) (inv : KSess st log) (hl : LegalOp2 st.srv op) :
    KSess (step st op).1 (logStep st log op) := by
  refine ⟨sess_step st log op inv.sess hl, kind_step st op inv.kind, ?_⟩
  have hwn := inv.sess.sync.worldNodup
  have hcn := inv.sess.sync.clientsNodup
  cases op with
  | spawn e m cs =>
    intro x hx
    exact spawn_ck st.srv e m cs hl x.2 _ (inv.ck x hx) (inv.sess.sync.sync x hx)
  | despawn e =>
    intro x hx
    have hx' : x ∈ st.srv.clients := by
      have hx2 : x ∈ (st.srv.despawn e).clients := hx
      rw [(despawn_worldStep st.srv e hwn).1] at hx2; exact hx2
    exact despawn_ck st.srv e x.2 _ (inv.ck x hx')
  | insert e k v =>
    intro x hx
    have hx' : x ∈ st.srv.clients := by
      have hx2 : x ∈ (st.srv.insert e k v).clients := hx
      rw [(insert_worldStep st.srv e k v hwn).1] at hx2; exact hx2
    exact insert_ck st.srv e k v inv.kind x.2 _ (inv.ck x hx')
  | mutate e k v =>
    intro x hx
    have hx' : x ∈ st.srv.clients := by
      have hx2 : x ∈ (st.srv.mutate e k v).clients := hx
      rw [(mutate_worldStep st.srv e k v hwn).1] at hx2; exact hx2
    exact mutate_ck st.srv e k v x.2 _ (inv.ck x hx')
  | remove e k =>
    intro x hx
    have hx' : x ∈ st.srv.clients := by
      have hx2 : x ∈ (st.srv.remove e k).clients := hx
      rw [(remove_worldStep st.srv e k hwn).1] at hx2; exact hx2
    exact remove_ck st.srv e k x.2 _ (inv.ck x hx')
  | mark e on =>
    intro x hx
    have hx' : x ∈ st.srv.clients := by
      have := (mark_worldStep st.srv e on hwn).1
      have hx2 : x ∈ (st.srv.mark e on).clients := hx
      rw [this] at hx2; exact hx2
    exact mark_ck st.srv e on hwn x.2 _ (inv.ck x hx') (inv.sess.sync.sync x hx')
      (fun h => inv.sess.sync.stopped h x hx')
  | vis c e b =>
    intro x hx
    obtain ⟨f1, f2, f3, f4, f5, f6, f7⟩ := updClient_ckfields st.srv c
      (fun cl => setCell cl e (Vis.step st.srv.white (cell cl e) (if b then .show_ else .hide)).1)
    have hx2 : x ∈ (st.srv.updClient c fun cl => setCell cl e (Vis.step st.srv.white (cell cl e) (if b then .show_ else .hide)).1).clients := hx
    rcases mem_updClient st.srv c _ x hcn hx2 with ⟨cl, hm, rfl⟩ | ⟨hm, _⟩
    · exact ck_srv_congr st.srv _ _ _ (ck_cli_congr st.srv cl _ _ (fun j => by unfold keys; rw [setCell_keys]) (inv.ck _ hm))
        f1 f2 f3 f4 f5 f6 f7
    · exact ck_srv_congr st.srv _ _ _ (inv.ck x hm) f1 f2 f3 f4 f5 f6 f7
  | map c e p => exact absurd hl (by intro h; exact h)
  | connect c a =>
    intro x hx
    have hx' : x ∈ aset st.srv.clients c { authorized := a } := hx
    rcases (mem_aset _ _ _ _).mp hx' with rfl | ⟨hm, hne⟩
    · have : ghostOf (logStep st log (.connect c a)) c = fun _ => [] := by
        funext e; unfold ghostOf logStep; simp [ghostKinds]
      rw [this]
      exact ck_empty _ _ rfl
    · rw [ghostOf_congr log _ x.1 (by unfold logStep; simp [hne])]
      exact ck_srv_congr st.srv _ _ _ (inv.ck x hm) rfl rfl rfl rfl rfl rfl rfl
  | authorize c =>
    intro x hx
    obtain ⟨f1, f2, f3, f4, f5, f6, f7⟩ := updClient_ckfields st.srv c
      (fun cl => if cl.authorized then cl else { authorized := true })
    have hx2 : x ∈ (st.srv.updClient c fun cl => if cl.authorized then cl else { authorized := true }).clients := hx
    rcases mem_updClient st.srv c _ x hcn hx2 with ⟨cl, hm, rfl⟩ | ⟨hm, _⟩
    · by_cases ha : cl.authorized = true
      · simp only [ha, if_true]
        exact ck_srv_congr st.srv _ _ _ (inv.ck _ hm) f1 f2 f3 f4 f5 f6 f7
      · simp only [ha, Bool.false_eq_true, if_false]
        have hlog : log c = [] := (inv.sess.cli _ hm).2.1 (Bool.eq_false_iff.mpr ha)
        have : ghostOf log c = fun _ => [] := by
          funext e; unfold ghostOf; rw [hlog]; rfl
        show CK _ _ (ghostOf log c)
        rw [this]
        exact ck_empty _ _ rfl
    · exact ck_srv_congr st.srv _ _ _ (inv.ck x hm) f1 f2 f3 f4 f5 f6 f7
  | disconnect c =>
    intro x hx
    have hx' : x ∈ adel st.srv.clients c := hx
    exact ck_srv_congr st.srv _ _ _ (inv.ck x ((mem_adel _ _ _).mp hx').1) rfl rfl rfl rfl rfl rfl rfl
  | stop =>
    intro x hx
    have hx' : x ∈ ([] : List (Nat × Cli)) := hx
    cases hx'
  | start => intro x hx; exact ck_srv_congr st.srv _ _ _ (inv.ck x hx) rfl rfl rfl rfl rfl rfl rfl
  | ack c idxs =>
    intro x hx
    obtain ⟨f1, f2, f3, f4, f5, f6, f7⟩ := updClient_ckfields st.srv c
      (fun cl => { cl with pendingAcks := cl.pendingAcks ++ idxs })
    have hx2 : x ∈ (st.srv.updClient c fun cl => { cl with pendingAcks := cl.pendingAcks ++ idxs }).clients := hx
    rcases mem_updClient st.srv c _ x hcn hx2 with ⟨cl, hm, rfl⟩ | ⟨hm, _⟩
    · exact ck_srv_congr st.srv _ _ _ (ck_cli_congr st.srv cl _ _ (fun _ => Iff.rfl) (inv.ck _ hm)) f1 f2 f3 f4 f5 f6 f7
    · exact ck_srv_congr st.srv _ _ _ (inv.ck x hm) f1 f2 f3 f4 f5 f6 f7
  | emit em => intro x hx; exact inv.ck x hx
  | frame t ms parts => exact ksess_frame st log t ms parts inv

theorem ksess_run (ops : List Op) : ∀ (st : St) (log : Log), KSess st log → Legal2 st ops →
    KSess (runLog st log ops).1 (runLog st log ops).2 := by
  induction ops with
  | nil => intro st log inv _; exact inv
  | cons op ops ih =>
    intro st log inv hl
    exact ih _ _ (ksess_step st log op inv hl.1) hl.2

/-- **Which components, over ALL histories** (server side of the wire).  After any history (entity
identifiers not reused, a stopped server sees a frame before a restart, no pre-spawn mappings)
from a server without entities and clients that ends with a frame in which `send_replication`
ran: for every authorized client and every entity the server tracks for it, replaying the
DESPAWNS / REMOVALS / CHANGES records of the session's update messages for that entity
(`ghostKinds`: a despawn forgets the kinds, a removal record removes its kinds, a change record
adds its kinds) gives exactly the replicated component kinds the server entity carries. -/
theorem session_kinds (s0 : Server) (hw : s0.world = []) (hc0 : s0.clients = []) (hb : s0.removalBuf = [])
    (ht : s0.lastRun < s0.now)
    (ops : List Op) (ticked : Bool) (ms : Nat) (parts : Nat → List (List Nat))
    (hl : Legal2 { srv := s0 } (ops ++ [.frame ticked ms parts]))
    (hr : (run { srv := s0 } ops).1.srv.running = true)
    (hc : (preRun (run { srv := s0 } ops).1.srv ticked ms).tickChanged = true) :
    ∀ x ∈ (run { srv := s0 } (ops ++ [.frame ticked ms parts])).1.srv.clients, x.2.authorized = true →
      ∀ e, e ∈ keys x.2 → ∀ ent, (e, ent) ∈ (run { srv := s0 } (ops ++ [.frame ticked ms parts])).1.srv.world →
        ∀ k, k ∈ ghostKinds ((runLog { srv := s0 } (fun _ => []) (ops ++ [.frame ticked ms parts])).2 x.1) e ↔
          k ∈ presentKinds (run { srv := s0 } (ops ++ [.frame ticked ms parts])).1.srv ent := by
  have inv0 : KSess ({ srv := s0 } : St) (fun _ => []) := by
    refine ⟨⟨sync_empty s0 hw hc0, ⟨fun _ => hb, fun _ r hrm => ?_⟩, ?_⟩, kind_empty s0 hw hb ht, ?_⟩
    · have : r ∈ s0.removalBuf := hrm
      rw [hb] at this; cases this
    · intro x hx
      have : x ∈ s0.clients := hx
      rw [hc0] at this; cases this
    · intro x hx
      have : x ∈ s0.clients := hx
      rw [hc0] at this; cases this
  obtain ⟨hlp, hlf⟩ := legal2_prefix ops _ _ hl
  have invp := ksess_run ops _ _ inv0 hlp
  -- the last operation is the frame: redo its case to get the exact statement
  intro x hx ha e hke ent hwld k
  rw [run_append] at hx hwld ⊢
  have hrun' : (runLog { srv := s0 } (fun _ => []) (ops ++ [.frame ticked ms parts])).2 =
      logStep (run { srv := s0 } ops).1 (runLog { srv := s0 } (fun _ => []) ops).2 (.frame ticked ms parts) := by
    have : ∀ (l : List Op) (st : St) (lg : Log) (op : Op),
        (runLog st lg (l ++ [op])).2 = logStep (runLog st lg l).1 (runLog st lg l).2 op := by
      intro l
      induction l with
      | nil => intro st lg op; rfl
      | cons o os ih => intro st lg op; exact ih _ _ _
    rw [this, runLog_fst]
  rw [hrun']
  rw [runLog_fst] at invp
  generalize (run { srv := s0 } ops).1 = st at invp hr hc hx hwld ⊢
  generalize (runLog { srv := s0 } (fun _ => []) ops).2 = log at invp ⊢
  have sinvp := preRun_sync st.srv ticked ms invp.sess.sync
  have kinvp := preRun_kind st.srv ticked ms hr invp.kind
  obtain ⟨_, _, _, _, p5⟩ := preRun_fields st.srv ticked ms
  obtain ⟨_, _, _, q4, _, q6, q7⟩ := preRun_kindfields st.srv ticked ms hr
  obtain ⟨r1, r2, _, _, _, _⟩ := fullFrame_ran st.srv ticked ms parts hr hc
  have hx2 : x ∈ (st.srv.fullFrame ticked ms parts).clients := hx
  rw [r1, List.mem_map] at hx2
  obtain ⟨y, hy, rfl⟩ := hx2
  have ha' : y.2.authorized = true := by
    cases hay : y.2.authorized with
    | true => rfl
    | false =>
      have hrc : ranClient (preRun st.srv ticked ms) parts y = y := by
        unfold ranClient; simp only [hay, Bool.false_eq_true, if_false]
      rw [hrc, hay] at ha; cases ha
  have ckp : CK (preRun st.srv ticked ms) y.2 (ghostOf log y.1) := by
    rw [p5, List.mem_map] at hy
    obtain ⟨z, hz, rfl⟩ := hy
    exact preRun_ck st.srv ticked ms hr invp.sess.sync.worldNodup z.2 _ (invp.ck z hz)
  have hlog := logStep_ran st log ticked ms parts hr hc sinvp.clientsNodup y hy
  have hwld' : (e, ent) ∈ (preRun st.srv ticked ms).world := by
    have : (e, ent) ∈ (st.srv.fullFrame ticked ms parts).world := hwld
    rw [r2] at this; exact this
  have hpk : presentKinds (step st (.frame ticked ms parts)).1.srv ent = presentKinds (preRun st.srv ticked ms) ent :=
    presentKinds_congr _ _ ((fullFrame_rates st.srv ticked ms parts).trans q4.symm) ent
  rw [hpk]
  show k ∈ ghostKinds (logStep st log (.frame ticked ms parts) y.1) e ↔ _
  cases hu : (runClient (preRun st.srv ticked ms) ((preRun st.srv ticked ms).now + 1) y.2).2.update with
  | none =>
    have hl' : logStep st log (.frame ticked ms parts) y.1 = log y.1 := by
      rw [hlog]; simp only [ha', if_true, hu]
    rw [hl']
    exact (ran_kinds_none _ parts sinvp kinvp q6 q7 y hy ha' _ ckp hu).2 e hke ent hwld' k
  | some u =>
    have hl' : logStep st log (.frame ticked ms parts) y.1 = log y.1 ++ [u] := by
      rw [hlog]; simp only [ha', if_true, hu]
    rw [hl', ghostKinds_append]
    exact (ran_kinds_some _ parts sinvp kinvp q6 q7 y hy ha' _ ckp u hu).2.2 e hke ent hwld' k

end Replicon.Joint
