import Replicon.Model.Backend

namespace Replicon.Backend

/-- what replicon receives for a queued message -/
def out (m : TimedMsg) : Nat × List Nat := (m.ch, m.payload)

/-- Insertion order: timestamps do not decrease, sequence numbers strictly increase. -/
def Before (a b : TimedMsg) : Prop := a.ts ≤ b.ts ∧ a.seq < b.seq

def CInv (c : Conditioner) (now : Nat) : Prop :=
  c.items.Pairwise Before ∧ ∀ x ∈ c.items, x.ts ≤ now ∧ x.seq < c.nextSeq

theorem best_mem : ∀ (l : List TimedMsg) (y : TimedMsg), best l = some y → y ∈ l := by
  intro l
  induction l with
  | nil => intro y h; cases h
  | cons x xs ih =>
    intro y h
    unfold best at h
    cases hb : best xs with
    | none => rw [hb] at h; simp only [Option.some.injEq] at h; subst h; exact List.mem_cons_self
    | some z =>
      rw [hb] at h
      simp only at h
      split at h
      · simp only [Option.some.injEq] at h; subst h; exact List.mem_cons_of_mem _ (ih z hb)
      · simp only [Option.some.injEq] at h; subst h; exact List.mem_cons_self

/-- With the tie-break, a message inserted later never beats an earlier one. -/
theorem tmCmp_later_not_gt (x y : TimedMsg) (h : Before x y) : tmCmp y x ≠ .gt := by
  obtain ⟨h1, h2⟩ := h
  unfold tmCmp
  rcases Nat.lt_or_eq_of_le h1 with hlt | heq
  · rw [Nat.compare_eq_lt.mpr hlt]; intro hc; cases hc
  · rw [Nat.compare_eq_eq.mpr heq]
    show (if Consts.heapTieBreak = 1 then compare x.seq y.seq else Ordering.eq) ≠ Ordering.gt
    rw [if_pos (show Consts.heapTieBreak = 1 from rfl), Nat.compare_eq_lt.mpr h2]; intro hc; cases hc

/-- … and is strictly smaller: the head of the queue is the *unique* `cmp`-greatest element, so
every correct priority queue (`std::collections::BinaryHeap` included) must return it. -/
theorem pop_unique (x y : TimedMsg) (h : Before x y) : tmCmp y x = .lt := by
  obtain ⟨h1, h2⟩ := h
  unfold tmCmp
  rcases Nat.lt_or_eq_of_le h1 with hlt | heq
  · rw [Nat.compare_eq_lt.mpr hlt]
  · rw [Nat.compare_eq_eq.mpr heq]
    show (if Consts.heapTieBreak = 1 then compare x.seq y.seq else Ordering.eq) = Ordering.lt
    rw [if_pos (show Consts.heapTieBreak = 1 from rfl), Nat.compare_eq_lt.mpr h2]

theorem best_head (x : TimedMsg) (xs : List TimedMsg) (h : (x :: xs).Pairwise Before) :
    best (x :: xs) = some x := by
  unfold best
  cases hb : best xs with
  | none => rfl
  | some y =>
    simp only
    have hy : y ∈ xs := best_mem xs y hb
    have hxy : Before x y := (List.pairwise_cons.mp h).1 y hy
    rw [if_neg (tmCmp_later_not_gt x y hxy)]

theorem drain_all : ∀ (fuel : Nat) (c : Conditioner) (now : Nat), CInv c now → c.items.length ≤ fuel →
    c.drain now fuel = (c.items.map out, { c with items := [] }) := by
  intro fuel
  induction fuel with
  | zero =>
    intro c now _ hlen
    have : c.items = [] := List.length_eq_zero_iff.mp (by omega)
    unfold Conditioner.drain
    cases c; simp_all
  | succ fuel ih =>
    intro c now inv hlen
    obtain ⟨items, nextSeq⟩ := c
    cases items with
    | nil =>
      unfold Conditioner.drain Conditioner.pop
      simp [best]
    | cons x xs =>
      obtain ⟨hp, hb⟩ := inv
      unfold Conditioner.drain Conditioner.pop
      simp only
      rw [best_head x xs hp]
      have hx := (hb x List.mem_cons_self).1
      simp only
      rw [if_pos hx, List.erase_cons_head]
      simp only
      have inv' : CInv { items := xs, nextSeq := nextSeq } now :=
        ⟨(List.pairwise_cons.mp hp).2, fun y hy => hb y (List.mem_cons_of_mem _ hy)⟩
      rw [ih { items := xs, nextSeq := nextSeq } now inv' (by simpa using hlen)]
      rfl

theorem insert_inv (c : Conditioner) (now now' ch : Nat) (p : List Nat) (inv : CInv c now) (hn : now ≤ now') :
    CInv (c.insert now' ch p) now' ∧
      (c.insert now' ch p).items.map out = c.items.map out ++ [(ch, p)] := by
  obtain ⟨hp, hb⟩ := inv
  unfold Conditioner.insert
  refine ⟨⟨?_, ?_⟩, ?_⟩
  · simp only
    rw [List.pairwise_append]
    refine ⟨hp, List.pairwise_singleton _ _, ?_⟩
    intro a ha b hb'
    simp only [List.mem_singleton] at hb'
    subst hb'
    have := hb a ha
    exact ⟨by show a.ts ≤ now'; omega, this.2⟩
  · intro x hx
    simp only [List.mem_append, List.mem_singleton] at hx
    rcases hx with hx | hx
    · have := hb x hx
      exact ⟨by omega, by show x.seq < c.nextSeq + 1; omega⟩
    · subst hx
      exact ⟨Nat.le_refl _, by show c.nextSeq < c.nextSeq + 1; omega⟩
  · simp [out]

theorem insertAll_inv : ∀ (msgs : List (Nat × List Nat)) (c : Conditioner) (now now' : Nat),
    CInv c now → now ≤ now' →
    CInv (msgs.foldl (fun c m => c.insert now' m.1 m.2) c) now' ∧
      (msgs.foldl (fun c m => c.insert now' m.1 m.2) c).items.map out = c.items.map out ++ msgs := by
  intro msgs
  induction msgs with
  | nil =>
    intro c now now' inv hn
    obtain ⟨hp, hb⟩ := inv
    refine ⟨⟨hp, fun x hx => ⟨by have := (hb x hx).1; omega, (hb x hx).2⟩⟩, by simp⟩
  | cons m ms ih =>
    intro c now now' inv hn
    obtain ⟨inv1, hmap1⟩ := insert_inv c now now' m.1 m.2 inv hn
    obtain ⟨inv2, hmap2⟩ := ih (c.insert now' m.1 m.2) now' now' inv1 (Nat.le_refl _)
    refine ⟨inv2, ?_⟩
    rw [List.foldl_cons, hmap2, hmap1]
    simp

/-- One receive pass hands over everything that was queued, oldest first, then everything
that was just read, in reading order; the queue is empty afterwards. -/
theorem receive_fifo (c : Conditioner) (now now' : Nat) (msgs : List (Nat × List Nat))
    (inv : CInv c now) (hn : now ≤ now') :
    (c.receive now' msgs).1 = c.items.map out ++ msgs ∧
    (c.receive now' msgs).2.items = [] ∧ CInv (c.receive now' msgs).2 now' := by
  obtain ⟨inv1, hmap⟩ := insertAll_inv msgs c now now' inv hn
  unfold Conditioner.receive
  simp only
  rw [drain_all _ _ now' inv1 (Nat.le_refl _)]
  refine ⟨hmap, rfl, ?_, ?_⟩
  · exact List.Pairwise.nil
  · intro x hx; cases hx

/-! ### framing -/

theorem readMessage_frame (ch : Nat) (m rest : List Nat) (f : List Nat) (h : frame ch m = some f) :
    readMessage (f ++ rest) = some ((ch, m), rest) := by
  unfold frame at h
  split at h
  · rename_i hc
    simp only [Option.some.injEq] at h
    subst h
    unfold readMessage
    simp only [List.cons_append]
    have hs : m.length % 256 + 256 * (m.length / 256) = m.length := by omega
    rw [hs, if_neg (by simp)]
    simp
  · cases h

theorem frame_length (ch : Nat) (m f : List Nat) (h : frame ch m = some f) : f.length = m.length + 3 := by
  unfold frame at h
  split at h
  · simp only [Option.some.injEq] at h; subst h; simp
  · cases h

theorem frameAll_length : ∀ (msgs : List (Nat × List Nat)) (buf : List Nat),
    frameAll msgs = some buf → msgs.length ≤ buf.length := by
  intro msgs
  induction msgs with
  | nil => intro buf _; simp
  | cons m ms ih =>
    intro buf h
    unfold frameAll at h
    cases hf : frame m.1 m.2 with
    | none => rw [hf] at h; cases h
    | some f =>
      cases hr : frameAll ms with
      | none => rw [hf, hr] at h; cases h
      | some r =>
        rw [hf, hr] at h
        simp only [Option.some.injEq] at h
        subst h
        have := ih r hr
        have := frame_length _ _ _ hf
        simp; omega

/-- A stream of frames parses back into exactly the messages that were framed. -/
theorem readAll_frameAll : ∀ (msgs : List (Nat × List Nat)) (buf : List Nat) (fuel : Nat),
    frameAll msgs = some buf → msgs.length ≤ fuel → readAll fuel buf = msgs := by
  intro msgs
  induction msgs with
  | nil =>
    intro buf fuel h _
    simp only [frameAll, Option.some.injEq] at h
    subst h
    cases fuel with
    | zero => rfl
    | succ n => simp [readAll, readMessage]
  | cons m ms ih =>
    intro buf fuel h hfuel
    unfold frameAll at h
    cases hf : frame m.1 m.2 with
    | none => rw [hf] at h; cases h
    | some f =>
      cases hr : frameAll ms with
      | none => rw [hf, hr] at h; cases h
      | some r =>
        rw [hf, hr] at h
        simp only [Option.some.injEq] at h
        subst h
        cases fuel with
        | zero => simp at hfuel
        | succ n =>
          unfold readAll
          rw [readMessage_frame m.1 m.2 r f hf]
          simp only
          rw [ih r n hr (by simpa using hfuel)]

/-- Receiver passes happen at non-decreasing times. -/
def TimesOk : Nat → List (Nat × List (Nat × List Nat)) → Prop
  | _, [] => True
  | now, (t, _) :: rest => now ≤ t ∧ TimesOk t rest

theorem runLink_fifo : ∀ (passes : List (Nat × List (Nat × List Nat))) (c : Conditioner) (now : Nat)
    (o : List (Nat × List Nat)),
    CInv c now → c.items = [] → TimesOk now passes → runLink c passes = some o →
    o = (passes.map (·.2)).flatten := by
  intro passes
  induction passes with
  | nil =>
    intro c now o _ _ _ h
    simp only [runLink, Option.some.injEq] at h
    subst h; rfl
  | cons p ps ih =>
    intro c now o inv hempty htimes h
    obtain ⟨t, batch⟩ := p
    obtain ⟨ht, hrest⟩ := htimes
    unfold runLink at h
    cases hf : frameAll batch with
    | none => rw [hf] at h; cases h
    | some buf =>
      rw [hf] at h
      simp only at h
      rw [readAll_frameAll batch buf buf.length hf (frameAll_length batch buf hf)] at h
      obtain ⟨h1, h2, h3⟩ := receive_fifo c now t batch inv ht
      cases hr : runLink (c.receive t batch).2 ps with
      | none => rw [hr] at h; cases h
      | some o' =>
        rw [hr] at h
        simp only [Option.some.injEq] at h
        subst h
        rw [ih _ t o' h3 h2 hrest hr, h1, hempty]
        simp

end Replicon.Backend
