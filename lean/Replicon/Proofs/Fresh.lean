import Replicon.Proofs.Server
import Replicon.Proofs.Client
import Replicon.Proofs.Joint
/-
The first theorem that spans both models: what the server model sends a client it has no state
for (`runClient` on fresh `ClientTicks`), applied by the client model at the start of a session
(`applyUpdate`), leaves the client with exactly the server's view.  One perfect round of a new
session, for every server world.
-/
namespace Replicon.Fresh
open Replicon Replicon.Srv Replicon.Cli

/-- what a client that sees everything should hold: every replicated entity with its
replicated components and their values, in world order -/
def viewMsgs (s : Server) : List MsgEnt :=
  s.world.filterMap fun x => x.2.marker.map fun _ =>
    ({ ent := x.1, comps := (present s x.2).map fun y => (y.1, y.2.2.val) } : MsgEnt)

/-- a client the server has never sent anything to and hides nothing from -/
def freshCli : Cli := { authorized := true }

theorem fresh_visible (s : Server) (hw : s.white = false) (e : Nat) : visState s freshCli e ≠ .hidden := by
  unfold visState
  rw [hw]
  simp only [Bool.false_eq_true, if_false]
  have : cell freshCli e = {} := rfl
  rw [this]
  decide

theorem filterMap_congr' {α β : Type} (f g : α → Option β) : ∀ (l : List α), (∀ x ∈ l, f x = g x) → l.filterMap f = l.filterMap g := by
  intro l
  induction l with
  | nil => intro _; rfl
  | cons x xs ih =>
    intro h
    rw [List.filterMap_cons, List.filterMap_cons, h x List.mem_cons_self, ih fun y hy => h y (List.mem_cons_of_mem _ hy)]

theorem fresh_noLost (s : Server) : NoLost s.white freshCli := by
  intro e c0 h; cases h

/-- Server side: under the blacklist policy, with nothing buffered, the run for a fresh client
produces exactly one update message: the server's whole view, nothing else. -/
theorem run_fresh (s : Server) (thisRun : Nat) (hw : s.white = false)
    (hd : s.despawnBuf = []) (hr : s.removalBuf = []) (hne : viewMsgs s ≠ []) :
    (runClient s thisRun freshCli).2.update =
      some { tick := s.tick, mappings := [], despawns := [], removals := [], changes := viewMsgs s } := by
  unfold runClient
  have hl : NoLost s.white { freshCli with mappings := [] } := fresh_noLost s
  rw [despawnPhase_idle s _ hd hl]
  simp only
  have houts : (entityOuts s thisRun { freshCli with mappings := [] }).filterMap (fun x => x.2.toUpdate) = viewMsgs s := by
    unfold entityOuts viewMsgs
    rw [List.filterMap_filterMap]
    apply filterMap_congr'
    intro x _
    obtain ⟨e, ent⟩ := x
    simp only
    cases hm : ent.marker with
    | none => rfl
    | some m =>
      simp only [Option.bind_some, Option.map_some]
      have h := collect_unknown_whole s thisRun freshCli e ent m (fresh_visible s hw e) rfl
      exact congrArg EntOut.toUpdate h
  rw [houts, hr]
  simp only [List.filter_nil]
  have : (Update.isEmpty { tick := s.tick, mappings := freshCli.mappings, despawns := [], removals := [], changes := viewMsgs s }) = false := by
    unfold Update.isEmpty
    cases h : viewMsgs s with
    | nil => exact absurd h hne
    | cons _ _ => simp [freshCli]
  simp only [this, Bool.false_eq_true, if_false]
  rfl

end Replicon.Fresh

namespace Replicon.Fresh
open Replicon Replicon.Srv Replicon.Cli

/-- the component map a record writes onto a new entity -/
def assocOf (init : List (Nat × Nat)) (cs : List (Nat × Nat)) : List (Nat × Nat) :=
  cs.foldl (fun l kv => aset l kv.1 kv.2) init

def wstep (ce : Nat) (c : Client) (kv : Nat × Nat) : Client :=
  let (c, v') := if c.entityComps.contains kv.1 then getMapped c kv.2 else (c, kv.2)
  match aget c.world ce with
  | some ent => { c with world := aset c.world ce { ent with comps := aset ent.comps kv.1 v' } }
  | none => c

theorem writeComps_eq (c : Client) (ce : Nat) (comps : List (Nat × Nat)) :
    writeComps c ce comps = comps.foldl (wstep ce) c := rfl

theorem wstep_plain (ce : Nat) (c : Client) (kv : Nat × Nat) (ent0 : CEnt)
    (hk : c.entityComps.contains kv.1 = false) (hw : aget c.world ce = some ent0) :
    wstep ce c kv = { c with world := aset c.world ce { ent0 with comps := aset ent0.comps kv.1 kv.2 } } := by
  unfold wstep
  simp only [hk, Bool.false_eq_true, if_false, hw]

/-- `writeComps` without entity-valued components: only the target entity's components change -/
theorem writeComps_spec (ce : Nat) (comps : List (Nat × Nat)) : ∀ (c : Client) (ent0 : CEnt),
    (∀ kv ∈ comps, c.entityComps.contains kv.1 = false) → aget c.world ce = some ent0 →
    aget (writeComps c ce comps).world ce = some { ent0 with comps := assocOf ent0.comps comps } ∧
    (∀ j, j ≠ ce → aget (writeComps c ce comps).world j = aget c.world j) ∧
    (writeComps c ce comps).s2c = c.s2c ∧ (writeComps c ce comps).c2s = c.c2s ∧
    (writeComps c ce comps).next = c.next ∧ (writeComps c ce comps).entityComps = c.entityComps := by
  induction comps with
  | nil => intro c ent0 _ hw; exact ⟨hw, fun _ _ => rfl, rfl, rfl, rfl, rfl⟩
  | cons kv rest ih =>
    intro c ent0 hno hw
    have hk : c.entityComps.contains kv.1 = false := hno kv List.mem_cons_self
    rw [writeComps_eq, List.foldl_cons, wstep_plain ce c kv ent0 hk hw, ← writeComps_eq]
    have hw' : aget ({ c with world := aset c.world ce { ent0 with comps := aset ent0.comps kv.1 kv.2 } } : Client).world ce =
        some { ent0 with comps := aset ent0.comps kv.1 kv.2 } := aget_aset_same _ _ _
    obtain ⟨h1, h2, h3, h4, h5, h6⟩ := ih
      ({ c with world := aset c.world ce { ent0 with comps := aset ent0.comps kv.1 kv.2 } } : Client)
      { ent0 with comps := aset ent0.comps kv.1 kv.2 } (fun x hx => hno x (List.mem_cons_of_mem _ hx)) hw'
    refine ⟨h1, ?_, h3, h4, h5, h6⟩
    intro j hj
    rw [h2 j hj]
    exact aget_aset_other _ _ _ _ hj

end Replicon.Fresh

namespace Replicon.Fresh
open Replicon Replicon.Srv Replicon.Cli

/-- the client after `targetEntity` spawned a new marked entity for server entity `se` -/
def spawned (c : Client) (se : Nat) (ent : CEnt) : Client :=
  { c with world := aset c.world c.next ent, next := c.next + 1,
           s2c := aset c.s2c se c.next, c2s := aset c.c2s c.next se }

theorem targetEntity_fresh_eq (c : Client) (se : Nat) (b : Bool) (hs : aget c.s2c se = none) :
    targetEntity c se b = .ok (spawned c se { marked := true }, c.next) := by
  unfold targetEntity spawned
  simp only [hs, spawnFresh, mapInsert]

theorem confirm_spawned (c : Client) (se t : Nat) :
    confirm (spawned c se { marked := true }) c.next t =
      { spawned c se { marked := true } with
        world := aset (aset c.world c.next { marked := true }) c.next { marked := true, hist := some t } } := by
  unfold confirm spawned
  simp only [aget_aset_same]

/-- A CHANGES record for a server entity the client does not know, without entity-valued
components: exactly one new entity, marked, confirmed at the message tick, with exactly the
record's components; nothing else changes. -/
theorem applyChange_fresh (t : Nat) (c : Client) (m : MsgEnt) (hs : aget c.s2c m.ent = none)
    (hno : ∀ kv ∈ m.comps, c.entityComps.contains kv.1 = false) :
    ∃ c', applyChange t c m = some c' ∧ c'.next = c.next + 1 ∧
      aget c'.s2c m.ent = some c.next ∧ (∀ e, e ≠ m.ent → aget c'.s2c e = aget c.s2c e) ∧
      aget c'.world c.next = some { marked := true, hist := some t, comps := assocOf [] m.comps } ∧
      (∀ j, j ≠ c.next → aget c'.world j = aget c.world j) ∧ c'.entityComps = c.entityComps := by
  unfold applyChange
  rw [targetEntity_fresh_eq c m.ent true hs]
  simp only
  rw [confirm_spawned]
  generalize hc2 : ({ spawned c m.ent { marked := true } with
        world := aset (aset c.world c.next { marked := true }) c.next { marked := true, hist := some t } } : Client) = c2
  have e1 : c2.s2c = aset c.s2c m.ent c.next := by rw [← hc2]; rfl
  have e2 : c2.next = c.next + 1 := by rw [← hc2]; rfl
  have e3 : c2.entityComps = c.entityComps := by rw [← hc2]; rfl
  have e4 : c2.world = aset (aset c.world c.next { marked := true }) c.next { marked := true, hist := some t } := by
    rw [← hc2]
  have hw : aget c2.world c.next = some { marked := true, hist := some t } := by rw [e4]; exact aget_aset_same _ _ _
  have hno' : ∀ kv ∈ m.comps, c2.entityComps.contains kv.1 = false := by rw [e3]; exact hno
  obtain ⟨h1, h2, h3, _, h5, h6⟩ := writeComps_spec c.next m.comps c2 { marked := true, hist := some t } hno' hw
  refine ⟨_, rfl, by rw [h5, e2], ?_, ?_, h1, ?_, by rw [h6, e3]⟩
  · rw [h3, e1]; exact aget_aset_same _ _ _
  · intro e he; rw [h3, e1]; exact aget_aset_other _ _ _ _ he
  · intro j hj
    rw [h2 j hj, e4, aget_aset_other _ _ _ _ hj, aget_aset_other _ _ _ _ hj]

end Replicon.Fresh

namespace Replicon.Fresh
open Replicon Replicon.Srv Replicon.Cli

/-- Relative to the client state `c0` the session started from (empty entity map, ids from
`c0.next` on unused): the client holds exactly the records `done`, one new entity each, numbered in
order, and everything it had before is untouched. -/
structure Good (t : Nat) (c0 c : Client) (done : List MsgEnt) : Prop where
  next : c.next = c0.next + done.length
  have_ : ∀ i (h : i < done.length), aget c.s2c (done[i]).ent = some (c0.next + i) ∧
    aget c.world (c0.next + i) = some { marked := true, hist := some t, comps := assocOf [] (done[i]).comps }
  unknown : ∀ e, (∀ m ∈ done, m.ent ≠ e) → aget c.s2c e = none
  free : ∀ j, c0.next + done.length ≤ j → aget c.world j = none
  old : ∀ j, j < c0.next → aget c.world j = aget c0.world j
  ecomps : c.entityComps = [4]

theorem good_step (t : Nat) (c0 c : Client) (done : List MsgEnt) (m : MsgEnt) (g : Good t c0 c done)
    (hnew : ∀ x ∈ done, x.ent ≠ m.ent) (hno : ∀ kv ∈ m.comps, kv.1 ≠ 4) :
    ∃ c', applyChange t c m = some c' ∧ Good t c0 c' (done ++ [m]) := by
  have hs : aget c.s2c m.ent = none := g.unknown m.ent hnew
  have hno' : ∀ kv ∈ m.comps, c.entityComps.contains kv.1 = false := by
    intro kv hkv
    rw [g.ecomps]
    simp [hno kv hkv]
  obtain ⟨c', h0, h1, h2, h3, h4, h5, h6⟩ := applyChange_fresh t c m hs hno'
  refine ⟨c', h0, ?_, ?_, ?_, ?_, ?_, ?_⟩
  · rw [h1, g.next]; simp; omega
  · intro i hi
    rw [List.length_append, List.length_singleton] at hi
    by_cases hlt : i < done.length
    · have hget : (done ++ [m])[i]'(by simp; omega) = done[i] := List.getElem_append_left hlt
      rw [hget]
      obtain ⟨a1, a2⟩ := g.have_ i hlt
      have hne : (done[i]).ent ≠ m.ent := hnew _ (List.getElem_mem hlt)
      refine ⟨by rw [h3 _ hne]; exact a1, ?_⟩
      have : c0.next + i ≠ c.next := by rw [g.next]; omega
      rw [h5 _ this]; exact a2
    · have hi' : i = done.length := by omega
      subst hi'
      have hget : (done ++ [m])[done.length]'(by simp) = m := by simp
      rw [hget]
      rw [← g.next]
      exact ⟨h2, h4⟩
  · intro e he
    have hne : e ≠ m.ent := fun h => he m (by simp) h.symm
    rw [h3 e hne]
    exact g.unknown e fun x hx => he x (List.mem_append_left _ hx)
  · intro j hj
    rw [List.length_append, List.length_singleton] at hj
    have : j ≠ c.next := by rw [g.next]; omega
    rw [h5 j this]
    exact g.free j (by omega)
  · intro j hj
    have : j ≠ c.next := by rw [g.next]; omega
    rw [h5 j this]
    exact g.old j hj
  · rw [h6]; exact g.ecomps

/-- a CHANGES section of records for distinct unknown entities, without entity-valued components,
applied to a client in a `Good` state: no record fails and the client holds exactly all of them -/
theorem good_fold (t : Nat) (c0 : Client) (msgs : List MsgEnt) : ∀ (c : Client) (done : List MsgEnt), Good t c0 c done →
    ((done ++ msgs).map (·.ent)).Nodup → (∀ m ∈ msgs, ∀ kv ∈ m.comps, kv.1 ≠ 4) →
    (foldOpt (applyChange t) (c, false) msgs).2 = false ∧ Good t c0 (foldOpt (applyChange t) (c, false) msgs).1 (done ++ msgs) := by
  induction msgs with
  | nil => intro c done g _ _; simpa [foldOpt] using g
  | cons m rest ih =>
    intro c done g hnd hno
    have hnew : ∀ x ∈ done, x.ent ≠ m.ent := by
      intro x hx he
      rw [List.map_append, List.map_cons] at hnd
      have := (List.nodup_append.mp hnd).2.2 x.ent (List.mem_map_of_mem hx) m.ent (by simp)
      exact this he
    obtain ⟨c', h0, g'⟩ := good_step t c0 c done m g hnew (hno m List.mem_cons_self)
    have hfold : foldOpt (applyChange t) (c, false) (m :: rest) = foldOpt (applyChange t) (c', false) rest := by
      unfold foldOpt
      rw [List.foldl_cons]
      simp only [Bool.false_eq_true, if_false, h0]
    rw [hfold]
    have := ih c' (done ++ [m]) g' (by simpa [List.append_assoc] using hnd) (fun x hx => hno x (List.mem_cons_of_mem _ hx))
    simpa [List.append_assoc] using this

end Replicon.Fresh

namespace Replicon.Fresh
open Replicon Replicon.Srv Replicon.Cli

/-- a client at the start of a session: connected, nothing mapped, nothing buffered, entity ids
from `next` on unused (whatever it still holds from earlier sessions lies below) -/
structure SessionStart (c : Client) : Prop where
  s2c : c.s2c = []
  unused : ∀ j, c.next ≤ j → aget c.world j = none
  ecomps : c.entityComps = [4]

theorem good_init (t : Nat) (c0 : Client) (h : SessionStart c0) : Good t c0 { c0 with updateTick := t } [] := by
  refine ⟨rfl, ?_, ?_, ?_, fun _ _ => rfl, h.ecomps⟩
  · intro i hi; exact absurd hi (Nat.not_lt_zero i)
  · intro e _; show aget c0.s2c e = none; rw [h.s2c]; rfl
  · intro j hj; exact h.unused j (by simpa using hj)

theorem viewMsgs_ents_nodup (s : Server) (h : (s.world.map (·.1)).Nodup) : ((viewMsgs s).map (·.ent)).Nodup := by
  have : List.Sublist ((viewMsgs s).map (·.ent)) (s.world.map (·.1)) := by
    unfold viewMsgs
    induction s.world with
    | nil => exact List.Sublist.refl _
    | cons x xs ih =>
      rw [List.filterMap_cons]
      cases hm : x.2.marker with
      | none =>
        simp only [Option.map_none]
        exact ih.trans (by simp)
      | some m =>
        simp only [Option.map_some, List.map_cons]
        exact List.Sublist.cons_cons _ ih
  exact this.nodup h

/-- One perfect round at the start of a session: the update message the server sends a client it
has no state for, applied by a client that starts its session, leaves the client with exactly
the server's view — one new marked entity per replicated server entity, mapped, confirmed at the
server's tick, with exactly the entity's replicated components and their values — nothing else
new, and nothing it held before touched. -/
theorem fresh_round_trip (s : Server) (thisRun : Nat) (c0 : Client) (hc0 : SessionStart c0) (hw : s.white = false)
    (hd : s.despawnBuf = []) (hr : s.removalBuf = []) (hne : viewMsgs s ≠ [])
    (hkeys : (s.world.map (·.1)).Nodup) (hplain : ∀ m ∈ viewMsgs s, ∀ kv ∈ m.comps, kv.1 ≠ 4) :
    ∃ u, (runClient s thisRun freshCli).2.update = some u ∧
      (applyUpdate c0 u).updateTick = s.tick ∧
      Good s.tick c0 (applyUpdate c0 u) (viewMsgs s) := by
  refine ⟨_, run_fresh s thisRun hw hd hr hne, applyUpdate_tick _ _, ?_⟩
  unfold applyUpdate
  simp only [List.foldl_nil]
  have hrem : foldOpt (applyRemoval s.tick) (({ c0 with updateTick := s.tick } : Client), false) [] =
      (({ c0 with updateTick := s.tick } : Client), false) := rfl
  rw [hrem]
  have := good_fold s.tick c0 (viewMsgs s) { c0 with updateTick := s.tick } [] (good_init s.tick c0 hc0)
    (by simpa using viewMsgs_ents_nodup s hkeys) hplain
  simpa using this.2

/-- … spelled out per entity -/
theorem fresh_round_trip_entity (s : Server) (thisRun : Nat) (c0 : Client) (hc0 : SessionStart c0) (hw : s.white = false)
    (hd : s.despawnBuf = []) (hr : s.removalBuf = []) (hne : viewMsgs s ≠ [])
    (hkeys : (s.world.map (·.1)).Nodup) (hplain : ∀ m ∈ viewMsgs s, ∀ kv ∈ m.comps, kv.1 ≠ 4)
    (e : Nat) (ent : SEnt) (mk : Nat) (he : (e, ent) ∈ s.world) (hm : ent.marker = some mk) :
    ∃ u, (runClient s thisRun freshCli).2.update = some u ∧
      ∃ ce, aget (applyUpdate c0 u).s2c e = some ce ∧
        aget (applyUpdate c0 u).world ce =
          some { marked := true, hist := some s.tick,
                 comps := assocOf [] ((present s ent).map fun y => (y.1, y.2.2.val)) } ∧
        (applyUpdate c0 u).next = c0.next + (viewMsgs s).length := by
  obtain ⟨u, hu, _, g⟩ := fresh_round_trip s thisRun c0 hc0 hw hd hr hne hkeys hplain
  refine ⟨u, hu, ?_⟩
  have hmem : ({ ent := e, comps := (present s ent).map fun y => (y.1, y.2.2.val) } : MsgEnt) ∈ viewMsgs s := by
    unfold viewMsgs
    rw [List.mem_filterMap]
    exact ⟨(e, ent), he, by simp [hm]⟩
  obtain ⟨i, hi, hget⟩ := List.mem_iff_getElem.mp hmem
  obtain ⟨a1, a2⟩ := g.have_ i hi
  rw [hget] at a1 a2
  exact ⟨c0.next + i, a1, a2, g.next⟩

end Replicon.Fresh

namespace Replicon.Fresh
open Replicon Replicon.Srv Replicon.Cli

/-- the component map written by a record: the record's value for every key it names (keys
being distinct), the old value for every other key -/
theorem assocOf_get (k : Nat) : ∀ (cs init : List (Nat × Nat)), (cs.map (·.1)).Nodup →
    aget (assocOf init cs) k = (match cs.lookup k with | some v => some v | none => aget init k) := by
  intro cs
  induction cs with
  | nil => intro init _; rfl
  | cons x rest ih =>
    intro init hn
    rw [List.map_cons, List.nodup_cons] at hn
    have hstep : assocOf init (x :: rest) = assocOf (aset init x.1 x.2) rest := rfl
    rw [hstep, ih _ hn.2, List.lookup_cons]
    by_cases hk : k = x.1
    · subst hk
      have hnone : rest.lookup x.1 = none := by
        cases hl : rest.lookup x.1 with
        | none => rfl
        | some v =>
          exfalso
          apply hn.1
          have : (x.1, v) ∈ rest := mem_of_aget rest x.1 v hl
          exact List.mem_map_of_mem (f := (·.1)) this
      rw [hnone]
      simp [aget_aset_same]
    · have : (k == x.1) = false := by simp [hk]
      rw [this]
      cases rest.lookup k with
      | some v => rfl
      | none => exact aget_aset_other _ _ _ _ hk

end Replicon.Fresh

namespace Replicon.Fresh
open Replicon Replicon.Srv Replicon.Cli

/-- a client whose session ended starts the next one from `SessionStart`, whatever was delivered
in between: the frame that sees the disconnect resets the protocol state and keeps the world -/
theorem session_start_after_reset (c : Client) (us : List Update) (ms : List Mutate)
    (h1 : c.lastNotDisconnected = true) (h2 : c.connected = false)
    (halloc : ∀ j, c.next ≤ j → aget c.world j = none) (hec : c.entityComps = [4]) :
    SessionStart { frame c us ms with connected := true } := by
  have hf : (frame c us ms).s2c = [] ∧ (frame c us ms).world = c.world ∧ (frame c us ms).next = c.next ∧
      (frame c us ms).entityComps = c.entityComps := by
    unfold frame
    simp [h1, h2]
  obtain ⟨e1, e2, e3, e4⟩ := hf
  refine ⟨e1, ?_, by rw [← hec]; exact e4⟩
  intro j hj
  show aget (frame c us ms).world j = none
  rw [e2]
  exact halloc j (by simpa [e3] using hj)

/-- a client that never held anything -/
theorem session_start_new : SessionStart { connected := true } :=
  ⟨rfl, fun _ _ => rfl, rfl⟩

end Replicon.Fresh
