import Replicon.Proofs.Joint
import Replicon.Proofs.JointGhost
import Replicon.Proofs.Visibility
/-
The server's bookkeeping of *which entities a client holds* (the keys of `ClientTicks`, here
`Cli.mutTick`) over arbitrary histories: after every replication run it is exactly the set of
replicated entities visible to that client, and the DESPAWNS / CHANGES sections of the run's update
message carry exactly the difference to the set before the run.

Part A: association lists and visibility cells; what `collect_despawns` (`despawnPhase`) does
to one entity.
-/
set_option maxHeartbeats 400000
set_option linter.unusedSimpArgs false
namespace Replicon.Srv
open Replicon

/-- the entities the server has a tick for, for this client -/
def keys (cl : Cli) : List Nat := cl.mutTick.map (·.1)

def VisNodup (cl : Cli) : Prop := (cl.vis.map (·.1)).Nodup

theorem mem_map_fst_aset {α : Type} (l : List (Nat × α)) (k : Nat) (v : α) (e : Nat) :
    e ∈ (aset l k v).map (·.1) ↔ e = k ∨ e ∈ l.map (·.1) := by
  simp only [List.mem_map]
  constructor
  · rintro ⟨x, hx, rfl⟩
    rcases (mem_aset _ _ _ _).mp hx with rfl | ⟨h, _⟩
    · exact Or.inl rfl
    · exact Or.inr ⟨x, h, rfl⟩
  · rintro (rfl | ⟨x, hx, rfl⟩)
    · exact ⟨(e, v), (mem_aset _ _ _ _).mpr (Or.inl rfl), rfl⟩
    · by_cases hk : x.1 = k
      · exact ⟨(k, v), (mem_aset _ _ _ _).mpr (Or.inl rfl), hk.symm⟩
      · exact ⟨x, (mem_aset _ _ _ _).mpr (Or.inr ⟨hx, hk⟩), rfl⟩

theorem mem_map_fst_adel {α : Type} (l : List (Nat × α)) (k : Nat) (e : Nat) :
    e ∈ (adel l k).map (·.1) ↔ e ∈ l.map (·.1) ∧ e ≠ k := by
  simp only [List.mem_map]
  constructor
  · rintro ⟨x, hx, rfl⟩
    obtain ⟨h, hne⟩ := (mem_adel _ _ _).mp hx
    exact ⟨⟨x, h, rfl⟩, hne⟩
  · rintro ⟨⟨x, hx, rfl⟩, hne⟩
    exact ⟨x, (mem_adel _ _ _).mpr ⟨hx, hne⟩, rfl⟩

theorem mem_map_fst_foldl_adel {α : Type} (L : List Nat) : ∀ (l : List (Nat × α)) (e : Nat),
    e ∈ (L.foldl adel l).map (·.1) ↔ e ∈ l.map (·.1) ∧ e ∉ L := by
  induction L with
  | nil => intro l e; simp
  | cons x xs ih =>
    intro l e
    rw [List.foldl_cons, ih, mem_map_fst_adel]
    simp only [List.mem_cons, not_or]
    constructor
    · rintro ⟨⟨h1, h2⟩, h3⟩; exact ⟨h1, h2, h3⟩
    · rintro ⟨h1, h2, h3⟩; exact ⟨⟨h1, h2⟩, h3⟩

theorem mem_map_fst_foldl_aset {α : Type} (v : α) (L : List Nat) : ∀ (l : List (Nat × α)) (e : Nat),
    e ∈ (L.foldl (fun mt k => aset mt k v) l).map (·.1) ↔ e ∈ l.map (·.1) ∨ e ∈ L := by
  induction L with
  | nil => intro l e; simp
  | cons x xs ih =>
    intro l e
    rw [List.foldl_cons, ih, mem_map_fst_aset]
    simp only [List.mem_cons]
    constructor
    · rintro ((h | h) | h)
      · exact Or.inr (Or.inl h)
      · exact Or.inl h
      · exact Or.inr (Or.inr h)
    · rintro (h | h | h)
      · exact Or.inl (Or.inr h)
      · exact Or.inl (Or.inl h)
      · exact Or.inr h

theorem aget_none_of_not_mem {α : Type} (l : List (Nat × α)) (k : Nat) (h : k ∉ l.map (·.1)) : aget l k = none := by
  cases hg : aget l k with
  | none => rfl
  | some v => exact absurd (List.mem_map_of_mem (f := (·.1)) (mem_of_aget l k v hg)) h

theorem mem_keys_of_aget {α : Type} (l : List (Nat × α)) (k : Nat) (v : α) (h : aget l k = some v) : k ∈ l.map (·.1) :=
  List.mem_map_of_mem (f := (·.1)) (mem_of_aget l k v h)

theorem aget_isSome_iff {α : Type} (l : List (Nat × α)) (k : Nat) : (aget l k).isSome = true ↔ k ∈ l.map (·.1) := by
  constructor
  · intro h
    cases hg : aget l k with
    | none => rw [hg] at h; cases h
    | some v => exact mem_keys_of_aget l k v hg
  · intro h
    cases hg : aget l k with
    | none =>
      exfalso
      induction l with
      | nil => cases h
      | cons x xs ih =>
        unfold aget at hg
        rw [List.lookup_cons] at hg
        by_cases hk : k = x.1
        · subst hk; simp at hg
        · have : (k == x.1) = false := by simp [hk]
          rw [this] at hg
          rcases List.mem_cons.mp h with h' | h'
          · exact hk h'
          · exact ih h' hg
    | some v => rfl

theorem aget_map_snd {α : Type} (f : α → α) : ∀ (l : List (Nat × α)) (k : Nat),
    aget (l.map fun x => (x.1, f x.2)) k = (aget l k).map f := by
  intro l
  induction l with
  | nil => intro k; rfl
  | cons x xs ih =>
    intro k
    unfold aget at ih ⊢
    rw [List.map_cons, List.lookup_cons, List.lookup_cons]
    by_cases hk : k = x.1
    · subst hk; simp
    · have : (k == x.1) = false := by simp [hk]
      simp only [this]
      exact ih k

/-! ### cells -/

theorem cell_setCell_same (cl : Cli) (e : Nat) (x : Vis.Cell) : cell (setCell cl e x) e = x := by
  unfold cell setCell
  by_cases hx : x = {}
  · simp only [hx, if_true]; rw [aget_adel_same]; rfl
  · simp only [hx, if_false]; rw [aget_aset_same]; rfl

theorem visNodup_setCell (cl : Cli) (e : Nat) (x : Vis.Cell) (h : VisNodup cl) : VisNodup (setCell cl e x) := by
  unfold VisNodup setCell
  by_cases hx : x = {}
  · simp only [hx, if_true]; exact nodup_adel _ _ h
  · simp only [hx, if_false]; exact nodup_aset _ _ _ h

theorem removeDespawned_idem (w : Bool) (c : Vis.Cell) :
    Vis.removeDespawned w (Vis.removeDespawned w c) = Vis.removeDespawned w c := by
  rcases c with ⟨i, a, r⟩
  cases w <;> cases i <;> cases a <;> cases r <;> rfl

theorem lost_default (w : Bool) : Vis.lost w {} = false := by cases w <;> rfl
theorem drainLost_default (w : Bool) : Vis.drainLost w {} = {} := by cases w <;> rfl
theorem update_default (w : Bool) : Vis.update w {} = {} := by cases w <;> rfl

/-! ### the despawn-buffer loop -/

theorem despawnStep_keys (s : Server) (acc : Cli × List Nat) (e j : Nat) :
    j ∈ keys (despawnStep s acc e).1 ↔ j ∈ keys acc.1 ∧ j ≠ e := by
  unfold despawnStep keys
  simp only
  have : (setCell acc.1 e (Vis.removeDespawned s.white (cell acc.1 e))).mutTick = acc.1.mutTick := by
    unfold setCell; rfl
  rw [this]
  exact mem_map_fst_adel _ _ _

theorem despawnStep_cell_same (s : Server) (acc : Cli × List Nat) (e : Nat) :
    cell (despawnStep s acc e).1 e = Vis.removeDespawned s.white (cell acc.1 e) := by
  unfold despawnStep
  simp only
  have := cell_setCell_same acc.1 e (Vis.removeDespawned s.white (cell acc.1 e))
  unfold cell at this ⊢
  exact this

theorem despawnStep_nodup (s : Server) (acc : Cli × List Nat) (e : Nat) (h : VisNodup acc.1) :
    VisNodup (despawnStep s acc e).1 := by
  unfold despawnStep
  simp only
  have := visNodup_setCell acc.1 e (Vis.removeDespawned s.white (cell acc.1 e)) h
  unfold VisNodup at this ⊢
  exact this

theorem despawnStep_out (s : Server) (acc : Cli × List Nat) (e j : Nat) (h : j ∈ (despawnStep s acc e).2) :
    j ∈ acc.2 ∨ j = e := by
  unfold despawnStep at h
  simp only at h
  split at h
  · rcases List.mem_append.mp h with h | h
    · exact Or.inl h
    · exact Or.inr (List.mem_singleton.mp h)
  · exact Or.inl h

/-- the despawn-buffer loop as a whole -/
theorem despawnFold_spec (s : Server) : ∀ (l : List Nat) (acc : Cli × List Nat), VisNodup acc.1 →
    VisNodup (l.foldl (despawnStep s) acc).1 ∧
    (∀ j, j ∈ keys (l.foldl (despawnStep s) acc).1 ↔ j ∈ keys acc.1 ∧ j ∉ l) ∧
    (∀ j, cell (l.foldl (despawnStep s) acc).1 j =
      if j ∈ l then Vis.removeDespawned s.white (cell acc.1 j) else cell acc.1 j) ∧
    (∀ j, j ∈ (l.foldl (despawnStep s) acc).2 → j ∈ acc.2 ∨ j ∈ l) := by
  intro l
  induction l with
  | nil =>
    intro acc hn
    refine ⟨hn, ?_, ?_, ?_⟩
    · intro j; simp
    · intro j; simp
    · intro j h; exact Or.inl h
  | cons x xs ih =>
    intro acc hn
    rw [List.foldl_cons]
    obtain ⟨h1, h2, h3, h4⟩ := ih (despawnStep s acc x) (despawnStep_nodup s acc x hn)
    refine ⟨h1, ?_, ?_, ?_⟩
    · intro j
      rw [h2 j, despawnStep_keys]
      simp only [List.mem_cons, not_or]
      constructor
      · rintro ⟨⟨a, b⟩, c⟩; exact ⟨a, b, c⟩
      · rintro ⟨a, b, c⟩; exact ⟨⟨a, b⟩, c⟩
    · intro j
      rw [h3 j]
      by_cases hjx : j = x
      · subst hjx
        rw [despawnStep_cell_same]
        simp only [List.mem_cons, true_or, if_true]
        split
        · exact removeDespawned_idem _ _
        · rfl
      · rw [despawnStep_cell_other s acc x j hjx]
        simp only [List.mem_cons, hjx, false_or]
    · intro j hj
      rcases h4 j hj with h | h
      · rcases despawnStep_out s acc x j h with h' | h'
        · exact Or.inl h'
        · exact Or.inr (by rw [h']; exact List.mem_cons_self)
      · exact Or.inr (List.mem_cons_of_mem _ h)

/-- the cell of an entity after the despawn-buffer loop -/
def cellMid (s : Server) (cl : Cli) (e : Nat) : Vis.Cell :=
  if e ∈ s.despawnBuf then Vis.removeDespawned s.white (cell cl e) else cell cl e

theorem mem_lost_list (w : Bool) (cl : Cli) (hn : VisNodup cl) (e : Nat) :
    e ∈ (cl.vis.filter fun (x : Nat × Vis.Cell) => Vis.lost w x.2).map (·.1) ↔ Vis.lost w (cell cl e) = true := by
  constructor
  · intro h
    rw [List.mem_map] at h
    obtain ⟨x, hx, rfl⟩ := h
    rw [List.mem_filter] at hx
    have := aget_of_mem_nodup cl.vis x.1 x.2 hn hx.1
    unfold cell
    rw [this]
    exact hx.2
  · intro h
    unfold cell at h
    cases hg : aget cl.vis e with
    | none => rw [hg] at h; simp only [Option.getD_none] at h; rw [lost_default] at h; cases h
    | some c0 =>
      rw [hg] at h
      simp only [Option.getD_some] at h
      rw [List.mem_map]
      exact ⟨(e, c0), List.mem_filter.mpr ⟨mem_of_aget _ _ _ hg, h⟩, rfl⟩

/-- What `collect_despawns` does, entity by entity. -/
theorem despawnPhase_spec (s : Server) (cl : Cli) (hn : VisNodup cl) :
    VisNodup (despawnPhase s cl).1 ∧
    (∀ e, cell (despawnPhase s cl).1 e = Vis.drainLost s.white (cellMid s cl e)) ∧
    (∀ e, e ∈ keys (despawnPhase s cl).1 ↔
      e ∈ keys cl ∧ e ∉ s.despawnBuf ∧ Vis.lost s.white (cellMid s cl e) = false) ∧
    (∀ e, e ∈ (despawnPhase s cl).2 → e ∈ s.despawnBuf ∨ Vis.lost s.white (cellMid s cl e) = true) ∧
    (∀ e, (e ∈ s.despawnBuf ∧ Vis.isVisible s.white (cell cl e) = true) ∨ Vis.lost s.white (cellMid s cl e) = true →
      e ∈ (despawnPhase s cl).2) := by
  obtain ⟨f1, f2, f3, f4⟩ := despawnFold_spec s s.despawnBuf (cl, []) hn
  have hmid : ∀ e, cell (s.despawnBuf.foldl (despawnStep s) (cl, [])).1 e = cellMid s cl e := by
    intro e; rw [f3 e]; rfl
  have hfold : (s.despawnBuf.foldl (fun (acc : Cli × List Nat) e =>
      let c0 := cell acc.1 e
      let ds := if Vis.isVisible s.white c0 then acc.2 ++ [e] else acc.2
      let cl1 := setCell acc.1 e (Vis.removeDespawned s.white c0)
      ({ cl1 with mutTick := adel cl1.mutTick e }, ds)) (cl, [])) = s.despawnBuf.foldl (despawnStep s) (cl, []) := rfl
  unfold despawnPhase
  simp only [hfold]
  generalize hR : s.despawnBuf.foldl (despawnStep s) (cl, []) = R at f1 f2 f3 f4 hmid
  refine ⟨?_, ?_, ?_, ?_, ?_⟩
  · unfold VisNodup at f1 ⊢
    simp only [List.map_map]
    exact f1
  · intro e
    unfold cell
    simp only
    have := aget_map_snd (Vis.drainLost s.white) R.1.vis e
    have h2 : (R.1.vis.map fun (x : Nat × Vis.Cell) => (x.1, Vis.drainLost s.white x.2)) =
        (R.1.vis.map fun x => match x with | (e, c0) => (e, Vis.drainLost s.white c0)) := by
      apply List.map_congr_left; intro x _; rfl
    rw [← h2, this, ← hmid e]
    unfold cell
    cases aget R.1.vis e with
    | none => simp [drainLost_default]
    | some c0 => rfl
  · intro e
    unfold keys
    simp only
    rw [mem_map_fst_foldl_adel]
    have hl := mem_lost_list s.white R.1 f1 e
    have hl' : e ∈ (R.1.vis.filter fun x => match x with | (_, c0) => Vis.lost s.white c0).map (·.1) ↔
        Vis.lost s.white (cell R.1 e) = true := by
      have : (R.1.vis.filter fun x => match x with | (_, c0) => Vis.lost s.white c0) =
          (R.1.vis.filter fun (x : Nat × Vis.Cell) => Vis.lost s.white x.2) := by
        apply List.filter_congr; intro x _; rfl
      rw [this]; exact hl
    rw [hl', hmid e]
    have hk := f2 e
    unfold keys at hk
    rw [hk]
    constructor
    · rintro ⟨⟨a, b⟩, c⟩; exact ⟨a, b, by simpa using c⟩
    · rintro ⟨a, b, c⟩; exact ⟨⟨a, b⟩, by simp [c]⟩
  · intro e he
    rcases List.mem_append.mp he with h | h
    · rcases f4 e h with h' | h'
      · cases h'
      · exact Or.inl h'
    · right
      have hl := mem_lost_list s.white R.1 f1 e
      have : (R.1.vis.filter fun x => match x with | (_, c0) => Vis.lost s.white c0) =
          (R.1.vis.filter fun (x : Nat × Vis.Cell) => Vis.lost s.white x.2) := by
        apply List.filter_congr; intro x _; rfl
      rw [this] at h
      rw [← hmid e]
      exact hl.mp h
  · intro e he
    rcases he with ⟨hm, hv⟩ | hl
    · apply List.mem_append_left
      rw [← hR]
      exact despawnFold_sends s e s.despawnBuf (cl, []) hm (Or.inr hv)
    · apply List.mem_append_right
      have hl2 := mem_lost_list s.white R.1 f1 e
      have : (R.1.vis.filter fun x => match x with | (_, c0) => Vis.lost s.white c0) =
          (R.1.vis.filter fun (x : Nat × Vis.Cell) => Vis.lost s.white x.2) := by
        apply List.filter_congr; intro x _; rfl
      rw [this]
      rw [← hmid e] at hl
      exact hl2.mpr hl


/-! ### Part B: one replication run for one client -/

/-- the client state after `collect_despawns` in a run -/
def runCl1 (s : Server) (cl : Cli) : Cli := (despawnPhase s { cl with mappings := [] }).1
/-- the DESPAWNS section of a run -/
def runDespawns (s : Server) (cl : Cli) : List Nat := (despawnPhase s { cl with mappings := [] }).2
/-- the entities whose tick `collect_changes` sets in a run -/
def runBumped (s : Server) (thisRun : Nat) (cl : Cli) : List Nat :=
  ((entityOuts s thisRun (runCl1 s cl)).filter fun x => x.2.bump).map (·.1)
/-- the entities with a record in the CHANGES section of a run -/
def runChanged (s : Server) (thisRun : Nat) (cl : Cli) : List Nat :=
  ((entityOuts s thisRun (runCl1 s cl)).filterMap fun x => x.2.toUpdate).map (·.ent)

theorem runClient_vis (s : Server) (thisRun : Nat) (cl : Cli) :
    (runClient s thisRun cl).1.vis = (runCl1 s cl).vis := by
  unfold runClient runCl1
  simp only
  split <;> rfl

theorem runClient_keys (s : Server) (thisRun : Nat) (cl : Cli) (e : Nat) :
    e ∈ keys (runClient s thisRun cl).1 ↔ e ∈ keys (runCl1 s cl) ∨ e ∈ runBumped s thisRun cl := by
  have h : (runClient s thisRun cl).1.mutTick =
      (runBumped s thisRun cl).foldl (fun mt e => aset mt e thisRun) (runCl1 s cl).mutTick := by
    unfold runClient runBumped runCl1
    simp only
    split <;> rfl
  unfold keys
  rw [h]
  exact mem_map_fst_foldl_aset thisRun _ _ e

/-- the sections of the update message of a run (an empty message is not sent) -/
theorem runClient_update (s : Server) (thisRun : Nat) (cl : Cli) :
    (∀ u, (runClient s thisRun cl).2.update = some u →
      u.despawns = runDespawns s cl ∧ u.changes.map (·.ent) = runChanged s thisRun cl) ∧
    ((runClient s thisRun cl).2.update = none → runDespawns s cl = [] ∧ runChanged s thisRun cl = []) := by
  unfold runClient runDespawns runChanged runCl1
  simp only
  split
  · rename_i hemp
    unfold Update.isEmpty at hemp
    simp only [Bool.and_eq_true, List.isEmpty_iff] at hemp
    obtain ⟨⟨⟨_, h2⟩, _⟩, h4⟩ := hemp
    refine ⟨?_, ?_⟩
    · intro u hu; cases hu
    · intro _; exact ⟨h2, by rw [h4]; rfl⟩
  · refine ⟨?_, ?_⟩
    · intro u hu
      simp only [Option.some.injEq] at hu
      subst hu
      exact ⟨rfl, rfl⟩
    · intro h; cases h

theorem mem_entityOuts (s : Server) (thisRun : Nat) (cl : Cli) (e : Nat) (o : EntOut) :
    (e, o) ∈ entityOuts s thisRun cl ↔
      ∃ ent m, (e, ent) ∈ s.world ∧ ent.marker = some m ∧ o = collectEntity s thisRun cl e ent m := by
  unfold entityOuts
  rw [List.mem_filterMap]
  constructor
  · rintro ⟨⟨e', ent⟩, hm, h⟩
    simp only at h
    cases hmk : ent.marker with
    | none => rw [hmk] at h; cases h
    | some m =>
      rw [hmk] at h
      simp only [Option.some.injEq, Prod.mk.injEq] at h
      obtain ⟨rfl, rfl⟩ := h
      exact ⟨ent, m, hm, hmk, rfl⟩
  · rintro ⟨ent, m, hm, hmk, rfl⟩
    exact ⟨(e, ent), hm, by simp only [hmk]⟩

theorem mem_runBumped (s : Server) (thisRun : Nat) (cl : Cli) (e : Nat) :
    e ∈ runBumped s thisRun cl ↔
      ∃ ent m, (e, ent) ∈ s.world ∧ ent.marker = some m ∧ (collectEntity s thisRun (runCl1 s cl) e ent m).bump = true := by
  unfold runBumped
  rw [List.mem_map]
  constructor
  · rintro ⟨⟨e', o⟩, hm, rfl⟩
    rw [List.mem_filter] at hm
    obtain ⟨ent, m, h1, h2, rfl⟩ := (mem_entityOuts s thisRun _ e' o).mp hm.1
    exact ⟨ent, m, h1, h2, hm.2⟩
  · rintro ⟨ent, m, h1, h2, h3⟩
    exact ⟨(e, collectEntity s thisRun (runCl1 s cl) e ent m),
      List.mem_filter.mpr ⟨(mem_entityOuts s thisRun _ e _).mpr ⟨ent, m, h1, h2, rfl⟩, h3⟩, rfl⟩

theorem collect_toUpdate (s : Server) (thisRun : Nat) (cl : Cli) (e : Nat) (ent : SEnt) (m : Nat) (r : MsgEnt)
    (h : (collectEntity s thisRun cl e ent m).toUpdate = some r) :
    r.ent = e ∧ (collectEntity s thisRun cl e ent m).bump = true := by
  unfold collectEntity at h ⊢
  simp only at h ⊢
  split at h
  · cases h
  · rename_i hv
    simp only [if_neg hv]
    split at h
    · rename_i h1
      simp only [if_pos h1]
      split at h
      · cases h
      · rename_i h2
        simp only [if_neg h2]
        simp only [Option.some.injEq] at h
        exact ⟨by rw [← h], trivial⟩
    · split at h <;> cases h

theorem collect_bump_visible (s : Server) (thisRun : Nat) (cl : Cli) (e : Nat) (ent : SEnt) (m : Nat)
    (h : (collectEntity s thisRun cl e ent m).bump = true) : visState s cl e ≠ .hidden := by
  intro hv
  rw [collect_hidden s thisRun cl e ent m hv] at h
  cases h

theorem mem_runChanged (s : Server) (thisRun : Nat) (cl : Cli) (e : Nat) :
    e ∈ runChanged s thisRun cl ↔
      ∃ ent m r, (e, ent) ∈ s.world ∧ ent.marker = some m ∧
        (collectEntity s thisRun (runCl1 s cl) e ent m).toUpdate = some r := by
  unfold runChanged
  rw [List.mem_map]
  constructor
  · rintro ⟨r, hm, rfl⟩
    rw [List.mem_filterMap] at hm
    obtain ⟨⟨e', o⟩, ho, hr⟩ := hm
    obtain ⟨ent, m, h1, h2, rfl⟩ := (mem_entityOuts s thisRun _ e' o).mp ho
    simp only at hr
    have := (collect_toUpdate s thisRun _ e' ent m r hr).1
    rw [this]
    exact ⟨ent, m, r, h1, h2, hr⟩
  · rintro ⟨ent, m, r, h1, h2, h3⟩
    refine ⟨r, ?_, (collect_toUpdate s thisRun _ e ent m r h3).1⟩
    rw [List.mem_filterMap]
    exact ⟨(e, collectEntity s thisRun (runCl1 s cl) e ent m), (mem_entityOuts s thisRun _ e _).mpr ⟨ent, m, h1, h2, rfl⟩, h3⟩

theorem runChanged_sub_bumped (s : Server) (thisRun : Nat) (cl : Cli) (e : Nat) (h : e ∈ runChanged s thisRun cl) :
    e ∈ runBumped s thisRun cl := by
  obtain ⟨ent, m, r, h1, h2, h3⟩ := (mem_runChanged s thisRun cl e).mp h
  exact (mem_runBumped s thisRun cl e).mpr ⟨ent, m, h1, h2, (collect_toUpdate s thisRun _ e ent m r h3).2⟩

/-- `register` and `visibility.update()` at the end of the frame -/
theorem register_mutTick_vis (thisRun time : Nat) (parts : List (List Nat)) : ∀ (cl : Cli),
    (cl.register thisRun time parts).mutTick = cl.mutTick ∧ (cl.register thisRun time parts).vis = cl.vis := by
  unfold Cli.register
  induction parts with
  | nil => intro cl; exact ⟨rfl, rfl⟩
  | cons p ps ih =>
    intro cl
    rw [List.foldl_cons]
    obtain ⟨h1, h2⟩ := ih _
    exact ⟨h1, h2⟩

theorem visUpdate_nodup (w : Bool) (cl : Cli) (h : VisNodup cl) : VisNodup (cl.visUpdate w) := by
  unfold VisNodup Cli.visUpdate at *
  simp only
  apply (List.filter_sublist.map _).nodup
  rw [List.map_map]
  exact h

theorem aget_filter_snd {α : Type} (p : α → Bool) : ∀ (l : List (Nat × α)) (k : Nat) (v : α),
    (l.map (·.1)).Nodup → aget l k = some v →
    aget (l.filter fun x => p x.2) k = if p v then some v else none := by
  intro l
  induction l with
  | nil => intro k v _ h; cases h
  | cons x xs ih =>
    intro k v hn h
    rw [List.map_cons, List.nodup_cons] at hn
    unfold aget at h ih ⊢
    rw [List.lookup_cons] at h
    by_cases hk : k = x.1
    · subst hk
      simp at h
      subst h
      rw [List.filter_cons]
      split
      · rw [List.lookup_cons]; simp
      · have : x.1 ∉ (xs.filter fun x => p x.2).map (·.1) := by
          intro hm
          exact hn.1 ((List.filter_sublist.map _).subset hm)
        exact aget_none_of_not_mem _ _ this
    · have hb : (k == x.1) = false := by simp [hk]
      rw [hb] at h
      rw [List.filter_cons]
      split
      · rw [List.lookup_cons, hb]; exact ih k v hn.2 h
      · exact ih k v hn.2 h

theorem aget_filter_none {α : Type} (p : Nat × α → Bool) (l : List (Nat × α)) (k : Nat) (h : aget l k = none) :
    aget (l.filter p) k = none := by
  apply aget_none_of_not_mem
  intro hm
  have := (List.filter_sublist.map _).subset hm
  have h2 := (aget_isSome_iff l k).mpr this
  rw [h] at h2
  cases h2

theorem visUpdate_cell (w : Bool) (cl : Cli) (hn : VisNodup cl) (e : Nat) :
    cell (cl.visUpdate w) e = Vis.update w (cell cl e) := by
  unfold cell Cli.visUpdate
  simp only
  have hmap : (cl.vis.map fun x => match x with | (e, c0) => (e, Vis.update w c0)) =
      (cl.vis.map fun (x : Nat × Vis.Cell) => (x.1, Vis.update w x.2)) := by
    apply List.map_congr_left; intro x _; rfl
  have hfil : ∀ l : List (Nat × Vis.Cell), (l.filter fun x => match x with | (_, c0) => decide (c0 ≠ {})) =
      (l.filter fun (x : Nat × Vis.Cell) => (fun c0 => decide (c0 ≠ {})) x.2) := by
    intro l; apply List.filter_congr; intro x _; rfl
  rw [hmap, hfil]
  have hn' : ((cl.vis.map fun (x : Nat × Vis.Cell) => (x.1, Vis.update w x.2)).map (·.1)).Nodup := by
    rw [List.map_map]; exact hn
  cases hg : aget cl.vis e with
  | none =>
    have : aget (cl.vis.map fun (x : Nat × Vis.Cell) => (x.1, Vis.update w x.2)) e = none := by
      rw [aget_map_snd, hg]; rfl
    rw [aget_filter_none _ _ _ this]
    simp [update_default]
  | some c0 =>
    have : aget (cl.vis.map fun (x : Nat × Vis.Cell) => (x.1, Vis.update w x.2)) e = some (Vis.update w c0) := by
      rw [aget_map_snd, hg]; rfl
    rw [aget_filter_snd (fun c0 => decide (c0 ≠ {})) _ e _ hn' this]
    by_cases hd : Vis.update w c0 = {}
    · simp [hd]
    · simp [hd]


/-! ### Part C: the per-client invariant and what one run does to it -/

/-- the entity exists and carries the replication marker -/
def marked (world : List (Nat × SEnt)) (e : Nat) : Prop := ∃ ent, (e, ent) ∈ world ∧ ent.marker.isSome = true

/-- Per-client invariant between frames: every visibility cell represents a ghost (most recent
setting, held) of `Proofs/Visibility.lean`; an entity the server has a tick for is held
according to that ghost, and is still replicated or waits in the despawn buffer. -/
def CliSync (w : Bool) (world : List (Nat × SEnt)) (dbuf : List Nat) (cl : Cli) : Prop :=
  VisNodup cl ∧
  ∀ e, ∃ g : Vis.Ghost, Vis.Inv w (cell cl e) g = true ∧
    (e ∈ keys cl → g.held = true ∧ (marked world e ∨ e ∈ dbuf))

theorem isVisible_drainLost (w : Bool) (c : Vis.Cell) : Vis.isVisible w (Vis.drainLost w c) = Vis.isVisible w c := by
  rcases c with ⟨i, a, r⟩
  cases w <;> cases i <;> cases a <;> cases r <;> rfl

theorem visState_ne_hidden_iff (s : Server) (cl : Cli) (e : Nat) :
    visState s cl e ≠ .hidden ↔ Vis.isVisible s.white (cell cl e) = true := by
  unfold visState Vis.isVisible
  cases s.white <;> simp only [Bool.false_eq_true, if_false, if_true] <;>
    split <;> simp_all

theorem isVisible_black_removeDespawned (c : Vis.Cell) :
    Vis.isVisible false (Vis.drainLost false (Vis.removeDespawned false c)) = true := by
  rcases c with ⟨i, a, r⟩
  cases i <;> cases a <;> cases r <;> rfl

theorem white_removeDespawned_hidden (c : Vis.Cell) :
    Vis.isVisible true (Vis.drainLost true (Vis.removeDespawned true c)) = false := by
  rcases c with ⟨i, a, r⟩
  cases i <;> cases a <;> cases r <;> rfl

theorem inv_held_notlost_desired (w : Bool) (c : Vis.Cell) (g : Vis.Ghost) (h : Vis.Inv w c g = true)
    (hh : g.held = true) (hl : Vis.lost w c = false) : g.desired = true := by
  revert h hh hl
  rcases c with ⟨i, a, r⟩
  rcases g with ⟨d, hd⟩
  cases w <;> cases i <;> cases a <;> cases r <;> cases d <;> cases hd <;> decide

theorem inv_held_despawn_sent (w : Bool) (c : Vis.Cell) (g : Vis.Ghost) (h : Vis.Inv w c g = true)
    (hh : g.held = true) :
    Vis.isVisible w c = true ∨ Vis.lost w (Vis.removeDespawned w c) = true := by
  revert h hh
  rcases c with ⟨i, a, r⟩
  rcases g with ⟨d, hd⟩
  cases w <;> cases i <;> cases a <;> cases r <;> cases d <;> cases hd <;> decide

/-- the operation of `Model/Visibility.lean` a run is for the entity's cell -/
def runOp (dbuf : List Nat) (e : Nat) : Vis.Op := if e ∈ dbuf then .despawnTick else .tick

theorem step_cell (w : Bool) (c : Vis.Cell) (dbuf : List Nat) (e : Nat) :
    (Vis.step w c (runOp dbuf e)).1 =
      Vis.update w (Vis.drainLost w (if e ∈ dbuf then Vis.removeDespawned w c else c)) := by
  unfold runOp
  by_cases h : e ∈ dbuf
  · simp only [h, if_true]; rfl
  · simp only [h, if_false]; rfl

/-- the client state at the end of a frame with a run: `runClient`, `register`, `visibility.update()` -/
def afterRun (s : Server) (thisRun time : Nat) (parts : List (List Nat)) (cl : Cli) : Cli :=
  (((runClient s thisRun cl).1.register thisRun time parts).visUpdate s.white)

theorem runCl1_spec (s : Server) (cl : Cli) (hn : VisNodup cl) :
    VisNodup (runCl1 s cl) ∧
    (∀ e, cell (runCl1 s cl) e = Vis.drainLost s.white (cellMid s cl e)) ∧
    (∀ e, e ∈ keys (runCl1 s cl) ↔ e ∈ keys cl ∧ e ∉ s.despawnBuf ∧ Vis.lost s.white (cellMid s cl e) = false) ∧
    (∀ e, e ∈ runDespawns s cl → e ∈ s.despawnBuf ∨ Vis.lost s.white (cellMid s cl e) = true) ∧
    (∀ e, (e ∈ s.despawnBuf ∧ Vis.isVisible s.white (cell cl e) = true) ∨ Vis.lost s.white (cellMid s cl e) = true →
      e ∈ runDespawns s cl) :=
  despawnPhase_spec s { cl with mappings := [] } hn

theorem afterRun_cell (s : Server) (thisRun time : Nat) (parts : List (List Nat)) (cl : Cli) (hn : VisNodup cl) (e : Nat) :
    cell (afterRun s thisRun time parts cl) e = (Vis.step s.white (cell cl e) (runOp s.despawnBuf e)).1 := by
  obtain ⟨n1, c1, _, _, _⟩ := runCl1_spec s cl hn
  have hvis : ((runClient s thisRun cl).1.register thisRun time parts).vis = (runCl1 s cl).vis := by
    rw [(register_mutTick_vis thisRun time parts _).2, runClient_vis]
  have hn2 : VisNodup ((runClient s thisRun cl).1.register thisRun time parts) := by
    unfold VisNodup; rw [hvis]; exact n1
  unfold afterRun
  rw [visUpdate_cell _ _ hn2 e]
  have : cell ((runClient s thisRun cl).1.register thisRun time parts) e = cell (runCl1 s cl) e := by
    unfold cell; rw [hvis]
  rw [this, c1 e, step_cell]
  rfl

theorem afterRun_keys (s : Server) (thisRun time : Nat) (parts : List (List Nat)) (cl : Cli) (e : Nat) :
    e ∈ keys (afterRun s thisRun time parts cl) ↔ e ∈ keys (runCl1 s cl) ∨ e ∈ runBumped s thisRun cl := by
  have : keys (afterRun s thisRun time parts cl) = keys (runClient s thisRun cl).1 := by
    unfold afterRun keys Cli.visUpdate
    simp only
    rw [(register_mutTick_vis thisRun time parts _).1]
  rw [this]
  exact runClient_keys s thisRun cl e

theorem afterRun_nodup (s : Server) (thisRun time : Nat) (parts : List (List Nat)) (cl : Cli) (hn : VisNodup cl) :
    VisNodup (afterRun s thisRun time parts cl) := by
  obtain ⟨n1, _⟩ := runCl1_spec s cl hn
  unfold afterRun
  apply visUpdate_nodup
  unfold VisNodup
  rw [(register_mutTick_vis thisRun time parts _).2, runClient_vis]
  exact n1

/-- bumped entities are replicated and were not hidden after `collect_despawns` -/
theorem bumped_facts (s : Server) (thisRun : Nat) (cl : Cli) (hn : VisNodup cl) (e : Nat)
    (h : e ∈ runBumped s thisRun cl) :
    marked s.world e ∧ Vis.isVisible s.white (cellMid s cl e) = true := by
  obtain ⟨ent, m, h1, h2, h3⟩ := (mem_runBumped s thisRun cl e).mp h
  refine ⟨⟨ent, h1, by rw [h2]; rfl⟩, ?_⟩
  have hv := collect_bump_visible s thisRun _ e ent m h3
  rw [visState_ne_hidden_iff, (runCl1_spec s cl hn).2.1 e, isVisible_drainLost] at hv
  exact hv

/-- a replicated entity that is not hidden after `collect_despawns` has a tick afterwards -/
theorem visible_marked_in_keys (s : Server) (thisRun : Nat) (cl : Cli) (hn : VisNodup cl) (e : Nat)
    (hm : marked s.world e) (hv : Vis.isVisible s.white (cellMid s cl e) = true) :
    e ∈ keys (runCl1 s cl) ∨ e ∈ runBumped s thisRun cl := by
  by_cases hk : e ∈ keys (runCl1 s cl)
  · exact Or.inl hk
  · right
    obtain ⟨ent, h1, h2⟩ := hm
    cases hmk : ent.marker with
    | none => rw [hmk] at h2; cases h2
    | some m =>
      have hvs : visState s (runCl1 s cl) e ≠ .hidden := by
        rw [visState_ne_hidden_iff, (runCl1_spec s cl hn).2.1 e, isVisible_drainLost]; exact hv
      have hnone : aget (runCl1 s cl).mutTick e = none := aget_none_of_not_mem _ _ hk
      have := collect_unknown_whole s thisRun (runCl1 s cl) e ent m hvs hnone
      exact (mem_runBumped s thisRun cl e).mpr ⟨ent, m, h1, hmk, by rw [this]⟩

/-- **One run, one client.**  From the invariant before the run: the invariant afterwards (with
an empty despawn buffer), and the server's ticks are exactly for the replicated entities that
the client can see. -/
theorem run_sync (s : Server) (thisRun time : Nat) (parts : List (List Nat)) (cl : Cli)
    (inv : CliSync s.white s.world s.despawnBuf cl) :
    CliSync s.white s.world [] (afterRun s thisRun time parts cl) ∧
    ∀ e, e ∈ keys (afterRun s thisRun time parts cl) ↔
      marked s.world e ∧ Vis.isVisible s.white (cell (afterRun s thisRun time parts cl) e) = true := by
  obtain ⟨hn, hcells⟩ := inv
  obtain ⟨_, _, k1, _, _⟩ := runCl1_spec s cl hn
  -- per entity: the new ghost, and the characterisation
  have key : ∀ e, ∃ g' : Vis.Ghost, Vis.Inv s.white (cell (afterRun s thisRun time parts cl) e) g' = true ∧
      (e ∈ keys (afterRun s thisRun time parts cl) → g'.held = true ∧ marked s.world e) ∧
      (e ∈ keys (afterRun s thisRun time parts cl) ↔ marked s.world e ∧ g'.desired = true) ∧
      Vis.isVisible s.white (cell (afterRun s thisRun time parts cl) e) = g'.desired := by
    intro e
    obtain ⟨g, hinv, hk⟩ := hcells e
    have hstep := Vis.step_preserves s.white (cell cl e) g (runOp s.despawnBuf e) hinv
    have hvis0 : Vis.isVisible s.white (cell cl e) = g.desired := hstep.2.2
    refine ⟨Vis.Ghost.step s.white g (runOp s.despawnBuf e), ?_, ?_, ?_, ?_⟩
    · rw [afterRun_cell s thisRun time parts cl hn e]; exact hstep.1
    · intro hke
      rw [afterRun_keys] at hke
      rcases hke with hkept | hb
      · obtain ⟨hkc, hnd, hnl⟩ := (k1 e).mp hkept
        obtain ⟨hh, hm⟩ := hk hkc
        have hmid : cellMid s cl e = cell cl e := by unfold cellMid; simp only [hnd, if_false]
        rw [hmid] at hnl
        have hd := inv_held_notlost_desired s.white _ g hinv hh hnl
        refine ⟨?_, ?_⟩
        · unfold runOp; simp only [hnd, if_false]; exact hd
        · rcases hm with hm | hm
          · exact hm
          · exact absurd hm hnd
      · obtain ⟨hm, hv⟩ := bumped_facts s thisRun cl hn e hb
        refine ⟨?_, hm⟩
        by_cases hd : e ∈ s.despawnBuf
        · unfold cellMid at hv
          simp only [hd, if_true] at hv
          unfold runOp
          simp only [hd, if_true]
          cases hw : s.white with
          | false => rfl
          | true =>
            rw [hw] at hv
            have := white_removeDespawned_hidden (cell cl e)
            rw [isVisible_drainLost] at this
            rw [this] at hv; cases hv
        · unfold cellMid at hv
          simp only [hd, if_false] at hv
          unfold runOp
          simp only [hd, if_false]
          show g.desired = true
          rw [← hvis0]; exact hv
    · rw [afterRun_keys]
      constructor
      · rintro (hkept | hb)
        · obtain ⟨hkc, hnd, hnl⟩ := (k1 e).mp hkept
          obtain ⟨hh, hm⟩ := hk hkc
          have hmid : cellMid s cl e = cell cl e := by unfold cellMid; simp only [hnd, if_false]
          rw [hmid] at hnl
          have hd := inv_held_notlost_desired s.white _ g hinv hh hnl
          refine ⟨?_, ?_⟩
          · rcases hm with hm | hm
            · exact hm
            · exact absurd hm hnd
          · unfold runOp; simp only [hnd, if_false]; exact hd
        · obtain ⟨hm, hv⟩ := bumped_facts s thisRun cl hn e hb
          refine ⟨hm, ?_⟩
          by_cases hd : e ∈ s.despawnBuf
          · unfold cellMid at hv
            simp only [hd, if_true] at hv
            unfold runOp
            simp only [hd, if_true]
            cases hw : s.white with
            | false => rfl
            | true =>
              rw [hw] at hv
              have := white_removeDespawned_hidden (cell cl e)
              rw [isVisible_drainLost] at this
              rw [this] at hv; cases hv
          · unfold cellMid at hv
            simp only [hd, if_false] at hv
            unfold runOp
            simp only [hd, if_false]
            show g.desired = true
            rw [← hvis0]; exact hv
      · rintro ⟨hm, hdes⟩
        apply visible_marked_in_keys s thisRun cl hn e hm
        by_cases hd : e ∈ s.despawnBuf
        · unfold runOp at hdes
          simp only [hd, if_true] at hdes
          unfold cellMid
          simp only [hd, if_true]
          cases hw : s.white with
          | false =>
            have := isVisible_black_removeDespawned (cell cl e)
            rw [isVisible_drainLost] at this
            exact this
          | true => rw [hw] at hdes; cases hdes
        · unfold runOp at hdes
          simp only [hd, if_false] at hdes
          unfold cellMid
          simp only [hd, if_false]
          rw [hvis0]; exact hdes
    · rw [afterRun_cell s thisRun time parts cl hn e]
      exact (Vis.step_preserves s.white _ _ .tick hstep.1).2.2
  refine ⟨⟨afterRun_nodup s thisRun time parts cl hn, ?_⟩, ?_⟩
  · intro e
    obtain ⟨g', h1, h2, _, _⟩ := key e
    exact ⟨g', h1, fun hke => ⟨(h2 hke).1, Or.inl (h2 hke).2⟩⟩
  · intro e
    obtain ⟨g', _, _, h3, h4⟩ := key e
    rw [h3, h4]


/-- an entity without a tick after `collect_despawns` that gets one in the run is written whole -/
theorem new_key_changed (s : Server) (thisRun : Nat) (cl : Cli) (e : Nat)
    (hk : e ∉ keys (runCl1 s cl)) (hb : e ∈ runBumped s thisRun cl) : e ∈ runChanged s thisRun cl := by
  obtain ⟨ent, m, h1, h2, h3⟩ := (mem_runBumped s thisRun cl e).mp hb
  have hvs := collect_bump_visible s thisRun _ e ent m h3
  have hnone : aget (runCl1 s cl).mutTick e = none := aget_none_of_not_mem _ _ hk
  have := collect_unknown_whole s thisRun (runCl1 s cl) e ent m hvs hnone
  exact (mem_runChanged s thisRun cl e).mpr ⟨ent, m, _, h1, h2, by rw [this]⟩

/-- **The message carries exactly the difference.**  Every entity the server forgets for the
client is in DESPAWNS; every entity it starts to track is in CHANGES (whole, by
`collect_unknown_whole`); a despawned entity that is tracked afterwards was sent again whole;
every entity in CHANGES is tracked afterwards. -/
theorem run_diff (s : Server) (thisRun time : Nat) (parts : List (List Nat)) (cl : Cli)
    (inv : CliSync s.white s.world s.despawnBuf cl) :
    (∀ e, e ∈ keys cl → e ∉ keys (afterRun s thisRun time parts cl) → e ∈ runDespawns s cl) ∧
    (∀ e, e ∈ keys (afterRun s thisRun time parts cl) → e ∉ keys cl → e ∈ runChanged s thisRun cl) ∧
    (∀ e, e ∈ runDespawns s cl → e ∈ keys (afterRun s thisRun time parts cl) → e ∈ runChanged s thisRun cl) ∧
    (∀ e, e ∈ runChanged s thisRun cl → e ∈ keys (afterRun s thisRun time parts cl)) := by
  obtain ⟨hn, hcells⟩ := inv
  obtain ⟨_, _, k1, d1, d2⟩ := runCl1_spec s cl hn
  refine ⟨?_, ?_, ?_, ?_⟩
  · intro e hk hnk
    rw [afterRun_keys] at hnk
    have hnk1 : e ∉ keys (runCl1 s cl) := fun h => hnk (Or.inl h)
    obtain ⟨g, hinv, hkg⟩ := hcells e
    obtain ⟨hh, _⟩ := hkg hk
    apply d2 e
    by_cases hd : e ∈ s.despawnBuf
    · rcases inv_held_despawn_sent s.white _ g hinv hh with h | h
      · exact Or.inl ⟨hd, h⟩
      · right; unfold cellMid; simp only [hd, if_true]; exact h
    · right
      cases hl : Vis.lost s.white (cellMid s cl e) with
      | true => rfl
      | false => exact absurd ((k1 e).mpr ⟨hk, hd, hl⟩) hnk1
  · intro e hk hnk
    rw [afterRun_keys] at hk
    have hnk1 : e ∉ keys (runCl1 s cl) := fun h => hnk ((k1 e).mp h).1
    rcases hk with h | h
    · exact absurd h hnk1
    · exact new_key_changed s thisRun cl e hnk1 h
  · intro e hd hk
    rw [afterRun_keys] at hk
    have hnk1 : e ∉ keys (runCl1 s cl) := by
      intro h
      obtain ⟨_, h2, h3⟩ := (k1 e).mp h
      rcases d1 e hd with h' | h'
      · exact h2 h'
      · rw [h3] at h'; cases h'
    rcases hk with h | h
    · exact absurd h hnk1
    · exact new_key_changed s thisRun cl e hnk1 h
  · intro e h
    rw [afterRun_keys]
    exact Or.inr (runChanged_sub_bumped s thisRun cl e h)


/-! ### Part D: the invariant of the whole server, world operations -/

structure SyncInv (s : Server) : Prop where
  worldNodup : (s.world.map (·.1)).Nodup
  clientsNodup : (s.clients.map (·.1)).Nodup
  stopped : s.running = false → ∀ x ∈ s.clients, x.2.mutTick = []
  unauth : ∀ x ∈ s.clients, x.2.authorized = false → x.2.mutTick = []
  sync : ∀ x ∈ s.clients, CliSync s.white s.world s.despawnBuf x.2

theorem CliSync_of_same (w : Bool) (W : List (Nat × SEnt)) (D : List Nat) (cl cl' : Cli)
    (h1 : cl'.vis = cl.vis) (h2 : cl'.mutTick = cl.mutTick) (h : CliSync w W D cl) : CliSync w W D cl' := by
  unfold CliSync VisNodup cell keys at *
  rw [h1, h2]; exact h

theorem CliSync_mono (w : Bool) (W W' : List (Nat × SEnt)) (D D' : List Nat) (cl : Cli)
    (hm : ∀ e, e ∈ keys cl → (marked W e ∨ e ∈ D) → (marked W' e ∨ e ∈ D'))
    (h : CliSync w W D cl) : CliSync w W' D' cl := by
  obtain ⟨hn, hc⟩ := h
  refine ⟨hn, ?_⟩
  intro e
  obtain ⟨g, h1, h2⟩ := hc e
  exact ⟨g, h1, fun hk => ⟨(h2 hk).1, hm e hk (h2 hk).2⟩⟩

theorem CliSync_nokeys (w : Bool) (W W' : List (Nat × SEnt)) (D D' : List Nat) (cl : Cli)
    (hk : cl.mutTick = []) (h : CliSync w W D cl) : CliSync w W' D' cl := by
  apply CliSync_mono w W W' D D' cl _ h
  intro e he
  unfold keys at he
  rw [hk] at he
  cases he

theorem CliSync_fresh (w : Bool) (W : List (Nat × SEnt)) (D : List Nat) (cl : Cli)
    (hv : cl.vis = []) (hk : cl.mutTick = []) : CliSync w W D cl := by
  refine ⟨by unfold VisNodup; rw [hv]; exact List.nodup_nil, ?_⟩
  intro e
  refine ⟨Vis.Ghost.init w, ?_, ?_⟩
  · have : cell cl e = {} := by unfold cell aget; rw [hv]; rfl
    rw [this]; exact Vis.init_inv w
  · intro he
    unfold keys at he
    rw [hk] at he
    cases he

theorem marked_aset_other (W : List (Nat × SEnt)) (k e : Nat) (v : SEnt) (h : e ≠ k) :
    marked (aset W k v) e ↔ marked W e := by
  unfold marked
  constructor
  · rintro ⟨ent, hm, hs⟩
    rcases (mem_aset _ _ _ _).mp hm with h' | ⟨h', _⟩
    · simp only [Prod.mk.injEq] at h'; exact absurd h'.1 h
    · exact ⟨ent, h', hs⟩
  · rintro ⟨ent, hm, hs⟩
    exact ⟨ent, (mem_aset _ _ _ _).mpr (Or.inr ⟨hm, h⟩), hs⟩

theorem marked_aset_same (W : List (Nat × SEnt)) (k : Nat) (v : SEnt) :
    marked (aset W k v) k ↔ v.marker.isSome = true := by
  unfold marked
  constructor
  · rintro ⟨ent, hm, hs⟩
    rcases (mem_aset _ _ _ _).mp hm with h' | ⟨_, h'⟩
    · simp only [Prod.mk.injEq] at h'; rw [← h'.2]; exact hs
    · exact absurd rfl h'
  · intro hs
    exact ⟨v, (mem_aset _ _ _ _).mpr (Or.inl rfl), hs⟩

theorem marked_adel_other (W : List (Nat × SEnt)) (k e : Nat) (h : e ≠ k) :
    marked (adel W k) e ↔ marked W e := by
  unfold marked
  constructor
  · rintro ⟨ent, hm, hs⟩
    exact ⟨ent, ((mem_adel _ _ _).mp hm).1, hs⟩
  · rintro ⟨ent, hm, hs⟩
    exact ⟨ent, (mem_adel _ _ _).mpr ⟨hm, h⟩, hs⟩

theorem marked_of_aget (W : List (Nat × SEnt)) (hn : (W.map (·.1)).Nodup) (k : Nat) (ent : SEnt)
    (hg : aget W k = some ent) : marked W k ↔ ent.marker.isSome = true := by
  unfold marked
  constructor
  · rintro ⟨ent', hm, hs⟩
    have := aget_of_mem_nodup W k ent' hn hm
    rw [hg] at this
    simp only [Option.some.injEq] at this
    rw [this]; exact hs
  · intro hs
    exact ⟨ent, mem_of_aget _ _ _ hg, hs⟩

/-- a step that leaves the clients alone and keeps every replicated-or-buffered entity so -/
def WorldStep (s s' : Server) : Prop :=
  s'.clients = s.clients ∧ s'.white = s.white ∧ s'.running = s.running ∧ (s'.world.map (·.1)).Nodup ∧
  (s.running = true → ∀ e, (marked s.world e ∨ e ∈ s.despawnBuf) → (marked s'.world e ∨ e ∈ s'.despawnBuf))

theorem syncInv_worldStep (s s' : Server) (inv : SyncInv s) (h : WorldStep s s') : SyncInv s' := by
  obtain ⟨hc, hw, hr, hn, hm⟩ := h
  refine ⟨hn, by rw [hc]; exact inv.clientsNodup, ?_, ?_, ?_⟩
  · rw [hc, hr]; exact inv.stopped
  · rw [hc]; exact inv.unauth
  · rw [hc, hw]
    intro x hx
    cases hrun : s.running with
    | false => exact CliSync_nokeys _ _ _ _ _ _ (inv.stopped hrun x hx) (inv.sync x hx)
    | true => exact CliSync_mono _ _ _ _ _ _ (fun e _ he => hm hrun e he) (inv.sync x hx)

theorem leave_fields (s : Server) (e : Nat) :
    (s.leaveReplication e).clients = s.clients ∧ (s.leaveReplication e).white = s.white ∧
    (s.leaveReplication e).running = s.running ∧ (s.leaveReplication e).world = s.world ∧
    (∀ j, j ∈ s.despawnBuf → j ∈ (s.leaveReplication e).despawnBuf) ∧
    (s.running = true → e ∈ (s.leaveReplication e).despawnBuf) := by
  unfold Server.leaveReplication
  split
  · rename_i hr
    refine ⟨rfl, rfl, rfl, rfl, ?_, ?_⟩
    · intro j hj; exact List.mem_append_left _ hj
    · intro _; exact List.mem_append_right _ (List.mem_singleton.mpr rfl)
  · rename_i hr
    refine ⟨rfl, rfl, rfl, rfl, fun j hj => hj, ?_⟩
    intro h; exact absurd h hr

theorem spawn_worldStep (s : Server) (e : Nat) (m : Bool) (cs : List (Nat × Nat))
    (hw : (s.world.map (·.1)).Nodup) (hf : e ∉ s.world.map (·.1)) : WorldStep s (s.spawn e m cs) := by
  unfold Server.spawn
  refine ⟨rfl, rfl, rfl, nodup_aset _ _ _ hw, ?_⟩
  intro _ j hj
  rcases hj with hj | hj
  · left
    have hne : j ≠ e := by
      intro he; subst he
      obtain ⟨ent, hm, _⟩ := hj
      exact hf (List.mem_map_of_mem (f := (·.1)) hm)
    exact (marked_aset_other _ _ _ _ hne).mpr hj
  · exact Or.inr hj

theorem despawn_worldStep (s : Server) (e : Nat) (hw : (s.world.map (·.1)).Nodup) : WorldStep s (s.despawn e) := by
  unfold Server.despawn
  cases hg : aget s.world e with
  | none => exact ⟨rfl, rfl, rfl, hw, fun _ j hj => hj⟩
  | some ent =>
    simp only
    cases hmk : ent.marker.isSome with
    | false =>
      simp only [Bool.false_eq_true, if_false]
      refine ⟨rfl, rfl, rfl, nodup_adel _ _ hw, ?_⟩
      intro _ j hj
      rcases hj with hj | hj
      · left
        have hne : j ≠ e := by
          intro he; subst he
          rw [marked_of_aget _ hw _ _ hg, hmk] at hj; cases hj
        exact (marked_adel_other _ _ _ hne).mpr hj
      · exact Or.inr hj
    | true =>
      simp only [if_true]
      obtain ⟨l1, l2, l3, l4, l5, l6⟩ := leave_fields s e
      refine ⟨l1, l2, l3, ?_, ?_⟩
      · show ((adel (s.leaveReplication e).world e).map (·.1)).Nodup
        rw [l4]; exact nodup_adel _ _ hw
      · intro hr j hj
        show marked (adel (s.leaveReplication e).world e) j ∨ j ∈ (s.leaveReplication e).despawnBuf
        rw [l4]
        by_cases hne : j = e
        · subst hne; exact Or.inr (l6 hr)
        · rcases hj with hj | hj
          · exact Or.inl ((marked_adel_other _ _ _ hne).mpr hj)
          · exact Or.inr (l5 j hj)

/-- replacing an entity by one with the same marker -/
theorem aset_same_marker_worldStep (s : Server) (e : Nat) (ent : SEnt) (hw : (s.world.map (·.1)).Nodup)
    (hg : aget s.world e = some ent) (s' : Server)
    (hs : s'.clients = s.clients ∧ s'.white = s.white ∧ s'.running = s.running ∧ s'.despawnBuf = s.despawnBuf ∧
      ∃ ent' : SEnt, s'.world = aset s.world e ent' ∧ ent'.marker = ent.marker) : WorldStep s s' := by
  obtain ⟨h1, h2, h3, h5, ent', h4, hm⟩ := hs
  refine ⟨h1, h2, h3, by rw [h4]; exact nodup_aset _ _ _ hw, ?_⟩
  intro _ j hj
  rw [h4, h5]
  rcases hj with hj | hj
  · left
    by_cases hne : j = e
    · subst hne
      rw [marked_aset_same, hm]
      exact (marked_of_aget _ hw _ _ hg).mp hj
    · exact (marked_aset_other _ _ _ _ hne).mpr hj
  · exact Or.inr hj

theorem worldStep_refl (s : Server) (hw : (s.world.map (·.1)).Nodup) : WorldStep s s :=
  ⟨rfl, rfl, rfl, hw, fun _ _ h => h⟩

theorem insert_worldStep (s : Server) (e k v : Nat) (hw : (s.world.map (·.1)).Nodup) : WorldStep s (s.insert e k v) := by
  unfold Server.insert
  cases hg : aget s.world e with
  | none => exact worldStep_refl s hw
  | some ent =>
    exact aset_same_marker_worldStep s e ent hw hg _ ⟨rfl, rfl, rfl, rfl, _, rfl, rfl⟩

theorem mutate_worldStep (s : Server) (e k v : Nat) (hw : (s.world.map (·.1)).Nodup) : WorldStep s (s.mutate e k v) := by
  unfold Server.mutate
  cases hg : aget s.world e with
  | none => exact worldStep_refl s hw
  | some ent =>
    simp only
    cases hc : aget ent.comps k with
    | none => exact worldStep_refl s hw
    | some old => exact aset_same_marker_worldStep s e ent hw hg _ ⟨rfl, rfl, rfl, rfl, _, rfl, rfl⟩

theorem remove_worldStep (s : Server) (e k : Nat) (hw : (s.world.map (·.1)).Nodup) : WorldStep s (s.remove e k) := by
  unfold Server.remove
  cases hg : aget s.world e with
  | none => exact worldStep_refl s hw
  | some ent =>
    simp only
    split
    · exact worldStep_refl s hw
    · exact aset_same_marker_worldStep s e ent hw hg _ ⟨rfl, rfl, rfl, rfl, _, rfl, rfl⟩

theorem mark_worldStep (s : Server) (e : Nat) (on : Bool) (hw : (s.world.map (·.1)).Nodup) : WorldStep s (s.mark e on) := by
  unfold Server.mark
  cases hg : aget s.world e with
  | none => exact worldStep_refl s hw
  | some ent =>
    simp only
    cases on with
    | true =>
      simp only [if_true]
      split
      · exact worldStep_refl s hw
      · refine ⟨rfl, rfl, rfl, nodup_aset _ _ _ hw, ?_⟩
        intro _ j hj
        rcases hj with hj | hj
        · left
          by_cases hne : j = e
          · subst hne; rw [marked_aset_same]; rfl
          · exact (marked_aset_other _ _ _ _ hne).mpr hj
        · exact Or.inr hj
    | false =>
      simp only [Bool.false_eq_true, if_false]
      split
      · exact worldStep_refl s hw
      · obtain ⟨l1, l2, l3, l4, l5, l6⟩ := leave_fields s e
        refine ⟨l1, l2, l3, ?_, ?_⟩
        · show ((aset (s.leaveReplication e).world e _).map (·.1)).Nodup
          rw [l4]; exact nodup_aset _ _ _ hw
        · intro hr j hj
          show marked (aset (s.leaveReplication e).world e _) j ∨ j ∈ (s.leaveReplication e).despawnBuf
          rw [l4]
          by_cases hne : j = e
          · subst hne; exact Or.inr (l6 hr)
          · rcases hj with hj | hj
            · exact Or.inl ((marked_aset_other _ _ _ _ hne).mpr hj)
            · exact Or.inr (l5 j hj)


/-! ### Part E: client operations -/

theorem updClient_same (s : Server) (c : Nat) (f : Cli → Cli) :
    (s.updClient c f).world = s.world ∧ (s.updClient c f).white = s.white ∧
    (s.updClient c f).running = s.running ∧ (s.updClient c f).despawnBuf = s.despawnBuf := by
  unfold Server.updClient
  cases aget s.clients c <;> exact ⟨rfl, rfl, rfl, rfl⟩

theorem syncInv_updClient (s : Server) (c : Nat) (f : Cli → Cli) (inv : SyncInv s)
    (hf : ∀ cl, CliSync s.white s.world s.despawnBuf cl → CliSync s.white s.world s.despawnBuf (f cl))
    (hk : ∀ cl, cl.mutTick = [] → (f cl).mutTick = [])
    (hu : ∀ cl, (cl.authorized = false → cl.mutTick = []) → (f cl).authorized = false → (f cl).mutTick = []) :
    SyncInv (s.updClient c f) := by
  obtain ⟨e1, e2, e3, e4⟩ := updClient_same s c f
  refine ⟨by rw [e1]; exact inv.worldNodup, nodup_updClient s c f inv.clientsNodup, ?_, ?_, ?_⟩
  · rw [e3]
    intro hr x hx
    rcases mem_updClient s c f x inv.clientsNodup hx with ⟨cl, hm, rfl⟩ | ⟨hm, _⟩
    · exact hk cl (inv.stopped hr _ hm)
    · exact inv.stopped hr x hm
  · intro x hx
    rcases mem_updClient s c f x inv.clientsNodup hx with ⟨cl, hm, rfl⟩ | ⟨hm, _⟩
    · exact hu cl (inv.unauth _ hm)
    · exact inv.unauth x hm
  · rw [e1, e2, e4]
    intro x hx
    rcases mem_updClient s c f x inv.clientsNodup hx with ⟨cl, hm, rfl⟩ | ⟨hm, _⟩
    · exact hf cl (inv.sync _ hm)
    · exact inv.sync x hm

theorem setCell_keys (cl : Cli) (e : Nat) (x : Vis.Cell) : (setCell cl e x).mutTick = cl.mutTick := by
  unfold setCell; rfl
theorem setCell_authorized (cl : Cli) (e : Nat) (x : Vis.Cell) : (setCell cl e x).authorized = cl.authorized := by
  unfold setCell; rfl

theorem setVisibility_sync (s : Server) (c e : Nat) (visible : Bool) (inv : SyncInv s) :
    SyncInv (s.setVisibility c e visible) := by
  unfold Server.setVisibility
  apply syncInv_updClient s c _ inv
  · intro cl ⟨hn, hc⟩
    refine ⟨visNodup_setCell cl e _ hn, ?_⟩
    intro j
    obtain ⟨g, h1, h2⟩ := hc j
    by_cases hj : j = e
    · subst hj
      have hstep := Vis.step_preserves s.white (cell cl j) g (if visible then .show_ else .hide) h1
      refine ⟨Vis.Ghost.step s.white g (if visible then .show_ else .hide), ?_, ?_⟩
      · rw [cell_setCell_same]; exact hstep.1
      · intro hk
        have hk' : j ∈ keys cl := by unfold keys at hk ⊢; rw [setCell_keys] at hk; exact hk
        obtain ⟨hh, hm⟩ := h2 hk'
        refine ⟨?_, hm⟩
        cases visible <;> exact hh
    · refine ⟨g, ?_, ?_⟩
      · rw [cell_setCell_other cl e j _ hj]; exact h1
      · intro hk
        have hk' : j ∈ keys cl := by unfold keys at hk ⊢; rw [setCell_keys] at hk; exact hk
        exact h2 hk'
  · intro cl h; rw [setCell_keys]; exact h
  · intro cl h ha
    rw [setCell_authorized] at ha
    rw [setCell_keys]; exact h ha

theorem addMapping_sync (s : Server) (c e p : Nat) (inv : SyncInv s) : SyncInv (s.addMapping c e p) := by
  unfold Server.addMapping
  apply syncInv_updClient s c _ inv
  · intro cl h; exact CliSync_of_same _ _ _ cl _ rfl rfl h
  · intro cl h; exact h
  · intro cl h ha; exact h ha

theorem receiveAck_sync (s : Server) (c : Nat) (idxs : List Nat) (inv : SyncInv s) : SyncInv (s.receiveAck c idxs) := by
  unfold Server.receiveAck
  apply syncInv_updClient s c _ inv
  · intro cl h; exact CliSync_of_same _ _ _ cl _ rfl rfl h
  · intro cl h; exact h
  · intro cl h ha; exact h ha

theorem authorize_sync (s : Server) (c : Nat) (inv : SyncInv s) : SyncInv (s.authorize c) := by
  unfold Server.authorize
  apply syncInv_updClient s c _ inv
  · intro cl h
    split
    · exact h
    · exact CliSync_fresh _ _ _ _ rfl rfl
  · intro cl h
    split
    · exact h
    · rfl
  · intro cl h ha
    split at ha
    · rename_i hauth; rw [hauth] at ha; cases ha
    · cases ha

theorem connect_sync (s : Server) (c : Nat) (a : Bool) (inv : SyncInv s) : SyncInv (s.connect c a) := by
  unfold Server.connect
  refine ⟨inv.worldNodup, nodup_aset _ _ _ inv.clientsNodup, ?_, ?_, ?_⟩
  · intro hr x hx
    rcases (mem_aset _ _ _ _).mp hx with rfl | ⟨hm, _⟩
    · rfl
    · exact inv.stopped hr x hm
  · intro x hx
    rcases (mem_aset _ _ _ _).mp hx with rfl | ⟨hm, _⟩
    · intro _; rfl
    · exact inv.unauth x hm
  · intro x hx
    rcases (mem_aset _ _ _ _).mp hx with rfl | ⟨hm, _⟩
    · exact CliSync_fresh _ _ _ _ rfl rfl
    · exact inv.sync x hm

theorem disconnect_sync (s : Server) (c : Nat) (inv : SyncInv s) : SyncInv (s.disconnect c) := by
  unfold Server.disconnect
  refine ⟨inv.worldNodup, nodup_adel _ _ inv.clientsNodup, ?_, ?_, ?_⟩
  · intro hr x hx; exact inv.stopped hr x ((mem_adel _ _ _).mp hx).1
  · intro x hx; exact inv.unauth x ((mem_adel _ _ _).mp hx).1
  · intro x hx; exact inv.sync x ((mem_adel _ _ _).mp hx).1

theorem stop_sync (s : Server) (inv : SyncInv s) : SyncInv s.stop := by
  unfold Server.stop
  refine ⟨inv.worldNodup, List.nodup_nil, ?_, ?_, ?_⟩
  · intro _ x hx; cases hx
  · intro x hx; cases hx
  · intro x hx; cases hx

theorem start_sync (s : Server) (inv : SyncInv s) : SyncInv s.start := by
  unfold Server.start
  refine ⟨inv.worldNodup, inv.clientsNodup, ?_, inv.unauth, inv.sync⟩
  intro hr; cases hr

theorem init_sync : SyncInv {} := by
  refine ⟨List.nodup_nil, List.nodup_nil, ?_, ?_, ?_⟩
  · intro _ x hx; cases hx
  · intro x hx; cases hx
  · intro x hx; cases hx


/-! ### Part F: frames -/

theorem ackStep_keys (tick : Nat) (mt : List (Nat × Nat)) (e j : Nat) :
    j ∈ List.map (fun (x : Nat × Nat) => x.1) (match aget mt e with
      | some t => if t ≤ tick then aset mt e tick else mt
      | none => mt) ↔ j ∈ mt.map (·.1) := by
  cases hg : aget mt e with
  | none => exact Iff.rfl
  | some t =>
    simp only
    split
    · rw [mem_map_fst_aset]
      constructor
      · rintro (rfl | h)
        · exact List.mem_map_of_mem (f := fun (x : Nat × Nat) => x.1) (mem_of_aget mt j t hg)
        · exact h
      · intro h; exact Or.inr h
    · exact Iff.rfl

theorem ackOne_sync (cl : Cli) (i : Nat) :
    (ackOne cl i).vis = cl.vis ∧ (∀ j, j ∈ keys (ackOne cl i) ↔ j ∈ keys cl) := by
  unfold ackOne
  cases cl.inflight.find? (·.index = i) with
  | none => exact ⟨rfl, fun _ => Iff.rfl⟩
  | some info =>
    refine ⟨rfl, ?_⟩
    intro j
    unfold keys
    simp only
    have : ∀ (l : List Nat) (mt : List (Nat × Nat)),
        j ∈ (l.foldl (fun mt e => match aget mt e with
          | some t => if t ≤ info.tick then aset mt e info.tick else mt
          | none => mt) mt).map (·.1) ↔ j ∈ mt.map (·.1) := by
      intro l
      induction l with
      | nil => intro mt; exact Iff.rfl
      | cons x xs ih => intro mt; rw [List.foldl_cons, ih]; exact ackStep_keys info.tick mt x j
    exact this _ _

theorem ackFoldl_sync (l : List Nat) : ∀ (cl : Cli),
    (l.foldl ackOne cl).vis = cl.vis ∧ (∀ j, j ∈ keys (l.foldl ackOne cl) ↔ j ∈ keys cl) := by
  induction l with
  | nil => intro cl; exact ⟨rfl, fun _ => Iff.rfl⟩
  | cons i is ih =>
    intro cl
    rw [List.foldl_cons]
    obtain ⟨h1, h2⟩ := ih (ackOne cl i)
    obtain ⟨k1, k2⟩ := ackOne_sync cl i
    exact ⟨h1.trans k1, fun j => (h2 j).trans (k2 j)⟩

theorem processAcks_sync (cl : Cli) :
    cl.processAcks.vis = cl.vis ∧ (∀ j, j ∈ keys cl.processAcks ↔ j ∈ keys cl) ∧
    cl.processAcks.authorized = cl.authorized := by
  refine ⟨?_, ?_, (processAcks_keeps cl).2⟩
  · unfold Cli.processAcks
    split
    · rfl
    · exact (ackFoldl_sync cl.pendingAcks cl).1
  · unfold Cli.processAcks
    split
    · intro j; exact Iff.rfl
    · intro j
      have := (ackFoldl_sync cl.pendingAcks cl).2 j
      unfold keys at this ⊢
      exact this

/-- what the first half of a running frame does to one client before the run -/
def preG (s : Server) (ms : Nat) (cl : Cli) : Cli :=
  if (decide (s.timerAcc + s.frameMs ms ≥ s.timeout) && decide (s.timeout > 0)) = true then
    { cl.processAcks with inflight := cl.processAcks.inflight.filter fun i => !(i.time < s.elapsed + s.frameMs ms - s.timeout) }
  else cl.processAcks

theorem preG_sync (s : Server) (ms : Nat) (cl : Cli) :
    (preG s ms cl).vis = cl.vis ∧ (∀ j, j ∈ keys (preG s ms cl) ↔ j ∈ keys cl) ∧
    (preG s ms cl).authorized = cl.authorized := by
  unfold preG
  obtain ⟨h1, h2, h3⟩ := processAcks_sync cl
  split
  · exact ⟨h1, h2, h3⟩
  · exact ⟨h1, h2, h3⟩

theorem bufferRemovals_same (s : Server) :
    s.bufferRemovals.world = s.world ∧ s.bufferRemovals.despawnBuf = s.despawnBuf ∧
    s.bufferRemovals.elapsed = s.elapsed := by
  unfold Server.bufferRemovals
  split <;> exact ⟨rfl, rfl, rfl⟩

theorem preRun_fields (s : Server) (ticked : Bool) (ms : Nat) :
    (preRun s ticked ms).world = s.world ∧ (preRun s ticked ms).white = s.white ∧
    (preRun s ticked ms).running = s.running ∧ (preRun s ticked ms).despawnBuf = s.despawnBuf ∧
    (preRun s ticked ms).clients = s.clients.map (fun x => (x.1, preG s ms x.2)) := by
  unfold preRun
  simp only
  rw [(bufferRemovals_same _).1, (bufferRemovals_same _).2.1, (bufferRemovals_ctl _).1,
    (bufferRemovals_ctl _).2.2.2.2.1, (bufferRemovals_ctl _).2.2.2.2.2]
  unfold preG
  by_cases hf : (decide (s.timerAcc + s.frameMs ms ≥ s.timeout) && decide (s.timeout > 0)) = true
  · simp only [hf, if_true]
    cases ticked <;> simp [Server.cleanupAcks, List.map_map, Function.comp]
  · simp only [hf, Bool.false_eq_true, if_false]
    cases ticked <;> simp

theorem nil_of_no_keys {α : Type} (l : List (Nat × α)) (h : ∀ j, j ∉ l.map (·.1)) : l = [] := by
  cases l with
  | nil => rfl
  | cons x xs => exact absurd (List.mem_map_of_mem (f := fun (y : Nat × α) => y.1) (List.mem_cons_self (a := x) (l := xs))) (h x.1)

theorem CliSync_of_keys (w : Bool) (W : List (Nat × SEnt)) (D : List Nat) (cl cl' : Cli)
    (h1 : cl'.vis = cl.vis) (h2 : ∀ j, j ∈ keys cl' ↔ j ∈ keys cl) (h : CliSync w W D cl) : CliSync w W D cl' := by
  obtain ⟨hn, hc⟩ := h
  refine ⟨by unfold VisNodup at *; rw [h1]; exact hn, ?_⟩
  intro e
  obtain ⟨g, i1, i2⟩ := hc e
  refine ⟨g, ?_, fun hk => i2 ((h2 e).mp hk)⟩
  have : cell cl' e = cell cl e := by unfold cell; rw [h1]
  rw [this]; exact i1

/-- replacing every client by one with the same visibility, authorization and tracked entities -/
theorem syncInv_mapClients (s s' : Server) (G : Cli → Cli) (inv : SyncInv s)
    (hw : s'.world = s.world) (hwh : s'.white = s.white) (hr : s'.running = s.running) (hd : s'.despawnBuf = s.despawnBuf)
    (hc : s'.clients = s.clients.map (fun x => (x.1, G x.2)))
    (hG : ∀ cl, (G cl).vis = cl.vis ∧ (∀ j, j ∈ keys (G cl) ↔ j ∈ keys cl) ∧ (G cl).authorized = cl.authorized) :
    SyncInv s' := by
  have hnil : ∀ cl, cl.mutTick = [] → (G cl).mutTick = [] := by
    intro cl h
    apply nil_of_no_keys
    intro j hj
    have := ((hG cl).2.1 j).mp hj
    unfold keys at this
    rw [h] at this
    cases this
  have hmem : ∀ x, x ∈ s'.clients → ∃ cl, (x.1, cl) ∈ s.clients ∧ x.2 = G cl := by
    intro x hx
    rw [hc, List.mem_map] at hx
    obtain ⟨y, hy, rfl⟩ := hx
    exact ⟨y.2, hy, rfl⟩
  refine ⟨by rw [hw]; exact inv.worldNodup, ?_, ?_, ?_, ?_⟩
  · rw [hc, List.map_map]; exact inv.clientsNodup
  · rw [hr]
    intro hrun x hx
    obtain ⟨cl, hm, he⟩ := hmem x hx
    rw [he]; exact hnil cl (inv.stopped hrun _ hm)
  · intro x hx ha
    obtain ⟨cl, hm, he⟩ := hmem x hx
    rw [he] at ha ⊢
    rw [(hG cl).2.2] at ha
    exact hnil cl (inv.unauth _ hm ha)
  · rw [hw, hwh, hd]
    intro x hx
    obtain ⟨cl, hm, he⟩ := hmem x hx
    rw [he]
    exact CliSync_of_keys _ _ _ cl _ (hG cl).1 (hG cl).2.1 (inv.sync _ hm)

theorem preRun_sync (s : Server) (ticked : Bool) (ms : Nat) (inv : SyncInv s) : SyncInv (preRun s ticked ms) := by
  obtain ⟨h1, h2, h3, h4, h5⟩ := preRun_fields s ticked ms
  exact syncInv_mapClients s _ (preG s ms) inv h1 h2 h3 h4 h5 (preG_sync s ms)


/-- one whole server frame (what `Joint.frame` does to the replication state) -/
def Server.fullFrame (s : Server) (ticked : Bool) (ms : Nat) (parts : Nat → List (List Nat)) : Server :=
  (s.frameBegin ticked ms).1.frameEnd (s.frameBegin ticked ms).2.1 parts

/-- a client at the end of a frame in which `send_replication` ran -/
def ranClient (p : Server) (parts : Nat → List (List Nat)) (x : Nat × Cli) : Nat × Cli :=
  (x.1, if x.2.authorized then afterRun p (p.now + 1) p.elapsed (parts x.1) x.2 else x.2)

theorem fullFrame_ran (s : Server) (ticked : Bool) (ms : Nat) (parts : Nat → List (List Nat))
    (hr : s.running = true) (hc : (preRun s ticked ms).tickChanged = true) :
    (s.fullFrame ticked ms parts).clients = (preRun s ticked ms).clients.map (ranClient (preRun s ticked ms) parts) ∧
    (s.fullFrame ticked ms parts).world = (preRun s ticked ms).world ∧
    (s.fullFrame ticked ms parts).white = (preRun s ticked ms).white ∧
    (s.fullFrame ticked ms parts).running = (preRun s ticked ms).running ∧
    (s.fullFrame ticked ms parts).despawnBuf = [] ∧
    (s.frameBegin ticked ms).2.2 = (preRun s ticked ms).runAll.2 := by
  unfold Server.fullFrame
  rw [frameBegin_running s ticked ms hr]
  simp only [hc, Bool.not_true, Bool.false_eq_true, if_false]
  generalize preRun s ticked ms = p
  refine ⟨?_, ?_, ?_, ?_, ?_, trivial⟩
  · unfold Server.frameEnd
    simp only [Bool.not_true, Bool.false_eq_true, if_false]
    rw [(runAll_clients p).1, List.map_map]
    apply List.map_congr_left
    intro x _
    unfold ranClient
    simp only [Function.comp]
    cases ha : x.2.authorized with
    | false => simp [ha]
    | true =>
      simp only [if_true]
      have h2 : (runClient p (p.now + 1) x.2).1.authorized = true := by rw [(runClient_ticks p (p.now + 1) x.2).1]; exact ha
      simp only [h2, if_true]
      rfl
  · unfold Server.frameEnd Server.runAll; simp
  · unfold Server.frameEnd Server.runAll; simp
  · unfold Server.frameEnd Server.runAll; simp
  · unfold Server.frameEnd; simp


theorem afterRun_authorized (s : Server) (thisRun time : Nat) (parts : List (List Nat)) (cl : Cli) :
    (afterRun s thisRun time parts cl).authorized = cl.authorized := by
  unfold afterRun
  rw [(visUpdate_keeps _ _).2, (register_keeps _ _ _ _).2, (runClient_ticks s thisRun cl).1]

/-- the invariant after a frame in which the run happened, and the statement about every
authorized client -/
theorem ran_sync (p : Server) (parts : Nat → List (List Nat)) (s' : Server) (inv : SyncInv p)
    (hrun : p.running = true)
    (hc : s'.clients = p.clients.map (ranClient p parts)) (hw : s'.world = p.world) (hwh : s'.white = p.white)
    (hr : s'.running = p.running) (hd : s'.despawnBuf = []) :
    SyncInv s' ∧
    ∀ x ∈ s'.clients, x.2.authorized = true →
      ∀ e, e ∈ keys x.2 ↔ marked s'.world e ∧ Vis.isVisible s'.white (cell x.2 e) = true := by
  have hmem : ∀ x, x ∈ s'.clients → ∃ cl, (x.1, cl) ∈ p.clients ∧ x = ranClient p parts (x.1, cl) := by
    intro x hx
    rw [hc, List.mem_map] at hx
    obtain ⟨y, hy, rfl⟩ := hx
    exact ⟨y.2, hy, rfl⟩
  refine ⟨⟨by rw [hw]; exact inv.worldNodup, ?_, ?_, ?_, ?_⟩, ?_⟩
  · rw [hc, List.map_map]
    have : (fun (x : Nat × Cli) => x.1) ∘ ranClient p parts = fun x => x.1 := by funext x; rfl
    rw [this]; exact inv.clientsNodup
  · rw [hr, hrun]
    intro h; cases h
  · intro x hx ha
    obtain ⟨cl, hm, he⟩ := hmem x hx
    rw [he] at ha ⊢
    unfold ranClient at ha ⊢
    simp only at ha ⊢
    split at ha
    · rename_i hauth
      rw [afterRun_authorized, hauth] at ha; cases ha
    · rename_i hauth
      simp only [hauth]
      exact inv.unauth _ hm ha
  · rw [hw, hwh, hd]
    intro x hx
    obtain ⟨cl, hm, he⟩ := hmem x hx
    rw [he]
    unfold ranClient
    simp only
    split
    · exact (run_sync p (p.now + 1) p.elapsed (parts x.1) cl (inv.sync _ hm)).1
    · rename_i hauth
      have : cl.authorized = false := Bool.eq_false_iff.mpr hauth
      exact CliSync_nokeys _ _ _ _ _ _ (inv.unauth _ hm this) (inv.sync _ hm)
  · intro x hx ha e
    obtain ⟨cl, hm, he⟩ := hmem x hx
    rw [he] at ha ⊢
    unfold ranClient at ha ⊢
    simp only at ha ⊢
    split at ha
    · rename_i hauth
      simp only [hauth, if_true]
      rw [hw, hwh]
      exact (run_sync p (p.now + 1) p.elapsed (parts x.1) cl (inv.sync _ hm)).2 e
    · rename_i hauth
      exact absurd ha hauth


theorem syncInv_congr (s s' : Server) (inv : SyncInv s) (hw : s'.world = s.world) (hwh : s'.white = s.white)
    (hr : s'.running = s.running) (hd : s'.despawnBuf = s.despawnBuf) (hc : s'.clients = s.clients) : SyncInv s' := by
  refine ⟨by rw [hw]; exact inv.worldNodup, by rw [hc]; exact inv.clientsNodup, ?_, ?_, ?_⟩
  · rw [hr, hc]; exact inv.stopped
  · rw [hc]; exact inv.unauth
  · rw [hw, hwh, hd, hc]; exact inv.sync

theorem fullFrame_stopped (s : Server) (ticked : Bool) (ms : Nat) (parts : Nat → List (List Nat))
    (h : s.running = false) :
    (s.fullFrame ticked ms parts).world = s.world ∧ (s.fullFrame ticked ms parts).white = s.white ∧
    (s.fullFrame ticked ms parts).running = false ∧
    (s.fullFrame ticked ms parts).clients = (if s.lastRunning then [] else s.clients) ∧
    (s.fullFrame ticked ms parts).despawnBuf = (if s.lastRunning then [] else s.despawnBuf) := by
  unfold Server.fullFrame Server.frameBegin Server.frameEnd
  simp only [h, Bool.not_false, if_true, Bool.false_eq_true, if_false]
  cases hl : s.lastRunning
  · simp [hl, h]
  · simp [hl, Server.reset, h]

theorem fullFrame_idle (s : Server) (ticked : Bool) (ms : Nat) (parts : Nat → List (List Nat))
    (hr : s.running = true) (hc : (preRun s ticked ms).tickChanged = false) :
    (s.fullFrame ticked ms parts).world = (preRun s ticked ms).world ∧
    (s.fullFrame ticked ms parts).white = (preRun s ticked ms).white ∧
    (s.fullFrame ticked ms parts).running = (preRun s ticked ms).running ∧
    (s.fullFrame ticked ms parts).despawnBuf = (preRun s ticked ms).despawnBuf ∧
    (s.fullFrame ticked ms parts).clients = (preRun s ticked ms).clients := by
  unfold Server.fullFrame
  rw [frameBegin_running s ticked ms hr]
  simp only [hc, Bool.not_false, if_true]
  unfold Server.frameEnd
  simp

/-- **The invariant is preserved by every frame.** -/
theorem fullFrame_sync (s : Server) (ticked : Bool) (ms : Nat) (parts : Nat → List (List Nat)) (inv : SyncInv s) :
    SyncInv (s.fullFrame ticked ms parts) := by
  cases hr : s.running with
  | false =>
    obtain ⟨h1, h2, h3, h4, h5⟩ := fullFrame_stopped s ticked ms parts hr
    refine ⟨by rw [h1]; exact inv.worldNodup, ?_, ?_, ?_, ?_⟩
    · rw [h4]; split
      · exact List.nodup_nil
      · exact inv.clientsNodup
    · intro _ x hx
      rw [h4] at hx
      split at hx
      · cases hx
      · exact inv.stopped hr x hx
    · intro x hx
      rw [h4] at hx
      split at hx
      · cases hx
      · exact inv.unauth x hx
    · intro x hx
      rw [h4] at hx
      rw [h1, h2, h5]
      split at hx
      · cases hx
      · rename_i hl
        simp only [hl, if_false]
        exact inv.sync x hx
  | true =>
    have invp := preRun_sync s ticked ms inv
    cases hc : (preRun s ticked ms).tickChanged with
    | false =>
      obtain ⟨h1, h2, h3, h4, h5⟩ := fullFrame_idle s ticked ms parts hr hc
      exact syncInv_congr _ _ invp h1 h2 h3 h4 h5
    | true =>
      obtain ⟨h1, h2, h3, h4, h5, _⟩ := fullFrame_ran s ticked ms parts hr hc
      have hrun : (preRun s ticked ms).running = true := by rw [(preRun_fields s ticked ms).2.2.1]; exact hr
      exact (ran_sync (preRun s ticked ms) parts _ invp hrun h1 h2 h3 h4 h5).1

/-- **After a frame in which `send_replication` ran**, for every authorized client the server
tracks exactly the replicated entities the client can see. -/
theorem fullFrame_view (s : Server) (ticked : Bool) (ms : Nat) (parts : Nat → List (List Nat)) (inv : SyncInv s)
    (hr : s.running = true) (hc : (preRun s ticked ms).tickChanged = true) :
    ∀ x ∈ (s.fullFrame ticked ms parts).clients, x.2.authorized = true →
      ∀ e, e ∈ keys x.2 ↔ marked (s.fullFrame ticked ms parts).world e ∧
        Vis.isVisible (s.fullFrame ticked ms parts).white (cell x.2 e) = true := by
  have invp := preRun_sync s ticked ms inv
  obtain ⟨h1, h2, h3, h4, h5, _⟩ := fullFrame_ran s ticked ms parts hr hc
  have hrun : (preRun s ticked ms).running = true := by rw [(preRun_fields s ticked ms).2.2.1]; exact hr
  exact (ran_sync (preRun s ticked ms) parts _ invp hrun h1 h2 h3 h4 h5).2


/-- **The update message of a run carries exactly the difference** between what the server
tracked for the client before the frame and what it tracks afterwards; without an update message
the tracked set did not change. -/
theorem frame_diff (p : Server) (parts : Nat → List (List Nat)) (inv : SyncInv p) (x : Nat × Cli)
    (hx : x ∈ p.clients) (ha : x.2.authorized = true) :
    (∀ u, (runClient p (p.now + 1) x.2).2.update = some u →
      (∀ e, e ∈ keys x.2 → e ∉ keys (ranClient p parts x).2 → e ∈ u.despawns) ∧
      (∀ e, e ∈ keys (ranClient p parts x).2 → e ∉ keys x.2 → e ∈ u.changes.map (·.ent)) ∧
      (∀ e, e ∈ u.despawns → e ∈ keys (ranClient p parts x).2 → e ∈ u.changes.map (·.ent)) ∧
      (∀ e, e ∈ u.changes.map (·.ent) → e ∈ keys (ranClient p parts x).2)) ∧
    ((runClient p (p.now + 1) x.2).2.update = none →
      ∀ e, e ∈ keys (ranClient p parts x).2 ↔ e ∈ keys x.2) := by
  have hrc : (ranClient p parts x).2 = afterRun p (p.now + 1) p.elapsed (parts x.1) x.2 := by
    unfold ranClient; simp only [ha, if_true]
  rw [hrc]
  obtain ⟨d1, d2, d3, d4⟩ := run_diff p (p.now + 1) p.elapsed (parts x.1) x.2 (inv.sync x hx)
  obtain ⟨u1, u2⟩ := runClient_update p (p.now + 1) x.2
  refine ⟨?_, ?_⟩
  · intro u hu
    obtain ⟨e1, e2⟩ := u1 u hu
    rw [e1, e2]
    exact ⟨d1, d2, d3, d4⟩
  · intro hn e
    obtain ⟨e1, e2⟩ := u2 hn
    rw [e1] at d1
    rw [e2] at d2
    constructor
    · intro h
      by_cases hk : e ∈ keys x.2
      · exact hk
      · exact absurd (d2 e h hk) (by simp)
    · intro h
      by_cases hk : e ∈ keys (afterRun p (p.now + 1) p.elapsed (parts x.1) x.2)
      · exact hk
      · exact absurd (d1 e h hk) (by simp)

/-- what a receiver that applies DESPAWNS and then CHANGES holds afterwards -/
def applyKeys (held : List Nat) (u : Option Update) : List Nat :=
  match u with
  | none => held
  | some u => (held.filter fun e => !u.despawns.contains e) ++ u.changes.map (·.ent)

/-- A receiver that held exactly the tracked entities and applies the frame's update message
(despawns, then changes) holds exactly the entities tracked after the frame. -/
theorem applyKeys_tracks (p : Server) (parts : Nat → List (List Nat)) (inv : SyncInv p) (x : Nat × Cli)
    (hx : x ∈ p.clients) (ha : x.2.authorized = true) (held : List Nat) (hh : ∀ e, e ∈ held ↔ e ∈ keys x.2) :
    ∀ e, e ∈ applyKeys held (runClient p (p.now + 1) x.2).2.update ↔ e ∈ keys (ranClient p parts x).2 := by
  obtain ⟨f1, f2⟩ := frame_diff p parts inv x hx ha
  intro e
  cases hu : (runClient p (p.now + 1) x.2).2.update with
  | none =>
    unfold applyKeys
    simp only
    rw [hh e]
    exact (f2 hu e).symm
  | some u =>
    obtain ⟨g1, g2, g3, g4⟩ := f1 u hu
    unfold applyKeys
    simp only [List.mem_append, List.mem_filter, Bool.not_eq_true', List.contains_eq_mem, decide_eq_false_iff_not]
    constructor
    · rintro (⟨h1, h2⟩ | h)
      · have hk := (hh e).mp h1
        by_cases hk' : e ∈ keys (ranClient p parts x).2
        · exact hk'
        · exact absurd (g1 e hk hk') h2
      · exact g4 e h
    · intro hk'
      by_cases hc : e ∈ u.changes.map (·.ent)
      · exact Or.inr hc
      · left
        have hk : e ∈ keys x.2 := by
          by_cases hk : e ∈ keys x.2
          · exact hk
          · exact absurd (g2 e hk' hk) hc
        refine ⟨(hh e).mpr hk, ?_⟩
        intro hd
        exact hc (g3 e hd hk')

theorem ranClient_view (p : Server) (parts : Nat → List (List Nat)) (inv : SyncInv p) (x : Nat × Cli)
    (hx : x ∈ p.clients) (ha : x.2.authorized = true) (e : Nat) :
    e ∈ keys (ranClient p parts x).2 ↔
      marked p.world e ∧ Vis.isVisible p.white (cell (ranClient p parts x).2 e) = true := by
  have hrc : (ranClient p parts x).2 = afterRun p (p.now + 1) p.elapsed (parts x.1) x.2 := by
    unfold ranClient; simp only [ha, if_true]
  rw [hrc]
  exact (run_sync p (p.now + 1) p.elapsed (parts x.1) x.2 (inv.sync x hx)).2 e

/-- an entity the client held that it must not hold after the frame is in the DESPAWNS section
of an update message sent in this frame -/
theorem frame_lost_despawned (p : Server) (parts : Nat → List (List Nat)) (inv : SyncInv p) (x : Nat × Cli)
    (hx : x ∈ p.clients) (ha : x.2.authorized = true) (e : Nat) (hk : e ∈ keys x.2)
    (hnv : ¬ (marked p.world e ∧ Vis.isVisible p.white (cell (ranClient p parts x).2 e) = true)) :
    ∃ u, (runClient p (p.now + 1) x.2).2.update = some u ∧ e ∈ u.despawns := by
  have hnk : e ∉ keys (ranClient p parts x).2 := fun h => hnv ((ranClient_view p parts inv x hx ha e).mp h)
  obtain ⟨f1, f2⟩ := frame_diff p parts inv x hx ha
  cases hu : (runClient p (p.now + 1) x.2).2.update with
  | none => exact absurd ((f2 hu e).mpr hk) hnk
  | some u => exact ⟨u, rfl, (f1 u hu).1 e hk hnk⟩

/-- an entity the client did not hold and may see after the frame is in the CHANGES section of an
update message sent in this frame (whole: `collect_unknown_whole`) -/
theorem frame_gained_whole (p : Server) (parts : Nat → List (List Nat)) (inv : SyncInv p) (x : Nat × Cli)
    (hx : x ∈ p.clients) (ha : x.2.authorized = true) (e : Nat) (hk : e ∉ keys x.2)
    (hv : marked p.world e ∧ Vis.isVisible p.white (cell (ranClient p parts x).2 e) = true) :
    ∃ u, (runClient p (p.now + 1) x.2).2.update = some u ∧ e ∈ u.changes.map (·.ent) := by
  have hk' : e ∈ keys (ranClient p parts x).2 := (ranClient_view p parts inv x hx ha e).mpr hv
  obtain ⟨f1, f2⟩ := frame_diff p parts inv x hx ha
  cases hu : (runClient p (p.now + 1) x.2).2.update with
  | none => exact absurd ((f2 hu e).mp hk') hk
  | some u => exact ⟨u, rfl, (f1 u hu).2.1 e hk' hk⟩

end Replicon.Srv

namespace Replicon.Joint
open Replicon Replicon.Srv

/-- entity identifiers are never reused (Bevy's `Entity` carries a generation) -/
def LegalOp (s : Server) : Op → Prop
  | .spawn e _ _ => e ∉ s.world.map (·.1)
  | _ => True

def Legal : St → List Op → Prop
  | _, [] => True
  | st, op :: ops => LegalOp st.srv op ∧ Legal (step st op).1 ops

theorem frame_srv (st : St) (ticked : Bool) (ms : Nat) (parts : Nat → List (List Nat)) :
    (frame st ticked ms parts).1.srv = st.srv.fullFrame ticked ms parts := rfl

theorem sync_step (st : St) (op : Op) (inv : SyncInv st.srv) (hl : LegalOp st.srv op) :
    SyncInv (step st op).1.srv := by
  cases op with
  | spawn e m cs => exact syncInv_worldStep _ _ inv (spawn_worldStep st.srv e m cs inv.worldNodup hl)
  | despawn e => exact syncInv_worldStep _ _ inv (despawn_worldStep st.srv e inv.worldNodup)
  | insert e k v => exact syncInv_worldStep _ _ inv (insert_worldStep st.srv e k v inv.worldNodup)
  | mutate e k v => exact syncInv_worldStep _ _ inv (mutate_worldStep st.srv e k v inv.worldNodup)
  | remove e k => exact syncInv_worldStep _ _ inv (remove_worldStep st.srv e k inv.worldNodup)
  | mark e on => exact syncInv_worldStep _ _ inv (mark_worldStep st.srv e on inv.worldNodup)
  | vis c e b => exact setVisibility_sync st.srv c e b inv
  | map c e p => exact addMapping_sync st.srv c e p inv
  | connect c a => exact connect_sync st.srv c a inv
  | authorize c => exact authorize_sync st.srv c inv
  | disconnect c => exact disconnect_sync st.srv c inv
  | stop => exact stop_sync st.srv inv
  | start => exact start_sync st.srv inv
  | ack c idxs => exact receiveAck_sync st.srv c idxs inv
  | emit em => exact inv
  | frame t ms parts => exact fullFrame_sync st.srv t ms parts inv

theorem sync_run (ops : List Op) : ∀ (st : St), SyncInv st.srv → Legal st ops → SyncInv (run st ops).1.srv := by
  induction ops with
  | nil => intro st inv _; exact inv
  | cons op ops ih =>
    intro st inv hl
    exact ih (step st op).1 (sync_step st op inv hl.1) hl.2


instance (s : Server) (op : Op) : Decidable (LegalOp s op) := by
  cases op <;> unfold LegalOp <;> infer_instance

def decLegal : ∀ (st : St) (ops : List Op), Decidable (Legal st ops)
  | _, [] => isTrue trivial
  | st, op :: ops =>
    match (inferInstance : Decidable (LegalOp st.srv op)), decLegal (step st op).1 ops with
    | isTrue h1, isTrue h2 => isTrue ⟨h1, h2⟩
    | isFalse h1, _ => isFalse fun h => h1 h.1
    | _, isFalse h2 => isFalse fun h => h2 h.2

instance (st : St) (ops : List Op) : Decidable (Legal st ops) := decLegal st ops

/-- a server without entities and clients (any policy, any rules, any timeout) -/
theorem sync_empty (s : Server) (hw : s.world = []) (hc : s.clients = []) : SyncInv s := by
  refine ⟨by rw [hw]; exact List.nodup_nil, by rw [hc]; exact List.nodup_nil, ?_, ?_, ?_⟩
  · intro _ x hx; rw [hc] at hx; cases hx
  · intro x hx; rw [hc] at hx; cases hx
  · intro x hx; rw [hc] at hx; cases hx

/-- **All histories.**  After any legal history from a server without entities and clients,
whatever the next frame is: if `send_replication` runs in it, then afterwards the server tracks,
for every authorized client, exactly the replicated entities that client can see; and a
receiver that held the tracked entities and applies the frame's update message (despawns,
then changes) holds exactly the tracked entities again. -/
theorem history_sync (s0 : Server) (hw : s0.world = []) (hc0 : s0.clients = []) (ops : List Op)
    (hl : Legal { srv := s0 } ops) (ticked : Bool) (ms : Nat) (parts : Nat → List (List Nat))
    (hr : (run { srv := s0 } ops).1.srv.running = true)
    (hc : (preRun (run { srv := s0 } ops).1.srv ticked ms).tickChanged = true) :
    (∀ x ∈ (frame (run { srv := s0 } ops).1 ticked ms parts).1.srv.clients, x.2.authorized = true →
      ∀ e, e ∈ keys x.2 ↔
        marked (frame (run { srv := s0 } ops).1 ticked ms parts).1.srv.world e ∧
        Vis.isVisible (frame (run { srv := s0 } ops).1 ticked ms parts).1.srv.white (cell x.2 e) = true) ∧
    (∀ c o, (c, o) ∈ (frame (run { srv := s0 } ops).1 ticked ms parts).2.1 →
      ∃ cl cl', (c, cl) ∈ (preRun (run { srv := s0 } ops).1.srv ticked ms).clients ∧ cl.authorized = true ∧
        (c, cl') ∈ (frame (run { srv := s0 } ops).1 ticked ms parts).1.srv.clients ∧
        ∀ held : List Nat, (∀ e, e ∈ held ↔ e ∈ keys cl) → ∀ e, e ∈ applyKeys held o.update ↔ e ∈ keys cl') := by
  have inv0 : SyncInv ({ srv := s0 } : St).srv := sync_empty s0 hw hc0
  have inv := sync_run ops _ inv0 hl
  generalize (run { srv := s0 } ops).1 = st at inv hr hc ⊢
  have invp := preRun_sync st.srv ticked ms inv
  refine ⟨?_, ?_⟩
  · rw [frame_srv]
    exact fullFrame_view st.srv ticked ms parts inv hr hc
  · intro c o hm
    obtain ⟨h1, _, _, _, _, h6⟩ := fullFrame_ran st.srv ticked ms parts hr hc
    have hm' : (c, o) ∈ (preRun st.srv ticked ms).runAll.2 := by rw [← h6]; exact hm
    obtain ⟨cl, hcl, ha, rfl⟩ := (mem_runAll_outs _ c o).mp hm'
    refine ⟨cl, (ranClient (preRun st.srv ticked ms) parts (c, cl)).2, hcl, ha, ?_, ?_⟩
    · rw [frame_srv, h1]
      exact List.mem_map_of_mem (f := ranClient (preRun st.srv ticked ms) parts) hcl
    · intro held hh
      exact applyKeys_tracks (preRun st.srv ticked ms) parts invp (c, cl) hcl ha held hh


/-- the state right before `send_replication` of the next frame satisfies the invariant -/
theorem history_pre (s0 : Server) (hw : s0.world = []) (hc0 : s0.clients = []) (ops : List Op)
    (hl : Legal { srv := s0 } ops) (ticked : Bool) (ms : Nat) :
    SyncInv (preRun (run { srv := s0 } ops).1.srv ticked ms) :=
  preRun_sync _ ticked ms (sync_run ops _ (sync_empty s0 hw hc0) hl)

/-- what a frame with a run hands to the transport for replication -/
theorem frame_outs_eq (st : St) (ticked : Bool) (ms : Nat) (parts : Nat → List (List Nat))
    (hr : st.srv.running = true) (hc : (preRun st.srv ticked ms).tickChanged = true) :
    (frame st ticked ms parts).2.1 = (preRun st.srv ticked ms).runAll.2 :=
  (fullFrame_ran st.srv ticked ms parts hr hc).2.2.2.2.2

theorem frame_out_of_client (st : St) (ticked : Bool) (ms : Nat) (parts : Nat → List (List Nat))
    (hr : st.srv.running = true) (hc : (preRun st.srv ticked ms).tickChanged = true)
    (c : Nat) (cl : Cli) (hm : (c, cl) ∈ (preRun st.srv ticked ms).clients) (ha : cl.authorized = true) :
    (c, (runClient (preRun st.srv ticked ms) ((preRun st.srv ticked ms).now + 1) cl).2) ∈ (frame st ticked ms parts).2.1 := by
  rw [frame_outs_eq st ticked ms parts hr hc]
  exact (mem_runAll_outs _ c _).mpr ⟨cl, hm, ha, rfl⟩

end Replicon.Joint
