import Replicon.Proofs.Tick

namespace Replicon

/-! ### the confirmation log -/

namespace CountSpec

theorem count_confirm (sp : CountSpec) (t n q : Nat) :
    (sp.confirm t n).count q = if t = q then n else sp.count q := by
  unfold CountSpec.count CountSpec.confirm
  simp only [List.find?_cons]
  by_cases h : t = q
  · simp [h]
  · simp [h]

theorem received_confirm (sp : CountSpec) (t n q : Nat) :
    (sp.confirm t n).received q = if t = q then sp.received q + 1 else sp.received q := by
  unfold CountSpec.received CountSpec.confirm
  simp only [List.filter_cons]
  by_cases h : t = q
  · simp [h]
  · simp [h]

theorem count_of_no_calls (sp : CountSpec) (q : Nat) (h : ∀ c ∈ sp.calls, c.1 ≠ q) : sp.count q = 0 := by
  unfold CountSpec.count
  have : sp.calls.find? (fun c => decide (c.1 = q)) = none := by
    rw [List.find?_eq_none]
    intro c hc
    simp [h c hc]
  rw [this]

theorem received_of_no_calls (sp : CountSpec) (q : Nat) (h : ∀ c ∈ sp.calls, c.1 ≠ q) : sp.received q = 0 := by
  unfold CountSpec.received
  have : sp.calls.filter (fun c => decide (c.1 = q)) = [] := by
    rw [List.filter_eq_nil_iff]
    intro c hc
    simp [h c hc]
  rw [this]; rfl

end CountSpec

/-- What slot `i` of the ring must hold. -/
def slotOf (sp : CountSpec) (i : Nat) : TickMessages :=
  if i ≤ sp.last then { count := sp.count (sp.last - i), received := sp.received (sp.last - i) }
  else TickMessages.empty

/-- The ring `s` represents the confirmation log `sp`. -/
def SMTInv (s : MutateTicks) (sp : CountSpec) : Prop :=
  s.last = sp.last % 4294967296 ∧ s.ticks.length = 64 ∧ (∀ c ∈ sp.calls, c.1 ≤ sp.last) ∧
  ∀ i, i < 64 → s.ticks[i]? = some (slotOf sp i)

/-- A call that cannot trip the implementation's debug assertions (see `CountSpec.callOk`). -/
def CallOk (sp : CountSpec) (t n : Nat) : Prop :=
  n ≠ 0 ∧ (t + 64 ≤ sp.last ∨ ((sp.count t = 0 ∨ sp.count t = n) ∧ sp.received t < n))

theorem smt_init : SMTInv MutateTicks.default CountSpec.init := by
  refine ⟨rfl, ?_, ?_, ?_⟩
  · show (List.replicate 64 TickMessages.empty).length = 64
    simp
  · intro c hc; cases hc
  · intro i hi
    show (List.replicate 64 TickMessages.empty)[i]? = _
    rw [List.getElem?_replicate, if_pos hi]
    unfold slotOf
    by_cases h0 : i ≤ CountSpec.init.last
    · rw [if_pos h0]; rfl
    · rw [if_neg h0]

theorem rotate_get (l : List TickMessages) (d i : Nat) (hl : l.length = 64) (hd : d < 64) (hi : i < 64) :
    (MutateTicks.rotate l d)[i]? = if i < d then some TickMessages.empty else l[i - d]? := by
  unfold MutateTicks.rotate
  rw [hl, Nat.min_eq_left (by omega)]
  by_cases h : i < d
  · rw [if_pos h, List.getElem?_append_left (by simp; exact h), List.getElem?_replicate, if_pos h]
  · rw [if_neg h, List.getElem?_append_right (by simp; omega)]
    simp only [List.length_replicate]
    rw [List.getElem?_take, if_pos (by omega)]

theorem tm_confirm_ok (m : TickMessages) (n : Nat) (hn : n ≠ 0) (hc : m.count = 0 ∨ m.count = n)
    (hr : m.received < n) :
    m.confirm n = .ok ({ count := n, received := m.received + 1 },
      (n != 0 && n == m.received + 1)) := by
  unfold TickMessages.confirm
  rw [if_neg hn]
  have : (!(decide (m.count = 0) || decide (m.count = n))) = false := by
    rcases hc with hc | hc <;> simp [hc]
  rw [this, if_neg (by simp)]
  show (if m.received + 1 > n then _ else _) = _
  rw [if_neg (by omega)]
  rfl

theorem slotOf_eq (sp : CountSpec) (i : Nat) (h : i ≤ sp.last) :
    slotOf sp i = { count := sp.count (sp.last - i), received := sp.received (sp.last - i) } := by
  unfold slotOf; rw [if_pos h]

/-- Slots of ticks other than the confirmed one are unchanged when `last` does not move. -/
theorem slotOf_confirm_same_last (sp : CountSpec) (t n i : Nat) (ht : t ≤ sp.last)
    (hne : sp.last - i ≠ t ∨ sp.last < i) :
    slotOf (sp.confirm t n) i = slotOf sp i := by
  have hlast : (sp.confirm t n).last = sp.last := by
    show max sp.last t = sp.last
    exact Nat.max_eq_left ht
  unfold slotOf
  rw [hlast]
  by_cases hi : i ≤ sp.last
  · rw [if_pos hi, if_pos hi, CountSpec.count_confirm, CountSpec.received_confirm]
    have : ¬ t = sp.last - i := by omega
    rw [if_neg this, if_neg this]
  · rw [if_neg hi, if_neg hi]

theorem smt_confirm (s : MutateTicks) (sp : CountSpec) (t n : Nat) (inv : SMTInv s sp)
    (near : Near t sp.last) (ok : CallOk sp t n) :
    ∃ s' r, s.confirm (t % 4294967296) n = .ok (s', r) ∧ SMTInv s' (sp.confirm t n) ∧
      r = (decide (sp.last < t + 64) && (sp.confirm t n).complete t) := by
  obtain ⟨hl, hlen, hle, hslots⟩ := inv
  obtain ⟨hn, hok⟩ := ok
  have nr := near
  unfold Near at nr
  unfold MutateTicks.confirm
  rw [if_neg (show ¬ s.ticks.length ≠ MutateTicks.slots from fun h => h hlen), hl, tickGt_abs t sp.last near]
  by_cases hgt : t > sp.last
  · -- the tick advances the ring
    rw [decide_eq_true hgt, if_pos rfl, tickSub_abs t sp.last (by omega) (by omega)]
    dsimp only
    have hnocall : ∀ q, sp.last < q → ∀ c ∈ sp.calls, c.1 ≠ q := by
      intro q hq c hc heq
      have := hle c hc
      omega
    have hlast : (sp.confirm t n).last = t := by
      show max sp.last t = t
      exact Nat.max_eq_right (by omega)
    -- contents of the rotated / cleared ring
    have hnew : ∀ i, i < 64 →
        (if t - sp.last ≥ s.ticks.length then List.replicate MutateTicks.slots TickMessages.empty
          else MutateTicks.rotate s.ticks (t - sp.last))[i]?
        = some (if i < t - sp.last then TickMessages.empty else slotOf sp (i - (t - sp.last))) := by
      intro i hi
      by_cases hd : t - sp.last ≥ s.ticks.length
      · rw [if_pos hd]
        show (List.replicate 64 TickMessages.empty)[i]? = _
        rw [List.getElem?_replicate, if_pos hi, if_pos (by omega)]
      · rw [if_neg hd, rotate_get _ _ _ hlen (by omega) hi]
        by_cases hid : i < t - sp.last
        · rw [if_pos hid, if_pos hid]
        · rw [if_neg hid, if_neg hid, hslots _ (by omega)]
    generalize hgen : (if t - sp.last ≥ s.ticks.length then List.replicate MutateTicks.slots TickMessages.empty
          else MutateTicks.rotate s.ticks (t - sp.last)) = nt at hnew
    have hntlen : nt.length = 64 := by
      rw [← hgen]
      by_cases hd : t - sp.last ≥ s.ticks.length
      · rw [if_pos hd]; show (List.replicate 64 TickMessages.empty).length = 64; simp
      · rw [if_neg hd]; unfold MutateTicks.rotate; simp; omega
    cases nt with
    | nil => simp at hntlen
    | cons m rest =>
      have hm : m = TickMessages.empty := by
        have := hnew 0 (by omega)
        rw [if_pos (by omega)] at this
        simpa using this
      subst hm
      dsimp only
      rw [tm_confirm_ok TickMessages.empty n hn (Or.inl rfl) (by show 0 < n; omega)]
      refine ⟨_, _, rfl, ⟨?_, ?_, ?_, ?_⟩, ?_⟩
      · show t % 4294967296 = (sp.confirm t n).last % 4294967296
        rw [hlast]
      · simpa using hntlen
      · intro c hc
        rw [hlast]
        simp only [CountSpec.confirm, List.mem_cons] at hc
        rcases hc with hc | hc
        · subst hc; exact Nat.le_refl _
        · have := hle c hc; omega
      · intro i hi
        cases i with
        | zero =>
          show some _ = some (slotOf (sp.confirm t n) 0)
          rw [slotOf_eq _ _ (by omega), hlast, Nat.sub_zero, CountSpec.count_confirm, CountSpec.received_confirm,
            if_pos rfl, if_pos rfl, CountSpec.received_of_no_calls sp t (hnocall t hgt)]
          rfl
        | succ j =>
          show rest[j]? = _
          have := hnew (j + 1) hi
          rw [List.getElem?_cons_succ] at this
          rw [this]
          congr 1
          unfold slotOf
          rw [hlast]
          by_cases hjd : j + 1 < t - sp.last
          · rw [if_pos hjd, if_pos (by omega), CountSpec.count_confirm, CountSpec.received_confirm,
              if_neg (by omega), if_neg (by omega),
              CountSpec.count_of_no_calls sp _ (hnocall _ (by omega)),
              CountSpec.received_of_no_calls sp _ (hnocall _ (by omega))]
            rfl
          · rw [if_neg hjd]
            by_cases hjt : j + 1 ≤ t
            · rw [if_pos hjt, if_pos (by omega), CountSpec.count_confirm, CountSpec.received_confirm,
                if_neg (by omega), if_neg (by omega)]
              have e : sp.last - (j + 1 - (t - sp.last)) = t - (j + 1) := by omega
              rw [e]
            · rw [if_neg hjt, if_neg (by omega)]
      · show (n != 0 && n == TickMessages.empty.received + 1) = _
        rw [decide_eq_true (by omega : sp.last < t + 64), Bool.true_and]
        unfold CountSpec.complete
        rw [CountSpec.count_confirm, CountSpec.received_confirm, if_pos rfl, if_pos rfl,
          CountSpec.received_of_no_calls sp t (hnocall t hgt)]
        rfl
  · -- a tick at or before the last one
    rw [decide_eq_false hgt, if_neg (by simp), tickSub_abs sp.last t (by omega) (by omega)]
    dsimp only
    have hlast : (sp.confirm t n).last = sp.last := by
      show max sp.last t = sp.last
      exact Nat.max_eq_left (by omega)
    by_cases hw : sp.last - t < 64
    · have hslot := hslots (sp.last - t) hw
      rw [slotOf_eq _ _ (by omega)] at hslot
      have e : sp.last - (sp.last - t) = t := by omega
      rw [e] at hslot
      rw [hslot]
      dsimp only
      have hok2 : (sp.count t = 0 ∨ sp.count t = n) ∧ sp.received t < n := by
        rcases hok with h | h
        · omega
        · exact h
      rw [tm_confirm_ok _ n hn hok2.1 hok2.2]
      refine ⟨_, _, rfl, ⟨?_, ?_, ?_, ?_⟩, ?_⟩
      · show sp.last % 4294967296 = _; rw [hlast]
      · show (s.ticks.set _ _).length = 64; simpa using hlen
      · intro c hc
        rw [hlast]
        simp only [CountSpec.confirm, List.mem_cons] at hc
        rcases hc with hc | hc
        · subst hc; show t ≤ sp.last; omega
        · exact hle c hc
      · intro i hi
        show (s.ticks.set (sp.last - t) _)[i]? = _
        by_cases hid : sp.last - t = i
        · subst hid
          rw [List.getElem?_set_self (by omega)]
          rw [slotOf_eq _ _ (by rw [hlast]; omega), hlast, e, CountSpec.count_confirm,
            CountSpec.received_confirm, if_pos rfl, if_pos rfl]
        · rw [List.getElem?_set_ne hid, hslots i hi, slotOf_confirm_same_last sp t n i (by omega) (by omega)]
      · show (n != 0 && n == sp.received t + 1) = _
        rw [decide_eq_true (by omega : sp.last < t + 64), Bool.true_and]
        unfold CountSpec.complete
        rw [CountSpec.count_confirm, CountSpec.received_confirm, if_pos rfl, if_pos rfl]
    · have hnone : s.ticks[sp.last - t]? = none := by
        rw [List.getElem?_eq_none_iff]; omega
      rw [hnone]
      dsimp only
      refine ⟨s, false, rfl, ⟨?_, hlen, ?_, ?_⟩, ?_⟩
      · rw [hlast, hl]
      · intro c hc
        rw [hlast]
        simp only [CountSpec.confirm, List.mem_cons] at hc
        rcases hc with hc | hc
        · subst hc; show t ≤ sp.last; omega
        · exact hle c hc
      · intro i hi
        rw [hslots i hi, slotOf_confirm_same_last sp t n i (by omega) (by omega)]
      · rw [decide_eq_false (by omega : ¬ sp.last < t + 64)]; rfl

theorem smt_contains (s : MutateTicks) (sp : CountSpec) (q : Nat) (inv : SMTInv s sp)
    (near : Near q sp.last) : s.contains (q % 4294967296) = sp.contains q := by
  obtain ⟨hl, hlen, _, hslots⟩ := inv
  have nr := near
  unfold Near at nr
  unfold MutateTicks.contains CountSpec.contains
  rw [hl, tickGt_abs q sp.last near]
  by_cases hgt : q > sp.last
  · rw [decide_eq_true hgt, if_pos rfl, decide_eq_false (by omega : ¬ q ≤ sp.last)]; rfl
  · rw [decide_eq_false hgt, if_neg (by simp), tickSub_abs sp.last q (by omega) (by omega),
      decide_eq_true (by omega : q ≤ sp.last), Bool.true_and]
    by_cases hw : sp.last - q ≥ 64
    · have hnone : s.ticks[sp.last - q]? = none := by
        rw [List.getElem?_eq_none_iff]; omega
      rw [hnone, decide_eq_true hw]; rfl
    · rw [hslots _ (by omega), decide_eq_false hw, Bool.false_or, slotOf_eq _ _ (by omega)]
      have e : sp.last - (sp.last - q) = q := by omega
      rw [e]
      rfl

theorem any_take_drop (l : List TickMessages) (lo hi : Nat) (p : TickMessages → Bool) :
    ((l.take (hi + 1)).drop lo).any p = true ↔ ∃ i m, lo ≤ i ∧ i ≤ hi ∧ l[i]? = some m ∧ p m = true := by
  rw [List.any_eq_true]
  constructor
  · rintro ⟨m, hm, hp⟩
    obtain ⟨k, hk⟩ := List.mem_iff_getElem?.mp hm
    rw [List.getElem?_drop, List.getElem?_take] at hk
    by_cases hlt : lo + k < hi + 1
    · rw [if_pos hlt] at hk
      exact ⟨lo + k, m, by omega, by omega, hk, hp⟩
    · rw [if_neg hlt] at hk; cases hk
  · rintro ⟨i, m, h1, h2, h3, hp⟩
    refine ⟨m, ?_, hp⟩
    apply List.mem_iff_getElem?.mpr
    refine ⟨i - lo, ?_⟩
    rw [List.getElem?_drop, List.getElem?_take, if_pos (by omega)]
    have : lo + (i - lo) = i := by omega
    rw [this]; exact h3

theorem smt_contains_any (s : MutateTicks) (sp : CountSpec) (a b : Nat) (inv : SMTInv s sp)
    (hab : a ≤ b) (nab : Near a b) (na : Near a sp.last) (nb : Near b sp.last) (hbase : 64 ≤ sp.last) :
    ∃ v, s.containsAny (a % 4294967296) (b % 4294967296) = .ok v ∧ (v = true ↔ sp.containsAny a b) := by
  obtain ⟨hl, hlen, _, hslots⟩ := inv
  have nra := na
  have nrb := nb
  unfold Near at nra nrb
  unfold MutateTicks.containsAny CountSpec.containsAny
  rw [hl, tickLe_abs a b nab, decide_eq_true hab]
  rw [if_neg (by simp), tickGt_abs a sp.last na]
  by_cases hgt : a > sp.last
  · rw [decide_eq_true hgt, if_pos rfl]
    refine ⟨false, rfl, ?_⟩
    constructor
    · intro hf; cases hf
    · rintro ⟨q, h1, _, h3⟩
      unfold CountSpec.contains at h3
      simp only [Bool.and_eq_true, decide_eq_true_eq] at h3
      omega
  · rw [decide_eq_false hgt, if_neg (by simp), hlen]
    have hwin : tickSub (sp.last % 4294967296) 64 = (sp.last - 64) % 4294967296 := by
      unfold tickSub; omega
    have nwin : Near a (sp.last - 64) := by unfold Near; omega
    rw [hwin, tickLe_abs a (sp.last - 64) nwin]
    by_cases hold : a ≤ sp.last - 64
    · rw [decide_eq_true hold, if_pos rfl]
      refine ⟨true, rfl, ?_⟩
      constructor
      · intro _
        refine ⟨a, Nat.le_refl _, hab, ?_⟩
        unfold CountSpec.contains
        rw [decide_eq_true (by omega : a ≤ sp.last), decide_eq_true (by omega : sp.last - a ≥ 64)]
        rfl
      · intro _; rfl
    · rw [decide_eq_false hold, if_neg (by simp), tickLt_abs b sp.last nb]
      have he : (if decide (b < sp.last) = true then b % 4294967296 else sp.last % 4294967296)
          = (min b sp.last) % 4294967296 := by
        by_cases hb : b < sp.last
        · rw [decide_eq_true hb, if_pos rfl, Nat.min_eq_left (by omega)]
        · rw [decide_eq_false hb, if_neg (by simp), Nat.min_eq_right (by omega)]
      simp only [he]
      have hmin1 : a ≤ min b sp.last := by omega
      have hmin2 : min b sp.last ≤ sp.last := Nat.min_le_right _ _
      rw [tickSub_abs sp.last a (by omega) (by omega), tickSub_abs sp.last (min b sp.last) hmin2 (by omega)]
      rw [if_neg (by omega)]
      refine ⟨_, rfl, ?_⟩
      rw [any_take_drop]
      constructor
      · rintro ⟨i, m, h1, h2, h3, h4⟩
        rw [hslots i (by omega), slotOf_eq _ _ (by omega)] at h3
        simp only [Option.some.injEq] at h3
        subst h3
        refine ⟨sp.last - i, by omega, by omega, ?_⟩
        unfold CountSpec.contains
        rw [decide_eq_true (by omega : sp.last - i ≤ sp.last)]
        have : sp.complete (sp.last - i) = true := h4
        rw [this]; simp
      · rintro ⟨q, h1, h2, h3⟩
        unfold CountSpec.contains at h3
        simp only [Bool.and_eq_true, decide_eq_true_eq, Bool.or_eq_true] at h3
        obtain ⟨hq, hq2⟩ := h3
        have hc : sp.complete q = true := by
          rcases hq2 with hq2 | hq2
          · omega
          · exact hq2
        refine ⟨sp.last - q, _, by omega, by omega, hslots _ (by omega), ?_⟩
        rw [slotOf_eq _ _ (by omega)]
        have e : sp.last - (sp.last - q) = q := by omega
        rw [e]; exact hc

end Replicon
