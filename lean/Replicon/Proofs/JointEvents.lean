import Replicon.Proofs.Joint
/-
Remote events over arbitrary histories of the joint server model: what the transport is handed
for one client on one channel is a sub-sequence of the emissions (C05: at most once, in order,
never again on later frames, nothing from before the connect).
-/
namespace Replicon.Joint
open Replicon Replicon.Srv Replicon.Evt

/-- payload ids of the dependent events of channel `ch` among `l` -/
def depIds (ch : Nat) (l : List Emitted) : List Nat :=
  ((l.filter fun e => !e.independent).map (·.ev)).filter (·.chan = ch) |>.map (·.id)

/-- the events of the buffered sets that do not exclude client `c` -/
def bufFor (s : SrvEv) (c : Nat) : List Ev :=
  (s.buffer.filter fun b => !b.excluded.contains c).flatMap (·.events)

/-- what can still be flushed to client `c` on channel `ch`: the buffered sets that do not
exclude it, then this frame's emissions -/
def remaining (st : St) (c ch : Nat) : List Nat :=
  ((bufFor st.ev c).filter (·.chan = ch)).map (·.id) ++ depIds ch st.pending

/-- dependent events of channel `ch` emitted by a history, in emission order -/
def emittedIds (ch : Nat) : List Op → List Nat
  | [] => []
  | .emit em :: ops => (if !em.independent && em.ev.chan = ch then [em.ev.id] else []) ++ emittedIds ch ops
  | _ :: ops => emittedIds ch ops

/-- dependent events of channel `ch` handed to the transport for client `c`, over a history -/
def sentIds (c ch : Nat) (frames : List (List (Nat × ClientOut) × List Out)) : List Nat :=
  frames.flatMap fun fr => ((fr.2.filter fun o => o.client = c ∧ o.chan = ch ∧ o.stamp.isSome).map (·.id))

theorem depIds_append (ch : Nat) (a b : List Emitted) : depIds ch (a ++ b) = depIds ch a ++ depIds ch b := by
  simp [depIds]

end Replicon.Joint

namespace Replicon.Joint
open Replicon Replicon.Srv Replicon.Evt

theorem sendEvent_for_client_chan (peers : List Peer) (excl : List Nat) (e : Ev) (c ch : Nat)
    (h : (peers.map (·.id)).Nodup) :
    List.Sublist (((sendEvent peers excl e).filter fun o => o.client = c ∧ o.chan = ch ∧ o.stamp.isSome).map (·.id))
      (if e.chan = ch then [e.id] else []) := by
  by_cases hc : e.chan = ch
  · rw [if_pos hc]
    have h1 := sendEvent_for_client peers excl e c h
    refine List.Sublist.trans ?_ h1
    apply List.Sublist.map
    -- the finer filter selects a sublist of the coarser one
    have : ∀ o ∈ sendEvent peers excl e, (decide (o.client = c ∧ o.chan = ch ∧ o.stamp.isSome = true)) = decide (o.client = c) := by
      intro o ho
      obtain ⟨p, _, _, _, _, rfl⟩ := mem_sendEvent.mp ho
      simp [hc]
    rw [List.filter_congr this]
    exact List.Sublist.refl _
  · rw [if_neg hc]
    have : ((sendEvent peers excl e).filter fun o => o.client = c ∧ o.chan = ch ∧ o.stamp.isSome) = [] := by
      rw [List.filter_eq_nil_iff]
      intro o ho
      obtain ⟨p, _, _, _, _, rfl⟩ := mem_sendEvent.mp ho
      simp [hc]
    rw [this]
    exact List.Sublist.refl _

theorem sendSet_for_client_chan (peers : List Peer) (b : BufSet) (c ch : Nat) (h : (peers.map (·.id)).Nodup) :
    List.Sublist (((sendSet peers b).filter fun o => o.client = c ∧ o.chan = ch ∧ o.stamp.isSome).map (·.id))
      (if b.excluded.contains c then [] else (b.events.filter (·.chan = ch)).map (·.id)) := by
  unfold sendSet
  by_cases hx : b.excluded.contains c = true
  · rw [if_pos hx]
    have : ((b.events.flatMap (sendEvent peers b.excluded)).filter fun o => o.client = c ∧ o.chan = ch ∧ o.stamp.isSome) = [] := by
      rw [List.filter_eq_nil_iff]
      intro o ho
      rw [List.mem_flatMap] at ho
      obtain ⟨e, _, he⟩ := ho
      obtain ⟨p, _, hex, _, _, rfl⟩ := mem_sendEvent.mp he
      simp only [List.contains_eq_mem, decide_eq_true_eq] at hx
      simp only [decide_eq_true_eq, not_and]
      intro hc
      subst hc
      exact absurd hx hex
    rw [this]; exact List.Sublist.refl _
  · rw [if_neg hx]
    rw [List.filter_flatMap, List.map_flatMap]
    have : (b.events.filter (·.chan = ch)).map (·.id) = b.events.flatMap fun e => if e.chan = ch then [e.id] else [] := by
      induction b.events with
      | nil => rfl
      | cons x xs ih =>
        rw [List.filter_cons, List.flatMap_cons]
        by_cases hx : x.chan = ch
        · simp only [hx, decide_true, if_true, List.map_cons, List.singleton_append]
          rw [← ih]
        · simp only [hx, decide_false, Bool.false_eq_true, if_false, List.nil_append]
          exact ih
    rw [this]
    exact flatMap_sublist _ _ _ fun e _ => sendEvent_for_client_chan peers b.excluded e c ch h

theorem sendAll_order_chan (s : SrvEv) (peers : List Peer) (c ch : Nat) (h : (peers.map (·.id)).Nodup) :
    List.Sublist (((s.sendAll peers).filter fun o => o.client = c ∧ o.chan = ch ∧ o.stamp.isSome).map (·.id))
      (((bufFor s c).filter (·.chan = ch)).map (·.id)) := by
  unfold SrvEv.sendAll bufFor
  rw [List.filter_flatMap, List.map_flatMap]
  induction s.buffer with
  | nil => exact List.Sublist.refl _
  | cons b bs ih =>
    rw [List.flatMap_cons, List.filter_cons]
    have hb := sendSet_for_client_chan peers b c ch h
    by_cases hx : b.excluded.contains c = true
    · rw [if_pos hx] at hb
      simp only [hx, Bool.not_true, Bool.false_eq_true, if_false]
      have : ((sendSet peers b).filter fun o => o.client = c ∧ o.chan = ch ∧ o.stamp.isSome).map (·.id) = [] :=
        List.eq_nil_of_sublist_nil hb
      rw [this, List.nil_append]
      exact ih
    · rw [if_neg hx] at hb
      have hx' : (!b.excluded.contains c) = true := by simpa using hx
      simp only [hx', if_true, List.flatMap_cons, List.filter_append, List.map_append]
      exact List.Sublist.append hb ih

end Replicon.Joint

namespace Replicon.Joint
open Replicon Replicon.Srv Replicon.Evt

def pick (c ch : Nat) (outs : List Out) : List Nat :=
  (outs.filter fun o => o.client = c ∧ o.chan = ch ∧ o.stamp.isSome).map (·.id)

theorem pick_append (c ch : Nat) (a b : List Out) : pick c ch (a ++ b) = pick c ch a ++ pick c ch b := by
  simp [pick]

theorem pick_unstamped (c ch : Nat) (outs : List Out) (h : ∀ o ∈ outs, o.stamp = none) : pick c ch outs = [] := by
  unfold pick
  rw [List.map_eq_nil_iff, List.filter_eq_nil_iff]
  intro o ho
  simp [h o ho]

theorem peersOf_keys (s : Server) : (peersOf s).map (·.id) = s.clients.map (·.1) := by
  unfold peersOf; rw [List.map_map]; rfl

/-- the event side of a frame, in terms of the event model alone -/
theorem frame_ev (st : St) (ticked : Bool) (ms : Nat) (parts : Nat → List (List Nat)) :
    ∃ ev0 ran peers, (ev0 = st.ev ∨ ev0 = {}) ∧
      (frame st ticked ms parts).1.ev = (ev0.frame st.srv.running ran true st.pending peers).1 ∧
      (frame st ticked ms parts).2.2 = (ev0.frame st.srv.running ran true st.pending peers).2.1 ∧
      (frame st ticked ms parts).1.pending = [] ∧
      peers = peersOf (st.srv.frameBegin ticked ms).1 := by
  refine ⟨if (st.srv.lastRunning && !st.srv.running) then st.ev.clear else st.ev, (st.srv.frameBegin ticked ms).2.1,
    peersOf (st.srv.frameBegin ticked ms).1, ?_, rfl, rfl, rfl, rfl⟩
  split
  · right; rfl
  · left; rfl

theorem bufFor_bufferEvents (s : SrvEv) (es : List Ev) (c : Nat) : bufFor (s.bufferEvents es) c = bufFor s c ++ es := by
  simp [bufFor, SrvEv.bufferEvents]

theorem frame_sent_sub (st : St) (ticked : Bool) (ms : Nat) (parts : Nat → List (List Nat)) (c ch : Nat)
    (hk : (peersOf (st.srv.frameBegin ticked ms).1 |>.map (·.id)).Nodup) :
    List.Sublist (pick c ch (frame st ticked ms parts).2.2 ++ remaining (frame st ticked ms parts).1 c ch)
      (remaining st c ch) := by
  obtain ⟨ev0, ran, peers, hev0, h1, h2, h3, hp⟩ := frame_ev st ticked ms parts
  subst hp
  unfold remaining
  rw [h1, h2, h3]
  have hbuf0 : List.Sublist (((bufFor ev0 c).filter (·.chan = ch)).map (·.id))
      (((bufFor st.ev c).filter (·.chan = ch)).map (·.id)) := by
    rcases hev0 with rfl | rfl
    · exact List.Sublist.refl _
    · simp [bufFor]
  have hdep : depIds ch [] = [] := rfl
  rw [hdep, List.append_nil]
  unfold SrvEv.frame
  cases hr : st.srv.running
  · -- stopped: nothing is sent, this frame's emissions are only handled locally
    simp only [Bool.not_false, if_true, pick, List.filter_nil, List.map_nil, List.nil_append]
    exact hbuf0.trans (List.sublist_append_left _ _)
  · simp only [Bool.not_true, Bool.false_eq_true, if_false]
    have hind : pick c ch ((st.pending.filter (·.independent)).flatMap fun e => sendIndependent (peersOf (st.srv.frameBegin ticked ms).1) e.ev) = [] := by
      apply pick_unstamped
      intro o ho
      rw [List.mem_flatMap] at ho
      obtain ⟨e, _, he⟩ := ho
      exact independent_unstamped _ e.ev o he
    have hbufEv : ∀ (s : SrvEv) (es : List Ev),
        ((bufFor (s.bufferEvents es) c).filter (·.chan = ch)).map (·.id) =
        ((bufFor s c).filter (·.chan = ch)).map (·.id) ++ (es.filter (·.chan = ch)).map (·.id) := by
      intro s es
      rw [bufFor_bufferEvents]; simp
    cases ran
    · -- no flush: the emissions join the buffer
      simp only [Bool.false_eq_true, if_false]
      rw [hind, List.nil_append, hbufEv]
      exact List.Sublist.append hbuf0 (List.Sublist.refl _)
    · -- flush: per client and channel a sub-sequence of what was buffered, and nothing remains
      simp only [if_true]
      rw [pick_append, hind, List.nil_append]
      have hempty : ((bufFor ({} : SrvEv) c).filter (·.chan = ch)).map (·.id) = [] := rfl
      rw [hempty, List.append_nil]
      refine (sendAll_order_chan _ _ c ch hk).trans ?_
      rw [hbufEv]
      exact List.Sublist.append hbuf0 (List.Sublist.refl _)

theorem frameBegin_keys_nodup (s : Server) (ticked : Bool) (ms : Nat) (h : (s.clients.map (·.1)).Nodup) :
    ((s.frameBegin ticked ms).1.clients.map (·.1)).Nodup := by
  cases hr : s.running
  · obtain ⟨_, _, h3, _, _⟩ := frameBegin_stopped s ticked ms hr
    rw [h3]
    split
    · simp
    · exact h
  · rw [frameBegin_running s ticked ms hr]
    obtain ⟨G, _, hpc⟩ := preRun_clients s ticked ms
    have hp : ((preRun s ticked ms).clients.map (·.1)).Nodup := by
      rw [hpc, map_keyed_keys s.clients (fun _ cl => G cl)]; exact h
    split
    · exact hp
    · simp only
      rw [(runAll_clients (preRun s ticked ms)).1,
        map_keyed_keys (preRun s ticked ms).clients
          (fun _ cl => if cl.authorized then (runClient (preRun s ticked ms) ((preRun s ticked ms).now + 1) cl).1 else cl)]
      exact hp

theorem remaining_congr (st st' : St) (c ch : Nat)
    (hb : st'.ev = st.ev) (hp : st'.pending = st.pending) : remaining st' c ch = remaining st c ch := by
  unfold remaining; rw [hb, hp]

/-- `exclude_client`: the newcomer can no longer be sent anything that is buffered; for everybody
else nothing changes -/
theorem bufFor_exclude (s : SrvEv) (c' c : Nat) :
    bufFor (s.exclude c') c = if c' = c then [] else bufFor s c := by
  unfold bufFor SrvEv.exclude
  induction s.buffer with
  | nil => simp
  | cons b bs ih =>
    simp only [List.map_cons, List.filter_cons]
    by_cases hc : c' = c
    · subst hc
      simp only [List.contains_cons, BEq.rfl, Bool.true_or, Bool.not_true, Bool.false_eq_true, if_false, if_true] at ih ⊢
      exact ih
    · have hne : (c == c') = false := by simp [Ne.symm hc]
      simp only [List.contains_cons, hne, Bool.false_or, hc, if_false] at ih ⊢
      split
      · simp only [List.flatMap_cons, ih]
      · exact ih

/-- Over any history: what the transport is handed for client `c` on channel `ch` (dependent
events) is a sub-sequence of what could still be flushed to it at the start followed by what the
history emits on that channel — in that order, nothing twice. -/
theorem sent_sub (c ch : Nat) (ops : List Op) : ∀ (st : St), Inv st →
    List.Sublist (sentIds c ch (run st ops).2) (remaining st c ch ++ emittedIds ch ops) := by
  induction ops with
  | nil => intro st _; simp [run, sentIds]
  | cons op ops ih =>
    intro st inv
    have inv' := (inv_step st op inv).1
    have hrec := ih (step st op).1 inv'
    have hrun : sentIds c ch (run st (op :: ops)).2 =
        pick c ch (step st op).2.2 ++ sentIds c ch (run (step st op).1 ops).2 := by
      simp [run, sentIds, pick]
    rw [hrun]
    -- steps that send nothing and emit nothing
    have quiet : ∀ (hout : (step st op).2.2 = []) (hrem : List.Sublist (remaining (step st op).1 c ch) (remaining st c ch))
        (hem : emittedIds ch (op :: ops) = emittedIds ch ops),
        List.Sublist (pick c ch (step st op).2.2 ++ sentIds c ch (run (step st op).1 ops).2)
          (remaining st c ch ++ emittedIds ch (op :: ops)) := by
      intro hout hrem hem
      rw [hout, hem]
      simp only [pick, List.filter_nil, List.map_nil, List.nil_append]
      exact hrec.trans (List.Sublist.append hrem (List.Sublist.refl _))
    have same : ∀ st', st'.ev = st.ev → st'.pending = st.pending → List.Sublist (remaining st' c ch) (remaining st c ch) := by
      intro st' h1 h2; rw [remaining_congr st st' c ch h1 h2]; exact List.Sublist.refl _
    cases op with
    | spawn e m cs => exact quiet rfl (same _ rfl rfl) rfl
    | despawn e => exact quiet rfl (same _ rfl rfl) rfl
    | insert e k v => exact quiet rfl (same _ rfl rfl) rfl
    | mutate e k v => exact quiet rfl (same _ rfl rfl) rfl
    | remove e k => exact quiet rfl (same _ rfl rfl) rfl
    | mark e on => exact quiet rfl (same _ rfl rfl) rfl
    | vis c' e b => exact quiet rfl (same _ rfl rfl) rfl
    | map c' e p => exact quiet rfl (same _ rfl rfl) rfl
    | authorize c' => exact quiet rfl (same _ rfl rfl) rfl
    | disconnect c' => exact quiet rfl (same _ rfl rfl) rfl
    | stop => exact quiet rfl (same _ rfl rfl) rfl
    | start => exact quiet rfl (same _ rfl rfl) rfl
    | ack c' idxs => exact quiet rfl (same _ rfl rfl) rfl
    | connect c' a =>
      refine quiet rfl ?_ rfl
      show List.Sublist (remaining (step st (Op.connect c' a)).1 c ch) _
      unfold remaining
      simp only [step, bufFor_exclude]
      refine List.Sublist.append ?_ (List.Sublist.refl _)
      split
      · simp
      · exact List.Sublist.refl _
    | emit em =>
      have hrem : remaining (step st (.emit em)).1 c ch =
          remaining st c ch ++ (if !em.independent && em.ev.chan = ch then [em.ev.id] else []) := by
        simp only [step, remaining, depIds_append, List.append_assoc]
        congr 1
        cases hi : em.independent <;> by_cases hc : em.ev.chan = ch <;> simp [depIds, hi, hc]
      have hout : (step st (.emit em)).2.2 = [] := rfl
      rw [hout]
      simp only [pick, List.filter_nil, List.map_nil, List.nil_append]
      rw [hrem] at hrec
      simpa [emittedIds, List.append_assoc] using hrec
    | frame t ms parts =>
      have hk : ((peersOf (st.srv.frameBegin t ms).1).map (·.id)).Nodup := by
        rw [peersOf_keys]; exact frameBegin_keys_nodup st.srv t ms inv.nodup
      have hf := frame_sent_sub st t ms parts c ch hk
      have hem : emittedIds ch (Op.frame t ms parts :: ops) = emittedIds ch ops := rfl
      rw [hem]
      show List.Sublist (pick c ch (frame st t ms parts).2.2 ++ sentIds c ch (run (frame st t ms parts).1 ops).2) _
      have hrec' : List.Sublist (sentIds c ch (run (frame st t ms parts).1 ops).2)
          (remaining (frame st t ms parts).1 c ch ++ emittedIds ch ops) := hrec
      refine (List.Sublist.append (List.Sublist.refl _) hrec').trans ?_
      rw [← List.append_assoc]
      exact List.Sublist.append hf (List.Sublist.refl _)

end Replicon.Joint

namespace Replicon.Joint
open Replicon Replicon.Srv Replicon.Evt

/-- from the initial state: a sub-sequence of the emissions, in emission order -/
theorem sent_sub_init (c ch : Nat) (ops : List Op) :
    List.Sublist (sentIds c ch (run {} ops).2) (emittedIds ch ops) := by
  have := sent_sub c ch ops {} inv_init
  simpa [remaining, bufFor, depIds] using this

/-- after a connect: nothing that was buffered before reaches the newcomer -/
theorem sent_sub_connect (c ch : Nat) (a : Bool) (ops : List Op) (st : St) (inv : Inv st) :
    List.Sublist (sentIds c ch (run (step st (.connect c a)).1 ops).2) (depIds ch st.pending ++ emittedIds ch ops) := by
  have := sent_sub c ch ops (step st (.connect c a)).1 (inv_step st _ inv).1
  have hrem : remaining (step st (.connect c a)).1 c ch = depIds ch st.pending := by
    unfold remaining
    simp [step, bufFor_exclude]
  rw [hrem] at this
  exact this

end Replicon.Joint
