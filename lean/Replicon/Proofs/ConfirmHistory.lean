import Replicon.Proofs.Tick

namespace Replicon

/-! ### bit-level facts about the `u64` mask -/

theorem one_bit (j : Nat) : (1 : BitVec 64).getLsbD j = decide (j = 0) := by
  have : (1 : BitVec 64) = 1#64 := rfl
  rw [this, BitVec.getLsbD_one]; simp

theorem zero_bit (j : Nat) : (0 : BitVec 64).getLsbD j = false := by
  have : (0 : BitVec 64) = 0#64 := rfl
  rw [this, BitVec.getLsbD_zero]

theorem bv_set_bit (m : BitVec 64) (ago i : Nat) :
    (m ||| ((1 : BitVec 64) <<< ago)).getLsbD i = (m.getLsbD i || (decide (i < 64) && decide (i = ago))) := by
  rw [BitVec.getLsbD_or, BitVec.getLsbD_shiftLeft, one_bit]
  cases m.getLsbD i
  · simp only [Bool.false_or]
    rw [Bool.eq_iff_iff]
    simp only [Bool.and_eq_true, decide_eq_true_eq, Bool.not_eq_true', decide_eq_false_iff_not]
    omega
  · simp

theorem bv_advance_bit (m : BitVec 64) (d i : Nat) (hi : i < 64) :
    ((if d < 64 then m <<< d else 0) ||| (1 : BitVec 64)).getLsbD i
      = (decide (i = 0) || (decide (d ≤ i) && m.getLsbD (i - d))) := by
  rw [BitVec.getLsbD_or, one_bit]
  by_cases hd : d < 64
  · rw [if_pos hd, BitVec.getLsbD_shiftLeft]
    by_cases h0 : i = 0
    · subst h0; simp
    · by_cases hdi : d ≤ i
      · have : ¬ i < d := by omega
        simp [h0, hi, hdi, this]
      · have : i < d := by omega
        simp [h0, hi, hdi, this]
  · rw [if_neg hd, zero_bit]
    have : ¬ d ≤ i := by omega
    simp [this]

theorem bv_shr_bit0 (m : BitVec 64) (ago : Nat) : (m >>> ago).getLsbD 0 = m.getLsbD ago := by
  rw [BitVec.getLsbD_ushiftRight]; simp

theorem range_eq (len : Nat) (h : len < 64) :
    ((1 : BitVec 64) <<< len) - 1 = BitVec.ofNat 64 (2 ^ len - 1) := by
  apply BitVec.eq_of_toNat_eq
  rw [BitVec.toNat_sub, BitVec.toNat_shiftLeft, BitVec.toNat_ofNat]
  have h1 : (1 : BitVec 64).toNat = 1 := rfl
  rw [h1, Nat.shiftLeft_eq, Nat.one_mul]
  have hlt : 2 ^ len < 2 ^ 64 := Nat.pow_lt_pow_right (by omega) h
  have hpos : 0 < 2 ^ len := Nat.two_pow_pos _
  rw [Nat.mod_eq_of_lt hlt]
  have : (2:Nat) ^ 64 = 18446744073709551616 := by rfl
  simp only [this] at hlt ⊢
  omega

theorem range_bit (len j : Nat) :
    (if len < 64 then ((1 : BitVec 64) <<< len) - 1 else BitVec.allOnes 64).getLsbD j
      = (decide (j < 64) && decide (j < len)) := by
  by_cases h : len < 64
  · rw [if_pos h, range_eq len h, BitVec.getLsbD_ofNat, Nat.testBit_two_pow_sub_one]
  · rw [if_neg h, BitVec.getLsbD_allOnes]
    by_cases hj : j < 64
    · have : j < len := by omega
      simp [hj, this]
    · simp [hj]

theorem bv_ne_zero_iff (x : BitVec 64) : (x != 0) = true ↔ ∃ i, i < 64 ∧ x.getLsbD i = true := by
  constructor
  · intro h
    apply Classical.byContradiction
    intro hne
    have : x = 0 := by
      apply BitVec.eq_of_getLsbD_eq
      intro i hi
      rw [zero_bit]
      cases hb : x.getLsbD i
      · rfl
      · exact absurd ⟨i, hi, hb⟩ hne
    subst this
    simp at h
  · rintro ⟨i, _, hb⟩
    apply bne_iff_ne.mpr
    intro h0
    subst h0
    rw [zero_bit] at hb
    cases hb

/-- The mask test of `contains_any`. -/
theorem bv_range_test (m : BitVec 64) (len off : Nat) :
    ((m &&& ((if len < 64 then ((1 : BitVec 64) <<< len) - 1 else BitVec.allOnes 64) <<< off)) != 0) = true
      ↔ ∃ i, off ≤ i ∧ i < off + len ∧ i < 64 ∧ m.getLsbD i = true := by
  rw [bv_ne_zero_iff]
  constructor
  · rintro ⟨i, hi, hb⟩
    rw [BitVec.getLsbD_and, BitVec.getLsbD_shiftLeft, range_bit] at hb
    simp only [Bool.and_eq_true, decide_eq_true_eq, Bool.not_eq_true', decide_eq_false_iff_not] at hb
    exact ⟨i, by omega, by omega, hi, hb.1⟩
  · rintro ⟨i, h1, h2, h3, hb⟩
    refine ⟨i, h3, ?_⟩
    rw [BitVec.getLsbD_and, BitVec.getLsbD_shiftLeft, range_bit, hb]
    simp only [Bool.true_and, Bool.and_eq_true, decide_eq_true_eq, Bool.not_eq_true', decide_eq_false_iff_not]
    omega

/-! ### refinement of the plain-set specification -/

/-- The implementation state `h` represents the set `sp`. -/
def CHInv (h : ConfirmHistory) (sp : SetSpec) : Prop :=
  h.last = sp.last % 4294967296 ∧ (∀ s ∈ sp.confirmed, s ≤ sp.last) ∧
  ∀ i, i < 64 → h.mask.getLsbD i = (decide (i ≤ sp.last) && decide (sp.last - i ∈ sp.confirmed))

theorem ch_new (t0 : Nat) : CHInv (ConfirmHistory.new (t0 % 4294967296)) (SetSpec.new t0) := by
  refine ⟨rfl, ?_, ?_⟩
  · intro s hs
    simp only [SetSpec.new, List.mem_singleton] at hs
    subst hs; exact Nat.le_refl _
  · intro i _
    have hm : (ConfirmHistory.new (t0 % 4294967296)).mask = (1 : BitVec 64) := rfl
    rw [hm, one_bit]
    show decide (i = 0) = (decide (i ≤ t0) && decide (t0 - i ∈ [t0]))
    rw [Bool.eq_iff_iff]
    simp only [decide_eq_true_eq, Bool.and_eq_true, List.mem_singleton]
    omega

theorem ch_confirm (h : ConfirmHistory) (sp : SetSpec) (t : Nat) (inv : CHInv h sp)
    (near : Near t sp.last) :
    ∃ h', h.confirm (t % 4294967296) = .ok h' ∧ CHInv h' (sp.confirm t) := by
  obtain ⟨hl, hle, hbits⟩ := inv
  have nr := near
  unfold Near at nr
  unfold ConfirmHistory.confirm
  rw [hl, tickGt_abs t sp.last near]
  by_cases hgt : t > sp.last
  · rw [decide_eq_true hgt, if_pos rfl]
    unfold ConfirmHistory.setLastTick
    rw [hl, tickGe_abs t sp.last near, decide_eq_true (by omega : t ≥ sp.last), if_pos rfl,
      tickSub_abs t sp.last (by omega) (by omega)]
    refine ⟨_, rfl, ?_, ?_, ?_⟩
    · show t % 4294967296 = (max sp.last t) % 4294967296
      rw [Nat.max_eq_right (by omega)]
    · intro s hs
      simp only [SetSpec.confirm, List.mem_cons] at hs
      show s ≤ max sp.last t
      rcases hs with hs | hs
      · omega
      · have := hle s hs; omega
    · intro i hi
      show ((if t - sp.last < 64 then h.mask <<< (t - sp.last) else 0) ||| (1 : BitVec 64)).getLsbD i = _
      rw [bv_advance_bit _ _ _ hi]
      have hmax : (sp.confirm t).last = t := by
        show max sp.last t = t
        exact Nat.max_eq_right (by omega)
      rw [hmax]
      show _ = (decide (i ≤ t) && decide (t - i ∈ t :: sp.confirmed))
      by_cases h0 : i = 0
      · subst h0; simp
      · by_cases hdi : t - sp.last ≤ i
        · rw [hbits (i - (t - sp.last)) (by omega)]
          have e1 : sp.last - (i - (t - sp.last)) = t - i := by omega
          rw [Bool.eq_iff_iff]
          simp only [h0, hdi, decide_false, decide_true, Bool.false_or, Bool.true_and, Bool.and_eq_true,
            decide_eq_true_eq, List.mem_cons]
          constructor
          · rintro ⟨h1, h2⟩
            rw [e1] at h2
            exact ⟨by omega, Or.inr h2⟩
          · rintro ⟨h1, h2⟩
            rcases h2 with h2 | h2
            · omega
            · exact ⟨by omega, by rw [e1]; exact h2⟩
        · rw [Bool.eq_iff_iff]
          simp only [h0, hdi, decide_false, Bool.false_or, Bool.false_and, Bool.and_eq_true,
            decide_eq_true_eq, List.mem_cons]
          constructor
          · intro hf; cases hf
          · rintro ⟨h1, h2⟩
            rcases h2 with h2 | h2
            · omega
            · have := hle _ h2; omega
  · rw [decide_eq_false hgt, if_neg (by simp)]
    rw [tickSub_abs sp.last t (by omega) (by omega)]
    have hmax : (sp.confirm t).last = sp.last := by
      show max sp.last t = sp.last
      exact Nat.max_eq_left (by omega)
    show ∃ h', (if sp.last - t < 64 then h.set (sp.last - t) else Res.ok h) = _ ∧ _
    by_cases hago : sp.last - t < 64
    · rw [if_pos hago]
      unfold ConfirmHistory.set
      rw [if_pos (show sp.last - t < ConfirmHistory.window from hago)]
      refine ⟨_, rfl, ?_, ?_, ?_⟩
      · show h.last = _; rw [hmax, hl]
      · intro s hs
        simp only [SetSpec.confirm, List.mem_cons] at hs
        rw [hmax]
        rcases hs with hs | hs
        · omega
        · exact hle s hs
      · intro i hi
        show (h.mask ||| ((1 : BitVec 64) <<< (sp.last - t))).getLsbD i = _
        rw [bv_set_bit, hbits i hi, hmax]
        show _ = (decide (i ≤ sp.last) && decide (sp.last - i ∈ t :: sp.confirmed))
        rw [Bool.eq_iff_iff]
        simp only [hi, decide_true, Bool.true_and, Bool.or_eq_true, Bool.and_eq_true, decide_eq_true_eq,
          List.mem_cons]
        constructor
        · rintro (⟨h1, h2⟩ | h1)
          · exact ⟨h1, Or.inr h2⟩
          · exact ⟨by omega, Or.inl (by omega)⟩
        · rintro ⟨h1, h2 | h2⟩
          · right; omega
          · left; exact ⟨h1, h2⟩
    · rw [if_neg hago]
      refine ⟨h, rfl, ?_, ?_, ?_⟩
      · rw [hmax, hl]
      · intro s hs
        simp only [SetSpec.confirm, List.mem_cons] at hs
        rw [hmax]
        rcases hs with hs | hs
        · omega
        · exact hle s hs
      · intro i hi
        rw [hbits i hi, hmax]
        show _ = (decide (i ≤ sp.last) && decide (sp.last - i ∈ t :: sp.confirmed))
        rw [Bool.eq_iff_iff]
        simp only [Bool.and_eq_true, decide_eq_true_eq, List.mem_cons]
        constructor
        · rintro ⟨h1, h2⟩; exact ⟨h1, Or.inr h2⟩
        · rintro ⟨h1, h2 | h2⟩
          · omega
          · exact ⟨h1, h2⟩

theorem ch_contains (h : ConfirmHistory) (sp : SetSpec) (q : Nat) (inv : CHInv h sp)
    (near : Near q sp.last) :
    h.contains (q % 4294967296) = sp.contains q := by
  obtain ⟨hl, _, hbits⟩ := inv
  have nr := near
  unfold Near at nr
  unfold ConfirmHistory.contains SetSpec.contains
  rw [hl, tickGt_abs q sp.last near]
  by_cases hgt : q > sp.last
  · rw [decide_eq_true hgt, if_pos rfl, decide_eq_false (by omega : ¬ q ≤ sp.last)]; rfl
  · rw [decide_eq_false hgt, if_neg (by simp), tickSub_abs sp.last q (by omega) (by omega),
      decide_eq_true (by omega : q ≤ sp.last), Bool.true_and]
    show (decide (sp.last - q ≥ 64) || (h.mask >>> (sp.last - q)).getLsbD 0) = _
    rw [bv_shr_bit0]
    by_cases hw : sp.last - q ≥ 64
    · rw [decide_eq_true hw]; rfl
    · rw [decide_eq_false hw, Bool.false_or, Bool.false_or, hbits _ (by omega)]
      have e : sp.last - (sp.last - q) = q := by omega
      rw [e, decide_eq_true (by omega : sp.last - q ≤ sp.last), Bool.true_and]

theorem ch_contains_any (h : ConfirmHistory) (sp : SetSpec) (a b : Nat) (inv : CHInv h sp)
    (hab : a ≤ b) (nab : Near a b) (na : Near a sp.last) (nb : Near b sp.last) (hbase : 64 ≤ sp.last) :
    ∃ v, h.containsAny (a % 4294967296) (b % 4294967296) = .ok v ∧ (v = true ↔ sp.containsAny a b) := by
  obtain ⟨hl, _, hbits⟩ := inv
  have nra := na
  have nrb := nb
  unfold Near at nra nrb
  unfold ConfirmHistory.containsAny SetSpec.containsAny
  rw [hl, tickLe_abs a b nab, decide_eq_true hab]
  rw [if_neg (by simp), tickGt_abs a sp.last na]
  by_cases hgt : a > sp.last
  · rw [decide_eq_true hgt, if_pos rfl]
    refine ⟨false, rfl, ?_⟩
    constructor
    · intro hf; cases hf
    · rintro ⟨q, h1, _, h3⟩
      unfold SetSpec.contains at h3
      simp only [Bool.and_eq_true, decide_eq_true_eq] at h3
      omega
  · rw [decide_eq_false hgt, if_neg (by simp)]
    have hwin : tickSub (sp.last % 4294967296) ConfirmHistory.window = (sp.last - 64) % 4294967296 := by
      show tickSub (sp.last % 4294967296) 64 = _
      unfold tickSub; omega
    have nwin : Near a (sp.last - 64) := by unfold Near; omega
    rw [hwin, tickLe_abs a (sp.last - 64) nwin]
    by_cases hold : a ≤ sp.last - 64
    · rw [decide_eq_true hold, if_pos rfl]
      refine ⟨true, rfl, ?_⟩
      constructor
      · intro _
        refine ⟨a, Nat.le_refl _, hab, ?_⟩
        unfold SetSpec.contains
        rw [decide_eq_true (by omega : a ≤ sp.last), decide_eq_true (by omega : sp.last - a ≥ 64)]
        rfl
      · intro _; rfl
    · rw [decide_eq_false hold, if_neg (by simp), tickLt_abs b sp.last nb]
      -- e = min b last
      have he : (if decide (b < sp.last) = true then b % 4294967296 else sp.last % 4294967296)
          = (min b sp.last) % 4294967296 := by
        by_cases hb : b < sp.last
        · rw [decide_eq_true hb, if_pos rfl, Nat.min_eq_left (by omega)]
        · rw [decide_eq_false hb, if_neg (by simp), Nat.min_eq_right (by omega)]
      simp only [he]
      have hmin1 : a ≤ min b sp.last := by omega
      have hmin2 : min b sp.last ≤ sp.last := Nat.min_le_right _ _
      rw [tickSub_abs (min b sp.last) a hmin1 (by omega), tickSub_abs sp.last (min b sp.last) hmin2 (by omega)]
      rw [if_neg (by omega), if_neg (by omega)]
      refine ⟨_, rfl, ?_⟩
      rw [bv_range_test]
      constructor
      · rintro ⟨i, h1, h2, h3, h4⟩
        rw [hbits i h3] at h4
        simp only [Bool.and_eq_true, decide_eq_true_eq] at h4
        refine ⟨sp.last - i, by omega, by omega, ?_⟩
        unfold SetSpec.contains
        rw [decide_eq_true (by omega : sp.last - i ≤ sp.last), decide_eq_true h4.2]
        simp
      · rintro ⟨q, h1, h2, h3⟩
        unfold SetSpec.contains at h3
        simp only [Bool.and_eq_true, decide_eq_true_eq, Bool.or_eq_true] at h3
        obtain ⟨hq, hq2⟩ := h3
        have hmem : q ∈ sp.confirmed := by
          rcases hq2 with hq2 | hq2
          · omega
          · exact hq2
        refine ⟨sp.last - q, by omega, by omega, by omega, ?_⟩
        rw [hbits _ (by omega)]
        have e : sp.last - (sp.last - q) = q := by omega
        rw [e, decide_eq_true (by omega : sp.last - q ≤ sp.last), decide_eq_true hmem]
        rfl

end Replicon
