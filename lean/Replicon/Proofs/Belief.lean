import Replicon.Proofs.FramePerfect
import Replicon.Proofs.Jump

/-!
# The server's belief never runs ahead of the last replication run

`Bel s`: for every client, every tick the server believes an entity to be acknowledged at, and the
run tick of every mutate message still awaiting its acknowledgement, is at most the change tick of
the last replication run (`lastRun`), which lies before the current change tick.  It is the
hypothesis `hbel` of `frame_values_perfect` and the reason a component that is not sent has not
changed since the last run.
-/

namespace Replicon.Srv
open Replicon

def CliBel (L : Nat) (cl : Cli) : Prop :=
  (∀ e t, aget cl.mutTick e = some t → t ≤ L) ∧ (∀ i ∈ cl.inflight, i.tick ≤ L)

def Bel (s : Server) : Prop := s.lastRun < s.now ∧ ∀ x ∈ s.clients, CliBel s.lastRun x.2

theorem cliBel_mono (L L' : Nat) (h : L ≤ L') (cl : Cli) (b : CliBel L cl) : CliBel L' cl :=
  ⟨fun e t ht => Nat.le_trans (b.1 e t ht) h, fun i hi => Nat.le_trans (b.2 i hi) h⟩

theorem cliBel_fresh (L : Nat) (cl : Cli) (h1 : cl.mutTick = []) (h2 : cl.inflight = []) : CliBel L cl := by
  refine ⟨?_, ?_⟩
  · intro e t ht; rw [h1] at ht; cases ht
  · intro i hi; rw [h2] at hi; cases hi

theorem cliBel_congr (L : Nat) (cl cl' : Cli) (h1 : cl'.mutTick = cl.mutTick) (h2 : cl'.inflight = cl.inflight)
    (b : CliBel L cl) : CliBel L cl' := by
  unfold CliBel; rw [h1, h2]; exact b

theorem ackFold_bound (L tick : Nat) (ht : tick ≤ L) : ∀ (ents : List Nat) (mt : List (Nat × Nat)),
    (∀ e t, aget mt e = some t → t ≤ L) →
    ∀ e t, aget (ents.foldl (fun mt e => match aget mt e with
      | some t => if t ≤ tick then aset mt e tick else mt
      | none => mt) mt) e = some t → t ≤ L := by
  intro ents
  induction ents with
  | nil => intro mt h e t hh; exact h e t hh
  | cons x xs ih =>
    intro mt h e t hh
    rw [List.foldl_cons] at hh
    refine ih _ ?_ e t hh
    intro e' t' h'
    cases hg : aget mt x with
    | none => simp only [hg] at h'; exact h e' t' h'
    | some t0 =>
      simp only [hg] at h'
      by_cases hle : t0 ≤ tick
      · rw [if_pos hle, Cli.aget_aset] at h'
        by_cases he : e' = x
        · rw [if_pos he] at h'
          have := Option.some.inj h'
          omega
        · rw [if_neg he] at h'; exact h e' t' h'
      · rw [if_neg hle] at h'; exact h e' t' h'

theorem ackOne_bel (L : Nat) (cl : Cli) (idx : Nat) (b : CliBel L cl) : CliBel L (ackOne cl idx) := by
  unfold ackOne
  cases hf : cl.inflight.find? (·.index = idx) with
  | none => exact b
  | some info =>
    simp only
    have hin : info ∈ cl.inflight := List.mem_of_find?_eq_some hf
    refine ⟨?_, ?_⟩
    · exact ackFold_bound L info.tick (b.2 info hin) info.ents cl.mutTick b.1
    · intro i hi
      exact b.2 i (List.mem_filter.mp hi).1

theorem ackFoldl_bel (L : Nat) : ∀ (l : List Nat) (cl : Cli), CliBel L cl → CliBel L (l.foldl ackOne cl) := by
  intro l
  induction l with
  | nil => intro cl b; exact b
  | cons x xs ih => intro cl b; rw [List.foldl_cons]; exact ih _ (ackOne_bel L cl x b)

theorem processAcks_bel (L : Nat) (cl : Cli) (b : CliBel L cl) : CliBel L cl.processAcks := by
  unfold Cli.processAcks
  split
  · exact cliBel_congr L cl _ rfl rfl b
  · exact cliBel_congr L (cl.pendingAcks.foldl ackOne cl) _ rfl rfl (ackFoldl_bel L cl.pendingAcks cl b)

theorem preG_bel (s : Server) (ms : Nat) (L : Nat) (cl : Cli) (b : CliBel L cl) : CliBel L (preG s ms cl) := by
  unfold preG
  have b1 := processAcks_bel L cl b
  split
  · exact ⟨b1.1, fun i hi => b1.2 i (List.mem_filter.mp hi).1⟩
  · exact b1

theorem foldl_aset_bound (T : Nat) : ∀ (l : List Nat) (mt : List (Nat × Nat)) (L : Nat), T ≤ L →
    (∀ e t, aget mt e = some t → t ≤ L) →
    ∀ e t, aget (l.foldl (fun mt e => aset mt e T) mt) e = some t → t ≤ L := by
  intro l
  induction l with
  | nil => intro mt L _ h e t hh; exact h e t hh
  | cons x xs ih =>
    intro mt L hT h e t hh
    rw [List.foldl_cons] at hh
    refine ih _ L hT ?_ e t hh
    intro e' t' h'
    rw [Cli.aget_aset] at h'
    by_cases he : e' = x
    · rw [if_pos he] at h'
      have := Option.some.inj h'
      omega
    · rw [if_neg he] at h'; exact h e' t' h'

theorem despawnStep_inflight (s : Server) (acc : Cli × List Nat) (x : Nat) :
    (despawnStep s acc x).1.inflight = acc.1.inflight := by
  unfold despawnStep setCell
  rfl

theorem despawnFold_inflight (s : Server) : ∀ (l : List Nat) (acc : Cli × List Nat),
    (l.foldl (despawnStep s) acc).1.inflight = acc.1.inflight := by
  intro l
  induction l with
  | nil => intro acc; rfl
  | cons x xs ih => intro acc; rw [List.foldl_cons, ih, despawnStep_inflight]

theorem runCl1_inflight (s : Server) (cl : Cli) : (runCl1 s cl).inflight = cl.inflight := by
  unfold runCl1 despawnPhase
  simp only
  exact despawnFold_inflight s s.despawnBuf ({ cl with mappings := [] }, [])

theorem runClient_inflight (s : Server) (thisRun : Nat) (cl : Cli) :
    (runClient s thisRun cl).1.inflight = cl.inflight := by
  have h : (runClient s thisRun cl).1.inflight = (runCl1 s cl).inflight := by
    unfold runClient runCl1
    simp only
    split <;> rfl
  rw [h, runCl1_inflight]

theorem runClient_mutTick (s : Server) (thisRun : Nat) (cl : Cli) :
    (runClient s thisRun cl).1.mutTick =
      (runBumped s thisRun cl).foldl (fun mt e => aset mt e thisRun) (runCl1 s cl).mutTick := by
  unfold runClient runBumped runCl1
  simp only
  split <;> rfl

theorem register_inflight_bound (thisRun time L : Nat) (hT : thisRun ≤ L) : ∀ (parts : List (List Nat)) (cl : Cli),
    (∀ i ∈ cl.inflight, i.tick ≤ L) → ∀ i ∈ (cl.register thisRun time parts).inflight, i.tick ≤ L := by
  unfold Cli.register
  intro parts
  induction parts with
  | nil => intro cl h i hi; exact h i hi
  | cons p ps ih =>
    intro cl h i hi
    rw [List.foldl_cons] at hi
    refine ih _ ?_ i hi
    intro j hj
    simp only [List.mem_cons] at hj
    rcases hj with rfl | hj
    · exact hT
    · exact h j (List.mem_filter.mp hj).1

/-- one run for one client: the belief is bounded by the run's own tick -/
theorem afterRun_bel (s : Server) (thisRun time : Nat) (parts : List (List Nat)) (cl : Cli) (L : Nat)
    (hL : L ≤ thisRun) (b : CliBel L cl) : CliBel thisRun (afterRun s thisRun time parts cl) := by
  unfold afterRun
  refine ⟨?_, ?_⟩
  · have h1 : (((runClient s thisRun cl).1.register thisRun time parts).visUpdate s.white).mutTick =
        (runClient s thisRun cl).1.mutTick := by
      unfold Cli.visUpdate
      simp only
      exact (register_mutTick_vis thisRun time parts _).1
    rw [h1, runClient_mutTick]
    apply foldl_aset_bound thisRun _ _ thisRun (Nat.le_refl _)
    intro e t ht
    exact Nat.le_trans (b.1 e t (runCl1_mutTick_sub s cl e t ht)) hL
  · have h2 : (((runClient s thisRun cl).1.register thisRun time parts).visUpdate s.white).inflight =
        ((runClient s thisRun cl).1.register thisRun time parts).inflight := by
      unfold Cli.visUpdate; rfl
    rw [h2]
    apply register_inflight_bound thisRun time thisRun (Nat.le_refl _)
    rw [runClient_inflight]
    intro i hi
    exact Nat.le_trans (b.2 i hi) hL

theorem bel_congr (s s' : Server) (hc : s'.clients = s.clients) (hl : s'.lastRun = s.lastRun) (hn : s'.now = s.now)
    (b : Bel s) : Bel s' := by
  unfold Bel; rw [hc, hl, hn]; exact b

theorem bel_updClient (s : Server) (c : Nat) (f : Cli → Cli)
    (hf : ∀ cl, CliBel s.lastRun cl → CliBel s.lastRun (f cl)) (b : Bel s) : Bel (s.updClient c f) := by
  unfold Server.updClient
  cases hg : aget s.clients c with
  | none => exact b
  | some cl =>
    simp only
    refine ⟨b.1, ?_⟩
    intro x hx
    have hx' : x ∈ aset s.clients c (f cl) := hx
    unfold aset at hx'
    rcases List.mem_cons.mp hx' with h | h
    · rw [h]
      exact hf cl (b.2 (c, cl) (mem_of_aget s.clients c cl hg))
    · exact b.2 x (List.mem_filter.mp h).1

/-- a whole frame keeps the belief behind the last run -/
theorem fullFrame_bel (s : Server) (ticked : Bool) (ms : Nat) (parts : Nat → List (List Nat)) (b : Bel s) :
    Bel (s.fullFrame ticked ms parts) := by
  cases hr : s.running with
  | false =>
    obtain ⟨_, _, _, hc, _⟩ := fullFrame_stopped s ticked ms parts hr
    obtain ⟨hl, hn, _⟩ := fullFrame_stopped_kind s ticked ms parts hr
    unfold Bel
    rw [hl, hn, hc]
    refine ⟨by have := b.1; omega, ?_⟩
    intro x hx
    split at hx
    · cases hx
    · exact b.2 x hx
  | true =>
    obtain ⟨_, _, _, _, p5⟩ := preRun_fields s ticked ms
    obtain ⟨q1, q2, _⟩ := preRun_kindfields s ticked ms hr
    have hpre : ∀ y ∈ (preRun s ticked ms).clients, CliBel s.lastRun y.2 := by
      intro y hy
      rw [p5, List.mem_map] at hy
      obtain ⟨z, hz, rfl⟩ := hy
      exact preG_bel s ms s.lastRun z.2 (b.2 z hz)
    cases hc : (preRun s ticked ms).tickChanged with
    | false =>
      obtain ⟨_, _, _, _, hcl⟩ := fullFrame_idle s ticked ms parts hr hc
      obtain ⟨hl, hn, _⟩ := fullFrame_idle_kind s ticked ms parts hr hc
      unfold Bel
      rw [hl, hn, hcl, q1, q2]
      exact ⟨by have := b.1; omega, hpre⟩
    | true =>
      obtain ⟨hcl, _⟩ := fullFrame_ran s ticked ms parts hr hc
      obtain ⟨hl, hn, _⟩ := fullFrame_ran_kind s ticked ms parts hr hc
      unfold Bel
      rw [hl, hn, hcl, q2]
      refine ⟨by omega, ?_⟩
      intro y hy
      rw [List.mem_map] at hy
      obtain ⟨z, hz, rfl⟩ := hy
      have bz := hpre z hz
      have hle : s.lastRun ≤ s.now + 1 := by have := b.1; omega
      unfold ranClient
      simp only
      split
      · rw [q2]
        exact afterRun_bel _ _ _ _ z.2 s.lastRun hle bz
      · exact cliBel_mono s.lastRun (s.now + 1) hle z.2 bz

end Replicon.Srv

namespace Replicon.Joint
open Replicon Replicon.Srv

theorem bel_step (st : St) (op : Op) (b : Bel st.srv) : Bel (step st op).1.srv := by
  cases op with
  | spawn e m cs => exact bel_congr st.srv _ rfl rfl rfl b
  | despawn e =>
    show Bel (st.srv.despawn e)
    unfold Server.despawn
    split
    · exact b
    · rename_i ent _
      apply bel_congr st.srv _ _ _ _ b
      · simp only; split <;> (try unfold Server.leaveReplication) <;> (try split) <;> rfl
      · simp only; split <;> (try unfold Server.leaveReplication) <;> (try split) <;> rfl
      · simp only; split <;> (try unfold Server.leaveReplication) <;> (try split) <;> rfl
  | insert e k v =>
    show Bel (st.srv.insert e k v)
    unfold Server.insert
    split
    · exact b
    · exact bel_congr st.srv _ rfl rfl rfl b
  | mutate e k v =>
    show Bel (st.srv.mutate e k v)
    unfold Server.mutate
    split
    · exact b
    · split
      · exact b
      · exact bel_congr st.srv _ rfl rfl rfl b
  | remove e k =>
    show Bel (st.srv.remove e k)
    unfold Server.remove
    split
    · exact b
    · split
      · exact b
      · exact bel_congr st.srv _ rfl rfl rfl b
  | mark e on =>
    show Bel (st.srv.mark e on)
    unfold Server.mark
    split
    · exact b
    · split
      · split
        · exact b
        · exact bel_congr st.srv _ rfl rfl rfl b
      · split
        · exact b
        · apply bel_congr st.srv _ _ _ _ b
          · simp only; unfold Server.leaveReplication; split <;> rfl
          · simp only; unfold Server.leaveReplication; split <;> rfl
          · simp only; unfold Server.leaveReplication; split <;> rfl
  | vis c e v =>
    show Bel (st.srv.setVisibility c e v)
    exact bel_updClient st.srv c _ (fun cl h => cliBel_congr _ cl _ (setCell_keys cl e _) (by unfold setCell; rfl) h) b
  | map c e p =>
    show Bel (st.srv.addMapping c e p)
    exact bel_updClient st.srv c _ (fun cl h => cliBel_congr _ cl _ rfl rfl h) b
  | connect c a =>
    show Bel (st.srv.connect c a)
    refine ⟨b.1, ?_⟩
    intro x hx
    have hx' : x ∈ aset st.srv.clients c { authorized := a } := hx
    unfold aset at hx'
    rcases List.mem_cons.mp hx' with h | h
    · rw [h]; exact cliBel_fresh _ _ rfl rfl
    · exact b.2 x (List.mem_filter.mp h).1
  | authorize c =>
    show Bel (st.srv.authorize c)
    apply bel_updClient st.srv c _ _ b
    intro cl h
    split
    · exact h
    · exact cliBel_fresh _ _ rfl rfl
  | disconnect c =>
    show Bel (st.srv.disconnect c)
    refine ⟨b.1, ?_⟩
    intro x hx
    have hx' : x ∈ adel st.srv.clients c := hx
    unfold adel at hx'
    exact b.2 x (List.mem_filter.mp hx').1
  | stop =>
    show Bel st.srv.stop
    refine ⟨b.1, ?_⟩
    intro x hx
    cases hx
  | start => exact bel_congr st.srv _ rfl rfl rfl b
  | ack c idxs =>
    show Bel (st.srv.receiveAck c idxs)
    exact bel_updClient st.srv c _ (fun cl h => cliBel_congr _ cl _ rfl rfl h) b
  | emit em => exact b
  | frame t ms parts =>
    rw [show (step st (.frame t ms parts)).1.srv = st.srv.fullFrame t ms parts from rfl]
    exact fullFrame_bel st.srv t ms parts b

theorem bel_run (ops : List Op) : ∀ (st : St), Bel st.srv → Bel (run st ops).1.srv := by
  induction ops with
  | nil => intro st b; exact b
  | cons op ops ih => intro st b; exact ih (step st op).1 (bel_step st op b)

/-- **Over ALL histories**: from any server without clients whose change-tick clock has started, the
server's belief about every client — the tick it takes every tracked entity to be acknowledged
at, and the run tick of every mutate message awaiting its acknowledgement — is at most the change
tick of the last replication run. -/
theorem history_belief (s0 : Server) (hc0 : s0.clients = []) (ht : s0.lastRun < s0.now) (ops : List Op) :
    Bel (run { srv := s0 } ops).1.srv := by
  apply bel_run ops
  refine ⟨ht, ?_⟩
  intro x hx
  have : x ∈ s0.clients := hx
  rw [hc0] at this; cases this

/-- **One run after ANY history, both sides, every value, under perfect delivery.**  After any history
of the joint server model (entity identifiers not reused, a stopped server sees a frame before a
restart, no pre-spawn mappings; rules for distinct components), in the next frame of a running
server, for every client: all server-side hypotheses of `frame_values_perfect` hold (they are
invariants of histories: `SyncInv`, `RemInv`, `KindInv`, `Bel`), so a well-formed receiver that
holds the entities the server tracks for the client, has each of them confirmed at a tick older
than this frame's, and has the current value of every every-tick plain component neither added nor
changed since the last run, has after the run's update message and every record of its mutate
messages the current value of every every-tick plain component of every entity tracked after the run. -/
theorem history_run_values_perfect (s0 : Server) (hw : s0.world = []) (hc0 : s0.clients = []) (hb : s0.removalBuf = [])
    (ht : s0.lastRun < s0.now) (hrates : (s0.rates.map (·.1)).Nodup)
    (ops : List Op) (hl : Legal2 { srv := s0 } ops) (ticked : Bool) (ms : Nat)
    (hr : (run { srv := s0 } ops).1.srv.running = true)
    (z : Nat × Cli) (hz : z ∈ (run { srv := s0 } ops).1.srv.clients)
    (c : Cli.Client) (wf : Cli.WF c) (hh : ∀ se, Cli.held c se ↔ se ∈ keys z.2)
    (hready : ∀ e, e ∈ keys z.2 → Cli.Ready (preRun (run { srv := s0 } ops).1.srv ticked ms).tick c e)
    (hQ : ∀ e, e ∈ keys z.2 → ∀ ent, (e, ent) ∈ (run { srv := s0 } ops).1.srv.world → ∀ k comp,
      (k, Rate.every, comp) ∈ present (run { srv := s0 } ops).1.srv ent →
      c.entityComps.contains k = false → ¬ comp.added > (run { srv := s0 } ops).1.srv.lastRun →
      ¬ comp.changed > (run { srv := s0 } ops).1.srv.lastRun → Cli.valOn c e k = some comp.val)
    (e : Nat)
    (he : e ∈ keys (runClient (preRun (run { srv := s0 } ops).1.srv ticked ms)
      ((preRun (run { srv := s0 } ops).1.srv ticked ms).now + 1) (preG (run { srv := s0 } ops).1.srv ms z.2)).1)
    (ent : SEnt) (hwld : (e, ent) ∈ (run { srv := s0 } ops).1.srv.world)
    (k : Nat) (comp : Comp) (hp : (k, Rate.every, comp) ∈ present (run { srv := s0 } ops).1.srv ent)
    (hplain : c.entityComps.contains k = false) :
    Cli.valOn (recvRun c (runClient (preRun (run { srv := s0 } ops).1.srv ticked ms)
      ((preRun (run { srv := s0 } ops).1.srv ticked ms).now + 1) (preG (run { srv := s0 } ops).1.srv ms z.2)).2
      (preRun (run { srv := s0 } ops).1.srv ticked ms).tick) e k = some comp.val := by
  have kinv0 := ksess_run ops _ _ (ksess_empty s0 hw hc0 hb ht) hl
  rw [runLog_fst] at kinv0
  have bel : Bel (run { srv := s0 } ops).1.srv := history_belief s0 hc0 ht ops
  have hrt : (run { srv := s0 } ops).1.srv.rates = s0.rates := run_rates ops _
  generalize (run { srv := s0 } ops).1 = st at kinv0 bel hr hz hready hQ he hwld hp hrt ⊢
  generalize (runLog { srv := s0 } (fun _ => []) ops).2 = log at kinv0
  have inv := kinv0.sess
  obtain ⟨m1, _, _, _, _⟩ := inv.cli z hz
  have sinvp := preRun_sync st.srv ticked ms inv.sync
  have hrm := (preRun_rem st.srv ticked ms hr inv.rem).1
  have kinvp := preRun_kind st.srv ticked ms hr kinv0.kind
  obtain ⟨p1, _, _, _, p5⟩ := preRun_fields st.srv ticked ms
  obtain ⟨q1, _, _, q4, _, _, _⟩ := preRun_kindfields st.srv ticked ms hr
  have hy : (z.1, preG st.srv ms z.2) ∈ (preRun st.srv ticked ms).clients := by
    rw [p5]; exact List.mem_map_of_mem (f := fun x => (x.1, preG st.srv ms x.2)) hz
  have hkeq := (preG_sync st.srv ms z.2).2.1
  have ctx : RunCtx (preRun st.srv ticked ms) (z.1, preG st.srv ms z.2) c :=
    { sinv := sinvp, hrm := hrm, kinv := kinvp, hrates := by rw [q4, hrt]; exact hrates, hx := hy,
      hmap := (preG_mappings _ _ _).trans m1, wf := wf, hh := fun se => (hh se).trans (hkeq se).symm }
  have hbel : ∀ e t, aget (preG st.srv ms z.2).mutTick e = some t → t ≤ (preRun st.srv ticked ms).lastRun := by
    intro e t h
    rw [q1]
    exact (preG_bel st.srv ms st.srv.lastRun z.2 (bel.2 z hz)).1 e t h
  apply frame_values_perfect (preRun st.srv ticked ms) (z.1, preG st.srv ms z.2) c ctx hbel
    (fun e he' => hready e ((hkeq e).mp he'))
    ?_ e he ent (by rw [p1]; exact hwld) k comp (by rw [present_congr st.srv _ q4]; exact hp) hplain
  intro e' he' ent' hw' k' comp' hp' hpl' hna hnc
  rw [q1] at hna hnc
  exact hQ e' ((hkeq e').mp he') ent' (by rw [← p1]; exact hw') k' comp'
    (by rw [← present_congr st.srv _ q4]; exact hp') hpl' hna hnc

end Replicon.Joint
