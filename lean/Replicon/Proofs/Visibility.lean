import Replicon.Model.Visibility

namespace Replicon.Vis

/-- Ghost state of one (client, entity) pair: the most recent visibility setting (`desired`)
and whether the client currently holds the entity (`held` = it was in the client's view after
the previous replication run). -/
structure Ghost where
  desired : Bool
  held : Bool
deriving Repr, DecidableEq

/-- A fresh entity: the default setting of the policy.  Under the blacklist policy the
visibility machinery treats a fresh entity like one the client already knows; that it is sent
in full the first time is the job of the "replication marker added" check of `collect_changes`,
not of `ClientVisibility`. -/
def Ghost.init (white : Bool) : Ghost := { desired := !white, held := !white }

/-- The fresh cell, and the ghost of a live entity the client has not been told about. -/
def Ghost.step (white : Bool) (g : Ghost) : Op → Ghost
  | .show_ => { g with desired := true }
  | .hide => { g with desired := false }
  | .tick => { g with held := g.desired }
  | .despawnTick => Ghost.init white

/-- The cell represents the ghost. -/
def Inv (white : Bool) (c : Cell) (g : Ghost) : Bool :=
  if white then
    match c with
    | ⟨.none, false, false⟩ => !g.desired && !g.held
    | ⟨.none, false, true⟩ => !g.desired && g.held
    | ⟨.a, false, false⟩ => g.desired && g.held
    | ⟨.b, true, false⟩ => g.desired && !g.held
    | _ => false
  else
    match c with
    | ⟨.none, false, false⟩ => g.desired && g.held
    | ⟨.a, true, false⟩ => !g.desired && g.held
    | ⟨.a, false, false⟩ => !g.desired && !g.held
    | ⟨.b, false, true⟩ => g.desired && !g.held
    | _ => false

/-- What a replication run must do for the pair, by the property's text. -/
def sentOk (g : Ghost) (op : Op) (s : Sent) : Bool :=
  match op with
  | .show_ | .hide => s == .nothing
  | .tick =>
    if g.desired then (if g.held then s == .changes else s == .whole)
    else (if g.held then s == .despawn else s == .nothing)
  | .despawnTick => if g.held then s == .despawn else true

instance : Inhabited Op := ⟨.tick⟩

/-- All cells, ghosts, operations: the per-entity state space is finite. -/
theorem step_preserves (white : Bool) (c : Cell) (g : Ghost) (op : Op) (h : Inv white c g = true) :
    Inv white (step white c op).1 (Ghost.step white g op) = true ∧
    sentOk g op (step white c op).2 = true ∧
    isVisible white c = g.desired := by
  revert h
  cases white <;> rcases c with ⟨i, a, r⟩ <;> rcases g with ⟨d, hd⟩ <;>
    cases i <;> cases a <;> cases r <;> cases d <;> cases hd <;> cases op <;>
    decide

/-- Run a sequence of operations on the cell and on the ghost; collect what was sent. -/
def runCell (white : Bool) : Cell → List Op → Cell × List Sent
  | c, [] => (c, [])
  | c, op :: ops =>
    let r := step white c op
    let rest := runCell white r.1 ops
    (rest.1, r.2 :: rest.2)

def runGhost (white : Bool) : Ghost → List Op → Ghost
  | g, [] => g
  | g, op :: ops => runGhost white (Ghost.step white g op) ops

/-- every message decision along the run complies with the ghost at that moment -/
def AllSentOk (white : Bool) : Ghost → List Op → List Sent → Prop
  | _, [], [] => True
  | g, op :: ops, s :: ss => sentOk g op s = true ∧ AllSentOk white (Ghost.step white g op) ops ss
  | _, _, _ => False

theorem run_refines (white : Bool) : ∀ (ops : List Op) (c : Cell) (g : Ghost), Inv white c g = true →
    Inv white (runCell white c ops).1 (runGhost white g ops) = true ∧
    AllSentOk white g ops (runCell white c ops).2 := by
  intro ops
  induction ops with
  | nil => intro c g h; exact ⟨h, trivial⟩
  | cons op ops ih =>
    intro c g h
    obtain ⟨h1, h2, _⟩ := step_preserves white c g op h
    obtain ⟨h3, h4⟩ := ih (step white c op).1 (Ghost.step white g op) h1
    exact ⟨h3, h2, h4⟩

theorem init_inv (white : Bool) : Inv white {} (Ghost.init white) = true := by
  cases white <;> decide

end Replicon.Vis
