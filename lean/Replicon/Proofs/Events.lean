import Replicon.Model.Events
/-
Lemmas about the remote-event model (`Model/Events.lean`).
-/
namespace Replicon.Evt

/-! ### server side: recipients, stamps, exclusion, order -/

theorem mem_sendEvent {peers : List Peer} {excl : List Nat} {e : Ev} {o : Out} :
    o ∈ sendEvent peers excl e ↔
      ∃ p ∈ peers, p.id ∉ excl ∧ selects e.mode p.id = true ∧ p.authorized = true ∧
        o = { client := p.id, chan := e.chan, stamp := some p.updateTick, id := e.id } := by
  unfold sendEvent
  simp only [List.mem_map, List.mem_filter, Bool.and_eq_true, Bool.not_eq_true', List.contains_eq_mem,
    decide_eq_false_iff_not]
  constructor
  · rintro ⟨p, ⟨hp, ⟨hex, hsel⟩, hauth⟩, rfl⟩
    exact ⟨p, hp, hex, hsel, hauth, rfl⟩
  · rintro ⟨p, hp, hex, hsel, hauth, rfl⟩
    exact ⟨p, ⟨hp, ⟨hex, hsel⟩, hauth⟩, rfl⟩

theorem mem_sendIndependent {peers : List Peer} {e : Ev} {o : Out} :
    o ∈ sendIndependent peers e ↔
      ∃ p ∈ peers, selects e.mode p.id = true ∧
        o = { client := p.id, chan := e.chan, stamp := none, id := e.id } := by
  unfold sendIndependent
  simp only [List.mem_map, List.mem_filter]
  constructor
  · rintro ⟨p, ⟨hp, hsel⟩, rfl⟩
    exact ⟨p, hp, hsel, rfl⟩
  · rintro ⟨p, hp, hsel, rfl⟩
    exact ⟨p, ⟨hp, hsel⟩, rfl⟩

theorem sendEvent_clients (peers : List Peer) (excl : List Nat) (e : Ev) :
    List.Sublist ((sendEvent peers excl e).map (·.client)) (peers.map (·.id)) := by
  unfold sendEvent
  rw [List.map_map]
  exact (List.filter_sublist).map _

/-- at most one message per client for one event -/
theorem sendEvent_nodup (peers : List Peer) (excl : List Nat) (e : Ev)
    (h : (peers.map (·.id)).Nodup) : ((sendEvent peers excl e).map (·.client)).Nodup :=
  (sendEvent_clients peers excl e).nodup h

theorem mem_sendAll {s : SrvEv} {peers : List Peer} {o : Out} :
    o ∈ s.sendAll peers ↔ ∃ b ∈ s.buffer, ∃ e ∈ b.events, o ∈ sendEvent peers b.excluded e := by
  unfold SrvEv.sendAll sendSet
  simp only [List.mem_flatMap]

/-- a client that connected after the events were buffered never gets them -/
theorem exclude_sendAll (s : SrvEv) (c : Nat) (peers : List Peer) :
    ∀ o ∈ (s.exclude c).sendAll peers, o.client ≠ c := by
  intro o ho
  rw [mem_sendAll] at ho
  obtain ⟨b, hb, e, _, hoe⟩ := ho
  unfold SrvEv.exclude at hb
  simp only [List.mem_map] at hb
  obtain ⟨b0, _, rfl⟩ := hb
  rw [mem_sendEvent] at hoe
  obtain ⟨p, _, hex, _, _, rfl⟩ := hoe
  simp only [List.mem_cons, not_or] at hex
  exact hex.1

/-- … and keeps being excluded whatever is buffered or whoever else connects later; events
buffered afterwards are not affected -/
theorem exclude_then_buffer (s : SrvEv) (c : Nat) (es : List Ev) (peers : List Peer) :
    ∀ o ∈ ((s.exclude c).bufferEvents es).sendAll peers, o.client = c →
      o ∈ sendSet peers { events := es } := by
  intro o ho hc
  unfold SrvEv.bufferEvents SrvEv.sendAll at ho
  simp only [List.flatMap_append, List.flatMap_cons, List.flatMap_nil, List.append_nil,
    List.mem_append] at ho
  rcases ho with ho | ho
  · exact absurd hc (exclude_sendAll s c peers o ho)
  · exact ho

theorem exclude_comm_mem (s : SrvEv) (c d : Nat) (peers : List Peer) :
    ∀ o ∈ ((s.exclude c).exclude d).sendAll peers, o.client ≠ c ∧ o.client ≠ d := by
  intro o ho
  refine ⟨?_, exclude_sendAll _ d peers o ho⟩
  rw [mem_sendAll] at ho
  obtain ⟨b, hb, e, _, hoe⟩ := ho
  unfold SrvEv.exclude at hb
  simp only [List.mem_map, List.map_map] at hb
  obtain ⟨b0, _, rfl⟩ := hb
  rw [mem_sendEvent] at hoe
  obtain ⟨p, _, hex, _, _, rfl⟩ := hoe
  simp only [Function.comp, List.mem_cons, not_or] at hex
  exact hex.2.1

theorem flatMap_sublist {α β : Type} (f g : α → List β) (l : List α)
    (h : ∀ x ∈ l, List.Sublist (f x) (g x)) : List.Sublist (l.flatMap f) (l.flatMap g) := by
  induction l with
  | nil => exact List.Sublist.refl _
  | cons x xs ih =>
    rw [List.flatMap_cons, List.flatMap_cons]
    exact List.Sublist.append (h x (List.mem_cons_self)) (ih fun y hy => h y (List.mem_cons_of_mem _ hy))

theorem filter_le_one {α : Type} (f : α → Nat) (q : α → Bool) (c : Nat) (l : List α)
    (h : (l.map f).Nodup) : (l.filter fun p => q p && decide (f p = c)).length ≤ 1 := by
  induction l with
  | nil => simp
  | cons x xs ih =>
    rw [List.map_cons, List.nodup_cons] at h
    rw [List.filter_cons]
    split
    · rename_i hx
      simp only [Bool.and_eq_true, decide_eq_true_eq] at hx
      have : xs.filter (fun p => q p && decide (f p = c)) = [] := by
        rw [List.filter_eq_nil_iff]
        intro y hy hq
        simp only [Bool.and_eq_true, decide_eq_true_eq] at hq
        exact h.1 (by rw [hx.2, ← hq.2]; exact List.mem_map_of_mem hy)
      rw [this]; simp
    · exact ih h.2

/-- the messages of one event that go to client `c`: none or one -/
theorem sendEvent_for_client (peers : List Peer) (excl : List Nat) (e : Ev) (c : Nat)
    (h : (peers.map (·.id)).Nodup) :
    List.Sublist (((sendEvent peers excl e).filter fun o => o.client = c).map (·.id)) [e.id] := by
  unfold sendEvent
  rw [List.filter_map, List.map_map]
  have hlen := filter_le_one (·.id) (fun p => !excl.contains p.id && selects e.mode p.id && p.authorized) c peers h
  rw [List.filter_filter]
  generalize hl : List.filter _ peers = l
  have hl' : l.length ≤ 1 := by
    rw [← hl]
    refine Nat.le_trans (Nat.le_of_eq ?_) hlen
    congr 1
    apply List.filter_congr
    intro p _
    simp [Bool.and_comm, Function.comp]
  match l, hl' with
  | [], _ => simp
  | [p], _ => simp
  | _ :: _ :: _, h2 => simp at h2

/-- per client, events go out in the order they were buffered (which is emission order within
one event type), none twice -/
theorem sendAll_order (s : SrvEv) (peers : List Peer) (c : Nat) (h : (peers.map (·.id)).Nodup) :
    List.Sublist (((s.sendAll peers).filter fun o => o.client = c).map (·.id))
      ((s.buffer.flatMap (·.events)).map (·.id)) := by
  unfold SrvEv.sendAll sendSet
  rw [List.filter_flatMap, List.map_flatMap, List.map_flatMap]
  refine flatMap_sublist _ _ _ fun b _ => ?_
  rw [List.filter_flatMap, List.map_flatMap]
  have : b.events.map (·.id) = b.events.flatMap fun e => [e.id] := by
    induction b.events with
    | nil => rfl
    | cons x xs ih => simp [ih]
  rw [this]
  exact flatMap_sublist _ _ _ fun e _ => sendEvent_for_client peers b.excluded e c h

/-- after a tick's flush nothing is left to be sent again -/
theorem frame_ticked_empties (s : SrvEv) (localOk : Bool) (em : List Emitted) (peers : List Peer) :
    (s.frame true true localOk em peers).1 = {} := by
  simp [SrvEv.frame]

theorem sendAll_empty (peers : List Peer) : ({} : SrvEv).sendAll peers = [] := rfl

/-- a server that is not running puts nothing on the network -/
theorem frame_not_running (s : SrvEv) (ticked localOk : Bool) (em : List Emitted) (peers : List Peer) :
    (s.frame false ticked localOk em peers).2.1 = [] := by
  simp [SrvEv.frame]

/-- the events re-emitted for the local game: exactly those whose recipients include the local
server, each once, in emission order -/
theorem frame_locals (s : SrvEv) (running ticked : Bool) (em : List Emitted) (peers : List Peer) :
    (s.frame running ticked true em peers).2.2 = (em.filter fun e => localDelivery e.ev.mode).map (·.ev.id) := by
  unfold SrvEv.frame
  cases running <;> cases ticked <;> simp


/-! ### client side: the queue of events that arrived before their tick -/

theorem go_perm (stamp payload : Nat) (xs : List (Nat × Nat)) :
    (Queue.insert.go stamp payload xs).Perm ((stamp, payload) :: xs) := by
  induction xs with
  | nil => exact List.Perm.refl _
  | cons x xs ih =>
    unfold Queue.insert.go
    split
    · exact List.Perm.refl _
    · exact ((List.Perm.cons x ih).trans (List.Perm.swap _ _ _))

/-- inserting a stamp that is not smaller than anything queued appends -/
theorem go_append (stamp payload : Nat) (xs : List (Nat × Nat)) (h : ∀ x ∈ xs, x.1 ≤ stamp) :
    Queue.insert.go stamp payload xs = xs ++ [(stamp, payload)] := by
  induction xs with
  | nil => rfl
  | cons x xs ih =>
    unfold Queue.insert.go
    have hx := h x List.mem_cons_self
    rw [if_neg (by omega), ih fun y hy => h y (List.mem_cons_of_mem _ hy)]
    rfl

theorem go_sorted (stamp payload : Nat) (xs : List (Nat × Nat))
    (h : xs.Pairwise fun x y => x.1 ≤ y.1) :
    (Queue.insert.go stamp payload xs).Pairwise fun x y => x.1 ≤ y.1 := by
  induction xs with
  | nil => simp [Queue.insert.go]
  | cons x xs ih =>
    rw [List.pairwise_cons] at h
    unfold Queue.insert.go
    split
    · rename_i hlt
      rw [List.pairwise_cons]
      refine ⟨?_, List.pairwise_cons.mpr h⟩
      intro y hy
      rcases List.mem_cons.mp hy with rfl | hy
      · exact Nat.le_of_lt hlt
      · exact Nat.le_trans (Nat.le_of_lt hlt) (h.1 y hy)
    · rename_i hge
      rw [List.pairwise_cons]
      refine ⟨?_, ih h.2⟩
      intro y hy
      rcases List.mem_cons.mp ((go_perm stamp payload xs).subset hy) with rfl | hy
      · exact Nat.le_of_not_lt hge
      · exact h.1 y hy

theorem foldl_insert_perm (later : List (Nat × Nat)) (q : Queue) :
    (later.foldl (fun q x => q.insert x.1 x.2) q).items.Perm (q.items ++ later) := by
  induction later generalizing q with
  | nil => simp
  | cons x xs ih =>
    rw [List.foldl_cons]
    refine (ih _).trans ?_
    unfold Queue.insert
    refine ((go_perm x.1 x.2 q.items).append_right xs).trans ?_
    simpa using (List.perm_middle (l₁ := q.items) (l₂ := xs) (a := x)).symm

theorem foldl_insert_sorted (later : List (Nat × Nat)) (q : Queue)
    (h : q.items.Pairwise fun x y => x.1 ≤ y.1) :
    (later.foldl (fun q x => q.insert x.1 x.2) q).items.Pairwise fun x y => x.1 ≤ y.1 := by
  induction later generalizing q with
  | nil => exact h
  | cons x xs ih =>
    rw [List.foldl_cons]
    exact ih _ (go_sorted _ _ _ h)

theorem foldl_insert_append (later : List (Nat × Nat)) (q : Queue)
    (h : (q.items ++ later).Pairwise fun x y => x.1 ≤ y.1) :
    (later.foldl (fun q x => q.insert x.1 x.2) q).items = q.items ++ later := by
  induction later generalizing q with
  | nil => simp
  | cons x xs ih =>
    rw [List.foldl_cons]
    have hx : ∀ y ∈ q.items, y.1 ≤ x.1 := by
      intro y hy
      rw [List.pairwise_append] at h
      exact h.2.2 y hy x List.mem_cons_self
    have heq : (q.insert x.1 x.2).items = q.items ++ [x] := by
      unfold Queue.insert
      exact go_append _ _ _ hx
    rw [ih _ (by rw [heq]; simpa using h), heq]
    simp

/-- C04 gate: everything handed to the game logic carries a stamp the client has reached -/
theorem receive_gate (u : Nat) (q : Queue) (inc : List (Nat × Nat)) :
    ∀ x ∈ (receive u q inc).1, x.1 ≤ u := by
  intro x hx
  unfold receive at hx
  simp only [List.mem_append, List.mem_filter, decide_eq_true_eq] at hx
  rcases hx with hx | hx <;> exact hx.2

/-- … and everything else waits -/
theorem receive_waits (u : Nat) (q : Queue) (inc : List (Nat × Nat)) :
    ∀ x ∈ (receive u q inc).2.items, u < x.1 := by
  intro x hx
  unfold receive at hx
  have := (foldl_insert_perm _ _).subset hx
  simp only [List.mem_append, List.mem_filter, Bool.not_eq_true', decide_eq_false_iff_not] at this
  rcases this with h | h <;> omega

theorem filter_split_perm {α : Type} (p : α → Bool) (l : List α) :
    (l.filter p ++ l.filter fun x => !p x).Perm l := by
  induction l with
  | nil => exact List.Perm.refl _
  | cons x xs ih =>
    rw [List.filter_cons, List.filter_cons]
    cases hp : p x
    · simp only [Bool.false_eq_true, ↓reduceIte, Bool.not_false]
      exact (List.perm_middle).trans (List.Perm.cons x ih)
    · simp only [↓reduceIte, Bool.not_true, Bool.false_eq_true, List.cons_append]
      exact List.Perm.cons x ih

/-- nothing is lost, nothing is duplicated: delivered now + still queued = queued before + arrived -/
theorem receive_perm (u : Nat) (q : Queue) (inc : List (Nat × Nat)) :
    ((receive u q inc).1 ++ (receive u q inc).2.items).Perm (q.items ++ inc) := by
  unfold receive
  simp only
  refine (List.Perm.append_left _ (foldl_insert_perm _ _)).trans ?_
  have h1 := filter_split_perm (fun x : Nat × Nat => decide (x.1 ≤ u)) q.items
  have h2 := filter_split_perm (fun x : Nat × Nat => decide (x.1 ≤ u)) inc
  refine List.Perm.trans ?_ (h1.append h2)
  simp only [List.append_assoc]
  refine List.Perm.append_left _ ?_
  refine (List.perm_append_comm_assoc _ _ _).trans ?_
  exact List.Perm.refl _

theorem receive_sorted (u : Nat) (q : Queue) (inc : List (Nat × Nat))
    (h : q.items.Pairwise fun x y => x.1 ≤ y.1) :
    (receive u q inc).2.items.Pairwise fun x y => x.1 ≤ y.1 := by
  unfold receive
  exact foldl_insert_sorted _ _ (h.sublist List.filter_sublist)

theorem mono_filter_split (u : Nat) (l : List (Nat × Nat)) (h : l.Pairwise fun x y => x.1 ≤ y.1) :
    (l.filter fun x => decide (x.1 ≤ u)) ++ (l.filter fun x => !decide (x.1 ≤ u)) = l := by
  induction l with
  | nil => rfl
  | cons x xs ih =>
    rw [List.pairwise_cons] at h
    rw [List.filter_cons, List.filter_cons]
    by_cases hx : x.1 ≤ u
    · simp only [hx, decide_true, ↓reduceIte, Bool.not_true, Bool.false_eq_true, List.cons_append]
      rw [ih h.2]
    · have e1 : xs.filter (fun x => decide (x.1 ≤ u)) = [] := by
        rw [List.filter_eq_nil_iff]
        intro y hy hq
        have := h.1 y hy
        simp only [decide_eq_true_eq] at hq
        omega
      have e2 : xs.filter (fun x => !decide (x.1 ≤ u)) = xs := by
        rw [List.filter_eq_self]
        intro y hy
        have := h.1 y hy
        simp only [Bool.not_eq_true', decide_eq_false_iff_not]
        omega
      simp only [hx, decide_false, Bool.false_eq_true, ↓reduceIte, Bool.not_false, e1, e2, List.nil_append]

/-- Order: when stamps do not decrease along arrival order (the server stamps every event of a
channel with the receiving client's update tick, which never decreases, and the channel is
ordered), delivery is a prefix of the arrival sequence and the rest waits in arrival order. -/
theorem receive_order (u : Nat) (q : Queue) (inc : List (Nat × Nat))
    (h : (q.items ++ inc).Pairwise fun x y => x.1 ≤ y.1) :
    (receive u q inc).1 ++ (receive u q inc).2.items = q.items ++ inc := by
  unfold receive
  simp only
  have hq := (List.pairwise_append.mp h).1
  have hi := (List.pairwise_append.mp h).2.1
  have hsub : ((q.items.filter fun x => !decide (x.1 ≤ u)) ++ (inc.filter fun x => !decide (x.1 ≤ u))).Pairwise
      fun x y => x.1 ≤ y.1 := by
    rw [← List.filter_append]
    exact h.sublist List.filter_sublist
  rw [foldl_insert_append _ _ hsub]
  -- ready ++ now ++ (rest ++ later) = q.items ++ inc: `now` and `rest` cannot both be non-empty
  by_cases hrest : (q.items.filter fun x => !decide (x.1 ≤ u)) = []
  · rw [hrest]
    have hall : (q.items.filter fun x => decide (x.1 ≤ u)) = q.items := by
      have := mono_filter_split u q.items hq
      rw [hrest, List.append_nil] at this
      exact this
    rw [hall, List.nil_append, List.append_assoc, mono_filter_split u inc hi]
  · have hnow : (inc.filter fun x => decide (x.1 ≤ u)) = [] := by
      rw [List.filter_eq_nil_iff]
      intro y hy hq'
      simp only [decide_eq_true_eq] at hq'
      obtain ⟨z, hz⟩ := List.exists_mem_of_ne_nil _ hrest
      simp only [List.mem_filter, Bool.not_eq_true', decide_eq_false_iff_not] at hz
      have := (List.pairwise_append.mp h).2.2 z hz.1 y hy
      omega
    have hlater : (inc.filter fun x => !decide (x.1 ≤ u)) = inc := by
      have := mono_filter_split u inc hi
      rw [hnow, List.nil_append] at this
      exact this
    rw [hnow, hlater, List.append_nil, ← List.append_assoc, mono_filter_split u q.items hq]

/-- references resolve through the entity map or the event is refused -/
theorem resolveRefs_some (map : List (Nat × Nat)) (refs out : List Nat)
    (h : resolveRefs map refs = some out) :
    out.length = refs.length ∧ ∀ i (hi : i < refs.length) (ho : i < out.length), map.lookup refs[i] = some out[i] := by
  unfold resolveRefs at h
  induction refs generalizing out with
  | nil => simp at h; subst h; simp
  | cons r rs ih =>
    rw [List.mapM_cons] at h
    cases hr : map.lookup r with
    | none => rw [hr] at h; simp at h
    | some v =>
      rw [hr] at h
      cases hrs : List.mapM (fun r => map.lookup r) rs with
      | none => rw [hrs] at h; simp at h
      | some vs =>
        rw [hrs] at h
        simp at h
        subst h
        obtain ⟨hl, hall⟩ := ih vs hrs
        refine ⟨by simp [hl], ?_⟩
        intro i hi ho
        cases i with
        | zero => simpa using hr
        | succ i => simpa using hall i (by simpa using hi) (by simpa using ho)

theorem resolveRefs_none (map : List (Nat × Nat)) (refs : List Nat) (r : Nat) (hr : r ∈ refs)
    (h : map.lookup r = none) : resolveRefs map refs = none := by
  unfold resolveRefs
  induction refs with
  | nil => cases hr
  | cons x xs ih =>
    rw [List.mapM_cons]
    rcases List.mem_cons.mp hr with rfl | hr
    · rw [h]; rfl
    · cases hx : map.lookup x with
      | none => rfl
      | some v => rw [ih hr]; rfl


/-! ### events sent towards the server: one path per frame, once per path -/

/-- every buffered event is numbered below `next`, numbers strictly increase, the cursor is not
ahead of `next` -/
structure CBuf.Inv (q : CBuf) : Prop where
  lt : ∀ x ∈ q.items, x.1 < q.next
  sorted : q.items.Pairwise fun x y => x.1 < y.1
  cur : q.cursor ≤ q.next

theorem CBuf.inv_init : ({} : CBuf).Inv := ⟨by simp [CBuf.items], by simp [CBuf.items], Nat.le_refl _⟩

theorem CBuf.emit_inv (q : CBuf) (id : Nat) (h : q.Inv) : (q.emit id).Inv := by
  unfold CBuf.emit
  constructor
  · intro x hx
    simp only [CBuf.items, ← List.append_assoc, List.mem_append, List.mem_singleton] at hx
    rcases hx with hx | rfl
    · have := h.lt x (by simpa [CBuf.items] using hx); simp only; omega
    · simp
  · simp only [CBuf.items, ← List.append_assoc]
    rw [List.pairwise_append]
    refine ⟨by simpa [CBuf.items] using h.sorted, by simp, ?_⟩
    intro x hx y hy
    simp only [List.mem_singleton] at hy
    subst hy
    exact h.lt x (by simpa [CBuf.items] using hx)
  · have := h.cur; simp only; omega

theorem CBuf.age_items_sub (q : CBuf) : List.Sublist q.age.items q.items := by
  simp [CBuf.age, CBuf.items]

theorem CBuf.age_inv (q : CBuf) (h : q.Inv) : q.age.Inv :=
  ⟨fun x hx => h.lt x (q.age_items_sub.subset hx), h.sorted.sublist q.age_items_sub, h.cur⟩

theorem CBuf.drain_inv (q : CBuf) (h : q.Inv) : q.drain.Inv :=
  ⟨by simp [CBuf.drain, CBuf.items], by simp [CBuf.drain, CBuf.items], h.cur⟩

/-- the buffer after ageing and the connect-reset of a frame -/
def CBuf.pre (q : CBuf) (aged jc : Bool) : CBuf :=
  let q := if aged then q.age else q
  if jc then q.drain else q

theorem CBuf.pre_inv (q : CBuf) (aged jc : Bool) (h : q.Inv) : (q.pre aged jc).Inv := by
  unfold CBuf.pre
  cases aged <;> cases jc <;> simp <;> first | exact h | exact q.age_inv h | exact q.drain_inv h | exact q.age.drain_inv (q.age_inv h)

theorem CBuf.pre_next (q : CBuf) (aged jc : Bool) : (q.pre aged jc).next = q.next ∧ (q.pre aged jc).cursor = q.cursor := by
  unfold CBuf.pre
  cases aged <;> cases jc <;> simp [CBuf.age, CBuf.drain]

theorem CBuf.frame_eq (q : CBuf) (aged jc : Bool) (st : Status) :
    q.frame aged jc st =
      match st with
      | .connected => ({ q.pre aged jc with cursor := (q.pre aged jc).next },
          (q.pre aged jc).items.filter fun x => (q.pre aged jc).cursor ≤ x.1, [])
      | .disconnected => ((q.pre aged jc).drain, [], (q.pre aged jc).items)
      | .connecting => (q.pre aged jc, [], []) := by
  unfold CBuf.frame CBuf.pre
  cases aged <;> cases jc <;> cases st <;> rfl

theorem CBuf.frame_inv (q : CBuf) (aged jc : Bool) (st : Status) (h : q.Inv) : (q.frame aged jc st).1.Inv := by
  rw [CBuf.frame_eq]
  have hp := q.pre_inv aged jc h
  cases st
  · exact (q.pre aged jc).drain_inv hp
  · exact hp
  · exact ⟨fun x hx => hp.lt x hx, hp.sorted, Nat.le_refl _⟩

/-- C13: within one frame an event takes at most one of the two paths -/
theorem CBuf.frame_exclusive (q : CBuf) (aged jc : Bool) (st : Status) :
    (q.frame aged jc st).2.1 = [] ∨ (q.frame aged jc st).2.2 = [] := by
  rw [CBuf.frame_eq]; cases st <;> simp

/-- C13: nothing is put on the network without a connection -/
theorem CBuf.frame_no_wire (q : CBuf) (aged jc : Bool) (st : Status) (h : st ≠ .connected) :
    (q.frame aged jc st).2.1 = [] := by
  rw [CBuf.frame_eq]; cases st <;> simp_all

theorem CBuf.frame_next (q : CBuf) (aged jc : Bool) (st : Status) :
    (q.frame aged jc st).1.next = q.next := by
  rw [CBuf.frame_eq]
  cases st <;> simp [CBuf.drain, (q.pre_next aged jc).1]

theorem CBuf.frame_cursor_le (q : CBuf) (aged jc : Bool) (st : Status) (h : q.Inv) :
    q.cursor ≤ (q.frame aged jc st).1.cursor := by
  rw [CBuf.frame_eq]
  have := q.pre_next aged jc
  cases st <;> simp [CBuf.drain, this.2, this.1, h.cur]

/-- everything put on the wire from a state on is numbered from its cursor on -/
theorem CBuf.run_wire_ge (q : CBuf) (steps : List CStep) (h : q.Inv) :
    ∀ x ∈ (q.run steps).1, q.cursor ≤ x.1 := by
  induction steps generalizing q with
  | nil => simp [CBuf.run]
  | cons s rest ih =>
    cases s with
    | emit id =>
      simp only [CBuf.run]
      exact ih (q.emit id) (q.emit_inv id h)
    | frame aged jc st =>
      simp only [CBuf.run]
      intro x hx
      rcases List.mem_append.mp hx with hx | hx
      · rw [CBuf.frame_eq] at hx
        cases st
        · simp at hx
        · simp at hx
        · simp only [List.mem_filter, decide_eq_true_eq] at hx
          rw [(q.pre_next aged jc).2] at hx
          exact hx.2
      · exact Nat.le_trans (q.frame_cursor_le aged jc st h) (ih _ (q.frame_inv aged jc st h) x hx)

theorem CBuf.frame_wire_lt (q : CBuf) (aged jc : Bool) (st : Status) (h : q.Inv) :
    ∀ x ∈ (q.frame aged jc st).2.1, x.1 < (q.frame aged jc st).1.cursor := by
  rw [CBuf.frame_eq]
  have hp := q.pre_inv aged jc h
  cases st
  · simp
  · simp
  · intro x hx
    simp only [List.mem_filter] at hx
    exact hp.lt x hx.1

theorem CBuf.frame_wire_sorted (q : CBuf) (aged jc : Bool) (st : Status) (h : q.Inv) :
    (q.frame aged jc st).2.1.Pairwise fun x y => x.1 < y.1 := by
  rw [CBuf.frame_eq]
  have hp := q.pre_inv aged jc h
  cases st
  · simp
  · simp
  · exact hp.sorted.sublist List.filter_sublist

/-- C05/C13: over any history nothing is put on the wire twice, and the wire carries the events
in emission order -/
theorem CBuf.run_wire_sorted (q : CBuf) (steps : List CStep) (h : q.Inv) :
    (q.run steps).1.Pairwise fun x y => x.1 < y.1 := by
  induction steps generalizing q with
  | nil => simp [CBuf.run]
  | cons s rest ih =>
    cases s with
    | emit id => simp only [CBuf.run]; exact ih _ (q.emit_inv id h)
    | frame aged jc st =>
      simp only [CBuf.run]
      rw [List.pairwise_append]
      refine ⟨q.frame_wire_sorted aged jc st h, ih _ (q.frame_inv aged jc st h), ?_⟩
      intro x hx y hy
      have h1 := q.frame_wire_lt aged jc st h x hx
      have h2 := CBuf.run_wire_ge _ rest (q.frame_inv aged jc st h) y hy
      omega

/-- everything re-emitted locally from a state on is either buffered now or not emitted yet -/
theorem CBuf.run_local_from (q : CBuf) (steps : List CStep) (h : q.Inv) :
    ∀ x ∈ (q.run steps).2, x ∈ q.items ∨ q.next ≤ x.1 := by
  induction steps generalizing q with
  | nil => simp [CBuf.run]
  | cons s rest ih =>
    cases s with
    | emit id =>
      simp only [CBuf.run]
      intro x hx
      rcases ih _ (q.emit_inv id h) x hx with hx | hx
      · simp only [CBuf.emit, CBuf.items, ← List.append_assoc, List.mem_append, List.mem_singleton] at hx
        rcases hx with hx | rfl
        · left; simpa [CBuf.items] using hx
        · right; exact Nat.le_refl _
      · right; simp only [CBuf.emit] at hx; omega
    | frame aged jc st =>
      simp only [CBuf.run]
      intro x hx
      have hsub : ∀ y ∈ (q.pre aged jc).items, y ∈ q.items := by
        intro y hy
        unfold CBuf.pre at hy
        cases aged <;> cases jc <;> simp [CBuf.drain, CBuf.items, CBuf.age] at hy ⊢ <;> simp_all
      rcases List.mem_append.mp hx with hx | hx
      · rw [CBuf.frame_eq] at hx
        cases st
        · left; exact hsub x hx
        · simp at hx
        · simp at hx
      · rcases ih _ (q.frame_inv aged jc st h) x hx with hx | hx
        · rw [CBuf.frame_eq] at hx
          cases st
          · simp [CBuf.drain, CBuf.items] at hx
          · left; exact hsub x hx
          · left; exact hsub x hx
        · right; rw [q.frame_next] at hx; exact hx

/-- C13: over any history nothing is re-emitted locally twice -/
theorem CBuf.run_local_sorted (q : CBuf) (steps : List CStep) (h : q.Inv) :
    (q.run steps).2.Pairwise fun x y => x.1 < y.1 := by
  induction steps generalizing q with
  | nil => simp [CBuf.run]
  | cons s rest ih =>
    cases s with
    | emit id => simp only [CBuf.run]; exact ih _ (q.emit_inv id h)
    | frame aged jc st =>
      simp only [CBuf.run]
      rw [List.pairwise_append]
      have hp := q.pre_inv aged jc h
      refine ⟨?_, ih _ (q.frame_inv aged jc st h), ?_⟩
      · rw [CBuf.frame_eq]; cases st
        · exact hp.sorted
        · simp
        · simp
      · intro x hx y hy
        rw [CBuf.frame_eq] at hx
        cases st
        · -- drained now: later ones were not emitted yet
          have := CBuf.run_local_from _ rest (q.frame_inv aged jc .disconnected h) y hy
          rw [CBuf.frame_eq] at this
          rcases this with h1 | h1
          · simp [CBuf.drain, CBuf.items] at h1
          · simp only [CBuf.drain] at h1
            have := hp.lt x hx
            omega
        · simp at hx
        · simp at hx


/-- everything put on the wire from a state on is either buffered now or not emitted yet -/
theorem CBuf.run_wire_from (q : CBuf) (steps : List CStep) (h : q.Inv) :
    ∀ x ∈ (q.run steps).1, x ∈ q.items ∨ q.next ≤ x.1 := by
  induction steps generalizing q with
  | nil => simp [CBuf.run]
  | cons s rest ih =>
    cases s with
    | emit id =>
      simp only [CBuf.run]
      intro x hx
      rcases ih _ (q.emit_inv id h) x hx with hx | hx
      · simp only [CBuf.emit, CBuf.items, ← List.append_assoc, List.mem_append, List.mem_singleton] at hx
        rcases hx with hx | rfl
        · left; simpa [CBuf.items] using hx
        · right; exact Nat.le_refl _
      · right; simp only [CBuf.emit] at hx; omega
    | frame aged jc st =>
      simp only [CBuf.run]
      intro x hx
      have hsub : ∀ y ∈ (q.pre aged jc).items, y ∈ q.items := by
        intro y hy
        unfold CBuf.pre at hy
        cases aged <;> cases jc <;> simp [CBuf.drain, CBuf.items, CBuf.age] at hy ⊢ <;> simp_all
      rcases List.mem_append.mp hx with hx | hx
      · rw [CBuf.frame_eq] at hx
        cases st
        · simp at hx
        · simp at hx
        · left; exact hsub x (List.mem_filter.mp hx).1
      · rcases ih _ (q.frame_inv aged jc st h) x hx with hx | hx
        · rw [CBuf.frame_eq] at hx
          cases st
          · simp [CBuf.drain, CBuf.items] at hx
          · left; exact hsub x hx
          · left; exact hsub x hx
        · right; rw [q.frame_next] at hx; exact hx

/-- The hypothesis F13 violates: whenever a frame runs while disconnected, nothing that was
already sent to the remote server is still in Bevy's event buffer. -/
def CBuf.NoStale (q : CBuf) : List CStep → Prop
  | [] => True
  | .emit id :: rest => (q.emit id).NoStale rest
  | .frame aged jc st :: rest =>
    (st = .disconnected → ∀ x ∈ (q.pre aged jc).items, q.cursor ≤ x.1) ∧ (q.frame aged jc st).1.NoStale rest

theorem CBuf.run_local_ge (q : CBuf) (steps : List CStep) (h : q.Inv) (hs : q.NoStale steps) :
    ∀ x ∈ (q.run steps).2, q.cursor ≤ x.1 := by
  induction steps generalizing q with
  | nil => simp [CBuf.run]
  | cons s rest ih =>
    cases s with
    | emit id => simp only [CBuf.run]; exact ih _ (q.emit_inv id h) hs
    | frame aged jc st =>
      simp only [CBuf.run]
      intro x hx
      rcases List.mem_append.mp hx with hx | hx
      · rw [CBuf.frame_eq] at hx
        cases st
        · exact hs.1 rfl x hx
        · simp at hx
        · simp at hx
      · exact Nat.le_trans (q.frame_cursor_le aged jc st h) (ih _ (q.frame_inv aged jc st h) hs.2 x hx)

/-- C13 (partial): under `NoStale` no event is handled through both paths over a whole history -/
theorem CBuf.run_disjoint (q : CBuf) (steps : List CStep) (h : q.Inv) (hs : q.NoStale steps) :
    ∀ x ∈ (q.run steps).1, ∀ y ∈ (q.run steps).2, x.1 ≠ y.1 := by
  induction steps generalizing q with
  | nil => simp [CBuf.run]
  | cons s rest ih =>
    cases s with
    | emit id => simp only [CBuf.run]; exact ih _ (q.emit_inv id h) hs
    | frame aged jc st =>
      simp only [CBuf.run]
      intro x hx y hy
      have hi := q.frame_inv aged jc st h
      rcases List.mem_append.mp hx with hx | hx <;> rcases List.mem_append.mp hy with hy | hy
      · rcases q.frame_exclusive aged jc st with e | e
        · rw [e] at hx; cases hx
        · rw [e] at hy; cases hy
      · have h1 := q.frame_wire_lt aged jc st h x hx
        have h2 := CBuf.run_local_ge _ rest hi hs.2 y hy
        omega
      · have h1 := CBuf.run_wire_from _ rest hi x hx
        rw [CBuf.frame_eq] at hy h1
        cases st
        · have := (q.pre_inv aged jc h).lt y hy
          rcases h1 with h1 | h1
          · simp [CBuf.drain, CBuf.items] at h1
          · simp only [CBuf.drain] at h1; omega
        · simp at hy
        · simp at hy
      · exact ih _ hi hs.2 x hx y hy

end Replicon.Evt
