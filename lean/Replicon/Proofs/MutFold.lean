import Replicon.Proofs.Untouched

/-!
# Applying the records of a run's mutate messages, one after the other
-/

namespace Replicon.Cli
open Replicon Replicon.Srv

/-- the client applies a record if it can, and skips it otherwise (`apply_mutations` returning early or
with an error leaves the world as it was for this record) -/
def mutStep (tick : Nat) (c : Client) (m : MsgEnt) : Client :=
  match applyMutEnt c tick m with
  | .ok c' => c'
  | _ => c

/-- the three outcomes of one record -/
theorem mutStep_cases (tick : Nat) (c : Client) (m : MsgEnt) :
    mutStep tick c m = c ∨
    ∃ ce cent last, aget c.s2c m.ent = some ce ∧ aget c.world ce = some cent ∧ cent.hist = some last ∧ tick > last ∧
      mutStep tick c m = writeComps (confirm c ce tick) ce m.comps := by
  unfold mutStep applyMutEnt
  cases hs : aget c.s2c m.ent with
  | none => left; rfl
  | some ce =>
    simp only
    cases hw : aget c.world ce with
    | none => left; rfl
    | some cent =>
      simp only
      cases hh : cent.hist with
      | none => left; rfl
      | some last =>
        simp only
        by_cases hn : tick > last
        · right
          refine ⟨ce, cent, last, rfl, hw, hh, hn, ?_⟩
          simp only [if_pos hn]
        · left
          simp only [if_neg hn]

/-- one record keeps the client well-formed; with distinct kinds it changes exactly the plain values it names -/
theorem mutStep_vals (tick : Nat) (c : Client) (m : MsgEnt) (wf : WF c) (hnd : (m.comps.map (·.1)).Nodup) :
    WF (mutStep tick c m) ∧ (mutStep tick c m).entityComps = c.entityComps ∧
    ∀ se k, c.entityComps.contains k = false →
      valOn (mutStep tick c m) se k = valOn c se k ∨
      (se = m.ent ∧ k ∈ m.comps.map (·.1) ∧ valOn (mutStep tick c m) se k = aget m.comps k) := by
  rcases mutStep_cases tick c m with h | ⟨ce, cent, last, hs, hw, hh, hn, h⟩
  · rw [h]; exact ⟨wf, rfl, fun _ _ _ => Or.inl rfl⟩
  · obtain ⟨c', hok, wf', hv⟩ := applyMutEnt_vals c tick m wf ce cent last hs hw hh hn hnd
    have hc' : mutStep tick c m = c' := by
      unfold mutStep; rw [hok]
    rw [hc']
    refine ⟨wf', ?_, ?_⟩
    · have : c' = writeComps (confirm c ce tick) ce m.comps := by rw [← hc', h]
      rw [this, writeComps_entityComps, confirm_entityComps]
    · intro se k hplain
      rw [hv se k hplain]
      by_cases hc : aget c.s2c se = some ce ∧ k ∈ m.comps.map (·.1)
      · right
        rw [if_pos hc]
        exact ⟨wf.inj se m.ent ce hc.1 hs, hc.2, rfl⟩
      · left; rw [if_neg hc]

/-- a record for another entity leaves a mapped entity untouched -/
theorem untouched_mutStep (tick : Nat) (c : Client) (m : MsgEnt) (wf : WF c) (se : Nat)
    (hm : (aget c.s2c se).isSome = true) (hne : se ≠ m.ent) : Untouched c (mutStep tick c m) se := by
  rcases mutStep_cases tick c m with h | ⟨ce, cent, last, hs, hw, hh, hn, h⟩
  · rw [h]; exact Untouched.refl c se
  · rw [h]
    have hn1 : aget c.s2c se ≠ some ce := fun hh' => hne (wf.inj se m.ent ce hh' hs)
    have u1 := untouched_confirm c ce tick se hn1
    obtain ⟨w1, _, k3, _⟩ := confirm_keeps c ce tick wf
    obtain ⟨ent', he', _⟩ := k3 ce cent hw
    refine u1.trans (untouched_writeComps ce m.comps (confirm c ce tick) w1 (by rw [he']; rfl) se
      (by rw [u1.1]; exact hm) (by rw [u1.1]; exact hn1))

/-- records that do not name `(se, k)` leave its plain value alone -/
theorem mutFold_unnamed (tick : Nat) (se k : Nat) : ∀ (l : List MsgEnt) (c : Client), WF c →
    c.entityComps.contains k = false → (∀ m ∈ l, (m.comps.map (·.1)).Nodup) →
    (∀ m ∈ l, ¬ (se = m.ent ∧ k ∈ m.comps.map (·.1))) →
    valOn (l.foldl (mutStep tick) c) se k = valOn c se k := by
  intro l
  induction l with
  | nil => intro c _ _ _ _; rfl
  | cons x xs ih =>
    intro c wf hplain hnd hno
    rw [List.foldl_cons]
    obtain ⟨w1, e1, v1⟩ := mutStep_vals tick c x wf (hnd x List.mem_cons_self)
    rw [ih _ w1 (by rw [e1]; exact hplain) (fun m hm => hnd m (List.mem_cons_of_mem _ hm))
      (fun m hm => hno m (List.mem_cons_of_mem _ hm))]
    rcases v1 se k hplain with h | ⟨h1, h2, _⟩
    · exact h
    · exact absurd ⟨h1, h2⟩ (hno x List.mem_cons_self)

/-- the entity is mapped to a live client entity confirmed at a tick older than `tick` -/
def Ready (tick : Nat) (c : Client) (e : Nat) : Prop :=
  ∃ ce cent last, aget c.s2c e = some ce ∧ aget c.world ce = some cent ∧ cent.hist = some last ∧ last < tick

theorem ready_untouched (tick : Nat) (c c' : Client) (e : Nat) (u : Untouched c c' e) (h : Ready tick c e) : Ready tick c' e := by
  obtain ⟨ce, cent, last, h1, h2, h3, h4⟩ := h
  exact ⟨ce, cent, last, by rw [u.1]; exact h1, by rw [u.2 ce h1]; exact h2, h3, h4⟩

/-- if `r` is the only record for entity `e` among the records, it is applied while the entity is still
`Ready`, and afterwards the plain value of a kind it names is the record's -/
theorem mutFold_target (tick : Nat) (e k v : Nat) (r : MsgEnt) (hre : r.ent = e)
    (hk : k ∈ r.comps.map (·.1)) (hv : aget r.comps k = some v) :
    ∀ (l : List MsgEnt) (c : Client), WF c → c.entityComps.contains k = false →
      (∀ m ∈ l, (m.comps.map (·.1)).Nodup) → (∀ m ∈ l, m.ent = e → m = r) →
      ((r ∈ l ∧ Ready tick c e) ∨ valOn c e k = some v) →
      valOn (l.foldl (mutStep tick) c) e k = some v := by
  intro l
  induction l with
  | nil =>
    intro c _ _ _ _ h
    rcases h with ⟨h, _⟩ | h
    · cases h
    · exact h
  | cons x xs ih =>
    intro c wf hplain hnd hall h
    rw [List.foldl_cons]
    obtain ⟨w1, e1, v1⟩ := mutStep_vals tick c x wf (hnd x List.mem_cons_self)
    apply ih _ w1 (by rw [e1]; exact hplain) (fun m hm => hnd m (List.mem_cons_of_mem _ hm))
      (fun m hm => hall m (List.mem_cons_of_mem _ hm))
    by_cases hx : x.ent = e
    · have hxr : x = r := hall x List.mem_cons_self hx
      right
      rcases h with ⟨_, hrdy⟩ | hval
      · obtain ⟨ce, cent, last, h1, h2, h3, h4⟩ := hrdy
        rw [hxr]
        obtain ⟨c', hok, _, hvv⟩ := applyMutEnt_vals c tick r wf ce cent last (by rw [hre]; exact h1) h2 h3 h4
          (by rw [← hxr]; exact hnd x List.mem_cons_self)
        have hc' : mutStep tick c r = c' := by unfold mutStep; rw [hok]
        rw [hc', hvv e k hplain, if_pos ⟨h1, hk⟩, hv]
      · rcases v1 e k hplain with hsame | ⟨_, _, hnew⟩
        · rw [hsame]; exact hval
        · rw [hnew, hxr, hv]
    · rcases h with ⟨hin, hrdy⟩ | hval
      · left
        refine ⟨?_, ?_⟩
        · rcases List.mem_cons.mp hin with h' | h'
          · rw [← h'] at hx; exact absurd hre hx
          · exact h'
        · have hrdy' := hrdy
          obtain ⟨ce, _, _, h1, _, _, _⟩ := hrdy
          exact ready_untouched tick c _ e
            (untouched_mutStep tick c x wf e (by rw [h1]; rfl) (fun he => hx he.symm)) hrdy'
      · right
        rcases v1 e k hplain with hsame | ⟨he, _, _⟩
        · rw [hsame]; exact hval
        · exact absurd he.symm hx

end Replicon.Cli
