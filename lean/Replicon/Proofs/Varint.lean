import Replicon.Model.Varint
import Mathlib.Tactic.Ring

namespace Replicon

theorem encodeVarintLoop_bytesOk : ∀ (fuel v : Nat), BytesOk (encodeVarintLoop fuel v) := by
  intro fuel
  induction fuel with
  | zero => intro v b hb; simp [encodeVarintLoop] at hb
  | succ fuel ih =>
    intro v
    unfold encodeVarintLoop
    split
    · intro b hb; simp at hb; omega
    · intro b hb
      simp only [List.mem_cons] at hb
      rcases hb with hb | hb
      · omega
      · exact ih (v / 128) b hb

/-- General round trip of the decoder loop against the encoder loop. -/
theorem decodeVarintLoop_encode (lastMax : Nat) (hl : lastMax < 128) :
    ∀ (fuel v mul acc : Nat) (rest : List Nat), v < 128 ^ fuel * (lastMax + 1) →
      decodeVarintLoop lastMax (fuel + 1) mul acc (encodeVarintLoop (fuel + 1) v ++ rest)
        = .ok (acc + v * mul, rest) := by
  intro fuel
  induction fuel with
  | zero =>
    intro v mul acc rest hv
    have hv' : v < 128 := by simp at hv; omega
    unfold encodeVarintLoop
    simp only [hv', ↓reduceIte, List.cons_append, List.nil_append]
    unfold decodeVarintLoop
    have h1 : v % 256 = v := by omega
    have h2 : v % 128 = v := by omega
    simp only [h1, h2, hv', ↓reduceIte]
    have : ¬ (True ∧ v > lastMax) := by simp at hv; omega
    simp [this]
  | succ fuel ih =>
    intro v mul acc rest hv
    unfold encodeVarintLoop
    by_cases h : v < 128
    · simp only [h, ↓reduceIte, List.cons_append, List.nil_append]
      unfold decodeVarintLoop
      have h1 : v % 256 = v := by omega
      have h2 : v % 128 = v := by omega
      simp [h1, h2, h]
    · simp only [h, ↓reduceIte, List.cons_append]
      unfold decodeVarintLoop
      have h1 : (v % 128 + 128) % 256 = v % 128 + 128 := by omega
      have h2 : (v % 128 + 128) % 128 = v % 128 := by omega
      have h3 : ¬ (v % 128 + 128 < 128) := by omega
      simp only [h1, h2, h3, ↓reduceIte]
      have hv2 : v / 128 < 128 ^ fuel * (lastMax + 1) := by
        have : 128 ^ (fuel + 1) * (lastMax + 1) = 128 * (128 ^ fuel * (lastMax + 1)) := by ring
        rw [this] at hv
        exact Nat.div_lt_of_lt_mul hv
      rw [ih (v / 128) (mul * 128) (acc + v % 128 * mul) rest hv2]
      congr 2
      have := Nat.div_add_mod v 128
      calc acc + v % 128 * mul + v / 128 * (mul * 128)
          = acc + (128 * (v / 128) + v % 128) * mul := by ring
        _ = acc + v * mul := by rw [this]

theorem decodeU32_encode (v : Nat) (rest : List Nat) (hv : v < 4294967296) :
    decodeU32 (encodeU32 v ++ rest) = .ok (v, rest) := by
  have := decodeVarintLoop_encode 15 (by omega) 4 v 1 0 rest (by norm_num; omega)
  simpa [decodeU32, encodeU32] using this

theorem decodeU64_encode (v : Nat) (rest : List Nat) (hv : v < 18446744073709551616) :
    decodeU64 (encodeU64 v ++ rest) = .ok (v, rest) := by
  have := decodeVarintLoop_encode 1 (by omega) 9 v 1 0 rest (by norm_num; omega)
  simpa [decodeU64, encodeU64] using this

theorem decodeU16_encode (v : Nat) (rest : List Nat) (hv : v < 65536) :
    decodeU16 (encodeU16 v ++ rest) = .ok (v, rest) := by
  have := decodeVarintLoop_encode 3 (by omega) 2 v 1 0 rest (by norm_num; omega)
  simpa [decodeU16, encodeU16] using this

/-- The decoder loop never panics and, when it succeeds, returns a proper suffix. -/
theorem decodeVarintLoop_total (lastMax : Nat) :
    ∀ (fuel mul acc : Nat) (bs : List Nat),
      (decodeVarintLoop lastMax fuel mul acc bs = .err) ∨
      (∃ v rest, decodeVarintLoop lastMax fuel mul acc bs = .ok (v, rest) ∧
        ∃ pre, pre ≠ [] ∧ bs = pre ++ rest) := by
  intro fuel
  induction fuel with
  | zero => intro mul acc bs; left; unfold decodeVarintLoop; rfl
  | succ fuel ih =>
    intro mul acc bs
    cases bs with
    | nil => left; unfold decodeVarintLoop; rfl
    | cons b bs =>
      unfold decodeVarintLoop
      simp only
      split
      · split
        · left; rfl
        · right; exact ⟨_, _, rfl, [b], by simp, by simp⟩
      · rcases ih (mul * 128) (acc + b % 128 * mul) bs with h | ⟨v, rest, h, pre, hp, hb⟩
        · left; exact h
        · right; exact ⟨v, rest, h, b :: pre, by simp, by simp [hb]⟩

end Replicon
