import Replicon.Proofs.Joint
/-
Local re-emission of events sent towards clients, over arbitrary histories of the joint server
model (C13): the local game observes exactly the events whose recipients include the local
server, each once, in emission order.
-/
namespace Replicon.Joint
open Replicon Replicon.Srv Replicon.Evt

/-- the payloads among `l` whose recipients include the local server -/
def localIds (l : List Emitted) : List Nat := (l.filter fun e => localDelivery e.ev.mode).map (·.ev.id)

/-- … among everything a history emits -/
def emittedLocal : List Op → List Nat
  | [] => []
  | .emit em :: ops => (if localDelivery em.ev.mode then [em.ev.id] else []) ++ emittedLocal ops
  | _ :: ops => emittedLocal ops

theorem localIds_append (a b : List Emitted) : localIds (a ++ b) = localIds a ++ localIds b := by
  simp [localIds]

theorem frame_local (st : St) (ticked : Bool) (ms : Nat) (parts : Nat → List (List Nat)) :
    (frame st ticked ms parts).1.localLog = st.localLog ++ localIds st.pending ∧
    (frame st ticked ms parts).1.pending = [] := by
  refine ⟨?_, rfl⟩
  unfold frame
  simp only
  rw [frame_locals]
  rfl

/-- what was re-emitted locally plus what the next frame will re-emit is exactly what was emitted
with the local server among the recipients, in order -/
theorem local_log (ops : List Op) : ∀ (st : St),
    (run st ops).1.localLog ++ localIds (run st ops).1.pending =
      st.localLog ++ localIds st.pending ++ emittedLocal ops := by
  induction ops with
  | nil => intro st; simp [run, emittedLocal]
  | cons op ops ih =>
    intro st
    have hrun : (run st (op :: ops)).1 = (run (step st op).1 ops).1 := rfl
    rw [hrun, ih]
    have same : ∀ st' : St, st'.localLog = st.localLog → st'.pending = st.pending →
        emittedLocal (op :: ops) = emittedLocal ops →
        st'.localLog ++ localIds st'.pending ++ emittedLocal ops = st.localLog ++ localIds st.pending ++ emittedLocal (op :: ops) := by
      intro st' h1 h2 h3; rw [h1, h2, h3]
    cases op with
    | spawn e m cs => exact same _ rfl rfl rfl
    | despawn e => exact same _ rfl rfl rfl
    | insert e k v => exact same _ rfl rfl rfl
    | mutate e k v => exact same _ rfl rfl rfl
    | remove e k => exact same _ rfl rfl rfl
    | mark e on => exact same _ rfl rfl rfl
    | vis c e b => exact same _ rfl rfl rfl
    | map c e p => exact same _ rfl rfl rfl
    | connect c a => exact same _ rfl rfl rfl
    | authorize c => exact same _ rfl rfl rfl
    | disconnect c => exact same _ rfl rfl rfl
    | stop => exact same _ rfl rfl rfl
    | start => exact same _ rfl rfl rfl
    | ack c idxs => exact same _ rfl rfl rfl
    | emit em =>
      simp only [step, emittedLocal, localIds_append, List.append_assoc]
      congr 2
      unfold localIds
      by_cases h : localDelivery em.ev.mode = true <;> simp [h]
    | frame t ms parts =>
      obtain ⟨h1, h2⟩ := frame_local st t ms parts
      show (frame st t ms parts).1.localLog ++ localIds (frame st t ms parts).1.pending ++ emittedLocal ops = _
      rw [h1, h2]
      simp [localIds, emittedLocal]

theorem emittedLocal_append_frame (ops : List Op) (t : Bool) (ms : Nat) (parts : Nat → List (List Nat)) :
    emittedLocal (ops ++ [.frame t ms parts]) = emittedLocal ops := by
  induction ops with
  | nil => rfl
  | cons o os ih => cases o <;> simp [emittedLocal, ih]

theorem pending_after_frame (t : Bool) (ms : Nat) (parts : Nat → List (List Nat)) :
    ∀ (l : List Op) (st : St), (run st (l ++ [.frame t ms parts])).1.pending = [] := by
  intro l
  induction l with
  | nil => intro st; exact (frame_local st t ms parts).2
  | cons o os ih => intro st; exact ih _

end Replicon.Joint
