import Replicon.Proofs.KindsSession
import Replicon.Proofs.ClientKinds
import Replicon.Proofs.Joint

/-!
# Histories in which the tick advances by more than one

`ServerTick::increment_by(k)` under the manual tick policy: the tick moves `k` ahead without a
replication run in between (the trace checker's `sframe tick=K` is `jump (K − 1)` followed by an
ordinary ticking frame).  `Joint.Op` has no such operation; this file adds it *beside* `Joint.Op`
(`OpJ`), shows that every invariant behind the structure theorems is indifferent to the value of
the tick, and restates the entity and component theorems of a session for histories with jumps.
-/

namespace Replicon.Joint
open Replicon Replicon.Srv Replicon.Cli

/-- the tick moves `k` ahead; nothing else happens (no run, no message, no change tick) -/
def St.jump (st : St) (k : Nat) : St := { st with srv := { st.srv with tick := st.srv.tick + k } }

inductive OpJ where
  | op (o : Op)
  | jump (k : Nat)

def stepJ (st : St) : OpJ → St
  | .op o => (step st o).1
  | .jump k => st.jump k

def logStepJ (st : St) (log : Log) : OpJ → Log
  | .op o => logStep st log o
  | .jump _ => log

def runLogJ : St → Log → List OpJ → St × Log
  | st, log, [] => (st, log)
  | st, log, op :: ops => runLogJ (stepJ st op) (logStepJ st log op) ops

/-- legality of the ordinary operations as in `Legal2`; a jump is always legal -/
def LegalOpJ (s : Server) : OpJ → Prop
  | .op o => LegalOp2 s o
  | .jump _ => True

def LegalJ : St → List OpJ → Prop
  | _, [] => True
  | st, op :: ops => LegalOpJ st.srv op ∧ LegalJ (stepJ st op) ops

instance (s : Server) (op : OpJ) : Decidable (LegalOpJ s op) := by
  cases op <;> unfold LegalOpJ <;> infer_instance

def decLegalJ : ∀ (st : St) (ops : List OpJ), Decidable (LegalJ st ops)
  | _, [] => isTrue trivial
  | st, op :: ops =>
    match (inferInstance : Decidable (LegalOpJ st.srv op)), decLegalJ (stepJ st op) ops with
    | isTrue h1, isTrue h2 => isTrue ⟨h1, h2⟩
    | isFalse h1, _ => isFalse fun h => h1 h.1
    | _, isFalse h2 => isFalse fun h => h2 h.2

instance (st : St) (ops : List OpJ) : Decidable (LegalJ st ops) := decLegalJ st ops

/-! ### the invariants do not read the tick -/

theorem sync_jump (st : St) (k : Nat) (inv : SyncInv st.srv) : SyncInv (st.jump k).srv :=
  ⟨inv.worldNodup, inv.clientsNodup, inv.stopped, inv.unauth, inv.sync⟩

theorem rem_jump (st : St) (k : Nat) (inv : RemInv st.srv) : RemInv (st.jump k).srv :=
  ⟨inv.clean, inv.marked⟩

theorem kind_jump (st : St) (k : Nat) (inv : KindInv st.srv) : KindInv (st.jump k).srv :=
  ⟨inv.tlt, inv.stamps, inv.remFresh, inv.remNodup⟩

theorem ck_jump (st : St) (k : Nat) (cl : Cli) (G : Nat → List Nat) (h : CK st.srv cl G) :
    CK (st.jump k).srv cl G :=
  ⟨h.none, h.rate, h.kept⟩

theorem sess_jump (st : St) (log : Log) (k : Nat) (inv : SessInv st log) : SessInv (st.jump k) log :=
  ⟨sync_jump st k inv.sync, rem_jump st k inv.rem, inv.cli⟩

theorem ksess_jump (st : St) (log : Log) (k : Nat) (inv : KSess st log) : KSess (st.jump k) log :=
  ⟨sess_jump st log k inv.sess, kind_jump st k inv.kind, fun x hx => ck_jump st k x.2 _ (inv.ck x hx)⟩

theorem ksess_stepJ (st : St) (log : Log) (op : OpJ) (inv : KSess st log) (hl : LegalOpJ st.srv op) :
    KSess (stepJ st op) (logStepJ st log op) := by
  cases op with
  | op o => exact ksess_step st log o inv hl
  | jump k => exact ksess_jump st log k inv

theorem ksess_runJ (ops : List OpJ) : ∀ (st : St) (log : Log), KSess st log → LegalJ st ops →
    KSess (runLogJ st log ops).1 (runLogJ st log ops).2 := by
  induction ops with
  | nil => intro st log inv _; exact inv
  | cons op ops ih =>
    intro st log inv hl
    exact ih _ _ (ksess_stepJ st log op inv hl.1) hl.2

theorem ksess_empty (s0 : Server) (hw : s0.world = []) (hc0 : s0.clients = []) (hb : s0.removalBuf = [])
    (ht : s0.lastRun < s0.now) : KSess ({ srv := s0 } : St) (fun _ => []) := by
  refine ⟨⟨sync_empty s0 hw hc0, ⟨fun _ => hb, fun _ r hrm => ?_⟩, ?_⟩, kind_empty s0 hw hb ht, ?_⟩
  · have : r ∈ s0.removalBuf := hrm
    rw [hb] at this; cases this
  · intro x hx
    have : x ∈ s0.clients := hx
    rw [hc0] at this; cases this
  · intro x hx
    have : x ∈ s0.clients := hx
    rw [hc0] at this; cases this

/-! ### what a frame with a run gives, from the invariant alone -/

/-- entities: after a frame with a run from any state that satisfies the session invariant, the
replayed client holds exactly the marked entities visible to it -/
theorem view_of_sess (st : St) (log : Log) (inv : SessInv st log) (ticked : Bool) (ms : Nat)
    (parts : Nat → List (List Nat)) (hl : LegalOp2 st.srv (.frame ticked ms parts))
    (hr : st.srv.running = true) (hc : (preRun st.srv ticked ms).tickChanged = true) :
    ∀ x ∈ (step st (.frame ticked ms parts)).1.srv.clients, x.2.authorized = true →
      WF (replay (logStep st log (.frame ticked ms parts) x.1)) ∧
      ∀ se, held (replay (logStep st log (.frame ticked ms parts) x.1)) se ↔
        marked (step st (.frame ticked ms parts)).1.srv.world se ∧
        Vis.isVisible (step st (.frame ticked ms parts)).1.srv.white (cell x.2 se) = true := by
  intro x hx ha
  have inv' := sess_step st log (.frame ticked ms parts) inv hl
  obtain ⟨_, _, h3, h4, _⟩ := inv'.cli x hx
  refine ⟨h3, ?_⟩
  intro se
  rw [h4 se]
  exact fullFrame_view st.srv ticked ms parts inv.sync hr hc x hx ha se

/-- component kinds: the body of `session_kinds`, from the invariant alone -/
theorem kinds_of_ksess (st : St) (log : Log) (invp : KSess st log) (ticked : Bool) (ms : Nat)
    (parts : Nat → List (List Nat))
    (hr : st.srv.running = true) (hc : (preRun st.srv ticked ms).tickChanged = true) :
    ∀ x ∈ (step st (.frame ticked ms parts)).1.srv.clients, x.2.authorized = true →
      ∀ e, e ∈ keys x.2 → ∀ ent, (e, ent) ∈ (step st (.frame ticked ms parts)).1.srv.world →
        ∀ k, k ∈ ghostKinds (logStep st log (.frame ticked ms parts) x.1) e ↔
          k ∈ presentKinds (step st (.frame ticked ms parts)).1.srv ent := by
  intro x hx ha e hke ent hwld k
  have sinvp := preRun_sync st.srv ticked ms invp.sess.sync
  have kinvp := preRun_kind st.srv ticked ms hr invp.kind
  obtain ⟨_, _, _, _, p5⟩ := preRun_fields st.srv ticked ms
  obtain ⟨_, _, _, q4, _, q6, q7⟩ := preRun_kindfields st.srv ticked ms hr
  obtain ⟨r1, r2, _, _, _, _⟩ := fullFrame_ran st.srv ticked ms parts hr hc
  have hx2 : x ∈ (st.srv.fullFrame ticked ms parts).clients := hx
  rw [r1, List.mem_map] at hx2
  obtain ⟨y, hy, rfl⟩ := hx2
  have ha' : y.2.authorized = true := by
    cases hay : y.2.authorized with
    | true => rfl
    | false =>
      have hrc : ranClient (preRun st.srv ticked ms) parts y = y := by
        unfold ranClient; simp only [hay, Bool.false_eq_true, if_false]
      rw [hrc, hay] at ha; cases ha
  have ckp : CK (preRun st.srv ticked ms) y.2 (ghostOf log y.1) := by
    rw [p5, List.mem_map] at hy
    obtain ⟨z, hz, rfl⟩ := hy
    exact preRun_ck st.srv ticked ms hr invp.sess.sync.worldNodup z.2 _ (invp.ck z hz)
  have hlog := logStep_ran st log ticked ms parts hr hc sinvp.clientsNodup y hy
  have hwld' : (e, ent) ∈ (preRun st.srv ticked ms).world := by
    have : (e, ent) ∈ (st.srv.fullFrame ticked ms parts).world := hwld
    rw [r2] at this; exact this
  have hpk : presentKinds (step st (.frame ticked ms parts)).1.srv ent = presentKinds (preRun st.srv ticked ms) ent :=
    presentKinds_congr _ _ ((fullFrame_rates st.srv ticked ms parts).trans q4.symm) ent
  rw [hpk]
  show k ∈ ghostKinds (logStep st log (.frame ticked ms parts) y.1) e ↔ _
  cases hu : (runClient (preRun st.srv ticked ms) ((preRun st.srv ticked ms).now + 1) y.2).2.update with
  | none =>
    have hl' : logStep st log (.frame ticked ms parts) y.1 = log y.1 := by
      rw [hlog]; simp only [ha', if_true, hu]
    rw [hl']
    exact (ran_kinds_none _ parts sinvp kinvp q6 q7 y hy ha' _ ckp hu).2 e hke ent hwld' k
  | some u =>
    have hl' : logStep st log (.frame ticked ms parts) y.1 = log y.1 ++ [u] := by
      rw [hlog]; simp only [ha', if_true, hu]
    rw [hl', ghostKinds_append]
    exact (ran_kinds_some _ parts sinvp kinvp q6 q7 y hy ha' _ ckp u hu).2.2 e hke ent hwld' k

/-- component kinds on the client model: the body of `session_components`, from the invariant alone -/
theorem clientKinds_of_ksess (st : St) (log : Log) (invp : KSess st log) (ticked : Bool) (ms : Nat)
    (parts : Nat → List (List Nat))
    (hr : st.srv.running = true) (hc : (preRun st.srv ticked ms).tickChanged = true) :
    ∀ x ∈ (step st (.frame ticked ms parts)).1.srv.clients, x.2.authorized = true →
      ∀ e, e ∈ keys x.2 → ∀ ent, (e, ent) ∈ (step st (.frame ticked ms parts)).1.srv.world →
        ∀ k, k ∈ kindsOn (replay (logStep st log (.frame ticked ms parts) x.1)) e ↔
          k ∈ presentKinds (step st (.frame ticked ms parts)).1.srv ent := by
  intro x hx ha e hke ent hwld k
  rw [← kinds_of_ksess st log invp ticked ms parts hr hc x hx ha e hke ent hwld k]
  have inv' := sess_step st log (.frame ticked ms parts) invp.sess (by unfold LegalOp2 LegalOp'; trivial)
  obtain ⟨_, _, _, _, hok⟩ := inv'.cli x hx
  unfold replay ghostKinds
  have := replay_kinds _ {} wf_fresh hok e k
  rw [this]
  have h0 : kindsOn ({} : Client) e = [] := rfl
  rw [h0]

/-! ### the session theorems for histories with jumps -/

/-- **Entities and component kinds over ALL histories with tick jumps, both models.**  After any
history of ordinary operations and jumps of the tick by any amounts (entity identifiers not reused,
a stopped server sees a frame before a restart, no pre-spawn mappings) from a server without
entities and clients, whatever frame comes next: if `send_replication` runs in it then, for every
authorized client, the client model started fresh and fed in order the update messages sent to it
since it connected is well-formed, holds exactly the marked entities visible to that client, and
the DESPAWNS / REMOVALS / CHANGES records of those messages replay, for every entity the server
tracks for the client, to exactly the replicated component kinds the server entity carries, and so
do the component kinds on the client model's entity for it. -/
theorem session_with_jumps (s0 : Server) (hw : s0.world = []) (hc0 : s0.clients = []) (hb : s0.removalBuf = [])
    (ht : s0.lastRun < s0.now) (ops : List OpJ) (hl : LegalJ { srv := s0 } ops)
    (ticked : Bool) (ms : Nat) (parts : Nat → List (List Nat))
    (hr : (runLogJ { srv := s0 } (fun _ => []) ops).1.srv.running = true)
    (hc : (preRun (runLogJ { srv := s0 } (fun _ => []) ops).1.srv ticked ms).tickChanged = true) :
    ∀ x ∈ (step (runLogJ { srv := s0 } (fun _ => []) ops).1 (.frame ticked ms parts)).1.srv.clients,
      x.2.authorized = true →
      (WF (replay (logStep (runLogJ { srv := s0 } (fun _ => []) ops).1 (runLogJ { srv := s0 } (fun _ => []) ops).2
            (.frame ticked ms parts) x.1)) ∧
       ∀ se, held (replay (logStep (runLogJ { srv := s0 } (fun _ => []) ops).1 (runLogJ { srv := s0 } (fun _ => []) ops).2
            (.frame ticked ms parts) x.1)) se ↔
         marked (step (runLogJ { srv := s0 } (fun _ => []) ops).1 (.frame ticked ms parts)).1.srv.world se ∧
         Vis.isVisible (step (runLogJ { srv := s0 } (fun _ => []) ops).1 (.frame ticked ms parts)).1.srv.white (cell x.2 se) = true) ∧
      (∀ e, e ∈ keys x.2 → ∀ ent,
        (e, ent) ∈ (step (runLogJ { srv := s0 } (fun _ => []) ops).1 (.frame ticked ms parts)).1.srv.world →
        ∀ k, k ∈ ghostKinds (logStep (runLogJ { srv := s0 } (fun _ => []) ops).1 (runLogJ { srv := s0 } (fun _ => []) ops).2
            (.frame ticked ms parts) x.1) e ↔
          k ∈ presentKinds (step (runLogJ { srv := s0 } (fun _ => []) ops).1 (.frame ticked ms parts)).1.srv ent) ∧
      (∀ e, e ∈ keys x.2 → ∀ ent,
        (e, ent) ∈ (step (runLogJ { srv := s0 } (fun _ => []) ops).1 (.frame ticked ms parts)).1.srv.world →
        ∀ k, k ∈ kindsOn (replay (logStep (runLogJ { srv := s0 } (fun _ => []) ops).1 (runLogJ { srv := s0 } (fun _ => []) ops).2
            (.frame ticked ms parts) x.1)) e ↔
          k ∈ presentKinds (step (runLogJ { srv := s0 } (fun _ => []) ops).1 (.frame ticked ms parts)).1.srv ent) := by
  have inv := ksess_runJ ops _ _ (ksess_empty s0 hw hc0 hb ht) hl
  intro x hx ha
  exact ⟨view_of_sess _ _ inv.sess ticked ms parts (by unfold LegalOp2 LegalOp'; trivial) hr hc x hx ha,
         kinds_of_ksess _ _ inv ticked ms parts hr hc x hx ha,
         clientKinds_of_ksess _ _ inv ticked ms parts hr hc x hx ha⟩

/-- a jump changes nothing but the tick: the next frame's update messages carry the advanced tick -/
theorem jump_fields (st : St) (k : Nat) :
    (st.jump k).srv.tick = st.srv.tick + k ∧ (st.jump k).srv.world = st.srv.world ∧
    (st.jump k).srv.clients = st.srv.clients ∧ (st.jump k).srv.now = st.srv.now ∧
    (st.jump k).srv.lastRun = st.srv.lastRun ∧ (st.jump k).srv.tickChanged = st.srv.tickChanged ∧
    (st.jump k).ev = st.ev ∧ (st.jump k).pending = st.pending :=
  ⟨rfl, rfl, rfl, rfl, rfl, rfl, rfl, rfl⟩

/-! ### stamps of dependent events (C04) with jumps -/

/-- a step of a history with jumps, with what it hands to the transport (a jump: nothing) -/
def stepJO (st : St) : OpJ → St × (List (Nat × ClientOut) × List Evt.Out)
  | .op o => step st o
  | .jump k => (st.jump k, ([], []))

def runJ (st : St) : List OpJ → St × List (List (Nat × ClientOut) × List Evt.Out)
  | [] => (st, [])
  | op :: ops =>
    let r := stepJO st op
    let t := runJ r.1 ops
    (t.1, (r.2.1, r.2.2) :: t.2)

/-- the ticks sent so far stay below a tick that only grows -/
theorem inv_jump (st : St) (k : Nat) (inv : Inv st) : Inv (st.jump k) := by
  refine ⟨inv.nodup, inv.tickEq, inv.incr, ?_, ?_, inv.unauth⟩
  · intro c t ht
    have := inv.le c t ht
    show t ≤ st.srv.tick + k
    omega
  · intro hc c t ht
    have := inv.fresh hc c t ht
    show t < st.srv.tick + k
    omega

theorem inv_stepJO (st : St) (op : OpJ) (inv : Inv st) :
    Inv (stepJO st op).1 ∧ StampsOk (stepJO st op).1 (stepJO st op).2.2 := by
  cases op with
  | op o => exact inv_step st o inv
  | jump k => exact ⟨inv_jump st k inv, fun o ho => by cases ho⟩

theorem inv_runJ (ops : List OpJ) : ∀ (st : St), Inv st →
    Inv (runJ st ops).1 ∧ ∀ fr ∈ (runJ st ops).2, ∃ st', Inv st' ∧ StampsOk st' fr.2 := by
  induction ops with
  | nil => intro st inv; exact ⟨inv, by intro fr h; cases h⟩
  | cons op ops ih =>
    intro st inv
    obtain ⟨h1, h2⟩ := inv_stepJO st op inv
    obtain ⟨k1, k2⟩ := ih (stepJO st op).1 h1
    refine ⟨k1, ?_⟩
    intro fr hfr
    simp only [runJ] at hfr
    rcases List.mem_cons.mp hfr with rfl | h
    · exact ⟨(stepJO st op).1, h1, h2⟩
    · exact k2 fr h

/-! ### any schedule of the unreliable channel, with jumps -/

/-- `session_view_any_schedule` for histories with jumps: a receiver that gets the session's update
messages in order and, anywhere in between, arbitrary mutate messages stays well-formed and holds
exactly the marked entities visible to it. -/
theorem session_any_schedule_with_jumps (s0 : Server) (hw : s0.world = []) (hc0 : s0.clients = [])
    (hb : s0.removalBuf = []) (ht : s0.lastRun < s0.now) (ops : List OpJ) (hl : LegalJ { srv := s0 } ops)
    (ticked : Bool) (ms : Nat) (parts : Nat → List (List Nat))
    (hr : (runLogJ { srv := s0 } (fun _ => []) ops).1.srv.running = true)
    (hc : (preRun (runLogJ { srv := s0 } (fun _ => []) ops).1.srv ticked ms).tickChanged = true) :
    ∀ x ∈ (step (runLogJ { srv := s0 } (fun _ => []) ops).1 (.frame ticked ms parts)).1.srv.clients,
      x.2.authorized = true →
      ∀ arrivals : List Arrival,
        updatesOf arrivals = logStep (runLogJ { srv := s0 } (fun _ => []) ops).1
          (runLogJ { srv := s0 } (fun _ => []) ops).2 (.frame ticked ms parts) x.1 →
        WF (runArrivals {} arrivals) ∧
        ∀ se, held (runArrivals {} arrivals) se ↔
          marked (step (runLogJ { srv := s0 } (fun _ => []) ops).1 (.frame ticked ms parts)).1.srv.world se ∧
          Vis.isVisible (step (runLogJ { srv := s0 } (fun _ => []) ops).1 (.frame ticked ms parts)).1.srv.white (cell x.2 se) = true := by
  have inv := ksess_runJ ops _ _ (ksess_empty s0 hw hc0 hb ht) hl
  intro x hx ha arrivals harr
  have hleg : LegalOp2 (runLogJ { srv := s0 } (fun _ => []) ops).1.srv (.frame ticked ms parts) := by
    unfold LegalOp2 LegalOp'; trivial
  obtain ⟨_, hview⟩ := view_of_sess _ _ inv.sess ticked ms parts hleg hr hc x hx ha
  have inv' := sess_step _ _ (.frame ticked ms parts) inv.sess hleg
  obtain ⟨_, _, _, _, hok⟩ := inv'.cli x hx
  rw [← harr] at hok
  obtain ⟨w, hh⟩ := arrivals_sim arrivals {} {} wf_fresh wf_fresh (fun _ => Iff.rfl) hok
  refine ⟨w, ?_⟩
  intro se
  rw [hh se, harr]
  exact hview se

end Replicon.Joint
