import Replicon.Model.HistorySpec

namespace Replicon

theorem tickSub_abs (a b : Nat) (hba : b ≤ a) (hd : a - b < 4294967296) :
    tickSub (a % 4294967296) (b % 4294967296) = a - b := by
  unfold tickSub; omega

theorem tickCmp_abs (a b : Nat) (h : Near a b) :
    tickCmp (a % 4294967296) (b % 4294967296) = compare a b := by
  unfold Near at h
  unfold tickCmp tickSub Consts.tickHalf
  rcases Nat.lt_trichotomy a b with hlt | heq | hgt
  · rw [Nat.compare_eq_lt.mpr hlt]
    have h1 : ¬ ((a % 4294967296 + 4294967296 - b % 4294967296 % 4294967296) % 4294967296 = 0) := by omega
    have h2 : (a % 4294967296 + 4294967296 - b % 4294967296 % 4294967296) % 4294967296 > 2147483647 := by omega
    simp only [h1, h2, if_false, if_true]
  · subst heq
    rw [Nat.compare_eq_eq.mpr rfl]
    have h1 : (a % 4294967296 + 4294967296 - a % 4294967296 % 4294967296) % 4294967296 = 0 := by omega
    simp only [h1, if_true]
  · rw [Nat.compare_eq_gt.mpr hgt]
    have h1 : ¬ ((a % 4294967296 + 4294967296 - b % 4294967296 % 4294967296) % 4294967296 = 0) := by omega
    have h2 : ¬ (a % 4294967296 + 4294967296 - b % 4294967296 % 4294967296) % 4294967296 > 2147483647 := by omega
    simp only [h1, h2, if_false]

theorem tickGt_abs (a b : Nat) (h : Near a b) :
    tickGt (a % 4294967296) (b % 4294967296) = decide (a > b) := by
  unfold tickGt; rw [tickCmp_abs a b h]
  rcases Nat.lt_trichotomy a b with hlt | heq | hgt
  · rw [Nat.compare_eq_lt.mpr hlt, show decide (a > b) = false from decide_eq_false (by omega)]; rfl
  · rw [Nat.compare_eq_eq.mpr heq, show decide (a > b) = false from decide_eq_false (by omega)]; rfl
  · rw [Nat.compare_eq_gt.mpr hgt, show decide (a > b) = true from decide_eq_true (by omega)]; rfl

theorem tickLt_abs (a b : Nat) (h : Near a b) :
    tickLt (a % 4294967296) (b % 4294967296) = decide (a < b) := by
  unfold tickLt; rw [tickCmp_abs a b h]
  rcases Nat.lt_trichotomy a b with hlt | heq | hgt
  · rw [Nat.compare_eq_lt.mpr hlt, show decide (a < b) = true from decide_eq_true (by omega)]; rfl
  · rw [Nat.compare_eq_eq.mpr heq, show decide (a < b) = false from decide_eq_false (by omega)]; rfl
  · rw [Nat.compare_eq_gt.mpr hgt, show decide (a < b) = false from decide_eq_false (by omega)]; rfl

theorem tickLe_abs (a b : Nat) (h : Near a b) :
    tickLe (a % 4294967296) (b % 4294967296) = decide (a ≤ b) := by
  unfold tickLe; rw [tickCmp_abs a b h]
  rcases Nat.lt_trichotomy a b with hlt | heq | hgt
  · rw [Nat.compare_eq_lt.mpr hlt, show decide (a ≤ b) = true from decide_eq_true (by omega)]; rfl
  · rw [Nat.compare_eq_eq.mpr heq, show decide (a ≤ b) = true from decide_eq_true (by omega)]; rfl
  · rw [Nat.compare_eq_gt.mpr hgt, show decide (a ≤ b) = false from decide_eq_false (by omega)]; rfl

theorem tickGe_abs (a b : Nat) (h : Near a b) :
    tickGe (a % 4294967296) (b % 4294967296) = decide (a ≥ b) := by
  unfold tickGe; rw [tickCmp_abs a b h]
  rcases Nat.lt_trichotomy a b with hlt | heq | hgt
  · rw [Nat.compare_eq_lt.mpr hlt, show decide (a ≥ b) = false from decide_eq_false (by omega)]; rfl
  · rw [Nat.compare_eq_eq.mpr heq, show decide (a ≥ b) = true from decide_eq_true (by omega)]; rfl
  · rw [Nat.compare_eq_gt.mpr hgt, show decide (a ≥ b) = true from decide_eq_true (by omega)]; rfl

end Replicon
