import Replicon.Proofs.Joint
/-
The ghost of `Model/Joint.lean` is what it claims to be: the ticks of the update messages handed
to the transport, per client and session.
-/
namespace Replicon.Joint
open Replicon Replicon.Srv Replicon.Evt

/-- what `runAll` outputs: for every authorized client its run's result -/
theorem mem_runAll_outs (p : Server) (c : Nat) (o : ClientOut) :
    (c, o) ∈ p.runAll.2 ↔ ∃ cl, (c, cl) ∈ p.clients ∧ cl.authorized = true ∧ o = (runClient p (p.now + 1) cl).2 := by
  unfold Server.runAll
  simp only [List.mem_filterMap, List.mem_map]
  constructor
  · rintro ⟨x, ⟨y, hy, rfl⟩, hx⟩
    by_cases ha : y.2.authorized = true
    · simp only [ha, if_true, Option.map_some, Option.some.injEq, Prod.mk.injEq] at hx
      obtain ⟨rfl, rfl⟩ := hx
      exact ⟨y.2, hy, ha, rfl⟩
    · simp only [ha, Bool.false_eq_true, if_false, Option.map_none] at hx
      cases hx
  · rintro ⟨cl, hm, ha, rfl⟩
    refine ⟨_, ⟨(c, cl), hm, rfl⟩, ?_⟩
    simp [ha]

/-- The ghost is what it claims to be: whenever a frame hands the transport an update message
for client `c`, its tick is appended to `sent c` — and it is larger than everything sent to that
client before in the session. -/
theorem frame_update_ghost (st : St) (ticked : Bool) (ms : Nat) (parts : Nat → List (List Nat)) (inv : Inv st)
    (c : Nat) (o : ClientOut) (u : Update)
    (hm : (c, o) ∈ (frame st ticked ms parts).2.1) (hu : o.update = some u) :
    (frame st ticked ms parts).1.sent c = st.sent c ++ [u.tick] ∧ ∀ t ∈ st.sent c, t < u.tick := by
  cases hr : st.srv.running
  · -- a stopped server sends nothing
    obtain ⟨_, h2, _⟩ := frameBegin_stopped st.srv ticked ms hr
    have : (frame st ticked ms parts).2.1 = [] := by unfold frame; exact h2
    rw [this] at hm; cases hm
  · have hfb := frameBegin_running st.srv ticked ms hr
    cases hp : (preRun st.srv ticked ms).tickChanged
    · rw [hp] at hfb
      simp only [Bool.not_false, if_true] at hfb
      have : (frame st ticked ms parts).2.1 = [] := by unfold frame; simp only [hfb]
      rw [this] at hm; cases hm
    · rw [hp] at hfb
      simp only [Bool.not_true, Bool.false_eq_true, if_false] at hfb
      have houts : (frame st ticked ms parts).2.1 = (preRun st.srv ticked ms).runAll.2 := by
        unfold frame; simp only [hfb]
      have hsent : (frame st ticked ms parts).1.sent = sentAfter st.sent (preRun st.srv ticked ms) := by
        unfold frame; simp only [hr, hfb]; rfl
      rw [houts] at hm
      obtain ⟨clp, hclp, ha, rfl⟩ := (mem_runAll_outs _ c o).mp hm
      obtain ⟨G, hG, hpc⟩ := preRun_clients st.srv ticked ms
      have hkeys : ((preRun st.srv ticked ms).clients.map (·.1)).Nodup := by
        rw [hpc, map_keyed_keys st.srv.clients (fun _ cl => G cl)]; exact inv.nodup
      have hag := aget_of_mem_nodup _ _ _ hkeys hclp
      have hupd : updOf (preRun st.srv ticked ms) c = some u.tick := by
        unfold updOf
        rw [hag]
        simp only [ha, if_true, hu, Option.map_some]
      have htick : u.tick = (preRun st.srv ticked ms).tick := (runClient_ticks _ _ clp).2.2 u hu
      refine ⟨?_, ?_⟩
      · rw [hsent]; unfold sentAfter; rw [hupd]
      · intro t ht
        rw [htick, (preRun_tick st.srv ticked ms).1]
        have hptc := (preRun_tick st.srv ticked ms).2
        rw [hp] at hptc
        cases ticked
        · simp only [Bool.false_or] at hptc
          simp only [Bool.false_eq_true, if_false]
          exact inv.fresh hptc.symm c t ht
        · simp only [if_true]
          have := inv.le c t ht
          omega

end Replicon.Joint
