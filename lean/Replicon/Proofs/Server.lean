import Replicon.Model.Server

namespace Replicon.Srv

/-! ### acknowledgements (`ClientTicks::ack_mutate_message`) -/

theorem ackOne_unknown (cl : Cli) (idx : Nat) (h : cl.inflight.find? (·.index = idx) = none) :
    ackOne cl idx = cl := by
  unfold ackOne; rw [h]

/-- the fold of `ack_mutate_message` over the entities of one message -/
def ackFold (info : Inflight) (mt : List (Nat × Nat)) : List (Nat × Nat) :=
  info.ents.foldl (fun mt e =>
    match aget mt e with
    | some t => if t ≤ info.tick then aset mt e info.tick else mt
    | none => mt) mt

theorem lookup_filter_ne {α : Type} (l : List (Nat × α)) (k j : Nat) (h : j ≠ k) :
    List.lookup j (l.filter (·.1 ≠ k)) = List.lookup j l := by
  induction l with
  | nil => rfl
  | cons x xs ih =>
    obtain ⟨a, b⟩ := x
    rw [List.filter_cons]
    by_cases ha : a = k
    · subst ha
      have hd : decide ((a, b).1 ≠ a) = false := by simp
      have hja : (j == a) = false := by simpa using h
      rw [if_neg (by simp [hd]), ih, List.lookup_cons, hja]
    · have hd : decide ((a, b).1 ≠ k) = true := by simpa using ha
      rw [if_pos hd, List.lookup_cons, List.lookup_cons, ih]

theorem aget_adel_same {α : Type} (l : List (Nat × α)) (k : Nat) : aget (adel l k) k = none := by
  unfold aget adel
  induction l with
  | nil => rfl
  | cons x xs ih =>
    obtain ⟨a, b⟩ := x
    rw [List.filter_cons]
    by_cases ha : a = k
    · subst ha
      rw [if_neg (by simp), ih]
    · have hd : decide ((a, b).1 ≠ k) = true := by simpa using ha
      have hka : (k == a) = false := by simpa using (fun h => ha h.symm)
      rw [if_pos hd, List.lookup_cons, hka, ih]

theorem aget_aset_same {α : Type} (l : List (Nat × α)) (k : Nat) (v : α) : aget (aset l k v) k = some v := by
  unfold aget aset; simp [List.lookup]

theorem aget_aset_other {α : Type} (l : List (Nat × α)) (k j : Nat) (v : α) (h : j ≠ k) :
    aget (aset l k v) j = aget l j := by
  unfold aget aset
  have hb : (j == k) = false := by simpa using h
  rw [List.lookup_cons, hb]
  exact lookup_filter_ne l k j h

theorem aget_adel_other {α : Type} (l : List (Nat × α)) (k j : Nat) (h : j ≠ k) :
    aget (adel l k) j = aget l j := by
  unfold aget adel
  exact lookup_filter_ne l k j h

/-- One step of the acknowledgement fold never lowers a tick, never creates an entry, and
only moves the entry of the acknowledged entity — to the tick of the acknowledged message. -/
theorem ackStep_sound (tick : Nat) (mt : List (Nat × Nat)) (e j : Nat) :
    let mt' := (match aget mt e with
      | some t => if t ≤ tick then aset mt e tick else mt
      | none => mt)
    (aget mt' j = aget mt j) ∨ (j = e ∧ ∃ t, aget mt j = some t ∧ t ≤ tick ∧ aget mt' j = some tick) := by
  intro mt'
  cases h : aget mt e with
  | none => left; simp only [mt', h]
  | some t =>
    by_cases hle : t ≤ tick
    · by_cases hj : j = e
      · subst hj
        right
        refine ⟨rfl, t, h, hle, ?_⟩
        simp only [mt', h, if_pos hle]
        exact aget_aset_same _ _ _
      · left
        simp only [mt', h, if_pos hle]
        exact aget_aset_other _ _ _ _ hj
    · left; simp only [mt', h, if_neg hle]

/-- Acknowledgement soundness: after acknowledging message `info`, every entity's tick is
either unchanged, or the entity was in the message, had an older-or-equal tick, and now has
exactly the message's tick.  In particular acknowledgements never lower a tick, never create
entries for entities the client is not known to hold, and never skip past the message's tick. -/
theorem ackFold_sound (info : Inflight) : ∀ (mt : List (Nat × Nat)) (j : Nat),
    (aget (ackFold info mt) j = aget mt j) ∨
    (j ∈ info.ents ∧ ∃ t, aget mt j = some t ∧ t ≤ info.tick ∧ aget (ackFold info mt) j = some info.tick) := by
  unfold ackFold
  generalize info.ents = ents
  induction ents with
  | nil => intro mt j; left; rfl
  | cons e es ih =>
    intro mt j
    rw [List.foldl_cons]
    have hs := ackStep_sound info.tick mt e j
    simp only at hs
    generalize hmt' : (match aget mt e with
      | some t => if t ≤ info.tick then aset mt e info.tick else mt
      | none => mt) = mt' at hs
    rcases ih mt' j with h1 | ⟨hmem, t, ht, hle, hres⟩
    · rcases hs with h2 | ⟨hje, t, ht, hle, hres⟩
      · left; rw [h1, h2]
      · right; exact ⟨by rw [hje]; exact List.mem_cons_self, t, ht, hle, by rw [h1, hres]⟩
    · rcases hs with h2 | ⟨hje, t0, ht0, hle0, hres0⟩
      · right; exact ⟨List.mem_cons_of_mem _ hmem, t, by rw [← h2]; exact ht, hle, hres⟩
      · right
        refine ⟨List.mem_cons_of_mem _ hmem, t0, ht0, hle0, hres⟩

theorem ackOne_known (cl : Cli) (idx : Nat) (info : Inflight) (h : cl.inflight.find? (·.index = idx) = some info) :
    ackOne cl idx = { cl with mutTick := ackFold info cl.mutTick, inflight := cl.inflight.filter (·.index ≠ idx) } := by
  unfold ackOne ackFold; rw [h]; rfl

/-- An acknowledgement is consumed: the same index acknowledges nothing a second time. -/
theorem ackOne_twice (cl : Cli) (idx : Nat) : ackOne (ackOne cl idx) idx = ackOne cl idx := by
  cases h : cl.inflight.find? (·.index = idx) with
  | none => rw [ackOne_unknown cl idx h, ackOne_unknown cl idx h]
  | some info =>
    rw [ackOne_known cl idx info h]
    apply ackOne_unknown
    simp only
    rw [List.find?_eq_none]
    intro x hx
    simp only [List.mem_filter, decide_eq_true_eq] at hx
    simpa using hx.2

/-! ### what `collect_changes` decides for one entity -/

/-- Hidden entities produce nothing at all: no component data of a hidden entity is ever put
into a message for that client. -/
theorem collect_hidden (s : Server) (thisRun : Nat) (cl : Cli) (e : Nat) (ent : SEnt) (m : Nat)
    (h : visState s cl e = .hidden) : collectEntity s thisRun cl e ent m = {} := by
  unfold collectEntity
  simp only [h, if_true]

theorem compPath_unknown (s : Server) (fresh : Bool) (r : Rate) (c : Comp) :
    compPath s none fresh r c = .insertion := rfl

/-- An entity the client has never been sent (no tick recorded for it: a client authorized
later, or an entity that just became visible) and that is not hidden is written to the update
message *whole*: every replicated component it carries, with its current value. -/
theorem collect_unknown_whole (s : Server) (thisRun : Nat) (cl : Cli) (e : Nat) (ent : SEnt) (m : Nat)
    (hvis : visState s cl e ≠ .hidden) (hk : aget cl.mutTick e = none) :
    collectEntity s thisRun cl e ent m =
      { toUpdate := some { ent := e, comps := (present s ent).map fun x => (x.1, x.2.2.val) },
        toMutate := none, bump := true } := by
  unfold collectEntity
  simp only [if_neg hvis, hk, compPath_unknown]
  have h1 : ∀ l : List (Nat × Rate × Comp),
      (l.filterMap fun (x : Nat × Rate × Comp) => if Path.insertion = Path.insertion then some (x.1, x.2.2.val) else none)
        = l.map fun x => (x.1, x.2.2.val) := by
    intro l; induction l with
    | nil => rfl
    | cons a as ih => simp [List.filterMap_cons, ih]
  have h2 : ∀ l : List (Nat × Rate × Comp),
      (l.filterMap fun (x : Nat × Rate × Comp) => if Path.insertion = Path.mutation then some (x.1, x.2.2.val) else none) = [] := by
    intro l; induction l with
    | nil => rfl
    | cons a as ih => simp [List.filterMap_cons, ih]
  simp only [h1, h2, Option.isNone_none, Bool.or_true, Bool.true_or, if_true, List.append_nil, List.isEmpty_nil,
    Bool.and_true, Bool.not_true, Bool.and_false, Bool.false_eq_true, if_false]
  congr 2
  simp [List.filterMap_eq_map]

theorem mem_filterMap_path (s : Server) (known : Option Nat) (fresh : Bool) (p : Path)
    (l : List (Nat × Rate × Comp)) (k : Nat) (r : Rate) (c : Comp)
    (hm : (k, r, c) ∈ l) (hp : compPath s known fresh r c = p) :
    (k, c.val) ∈ l.filterMap fun (x : Nat × Rate × Comp) => if compPath s known fresh x.2.1 x.2.2 = p then some (x.1, x.2.2.val) else none := by
  apply List.mem_filterMap.mpr
  exact ⟨(k, r, c), hm, by simp [hp]⟩

/-- insertions / mutations of a known, plainly visible, old entity -/
def insOf (s : Server) (t : Nat) (ent : SEnt) : List (Nat × Nat) :=
  (present s ent).filterMap fun (x : Nat × Rate × Comp) =>
    if compPath s (some t) false x.2.1 x.2.2 = .insertion then some (x.1, x.2.2.val) else none

def mutOf (s : Server) (t : Nat) (ent : SEnt) : List (Nat × Nat) :=
  (present s ent).filterMap fun (x : Nat × Rate × Comp) =>
    if compPath s (some t) false x.2.1 x.2.2 = .mutation then some (x.1, x.2.2.val) else none

/-- The decision for an entity the client knows, that is plainly visible and whose marker is
old, in closed form. -/
theorem collect_known (s : Server) (thisRun : Nat) (cl : Cli) (e : Nat) (ent : SEnt) (m t : Nat)
    (hvis : visState s cl e = .visible) (hk : aget cl.mutTick e = some t) (hold : ¬ m > s.lastRun) :
    collectEntity s thisRun cl e ent m =
      if (!(insOf s t ent).isEmpty || (aget s.removalBuf e).isSome) = true then
        (if ((insOf s t ent).isEmpty && (mutOf s t ent).isEmpty) = true then { bump := true }
         else { toUpdate := some { ent := e, comps := insOf s t ent ++ mutOf s t ent }, bump := true })
      else if (!(mutOf s t ent).isEmpty) = true then { toMutate := some { ent := e, comps := mutOf s t ent } }
      else {} := by
  unfold collectEntity insOf mutOf
  have hv : ¬ visState s cl e = Vis.State.hidden := by rw [hvis]; intro h; cases h
  have hg : decide (visState s cl e = Vis.State.gained) = false := by rw [hvis]; rfl
  simp only [if_neg hv, hk, decide_eq_false hold, hg, Bool.or_self, Option.isNone_some, Bool.false_or,
    Bool.not_false, Bool.and_true]

/-- Resend until acknowledged: a component of an entity the client knows, changed after the
tick the server believes the client has, whose send rate fires in this tick, is put into this
tick's update or mutate message — whatever happened to earlier messages or acknowledgements. -/
theorem collect_resend (s : Server) (thisRun : Nat) (cl : Cli) (e : Nat) (ent : SEnt) (m t : Nat)
    (k : Nat) (r : Rate) (c : Comp)
    (hvis : visState s cl e = .visible) (hk : aget cl.mutTick e = some t)
    (hold : ¬ m > s.lastRun) (hm : (k, r, c) ∈ present s ent)
    (hadded : ¬ c.added > s.lastRun) (hchanged : c.changed > t) (hrate : r.sendMutations s.tick = true) :
    (∃ u, (collectEntity s thisRun cl e ent m).toUpdate = some u ∧ (k, c.val) ∈ u.comps) ∨
    (∃ u, (collectEntity s thisRun cl e ent m).toMutate = some u ∧ (k, c.val) ∈ u.comps) := by
  have hpath : compPath s (some t) false r c = .mutation := by
    unfold compPath
    simp [hadded, hchanged, hrate]
  have hmem : (k, c.val) ∈ mutOf s t ent := mem_filterMap_path s (some t) false .mutation (present s ent) k r c hm hpath
  have hne : (mutOf s t ent).isEmpty = false := by
    cases h : mutOf s t ent with
    | nil => rw [h] at hmem; cases hmem
    | cons _ _ => rfl
  rw [collect_known s thisRun cl e ent m t hvis hk hold]
  by_cases hc : (!(insOf s t ent).isEmpty || (aget s.removalBuf e).isSome) = true
  · rw [if_pos hc, if_neg (by simp [hne])]
    left
    exact ⟨_, rfl, List.mem_append_right _ hmem⟩
  · rw [if_neg hc, if_pos (by simp [hne])]
    right
    exact ⟨_, rfl, hmem⟩

/-- Nothing to say about an entity: the client knows it, it is plainly visible, its marker is
old, every replicated component is old and not newer than the client's tick (or its send rate
does not fire), and no removal is buffered. -/
def Quiet (s : Server) (cl : Cli) (e : Nat) (ent : SEnt) (m : Nat) : Prop :=
  visState s cl e = .visible ∧ (∃ t, aget cl.mutTick e = some t ∧
    ∀ k r c, (k, r, c) ∈ present s ent → compPath s (some t) false r c = .nothing) ∧
  ¬ m > s.lastRun ∧ aget s.removalBuf e = none

theorem filterMap_path_nil (s : Server) (t : Nat) (p : Path) (hp : p ≠ .nothing)
    (l : List (Nat × Rate × Comp)) (h : ∀ k r c, (k, r, c) ∈ l → compPath s (some t) false r c = .nothing) :
    (l.filterMap fun (x : Nat × Rate × Comp) => if compPath s (some t) false x.2.1 x.2.2 = p then some (x.1, x.2.2.val) else none) = [] := by
  apply List.filterMap_eq_nil_iff.mpr
  intro x hx
  obtain ⟨k, r, c⟩ := x
  have := h k r c hx
  simp only [this]
  rw [if_neg (fun h' => hp h'.symm)]

/-- … then `collect_changes` produces nothing for it. -/
theorem collect_quiet (s : Server) (thisRun : Nat) (cl : Cli) (e : Nat) (ent : SEnt) (m : Nat)
    (h : Quiet s cl e ent m) : collectEntity s thisRun cl e ent m = {} := by
  obtain ⟨hvis, ⟨t, hk, hall⟩, hold, hrem⟩ := h
  rw [collect_known s thisRun cl e ent m t hvis hk hold]
  have h1 : insOf s t ent = [] := filterMap_path_nil s t .insertion (by intro h; cases h) _ hall
  have h2 : mutOf s t ent = [] := filterMap_path_nil s t .mutation (by intro h; cases h) _ hall
  simp [h1, h2, hrem]

/-! ### a whole replication run for one client -/

theorem drainLost_of_not_lost (white : Bool) (c0 : Vis.Cell) (h : Vis.lost white c0 = false) :
    Vis.drainLost white c0 = c0 := by
  unfold Vis.lost at h
  unfold Vis.drainLost
  cases c0
  cases white <;> simp_all

/-- no entity is waiting to be reported as lost -/
def NoLost (white : Bool) (cl : Cli) : Prop := ∀ e c0, (e, c0) ∈ cl.vis → Vis.lost white c0 = false

theorem despawnPhase_idle (s : Server) (cl : Cli) (hd : s.despawnBuf = []) (hl : NoLost s.white cl) :
    despawnPhase s cl = (cl, []) := by
  unfold despawnPhase
  rw [hd]
  simp only [List.foldl_nil]
  have hf : (cl.vis.filter fun (x : Nat × Vis.Cell) => Vis.lost s.white x.2) = [] := by
    apply List.filter_eq_nil_iff.mpr
    intro x hx
    obtain ⟨e, c0⟩ := x
    simp [hl e c0 hx]
  have hm : (cl.vis.map fun (x : Nat × Vis.Cell) => (x.1, Vis.drainLost s.white x.2)) = cl.vis := by
    have : (cl.vis.map fun (x : Nat × Vis.Cell) => (x.1, Vis.drainLost s.white x.2)) = cl.vis.map id := by
      apply List.map_congr_left
      intro x hx
      obtain ⟨e, c0⟩ := x
      simp [drainLost_of_not_lost s.white c0 (hl e c0 hx)]
    rw [this, List.map_id]
  simp only [hf, hm, List.map_nil, List.foldl_nil, List.append_nil]

theorem cell_setCell_other (cl : Cli) (e j : Nat) (x : Vis.Cell) (h : j ≠ e) :
    cell (setCell cl e x) j = cell cl j := by
  unfold cell setCell
  by_cases hx : x = {}
  · simp only [hx, if_true]; rw [aget_adel_other _ _ _ h]
  · simp only [hx, if_false]; rw [aget_aset_other _ _ _ _ h]

/-- one iteration of the despawn-buffer loop -/
def despawnStep (s : Server) (acc : Cli × List Nat) (e : Nat) : Cli × List Nat :=
  let c0 := cell acc.1 e
  let ds := if Vis.isVisible s.white c0 then acc.2 ++ [e] else acc.2
  let cl1 := setCell acc.1 e (Vis.removeDespawned s.white c0)
  ({ cl1 with mutTick := adel cl1.mutTick e }, ds)

theorem despawnStep_keeps (s : Server) (acc : Cli × List Nat) (e j : Nat) (h : j ∈ acc.2) :
    j ∈ (despawnStep s acc e).2 := by
  unfold despawnStep
  simp only
  split
  · exact List.mem_append_left _ h
  · exact h

theorem despawnStep_cell_other (s : Server) (acc : Cli × List Nat) (e j : Nat) (h : j ≠ e) :
    cell (despawnStep s acc e).1 j = cell acc.1 j := by
  unfold despawnStep
  simp only
  have := cell_setCell_other acc.1 e j (Vis.removeDespawned s.white (cell acc.1 e)) h
  unfold cell at this ⊢
  exact this

theorem despawnFold_sends (s : Server) (e : Nat) : ∀ (l : List Nat) (acc : Cli × List Nat),
    e ∈ l → (e ∈ acc.2 ∨ Vis.isVisible s.white (cell acc.1 e) = true) →
    e ∈ (l.foldl (despawnStep s) acc).2 := by
  intro l
  induction l with
  | nil => intro acc h; cases h
  | cons x xs ih =>
    intro acc hmem hv
    rw [List.foldl_cons]
    have hkeep : ∀ (ys : List Nat) (a : Cli × List Nat), e ∈ a.2 → e ∈ (ys.foldl (despawnStep s) a).2 := by
      intro ys
      induction ys with
      | nil => intro a h; exact h
      | cons y ys ih2 => intro a h; rw [List.foldl_cons]; exact ih2 _ (despawnStep_keeps s a y e h)
    by_cases hx : x = e
    · subst hx
      apply hkeep
      rcases hv with h | h
      · exact despawnStep_keeps s acc x x h
      · unfold despawnStep; simp only [h, if_true]; exact List.mem_append_right _ (List.mem_singleton.mpr rfl)
    · have hmem' : e ∈ xs := by
        rcases List.mem_cons.mp hmem with h | h
        · exact absurd h.symm hx
        · exact h
      apply ih _ hmem'
      rcases hv with h | h
      · left; exact despawnStep_keeps s acc x e h
      · right; rw [despawnStep_cell_other s acc x e (fun h' => hx h'.symm)]; exact h

/-- A despawned (or no longer replicated) entity that the client could see is in the DESPAWNS
section of the run's update message for that client. -/
theorem despawnPhase_sends (s : Server) (cl : Cli) (e : Nat) (hm : e ∈ s.despawnBuf)
    (hv : Vis.isVisible s.white (cell cl e) = true) : e ∈ (despawnPhase s cl).2 := by
  unfold despawnPhase
  simp only
  apply List.mem_append_left
  exact despawnFold_sends s e s.despawnBuf (cl, []) hm (Or.inr hv)

/-- Idle silence: nothing is buffered, no mapping is pending, no entity is waiting to be
reported lost, and there is nothing to say about any replicated entity — then the client is
sent no update message and no mutation, and its state does not change. -/
theorem runClient_idle (s : Server) (thisRun : Nat) (cl : Cli)
    (hd : s.despawnBuf = []) (hr : s.removalBuf = []) (hm : cl.mappings = []) (hl : NoLost s.white cl)
    (hq : ∀ e ent m, (e, ent) ∈ s.world → ent.marker = some m → Quiet s cl e ent m) :
    runClient s thisRun cl = (cl, { update := none, mutEnts := [] }) := by
  unfold runClient
  have hcl : ({ cl with mappings := [] } : Cli) = cl := by cases cl; simp_all
  rw [hcl, despawnPhase_idle s cl hd hl]
  simp only
  have houts : ∀ x ∈ entityOuts s thisRun cl, x.2 = {} := by
    intro x hx
    unfold entityOuts at hx
    simp only [List.mem_filterMap] at hx
    obtain ⟨⟨e, ent⟩, hmem, hsome⟩ := hx
    cases hmk : ent.marker with
    | none => rw [hmk] at hsome; cases hsome
    | some m =>
      rw [hmk] at hsome
      simp only [Option.some.injEq] at hsome
      rw [← hsome]
      exact collect_quiet s thisRun cl e ent m (hq e ent m hmem hmk)
  have h1 : (entityOuts s thisRun cl).filterMap (fun x => x.2.toUpdate) = [] := by
    apply List.filterMap_eq_nil_iff.mpr
    intro x hx; rw [houts x hx]
  have h2 : (entityOuts s thisRun cl).filterMap (fun x => x.2.toMutate) = [] := by
    apply List.filterMap_eq_nil_iff.mpr
    intro x hx; rw [houts x hx]
  have h3 : (entityOuts s thisRun cl).filter (fun x => x.2.bump) = [] := by
    apply List.filter_eq_nil_iff.mpr
    intro x hx; rw [houts x hx]; simp
  simp only [h1, h2, h3, hm, hr, List.filter_nil, List.map_nil, List.foldl_nil]
  have : ({ tick := s.tick, mappings := [], despawns := [], removals := [], changes := [] } : Update).isEmpty = true := rfl
  rw [if_pos this]
  cases cl
  simp only at hm
  subst hm
  rfl

/-- Complete state on authorization: for a client the server has never sent anything to (fresh
`ClientTicks`), every replicated entity that is not hidden from it is in the update message of
the run with all its replicated components and their current values. -/
theorem runClient_full_state (s : Server) (thisRun : Nat) (cl : Cli)
    (hd : s.despawnBuf = []) (hl : NoLost s.white cl) (hk : ∀ e, aget cl.mutTick e = none)
    (e : Nat) (ent : SEnt) (m : Nat) (hw : (e, ent) ∈ s.world) (hm : ent.marker = some m)
    (hv : visState s cl e ≠ .hidden) :
    ∃ u, (runClient s thisRun cl).2.update = some u ∧
      ({ ent := e, comps := (present s ent).map fun x => (x.1, x.2.2.val) } : MsgEnt) ∈ u.changes := by
  unfold runClient
  have hl' : NoLost s.white { cl with mappings := [] } := hl
  rw [despawnPhase_idle s _ hd hl']
  simp only
  have hmem : (e, collectEntity s thisRun { cl with mappings := [] } e ent m) ∈ entityOuts s thisRun { cl with mappings := [] } := by
    unfold entityOuts
    apply List.mem_filterMap.mpr
    exact ⟨(e, ent), hw, by simp [hm]⟩
  have hout := collect_unknown_whole s thisRun { cl with mappings := [] } e ent m hv (hk e)
  rw [hout] at hmem
  have hch : ({ ent := e, comps := (present s ent).map fun x => (x.1, x.2.2.val) } : MsgEnt) ∈
      (entityOuts s thisRun { cl with mappings := [] }).filterMap (fun x => x.2.toUpdate) := by
    apply List.mem_filterMap.mpr
    exact ⟨_, hmem, rfl⟩
  have hne : ∀ (mp : List (Nat × Nat)) (ds : List Nat) (rs : List (Nat × List Nat)),
      ({ tick := s.tick, mappings := mp, despawns := ds, removals := rs,
         changes := (entityOuts s thisRun { cl with mappings := [] }).filterMap (fun x => x.2.toUpdate) } : Update).isEmpty = false := by
    intro mp ds rs
    unfold Update.isEmpty
    cases hc : (entityOuts s thisRun { cl with mappings := [] }).filterMap (fun x => x.2.toUpdate) with
    | nil => rw [hc] at hch; cases hch
    | cons _ _ => simp
  rw [if_neg (by rw [hne]; simp)]
  exact ⟨_, rfl, hch⟩

/-- Only authorized clients get replication output: whatever else happens on the server, a
connected client without authorization is sent neither update nor mutate messages. -/
theorem runAll_authorized (s : Server) (c : Nat) (o : ClientOut) (h : (c, o) ∈ s.runAll.2) :
    ∃ cl, (c, cl) ∈ s.clients ∧ cl.authorized = true := by
  unfold Server.runAll at h
  simp only [List.mem_filterMap, List.mem_map] at h
  obtain ⟨⟨c', cl', o'⟩, ⟨⟨c0, cl0⟩, hin0, heq⟩, hsome⟩ := h
  by_cases ha : cl0.authorized = true
  · simp only [ha, if_true, Prod.mk.injEq] at heq
    obtain ⟨hc, _, ho⟩ := heq
    rw [← ho] at hsome
    simp only [Option.map_some, Option.some.injEq, Prod.mk.injEq] at hsome
    obtain ⟨hc2, _⟩ := hsome
    exact ⟨cl0, by rw [← hc2, ← hc]; exact hin0, ha⟩
  · simp only [ha, Bool.false_eq_true, if_false, Prod.mk.injEq] at heq
    obtain ⟨_, _, ho⟩ := heq
    rw [← ho] at hsome
    simp at hsome


theorem setCell_updateTick (cl : Cli) (e : Nat) (c0 : Vis.Cell) : (setCell cl e c0).updateTick = cl.updateTick := rfl

/-- `collect_despawns` does not touch the client's update tick -/
theorem despawnPhase_updateTick (s : Server) (cl : Cli) : (despawnPhase s cl).1.updateTick = cl.updateTick := by
  unfold despawnPhase
  simp only
  have : ∀ (l : List Nat) (acc : Cli × List Nat),
      (l.foldl (fun (acc : Cli × List Nat) e =>
        let c0 := cell acc.1 e
        let ds := if Vis.isVisible s.white c0 then acc.2 ++ [e] else acc.2
        let cl1 := setCell acc.1 e (Vis.removeDespawned s.white c0)
        ({ cl1 with mutTick := adel cl1.mutTick e }, ds)) acc).1.updateTick = acc.1.updateTick := by
    intro l
    induction l with
    | nil => intro acc; rfl
    | cons e es ih =>
      intro acc
      rw [List.foldl_cons, ih]
      rfl
  exact this _ _

end Replicon.Srv
