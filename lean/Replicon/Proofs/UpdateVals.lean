import Replicon.Proofs.SentVals

/-!
# An update message changes only the values it names

For a well-formed client and a plain component `k` of server entity `se`: the DESPAWNS section
leaves the value alone unless it names `se`, a REMOVALS record unless it names `se` and `k`, a
CHANGES record unless it is for `se` and names `k`.
-/

namespace Replicon.Cli
open Replicon Replicon.Srv

theorem aget_filter_key {α : Type} (p : Nat → Bool) : ∀ (l : List (Nat × α)) (k : Nat), p k = true →
    aget (l.filter fun x => p x.1) k = aget l k := by
  intro l
  induction l with
  | nil => intro k _; rfl
  | cons x xs ih =>
    intro k hk
    have ih' := ih k hk
    unfold aget at ih' ⊢
    rw [List.filter_cons, List.lookup_cons]
    by_cases hx : k = x.1
    · have hp : p x.1 = true := by rw [← hx]; exact hk
      rw [if_pos hp, List.lookup_cons]
      have hb : (k == x.1) = true := by simp [hx]
      rw [hb]
    · have hb : (k == x.1) = false := by simp [hx]
      rw [hb]
      by_cases hp : p x.1 = true
      · rw [if_pos hp, List.lookup_cons, hb]; exact ih'
      · rw [if_neg hp]; exact ih'

/-- `apply_despawn` of another entity leaves the value alone -/
theorem applyDespawn_vals_other (c : Client) (se' : Nat) (wf : WF c) (se k : Nat) (hne : se ≠ se') :
    valOn (applyDespawn c se') se k = valOn c se k := by
  unfold applyDespawn mapRemove
  cases hg : aget c.s2c se' with
  | none => rfl
  | some ce' =>
    simp only
    unfold valOn
    simp only
    rw [aget_adel, if_neg hne]
    cases hs : aget c.s2c se with
    | none => rfl
    | some ce =>
      simp only
      have hce : ce ≠ ce' := by
        intro h
        rw [h] at hs
        exact hne (wf.inj se se' ce' hs hg)
      rw [aget_adel, if_neg hce]

theorem despawns_vals_other : ∀ (l : List Nat) (c : Client), WF c → ∀ se k, se ∉ l →
    valOn (l.foldl applyDespawn c) se k = valOn c se k := by
  intro l
  induction l with
  | nil => intro c _ se k _; rfl
  | cons x xs ih =>
    intro c wf se k hn
    rw [List.foldl_cons]
    have hx : se ≠ x := fun h => hn (by rw [h]; exact List.mem_cons_self)
    rw [ih _ (applyDespawn_spec c x wf).1 se k (fun h => hn (List.mem_cons_of_mem _ h)),
      applyDespawn_vals_other c x wf se k hx]

/-- a REMOVALS record leaves a value alone unless it names the entity and the kind -/
theorem applyRemoval_vals_other (tick : Nat) (c : Client) (r : Nat × List Nat) (wf : WF c) (c' : Client)
    (h : applyRemoval tick c r = some c') (se k : Nat) (hne : ¬ (se = r.1 ∧ k ∈ r.2)) :
    valOn c' se k = valOn c se k := by
  obtain ⟨c1, ce, h1, w1, hs, hal, _⟩ := targetEntity_kinds c r.1 false wf
  have k2 := confirm_keepsK c1 ce tick w1
  have hs2 : aget (confirm c1 ce tick).s2c r.1 = some ce := k2.1.2.2.2 r.1 ce hs
  unfold applyRemoval at h
  rw [h1] at h
  simp only at h
  cases hg : aget (confirm c1 ce tick).world ce with
  | none =>
    rw [hg] at h
    simp only [Option.some.injEq] at h
    rw [← h, confirm_vals, targetEntity_vals c r.1 false wf c1 ce h1]
  | some ent =>
    rw [hg] at h
    simp only [Option.some.injEq] at h
    rw [← h]
    let ent2 : CEnt := { ent with comps := ent.comps.filter (fun x => !r.2.contains x.1) }
    let c2 : Client := { confirm c1 ce tick with world := aset (confirm c1 ce tick).world ce ent2 }
    have hset := valOn_setEnt (confirm c1 ce tick) c2 ce ent2 rfl rfl se k
    refine hset.trans ?_
    have hiff := s2c_eq_iff (confirm c1 ce tick) k2.1.1 r.1 ce hs2 se
    by_cases hm : aget (confirm c1 ce tick).s2c se = some ce
    · rw [if_pos hm]
      have he : se = r.1 := hiff.mp hm
      have hk : k ∉ r.2 := fun hk => hne ⟨he, hk⟩
      have hp : (fun j => !r.2.contains j) k = true := by simp [hk]
      show aget (ent.comps.filter fun x => (fun j => !r.2.contains j) x.1) k = _
      rw [aget_filter_key (fun j => !r.2.contains j) ent.comps k hp]
      have hv : valOn (confirm c1 ce tick) se k = aget ent.comps k := by
        unfold valOn
        rw [hm]; simp only [hg]
      rw [← hv, confirm_vals, targetEntity_vals c r.1 false wf c1 ce h1]
    · rw [if_neg hm, confirm_vals, targetEntity_vals c r.1 false wf c1 ce h1]

theorem removals_vals_other (tick : Nat) (se k : Nat) : ∀ (l : List (Nat × List Nat)) (c : Client), WF c →
    (∀ r ∈ l, ¬ (se = r.1 ∧ k ∈ r.2)) →
    valOn (foldOpt (applyRemoval tick) (c, false) l).1 se k = valOn c se k := by
  intro l
  induction l with
  | nil => intro c _ _; rfl
  | cons x xs ih =>
    intro c wf hno
    obtain ⟨c1, e1, w1, _⟩ := applyRemoval_kinds tick c x wf
    have hstep : foldOpt (applyRemoval tick) (c, false) (x :: xs) = foldOpt (applyRemoval tick) (c1, false) xs := by
      unfold foldOpt
      rw [List.foldl_cons]
      simp only [Bool.false_eq_true, if_false, e1]
    rw [hstep, ih c1 w1 (fun r hr => hno r (List.mem_cons_of_mem _ hr)),
      applyRemoval_vals_other tick c x wf c1 e1 se k (hno x List.mem_cons_self)]

/-- the CHANGES section leaves a plain value alone unless a record for the entity names the kind -/
theorem changes_vals_other (tick : Nat) (se k : Nat) : ∀ (l : List MsgEnt) (c : Client), WF c →
    c.entityComps.contains k = false → (∀ m ∈ l, (m.comps.map (·.1)).Nodup) →
    (∀ m ∈ l, ¬ (se = m.ent ∧ k ∈ m.comps.map (·.1))) →
    valOn (foldOpt (applyChange tick) (c, false) l).1 se k = valOn c se k := by
  intro l
  induction l with
  | nil => intro c _ _ _ _; rfl
  | cons x xs ih =>
    intro c wf hplain hnd hno
    obtain ⟨c1, e1, w1, _⟩ := applyChange_kinds tick c x wf
    have hstep : foldOpt (applyChange tick) (c, false) (x :: xs) = foldOpt (applyChange tick) (c1, false) xs := by
      unfold foldOpt
      rw [List.foldl_cons]
      simp only [Bool.false_eq_true, if_false, e1]
    have hec : c1.entityComps.contains k = false := by rw [applyChange_entityComps tick c x wf c1 e1]; exact hplain
    rw [hstep, ih c1 w1 hec (fun m hm => hnd m (List.mem_cons_of_mem _ hm)) (fun m hm => hno m (List.mem_cons_of_mem _ hm)),
      applyChange_vals tick c x wf (hnd x List.mem_cons_self) c1 e1 se k hplain, if_neg (hno x List.mem_cons_self)]

/-- **`apply_update_message` changes only the values it names**: for a well-formed client and an
update message without pre-spawn mappings whose records have distinct kinds, the plain component
`k` of server entity `se` keeps its value unless `se` is despawned, a REMOVALS record names `se`
and `k`, or a CHANGES record for `se` names `k`. -/
theorem applyUpdate_vals_other (c : Client) (u : Update) (wf : WF c) (hm : u.mappings = []) (se k : Nat)
    (hplain : c.entityComps.contains k = false)
    (hd : se ∉ u.despawns) (hr : ∀ r ∈ u.removals, ¬ (se = r.1 ∧ k ∈ r.2))
    (hnd : ∀ m ∈ u.changes, (m.comps.map (·.1)).Nodup)
    (hc : ∀ m ∈ u.changes, ¬ (se = m.ent ∧ k ∈ m.comps.map (·.1))) :
    valOn (applyUpdate c u) se k = valOn c se k := by
  unfold applyUpdate
  simp only [hm, List.foldl_nil]
  have wf0 : WF { c with updateTick := u.tick } := ⟨wf.alive, wf.inj, wf.bound⟩
  obtain ⟨w1, _⟩ := despawns_spec u.despawns _ wf0
  obtain ⟨f2, w2, _, _⟩ := removals_spec u.tick u.removals _ w1
  have hec2 := removals_entityComps u.tick u.removals _ w1
  rw [despawns_entityComps] at hec2
  have hv2 := removals_vals_other u.tick se k u.removals _ w1 hr
  rw [despawns_vals_other u.despawns _ wf0 se k hd] at hv2
  generalize hc2 : foldOpt (applyRemoval u.tick) (u.despawns.foldl applyDespawn { c with updateTick := u.tick }, false) u.removals = st2 at f2 w2 hec2 hv2
  have hst2 : st2 = (st2.1, false) := by rw [← f2]
  rw [hst2, changes_vals_other u.tick se k u.changes st2.1 w2 (by rw [hec2]; exact hplain) hnd hc, hv2]
  rfl

end Replicon.Cli
