import Replicon.Proofs.Client
import Replicon.Proofs.Sync
/-
The client half of "which entities a client holds": what `apply_update_message`
(`Cli.applyUpdate`) does to the set of server entities the client holds as replicated entities.
Together with `Proofs/Sync.lean` (the update message of a run carries exactly the difference of
the server's tracked sets) this is the entity-level content of C03 on both sides of the wire.
-/
set_option maxHeartbeats 400000
set_option linter.unusedSimpArgs false
namespace Replicon.Cli
open Replicon Replicon.Srv

/-- the client holds server entity `se`: it is mapped to a live client entity that carries the
replication marker -/
def held (c : Client) (se : Nat) : Prop :=
  ∃ ce ent, aget c.s2c se = some ce ∧ aget c.world ce = some ent ∧ ent.marked = true

/-- well-formedness of the client's entity map and world -/
structure WF (c : Client) : Prop where
  alive : ∀ se ce, aget c.s2c se = some ce → (aget c.world ce).isSome = true
  inj : ∀ se se' ce, aget c.s2c se = some ce → aget c.s2c se' = some ce → se = se'
  bound : ∀ ce, (aget c.world ce).isSome = true → ce < c.next

theorem aget_aset {α : Type} (l : List (Nat × α)) (k j : Nat) (v : α) :
    aget (aset l k v) j = if j = k then some v else aget l j := by
  by_cases h : j = k
  · subst h; simp only [if_true]; exact aget_aset_same l j v
  · simp only [h, if_false]; exact aget_aset_other l k j v h

theorem aget_adel {α : Type} (l : List (Nat × α)) (k j : Nat) :
    aget (adel l k) j = if j = k then none else aget l j := by
  by_cases h : j = k
  · subst h; simp only [if_true]; exact aget_adel_same l j
  · simp only [h, if_false]; exact aget_adel_other l k j h

/-- replacing a live entity by one with the same marker changes nothing here -/
theorem setEnt_spec (c : Client) (ce : Nat) (ent ent' : CEnt) (wf : WF c) (h : aget c.world ce = some ent)
    (hm : ent'.marked = ent.marked) (c' : Client)
    (hs : c'.s2c = c.s2c) (hw : c'.world = aset c.world ce ent') (hn : c'.next = c.next) :
    WF c' ∧ ∀ se, held c' se ↔ held c se := by
  refine ⟨⟨?_, ?_, ?_⟩, ?_⟩
  · intro se x hx
    rw [hs] at hx
    rw [hw, aget_aset]
    split
    · rfl
    · exact wf.alive se x hx
  · intro se se' x h1 h2
    rw [hs] at h1 h2
    exact wf.inj se se' x h1 h2
  · intro x hx
    rw [hn]
    rw [hw, aget_aset] at hx
    split at hx
    · rename_i he; rw [he]; exact wf.bound ce (by rw [h]; rfl)
    · exact wf.bound x hx
  · intro se
    unfold held
    rw [hs, hw]
    constructor
    · rintro ⟨x, e, h1, h2, h3⟩
      rw [aget_aset] at h2
      split at h2
      · rename_i he
        simp only [Option.some.injEq] at h2
        subst h2
        exact ⟨x, ent, h1, by rw [he]; exact h, by rw [← hm]; exact h3⟩
      · exact ⟨x, e, h1, h2, h3⟩
    · rintro ⟨x, e, h1, h2, h3⟩
      by_cases he : x = ce
      · refine ⟨x, ent', h1, by rw [aget_aset]; simp only [he, if_true], ?_⟩
        rw [he, h] at h2
        simp only [Option.some.injEq] at h2
        rw [hm, h2]; exact h3
      · exact ⟨x, e, h1, by rw [aget_aset]; simp only [he, if_false]; exact h2, h3⟩

/-- spawn a fresh client entity for an unmapped server entity -/
def mapFresh (c : Client) (se : Nat) (ent : CEnt) : Client :=
  mapInsert (spawnFresh c ent).1 se (spawnFresh c ent).2

theorem mapFresh_fields (c : Client) (se : Nat) (ent : CEnt) :
    (mapFresh c se ent).s2c = aset c.s2c se c.next ∧ (mapFresh c se ent).world = aset c.world c.next ent ∧
    (mapFresh c se ent).next = c.next + 1 ∧ (mapFresh c se ent).updateTick = c.updateTick := by
  unfold mapFresh mapInsert spawnFresh
  exact ⟨rfl, rfl, rfl, rfl⟩

theorem mapFresh_spec (c : Client) (se : Nat) (ent : CEnt) (wf : WF c) (hu : aget c.s2c se = none) :
    WF (mapFresh c se ent) ∧
    aget (mapFresh c se ent).s2c se = some c.next ∧ aget (mapFresh c se ent).world c.next = some ent ∧
    ∀ se', held (mapFresh c se ent) se' ↔ held c se' ∨ (se' = se ∧ ent.marked = true) := by
  obtain ⟨f1, f2, f3, _⟩ := mapFresh_fields c se ent
  have hfresh : aget c.world c.next = none := by
    cases hg : aget c.world c.next with
    | none => rfl
    | some e => exact absurd (wf.bound c.next (by rw [hg]; rfl)) (Nat.lt_irrefl _)
  have hnot : ∀ se' x, aget c.s2c se' = some x → x ≠ c.next := by
    intro se' x hx he
    have := wf.bound x (wf.alive se' x hx)
    rw [he] at this
    exact Nat.lt_irrefl _ this
  refine ⟨⟨?_, ?_, ?_⟩, ?_, ?_, ?_⟩
  · intro se' x hx
    rw [f1, aget_aset] at hx
    rw [f2, aget_aset]
    split at hx
    · simp only [Option.some.injEq] at hx; subst hx; simp
    · have := hnot se' x hx
      simp only [this, if_false]
      exact wf.alive se' x hx
  · intro a b x h1 h2
    rw [f1, aget_aset] at h1 h2
    split at h1 <;> split at h2
    · rename_i ha hb; rw [ha, hb]
    · simp only [Option.some.injEq] at h1; subst h1; exact absurd rfl (hnot b _ h2)
    · simp only [Option.some.injEq] at h2; subst h2; exact absurd rfl (hnot a _ h1)
    · exact wf.inj a b x h1 h2
  · intro x hx
    rw [f3]
    rw [f2, aget_aset] at hx
    split at hx
    · rename_i he; rw [he]; exact Nat.lt_succ_self _
    · exact Nat.lt_succ_of_lt (wf.bound x hx)
  · rw [f1, aget_aset]; simp
  · rw [f2, aget_aset]; simp
  · intro se'
    unfold held
    rw [f1, f2]
    constructor
    · rintro ⟨x, e, h1, h2, h3⟩
      rw [aget_aset] at h1
      split at h1
      · rename_i he
        simp only [Option.some.injEq] at h1
        subst h1
        rw [aget_aset] at h2
        simp only [if_true, Option.some.injEq] at h2
        subst h2
        exact Or.inr ⟨he, h3⟩
      · have hx := hnot se' x h1
        rw [aget_aset] at h2
        simp only [hx, if_false] at h2
        exact Or.inl ⟨x, e, h1, h2, h3⟩
    · rintro (⟨x, e, h1, h2, h3⟩ | ⟨he, hm⟩)
      · have hne : se' ≠ se := by intro he; rw [he, hu] at h1; cases h1
        have hx := hnot se' x h1
        exact ⟨x, e, by rw [aget_aset]; simp only [hne, if_false]; exact h1,
          by rw [aget_aset]; simp only [hx, if_false]; exact h2, h3⟩
      · exact ⟨c.next, ent, by rw [aget_aset]; simp only [he, if_true],
          by rw [aget_aset]; simp only [if_true], hm⟩

theorem getMapped_spec (c : Client) (se : Nat) (wf : WF c) :
    WF (getMapped c se).1 ∧ (∀ se', held (getMapped c se).1 se' ↔ held c se') ∧
    (∀ ce ent, aget c.world ce = some ent → aget (getMapped c se).1.world ce = some ent) := by
  unfold getMapped
  cases hg : aget c.s2c se with
  | some ce => exact ⟨wf, fun _ => Iff.rfl, fun _ _ h => h⟩
  | none =>
    have hs := mapFresh_spec c se {} wf hg
    have heq : (mapInsert (spawnFresh c {}).1 se (spawnFresh c {}).2) = mapFresh c se {} := rfl
    simp only
    show WF (mapFresh c se {}) ∧ _ ∧ _
    refine ⟨hs.1, ?_, ?_⟩
    · intro se'
      have := hs.2.2.2 se'
      show held (mapFresh c se {}) se' ↔ held c se'
      rw [this]
      constructor
      · rintro (h | ⟨_, h⟩)
        · exact h
        · cases h
      · intro h; exact Or.inl h
    · intro ce ent h
      show aget (mapFresh c se {}).world ce = some ent
      rw [(mapFresh_fields c se {}).2.1, aget_aset]
      have : ce ≠ c.next := by
        intro he
        have := wf.bound ce (by rw [h]; rfl)
        rw [he] at this; exact Nat.lt_irrefl _ this
      simp only [this, if_false]; exact h


/-- the invariant-and-held-set relation "nothing changed" -/
def Keeps (c c' : Client) : Prop :=
  WF c' ∧ (∀ se, held c' se ↔ held c se) ∧
  (∀ ce ent, aget c.world ce = some ent → ∃ ent', aget c'.world ce = some ent' ∧ ent'.marked = ent.marked) ∧
  (∀ se ce, aget c.s2c se = some ce → aget c'.s2c se = some ce)

theorem Keeps.refl (c : Client) (wf : WF c) : Keeps c c :=
  ⟨wf, fun _ => Iff.rfl, fun _ ent h => ⟨ent, h, rfl⟩, fun _ _ h => h⟩

theorem Keeps.trans {a b c : Client} (h1 : Keeps a b) (h2 : Keeps b c) : Keeps a c := by
  obtain ⟨_, a2, a3, a4⟩ := h1
  obtain ⟨b1, b2, b3, b4⟩ := h2
  refine ⟨b1, fun se => (b2 se).trans (a2 se), ?_, fun se ce h => b4 se ce (a4 se ce h)⟩
  intro ce ent h
  obtain ⟨e1, g1, m1⟩ := a3 ce ent h
  obtain ⟨e2, g2, m2⟩ := b3 ce e1 g1
  exact ⟨e2, g2, m2.trans m1⟩

theorem getMapped_keeps (c : Client) (se : Nat) (wf : WF c) : Keeps c (getMapped c se).1 := by
  obtain ⟨h1, h2, h3⟩ := getMapped_spec c se wf
  refine ⟨h1, h2, fun ce ent h => ⟨ent, h3 ce ent h, rfl⟩, ?_⟩
  intro se' ce h
  unfold getMapped
  cases hg : aget c.s2c se with
  | some x => exact h
  | none =>
    show aget (mapFresh c se {}).s2c se' = some ce
    rw [(mapFresh_fields c se {}).1, aget_aset]
    have : se' ≠ se := by intro he; rw [he, hg] at h; cases h
    simp only [this, if_false]; exact h

theorem setEnt_keeps (c : Client) (ce : Nat) (ent ent' : CEnt) (wf : WF c) (h : aget c.world ce = some ent)
    (hm : ent'.marked = ent.marked) (c' : Client)
    (hs : c'.s2c = c.s2c) (hw : c'.world = aset c.world ce ent') (hn : c'.next = c.next) : Keeps c c' := by
  obtain ⟨w, hh⟩ := setEnt_spec c ce ent ent' wf h hm c' hs hw hn
  refine ⟨w, hh, ?_, fun se x hx => by rw [hs]; exact hx⟩
  intro x e hx
  rw [hw, aget_aset]
  by_cases he : x = ce
  · simp only [he, if_true]
    rw [he, h] at hx
    simp only [Option.some.injEq] at hx
    exact ⟨ent', rfl, by rw [hm, hx]⟩
  · simp only [he, if_false]; exact ⟨e, hx, rfl⟩

theorem setEnt_keeps' (c : Client) (ce : Nat) (ent : CEnt) (wf : WF c) (h : aget c.world ce = some ent) (c' : Client)
    (hs : c'.s2c = c.s2c ∧ c'.next = c.next ∧ ∃ ent' : CEnt, c'.world = aset c.world ce ent' ∧ ent'.marked = ent.marked) :
    Keeps c c' := by
  obtain ⟨h1, h2, ent', h3, h4⟩ := hs
  exact setEnt_keeps c ce ent ent' wf h h4 c' h1 h3 h2

theorem writeComps_keeps (ce : Nat) (comps : List (Nat × Nat)) : ∀ (c : Client), WF c → Keeps c (writeComps c ce comps) := by
  unfold writeComps
  induction comps with
  | nil => intro c wf; exact Keeps.refl c wf
  | cons kv rest ih =>
    intro c wf
    rw [List.foldl_cons]
    obtain ⟨k, v⟩ := kv
    have step : Keeps c
        (match aget (if c.entityComps.contains k then getMapped c v else (c, v)).1.world ce with
         | some ent => { (if c.entityComps.contains k then getMapped c v else (c, v)).1 with
             world := aset (if c.entityComps.contains k then getMapped c v else (c, v)).1.world ce
               { ent with comps := aset ent.comps k (if c.entityComps.contains k then getMapped c v else (c, v)).2 } }
         | none => (if c.entityComps.contains k then getMapped c v else (c, v)).1) := by
      have h1 : Keeps c (if c.entityComps.contains k then getMapped c v else (c, v)).1 := by
        split
        · exact getMapped_keeps c v wf
        · exact Keeps.refl c wf
      generalize (if c.entityComps.contains k then getMapped c v else (c, v)) = p at h1 ⊢
      cases hg : aget p.1.world ce with
      | none => exact h1
      | some ent =>
        exact Keeps.trans h1 (setEnt_keeps' p.1 ce ent h1.1 hg _ ⟨rfl, rfl, _, rfl, rfl⟩)
    exact Keeps.trans step (ih _ step.1)

theorem confirm_keeps (c : Client) (ce t : Nat) (wf : WF c) : Keeps c (confirm c ce t) := by
  unfold confirm
  cases hg : aget c.world ce with
  | none => exact Keeps.refl c wf
  | some ent => exact setEnt_keeps' c ce ent wf hg _ ⟨rfl, rfl, _, rfl, rfl⟩

/-- `targetEntity` never fails on a well-formed client; the record's entity is held afterwards
if the caller marks occupied entries (CHANGES), and nothing else changes. -/
theorem targetEntity_spec (c : Client) (se : Nat) (b : Bool) (wf : WF c) :
    ∃ c' ce, targetEntity c se b = .ok (c', ce) ∧ WF c' ∧
      (∀ se', held c se' → held c' se') ∧ (∀ se', held c' se' → held c se' ∨ se' = se) ∧
      (b = true → held c' se) ∧ (held c se → held c' se) := by
  unfold targetEntity
  cases hg : aget c.s2c se with
  | none =>
    obtain ⟨w, m1, m2, hh⟩ := mapFresh_spec c se { marked := true } wf hg
    refine ⟨mapFresh c se { marked := true }, c.next, rfl, w, ?_, ?_, ?_, ?_⟩
    · intro se' h; exact (hh se').mpr (Or.inl h)
    · intro se' h
      rcases (hh se').mp h with h | ⟨h, _⟩
      · exact Or.inl h
      · exact Or.inr h
    · intro _; exact (hh se).mpr (Or.inr ⟨rfl, rfl⟩)
    · intro h; exact (hh se).mpr (Or.inl h)
  | some ce =>
    simp only
    have hal := wf.alive se ce hg
    cases hw : aget c.world ce with
    | none => rw [hw] at hal; cases hal
    | some ent =>
      simp only
      by_cases hcond : (b && !ent.marked) = true
      · simp only [hcond, if_true]
        simp only [Bool.and_eq_true, Bool.not_eq_true'] at hcond
        -- mark the occupied entry
        have hs2c : ({ c with world := aset c.world ce { ent with marked := true } } : Client).s2c = c.s2c := rfl
        refine ⟨_, ce, rfl, ⟨?_, ?_, ?_⟩, ?_, ?_, ?_, ?_⟩
        · intro a x hx
          show (aget (aset c.world ce { ent with marked := true }) x).isSome = true
          rw [aget_aset]
          split
          · rfl
          · exact wf.alive a x hx
        · intro a a' x h1 h2; exact wf.inj a a' x h1 h2
        · intro x hx
          show x < c.next
          have hx' : (aget (aset c.world ce { ent with marked := true }) x).isSome = true := hx
          rw [aget_aset] at hx'
          split at hx'
          · rename_i he; rw [he]; exact wf.bound ce (by rw [hw]; rfl)
          · exact wf.bound x hx'
        · rintro se' ⟨x, e, h1, h2, h3⟩
          by_cases he : x = ce
          · exact ⟨x, { ent with marked := true }, h1, by show aget (aset c.world ce _) x = _; rw [aget_aset]; simp only [he, if_true], rfl⟩
          · exact ⟨x, e, h1, by show aget (aset c.world ce _) x = _; rw [aget_aset]; simp only [he, if_false]; exact h2, h3⟩
        · rintro se' ⟨x, e, h1, h2, h3⟩
          have h1' : aget c.s2c se' = some x := h1
          have h2' : aget (aset c.world ce { ent with marked := true }) x = some e := h2
          rw [aget_aset] at h2'
          split at h2'
          · rename_i he
            right
            rw [he] at h1'
            exact wf.inj se' se ce h1' hg
          · exact Or.inl ⟨x, e, h1', h2', h3⟩
        · intro _
          exact ⟨ce, { ent with marked := true }, hg, by show aget (aset c.world ce _) ce = _; rw [aget_aset]; simp, rfl⟩
        · intro _
          exact ⟨ce, { ent with marked := true }, hg, by show aget (aset c.world ce _) ce = _; rw [aget_aset]; simp, rfl⟩
      · simp only [hcond, Bool.false_eq_true, if_false]
        refine ⟨c, ce, rfl, wf, fun _ h => h, fun _ h => Or.inl h, ?_, fun h => h⟩
        intro hb
        have : ent.marked = true := by
          cases hm : ent.marked with
          | true => rfl
          | false => rw [hb, hm] at hcond; simp at hcond
        exact ⟨ce, ent, hg, hw, this⟩


/-- `apply_changes` for one record: never fails; afterwards the record's entity is held, and
nothing else changed -/
theorem applyChange_spec (tick : Nat) (c : Client) (m : MsgEnt) (wf : WF c) :
    ∃ c', applyChange tick c m = some c' ∧ WF c' ∧ ∀ se, held c' se ↔ held c se ∨ se = m.ent := by
  obtain ⟨c1, ce, h1, w1, a1, a2, a3, _⟩ := targetEntity_spec c m.ent true wf
  have k1 := confirm_keeps c1 ce tick w1
  have k2 := writeComps_keeps ce m.comps (confirm c1 ce tick) k1.1
  have k := Keeps.trans k1 k2
  refine ⟨writeComps (confirm c1 ce tick) ce m.comps, ?_, k.1, ?_⟩
  · unfold applyChange; rw [h1]
  · intro se
    rw [k.2.1 se]
    constructor
    · intro h; exact a2 se h
    · rintro (h | h)
      · exact a1 se h
      · rw [h]; exact a3 rfl

/-- `apply_removals` for one record: never fails; the held set can only gain the record's entity -/
theorem applyRemoval_spec (tick : Nat) (c : Client) (r : Nat × List Nat) (wf : WF c) :
    ∃ c', applyRemoval tick c r = some c' ∧ WF c' ∧
      (∀ se, held c se → held c' se) ∧ (∀ se, held c' se → held c se ∨ se = r.1) := by
  obtain ⟨c1, ce, h1, w1, a1, a2, _, _⟩ := targetEntity_spec c r.1 false wf
  have k1 := confirm_keeps c1 ce tick w1
  unfold applyRemoval
  rw [h1]
  simp only
  cases hg : aget (confirm c1 ce tick).world ce with
  | none =>
    refine ⟨confirm c1 ce tick, rfl, k1.1, ?_, ?_⟩
    · intro se h; exact (k1.2.1 se).mpr (a1 se h)
    · intro se h; exact a2 se ((k1.2.1 se).mp h)
  | some ent =>
    simp only
    let ent2 : CEnt := { ent with comps := ent.comps.filter (fun x => !r.2.contains x.1) }
    let c2 : Client := { confirm c1 ce tick with world := aset (confirm c1 ce tick).world ce ent2 }
    have k2 : Keeps (confirm c1 ce tick) c2 :=
      setEnt_keeps' (confirm c1 ce tick) ce ent k1.1 hg c2 ⟨rfl, rfl, ent2, rfl, rfl⟩
    have k := Keeps.trans k1 k2
    refine ⟨c2, rfl, k.1, ?_, ?_⟩
    · intro se h; exact (k.2.1 se).mpr (a1 se h)
    · intro se h; exact a2 se ((k.2.1 se).mp h)

/-- `apply_despawn`: the entity is not held afterwards, nothing else changes -/
theorem applyDespawn_spec (c : Client) (se : Nat) (wf : WF c) :
    WF (applyDespawn c se) ∧ ∀ se', held (applyDespawn c se) se' ↔ held c se' ∧ se' ≠ se := by
  unfold applyDespawn mapRemove
  cases hg : aget c.s2c se with
  | none =>
    simp only
    refine ⟨wf, ?_⟩
    intro se'
    constructor
    · intro h
      refine ⟨h, ?_⟩
      intro he
      obtain ⟨x, _, h1, _, _⟩ := h
      rw [he, hg] at h1; cases h1
    · intro h; exact h.1
  | some ce =>
    simp only
    have hother : ∀ se' x, se' ≠ se → aget c.s2c se' = some x → x ≠ ce := by
      intro se' x hne hx he
      rw [he] at hx
      exact hne (wf.inj se' se ce hx hg)
    refine ⟨⟨?_, ?_, ?_⟩, ?_⟩
    · intro a x hx
      have hx' : aget (adel c.s2c se) a = some x := hx
      rw [aget_adel] at hx'
      split at hx'
      · cases hx'
      · rename_i hne
        show (aget (adel c.world ce) x).isSome = true
        rw [aget_adel]
        simp only [hother a x hne hx', if_false]
        exact wf.alive a x hx'
    · intro a a' x h1 h2
      have h1' : aget (adel c.s2c se) a = some x := h1
      have h2' : aget (adel c.s2c se) a' = some x := h2
      rw [aget_adel] at h1' h2'
      split at h1'
      · cases h1'
      · split at h2'
        · cases h2'
        · exact wf.inj a a' x h1' h2'
    · intro x hx
      have hx' : (aget (adel c.world ce) x).isSome = true := hx
      rw [aget_adel] at hx'
      split at hx'
      · cases hx'
      · exact wf.bound x hx'
    · intro se'
      constructor
      · rintro ⟨x, e, h1, h2, h3⟩
        have h1' : aget (adel c.s2c se) se' = some x := h1
        have h2' : aget (adel c.world ce) x = some e := h2
        rw [aget_adel] at h1' h2'
        split at h1'
        · cases h1'
        · rename_i hne
          split at h2'
          · cases h2'
          · exact ⟨⟨x, e, h1', h2', h3⟩, hne⟩
      · rintro ⟨⟨x, e, h1, h2, h3⟩, hne⟩
        refine ⟨x, e, ?_, ?_, h3⟩
        · show aget (adel c.s2c se) se' = some x
          rw [aget_adel]; simp only [hne, if_false]; exact h1
        · show aget (adel c.world ce) x = some e
          rw [aget_adel]; simp only [hother se' x hne h1, if_false]; exact h2

theorem despawns_spec : ∀ (l : List Nat) (c : Client), WF c →
    WF (l.foldl applyDespawn c) ∧ ∀ se, held (l.foldl applyDespawn c) se ↔ held c se ∧ se ∉ l := by
  intro l
  induction l with
  | nil => intro c wf; exact ⟨wf, fun se => by simp⟩
  | cons x xs ih =>
    intro c wf
    rw [List.foldl_cons]
    obtain ⟨w1, h1⟩ := applyDespawn_spec c x wf
    obtain ⟨w2, h2⟩ := ih _ w1
    refine ⟨w2, ?_⟩
    intro se
    rw [h2 se, h1 se]
    simp only [List.mem_cons, not_or]
    constructor
    · rintro ⟨⟨a, b⟩, d⟩; exact ⟨a, b, d⟩
    · rintro ⟨a, b, d⟩; exact ⟨⟨a, b⟩, d⟩

theorem removals_spec (tick : Nat) : ∀ (l : List (Nat × List Nat)) (c : Client), WF c →
    (foldOpt (applyRemoval tick) (c, false) l).2 = false ∧ WF (foldOpt (applyRemoval tick) (c, false) l).1 ∧
    (∀ se, held c se → held (foldOpt (applyRemoval tick) (c, false) l).1 se) ∧
    (∀ se, held (foldOpt (applyRemoval tick) (c, false) l).1 se → held c se ∨ se ∈ l.map (·.1)) := by
  intro l
  induction l with
  | nil => intro c wf; exact ⟨rfl, wf, fun _ h => h, fun _ h => Or.inl h⟩
  | cons x xs ih =>
    intro c wf
    obtain ⟨c1, e1, w1, a1, a2⟩ := applyRemoval_spec tick c x wf
    have hstep : foldOpt (applyRemoval tick) (c, false) (x :: xs) = foldOpt (applyRemoval tick) (c1, false) xs := by
      unfold foldOpt
      rw [List.foldl_cons]
      simp only [Bool.false_eq_true, if_false, e1]
    rw [hstep]
    obtain ⟨i1, i2, i3, i4⟩ := ih c1 w1
    refine ⟨i1, i2, fun se h => i3 se (a1 se h), ?_⟩
    intro se h
    rcases i4 se h with h' | h'
    · rcases a2 se h' with h'' | h''
      · exact Or.inl h''
      · right; rw [h'', List.map_cons]; exact List.mem_cons_self
    · right
      rw [List.map_cons]; exact List.mem_cons_of_mem _ h'

theorem changes_spec (tick : Nat) : ∀ (l : List MsgEnt) (c : Client), WF c →
    (foldOpt (applyChange tick) (c, false) l).2 = false ∧ WF (foldOpt (applyChange tick) (c, false) l).1 ∧
    (∀ se, held (foldOpt (applyChange tick) (c, false) l).1 se ↔ held c se ∨ se ∈ l.map (·.ent)) := by
  intro l
  induction l with
  | nil =>
    intro c wf
    refine ⟨rfl, wf, fun se => ?_⟩
    show held c se ↔ held c se ∨ se ∈ ([] : List MsgEnt).map (·.ent)
    simp
  | cons x xs ih =>
    intro c wf
    obtain ⟨c1, e1, w1, a1⟩ := applyChange_spec tick c x wf
    have hstep : foldOpt (applyChange tick) (c, false) (x :: xs) = foldOpt (applyChange tick) (c1, false) xs := by
      unfold foldOpt
      rw [List.foldl_cons]
      simp only [Bool.false_eq_true, if_false, e1]
    rw [hstep]
    obtain ⟨i1, i2, i3⟩ := ih c1 w1
    refine ⟨i1, i2, ?_⟩
    intro se
    rw [i3 se, a1 se]
    simp only [List.map_cons, List.mem_cons]
    constructor
    · rintro ((h | h) | h)
      · exact Or.inl h
      · exact Or.inr (Or.inl h)
      · exact Or.inr (Or.inr h)
    · rintro (h | h | h)
      · exact Or.inl (Or.inl h)
      · exact Or.inl (Or.inr h)
      · exact Or.inr h

/-- **`apply_update_message` and the set of held entities.**  For a well-formed client and an
update message without pre-spawn mappings whose REMOVALS name only entities the client holds
after the DESPAWNS or that also have a record in CHANGES (what the server sends:
`Srv.collectEntity` writes a CHANGES record for every entity with buffered removals that the
client has no tick for): no section fails, the client stays well-formed, and it holds exactly
the entities it held that are not in DESPAWNS, plus those of CHANGES. -/
theorem applyUpdate_held (c : Client) (u : Update) (wf : WF c) (hm : u.mappings = [])
    (hr : ∀ r ∈ u.removals, (held c r.1 ∧ r.1 ∉ u.despawns) ∨ r.1 ∈ u.changes.map (·.ent)) :
    WF (applyUpdate c u) ∧
    ∀ se, held (applyUpdate c u) se ↔ (held c se ∧ se ∉ u.despawns) ∨ se ∈ u.changes.map (·.ent) := by
  unfold applyUpdate
  simp only [hm, List.foldl_nil]
  have wf0 : WF { c with updateTick := u.tick } := ⟨wf.alive, wf.inj, wf.bound⟩
  have h0 : ∀ se, held { c with updateTick := u.tick } se ↔ held c se := fun _ => Iff.rfl
  obtain ⟨w1, h1⟩ := despawns_spec u.despawns _ wf0
  obtain ⟨f2, w2, a2, b2⟩ := removals_spec u.tick u.removals _ w1
  generalize hc2 : foldOpt (applyRemoval u.tick) (u.despawns.foldl applyDespawn { c with updateTick := u.tick }, false) u.removals = st2 at f2 w2 a2 b2
  have hst2 : st2 = (st2.1, false) := by rw [← f2]
  rw [hst2]
  obtain ⟨_, w3, h3⟩ := changes_spec u.tick u.changes st2.1 w2
  refine ⟨w3, ?_⟩
  intro se
  rw [h3 se]
  constructor
  · rintro (h | h)
    · rcases b2 se h with h' | h'
      · exact Or.inl (by rw [h1 se, h0 se] at h'; exact h')
      · rw [List.mem_map] at h'
        obtain ⟨r, hrm, rfl⟩ := h'
        rcases hr r hrm with h'' | h''
        · exact Or.inl h''
        · exact Or.inr h''
    · exact Or.inr h
  · rintro (h | h)
    · left
      apply a2 se
      rw [h1 se, h0 se]; exact h
    · exact Or.inr h

/-- in terms of `Srv.applyKeys`: a list that enumerates the held entities before, enumerates
them after -/
theorem applyUpdate_applyKeys (c : Client) (u : Update) (wf : WF c) (hm : u.mappings = [])
    (hr : ∀ r ∈ u.removals, (held c r.1 ∧ r.1 ∉ u.despawns) ∨ r.1 ∈ u.changes.map (·.ent))
    (l : List Nat) (hl : ∀ se, se ∈ l ↔ held c se) :
    ∀ se, se ∈ applyKeys l (some u) ↔ held (applyUpdate c u) se := by
  intro se
  rw [(applyUpdate_held c u wf hm hr).2 se]
  unfold applyKeys
  simp only [List.mem_append, List.mem_filter, Bool.not_eq_true', List.contains_eq_mem, decide_eq_false_iff_not]
  rw [hl se]

end Replicon.Cli

namespace Replicon.Srv
open Replicon Replicon.Cli

/-- every entity with buffered removals still carries the replication marker -/
def RemovalsMarked (s : Server) : Prop := ∀ r ∈ s.removalBuf, marked s.world r.1

/-- the REMOVALS section of a run names only entities that the server tracks for the client after
`collect_despawns`, or that get a record in CHANGES -/
theorem removals_known_or_changed (s : Server) (thisRun : Nat) (cl : Cli) (hrm : RemovalsMarked s)
    (u : Update) (hu : (runClient s thisRun cl).2.update = some u) :
    ∀ r ∈ u.removals, r.1 ∈ keys (runCl1 s cl) ∨ r.1 ∈ runChanged s thisRun cl := by
  have hrem : u.removals = s.removalBuf.filter fun (x : Nat × List Nat) => Vis.isVisible s.white (cell (runCl1 s cl) x.1) := by
    unfold runClient at hu
    simp only at hu
    split at hu
    · cases hu
    · simp only [Option.some.injEq] at hu
      rw [← hu]
      rfl
  intro r hr
  rw [hrem, List.mem_filter] at hr
  obtain ⟨hmem, hvis⟩ := hr
  by_cases hk : r.1 ∈ keys (runCl1 s cl)
  · exact Or.inl hk
  · right
    obtain ⟨ent, h1, h2⟩ := hrm r hmem
    cases hmk : ent.marker with
    | none => rw [hmk] at h2; cases h2
    | some m =>
      have hvs : visState s (runCl1 s cl) r.1 ≠ .hidden := (visState_ne_hidden_iff s _ r.1).mpr hvis
      have hnone : aget (runCl1 s cl).mutTick r.1 = none := aget_none_of_not_mem _ _ hk
      have := collect_unknown_whole s thisRun (runCl1 s cl) r.1 ent m hvs hnone
      exact (mem_runChanged s thisRun cl r.1).mpr ⟨ent, m, _, h1, hmk, by rw [this]⟩

/-- **One frame, both sides of the wire.**  The server is in a state of the invariant, no
pre-spawn mapping is pending for the client, buffered removals are for replicated entities; the
receiver is a well-formed client that holds exactly the entities the server tracks for it.  Then
applying the update message of the run (if one is sent) leaves the receiver well-formed and
holding exactly the entities the server tracks after the frame — which are the replicated
entities visible to that client (`ranClient_view`). -/
theorem frame_both_sides (p : Server) (parts : Nat → List (List Nat)) (inv : SyncInv p) (hrm : RemovalsMarked p)
    (x : Nat × Cli) (hx : x ∈ p.clients) (ha : x.2.authorized = true) (hmap : x.2.mappings = [])
    (c : Client) (wf : WF c) (hh : ∀ se, held c se ↔ se ∈ keys x.2) :
    match (runClient p (p.now + 1) x.2).2.update with
    | some u => WF (applyUpdate c u) ∧ ∀ se, held (applyUpdate c u) se ↔ se ∈ keys (ranClient p parts x).2
    | none => ∀ se, held c se ↔ se ∈ keys (ranClient p parts x).2 := by
  obtain ⟨f1, f2⟩ := frame_diff p parts inv x hx ha
  cases hu : (runClient p (p.now + 1) x.2).2.update with
  | none =>
    simp only
    intro se
    rw [hh se]; exact (f2 hu se).symm
  | some u =>
    simp only
    obtain ⟨g1, g2, g3, g4⟩ := f1 u hu
    have hn := (inv.sync x hx).1
    obtain ⟨_, _, k1, d1, _⟩ := runCl1_spec p x.2 hn
    obtain ⟨e1, e2⟩ := (runClient_update p (p.now + 1) x.2).1 u hu
    have hmp : u.mappings = [] := by
      unfold runClient at hu
      simp only at hu
      split at hu
      · cases hu
      · simp only [Option.some.injEq] at hu
        rw [← hu]; exact hmap
    have hr : ∀ r ∈ u.removals, (held c r.1 ∧ r.1 ∉ u.despawns) ∨ r.1 ∈ u.changes.map (·.ent) := by
      intro r hrm'
      rcases removals_known_or_changed p (p.now + 1) x.2 hrm u hu r hrm' with h | h
      · left
        obtain ⟨hk, hnd, hnl⟩ := (k1 r.1).mp h
        refine ⟨(hh r.1).mpr hk, ?_⟩
        rw [e1]
        intro hd
        rcases d1 r.1 hd with h' | h'
        · exact hnd h'
        · rw [hnl] at h'; cases h'
      · right; rw [e2]; exact h
    obtain ⟨w, hheld⟩ := applyUpdate_held c u wf hmp hr
    refine ⟨w, ?_⟩
    intro se
    rw [hheld se]
    constructor
    · rintro (⟨h1, h2⟩ | h)
      · have hk := (hh se).mp h1
        by_cases hk' : se ∈ keys (ranClient p parts x).2
        · exact hk'
        · exact absurd (g1 se hk hk') h2
      · exact g4 se h
    · intro hk'
      by_cases hc : se ∈ u.changes.map (·.ent)
      · exact Or.inr hc
      · left
        have hk : se ∈ keys x.2 := by
          by_cases hk : se ∈ keys x.2
          · exact hk
          · exact absurd (g2 se hk' hk) hc
        exact ⟨(hh se).mpr hk, fun hd => hc (g3 se hd hk')⟩


/-- what `applyUpdate_held` needs of a message, relative to the receiver -/
def MsgOk (c : Client) (u : Update) : Prop :=
  u.mappings = [] ∧ ∀ r ∈ u.removals, (held c r.1 ∧ r.1 ∉ u.despawns) ∨ r.1 ∈ u.changes.map (·.ent)

/-- the update message of a frame is acceptable for a receiver that holds the tracked entities -/
theorem frame_msg_ok (p : Server) (inv : SyncInv p) (hrm : RemovalsMarked p)
    (x : Nat × Cli) (hx : x ∈ p.clients) (hmap : x.2.mappings = [])
    (c : Client) (hh : ∀ se, held c se ↔ se ∈ keys x.2)
    (u : Update) (hu : (runClient p (p.now + 1) x.2).2.update = some u) : MsgOk c u := by
  have hn := (inv.sync x hx).1
  obtain ⟨_, _, k1, d1, _⟩ := runCl1_spec p x.2 hn
  obtain ⟨e1, e2⟩ := (runClient_update p (p.now + 1) x.2).1 u hu
  refine ⟨?_, ?_⟩
  · unfold runClient at hu
    simp only at hu
    split at hu
    · cases hu
    · simp only [Option.some.injEq] at hu
      rw [← hu]; exact hmap
  · intro r hrm'
    rcases removals_known_or_changed p (p.now + 1) x.2 hrm u hu r hrm' with h | h
    · left
      obtain ⟨hk, hnd, hnl⟩ := (k1 r.1).mp h
      refine ⟨(hh r.1).mpr hk, ?_⟩
      rw [e1]
      intro hd
      rcases d1 r.1 hd with h' | h'
      · exact hnd h'
      · rw [hnl] at h'; cases h'
    · right; rw [e2]; exact h

/-! ### buffered removals are for replicated entities, over histories in which a stopped server
sees a frame before it is started again -/

structure RemInv (s : Server) : Prop where
  clean : s.lastRunning = false → s.removalBuf = []
  marked : s.running = true → RemovalsMarked s

theorem remInv_same (s s' : Server) (inv : RemInv s) (h1 : s'.lastRunning = s.lastRunning)
    (h2 : s'.removalBuf = s.removalBuf) (h3 : s'.running = s.running) (h4 : s'.world = s.world) : RemInv s' := by
  refine ⟨?_, ?_⟩
  · rw [h1, h2]; exact inv.clean
  · rw [h3]; intro hr; unfold RemovalsMarked; rw [h2, h4]; exact inv.marked hr

theorem updClient_rem (s : Server) (c : Nat) (f : Cli → Cli) :
    (s.updClient c f).lastRunning = s.lastRunning ∧ (s.updClient c f).removalBuf = s.removalBuf := by
  unfold Server.updClient
  cases aget s.clients c <;> exact ⟨rfl, rfl⟩

theorem remInv_updClient (s : Server) (c : Nat) (f : Cli → Cli) (inv : RemInv s) : RemInv (s.updClient c f) :=
  remInv_same s _ inv (updClient_rem s c f).1 (updClient_rem s c f).2 (updClient_same s c f).2.2.1 (updClient_same s c f).1

theorem leave_rem (s : Server) (e : Nat) :
    (s.leaveReplication e).lastRunning = s.lastRunning ∧
    (s.leaveReplication e).removalBuf = (if s.running then adel s.removalBuf e else s.removalBuf) := by
  unfold Server.leaveReplication
  split <;> exact ⟨rfl, rfl⟩

/-- a world operation: buffered removals only shrink, and what stays buffered stays replicated -/
def RemStep (s s' : Server) : Prop :=
  s'.lastRunning = s.lastRunning ∧ s'.running = s.running ∧
  (∀ r, r ∈ s'.removalBuf → r ∈ s.removalBuf) ∧
  (s.running = true → ∀ r ∈ s'.removalBuf, marked s.world r.1 → marked s'.world r.1)

theorem remInv_step (s s' : Server) (inv : RemInv s) (h : RemStep s s') : RemInv s' := by
  obtain ⟨h1, h2, h3, h4⟩ := h
  refine ⟨?_, ?_⟩
  · rw [h1]
    intro hl
    have := inv.clean hl
    cases hb : s'.removalBuf with
    | nil => rfl
    | cons r rs =>
      have hm := h3 r (by rw [hb]; exact List.mem_cons_self)
      rw [this] at hm; cases hm
  · rw [h2]
    intro hr r hm
    exact h4 hr r hm (inv.marked hr r (h3 r hm))

theorem remStep_refl (s : Server) : RemStep s s := ⟨rfl, rfl, fun _ h => h, fun _ _ _ h => h⟩

theorem spawn_remStep (s : Server) (e : Nat) (m : Bool) (cs : List (Nat × Nat)) (hf : e ∉ s.world.map (·.1)) :
    RemStep s (s.spawn e m cs) := by
  unfold Server.spawn
  refine ⟨rfl, rfl, fun _ h => h, ?_⟩
  intro _ r _ hm
  have hne : r.1 ≠ e := by
    intro he
    obtain ⟨ent, hmem, _⟩ := hm
    rw [he] at hmem
    exact hf (List.mem_map_of_mem (f := (·.1)) hmem)
  exact (marked_aset_other _ _ _ _ hne).mpr hm

theorem despawn_remStep (s : Server) (e : Nat) (hw : (s.world.map (·.1)).Nodup) : RemStep s (s.despawn e) := by
  unfold Server.despawn
  cases hg : aget s.world e with
  | none => exact remStep_refl s
  | some ent =>
    simp only
    cases hmk : ent.marker.isSome with
    | false =>
      simp only [Bool.false_eq_true, if_false]
      refine ⟨rfl, rfl, fun _ h => h, ?_⟩
      intro _ r _ hm
      have hne : r.1 ≠ e := by
        intro he
        rw [he, marked_of_aget _ hw _ _ hg, hmk] at hm; cases hm
      exact (marked_adel_other _ _ _ hne).mpr hm
    | true =>
      simp only [if_true]
      obtain ⟨l1, l2⟩ := leave_rem s e
      obtain ⟨_, _, l3, l4, _, _⟩ := leave_fields s e
      refine ⟨l1, l3, ?_, ?_⟩
      · intro r hr
        have hr' : r ∈ (s.leaveReplication e).removalBuf := hr
        rw [l2] at hr'
        split at hr'
        · exact ((mem_adel _ _ _).mp hr').1
        · exact hr'
      · intro hrun r hr hm
        have hr' : r ∈ (s.leaveReplication e).removalBuf := hr
        rw [l2] at hr'
        simp only [hrun, if_true] at hr'
        have hne := ((mem_adel _ _ _).mp hr').2
        show marked (adel (s.leaveReplication e).world e) r.1
        rw [l4]
        exact (marked_adel_other _ _ _ hne).mpr hm

theorem aset_same_marker_remStep (s : Server) (e : Nat) (ent : SEnt) (hw : (s.world.map (·.1)).Nodup)
    (hg : aget s.world e = some ent) (s' : Server)
    (hs : s'.lastRunning = s.lastRunning ∧ s'.running = s.running ∧ s'.removalBuf = s.removalBuf ∧
      ∃ ent' : SEnt, s'.world = aset s.world e ent' ∧ (ent.marker.isSome = true → ent'.marker.isSome = true)) :
    RemStep s s' := by
  obtain ⟨h1, h2, h3, ent', h4, hm⟩ := hs
  refine ⟨h1, h2, fun r hr => by rw [h3] at hr; exact hr, ?_⟩
  intro _ r _ hmk
  rw [h4]
  by_cases hne : r.1 = e
  · rw [hne, marked_aset_same]
    rw [hne] at hmk
    exact hm ((marked_of_aget _ hw _ _ hg).mp hmk)
  · exact (marked_aset_other _ _ _ _ hne).mpr hmk

theorem insert_remStep (s : Server) (e k v : Nat) (hw : (s.world.map (·.1)).Nodup) : RemStep s (s.insert e k v) := by
  unfold Server.insert
  cases hg : aget s.world e with
  | none => exact remStep_refl s
  | some ent => exact aset_same_marker_remStep s e ent hw hg _ ⟨rfl, rfl, rfl, _, rfl, fun h => h⟩

theorem mutate_remStep (s : Server) (e k v : Nat) (hw : (s.world.map (·.1)).Nodup) : RemStep s (s.mutate e k v) := by
  unfold Server.mutate
  cases hg : aget s.world e with
  | none => exact remStep_refl s
  | some ent =>
    simp only
    cases hc : aget ent.comps k with
    | none => exact remStep_refl s
    | some old => exact aset_same_marker_remStep s e ent hw hg _ ⟨rfl, rfl, rfl, _, rfl, fun h => h⟩

theorem remove_remStep (s : Server) (e k : Nat) (hw : (s.world.map (·.1)).Nodup) : RemStep s (s.remove e k) := by
  unfold Server.remove
  cases hg : aget s.world e with
  | none => exact remStep_refl s
  | some ent =>
    simp only
    split
    · exact remStep_refl s
    · exact aset_same_marker_remStep s e ent hw hg _ ⟨rfl, rfl, rfl, _, rfl, fun h => h⟩

theorem mark_remStep (s : Server) (e : Nat) (on : Bool) (hw : (s.world.map (·.1)).Nodup) : RemStep s (s.mark e on) := by
  unfold Server.mark
  cases hg : aget s.world e with
  | none => exact remStep_refl s
  | some ent =>
    simp only
    cases on with
    | true =>
      simp only [if_true]
      split
      · exact remStep_refl s
      · exact aset_same_marker_remStep s e ent hw hg _ ⟨rfl, rfl, rfl, _, rfl, fun _ => rfl⟩
    | false =>
      simp only [Bool.false_eq_true, if_false]
      split
      · exact remStep_refl s
      · obtain ⟨l1, l2⟩ := leave_rem s e
        obtain ⟨_, _, l3, l4, _, _⟩ := leave_fields s e
        refine ⟨l1, l3, ?_, ?_⟩
        · intro r hr
          have hr' : r ∈ (s.leaveReplication e).removalBuf := hr
          rw [l2] at hr'
          split at hr'
          · exact ((mem_adel _ _ _).mp hr').1
          · exact hr'
        · intro hrun r hr hm
          have hr' : r ∈ (s.leaveReplication e).removalBuf := hr
          rw [l2] at hr'
          simp only [hrun, if_true] at hr'
          have hne := ((mem_adel _ _ _).mp hr').2
          show marked (aset (s.leaveReplication e).world e _) r.1
          rw [l4]
          exact (marked_aset_other _ _ _ _ hne).mpr hm


theorem bufferRemovals_marked (s : Server) (hr : s.running = true) (h : RemovalsMarked s) :
    RemovalsMarked s.bufferRemovals ∧ s.bufferRemovals.lastRunning = s.lastRunning := by
  unfold Server.bufferRemovals
  simp only [hr, Bool.not_true, Bool.false_eq_true, if_false]
  refine ⟨?_, trivial⟩
  unfold RemovalsMarked
  simp only
  have : ∀ (l : List (Nat × Nat)) (buf : List (Nat × List Nat)), (∀ r ∈ buf, marked s.world r.1) →
      ∀ r ∈ l.foldl (fun buf (x : Nat × Nat) =>
        match aget s.world x.1 with
        | some ent =>
          if ent.marker.isSome && s.rates.any (·.1 = x.2) then
            let old := (aget buf x.1).getD []
            if old.contains x.2 then buf else aset buf x.1 (old ++ [x.2])
          else buf
        | none => buf) buf, marked s.world r.1 := by
    intro l
    induction l with
    | nil => intro buf hb; exact hb
    | cons x xs ih =>
      intro buf hb
      rw [List.foldl_cons]
      apply ih
      cases hg : aget s.world x.1 with
      | none => exact hb
      | some ent =>
        simp only
        split
        · rename_i hc
          simp only [Bool.and_eq_true] at hc
          split
          · exact hb
          · intro r hrm
            rcases (mem_aset _ _ _ _).mp hrm with rfl | ⟨hm, _⟩
            · exact ⟨ent, mem_of_aget _ _ _ hg, hc.1⟩
            · exact hb r hm
        · exact hb
  exact this _ _ h

theorem preRun_rem (s : Server) (ticked : Bool) (ms : Nat) (hr : s.running = true) (inv : RemInv s) :
    RemovalsMarked (preRun s ticked ms) ∧ (preRun s ticked ms).lastRunning = true := by
  unfold preRun
  simp only
  have hm := inv.marked hr
  by_cases hf : (decide (s.timerAcc + s.frameMs ms ≥ s.timeout) && decide (s.timeout > 0)) = true
  · cases ticked
    · simp only [hf, if_true, Bool.false_eq_true, if_false]
      exact bufferRemovals_marked _ hr hm
    · simp only [hf, if_true]
      exact bufferRemovals_marked _ hr hm
  · cases ticked
    · simp only [hf, Bool.false_eq_true, if_false]
      exact bufferRemovals_marked _ hr hm
    · simp only [hf, Bool.false_eq_true, if_false, if_true]
      exact bufferRemovals_marked _ hr hm

theorem fullFrame_rem (s : Server) (ticked : Bool) (ms : Nat) (parts : Nat → List (List Nat)) (inv : RemInv s) :
    RemInv (s.fullFrame ticked ms parts) := by
  cases hr : s.running with
  | false =>
    have h : (s.fullFrame ticked ms parts).lastRunning = false ∧
        (s.fullFrame ticked ms parts).removalBuf = (if s.lastRunning then [] else s.removalBuf) ∧
        (s.fullFrame ticked ms parts).running = false := by
      unfold Server.fullFrame Server.frameBegin Server.frameEnd
      simp only [hr, Bool.not_false, if_true, Bool.false_eq_true, if_false]
      cases hl : s.lastRunning
      · simp [hl, hr]
      · simp [hl, Server.reset, hr]
    refine ⟨?_, ?_⟩
    · intro _
      rw [h.2.1]
      split
      · rfl
      · rename_i hl
        exact inv.clean (Bool.eq_false_iff.mpr hl)
    · rw [h.2.2]; intro hc; cases hc
  | true =>
    obtain ⟨pm, pl⟩ := preRun_rem s ticked ms hr inv
    have hrun : (preRun s ticked ms).running = true := by rw [(preRun_fields s ticked ms).2.2.1]; exact hr
    cases hc : (preRun s ticked ms).tickChanged with
    | false =>
      have h : (s.fullFrame ticked ms parts).lastRunning = (preRun s ticked ms).lastRunning ∧
          (s.fullFrame ticked ms parts).removalBuf = (preRun s ticked ms).removalBuf ∧
          (s.fullFrame ticked ms parts).world = (preRun s ticked ms).world := by
        unfold Server.fullFrame
        rw [frameBegin_running s ticked ms hr]
        simp only [hc, Bool.not_false, if_true]
        unfold Server.frameEnd
        simp
      refine ⟨?_, ?_⟩
      · rw [h.1, pl]; intro hx; cases hx
      · intro _; unfold RemovalsMarked; rw [h.2.1, h.2.2]; exact pm
    | true =>
      have h : (s.fullFrame ticked ms parts).lastRunning = (preRun s ticked ms).lastRunning ∧
          (s.fullFrame ticked ms parts).removalBuf = [] := by
        unfold Server.fullFrame
        rw [frameBegin_running s ticked ms hr]
        simp only [hc, Bool.not_true, Bool.false_eq_true, if_false]
        unfold Server.frameEnd Server.runAll
        simp
      refine ⟨?_, ?_⟩
      · rw [h.1, pl]; intro hx; cases hx
      · intro _ r hrm; rw [h.2] at hrm; cases hrm

end Replicon.Srv

namespace Replicon.Joint
open Replicon Replicon.Srv Replicon.Cli

/-- entity identifiers are not reused, and a stopped server sees a frame (which runs `reset`)
before it is started again — the schedules C09 quantifies over -/
def LegalOp' (s : Server) : Op → Prop
  | .spawn e _ _ => e ∉ s.world.map (·.1)
  | .start => s.running = true ∨ s.lastRunning = false
  | _ => True

def Legal' : St → List Op → Prop
  | _, [] => True
  | st, op :: ops => LegalOp' st.srv op ∧ Legal' (step st op).1 ops

instance (s : Server) (op : Op) : Decidable (LegalOp' s op) := by
  cases op <;> unfold LegalOp' <;> infer_instance

def decLegal' : ∀ (st : St) (ops : List Op), Decidable (Legal' st ops)
  | _, [] => isTrue trivial
  | st, op :: ops =>
    match (inferInstance : Decidable (LegalOp' st.srv op)), decLegal' (step st op).1 ops with
    | isTrue h1, isTrue h2 => isTrue ⟨h1, h2⟩
    | isFalse h1, _ => isFalse fun h => h1 h.1
    | _, isFalse h2 => isFalse fun h => h2 h.2

instance (st : St) (ops : List Op) : Decidable (Legal' st ops) := decLegal' st ops

theorem legal_of_legal' : ∀ (ops : List Op) (st : St), Legal' st ops → Legal st ops := by
  intro ops
  induction ops with
  | nil => intro _ _; trivial
  | cons op ops ih =>
    intro st h
    refine ⟨?_, ih _ h.2⟩
    cases op <;> first | exact h.1 | trivial

theorem rem_step (st : St) (op : Op) (inv : RemInv st.srv) (hw : (st.srv.world.map (·.1)).Nodup)
    (hl : LegalOp' st.srv op) : RemInv (step st op).1.srv := by
  cases op with
  | spawn e m cs => exact remInv_step _ _ inv (spawn_remStep st.srv e m cs hl)
  | despawn e => exact remInv_step _ _ inv (despawn_remStep st.srv e hw)
  | insert e k v => exact remInv_step _ _ inv (insert_remStep st.srv e k v hw)
  | mutate e k v => exact remInv_step _ _ inv (mutate_remStep st.srv e k v hw)
  | remove e k => exact remInv_step _ _ inv (remove_remStep st.srv e k hw)
  | mark e on => exact remInv_step _ _ inv (mark_remStep st.srv e on hw)
  | vis c e b => exact remInv_updClient st.srv c _ inv
  | map c e p => exact remInv_updClient st.srv c _ inv
  | connect c a => exact remInv_same st.srv _ inv rfl rfl rfl rfl
  | authorize c => exact remInv_updClient st.srv c _ inv
  | disconnect c => exact remInv_same st.srv _ inv rfl rfl rfl rfl
  | stop => exact ⟨inv.clean, fun h => by cases h⟩
  | start =>
    refine ⟨inv.clean, ?_⟩
    intro _
    rcases hl with h | h
    · exact inv.marked h
    · intro r hr
      have hr' : r ∈ st.srv.removalBuf := hr
      rw [inv.clean h] at hr'; cases hr'
  | ack c idxs => exact remInv_updClient st.srv c _ inv
  | emit em => exact inv
  | frame t ms parts => exact fullFrame_rem st.srv t ms parts inv

theorem rem_run (ops : List Op) : ∀ (st : St), RemInv st.srv → SyncInv st.srv → Legal' st ops →
    RemInv (run st ops).1.srv := by
  induction ops with
  | nil => intro st inv _ _; exact inv
  | cons op ops ih =>
    intro st inv sinv hl
    have hl1 : LegalOp st.srv op := (legal_of_legal' [op] st ⟨hl.1, trivial⟩).1
    exact ih (step st op).1 (rem_step st op inv sinv.worldNodup hl.1) (sync_step st op sinv hl1) hl.2


/-- **All histories, both sides of the wire, one frame.**  After any history in which entity
identifiers are not reused and a stopped server sees a frame before it is started again: in the
next frame, for an authorized client without a pending pre-spawn mapping, a well-formed receiver
that holds exactly the entities the server tracks for that client and applies the update message
of the frame (if one is sent) stays well-formed and holds exactly the entities the server tracks
afterwards. -/
theorem history_both_sides (s0 : Server) (hw : s0.world = []) (hc0 : s0.clients = []) (hb : s0.removalBuf = [])
    (ops : List Op) (hl : Legal' { srv := s0 } ops) (ticked : Bool) (ms : Nat) (parts : Nat → List (List Nat))
    (hr : (run { srv := s0 } ops).1.srv.running = true)
    (x : Nat × Cli) (hx : x ∈ (preRun (run { srv := s0 } ops).1.srv ticked ms).clients)
    (ha : x.2.authorized = true) (hmap : x.2.mappings = [])
    (c : Client) (wf : WF c) (hh : ∀ se, held c se ↔ se ∈ keys x.2) :
    match (runClient (preRun (run { srv := s0 } ops).1.srv ticked ms)
        ((preRun (run { srv := s0 } ops).1.srv ticked ms).now + 1) x.2).2.update with
    | some u => WF (applyUpdate c u) ∧
        ∀ se, held (applyUpdate c u) se ↔ se ∈ keys (ranClient (preRun (run { srv := s0 } ops).1.srv ticked ms) parts x).2
    | none => ∀ se, held c se ↔ se ∈ keys (ranClient (preRun (run { srv := s0 } ops).1.srv ticked ms) parts x).2 := by
  have sinv0 : SyncInv ({ srv := s0 } : St).srv := sync_empty s0 hw hc0
  have rinv0 : RemInv ({ srv := s0 } : St).srv :=
    ⟨fun _ => hb, fun _ r hrm => by have : r ∈ s0.removalBuf := hrm; rw [hb] at this; cases this⟩
  have sinv := sync_run ops _ sinv0 (legal_of_legal' ops _ hl)
  have rinv := rem_run ops _ rinv0 sinv0 hl
  have invp := preRun_sync _ ticked ms sinv
  have hrm := (preRun_rem _ ticked ms hr rinv).1
  exact frame_both_sides _ parts invp hrm x hx ha hmap c wf hh

end Replicon.Joint
