import Replicon.Model.Receive
import Replicon.Props.C15
/-
Lemmas about the server's receive path (`Model/Receive.lean`).
-/
namespace Replicon.Recv
open Replicon

theorem varint_shape (lastMax fuel : Nat) (bs : List Nat) :
    decodeVarintLoop lastMax fuel 1 0 bs = .err ∨
    ∃ v rest, decodeVarintLoop lastMax fuel 1 0 bs = .ok (v, rest) ∧ rest.length < bs.length := by
  rcases decodeVarintLoop_total lastMax fuel 1 0 bs with h | ⟨v, rest, h, pre, hp, hb⟩
  · left; exact h
  · right
    refine ⟨v, rest, h, ?_⟩
    rw [hb, List.length_append]
    have : 0 < pre.length := List.length_pos_iff.mpr hp
    omega

theorem entity_shape (bs : List Nat) :
    decodeEntity bs = .err ∨
    ∃ e rest, decodeEntity bs = .ok (e, rest) ∧ ValidEntity e.1 e.2 ∧ rest.length < bs.length := by
  rcases C15.decodeEntity_shape bs with h | ⟨idx, gen, rest, h, hv, pre, hp, hb⟩
  · left; exact h
  · right
    refine ⟨(idx, gen), rest, h, hv, ?_⟩
    rw [hb, List.length_append]
    have : 0 < pre.length := List.length_pos_iff.mpr hp
    omega

/-- `decodeN decodeEntity`: an error, or exactly `n` valid entities, each of which used up at
least one byte -/
theorem decodeN_shape (n : Nat) (bs : List Nat) :
    Wire.decodeN decodeEntity n bs = .err ∨
    ∃ es rest, Wire.decodeN decodeEntity n bs = .ok (es, rest) ∧ es.length = n ∧
      es.length + rest.length ≤ bs.length ∧ ∀ e ∈ es, ValidEntity e.1 e.2 := by
  induction n generalizing bs with
  | zero => right; exact ⟨[], bs, rfl, rfl, by simp, by simp⟩
  | succ n ih =>
    unfold Wire.decodeN
    rcases entity_shape bs with h | ⟨e, r, h, hv, hl⟩
    · left; rw [h]; rfl
    · rw [h]
      show (Wire.decodeN decodeEntity n r).bind _ = _ ∨ ∃ es rest, (Wire.decodeN decodeEntity n r).bind _ = _ ∧ _
      rcases ih r with h2 | ⟨es, rest, h2, hn, hlen, hall⟩
      · left; rw [h2]; rfl
      · right
        rw [h2]
        refine ⟨e :: es, rest, rfl, by simp [hn], by simp only [List.length_cons]; omega, ?_⟩
        intro x hx
        rcases List.mem_cons.mp hx with rfl | hx
        · exact hv
        · exact hall x hx

theorem targets_shape (bs : List Nat) :
    decodeTargets bs = .err ∨
    ∃ es rest, decodeTargets bs = .ok (es, rest) ∧ es.length + rest.length < bs.length ∧
      ∀ e ∈ es, ValidEntity e.1 e.2 := by
  unfold decodeTargets decodeU64
  rcases varint_shape 1 10 bs with h | ⟨n, r, h, hl⟩
  · left; rw [h]; rfl
  · rw [h]
    show Wire.decodeN decodeEntity n r = _ ∨ ∃ es rest, Wire.decodeN decodeEntity n r = _ ∧ _
    rcases decodeN_shape n r with h2 | ⟨es, rest, h2, _, hlen, hall⟩
    · left; exact h2
    · right; exact ⟨es, rest, h2, by omega, hall⟩

theorem capacity_le (bs : List Nat) : triggerCapacity bs ≤ bs.length := by
  unfold triggerCapacity decodeU64
  rcases varint_shape 1 10 bs with h | ⟨n, r, h, hl⟩
  · rw [h]; exact Nat.zero_le _
  · rw [h]
    show min n r.length ≤ bs.length
    have := Nat.min_le_right n r.length
    omega

theorem trigger_shape (lastMax fuel : Nat) (bs : List Nat) :
    decodeTrigger (decodeVarintLoop lastMax fuel 1 0) bs = .err ∨
    ∃ ts v, decodeTrigger (decodeVarintLoop lastMax fuel 1 0) bs = .ok (ts, v) ∧ ts.length < bs.length ∧
      ∀ e ∈ ts, ValidEntity e.1 e.2 := by
  unfold decodeTrigger
  rcases targets_shape bs with h | ⟨es, rest, h, hlen, hall⟩
  · left; rw [h]; rfl
  · rw [h]
    show (decodeVarintLoop lastMax fuel 1 0 rest).bind _ = _ ∨ ∃ ts v, (decodeVarintLoop lastMax fuel 1 0 rest).bind _ = _ ∧ _
    rcases varint_shape lastMax fuel rest with h2 | ⟨v, r2, h2, _⟩
    · left; rw [h2]; rfl
    · right; rw [h2]; exact ⟨es, v, rfl, by omega, hall⟩

theorem mapped_shape (bs : List Nat) :
    decodeMapped bs = .err ∨ ∃ v e, decodeMapped bs = .ok (v, e) := by
  unfold decodeMapped decodeU32
  rcases varint_shape 15 5 bs with h | ⟨v, r, h, _⟩
  · left; rw [h]; rfl
  · rw [h]
    simp only [Res.bind]
    unfold decodeU64
    rcases varint_shape 1 10 r with h2 | ⟨b, r2, h2, _⟩
    · left; rw [h2]
    · rw [h2]
      simp only
      cases entityTryFromBits b with
      | none => left; rfl
      | some e => right; exact ⟨v, e, rfl⟩

theorem acks_length (bs : List Nat) : 2 * (Wire.decodeAcks bs).length ≤ bs.length := by
  match bs with
  | [] => simp [Wire.decodeAcks]
  | [_] => simp [Wire.decodeAcks]
  | lo :: hi :: rest =>
    unfold Wire.decodeAcks
    have := acks_length rest
    simp only [List.length_cons]
    omega

theorem acks_range (bs : List Nat) (hb : ∀ b ∈ bs, b < 256) : ∀ i ∈ Wire.decodeAcks bs, i < 65536 := by
  match bs with
  | [] => simp [Wire.decodeAcks]
  | [_] => simp [Wire.decodeAcks]
  | lo :: hi :: rest =>
    unfold Wire.decodeAcks
    intro i hi'
    rcases List.mem_cons.mp hi' with rfl | h
    · have h1 := hb lo (by simp)
      have h2 := hb hi (by simp)
      omega
    · exact acks_range rest (fun b hb' => hb b (by simp [hb'])) i h

end Replicon.Recv
