import Replicon.Proofs.Varint
import Replicon.Model.EntityCodec

namespace Replicon

theorem or_pack (idx : Nat) (hi : idx < 4294967296) (g : Nat) :
    4294967296 * g ||| idx = 4294967296 * g + idx := by
  have := Nat.two_pow_add_eq_or_of_lt (i := 32) (b := idx) (by simpa using hi) g
  simpa using this.symm

theorem tryFromBits_pack (idx gen : Nat) (hi : idx < 4294967296) (h1 : 1 ≤ gen)
    (h2 : gen < 2147483648) :
    entityTryFromBits (4294967296 * gen + idx) = some (idx, gen) := by
  unfold entityTryFromBits
  have h5 : (4294967296 * gen + idx) / 4294967296 % 4294967296 = gen := by omega
  have h6 : (4294967296 * gen + idx) % 4294967296 = idx := by omega
  have h7 : ¬ (gen = 0 ∨ gen ≥ 2147483648) := by omega
  simp only [h5, h6, h7, ↓reduceIte]

theorem tryFromBits_valid (bits idx gen : Nat) (h : entityTryFromBits bits = some (idx, gen)) :
    ValidEntity idx gen := by
  unfold entityTryFromBits at h
  split at h
  · cases h
  · rename_i hv
    simp only [Option.some.injEq, Prod.mk.injEq] at h
    obtain ⟨h1, h2⟩ := h
    subst h1 h2
    refine ⟨Nat.mod_lt _ (by omega), ?_, ?_⟩ <;> omega

theorem decodeGeneration_flag (idx gen : Nat) (rest : List Nat) (h1 : 1 < gen)
    (h2 : gen < 2147483648) :
    decodeGeneration (idx * 2 + 1) (encodeU32 (gen - 1) ++ rest) = .ok (gen, rest) := by
  unfold decodeGeneration
  have h : (idx * 2 + 1) % 2 = 1 := by omega
  rw [if_pos h, decodeU32_encode _ _ (by omega)]
  show (if gen - 1 + 1 < 4294967296 then _ else _) = _
  have h3 : gen - 1 + 1 = gen := by omega
  rw [h3, if_pos (by omega)]

theorem decodeGeneration_noflag (idx : Nat) (rest : List Nat) :
    decodeGeneration (idx * 2) rest = .ok (1, rest) := by
  unfold decodeGeneration
  have h : ¬ (idx * 2) % 2 = 1 := by omega
  rw [if_neg h]

/-- `decodeGeneration` never panics; on success the remainder is a suffix. -/
theorem decodeGeneration_total (fl : Nat) (r1 : List Nat) :
    decodeGeneration fl r1 = .err ∨
    ∃ g r, decodeGeneration fl r1 = .ok (g, r) ∧ ∃ pre, r1 = pre ++ r := by
  unfold decodeGeneration
  split
  · rcases decodeVarintLoop_total 15 5 1 0 r1 with h | ⟨g, r2, h, pre, _, hb⟩
    · left; unfold decodeU32; rw [h]
    · unfold decodeU32; rw [h]
      show (if g + 1 < 4294967296 then _ else _) = _ ∨ _
      by_cases hg : g + 1 < 4294967296
      · right; exact ⟨g + 1, r2, by simp only [if_pos hg], pre, hb⟩
      · left; simp only [if_neg hg]
  · right; exact ⟨1, r1, rfl, [], rfl⟩

theorem entityFromParts_total (gen fl : Nat) (r : List Nat) :
    entityFromParts gen fl r = .err ∨
    ∃ idx g, entityFromParts gen fl r = .ok ((idx, g), r) ∧ ValidEntity idx g := by
  unfold entityFromParts
  cases h : entityTryFromBits (4294967296 * gen ||| fl / 2) with
  | none => left; rfl
  | some e =>
    right
    obtain ⟨idx, g⟩ := e
    exact ⟨idx, g, rfl, tryFromBits_valid _ _ _ h⟩

end Replicon
