import Replicon.Proofs.ClientVals

/-!
# What a run sends arrives with the server's current value

`frame_new_entity_values` (ClientVals) is about an entity the client starts to hold.  Here: *any*
record of a run — a CHANGES record of the update message or a record of a mutate message, for an
entity the client may have held for long — carries for each of its component kinds the value the
server entity has now, and the client model has exactly that value after applying it.
-/

namespace Replicon.Srv
open Replicon Replicon.Cli

/-- the two halves of a record: the components that travel as insertions, then as mutations -/
def recHalf (pres : List (Nat × Rate × Comp)) (sel : Nat × Rate × Comp → Prop) [DecidablePred sel] : List (Nat × Nat) :=
  pres.filterMap fun x => if sel x then some (x.1, x.2.2.val) else none

theorem mem_recHalf (pres : List (Nat × Rate × Comp)) (sel : Nat × Rate × Comp → Prop) [DecidablePred sel] (k v : Nat) :
    (k, v) ∈ recHalf pres sel ↔ ∃ r c, (k, r, c) ∈ pres ∧ sel (k, r, c) ∧ v = c.val := by
  unfold recHalf
  rw [List.mem_filterMap]
  constructor
  · rintro ⟨⟨k', r, c⟩, hm, h⟩
    by_cases hs : sel (k', r, c)
    · simp only [if_pos hs, Option.some.injEq, Prod.mk.injEq] at h
      obtain ⟨rfl, rfl⟩ := h
      exact ⟨r, c, hm, hs, rfl⟩
    · simp only [if_neg hs] at h; cases h
  · rintro ⟨r, c, hm, hs, rfl⟩
    exact ⟨(k, r, c), hm, by simp only [if_pos hs]⟩

theorem recHalf_keys_sublist (pres : List (Nat × Rate × Comp)) (sel : Nat × Rate × Comp → Prop) [DecidablePred sel] :
    ((recHalf pres sel).map (·.1)).Sublist (pres.map (·.1)) := by
  unfold recHalf
  induction pres with
  | nil => exact List.Sublist.slnil
  | cons x xs ih =>
    rw [List.filterMap_cons]
    by_cases hs : sel x
    · simp only [if_pos hs, List.map_cons]; exact ih.cons_cons _
    · simp only [if_neg hs, List.map_cons]; exact ih.cons _

/-- two entries of a list with distinct keys that share the key are the same entry -/
theorem entry_unique (pres : List (Nat × Rate × Comp)) (hn : (pres.map (·.1)).Nodup) (k : Nat) (r1 r2 : Rate) (c1 c2 : Comp)
    (h1 : (k, r1, c1) ∈ pres) (h2 : (k, r2, c2) ∈ pres) : r1 = r2 ∧ c1 = c2 := by
  induction pres with
  | nil => cases h1
  | cons x xs ih =>
    rw [List.map_cons, List.nodup_cons] at hn
    rcases List.mem_cons.mp h1 with e1 | m1
    · rcases List.mem_cons.mp h2 with e2 | m2
      · rw [← e1] at e2
        simp only [Prod.mk.injEq] at e2
        exact ⟨e2.2.1.symm, e2.2.2.symm⟩
      · exfalso; apply hn.1
        rw [← e1]; exact List.mem_map_of_mem (f := (·.1)) m2
    · rcases List.mem_cons.mp h2 with e2 | m2
      · exfalso; apply hn.1
        rw [← e2]; exact List.mem_map_of_mem (f := (·.1)) m1
      · exact ih hn.2 m1 m2

/-- a record made of two disjoint selections of the present components: distinct kinds, and every
kind carries the value of the present component of that kind -/
theorem record_halves (pres : List (Nat × Rate × Comp)) (hn : (pres.map (·.1)).Nodup)
    (sel1 sel2 : Nat × Rate × Comp → Prop) [DecidablePred sel1] [DecidablePred sel2]
    (hdis : ∀ x, sel1 x → sel2 x → False) :
    ((recHalf pres sel1 ++ recHalf pres sel2).map (·.1)).Nodup ∧
    ∀ k v, (k, v) ∈ recHalf pres sel1 ++ recHalf pres sel2 → ∃ r c, (k, r, c) ∈ pres ∧ v = c.val := by
  refine ⟨?_, ?_⟩
  · rw [List.map_append, List.nodup_append]
    refine ⟨(recHalf_keys_sublist pres sel1).nodup hn, (recHalf_keys_sublist pres sel2).nodup hn, ?_⟩
    intro a ha b hb hab
    subst hab
    rw [List.mem_map] at ha hb
    obtain ⟨⟨k1, v1⟩, m1, rfl⟩ := ha
    obtain ⟨⟨k2, v2⟩, m2, e2⟩ := hb
    simp only at e2
    subst e2
    obtain ⟨r1, c1, p1, s1, _⟩ := (mem_recHalf pres sel1 k2 v1).mp m1
    obtain ⟨r2, c2, p2, s2, _⟩ := (mem_recHalf pres sel2 k2 v2).mp m2
    obtain ⟨rfl, rfl⟩ := entry_unique pres hn k2 r1 r2 c1 c2 p1 p2
    exact hdis _ s1 s2
  · intro k v hm
    rcases List.mem_append.mp hm with h | h
    · obtain ⟨r, c, p, _, e⟩ := (mem_recHalf pres sel1 k v).mp h; exact ⟨r, c, p, e⟩
    · obtain ⟨r, c, p, _, e⟩ := (mem_recHalf pres sel2 k v).mp h; exact ⟨r, c, p, e⟩

/-- the CHANGES record `collect_changes` builds for an entity: distinct kinds, each with the value
the entity's component has now -/
theorem collect_toUpdate_values (s : Server) (hrates : (s.rates.map (·.1)).Nodup) (thisRun : Nat) (cl : Cli) (e : Nat)
    (ent : SEnt) (m : Nat) (r : MsgEnt) (h : (collectEntity s thisRun cl e ent m).toUpdate = some r) :
    (r.comps.map (·.1)).Nodup ∧ ∀ k v, (k, v) ∈ r.comps → ∃ rt c, (k, rt, c) ∈ present s ent ∧ v = c.val := by
  have hn := present_keys_nodup s ent hrates
  unfold collectEntity at h
  simp only at h
  split at h
  · cases h
  · split at h
    · split at h
      · cases h
      · simp only [Option.some.injEq] at h
        rw [← h]
        exact record_halves (present s ent) hn
          (fun x => compPath s (aget cl.mutTick e) (decide (m > s.lastRun) || decide (visState s cl e = Vis.State.gained)) x.2.1 x.2.2 = Path.insertion)
          (fun x => compPath s (aget cl.mutTick e) (decide (m > s.lastRun) || decide (visState s cl e = Vis.State.gained)) x.2.1 x.2.2 = Path.mutation)
          (by intro x h1 h2; rw [h1] at h2; cases h2)
    · split at h <;> cases h

/-- … and the record of a mutate message -/
theorem collect_toMutate_values (s : Server) (hrates : (s.rates.map (·.1)).Nodup) (thisRun : Nat) (cl : Cli) (e : Nat)
    (ent : SEnt) (m : Nat) (r : MsgEnt) (h : (collectEntity s thisRun cl e ent m).toMutate = some r) :
    r.ent = e ∧ (r.comps.map (·.1)).Nodup ∧ ∀ k v, (k, v) ∈ r.comps → ∃ rt c, (k, rt, c) ∈ present s ent ∧ v = c.val := by
  have hn := present_keys_nodup s ent hrates
  unfold collectEntity at h
  simp only at h
  split at h
  · cases h
  · split at h
    · split at h <;> cases h
    · split at h
      · simp only [Option.some.injEq] at h
        rw [← h]
        refine ⟨rfl, (recHalf_keys_sublist (present s ent)
          (fun x => compPath s (aget cl.mutTick e) (decide (m > s.lastRun) || decide (visState s cl e = Vis.State.gained)) x.2.1 x.2.2 = Path.mutation)).nodup hn, ?_⟩
        intro k v hm
        obtain ⟨rt, c, p, _, e⟩ := (mem_recHalf (present s ent)
          (fun x => compPath s (aget cl.mutTick e) (decide (m > s.lastRun) || decide (visState s cl e = Vis.State.gained)) x.2.1 x.2.2 = Path.mutation) k v).mp hm
        exact ⟨rt, c, p, e⟩
      · cases h

end Replicon.Srv

namespace Replicon.Cli
open Replicon Replicon.Srv

/-- a mutate record that is applied (its tick is newer than the entity's confirmed tick): every plain
component it names has the record's value afterwards, every other value stays -/
theorem applyMutEnt_vals (c : Client) (tick : Nat) (m : MsgEnt) (wf : WF c) (ce : Nat) (ent : CEnt) (last : Nat)
    (hs : aget c.s2c m.ent = some ce) (hw : aget c.world ce = some ent) (hh : ent.hist = some last) (hnew : tick > last)
    (hnd : (m.comps.map (·.1)).Nodup) :
    ∃ c', applyMutEnt c tick m = .ok c' ∧ WF c' ∧
      ∀ se k, c.entityComps.contains k = false →
        valOn c' se k = (if aget c.s2c se = some ce ∧ k ∈ m.comps.map (·.1) then aget m.comps k else valOn c se k) := by
  refine ⟨writeComps (confirm c ce tick) ce m.comps, ?_, ?_, ?_⟩
  · unfold applyMutEnt
    simp only [hs, hw, hh, if_pos hnew]
  · obtain ⟨w1, _, _, _⟩ := confirm_keeps c ce tick wf
    exact (writeComps_keeps ce m.comps (confirm c ce tick) w1).1
  · intro se k hplain
    obtain ⟨w1, _, k3, _⟩ := confirm_keeps c ce tick wf
    obtain ⟨ent', he', _⟩ := k3 ce ent hw
    have hp1 : (confirm c ce tick).entityComps.contains k = false := by rw [confirm_entityComps]; exact hplain
    rw [writeComps_vals ce m.comps (confirm c ce tick) w1 (by rw [he']; rfl) hnd se k hp1, confirm_vals]
    have hs2 : (confirm c ce tick).s2c = c.s2c := by
      unfold confirm
      cases aget c.world ce <;> rfl
    rw [hs2]

end Replicon.Cli

namespace Replicon.Srv
open Replicon Replicon.Cli

/-- **One frame, both sides, every CHANGES record.**  In a state of the invariants, for an authorized
client without pending pre-spawn mapping and a well-formed receiver that holds the tracked
entities: every record of the run's update message is about an entity of the server's world, and
after applying the message the receiver has, for every plain component kind the record names,
exactly the value the server entity's component has now. -/
theorem frame_update_record_values (p : Server) (sinv : SyncInv p) (hrm : RemovalsMarked p)
    (hrates : (p.rates.map (·.1)).Nodup)
    (x : Nat × Cli) (hx : x ∈ p.clients) (hmap : x.2.mappings = [])
    (c : Client) (wf : WF c) (hh : ∀ se, held c se ↔ se ∈ keys x.2)
    (u : Update) (hu : (runClient p (p.now + 1) x.2).2.update = some u)
    (r : MsgEnt) (hr : r ∈ u.changes) :
    ∃ ent, (r.ent, ent) ∈ p.world ∧
      ∀ k, k ∈ r.comps.map (·.1) → c.entityComps.contains k = false →
        ∃ rt comp, (k, rt, comp) ∈ present p ent ∧ valOn (applyUpdate c u) r.ent k = some comp.val := by
  have hchg := (runClient_sections p _ x.2 u hu).2.2
  have hr' := hr
  rw [hchg, List.mem_filterMap] at hr'
  obtain ⟨⟨e, o⟩, ho, hto⟩ := hr'
  obtain ⟨ent, m, hw, hmk, rfl⟩ := (mem_entityOuts p _ _ e _).mp ho
  simp only at hto
  have he := (collect_toUpdate p _ _ e ent m r hto).1
  subst he
  refine ⟨ent, hw, ?_⟩
  intro k hk hplain
  obtain ⟨hnd, hval⟩ := collect_toUpdate_values p hrates _ _ r.ent ent m r hto
  have hall : ∀ mm ∈ u.changes, mm.ent = r.ent → mm = r := by
    intro mm hmm hme
    rw [hchg, List.mem_filterMap] at hmm
    obtain ⟨⟨e', o'⟩, ho', hto'⟩ := hmm
    obtain ⟨ent2, m2, w1, w2, rfl⟩ := (mem_entityOuts p _ _ e' o').mp ho'
    simp only at hto'
    have he' := (collect_toUpdate p _ _ e' ent2 m2 mm hto').1
    rw [hme] at he'
    subst he'
    have := world_unique p sinv.worldNodup r.ent ent ent2 hw w1
    subst this
    rw [hmk] at w2
    simp only [Option.some.injEq] at w2
    subst w2
    rw [hto] at hto'
    exact (Option.some.inj hto').symm
  have hmp : u.mappings = [] := (frame_msg_ok p sinv hrm x hx hmap c hh u hu).1
  rw [applyUpdate_record_vals c u wf hmp r.ent r hr rfl hall hnd k hk hplain]
  rw [List.mem_map] at hk
  obtain ⟨⟨k', v⟩, hkv, rfl⟩ := hk
  obtain ⟨rt, comp, hp, rfl⟩ := hval k' v hkv
  exact ⟨rt, comp, hp, aget_of_mem_nodup r.comps k' comp.val hnd hkv⟩

/-- **… and every record of the run's mutate messages.**  A record `collect_changes` puts into the
mutate messages of a run names an entity of the server's world and carries, for each of its kinds,
the component's current value; a receiver that maps the entity to a live entity confirmed at an
older tick has exactly these values afterwards (and every other value unchanged). -/
theorem frame_mutate_record_values (p : Server) (hrates : (p.rates.map (·.1)).Nodup)
    (x : Nat × Cli) (r : MsgEnt) (hr : r ∈ (runClient p (p.now + 1) x.2).2.mutEnts)
    (c : Client) (wf : WF c) (tick : Nat) (ce : Nat) (cent : CEnt) (last : Nat)
    (hs : aget c.s2c r.ent = some ce) (hw : aget c.world ce = some cent) (hh : cent.hist = some last) (hnew : tick > last) :
    ∃ ent c', (r.ent, ent) ∈ p.world ∧ applyMutEnt c tick r = .ok c' ∧ WF c' ∧
      (∀ k, k ∈ r.comps.map (·.1) → c.entityComps.contains k = false →
        ∃ rt comp, (k, rt, comp) ∈ present p ent ∧ valOn c' r.ent k = some comp.val) ∧
      (∀ se k, c.entityComps.contains k = false → ¬ (aget c.s2c se = some ce ∧ k ∈ r.comps.map (·.1)) →
        valOn c' se k = valOn c se k) := by
  have hr' : r ∈ (entityOuts p (p.now + 1) (runCl1 p x.2)).filterMap fun x => x.2.toMutate := by
    have : (runClient p (p.now + 1) x.2).2.mutEnts =
        (entityOuts p (p.now + 1) (runCl1 p x.2)).filterMap fun x => x.2.toMutate := by
      unfold runClient runCl1
      simp only
      split <;> rfl
    rw [← this]; exact hr
  rw [List.mem_filterMap] at hr'
  obtain ⟨⟨e, o⟩, ho, hto⟩ := hr'
  obtain ⟨ent, m, hwld, _, rfl⟩ := (mem_entityOuts p _ _ e _).mp ho
  simp only at hto
  obtain ⟨he, hnd, hval⟩ := collect_toMutate_values p hrates _ _ e ent m r hto
  subst he
  obtain ⟨c', hok, wf', hv⟩ := applyMutEnt_vals c tick r wf ce cent last hs hw hh hnew hnd
  refine ⟨ent, c', hwld, hok, wf', ?_, ?_⟩
  · intro k hk hplain
    rw [hv r.ent k hplain, if_pos ⟨hs, hk⟩]
    rw [List.mem_map] at hk
    obtain ⟨⟨k', v⟩, hkv, rfl⟩ := hk
    obtain ⟨rt, comp, hp, rfl⟩ := hval k' v hkv
    exact ⟨rt, comp, hp, aget_of_mem_nodup r.comps k' comp.val hnd hkv⟩
  · intro se k hplain hne
    rw [hv se k hplain, if_neg hne]

end Replicon.Srv

namespace Replicon.Joint
open Replicon Replicon.Srv Replicon.Cli

/-- **Every record of an update message arrives with the server's values, over ALL histories, both
models.**  After any history (entity identifiers not reused, a stopped server sees a frame before
a restart, no pre-spawn mappings; replication rules for distinct components), in the next frame of
a running server, for every client: each record of the CHANGES section of the update message the
run sends it — for a new entity, an insertion, or pending mutations that travel with an insertion
or removal — names an entity of the server's world, and the client model that was fed the
session's update messages in order and now applies this one has, for every plain component kind
the record names, exactly the value that component has on the server now. -/
theorem history_update_record_values (s0 : Server) (hw : s0.world = []) (hc0 : s0.clients = []) (hb : s0.removalBuf = [])
    (hrates : (s0.rates.map (·.1)).Nodup)
    (ops : List Op) (hl : Legal2 { srv := s0 } ops) (ticked : Bool) (ms : Nat)
    (hr : (run { srv := s0 } ops).1.srv.running = true)
    (z : Nat × Cli) (hz : z ∈ (run { srv := s0 } ops).1.srv.clients)
    (u : Update)
    (hu : (runClient (preRun (run { srv := s0 } ops).1.srv ticked ms)
        ((preRun (run { srv := s0 } ops).1.srv ticked ms).now + 1) (preG (run { srv := s0 } ops).1.srv ms z.2)).2.update = some u)
    (r : MsgEnt) (hrec : r ∈ u.changes) :
    ∃ ent, (r.ent, ent) ∈ (run { srv := s0 } ops).1.srv.world ∧
      ∀ k, k ∈ r.comps.map (·.1) →
        (replay ((runLog { srv := s0 } (fun _ => []) ops).2 z.1)).entityComps.contains k = false →
        ∃ rt comp, (k, rt, comp) ∈ present (run { srv := s0 } ops).1.srv ent ∧
          valOn (applyUpdate (replay ((runLog { srv := s0 } (fun _ => []) ops).2 z.1)) u) r.ent k = some comp.val := by
  have inv0 : SessInv ({ srv := s0 } : St) (fun _ => []) := by
    refine ⟨sync_empty s0 hw hc0, ⟨fun _ => hb, fun _ r hrm => ?_⟩, ?_⟩
    · have : r ∈ s0.removalBuf := hrm
      rw [hb] at this; cases this
    · intro y hy
      have : y ∈ s0.clients := hy
      rw [hc0] at this; cases this
  have inv := sess_run ops _ _ inv0 hl
  rw [runLog_fst] at inv
  have hrt : (run { srv := s0 } ops).1.srv.rates = s0.rates := run_rates ops _
  generalize (run { srv := s0 } ops).1 = st at inv hr hz hu hrt ⊢
  generalize (runLog { srv := s0 } (fun _ => []) ops).2 = log at inv ⊢
  obtain ⟨m1, _, m3, m4, _⟩ := inv.cli z hz
  have sinvp := preRun_sync st.srv ticked ms inv.sync
  have hrm := (preRun_rem st.srv ticked ms hr inv.rem).1
  obtain ⟨p1, _, _, _, p5⟩ := preRun_fields st.srv ticked ms
  obtain ⟨_, _, _, q4, _, _, _⟩ := preRun_kindfields st.srv ticked ms hr
  have hy : (z.1, preG st.srv ms z.2) ∈ (preRun st.srv ticked ms).clients := by
    rw [p5]; exact List.mem_map_of_mem (f := fun x => (x.1, preG st.srv ms x.2)) hz
  have hmap : (preG st.srv ms z.2).mappings = [] := (preG_mappings _ _ _).trans m1
  have hh : ∀ se, held (replay (log z.1)) se ↔ se ∈ keys (preG st.srv ms z.2) :=
    fun se => (m4 se).trans ((preG_sync st.srv ms z.2).2.1 se).symm
  have hrates' : ((preRun st.srv ticked ms).rates.map (·.1)).Nodup := by rw [q4, hrt]; exact hrates
  obtain ⟨ent, hwld, hv⟩ := frame_update_record_values (preRun st.srv ticked ms) sinvp hrm hrates'
    (z.1, preG st.srv ms z.2) hy hmap (replay (log z.1)) m3 hh u hu r hrec
  refine ⟨ent, by rw [← p1]; exact hwld, ?_⟩
  intro k hk hplain
  obtain ⟨rt, comp, hp, hval⟩ := hv k hk hplain
  exact ⟨rt, comp, by rw [← present_congr st.srv _ q4]; exact hp, hval⟩

end Replicon.Joint
